package storage

// C03 / C04 harness (storage READ path).
//
// Every case is a step list (append / prepareFlush / uploadFlush ok / uploadFlush
// failing / Flush / Read) that is executed on a real PartitionLog over the repo's
// MemoryS3Client (wrapped only to count downloads and to fail uploads on demand)
// and, optionally, a real SegmentCache. Two more logs (same topic other partition,
// other topic same partition) share the S3 client and the cache and receive the
// mirrored history with different payload bytes, so cross-talk is observable.
//
// Implementation-side oracles, evaluated against a reference log kept here:
//   C03  the returned bytes are a prefix of the concatenation of this partition's
//        live batches from some batch i0 on, every batch before i0 ends below the
//        requested offset (so i0 is at or before the batch holding o, or the first
//        batch after o when o is in a gap), bytes equal payload with patched base.
//   C04  when maxBytes > 0 and some live batch ends at or after o, Read succeeds and
//        the result reaches past the start of the first such batch.
// All steps + observations are emitted as Coq terms for corr/ReadPathCorr.v.

import (
	"bytes"
	"context"
	"encoding/binary"
	"encoding/json"
	"errors"
	"fmt"
	"sort"
	"strings"
	"testing"

	"github.com/KafScale/platform/pkg/cache"
)

type srOp struct {
	K      string `json:"k"` // append | prepare | commit | fail | flush | read
	Len    int    `json:"len,omitempty"`
	Lod    int32  `json:"lod,omitempty"`
	Count  int32  `json:"count,omitempty"`
	Marker byte   `json:"marker,omitempty"`
	BLen   *int32 `json:"blen,omitempty"` // batchLength field; nil = Len-12 (well framed)
	Off    int64  `json:"off,omitempty"`
	Max    int32  `json:"max,omitempty"`
	FailIx bool   `json:"fail_index,omitempty"` // fail: the index upload fails instead of the segment upload; restart: the crashed process had uploaded the in-flight .kfs but not its .index
	Store  int    `json:"store,omitempty"`      // restart: start offset = 0 last committed+1, 1 one commit behind, 2 the original start, 3 two ahead
	Fresh  bool   `json:"fresh,omitempty"`      // restart: with an empty cache
}

type srCase struct {
	Interval int32  `json:"interval"`
	Start    int64  `json:"start"`
	Cache    int    `json:"cache"`          // 0 off, >0 capacity in bytes
	Auto     int    `json:"auto"`           // WriteBufferConfig.MaxBatches (0 = flush only when told)
	Fam      bool   `json:"fam,omitempty"`  // keep a family of partitions / topics / namespaces whose names are prefixes of one another live on the same S3 client and cache
	Part     int32  `json:"part,omitempty"` // fam: partition id of the log under test
	Ops      []srOp `json:"ops"`
}

// ---- S3: the repo's in-memory client, counting downloads, failing uploads on demand
type srS3 struct {
	*MemoryS3Client
	failSeg, failIdx bool
	lastDl           int // 0 none, 1 range, 2 full
	listPrefix       string
	listKeys         []string // what the last ListSegments call returned
}

var errSrInjected = errors.New("injected upload failure")

func (s *srS3) UploadSegment(ctx context.Context, key string, body []byte) error {
	if s.failSeg {
		return errSrInjected
	}
	return s.MemoryS3Client.UploadSegment(ctx, key, body)
}
func (s *srS3) UploadIndex(ctx context.Context, key string, body []byte) error {
	if s.failIdx {
		return errSrInjected
	}
	return s.MemoryS3Client.UploadIndex(ctx, key, body)
}
func (s *srS3) ListSegments(ctx context.Context, prefix string) ([]S3Object, error) {
	objs, err := s.MemoryS3Client.ListSegments(ctx, prefix)
	s.listPrefix, s.listKeys = prefix, nil
	for _, o := range objs {
		s.listKeys = append(s.listKeys, o.Key)
	}
	sort.Strings(s.listKeys)
	return objs, err
}
func (s *srS3) DownloadSegment(ctx context.Context, key string, rng *ByteRange) ([]byte, error) {
	if rng != nil {
		s.lastDl = 1
	} else {
		s.lastDl = 2
	}
	return s.MemoryS3Client.DownloadSegment(ctx, key, rng)
}

func srPayload(op srOp, markerXor byte) []byte {
	n := op.Len
	if n < 0 {
		n = 0
	}
	m := op.Marker ^ markerXor
	d := make([]byte, n)
	for i := range d {
		d[i] = m + byte(i)
	}
	put32 := func(off int, v uint32) {
		if off+4 <= n {
			binary.BigEndian.PutUint32(d[off:off+4], v)
		}
	}
	bl := int32(n - 12)
	if op.BLen != nil {
		bl = *op.BLen
	}
	put32(8, uint32(bl))
	put32(12, 0)
	if n > 16 {
		d[16] = 2
	}
	if n > 22 {
		d[21], d[22] = 0, 0
	}
	put32(23, uint32(op.Lod))
	put32(57, uint32(op.Count))
	return d
}

type srID struct {
	ns, topic string
	part      int32
}

type srBatch struct {
	base, last int64
	bytes      []byte
}

type srFail struct{ oracle, key, what string }

type srResult struct {
	steps     []string
	c03, c04  []srFail
	tags      map[string]bool
	reads     int
	requeue   bool
	nSegReads int
}

var srRequeueProbe = -1

// srRequeue reports what uploadFlush does with the in-flight batches when an upload
// fails: HEAD drops them, the C01 fix puts them back at the front of the buffer.
func srRequeue() bool {
	if srRequeueProbe < 0 {
		s3 := &srS3{MemoryS3Client: NewMemoryS3Client()}
		l := NewPartitionLog("probe", "t", 0, 0, s3, nil, PartitionLogConfig{Buffer: WriteBufferConfig{MaxBytes: 1 << 30}, Segment: SegmentWriterConfig{IndexIntervalMessages: 1}}, nil, nil, nil)
		b, _ := NewRecordBatchFromBytes(srPayload(srOp{Len: 61, Count: 1}, 0))
		_, _ = l.AppendBatch(context.Background(), b)
		s3.failSeg = true
		_ = l.Flush(context.Background())
		l.buffer.mu.Lock()
		n := len(l.buffer.batches)
		l.buffer.mu.Unlock()
		srRequeueProbe = 0
		if n > 0 {
			srRequeueProbe = 1
		}
	}
	return srRequeueProbe == 1
}

var srExtProbe = -1

// srExt reports whether computeSegmentRange has the cap extension of
// fixes/C04-never-cut-inside-index-block.patch (the model has both versions).
func srExt() bool {
	if srExtProbe < 0 {
		s3 := &srS3{MemoryS3Client: NewMemoryS3Client()}
		l := NewPartitionLog("probe", "t", 0, 0, s3, nil, PartitionLogConfig{Buffer: WriteBufferConfig{MaxBytes: 1 << 30}, Segment: SegmentWriterConfig{IndexIntervalMessages: 3}}, nil, nil, nil)
		for i := 0; i < 4; i++ {
			b, _ := NewRecordBatchFromBytes(srPayload(srOp{Len: 61, Count: 1}, 0))
			_, _ = l.AppendBatch(context.Background(), b)
		}
		_ = l.Flush(context.Background())
		d, _ := l.Read(context.Background(), 1, 10)
		srExtProbe = 0
		if len(d) > 10 {
			srExtProbe = 1
		}
	}
	return srExtProbe == 1
}

func srEntries(es []*IndexEntry) string {
	items := make([]string, len(es))
	for i, e := range es {
		items[i] = fmt.Sprintf("(%s, %s)", cqZ(e.Offset), cqZ(int64(e.Position)))
	}
	return cqList(items)
}

func srRun(cs srCase) *srResult {
	ctx := context.Background()
	res := &srResult{tags: map[string]bool{}, requeue: srRequeue()}
	s3 := &srS3{MemoryS3Client: NewMemoryS3Client()}
	var sc *cache.SegmentCache
	if cs.Cache > 0 {
		sc = cache.NewSegmentCache(cs.Cache)
	}
	startAt := cs.Start
	mk := func(id srID) *PartitionLog {
		return NewPartitionLog(id.ns, id.topic, id.part, startAt, s3, sc, PartitionLogConfig{
			Buffer:       WriteBufferConfig{MaxBytes: 1 << 30, MaxBatches: cs.Auto},
			Segment:      SegmentWriterConfig{IndexIntervalMessages: cs.Interval},
			CacheEnabled: cs.Cache > 0,
		}, nil, nil, nil)
	}
	// the log under test is partition 1 so that a constant 0 / default partition in a key is visible
	ids := []srID{{"ns", "orders", 1}, {"ns", "orders", 0}, {"ns", "orders2", 1}}
	if cs.Fam {
		// partition ids that are decimal prefixes of one another, topic names and
		// namespaces likewise; every log starts at the same offset, so base offsets coincide
		ids = []srID{{"ns", "orders", cs.Part}}
		for _, p := range []int32{0, 1, 2, 10, 11, 12, 13, 14, 15, 16, 17, 18, 19, 20, 21, 100} {
			if p != cs.Part {
				ids = append(ids, srID{"ns", "orders", p})
			}
		}
		ids = append(ids, srID{"ns", "orders2", cs.Part}, srID{"ns", "order", cs.Part}, srID{"ns2", "orders", cs.Part}, srID{"n", "orders", cs.Part})
	}
	logs := make([]*PartitionLog, len(ids))
	xors := make([]byte, len(ids))
	for i, id := range ids {
		logs[i] = mk(id)
		if i > 0 {
			xors[i] = byte(i*13 + 7)
		}
	}
	storeCur, storePrev := cs.Start, cs.Start // what onFlush would have published for the log under test
	arts := make([]*SegmentArtifact, len(logs))
	main := logs[0]

	var hist []srBatch
	var refSegs [][]srBatch
	var refFlight, refBuf []srBatch
	live := func() []srBatch {
		var out []srBatch
		for _, s := range refSegs {
			out = append(out, s...)
		}
		out = append(out, refFlight...)
		return append(out, refBuf...)
	}
	state := func() (next int64, nsegs, nflush, nbuf int) {
		main.mu.Lock()
		next, nsegs, nflush = main.nextOffset, len(main.segments), len(main.flushingBatches)
		main.mu.Unlock()
		main.buffer.mu.Lock()
		nbuf = len(main.buffer.batches)
		main.buffer.mu.Unlock()
		return
	}
	emitOp := func(op string) {
		next, nsegs, nflush, nbuf := state()
		res.steps = append(res.steps, fmt.Sprintf("SOp (%s) %s %d %d %d", op, cqZ(next), nsegs, nflush, nbuf))
	}
	segKey := func(k int) (string, segmentRange) {
		main.mu.Lock()
		sr := main.segments[k]
		main.mu.Unlock()
		return main.segmentKey(sr.baseOffset), sr
	}
	emitSeg := func(k int) {
		key, sr := segKey(k)
		obj := s3.MemoryS3Client.data[key]
		parsed, _ := ParseIndex(s3.MemoryS3Client.index[main.indexKey(sr.baseOffset)])
		main.mu.Lock()
		mem := main.indexEntries[sr.baseOffset]
		main.mu.Unlock()
		res.steps = append(res.steps, fmt.Sprintf("SSeg %d %s %s %s %s %s %s", k, cqBytes(obj), srEntries(parsed), srEntries(mem), cqZ(sr.baseOffset), cqZ(sr.lastOffset), cqZ(sr.size)))
	}
	// (created_ms, crc) BuildSegment put into the artifact
	artMeta := func(seg []byte) (int64, uint32) {
		if len(seg) < 48 {
			return 0, 0
		}
		return int64(binary.BigEndian.Uint64(seg[20:28])), binary.BigEndian.Uint32(seg[len(seg)-16 : len(seg)-12])
	}
	// after an operation that may have flushed on its own (Flush, AppendBatch threshold)
	noteAutoFlush := func(segsBefore int) {
		_, nsegs, _, _ := state()
		if nsegs > segsBefore {
			key, _ := segKey(nsegs - 1)
			created, crc := artMeta(s3.MemoryS3Client.data[key])
			_, _, _, nbufNow := state()
			_ = nbufNow
			next, _, _, _ := state()
			res.steps = append(res.steps, fmt.Sprintf("SOp (OPrepare %s %s) %s %d %d %d", cqZ(created), cqZ(int64(crc)), cqZ(next), segsBefore, len(refBuf), 0))
			emitOp("OCommit")
			refSegs = append(refSegs, refBuf)
			storePrev, storeCur = storeCur, refBuf[len(refBuf)-1].last+1
			refBuf = nil
			emitSeg(nsegs - 1)
			res.tags["glue-flush"] = true
		}
	}

	for opIdx, op := range cs.Ops {
		switch op.K {
		case "append":
			_, segsBefore, _, _ := state()
			for i, l := range logs {
				if cs.Fam && i > 0 && (opIdx*7+i*3)%4 == 0 {
					continue // the other logs of the family hold different volumes
				}
				p := srPayload(op, xors[i])
				b, err := NewRecordBatchFromBytes(p)
				if err != nil {
					continue
				}
				r, err := l.AppendBatch(ctx, b)
				if i == 0 && err == nil {
					ref := append([]byte(nil), p...)
					binary.BigEndian.PutUint64(ref[0:8], uint64(r.BaseOffset))
					sb := srBatch{base: r.BaseOffset, last: r.BaseOffset + int64(op.Lod), bytes: ref}
					hist = append(hist, sb)
					refBuf = append(refBuf, sb)
				}
			}
			bl := int64(op.Len - 12)
			if op.BLen != nil {
				bl = int64(*op.BLen)
			}
			// the buffer length observed here is before a threshold flush drained it
			if _, nsegs, _, _ := state(); nsegs > segsBefore {
				next, _, nfl, _ := state()
				res.steps = append(res.steps, fmt.Sprintf("SOp (OAppend (mk_payload %d %s %s %d %s)) %s %d %d %d", op.Len, cqZ(int64(op.Lod)), cqZ(int64(op.Count)), op.Marker, cqZ(bl), cqZ(next), segsBefore, nfl, len(refBuf)))
				noteAutoFlush(segsBefore)
			} else {
				emitOp(fmt.Sprintf("OAppend (mk_payload %d %s %s %d %s)", op.Len, cqZ(int64(op.Lod)), cqZ(int64(op.Count)), op.Marker, cqZ(bl)))
			}
		case "prepare":
			var created int64
			var crc uint32
			for i, l := range logs {
				if arts[i] != nil {
					continue
				}
				l.mu.Lock()
				a, _ := l.prepareFlush()
				l.mu.Unlock()
				arts[i] = a
				if i == 0 && a != nil {
					created, crc = artMeta(a.SegmentBytes)
					refFlight, refBuf = refBuf, nil
				}
			}
			emitOp(fmt.Sprintf("OPrepare %s %s", cqZ(created), cqZ(int64(crc))))
		case "commit", "fail":
			for i, l := range logs {
				if arts[i] == nil {
					continue
				}
				if op.K == "fail" {
					s3.failSeg, s3.failIdx = !op.FailIx, op.FailIx
				}
				err := l.uploadFlush(ctx, arts[i])
				s3.failSeg, s3.failIdx = false, false
				arts[i] = nil
				if i == 0 {
					if err == nil {
						refSegs = append(refSegs, refFlight)
						storePrev, storeCur = storeCur, refFlight[len(refFlight)-1].last+1
					} else if res.requeue {
						refBuf = append(append([]srBatch(nil), refFlight...), refBuf...)
					} else {
						res.tags["dropped-by-failed-flush"] = true
					}
					refFlight = nil
				}
			}
			if op.K == "commit" {
				_, before, _, _ := state()
				emitOp("OCommit")
				if n := len(refSegs); n > 0 && n == before {
					emitSeg(n - 1)
				}
			} else {
				emitOp("OFail")
			}
		case "flush":
			if arts[0] != nil {
				continue // Flush would wait for the in-flight flush we are holding
			}
			_, segsBefore, _, _ := state()
			for _, l := range logs {
				_ = l.Flush(ctx)
			}
			noteAutoFlush(segsBefore)
		case "restart":
			// the process dies: buffer and in-flight batches are gone; optionally the
			// in-flight segment object had reached S3 without its index (orphan)
			for i, l := range logs {
				if arts[i] != nil && op.FailIx {
					// Not generated: an .index left under the same key by an EARLIER failed flush
					// (its index upload had succeeded) would pair up with this .kfs, and the
					// restore would register a segment that uploadFlush never committed, with
					// the index of the earlier, shorter buffer. That S3 state is outside
					// model/ReadRestore.v (restore = the committed segments).
					if _, stale := s3.MemoryS3Client.index[l.indexKey(arts[i].BaseOffset)]; stale {
						res.tags["orphan-skipped-stale-index"] = true
					} else {
						_ = s3.MemoryS3Client.UploadSegment(ctx, l.segmentKey(arts[i].BaseOffset), arts[i].SegmentBytes)
					}
				}
				arts[i] = nil
			}
			if op.Fresh && cs.Cache > 0 {
				sc = cache.NewSegmentCache(cs.Cache)
			}
			sn := storeCur
			switch op.Store {
			case 1:
				sn = storePrev
			case 2:
				sn = cs.Start
			case 3:
				sn = storeCur + 2
			}
			failed := false
			var mainPrefix string
			var mainKeys []string
			for i := range logs {
				startAt = sn
				if i > 0 { // the mirrored logs restart from their own last committed offset
					startAt = cs.Start
					logs[i].mu.Lock()
					if n := len(logs[i].segments); n > 0 {
						startAt = logs[i].segments[n-1].lastOffset + 1
					}
					logs[i].mu.Unlock()
				}
				nl := mk(ids[i])
				_, err := nl.RestoreFromS3(ctx)
				if i == 0 {
					mainPrefix, mainKeys = s3.listPrefix, s3.listKeys
				}
				if err != nil {
					failed = i == 0
					if i == 0 {
						break
					}
				}
				logs[i] = nl
			}
			if failed {
				res.tags["restore-failed"] = true
				return res // no log, no reads: the history ends here
			}
			main = logs[0]
			refFlight, refBuf = nil, nil
			storeCur, storePrev = sn, sn
			if n := len(refSegs); n > 0 {
				if v := refSegs[n-1][len(refSegs[n-1])-1].last + 1; v > storeCur {
					storeCur, storePrev = v, v
				}
			}
			{
				main.mu.Lock()
				items := make([]string, len(main.segments))
				for k, sr := range main.segments {
					items[k] = fmt.Sprintf("(%s, %s, %s, %s)", cqZ(sr.baseOffset), cqZ(sr.lastOffset), cqZ(sr.size), srEntries(main.indexEntries[sr.baseOffset]))
				}
				next := main.nextOffset
				main.mu.Unlock()
				strs := func(v []string) string {
					out := make([]string, len(v))
					for i, k := range v {
						out[i] = cqStr(k)
					}
					return cqList(out)
				}
				var all []string
				for k := range s3.MemoryS3Client.data {
					all = append(all, k)
				}
				sort.Strings(all)
				res.steps = append(res.steps, fmt.Sprintf("SRestart %s %s %s %s %s %d %s %s %s", cqZ(sn), cqZ(next), cqList(items),
					cqStr(ids[0].ns), cqStr(ids[0].topic), ids[0].part, cqStr(mainPrefix), strs(mainKeys), strs(all)))
			}
			res.tags["restart"] = true
		case "read":
			srRead(cs, op, res, main, s3, live(), hist, refSegs, len(refFlight) > 0)
		}
	}
	return res
}

// srRead performs one Read on the main log, evaluates both oracles and emits the step.
func srRead(cs srCase, op srOp, res *srResult, main *PartitionLog, s3 *srS3, live, hist []srBatch, refSegs [][]srBatch, inWindow bool) {
	ctx := context.Background()
	// which segment (if any) serves this offset
	segIdx := -1
	snapped := op.Off
	main.mu.Lock()
	for i, s := range main.segments {
		if op.Off >= s.baseOffset && op.Off <= s.lastOffset {
			segIdx = i
			break
		}
		if s.baseOffset > op.Off {
			segIdx, snapped = i, s.baseOffset
			break
		}
	}
	var entries []*IndexEntry
	var segBase int64
	if segIdx >= 0 {
		segBase = main.segments[segIdx].baseOffset
		entries = main.indexEntries[segBase]
	}
	main.mu.Unlock()

	s3.lastDl = 0
	var data []byte
	var err error
	panicked := false
	func() {
		defer func() {
			if r := recover(); r != nil {
				panicked = true
			}
		}()
		data, err = main.Read(ctx, op.Off, op.Max)
	}()
	res.reads++
	hit := segIdx >= 0 && cs.Cache > 0 && s3.lastDl == 0
	path := s3.lastDl

	// ---- observation for the model
	var x string
	switch {
	case panicked:
		x = "XPanic"
	case errors.Is(err, ErrOffsetOutOfRange):
		x = "XOutOfRange"
	case err != nil:
		x = "XErr"
	default:
		x = ""
		if segIdx >= 0 && len(data) > 0 {
			obj := s3.MemoryS3Client.data[main.segmentKey(segBase)]
			if a := bytes.Index(obj, data); a >= 0 {
				x = fmt.Sprintf("XSeg %d %d %d", segIdx, a, a+len(data))
			}
		} else if len(data) >= 8 {
			for i := range hist {
				if !bytes.HasPrefix(data, hist[i].bytes) {
					continue
				}
				n, total := 0, 0
				for j := i; j < len(hist) && total < len(data); j++ {
					if !bytes.HasPrefix(data[total:], hist[j].bytes) {
						break
					}
					total += len(hist[j].bytes)
					n++
				}
				if total == len(data) {
					x = fmt.Sprintf("XBatches %d %d", i, n)
					break
				}
			}
		}
		if x == "" {
			x = "XRaw " + cqBytes(data)
		}
	}
	res.steps = append(res.steps, fmt.Sprintf("SRead %s %s %s %d (%s)", cqZ(op.Off), cqZ(int64(op.Max)), cqBool(hit), path, x))

	// ---- reference view
	idx := -1 // first live batch ending at or after the offset
	for i, b := range live {
		if b.last >= op.Off {
			idx = i
			break
		}
	}
	desc := fmt.Sprintf("Read(offset=%d, maxBytes=%d) interval=%d cache=%d", op.Off, op.Max, cs.Interval, cs.Cache)
	if segIdx >= 0 {
		res.nSegReads++
		res.tags[fmt.Sprintf("path-%d", path)] = true
		if hit {
			res.tags["cache-hit"] = true
		}
	} else if err == nil {
		res.tags["memory-read"] = true
		if inWindow {
			res.tags["flush-window-read"] = true
		}
	}
	if panicked {
		res.c03 = append(res.c03, srFail{"no-crash", "read-panicked", desc + " panicked"})
		return
	}
	i0 := -1
	var cands []int // every batch boundary from which the result is a prefix of the log (short results are ambiguous)
	if err == nil {
		// C03: a run of this partition's log
		for i := range live {
			total, ok := 0, true
			for j := i; j < len(live) && total < len(data); j++ {
				n := len(live[j].bytes)
				if n > len(data)-total {
					n = len(data) - total
				}
				if !bytes.Equal(data[total:total+n], live[j].bytes[:n]) {
					ok = false
					break
				}
				total += n
			}
			if ok && total == len(data) {
				cands = append(cands, i)
			}
		}
		if len(cands) > 0 {
			i0 = cands[0] // C03: the earliest boundary is the easiest to justify
		}
		switch {
		case len(data) == 0:
			res.c03 = append(res.c03, srFail{"run-of-log", "empty-success", desc + " returned no bytes and no error"})
		case i0 < 0:
			res.c03 = append(res.c03, srFail{"run-of-log", "not-a-run-of-this-partitions-log", fmt.Sprintf("%s returned %d bytes that are not a prefix of the concatenation of this partition's batches from any batch boundary (first 8 bytes %v)", desc, len(data), data[:srMin(8, len(data))])})
		default:
			for j := 0; j < i0; j++ {
				if live[j].last >= op.Off {
					key := "starts-after-requested-offset"
					if segIdx < 0 && inWindow {
						key = "flush-window-buffer-first"
					}
					res.c03 = append(res.c03, srFail{"start-at-or-before", key, fmt.Sprintf("%s returned a run starting at base offset %d although the batch [%d,%d] before it ends at or after the requested offset: records skipped", desc, live[i0].base, live[j].base, live[j].last)})
					break
				}
			}
			if i0 < idx {
				res.tags["starts-before-holding-batch"] = true
			}
		}
	}
	// C04: progress
	if op.Max > 0 && idx >= 0 {
		if err != nil {
			res.c04 = append(res.c04, srFail{"progress", "error-below-high-watermark", fmt.Sprintf("%s failed with %v although batch [%d,%d] is readable", desc, err, live[idx].base, live[idx].last)})
		} else if i0 >= 0 {
			// C04 is existential too: the latest boundary at or before the holding batch is the best reading
			for _, c := range cands {
				if c <= idx {
					i0 = c
				}
			}
			dist := 0
			for j := i0; j < idx; j++ {
				dist += len(live[j].bytes)
			}
			if i0 > idx || len(data) <= dist {
				key := "no-progress-other"
				if segIdx >= 0 && i0 <= idx {
					// the true floor entry of the real index for the (snapped) offset
					floor := -1
					for k, e := range entries {
						if e.Offset <= snapped {
							floor = k
						}
					}
					switch {
					case floor >= 0 && entries[floor].Offset > live[i0].base:
						key = "index-lookup-not-floor"
					case floor >= 0 && entries[floor].Offset == live[i0].base && entries[floor].Offset < live[idx].base && int(op.Max) <= dist:
						key = "sparse-index-entry-before-offset+maxbytes-le-distance"
						if srExt() { // the tree has the cap extension: this must not happen any more
							key = "sparse-index-no-progress-despite-cap-extension"
						}
					}
				}
				res.c04 = append(res.c04, srFail{"progress", key, fmt.Sprintf("%s returned %d bytes starting at base offset %d; the batch holding the offset [%d,%d] starts %d bytes later: the response holds only records before the fetch offset", desc, len(data), live[i0].base, live[idx].base, live[idx].last, dist)})
			} else {
				res.tags["progress-ok"] = true
			}
		}
	}
}

func srMin(a, b int) int {
	if a < b {
		return a
	}
	return b
}

// ---------------------------------------------------------------- generator
func srGen(r *vRand, focus string) srCase {
	cs := srCase{}
	switch r.Intn(10) {
	case 0, 1, 2:
		cs.Interval = 1
	case 3, 4, 5:
		cs.Interval = 3
	case 6, 7:
		cs.Interval = 100
	case 8:
		cs.Interval = int32(r.Range(2, 6))
	default:
		cs.Interval = int32(r.Range(-1, 0))
	}
	switch r.Intn(8) {
	case 0:
		cs.Start = int64(r.Range(1, 9))
	case 1:
		cs.Start = 1000
	case 2:
		cs.Start = 1 << 40
	}
	switch r.Intn(5) {
	case 0, 1:
		cs.Cache = 0
	case 2, 3:
		cs.Cache = 1 << 20
	default:
		cs.Cache = r.Range(1, 900) // evictions: some segments cached, some not
	}
	if r.Chance(25) {
		cs.Auto = r.Range(2, 4)
	}
	illFramed := r.Chance(15)
	nApp := r.Range(3, 12)
	if focus == "C04" {
		nApp = r.Range(5, 14)
	}
	var sizes []int
	next := cs.Start
	type span struct{ base, last int64 }
	var spans []span
	randRead := func() srOp {
		op := srOp{K: "read"}
		if len(spans) == 0 || r.Chance(8) {
			op.Off = []int64{cs.Start - 1, cs.Start, next, next + 1, -1, 0}[r.Intn(6)]
		} else {
			s := spans[r.Intn(len(spans))]
			op.Off = []int64{s.base - 1, s.base, s.base + 1, s.last, s.last + 1, (s.base + s.last) / 2}[r.Intn(6)]
		}
		sz := 70
		if len(sizes) > 0 {
			sz = sizes[r.Intn(len(sizes))]
		}
		switch r.Intn(12) {
		case 0:
			op.Max = 1
		case 1:
			op.Max = 61
		case 2:
			op.Max = int32(sz - 1)
		case 3:
			op.Max = int32(sz)
		case 4:
			op.Max = int32(sz + 1)
		case 5:
			op.Max = int32(2 * sz)
		case 6:
			op.Max = 0
		case 7:
			op.Max = -1
		case 8:
			op.Max = 1 << 20
		case 9:
			op.Max = int32(r.Range(1, 6)*sz + r.Range(-1, 1))
		case 10:
			op.Max = int32(r.Range(2, 400))
		default:
			op.Max = 2147483647
		}
		return op
	}
	inflight := false
	for i := 0; i < nApp; i++ {
		op := srOp{K: "append", Marker: byte(r.Intn(256))}
		switch r.Intn(6) {
		case 0:
			op.Len = 61
		case 1:
			op.Len = r.Range(62, 140)
		default:
			op.Len = r.Range(61, 90)
		}
		switch r.Intn(4) {
		case 0:
			op.Lod = int32(r.Range(1, 6))
		case 1:
			op.Lod = int32(r.Range(0, 2))
		}
		op.Count = op.Lod + 1
		if r.Chance(10) {
			op.Count = int32(r.Range(0, int(op.Lod)+1)) // compacted batches carry fewer records than offsets
		}
		if illFramed && r.Chance(50) {
			v := int32([]int{0, -1, 7, op.Len, 49, 1 << 20}[r.Intn(6)])
			op.BLen = &v
		}
		if r.Chance(4) {
			op.Len = r.Range(0, 60) // rejected by NewRecordBatchFromBytes
		}
		cs.Ops = append(cs.Ops, op)
		if op.Len >= 61 {
			spans = append(spans, span{next, next + int64(op.Lod)})
			sizes = append(sizes, op.Len)
			next += int64(op.Lod) + 1
		}
		// flush control
		switch x := r.Intn(100); {
		case x < 14 && !inflight:
			cs.Ops = append(cs.Ops, srOp{K: "prepare"})
			inflight = true
		case x < 40 && inflight:
			cs.Ops = append(cs.Ops, srOp{K: "commit"})
			inflight = false
		case x < 46 && inflight:
			cs.Ops = append(cs.Ops, srOp{K: "fail", FailIx: r.Bool()})
			inflight = false
		case x < 56 && !inflight:
			cs.Ops = append(cs.Ops, srOp{K: "flush"})
		}
		if r.Chance(7) {
			cs.Ops = append(cs.Ops, srOp{K: "restart", FailIx: r.Bool(), Store: []int{0, 0, 0, 1, 2, 3}[r.Intn(6)], Fresh: r.Bool()})
			inflight = false
		}
		for k := r.Intn(3); k > 0; k-- {
			if inflight || r.Chance(40) {
				cs.Ops = append(cs.Ops, randRead())
			}
		}
	}
	// settle most histories, keep a tail buffered / in flight in the others
	switch r.Intn(4) {
	case 0:
	case 1:
		if !inflight {
			cs.Ops = append(cs.Ops, srOp{K: "prepare"})
		}
	default:
		if inflight {
			cs.Ops = append(cs.Ops, srOp{K: "commit"})
		}
		cs.Ops = append(cs.Ops, srOp{K: "flush"})
	}
	nReads := r.Range(14, 26)
	for i := 0; i < nReads; i++ {
		cs.Ops = append(cs.Ops, randRead())
	}
	return cs
}

// srGenFam: several flushed segments in a family of logs whose partition ids / topic
// names / namespaces are prefixes of one another, a restart of all of them from S3,
// then a Read at every offset of the log under test.
func srGenFam(r *vRand) srCase {
	cs := srCase{Fam: true, Interval: []int32{1, 3, 100}[r.Intn(3)], Part: []int32{1, 2, 10, 12, 19, 20, 1, 2}[r.Intn(8)]}
	if r.Bool() {
		cs.Cache = 1 << 20
	}
	next := int64(0)
	var sizes []int
	rounds := r.Range(2, 4)
	for k := 0; k < rounds; k++ {
		for j := r.Range(1, 3); j > 0; j-- {
			op := srOp{K: "append", Len: r.Range(61, 80), Marker: byte(r.Intn(256)), Lod: int32(r.Intn(3))}
			op.Count = op.Lod + 1
			cs.Ops = append(cs.Ops, op)
			sizes = append(sizes, op.Len)
			next += int64(op.Lod) + 1
		}
		cs.Ops = append(cs.Ops, srOp{K: "flush"})
	}
	if r.Chance(30) {
		cs.Ops = append(cs.Ops, srOp{K: "append", Len: 70, Count: 1, Marker: 3})
	}
	cs.Ops = append(cs.Ops, srOp{K: "restart", Fresh: r.Bool()})
	for o := int64(0); o <= next; o++ {
		mx := int32(1 << 20)
		if r.Chance(30) {
			mx = int32(sizes[r.Intn(len(sizes))] + r.Range(-1, 1))
		}
		cs.Ops = append(cs.Ops, srOp{K: "read", Off: o, Max: mx})
	}
	return cs
}

func srCoq(cs srCase, res *srResult) string {
	return fmt.Sprintf("mkCase %s %s %s %s %s", cqZ(int64(cs.Interval)), cqBool(res.requeue), cqBool(srExt()), cqZ(cs.Start), cqList(res.steps))
}

func srApp(n int, lod int32, ln int, marker byte) []srOp {
	out := make([]srOp, n)
	for i := range out {
		out[i] = srOp{K: "append", Len: ln, Lod: lod, Count: lod + 1, Marker: marker + byte(i)}
	}
	return out
}

// corpus: the shapes of the findings made so far, run first on every run
func srCorpus() []srCase {
	cat := func(parts ...[]srOp) []srOp {
		var out []srOp
		for _, p := range parts {
			out = append(out, p...)
		}
		return out
	}
	rd := func(off int64, max int32) []srOp { return []srOp{{K: "read", Off: off, Max: max}} }
	one := func(k string) []srOp { return []srOp{{K: k}} }
	cases := []srCase{
		// C04 open finding: sparse index entry before the offset, maxBytes <= distance (range path)
		{Interval: 3, Ops: cat(srApp(6, 0, 70, 1), one("flush"), rd(2, 100), rd(2, 141), rd(5, 70), rd(3, 1))},
		// ... and on the cached path
		{Interval: 3, Cache: 1 << 20, Ops: cat(srApp(6, 0, 70, 1), one("flush"), rd(2, 140), rd(1, 70), rd(2, 1<<20))},
		// C04 fixed finding: dense index, multi-record batches: findIndexEntry fell through to entries[0]
		{Interval: 1, Ops: cat(srApp(5, 2, 70, 9), one("flush"), rd(4, 70), rd(7, 61), rd(13, 1))},
		// C03 fixed finding: in-flight offset requested while the buffer is non-empty
		{Interval: 1, Ops: cat(srApp(1, 4, 70, 3), one("prepare"), srApp(1, 4, 70, 4), rd(2, 1<<20), rd(0, 1), rd(5, 0), one("commit"), rd(2, 1<<20))},
		// gap after a failed flush; snap-forward
		{Interval: 3, Ops: cat(srApp(2, 1, 70, 5), one("flush"), srApp(2, 1, 70, 7), one("prepare"), []srOp{{K: "fail"}}, srApp(2, 1, 70, 9), one("flush"), rd(5, 10), rd(4, 200), rd(9, 70))},
	}
	cases = append(cases,
		// restart: buffered tail lost, fresh cache, sparse index re-read from S3
		srCase{Interval: 3, Cache: 1 << 20, Ops: cat(srApp(4, 0, 70, 1), one("flush"), srApp(2, 0, 70, 9), []srOp{{K: "restart", Fresh: true}}, rd(2, 100), rd(3, 1), rd(4, 70), srApp(2, 1, 70, 5), rd(4, 1), rd(5, 0))},
		// restart with an orphan .kfs (index upload never happened), store one commit behind
		srCase{Interval: 1, Ops: cat(srApp(2, 1, 70, 1), one("flush"), srApp(2, 0, 70, 5), one("prepare"), []srOp{{K: "restart", FailIx: true}}, rd(3, 10), rd(4, 10), srApp(1, 2, 70, 7), one("flush"), rd(4, 70), rd(6, 1))},
		// restart from a store that is ahead of S3: gap between the last segment and the new batches
		srCase{Interval: 3, Ops: cat(srApp(3, 0, 70, 1), one("flush"), []srOp{{K: "restart", Store: 3}}, srApp(2, 0, 70, 5), rd(3, 10), rd(4, 10), rd(5, 100), one("flush"), rd(3, 10), rd(2, 200))},
	)
	cases = append(cases,
		// partitions 1 and 10..19 (etc.) on one S3 client, everything rebuilt from S3, every offset read
		srCase{Fam: true, Part: 1, Interval: 1, Ops: cat(srApp(2, 0, 70, 1), one("flush"), srApp(3, 1, 64, 9), one("flush"), srApp(1, 0, 70, 3), one("flush"), []srOp{{K: "restart", Fresh: true}},
			rd(0, 1<<20), rd(1, 1<<20), rd(2, 1<<20), rd(3, 64), rd(4, 1<<20), rd(5, 1<<20), rd(6, 1<<20), rd(7, 1<<20), rd(8, 1<<20), rd(9, 1))},
	)
	if vTier() == "thorough" {
		// the design-round probe: 120 one-record batches, interval 100, Read(99, 1024)
		cases = append(cases, srCase{Interval: 100, Ops: cat(srApp(120, 0, 70, 0), one("flush"), rd(99, 1024), rd(100, 1024), rd(119, 1))})
	}
	return cases
}

func srTest(t *testing.T, prop string) {
	rule := "generated histories on a real PartitionLog (3-14 appended batches of 61-140 bytes with 1-7 offsets each, IndexIntervalMessages in {1,3,100,2..6,<=0}, start offsets 0/small/1000/2^40, cache off / large / evicting, prepareFlush-uploadFlush driven step by step incl. failing uploads and reads inside the flush window, Flush and threshold flushes through the real entry points, 15% of the histories with batchLength fields that do not describe the frame) with Reads at offsets around batch boundaries and byte limits {1,61,size-1,size,size+1,2*size,0,-1,k*size+-1,2^20,maxint32}; a case is non-trivial when at least one Read was served from a flushed segment starting before the batch holding the offset or from the flush window / write buffer, and it has >= 5 reads; distinct = distinct canonical case JSON"
	rep := vNewReport(prop, rule)
	var coq, jsons []string
	failuresOf := func(res *srResult) []srFail {
		if prop == "C03" {
			return res.c03
		}
		return res.c04
	}
	runOne := func(cs srCase) {
		res := srRun(cs)
		canon, _ := json.Marshal(cs)
		nt := res.reads >= 5 && (res.tags["starts-before-holding-batch"] || res.tags["memory-read"])
		rep.Count(string(canon), nt)
		for tg := range res.tags {
			rep.Hist(tg)
		}
		rep.Hist(fmt.Sprintf("interval=%d", cs.Interval))
		rep.Sample(cs)
		seen := map[string]bool{}
		for _, f := range failuresOf(res) {
			if seen[f.key] {
				continue
			}
			seen[f.key] = true
			key := f.key
			has := func(ops []srOp) (bool, string) {
				for _, g := range failuresOf(srRun(srCase{Interval: cs.Interval, Start: cs.Start, Cache: cs.Cache, Auto: cs.Auto, Fam: cs.Fam, Part: cs.Part, Ops: ops})) {
					if g.key == key {
						return true, g.what
					}
				}
				return false, ""
			}
			shr := cs
			shr.Ops = vShrink(cs.Ops, func(ops []srOp) bool { ok, _ := has(ops); return ok })
			ok, what := has(shr.Ops)
			if !ok {
				shr, what = cs, f.what
			}
			rep.Fail(f.oracle, key, what, shr)
		}
		coq = append(coq, srCoq(cs, res))
		jsons = append(jsons, string(canon))
	}
	if rc := vReplayCase(); rc != nil {
		var cs srCase
		if err := json.Unmarshal(rc, &cs); err != nil {
			t.Fatalf("bad replay: %v", err)
		}
		mine := len(cs.Ops) > 0
		for _, o := range cs.Ops { // a replay file of the fetch harness (ops "produce", "fetch") is not ours
			if o.K == "produce" || o.K == "fetch" {
				mine = false
			}
		}
		if mine {
			runOne(cs)
		}
	} else {
		for _, cs := range srCorpus() {
			runOne(cs)
		}
		r := vNewRand(vSeed() ^ uint64(len(prop))<<32 ^ uint64(prop[2]))
		n := vN(150, 1500)
		for i := 0; i < n; i++ {
			runOne(srGen(r.Fork(), prop))
		}
		for i, nf := 0, vN(14, 150); i < nf; i++ {
			runOne(srGenFam(r.Fork()))
		}
	}
	// several files so that the Coq side evaluates them in parallel
	const chunks = 4
	req := "From KS Require Import lib.Base model.ReadPath corr.ReadPathCorr."
	if len(coq) < 2*chunks {
		rep.Cases(prop, req, "case", "check_case", coq, jsons)
	} else {
		per := (len(coq) + chunks - 1) / chunks
		for c := 0; c*per < len(coq); c++ {
			hi := srMin((c+1)*per, len(coq))
			rep.Cases(fmt.Sprintf("%s_%c", prop, 'a'+c), req, "case", "check_case", coq[c*per:hi], jsons[c*per:hi])
		}
	}
	rep.Notes = append(rep.Notes, fmt.Sprintf("observed on this tree: failed flush re-queues=%v, computeSegmentRange cap extension=%v", srRequeue(), srExt()))
	rep.Write()
	if len(rep.Failures) > 0 {
		t.Logf("oracle failures: %s", strings.TrimSpace(rep.Failures[0].What))
	}
}

func TestVerifC03(t *testing.T) { srTest(t, "C03") }
func TestVerifC04(t *testing.T) { srTest(t, "C04") }
