package main

// C03 / C04 harness for the fetch slice of handleFetch: the histories go through the
// real handler.Handle (Produce, Fetch by name and by topic id) on a handler over the
// in-memory metadata store and MemoryS3Client; partition logs are filled through the
// real produce path (acks 0 / -1, sync flush on or off), optionally flushed and
// restarted (new handler, same store and S3). Oracles: the C03 / C04 clauses on every
// returned record set against a reference log kept here. All steps + observations go
// to corr/FetchCorr.v ([fetch] of model/ReadPath.v).

import (
	"bytes"
	"context"
	"encoding/binary"
	"encoding/json"
	"fmt"
	"sort"
	"strings"
	"testing"

	"github.com/KafScale/platform/pkg/metadata"
	"github.com/KafScale/platform/pkg/protocol"
	"github.com/KafScale/platform/pkg/storage"
	"github.com/twmb/franz-go/pkg/kmsg"
)

type frPart struct {
	Lg  int   `json:"lg"`
	Off int64 `json:"off"`
	Max int32 `json:"max"`
}
type frOp struct {
	K      string   `json:"k"` // produce | flush | restart | fetch
	Lg     int      `json:"lg,omitempty"`
	Len    int      `json:"len,omitempty"`
	Lod    int32    `json:"lod,omitempty"`
	Count  int32    `json:"count,omitempty"`
	Marker byte     `json:"marker,omitempty"`
	Acks   int16    `json:"acks,omitempty"`
	ByID   bool     `json:"by_id,omitempty"`
	Parts  []frPart `json:"parts,omitempty"`
}
type frCase struct {
	Interval int32  `json:"interval"`
	Sync     bool   `json:"sync"`
	Ops      []frOp `json:"ops"`
}

// partition ids that are decimal prefixes of one another (1 / 10..19, 2 / 20), topic
// names likewise (order / orders / orders2)
var frTopics = []string{"orders", "orders", "events", "orders", "orders", "orders", "orders", "orders", "orders", "orders", "orders", "orders", "orders", "orders", "orders2", "order"}
var frPartsOf = []int32{1, 10, 0, 11, 12, 13, 14, 15, 16, 17, 18, 19, 2, 20, 1, 1}

const frNL = 16

// frS3 records what RestoreFromS3 asks S3 to list
type frS3 struct {
	*storage.MemoryS3Client
	listPrefix string
	listKeys   []string
}

func (s *frS3) ListSegments(ctx context.Context, prefix string) ([]storage.S3Object, error) {
	objs, err := s.MemoryS3Client.ListSegments(ctx, prefix)
	s.listPrefix, s.listKeys = prefix, nil
	for _, o := range objs {
		s.listKeys = append(s.listKeys, o.Key)
	}
	sort.Strings(s.listKeys)
	return objs, err
}

func frMeta() metadata.ClusterMetadata {
	b := protocol.MetadataBroker{NodeID: 1, Host: "localhost", Port: 19092}
	clusterID := "kafscale-cluster"
	mkp := func(p int32) protocol.MetadataPartition {
		return protocol.MetadataPartition{Partition: p, Leader: 1, Replicas: []int32{1}, ISR: []int32{1}}
	}
	return metadata.ClusterMetadata{ControllerID: 1, ClusterID: &clusterID, Brokers: []protocol.MetadataBroker{b},
		Topics: func() []protocol.MetadataTopic {
			var out []protocol.MetadataTopic
			for _, t := range []struct {
				name string
				n    int32
			}{{"orders", 22}, {"events", 1}, {"orders2", 2}, {"order", 2}} {
				mt := protocol.MetadataTopic{Topic: kmsg.StringPtr(t.name), TopicID: metadata.TopicIDForName(t.name)}
				for p := int32(0); p < t.n; p++ {
					mt.Partitions = append(mt.Partitions, mkp(p))
				}
				out = append(out, mt)
			}
			return out
		}()}
}

func frPayload(op frOp, lg int) []byte {
	n := op.Len
	m := op.Marker
	d := make([]byte, n)
	for i := range d {
		d[i] = m + byte(i)
	}
	binary.BigEndian.PutUint32(d[8:12], uint32(n-12))
	binary.BigEndian.PutUint32(d[12:16], 0)
	d[16], d[21], d[22] = 2, 0, 0
	binary.BigEndian.PutUint32(d[23:27], uint32(op.Lod))
	binary.BigEndian.PutUint32(d[57:61], uint32(op.Count))
	return d
}

var frExtProbe = -1

// frExt: does the storage package have fixes/C04-never-cut-inside-index-block.patch?
func frExt() bool {
	if frExtProbe < 0 {
		l := storage.NewPartitionLog("probe", "t", 0, 0, storage.NewMemoryS3Client(), nil, storage.PartitionLogConfig{Buffer: storage.WriteBufferConfig{MaxBytes: 1 << 30}, Segment: storage.SegmentWriterConfig{IndexIntervalMessages: 3}}, nil, nil, nil)
		for i := 0; i < 4; i++ {
			b, _ := storage.NewRecordBatchFromBytes(frPayload(frOp{Len: 61, Count: 1}, 0))
			_, _ = l.AppendBatch(context.Background(), b)
		}
		_ = l.Flush(context.Background())
		d, _ := l.Read(context.Background(), 1, 10)
		frExtProbe = 0
		if len(d) > 10 {
			frExtProbe = 1
		}
	}
	return frExtProbe == 1
}

type frBatch struct {
	base, last int64
	bytes      []byte
}
type frFail struct{ oracle, key, what string }
type frResult struct {
	steps    []string
	c03, c04 []frFail
	tags     map[string]bool
	fetched  int
}

func frRun(cs frCase, t *testing.T) *frResult {
	ctx := context.Background()
	res := &frResult{tags: map[string]bool{}}
	store := metadata.NewInMemoryStore(frMeta())
	s3 := &frS3{MemoryS3Client: storage.NewMemoryS3Client()}
	var h *handler
	newH := func() {
		if h != nil && h.coordinator != nil {
			h.coordinator.Stop()
		}
		h = newHandler(store, s3, protocol.MetadataBroker{NodeID: 1, Host: "localhost", Port: 19092}, testLogger())
		h.logConfig.Segment.IndexIntervalMessages = cs.Interval
		h.logConfig.Buffer = storage.WriteBufferConfig{MaxBytes: 1 << 30}
		h.logConfig.ReadAheadSegments = 0
		h.flushOnAck = cs.Sync
	}
	newH()
	defer func() {
		if h.coordinator != nil {
			h.coordinator.Stop()
		}
	}()
	const nl = frNL
	var hist, refBuf [nl][]frBatch
	var refSegs [nl][][]frBatch
	var refNext [nl]int64
	live := func(lg int) []frBatch {
		var out []frBatch
		for _, s := range refSegs[lg] {
			out = append(out, s...)
		}
		return append(out, refBuf[lg]...)
	}
	commit := func(lg int) {
		if len(refBuf[lg]) > 0 {
			refSegs[lg] = append(refSegs[lg], refBuf[lg])
			refBuf[lg] = nil
		}
	}
	corr := int32(0)
	for _, op := range cs.Ops {
		corr++
		switch op.K {
		case "produce":
			lg := op.Lg
			p := frPayload(op, lg)
			req := &kmsg.ProduceRequest{Acks: op.Acks, TimeoutMillis: 1000, Topics: []kmsg.ProduceRequestTopic{{Topic: frTopics[lg],
				Partitions: []kmsg.ProduceRequestTopicPartition{{Partition: frPartsOf[lg], Records: p}}}}}
			payload, err := h.Handle(ctx, &protocol.RequestHeader{APIKey: protocol.APIKeyProduce, APIVersion: 0, CorrelationID: corr}, req)
			code, base := int16(-1), int64(-1)
			acked := false
			if err == nil && payload != nil {
				resp := decodeKmsgResponse(t, 0, payload, kmsg.NewPtrProduceResponse)
				if len(resp.Topics) == 1 && len(resp.Topics[0].Partitions) == 1 {
					code, base = resp.Topics[0].Partitions[0].ErrorCode, resp.Topics[0].Partitions[0].BaseOffset
					acked = true
				}
			}
			ref := append([]byte(nil), p...)
			binary.BigEndian.PutUint64(ref[0:8], uint64(refNext[lg]))
			b := frBatch{base: refNext[lg], last: refNext[lg] + int64(op.Lod), bytes: ref}
			refNext[lg] = b.last + 1
			hist[lg] = append(hist[lg], b)
			refBuf[lg] = append(refBuf[lg], b)
			flush := op.Acks != 0 && cs.Sync
			if flush {
				commit(lg)
			}
			res.steps = append(res.steps, fmt.Sprintf("FProduce %d (mk_payload %d %s %s %d %d) %s %s %s %s", lg, op.Len, cqZ(int64(op.Lod)), cqZ(int64(op.Count)), op.Marker, op.Len-12, cqBool(flush), cqBool(acked), cqZ(int64(code)), cqZ(base)))
		case "flush":
			plog, err := h.getPartitionLog(ctx, frTopics[op.Lg], frPartsOf[op.Lg])
			if err != nil {
				continue
			}
			_ = plog.Flush(ctx)
			commit(op.Lg)
			res.steps = append(res.steps, fmt.Sprintf("FFlush %d", op.Lg))
		case "restart":
			stores := make([]int64, nl)
			for lg := 0; lg < nl; lg++ {
				stores[lg], _ = store.NextOffset(ctx, frTopics[lg], frPartsOf[lg])
				refBuf[lg] = nil
				refNext[lg] = stores[lg]
				if n := len(refSegs[lg]); n > 0 {
					if v := refSegs[lg][n-1][len(refSegs[lg][n-1])-1].last + 1; v > refNext[lg] {
						refNext[lg] = v
					}
				}
			}
			newH()
			// rebuild every partition log from S3 now and record what each one listed
			lists := make([]string, nl)
			for lg := 0; lg < nl; lg++ {
				s3.listPrefix, s3.listKeys = "", nil
				_, _ = h.getPartitionLog(ctx, frTopics[lg], frPartsOf[lg])
				ks := make([]string, len(s3.listKeys))
				for i, k := range s3.listKeys {
					ks[i] = cqStr(k)
				}
				lists[lg] = fmt.Sprintf("(%s, %d, %s, %s)", cqStr(frTopics[lg]), frPartsOf[lg], cqStr(s3.listPrefix), cqList(ks))
			}
			objs, _ := s3.MemoryS3Client.ListSegments(ctx, "")
			all := make([]string, len(objs))
			for i, o := range objs {
				all[i] = o.Key
			}
			sort.Strings(all)
			for i := range all {
				all[i] = cqStr(all[i])
			}
			res.steps = append(res.steps, "FRestart "+cqZs(stores)+" "+cqList(lists)+" "+cqList(all))
			res.tags["restart"] = true
		case "fetch":
			frFetch(cs, op, res, h, s3, t, corr, func(lg int) ([]frBatch, []frBatch, [][]frBatch) { return live(lg), hist[lg], refSegs[lg] })
		}
	}
	return res
}

func frFetch(cs frCase, op frOp, res *frResult, h *handler, s3 *frS3, t *testing.T, corr int32,
	view func(int) ([]frBatch, []frBatch, [][]frBatch)) {
	ctx := context.Background()
	version := int16(11)
	if op.ByID {
		version = 13
	}
	req := &kmsg.FetchRequest{ReplicaID: -1, MaxWaitMillis: 0, MinBytes: 1, MaxBytes: 1 << 24}
	byTopic := map[string]int{}
	for _, p := range op.Parts {
		name := frTopics[p.Lg]
		ti, ok := byTopic[name]
		if !ok {
			ti = len(req.Topics)
			byTopic[name] = ti
			ft := kmsg.FetchRequestTopic{}
			if op.ByID {
				ft.TopicID = metadata.TopicIDForName(name)
			} else {
				ft.Topic = name
			}
			req.Topics = append(req.Topics, ft)
		}
		req.Topics[ti].Partitions = append(req.Topics[ti].Partitions, kmsg.FetchRequestTopicPartition{Partition: frPartsOf[p.Lg], FetchOffset: p.Off, PartitionMaxBytes: p.Max, CurrentLeaderEpoch: -1})
	}
	payload, err := h.Handle(ctx, &protocol.RequestHeader{APIKey: protocol.APIKeyFetch, APIVersion: version, CorrelationID: corr}, req)
	if err != nil || payload == nil {
		res.c03 = append(res.c03, frFail{"fetch-answered", "fetch-handler-error", fmt.Sprintf("Handle(Fetch v%d) failed: %v", version, err)})
		return
	}
	resp := decodeKmsgResponse(t, version, payload, kmsg.NewPtrFetchResponse)
	// one response partition per requested partition, in request order within its topic
	type key struct {
		topic string
		part  int32
	}
	seen := map[key]int{}
	find := func(name string, part int32) *kmsg.FetchResponseTopicPartition {
		id := metadata.TopicIDForName(name)
		for ti := range resp.Topics {
			if resp.Topics[ti].Topic != name && resp.Topics[ti].TopicID != id {
				continue
			}
			k := seen[key{name, part}]
			n := 0
			for pi := range resp.Topics[ti].Partitions {
				if resp.Topics[ti].Partitions[pi].Partition == part {
					if n == k {
						seen[key{name, part}]++
						return &resp.Topics[ti].Partitions[pi]
					}
					n++
				}
			}
		}
		return nil
	}
	for _, p := range op.Parts {
		live, hist, refSegs := view(p.Lg)
		rp := find(frTopics[p.Lg], frPartsOf[p.Lg])
		desc := fmt.Sprintf("Fetch v%d %s/%d offset=%d partitionMaxBytes=%d interval=%d sync=%v", version, frTopics[p.Lg], frPartsOf[p.Lg], p.Off, p.Max, cs.Interval, cs.Sync)
		if rp == nil {
			res.c03 = append(res.c03, frFail{"fetch-answered", "partition-missing-in-response", desc + ": no partition entry in the response"})
			continue
		}
		data := rp.RecordBatches
		// observation for the model
		x := "YNone"
		if len(data) > 0 {
			x = ""
			for i := range hist {
				total, ok := 0, true
				for j := i; j < len(hist) && total < len(data); j++ {
					n := len(hist[j].bytes)
					if n > len(data)-total {
						n = len(data) - total
					}
					if !bytes.Equal(data[total:total+n], hist[j].bytes[:n]) {
						ok = false
						break
					}
					total += n
				}
				if ok && total == len(data) {
					x = fmt.Sprintf("YRun %d %d", i, len(data))
					break
				}
			}
			if x == "" {
				x = "YRaw " + cqBytes(data)
			}
		}
		res.steps = append(res.steps, fmt.Sprintf("FFetch %d %s %s %s %s (%s)", p.Lg, cqZ(p.Off), cqZ(int64(p.Max)), cqZ(int64(rp.ErrorCode)), cqZ(rp.HighWatermark), x))

		// ---- oracles
		hw := rp.HighWatermark
		idx := -1
		for i, b := range live {
			if b.last >= p.Off {
				idx = i
				break
			}
		}
		var cands []int
		if rp.ErrorCode == 0 && len(data) > 0 {
			res.fetched++
			for i := range live {
				total, ok := 0, true
				for j := i; j < len(live) && total < len(data); j++ {
					n := len(live[j].bytes)
					if n > len(data)-total {
						n = len(data) - total
					}
					if !bytes.Equal(data[total:total+n], live[j].bytes[:n]) {
						ok = false
						break
					}
					total += n
				}
				if ok && total == len(data) {
					cands = append(cands, i)
				}
			}
			if len(cands) == 0 {
				res.c03 = append(res.c03, frFail{"run-of-log", "not-a-run-of-this-partitions-log", fmt.Sprintf("%s returned %d bytes that are not a prefix of the concatenation of this partition's batches from any batch boundary", desc, len(data))})
			} else {
				for j := 0; j < cands[0]; j++ {
					if live[j].last >= p.Off {
						res.c03 = append(res.c03, frFail{"start-at-or-before", "starts-after-requested-offset", fmt.Sprintf("%s returned a run starting at base offset %d although batch [%d,%d] before it ends at or after the fetch offset", desc, live[cands[0]].base, live[j].base, live[j].last)})
						break
					}
				}
				if cands[0] < idx {
					res.tags["starts-before-holding-batch"] = true
				}
			}
		}
		if p.Max > 0 && p.Off < hw && idx >= 0 && live[idx].last < hw {
			if rp.ErrorCode != 0 {
				res.c04 = append(res.c04, frFail{"progress", "error-below-high-watermark", fmt.Sprintf("%s: error code %d although batch [%d,%d] lies below the high watermark %d", desc, rp.ErrorCode, live[idx].base, live[idx].last, hw)})
			} else if len(cands) > 0 || len(data) == 0 {
				i0 := -1
				for _, c := range cands {
					if c <= idx {
						i0 = c
					}
				}
				dist := 0
				for j := i0; j >= 0 && j < idx; j++ {
					dist += len(live[j].bytes)
				}
				if i0 < 0 || len(data) <= dist {
					key := "no-progress-other"
					if i0 >= 0 {
						// which flushed segment holds batch i0, and its real index
						n, segBase := 0, int64(-1)
						for _, sg := range refSegs {
							if i0 < n+len(sg) {
								segBase = sg[0].base
								break
							}
							n += len(sg)
						}
						if segBase >= 0 {
							ib, err := s3.DownloadIndex(ctx, fmt.Sprintf("default/%s/%d/segment-%020d.index", frTopics[p.Lg], frPartsOf[p.Lg], segBase))
							if entries, perr := storage.ParseIndex(ib); err == nil && perr == nil {
								floor := -1
								for k, e := range entries {
									if e.Offset <= p.Off {
										floor = k
									}
								}
								switch {
								case floor >= 0 && entries[floor].Offset > live[i0].base:
									key = "index-lookup-not-floor"
								case floor >= 0 && entries[floor].Offset == live[i0].base && entries[floor].Offset < live[idx].base && int(p.Max) <= dist:
									key = "sparse-index-entry-before-offset+maxbytes-le-distance"
									if frExt() {
										key = "sparse-index-no-progress-despite-cap-extension"
									}
								}
							}
						}
					}
					res.c04 = append(res.c04, frFail{"progress", key, fmt.Sprintf("%s returned %d bytes; the batch holding the fetch offset [%d,%d] starts %d bytes after the start of the returned run: only records before the fetch offset", desc, len(data), live[idx].base, live[idx].last, dist)})
				} else {
					res.tags["progress-ok"] = true
				}
			}
		}
		if p.Off >= hw {
			res.tags["at-or-above-hw"] = true
		}
	}
}

func frGen(r *vRand) frCase {
	cs := frCase{Interval: []int32{1, 3, 3, 100, 2}[r.Intn(5)], Sync: r.Chance(70)}
	var next [frNL]int64
	type span struct{ base, last int64 }
	var spans [frNL][]span
	sizes := []int{70}
	rdPart := func() frPart {
		lg := []int{0, 0, 1, 2, 3, 12, 14}[r.Intn(7)]
		p := frPart{Lg: lg}
		if len(spans[lg]) == 0 || r.Chance(10) {
			p.Off = []int64{0, next[lg], next[lg] + 1, next[lg] - 1}[r.Intn(4)]
			if p.Off < 0 {
				p.Off = 0
			}
		} else {
			s := spans[lg][r.Intn(len(spans[lg]))]
			p.Off = []int64{s.base, s.base + 1, s.last, s.last + 1, (s.base + s.last) / 2}[r.Intn(5)]
		}
		sz := sizes[r.Intn(len(sizes))]
		p.Max = []int32{1, 61, int32(sz - 1), int32(sz), int32(sz + 1), int32(2 * sz), 0, -1, 1 << 20, int32(r.Range(1, 5)*sz + r.Range(-1, 1)), int32(r.Range(2, 400))}[r.Intn(11)]
		return p
	}
	n := r.Range(5, 14)
	for i := 0; i < n; i++ {
		lg := []int{0, 0, 0, 1, 2, 3, 12, 14}[r.Intn(8)]
		op := frOp{K: "produce", Lg: lg, Len: r.Range(61, 90), Marker: byte(r.Intn(256)), Acks: -1}
		if r.Chance(30) {
			op.Lod = int32(r.Range(1, 4))
		}
		op.Count = op.Lod + 1
		if cs.Sync && r.Chance(65) {
			op.Acks = 0
		}
		cs.Ops = append(cs.Ops, op)
		spans[lg] = append(spans[lg], span{next[lg], next[lg] + int64(op.Lod)})
		next[lg] += int64(op.Lod) + 1
		sizes = append(sizes, op.Len)
		if !cs.Sync && r.Chance(25) {
			cs.Ops = append(cs.Ops, frOp{K: "flush", Lg: lg})
		}
		if r.Chance(6) {
			cs.Ops = append(cs.Ops, frOp{K: "restart"})
		}
		if r.Chance(35) {
			f := frOp{K: "fetch", ByID: r.Bool()}
			for k := r.Range(1, 3); k > 0; k-- {
				f.Parts = append(f.Parts, rdPart())
			}
			cs.Ops = append(cs.Ops, f)
		}
	}
	if r.Chance(60) {
		for lg := 0; lg < 3; lg++ {
			if cs.Sync {
				cs.Ops = append(cs.Ops, frOp{K: "produce", Lg: lg, Len: 70, Count: 1, Marker: 200, Acks: -1})
				spans[lg] = append(spans[lg], span{next[lg], next[lg]})
				next[lg]++
			} else {
				cs.Ops = append(cs.Ops, frOp{K: "flush", Lg: lg})
			}
		}
	}
	for k := r.Range(6, 12); k > 0; k-- {
		f := frOp{K: "fetch", ByID: r.Bool()}
		for j := r.Range(1, 3); j > 0; j-- {
			f.Parts = append(f.Parts, rdPart())
		}
		cs.Ops = append(cs.Ops, f)
	}
	return cs
}

// frGenFam: different volumes in every partition of the family (all start at offset 0,
// so base offsets coincide), a handler restart, then a fetch at every offset of a few
// partitions whose ids are prefixes of others.
func frGenFam(r *vRand) frCase {
	cs := frCase{Interval: []int32{1, 3, 100}[r.Intn(3)], Sync: true}
	var next [frNL]int64
	for lg := 0; lg < frNL; lg++ {
		for k := 1 + (lg*7+r.Intn(3))%4; k > 0; k-- {
			op := frOp{K: "produce", Lg: lg, Len: r.Range(61, 80), Marker: byte(r.Intn(256)), Acks: -1, Lod: int32(r.Intn(3))}
			op.Count = op.Lod + 1
			if r.Chance(40) && k > 1 {
				op.Acks = 0
			}
			cs.Ops = append(cs.Ops, op)
			next[lg] += int64(op.Lod) + 1
		}
		cs.Ops = append(cs.Ops, frOp{K: "produce", Lg: lg, Len: 61, Count: 1, Marker: byte(lg), Acks: -1})
		next[lg]++
	}
	cs.Ops = append(cs.Ops, frOp{K: "restart"})
	for _, lg := range []int{0, 12, []int{1, 3, 13, 14, 15}[r.Intn(5)]} {
		for o := int64(0); o <= next[lg]; o++ {
			mx := int32(1 << 20)
			if r.Chance(25) {
				mx = int32(r.Range(60, 90))
			}
			cs.Ops = append(cs.Ops, frOp{K: "fetch", ByID: r.Bool(), Parts: []frPart{{Lg: lg, Off: o, Max: mx}}})
		}
	}
	return cs
}

func frCorpus() []frCase {
	var ops []frOp
	for i := 0; i < 5; i++ {
		ops = append(ops, frOp{K: "produce", Lg: 0, Len: 70, Count: 1, Marker: byte(i), Acks: 0})
	}
	ops = append(ops, frOp{K: "produce", Lg: 0, Len: 70, Count: 1, Marker: 9, Acks: -1},
		// sparse index (entries at offsets 0 and 3): the open C04 finding through the broker
		frOp{K: "fetch", Parts: []frPart{{Lg: 0, Off: 2, Max: 100}, {Lg: 0, Off: 2, Max: 141}}},
		frOp{K: "fetch", ByID: true, Parts: []frPart{{Lg: 0, Off: 5, Max: 70}, {Lg: 1, Off: 0, Max: 100}, {Lg: 0, Off: 6, Max: 100}, {Lg: 0, Off: 7, Max: 100}}},
		frOp{K: "restart"},
		frOp{K: "fetch", Parts: []frPart{{Lg: 0, Off: 4, Max: 1}, {Lg: 2, Off: 0, Max: 1}}})
	var ops2 []frOp
	for i := 0; i < 3; i++ {
		ops2 = append(ops2, frOp{K: "produce", Lg: 1, Len: 80, Lod: 2, Count: 3, Marker: byte(40 + i), Acks: -1})
	}
	ops2 = append(ops2, frOp{K: "fetch", Parts: []frPart{{Lg: 1, Off: 4, Max: 80}, {Lg: 1, Off: 9, Max: 80}, {Lg: 1, Off: 10, Max: 1}}},
		frOp{K: "flush", Lg: 1}, frOp{K: "produce", Lg: 1, Len: 61, Count: 1, Marker: 7, Acks: -1},
		frOp{K: "fetch", ByID: true, Parts: []frPart{{Lg: 1, Off: 1, Max: 61}, {Lg: 1, Off: 9, Max: 1 << 20}}})
	return []frCase{{Interval: 3, Sync: true, Ops: ops}, {Interval: 1, Sync: false, Ops: ops2}}
}

func frTest(t *testing.T, prop string) {
	rule := "generated histories through handler.Handle on a broker handler (3 partition logs in 2 topics, 5-14 Produce requests with acks 0/-1, sync flush on/off, IndexIntervalMessages in {1,2,3,100}, explicit flushes, handler restarts) with Fetch requests by name (v11) and by topic id (v13), 1-3 partitions each, offsets around batch boundaries and at/above the high watermark, partition byte limits as for the storage harness; non-trivial = at least 4 partition responses carrying records; distinct = distinct canonical case JSON"
	rep := vNewReport(prop, rule)
	var coq, jsons []string
	failuresOf := func(res *frResult) []frFail {
		if prop == "C03" {
			return res.c03
		}
		return res.c04
	}
	runOne := func(cs frCase) {
		res := frRun(cs, t)
		canon, _ := json.Marshal(cs)
		rep.Count(string(canon), res.fetched >= 4)
		for tg := range res.tags {
			rep.Hist("fetch:" + tg)
		}
		rep.Sample(cs)
		seen := map[string]bool{}
		for _, f := range failuresOf(res) {
			if seen[f.key] {
				continue
			}
			seen[f.key] = true
			key := f.key
			has := func(ops []frOp) (bool, string) {
				for _, g := range failuresOf(frRun(frCase{Interval: cs.Interval, Sync: cs.Sync, Ops: ops}, t)) {
					if g.key == key {
						return true, g.what
					}
				}
				return false, ""
			}
			shr := cs
			shr.Ops = vShrink(cs.Ops, func(ops []frOp) bool { ok, _ := has(ops); return ok })
			ok, what := has(shr.Ops)
			if !ok {
				shr, what = cs, f.what
			}
			rep.Fail(f.oracle, key, what, shr)
		}
		coq = append(coq, fmt.Sprintf("mkFCase %s %s %s %d %s", cqZ(int64(cs.Interval)), cqBool(cs.Sync), cqBool(frExt()), frNL, cqList(res.steps)))
		jsons = append(jsons, string(canon))
	}
	if rc := vReplayCase(); rc != nil {
		var cs frCase
		// a replay file of the storage harness (ops "append", ...) is not ours: report nothing
		mine := json.Unmarshal(rc, &cs) == nil && len(cs.Ops) > 0
		for _, o := range cs.Ops {
			if o.K != "produce" && o.K != "flush" && o.K != "restart" && o.K != "fetch" {
				mine = false
			}
		}
		if mine {
			runOne(cs)
		}
	} else {
		for _, cs := range frCorpus() {
			runOne(cs)
		}
		r := vNewRand(vSeed() ^ 0xfe7c<<16 ^ uint64(prop[2]))
		n := vN(60, 600)
		for i := 0; i < n; i++ {
			runOne(frGen(r.Fork()))
		}
		for i, nf := 0, vN(8, 80); i < nf; i++ {
			runOne(frGenFam(r.Fork()))
		}
	}
	rep.Cases(prop+"_fetch", "From KS Require Import lib.Base model.ReadPath corr.ReadPathCorr corr.FetchCorr.", "fcase", "check_fcase", coq, jsons)
	rep.WriteAs(prop + "_fetch")
	if len(rep.Failures) > 0 {
		t.Logf("oracle failures: %s", strings.TrimSpace(rep.Failures[0].What))
	}
}

func TestVerifC03Fetch(t *testing.T) { frTest(t, "C03") }
func TestVerifC04Fetch(t *testing.T) { frTest(t, "C04") }
