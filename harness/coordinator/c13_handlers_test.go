package main

// C13, handler-level stream: TWO real broker handlers (cmd/broker (*handler).Handle) with
// real GroupLeaseManagers on one embedded etcd and one shared metadata store. Every
// group-scoped request (join / sync / heartbeat / leave / offset commit / offset fetch /
// describe) is sent to either broker at random. A broker that once served a group keeps a
// cached copy of it in its coordinator; only the coordination lease keeps that cache from
// being used after the group moved on elsewhere. Oracles, on the real replies and the
// shared store:
//   routing : a broker that does not hold the group's lease answers NOT_COORDINATOR to
//             every group-scoped request and changes nothing (group image, offsets);
//   fencing : (C13) a sync / heartbeat / commit whose (member, generation) is not (a current
//             member, the current generation) of the group -- as persisted by the lease
//             holder -- is answered with an error and changes no committed offset,
//             whichever broker it reaches.
// The Coq side is the per-coordinator model plus the routing rule (props/C13.v,
// C13_fenced_any_broker).

import (
	"context"
	"encoding/json"
	"fmt"
	"sort"
	"strings"
	"testing"
	"time"

	"github.com/twmb/franz-go/pkg/kmsg"
	clientv3 "go.etcd.io/etcd/client/v3"

	"github.com/KafScale/platform/internal/testutil"
	"github.com/KafScale/platform/pkg/broker"
	"github.com/KafScale/platform/pkg/metadata"
	"github.com/KafScale/platform/pkg/protocol"
	"github.com/KafScale/platform/pkg/storage"
)

type chOp struct {
	K   string `json:"k"`             // join sync hb leave commit fetch describe handoff sleep sweep
	B   int    `json:"b"`             // broker the request is sent to (0 / 1)
	M   int    `json:"m,omitempty"`   // member slot (index into ids issued so far); -1 = new member
	G   int    `json:"g,omitempty"`   // generation: 0 current (store), 1 the member's last seen, 2 current-1
	P   int32  `json:"p,omitempty"`   // commit / fetch: partition of topic "orders"
	Off int64  `json:"off,omitempty"` // commit: offset
	S   int32  `json:"s,omitempty"`   // join: session timeout ms (0 = 30 s)
	D   int    `json:"d,omitempty"`   // sleep: milliseconds of real time
}
type chCase struct {
	Ops []chOp `json:"ops"`
}

type chFail struct{ key, what string }

type chCluster struct {
	t     *testing.T
	store *metadata.InMemoryStore
	hs    [2]*handler
	glm   [2]*metadata.GroupLeaseManager
}

func chNewCluster(t *testing.T, endpoints []string) *chCluster {
	c := &chCluster{t: t}
	topic := protocol.MetadataTopic{Topic: kmsg.StringPtr("orders")}
	for p := int32(0); p < 3; p++ {
		topic.Partitions = append(topic.Partitions, protocol.MetadataPartition{Partition: p, Leader: 1})
	}
	c.store = metadata.NewInMemoryStore(metadata.ClusterMetadata{Topics: []protocol.MetadataTopic{topic}})
	for i := 0; i < 2; i++ {
		cli, err := clientv3.New(clientv3.Config{Endpoints: endpoints, DialTimeout: 5 * time.Second})
		if err != nil {
			t.Fatalf("etcd client: %v", err)
		}
		t.Cleanup(func() { _ = cli.Close() })
		h := newHandler(c.store, storage.NewMemoryS3Client(), protocol.MetadataBroker{NodeID: int32(i + 1), Host: "localhost", Port: int32(19092 + i)}, testLogger())
		h.groupLeaseManager = metadata.NewGroupLeaseManager(cli, metadata.GroupLeaseConfig{BrokerID: fmt.Sprintf("%d", i+1), LeaseTTLSeconds: 60, Logger: testLogger()})
		// the coordinator exactly as newHandler builds it for a broker with a group lease manager:
		// production config function, production constructor, default sweep interval (the
		// schedule drives the sweeps explicitly through VerifSweep)
		h.coordinator.Stop()
		h.coordinator = broker.NewGroupCoordinator(c.store, h.brokerInfo, coordinatorConfig(h.groupLeaseManager))
		h.coordinator.Stop() // no background ticker: every sweep of this stream is a step of the schedule (deterministic)
		c.hs[i], c.glm[i] = h, h.groupLeaseManager
		t.Cleanup(func() { h.groupLeaseManager.ReleaseAll(); h.coordinator.Stop() })
	}
	return c
}

func chSub(topics ...string) []byte {
	buf := []byte{0, 0, 0, 0, 0, byte(len(topics))}
	for _, t := range topics {
		buf = append(buf, 0, byte(len(t)))
		buf = append(buf, t...)
	}
	return append(buf, 0, 0, 0, 0)
}

type chStoreView struct {
	exists  bool
	gen     int32
	members map[string]bool
	image   string
}

func (c *chCluster) view(group string) chStoreView {
	g, _ := c.store.FetchConsumerGroup(context.Background(), group)
	v := chStoreView{members: map[string]bool{}}
	if g == nil {
		return v
	}
	v.exists, v.gen = true, g.GenerationId
	var ids []string
	for id, m := range g.Members {
		v.members[id] = true
		ids = append(ids, fmt.Sprintf("%s:%v:%v", id, m.Subscriptions, m.Assignments))
	}
	sort.Strings(ids)
	v.image = fmt.Sprintf("%s|%d|%s|%s", g.State, g.GenerationId, g.Leader, strings.Join(ids, ","))
	return v
}

func (c *chCluster) offsets(group string) [3]int64 {
	var o [3]int64
	for p := int32(0); p < 3; p++ {
		o[p], _, _ = c.store.FetchConsumerOffset(context.Background(), group, "orders", p)
	}
	return o
}

// chRun executes one case on a fresh group; returns the failures and shape tags.
func chRun(t *testing.T, c *chCluster, group string, cs chCase) ([]chFail, map[string]bool) {
	ctx := context.Background()
	var fails []chFail
	tags := map[string]bool{}
	var ids []string
	lastGen := map[string]int32{}
	leader := ""
	lastImage := ""
	_ = lastImage
	imageOr := func(v chStoreView) string {
		if !v.exists {
			return "<no group>"
		}
		return v.image
	}
	fail := func(i int, key, format string, a ...any) {
		fails = append(fails, chFail{key, fmt.Sprintf("op %d: ", i) + fmt.Sprintf(format, a...)})
	}
	slot := func(m int) string {
		if m >= 0 && m < len(ids) {
			return ids[m]
		}
		if m == -1 {
			return ""
		}
		return "nobody-0"
	}
	for i, op := range cs.Ops {
		b := op.B & 1
		h := c.hs[b]
		owner := -1
		for k := 0; k < 2; k++ {
			if c.glm[k].Owns(group) {
				owner = k
			}
		}
		foreign := owner >= 0 && owner != b // another broker holds the group's lease
		pre, offsPre := c.view(group), c.offsets(group)
		id := slot(op.M)
		gen := pre.gen
		switch op.G {
		case 1:
			if g, ok := lastGen[id]; ok {
				gen = g
			}
		case 2:
			gen = pre.gen - 1
		}
		current := pre.exists && pre.members[id] && pre.gen == gen
		var code int16
		checkFence := false
		switch op.K {
		case "handoff": // the holder gives the lease up (its session expired / it hands coordination over)
			if owner >= 0 {
				c.glm[owner].Release(group)
				tags["handoff"] = true
			}
			continue
		case "sweep": // the cleanup sweep of a broker that does NOT hold the lease (its ticker fired)
			if owner == b {
				continue // the holder's own sweeps are not part of this stream
			}
			tags["non-holder-sweep"] = true
			c.hs[b].coordinator.VerifSweep()
			if now, offs := c.view(group), c.offsets(group); now.image != pre.image || offs != offsPre {
				fail(i, "store-changed-behind-owner", "the cleanup sweep of broker %d, which does not hold the lease of %s, changed the persisted group from %s to %s (offsets %v -> %v): it swept a cached copy by its own clock", b+1, group, imageOr(pre), imageOr(now), offsPre, offs)
			}
			continue
		case "sleep":
			t0 := time.Now()
			time.Sleep(time.Duration(op.D) * time.Millisecond)
			if time.Since(t0) > time.Duration(op.D)*time.Millisecond+300*time.Millisecond {
				tags["timing-unreliable"] = true // the machine stalled: the holder's sessions may have lapsed
				lastImage = ""
				continue
			}
			continue
		case "join":
			sess := op.S
			if sess <= 0 {
				sess = 30000
			}
			req := &kmsg.JoinGroupRequest{Group: group, MemberID: id, ProtocolType: "consumer", SessionTimeoutMillis: sess, RebalanceTimeoutMillis: 30000,
				Protocols: []kmsg.JoinGroupRequestProtocol{{Name: "range", Metadata: chSub("orders")}}}
			payload, err := h.Handle(ctx, &protocol.RequestHeader{APIKey: protocol.APIKeyJoinGroup, APIVersion: 4, CorrelationID: int32(i)}, req)
			if err != nil {
				fail(i, "handler-error", "JoinGroup: %v", err)
				continue
			}
			resp := decodeKmsgResponse(t, 4, payload, kmsg.NewPtrJoinGroupResponse)
			code = resp.ErrorCode
			if code != protocol.NOT_COORDINATOR && resp.MemberID != "" {
				if resp.MemberID != id {
					ids = append(ids, resp.MemberID)
				}
				lastGen[resp.MemberID] = resp.Generation
				leader = resp.LeaderID
			}
		case "sync":
			req := &kmsg.SyncGroupRequest{Group: group, MemberID: id, Generation: gen}
			payload, err := h.Handle(ctx, &protocol.RequestHeader{APIKey: protocol.APIKeySyncGroup, APIVersion: 3, CorrelationID: int32(i)}, req)
			if err != nil {
				fail(i, "handler-error", "SyncGroup: %v", err)
				continue
			}
			code = decodeKmsgResponse(t, 3, payload, kmsg.NewPtrSyncGroupResponse).ErrorCode
			checkFence = true
		case "hb":
			req := &kmsg.HeartbeatRequest{Group: group, MemberID: id, Generation: gen}
			payload, err := h.Handle(ctx, &protocol.RequestHeader{APIKey: protocol.APIKeyHeartbeat, APIVersion: 3, CorrelationID: int32(i)}, req)
			if err != nil {
				fail(i, "handler-error", "Heartbeat: %v", err)
				continue
			}
			code = decodeKmsgResponse(t, 3, payload, kmsg.NewPtrHeartbeatResponse).ErrorCode
			checkFence = true
		case "leave":
			req := &kmsg.LeaveGroupRequest{Group: group, MemberID: id}
			payload, err := h.Handle(ctx, &protocol.RequestHeader{APIKey: protocol.APIKeyLeaveGroup, APIVersion: 2, CorrelationID: int32(i)}, req)
			if err != nil {
				fail(i, "handler-error", "LeaveGroup: %v", err)
				continue
			}
			code = decodeKmsgResponse(t, 2, payload, kmsg.NewPtrLeaveGroupResponse).ErrorCode
		case "commit":
			req := &kmsg.OffsetCommitRequest{Group: group, MemberID: id, Generation: gen,
				Topics: []kmsg.OffsetCommitRequestTopic{{Topic: "orders", Partitions: []kmsg.OffsetCommitRequestTopicPartition{{Partition: op.P % 3, Offset: op.Off}}}}}
			payload, err := h.Handle(ctx, &protocol.RequestHeader{APIKey: protocol.APIKeyOffsetCommit, APIVersion: 7, CorrelationID: int32(i)}, req)
			if err != nil {
				fail(i, "handler-error", "OffsetCommit: %v", err)
				continue
			}
			resp := decodeKmsgResponse(t, 7, payload, kmsg.NewPtrOffsetCommitResponse)
			if len(resp.Topics) != 1 || len(resp.Topics[0].Partitions) != 1 {
				fail(i, "handler-error", "OffsetCommit: malformed response")
				continue
			}
			code = resp.Topics[0].Partitions[0].ErrorCode
			checkFence = true
		case "fetch":
			req := &kmsg.OffsetFetchRequest{Group: group, Topics: []kmsg.OffsetFetchRequestTopic{{Topic: "orders", Partitions: []int32{op.P % 3}}}}
			payload, err := h.Handle(ctx, &protocol.RequestHeader{APIKey: protocol.APIKeyOffsetFetch, APIVersion: 5, CorrelationID: int32(i)}, req)
			if err != nil {
				fail(i, "handler-error", "OffsetFetch: %v", err)
				continue
			}
			code = decodeKmsgResponse(t, 5, payload, kmsg.NewPtrOffsetFetchResponse).ErrorCode
		case "describe":
			req := &kmsg.DescribeGroupsRequest{Groups: []string{group}}
			payload, err := h.Handle(ctx, &protocol.RequestHeader{APIKey: protocol.APIKeyDescribeGroups, APIVersion: 4, CorrelationID: int32(i)}, req)
			if err != nil {
				fail(i, "handler-error", "DescribeGroups: %v", err)
				continue
			}
			resp := decodeKmsgResponse(t, 4, payload, kmsg.NewPtrDescribeGroupsResponse)
			if len(resp.Groups) == 1 {
				code = resp.Groups[0].ErrorCode
			}
		default:
			continue
		}
		post, offsPost := c.view(group), c.offsets(group)
		lastImage = post.image
		if !post.exists {
			lastImage = ""
		}
		// ---- routing: a broker without the lease answers NOT_COORDINATOR and changes nothing ----
		if foreign {
			tags["to-non-owner:"+op.K] = true
			if code != protocol.NOT_COORDINATOR {
				fail(i, "non-owner-served:"+op.K, "broker %d does not hold the coordination lease of %s (broker %d does) but answered the %s request with code %d instead of NOT_COORDINATOR", b+1, group, owner+1, op.K, code)
			}
			if post.image != pre.image || offsPost != offsPre {
				fail(i, "non-owner-changed-state:"+op.K, "broker %d does not hold the lease of %s but its handling of %s changed the group (%s -> %s) or the offsets (%v -> %v)", b+1, group, op.K, pre.image, post.image, offsPre, offsPost)
			}
		} else {
			tags["to-owner:"+op.K] = true
		}
		// ---- fencing on the shared store ----
		if checkFence && !current {
			tags["stale:"+op.K] = true
			if code == protocol.NONE {
				fail(i, "stale-"+op.K+"-accepted", "%s of member %q generation %d sent to broker %d answered NONE; the group as persisted by the lease holder: exists=%v generation %d member present=%v", op.K, id, gen, b+1, pre.exists, pre.gen, pre.members[id])
			}
			if offsPost != offsPre {
				fail(i, "offset-changed-by-stale-"+op.K, "%s of a fenced member changed the committed offsets %v -> %v", op.K, offsPre, offsPost)
			}
		}
		if op.K != "commit" && offsPost != offsPre {
			fail(i, "offset-changed-by-"+op.K, "%s changed the committed offsets %v -> %v", op.K, offsPre, offsPost)
		}
		if post.exists && post.gen < pre.gen && pre.exists {
			fail(i, "generation-decreased", "generation of %s went from %d to %d", group, pre.gen, post.gen)
		}
		_ = leader
	}
	// hand the group back for the next case
	for k := 0; k < 2; k++ {
		c.glm[k].Release(group)
	}
	return fails, tags
}

func chGen(r *vRand, handoffs bool) chCase {
	var cs chCase
	n := r.Range(8, 24)
	short := int32(0) // in some cases sessions are 40 ms: cached copies lapse by their broker's clock
	if r.Chance(35) {
		short = 40
	}
	members := 0
	home := r.Intn(2) // the broker most requests go to (it will hold the lease)
	for i := 0; i < n; i++ {
		b := home
		if r.Chance(30) {
			b = 1 - home
		}
		pick := func() int {
			if members == 0 || r.Chance(8) {
				return -2
			}
			return r.Intn(members)
		}
		genSel := func() int {
			if r.Chance(70) {
				return 0
			}
			return r.Range(1, 2)
		}
		switch w := r.Intn(100); {
		case w < 12 && members < 3:
			cs.Ops = append(cs.Ops, chOp{K: "join", B: b, M: -1, S: short})
			if b == home {
				members++
			}
		case w < 30:
			cs.Ops = append(cs.Ops, chOp{K: "join", B: b, M: pick(), S: short})
		case w < 48:
			cs.Ops = append(cs.Ops, chOp{K: "sync", B: b, M: pick(), G: genSel()})
		case w < 60:
			cs.Ops = append(cs.Ops, chOp{K: "hb", B: b, M: pick(), G: genSel()})
		case w < 64:
			cs.Ops = append(cs.Ops, chOp{K: "leave", B: b, M: pick()})
		case w < 84:
			cs.Ops = append(cs.Ops, chOp{K: "commit", B: b, M: pick(), G: genSel(), P: int32(r.Intn(3)), Off: int64(r.Range(1, 1000))})
		case w < 88:
			cs.Ops = append(cs.Ops, chOp{K: "fetch", B: b, P: int32(r.Intn(3))})
		case w < 91:
			cs.Ops = append(cs.Ops, chOp{K: "describe", B: b})
		case w < 94:
			cs.Ops = append(cs.Ops, chOp{K: "sweep", B: 1 - home})
		default:
			if handoffs {
				old := home
				cs.Ops = append(cs.Ops, chOp{K: "handoff"})
				if r.Chance(70) {
					home = 1 - home // the lease moves; sometimes it comes back later
				}
				// the new holder serves a request, time passes, the old holder's ticker fires
				cs.Ops = append(cs.Ops, chOp{K: "hb", B: home, M: pick()})
				if short > 0 {
					cs.Ops = append(cs.Ops, chOp{K: "sleep", D: 60})
				}
				cs.Ops = append(cs.Ops, chOp{K: "sweep", B: old}, chOp{K: "sweep", B: 1 - home})
			}
		}
	}
	return cs
}

func TestVerifC13Handlers(t *testing.T) {
	rep := vNewReport("C13_handlers", "two real broker handlers ((*handler).Handle) with real GroupLeaseManagers on one embedded etcd and one shared metadata store; histories of 8-24 group-scoped requests (join / sync / heartbeat / leave / offset commit with current, last-seen and older generations / offset fetch / describe) for up to 3 members, each sent to either broker at random (about 30% to the broker that does not hold the group's lease); non-trivial = a completed join and a request that reached the non-owner; distinct = distinct op list")
	endpoints := testutil.StartEmbeddedEtcd(t)
	// named obligation production-wiring-ties-sweep-to-lease: a broker built by the REAL wiring
	// (newHandler over an etcd-backed store creates the group lease manager and the coordinator)
	// has its coordinator's sweep tied to the group leases
	if es, err := metadata.NewEtcdStore(context.Background(), metadata.ClusterMetadata{}, metadata.EtcdStoreConfig{Endpoints: endpoints}); err != nil {
		t.Fatalf("etcd store: %v", err)
	} else {
		ph := newHandler(es, storage.NewMemoryS3Client(), protocol.MetadataBroker{NodeID: 9, Host: "localhost", Port: 19099}, testLogger())
		switch {
		case ph.groupLeaseManager == nil:
			rep.Fail("production-wiring-ties-sweep-to-lease", "production-wiring-ties-sweep-to-lease", "newHandler over an etcd-backed store created no group lease manager", chCase{})
		case !ph.coordinator.VerifSweepTiedToLease():
			rep.Fail("production-wiring-ties-sweep-to-lease", "production-wiring-ties-sweep-to-lease", "the coordinator built by newHandler -> coordinatorConfig(groupLeaseManager) -> NewGroupCoordinator has no OwnsGroup: its cleanup sweep is not tied to the group leases, a broker that lost a lease keeps sweeping and persisting its cached copy", chCase{})
		default:
			rep.Hist("production-wiring-ties-sweep-to-lease:ok")
		}
		ph.coordinator.Stop()
		ph.groupLeaseManager.ReleaseAll()
	}
	c := chNewCluster(t, endpoints)
	nGroup := 0
	run := func(cs chCase) ([]chFail, map[string]bool) {
		nGroup++
		return chRun(t, c, fmt.Sprintf("vg-%d", nGroup), cs)
	}
	handle := func(cs chCase) {
		fails, tags := run(cs)
		canon, _ := json.Marshal(cs)
		nontrivial := false
		for tg := range tags {
			rep.Hist(tg)
			nontrivial = nontrivial || strings.HasPrefix(tg, "to-non-owner")
		}
		rep.Count(string(canon), nontrivial && tags["to-owner:join"])
		rep.Sample(cs)
		seen := map[string]bool{}
		for _, f := range fails {
			if seen[f.key] {
				continue
			}
			seen[f.key] = true
			shr := cs
			shr.Ops = vShrink(cs.Ops, func(ops []chOp) bool {
				fs, _ := run(chCase{Ops: ops})
				for _, g := range fs {
					if g.key == f.key {
						return true
					}
				}
				return false
			})
			what := f.what
			if fs, _ := run(shr); len(fs) > 0 {
				for _, g := range fs {
					if g.key == f.key {
						what = g.what
						break
					}
				}
			}
			rep.Fail(f.key, f.key, what, shr)
		}
	}
	if rc := vReplayCase(); rc != nil {
		var cs chCase
		var probe map[string]json.RawMessage
		_ = json.Unmarshal(rc, &probe)
		if _, other := probe["parts"]; other || json.Unmarshal(rc, &cs) != nil || len(cs.Ops) == 0 {
			// a replay of the single-coordinator stream: nothing to do here
			rep.WriteAs("C13_handlers")
			return
		}
		handle(cs)
	} else {
		// corpus: the group forms on broker 1; a legitimate commit also reaches broker 2 (which
		// must refuse it); the group rebalances on broker 1; the stale member's commit for the
		// old generation reaches broker 2
		handle(chCase{Ops: []chOp{{K: "join", B: 0, M: -1}, {K: "sync", B: 0, M: 0}, {K: "commit", B: 1, M: 0, P: 0, Off: 5}, {K: "commit", B: 0, M: 0, P: 0, Off: 6},
			{K: "join", B: 0, M: -1}, {K: "join", B: 0, M: 0}, {K: "sync", B: 0, M: 0}, {K: "commit", B: 1, M: 0, G: 2, P: 0, Off: 1}, {K: "commit", B: 0, M: 0, G: 2, P: 0, Off: 1},
			{K: "hb", B: 1, M: 0}, {K: "sync", B: 1, M: 1}, {K: "leave", B: 1, M: 1}, {K: "fetch", B: 1, P: 0}, {K: "describe", B: 1}, {K: "join", B: 1, M: -1}}})
		// the lease moves to broker 2, the group rebalances there, the lease comes back: broker 1
		// must not answer from the copy it cached before
		handle(chCase{Ops: []chOp{{K: "join", B: 0, M: -1}, {K: "sync", B: 0, M: 0}, {K: "commit", B: 0, M: 0, Off: 7}, {K: "handoff"}, {K: "join", B: 1, M: -1}, {K: "handoff"},
			{K: "commit", B: 0, M: 0, G: 1, Off: 3}, {K: "hb", B: 0, M: 0, G: 1}, {K: "sync", B: 0, M: 0, G: 1}}})
		// the lease moved: the old holder's sweep must not expire the members in its cached copy
		// (they heartbeat at the new holder) nor persist anything
		sweep := []chOp{{K: "join", B: 0, M: -1, S: 40}, {K: "sync", B: 0, M: 0}, {K: "commit", B: 0, M: 0, Off: 4}, {K: "handoff"}, {K: "hb", B: 1, M: 0},
			{K: "sleep", D: 60}, {K: "sweep", B: 0}, {K: "hb", B: 1, M: 0}, {K: "sweep", B: 0}, {K: "commit", B: 1, M: 0, Off: 5}}
		handle(chCase{Ops: sweep})
		rng := vNewRand(vSeed())
		n := vN(150, 1500)
		for i := 0; i < n; i++ {
			handle(chGen(rng.Fork(), true))
		}
	}
	rep.WriteAs("C13_handlers")
	if len(rep.Failures) > 0 {
		t.Logf("oracle failures: %s", strings.TrimSpace(rep.Failures[0].What))
	}
}
