//go:debug randseednop=0
package broker

// Group-coordinator harness for C12, C13, C14, C15 and C43 (one generated history set).
// It drives the REAL GroupCoordinator over the repo's InMemoryStore inside a
// testing/synctest bubble (virtual time.Now; cleanupGroups is called explicitly, the
// background ticker is set far beyond the horizon), evaluates the implementation-side
// oracles of the property selected by VERIF_CO_PROP on what the real code did, and
// emits every executed history with the reply, the complete in-memory group state,
// the stored ConsumerGroup and the committed offsets after each operation as a Coq
// term for the model/code correspondence check (corr/CoordinatorCorr.v).
//
// Member ids are produced by the code (math/rand, seeded per case so that replays are
// deterministic); they are mapped to integers that preserve the string order
// (sort.Strings is the only way the code looks at an id besides equality).

import (
	"context"
	"encoding/binary"
	"encoding/json"
	"fmt"
	"math/rand"
	"os"
	"sort"
	"strings"
	"testing"
	"testing/synctest"
	"time"

	"github.com/twmb/franz-go/pkg/kmsg"

	metadatapb "github.com/KafScale/platform/pkg/gen/metadata"
	"github.com/KafScale/platform/pkg/metadata"
	"github.com/KafScale/platform/pkg/protocol"
)

const coGroup = "g"

var coTopicNames = []string{"ta", "tb", "tc", "tz"} // tz is never in the metadata

type coOp struct {
	K      string   `json:"k"`                // join sync hb leave commit adv cleanup failover
	M      int      `json:"m,omitempty"`      // member slot: index into the ids created so far; -1 = "", -2 = an id never issued
	Sess   int32    `json:"sess,omitempty"`   // join: session timeout ms
	Reb    int32    `json:"reb,omitempty"`    // join: rebalance timeout ms
	Topics []int    `json:"topics,omitempty"` // join: subscription (indexes into coTopicNames)
	G      int      `json:"g,omitempty"`      // generation selector: 0 current, 1 the member's last seen, 2 current-1, 3 current+1
	T      int      `json:"t,omitempty"`      // commit: topic
	P      int32    `json:"p,omitempty"`      // commit: partition
	Off    int64    `json:"off,omitempty"`    // commit: offset
	D      int64    `json:"d,omitempty"`      // adv: milliseconds
	Inner  []coOp   `json:"inner,omitempty"`  // operations that other clients issue while this operation is inside a store call
	Fail   []string `json:"fail,omitempty"`   // store calls of this operation that fail once (transient store error): fetch persist commit
	At     string   `json:"at,omitempty"`     // which store call is parked: fetch put delete metadata commit; "" = the first one during which c.mu is free
}

type coCase struct {
	Parts [][]int32 `json:"parts"` // partitions of ta, tb, tc; nil = topic not in the metadata
	Seed  int64     `json:"seed"`  // seeds math/rand (member ids)
	Ops   []coOp    `json:"ops"`
}

// ---------- snapshots ----------
type coMemberSnap struct {
	id      string
	topics  []string
	sess    int64
	hb      int64
	joingen int32
}
type coAssignSnap struct {
	id string
	a  []assignmentTopic
}
type coGroupSnap struct {
	gen      int32
	leader   string
	phase    groupPhase
	members  []coMemberSnap
	assign   []coAssignSnap
	rebto    int64
	deadline *int64
}
type coPMemberSnap struct {
	id     string
	topics []string
	sess   int64
	hb     int64
	a      []assignmentTopic
}
type coStoreSnap struct {
	phase   groupPhase
	leader  string
	gen     int32
	rebto   int64
	members []coPMemberSnap
}
type coReply struct {
	kind    string // join sync err none
	err     int16
	gen     int32
	leader  string
	member  string
	members []coMemberSnap // id + topics
	assign  []assignmentTopic
}
type coStep struct {
	kind   string // join sync hb leave commit cleanup failover
	mid    string // requested member id
	fresh  string // join: id created by the code ("" if none)
	sess   int32
	reb    int32
	topics []int
	gen    int32
	t      int
	p      int32
	off    int64
	now    int64
	reply  coReply
	mem    *coGroupSnap
	store  *coStoreSnap
	offs   []int64
	fail   []string // store faults injected into this operation
}

type coFail struct{ prop, key, what string }

// ---------- gating store wrapper ----------
// Every store call the coordinator makes goes through gate(). The model's step relation
// is atomic per operation because of the assumption "every coordinator operation holds
// c.mu from its first read of group state to its last store write"; the gate CHECKS it
// on the real code: while an operation is inside a store call, is c.mu free? If it is,
// the schedule's inner operations are run right there, to completion, while the outer
// operation's store call is parked (they run on the same group, through the same real
// coordinator), and the call is released afterwards -- for two whole-group Puts this is
// the "older snapshot lands last" order. Where the code holds c.mu across the store call
// the inner operations could only block until the outer one returns: they are run after
// it (the linearisation the lock enforces) and nothing is flagged.
type coStore struct {
	*metadata.InMemoryStore
	gate func(call string) error
}

func (s *coStore) pass(call string) error {
	if s.gate != nil {
		return s.gate(call)
	}
	return nil
}
func (s *coStore) Metadata(ctx context.Context, topics []string) (*metadata.ClusterMetadata, error) {
	_ = s.pass("metadata") // no faults are injected into Metadata (its fallback is not modelled)
	return s.InMemoryStore.Metadata(ctx, topics)
}
func (s *coStore) PutConsumerGroup(ctx context.Context, group *metadatapb.ConsumerGroup) error {
	if err := s.pass("put"); err != nil {
		return err
	}
	return s.InMemoryStore.PutConsumerGroup(ctx, group)
}
func (s *coStore) FetchConsumerGroup(ctx context.Context, groupID string) (*metadatapb.ConsumerGroup, error) {
	if err := s.pass("fetch"); err != nil {
		return nil, err
	}
	return s.InMemoryStore.FetchConsumerGroup(ctx, groupID)
}
func (s *coStore) DeleteConsumerGroup(ctx context.Context, groupID string) error {
	if err := s.pass("delete"); err != nil {
		return err
	}
	return s.InMemoryStore.DeleteConsumerGroup(ctx, groupID)
}
func (s *coStore) CommitConsumerOffset(ctx context.Context, group, topic string, partition int32, offset int64, md string) error {
	if err := s.pass("commit"); err != nil {
		return err
	}
	return s.InMemoryStore.CommitConsumerOffset(ctx, group, topic, partition, offset, md)
}

// coGate: the window of one outer operation
type coGate struct {
	op          coOp
	interleaved bool            // inner operations ran while a store call of the outer operation was parked
	call        string          // the store call during which c.mu was found free
	fired       map[string]bool // injected store faults that hit a call of this operation: fetch persist commit
}

// ---------- the runner ----------
type coRunner struct {
	cs    coCase
	store *coStore
	c     *GroupCoordinator
	base  time.Time
	ids   []string
	keys  [][2]int // probe keys (topic index, partition)
	steps []coStep
	fails []coFail
	tags  map[string]bool
	keep  bool
	meta  map[string][]int32
	// harness-side (black-box) bookkeeping for the oracles
	sub        map[string][]string // subscription of the member's last join request
	lastGen    map[string]int32    // generation in the member's last join reply
	sess       map[string]int64    // session timeout the member asked for (effective)
	refresh    map[string]int64    // time of the last accepted refresh (join, or heartbeat of a current member)
	changedSub map[string]bool     // re-joined a Stable group with a different subscription and the generation did not move
	hbRebal    map[string]bool     // the last refresh was a heartbeat answered while the group was rebalancing
	// ground truth that does not depend on what the store hands back after a failover
	fenced      map[string]bool // ids seen to leave / be expired from the group in this incarnation and not re-joined since
	genSeen     int32           // highest generation the group was seen to have in this incarnation
	epoch       int
	failoverIn  bool // a failover happened in this group incarnation
	maxGen      int32
	syncLog     map[string]map[string][]assignmentTopic // "epoch/gen" -> member -> assignment received
	preFailover *coGroupSnap
	// C15 "members keep working": the Stable group as it was at the last failover; valid
	// until something legitimately changes the membership (a join, a leave, an expiry that
	// the harness's own bookkeeping of refresh times and session timeouts agrees with)
	kw            *coGroupSnap
	cur           *coGate // the operation being executed (nil between operations)
	roundDeadline int64   // black box: deadline of the CURRENT rebalance round = time it was (re)started or last joined + rebalance timeout
	dirty         bool    // a whole-group write (Put/Delete) failed and none has succeeded since: the store image is stale
	depth         int     // 1 = an operation of the history, 2 = an operation running inside another one's parked store call
}

func (r *coRunner) now() int64 { return time.Since(r.base).Milliseconds() }

func (r *coRunner) fail(prop, key, what string) {
	r.fails = append(r.fails, coFail{prop, key, fmt.Sprintf("op %d: %s", len(r.steps), what)})
}

func coSnapGroup(st *groupState, base time.Time) *coGroupSnap {
	if st == nil {
		return nil
	}
	g := &coGroupSnap{gen: st.generationID, leader: st.leaderID, phase: st.state, rebto: int64(st.rebalanceTimeout / time.Millisecond)}
	if !st.rebalanceDeadline.IsZero() {
		d := st.rebalanceDeadline.Sub(base).Milliseconds()
		g.deadline = &d
	}
	for id, m := range st.members {
		g.members = append(g.members, coMemberSnap{id: id, topics: append([]string(nil), m.topics...), sess: int64(m.sessionTimeout / time.Millisecond),
			hb: m.lastHeartbeat.Sub(base).Milliseconds(), joingen: m.joinGeneration})
	}
	sort.Slice(g.members, func(i, j int) bool { return g.members[i].id < g.members[j].id })
	for id, a := range st.assignments {
		g.assign = append(g.assign, coAssignSnap{id: id, a: coCloneAssign(a)})
	}
	sort.Slice(g.assign, func(i, j int) bool { return g.assign[i].id < g.assign[j].id })
	return g
}

func coCloneAssign(a []assignmentTopic) []assignmentTopic {
	out := make([]assignmentTopic, 0, len(a))
	for _, t := range a {
		out = append(out, assignmentTopic{Name: t.Name, Partitions: append([]int32(nil), t.Partitions...)})
	}
	return out
}

func (r *coRunner) snapMem() *coGroupSnap {
	r.c.mu.Lock()
	defer r.c.mu.Unlock()
	return coSnapGroup(r.c.groups[coGroup], r.base)
}

func (r *coRunner) fetchStored() *metadatapb.ConsumerGroup {
	g, _ := r.store.InMemoryStore.FetchConsumerGroup(context.Background(), coGroup) // the harness's own look: not gated
	return g
}

func (r *coRunner) snapStore() *coStoreSnap {
	g := r.fetchStored()
	if g == nil {
		return nil
	}
	s := &coStoreSnap{phase: parseGroupPhase(g.State), leader: g.Leader, gen: g.GenerationId, rebto: int64(g.RebalanceTimeoutMs)}
	for id, m := range g.Members {
		pm := coPMemberSnap{id: id, topics: append([]string(nil), m.Subscriptions...), sess: int64(m.SessionTimeoutMs)}
		if m.HeartbeatAt != "" {
			if ts, err := time.Parse(time.RFC3339Nano, m.HeartbeatAt); err == nil {
				pm.hb = ts.Sub(r.base).Milliseconds()
			}
		}
		for _, a := range m.Assignments {
			pm.a = append(pm.a, assignmentTopic{Name: a.Topic, Partitions: append([]int32(nil), a.Partitions...)})
		}
		s.members = append(s.members, pm)
	}
	sort.Slice(s.members, func(i, j int) bool { return s.members[i].id < s.members[j].id })
	return s
}

// view: the group as the next request will see it (memory, else restored from the store)
func (r *coRunner) view() *coGroupSnap {
	if g := r.snapMem(); g != nil {
		return g
	}
	if pg := r.fetchStored(); pg != nil {
		return coSnapGroup(restoreGroupState(pg), r.base)
	}
	return nil
}

func (g *coGroupSnap) member(id string) *coMemberSnap {
	if g == nil {
		return nil
	}
	for i := range g.members {
		if g.members[i].id == id {
			return &g.members[i]
		}
	}
	return nil
}
func (g *coGroupSnap) assignment(id string) []assignmentTopic {
	if g == nil {
		return nil
	}
	for _, a := range g.assign {
		if a.id == id {
			return a.a
		}
	}
	return nil
}

func (r *coRunner) offsets() []int64 {
	out := make([]int64, len(r.keys))
	for i, k := range r.keys {
		o, _, _ := r.store.InMemoryStore.FetchConsumerOffset(context.Background(), coGroup, coTopicNames[k[0]], int32(k[1]))
		out[i] = o
	}
	return out
}

func (r *coRunner) slotID(m int) string {
	switch {
	case m == -1:
		return ""
	case m >= 0 && m < len(r.ids):
		return r.ids[m]
	default:
		return "nobody-0"
	}
}

func (r *coRunner) selGen(sel int, id string, v *coGroupSnap) int32 {
	cur := int32(0)
	if v != nil {
		cur = v.gen
	}
	switch sel {
	case 1:
		if g, ok := r.lastGen[id]; ok {
			return g
		}
		return cur
	case 2:
		return cur - 1
	case 3:
		return cur + 1
	}
	return cur
}

func coDecodeSubscription(data []byte) []string {
	if len(data) < 6 {
		return nil
	}
	n := int(binary.BigEndian.Uint32(data[2:6]))
	pos := 6
	var out []string
	for i := 0; i < n && pos+2 <= len(data); i++ {
		l := int(binary.BigEndian.Uint16(data[pos : pos+2]))
		pos += 2
		if pos+l > len(data) {
			break
		}
		out = append(out, string(data[pos:pos+l]))
		pos += l
	}
	return out
}

func coDecodeAssignment(data []byte) []assignmentTopic {
	if len(data) < 6 {
		return nil
	}
	n := int(binary.BigEndian.Uint32(data[2:6]))
	pos := 6
	var out []assignmentTopic
	for i := 0; i < n && pos+2 <= len(data); i++ {
		l := int(binary.BigEndian.Uint16(data[pos : pos+2]))
		pos += 2
		if pos+l+4 > len(data) {
			break
		}
		at := assignmentTopic{Name: string(data[pos : pos+l])}
		pos += l
		np := int(binary.BigEndian.Uint32(data[pos : pos+4]))
		pos += 4
		for j := 0; j < np && pos+4 <= len(data); j++ {
			at.Partitions = append(at.Partitions, int32(binary.BigEndian.Uint32(data[pos:pos+4])))
			pos += 4
		}
		out = append(out, at)
	}
	return out
}

func coEncodeSubscription(topics []string) []byte {
	buf := []byte{0, 0}
	buf = binary.BigEndian.AppendUint32(buf, uint32(len(topics)))
	for _, t := range topics {
		buf = binary.BigEndian.AppendUint16(buf, uint16(len(t)))
		buf = append(buf, t...)
	}
	return binary.BigEndian.AppendUint32(buf, 0)
}

func coTopicStrings(idx []int) []string {
	out := make([]string, 0, len(idx))
	for _, i := range idx {
		out = append(out, coTopicNames[i%len(coTopicNames)])
	}
	return out
}

func coHas(l []string, s string) bool {
	for _, x := range l {
		if x == s {
			return true
		}
	}
	return false
}
func coSameStrings(a, b []string) bool {
	if len(a) != len(b) {
		return false
	}
	for i := range a {
		if a[i] != b[i] {
			return false
		}
	}
	return true
}
func coSameAssign(a, b []assignmentTopic) bool {
	if len(a) != len(b) {
		return false
	}
	for i := range a {
		if a[i].Name != b[i].Name || len(a[i].Partitions) != len(b[i].Partitions) {
			return false
		}
		for j := range a[i].Partitions {
			if a[i].Partitions[j] != b[i].Partitions[j] {
				return false
			}
		}
	}
	return true
}

func (r *coRunner) partsOf(topic string) []int32 {
	if p, ok := r.meta[topic]; ok && len(p) > 0 {
		return p
	}
	return []int32{0}
}

func (r *coRunner) newCoordinator() {
	if r.c != nil {
		r.c.Stop()
	}
	r.c = NewGroupCoordinator(r.store, protocol.MetadataBroker{NodeID: 1, Host: "h", Port: 9092}, &CoordinatorConfig{CleanupInterval: 100000 * time.Hour})
}

// record finishes a step: snapshots + group-incarnation bookkeeping
func (r *coRunner) record(s coStep) {
	s.mem, s.store, s.offs = r.snapMem(), r.snapStore(), r.offsets()
	if r.cur != nil {
		s.fail = r.cur.op.Fail
	}
	if len(r.steps) > 0 && s.kind != "failover" {
		// a member that was in the coordinator's memory before this operation and is not
		// after it has been removed (left, expired, dropped): it is fenced from now on
		if prev := r.steps[len(r.steps)-1].mem; prev != nil {
			for _, m := range prev.members {
				if s.mem.member(m.id) == nil {
					r.fenced[m.id] = true
				}
			}
		}
	}
	if s.mem != nil && (s.mem.phase == groupStatePreparingRebalance || s.mem.phase == groupStateCompletingRebalance) {
		// a rebalance round starts when the generation moves (join of a new member, changed
		// subscription, leave, cleanup dropping members) or when a coordinator loads a
		// rebalancing group; every join during the round extends it
		var prevMem *coGroupSnap
		if len(r.steps) > 0 {
			prevMem = r.steps[len(r.steps)-1].mem
		}
		if prevMem == nil || prevMem.gen != s.mem.gen || s.kind == "join" {
			r.roundDeadline = s.now + s.mem.rebto
		}
	}
	if s.mem != nil {
		for _, m := range s.mem.members {
			if s.kind == "join" && (m.id == s.fresh || m.id == s.mid) {
				delete(r.fenced, m.id)
			}
		}
		if s.mem.gen > r.genSeen {
			r.genSeen = s.mem.gen
		}
		// C13: the generation never decreases while the group exists (also across failover)
		if s.mem.gen < r.genSeen {
			r.fail("C13", "generation-decreased", fmt.Sprintf("the group had generation %d and now has %d", r.genSeen, s.mem.gen))
		}
	}
	if r.depth == 1 && s.kind != "failover" && s.mem != nil && !r.dirty {
		// C15: at a quiescent point (the operation returned, nothing parked) the store
		// holds the group as it is in memory -- what a coordinator taking over would load
		if pg := r.fetchStored(); pg == nil {
			r.fail("C15", "store-differs-from-memory", fmt.Sprintf("after %s the group (generation %d, %d members) is in memory but not in the store", s.kind, s.mem.gen, len(s.mem.members)))
		} else if d := coViewDiff(s.mem, coSnapGroup(restoreGroupState(pg), r.base)); d != "" {
			r.fail("C15", "store-differs-from-memory", fmt.Sprintf("after %s a coordinator loading the group from the store would see a different group than the one in memory: %s", s.kind, d))
		}
	}
	r.steps = append(r.steps, s)
	if s.mem == nil && r.dirty {
		r.resyncFromStore()
	}
	if s.mem == nil && s.store == nil && (r.maxGen != 0 || len(r.sub) > 0) {
		// the group is gone: a later group of the same name is a new incarnation
		r.epoch++
		r.maxGen, r.failoverIn, r.genSeen, r.fenced, r.kw = 0, false, 0, map[string]bool{}, nil
		r.sub, r.lastGen, r.sess, r.refresh, r.changedSub, r.hbRebal = map[string][]string{}, map[string]int32{}, map[string]int64{}, map[string]int64{}, map[string]bool{}, map[string]bool{}
	}
}

// dropGone forgets members that are no longer in the group
func (r *coRunner) dropGone(v *coGroupSnap) {
	for id := range r.sub {
		if v.member(id) == nil {
			delete(r.sub, id)
			delete(r.lastGen, id)
			delete(r.sess, id)
			delete(r.refresh, id)
			delete(r.changedSub, id)
			delete(r.hbRebal, id)
		}
	}
}

func (r *coRunner) exec(op coOp) {
	ctx := context.Background()
	if op.K == "adv" {
		if op.D > 0 {
			time.Sleep(time.Duration(op.D) * time.Millisecond)
		}
		return
	}
	outer, outerGate := r.cur, r.store.gate
	g := &coGate{op: op, fired: map[string]bool{}}
	r.cur = g
	r.depth++
	if op.K != "failover" {
		left := map[string]bool{}
		for _, f := range op.Fail {
			left[f] = true
		}
		inject := func(call string) error {
			kind := map[string]string{"fetch": "fetch", "put": "persist", "delete": "persist", "commit": "commit"}[call]
			if kind != "" && left[kind] {
				left[kind] = false
				g.fired[kind] = true
				r.tags["fault:"+op.K+":"+kind] = true
				if kind == "persist" {
					r.dirty = true
				}
				return fmt.Errorf("injected transient store error in %s", coStoreCallName(call))
			}
			if call == "put" || call == "delete" {
				r.dirty = false // a whole-group write lands
			}
			return nil
		}
		r.store.gate = func(call string) error {
			if r.cur != g {
				return nil
			}
			if g.interleaved {
				return inject(call)
			}
			if !r.c.mu.TryLock() {
				return inject(call) // the operation holds the coordinator lock across this store call: atomic
			}
			r.c.mu.Unlock()
			if g.call == "" {
				g.call = call
				r.fail("*", "lock-released-across-store-call:"+op.K+":"+call, fmt.Sprintf("%s is inside store.%s with the coordinator lock released: other operations on the group can run to completion between its reads of the group state and its store writes (assumption 'every coordinator operation holds c.mu from its first read of group state to its last store write' does not hold)", op.K, coStoreCallName(call)))
			}
			if len(op.Inner) > 0 && (op.At == "" || op.At == call) {
				g.interleaved = true
				r.tags["window-interleaved"] = true
				for _, in := range op.Inner {
					r.exec(in) // runs to completion while the outer store call is parked
				}
				r.cur = g
			}
			return inject(call)
		}
	}
	switch op.K {
	case "join":
		r.doJoin(ctx, op)
	case "sync":
		r.doSync(ctx, op)
	case "hb":
		r.doHeartbeat(ctx, op)
	case "leave":
		r.doLeave(ctx, op)
	case "commit":
		r.doCommit(ctx, op)
	case "cleanup":
		r.doCleanup()
	case "failover":
		r.doFailover()
	}
	r.store.gate = outerGate
	r.cur = outer
	r.depth--
	if len(op.Inner) > 0 {
		r.tags["window:"+op.K] = true
		if !g.interleaved {
			// c.mu was held across every store call: the other clients' operations were
			// blocked until this one returned
			for _, in := range op.Inner {
				r.exec(in)
			}
		}
	}
}

func coStoreCallName(call string) string {
	return map[string]string{"metadata": "Metadata", "put": "PutConsumerGroup", "fetch": "FetchConsumerGroup", "delete": "DeleteConsumerGroup", "commit": "CommitConsumerOffset"}[call]
}

// interleaved: other operations completed while the current one was inside a store call
func (r *coRunner) interleaved() bool { return r.cur != nil && r.cur.interleaved }

// fired: an injected store fault hit this operation
func (r *coRunner) fired(kind string) bool { return r.cur != nil && r.cur.fired[kind] }
func (r *coRunner) anyFault() bool         { return r.cur != nil && len(r.cur.fired) > 0 }

// resyncFromStore: after a failed whole-group write the coordinator's memory was dropped
// (failover, or the group was deleted from memory): whoever loads the group next sees the
// store's older image -- that is now the truth the oracles measure against.
func (r *coRunner) resyncFromStore() {
	r.sub, r.lastGen, r.sess, r.refresh, r.changedSub, r.hbRebal = map[string][]string{}, map[string]int32{}, map[string]int64{}, map[string]int64{}, map[string]bool{}, map[string]bool{}
	r.fenced, r.genSeen, r.maxGen, r.kw, r.preFailover, r.dirty = map[string]bool{}, 0, 0, nil, nil, false
	r.failoverIn = true
	r.epoch++ // syncs logged so far belong to a past that the store does not know
	if pg := r.fetchStored(); pg != nil {
		g := coSnapGroup(restoreGroupState(pg), r.base)
		r.genSeen, r.maxGen = g.gen, g.gen
		for _, m := range g.members {
			r.sub[m.id], r.lastGen[m.id], r.sess[m.id], r.refresh[m.id] = m.topics, g.gen, m.sess, m.hb
		}
	}
}

func (r *coRunner) doJoin(ctx context.Context, op coOp) {
	r.preFailover = nil
	r.kw = nil // a join legitimately changes the membership / generation
	id := r.slotID(op.M)
	pre := r.view()
	topics := coTopicStrings(op.Topics)
	req := kmsg.NewPtrJoinGroupRequest()
	req.Group = coGroup
	req.MemberID = id
	req.SessionTimeoutMillis = op.Sess
	req.RebalanceTimeoutMillis = op.Reb
	req.ProtocolType = "consumer"
	req.Protocols = []kmsg.JoinGroupRequestProtocol{{Name: "range", Metadata: coEncodeSubscription(topics)}}
	now := r.now()
	resp, err := r.c.JoinGroup(ctx, req)
	st := coStep{kind: "join", mid: id, sess: op.Sess, reb: op.Reb, topics: op.Topics, now: now}
	if (err != nil || resp == nil) && r.fired("fetch") {
		st.reply = coReply{kind: "fail"} // the group could not be loaded: a Go error, nothing changed
		r.record(st)
		return
	}
	if err != nil || resp == nil {
		r.fail("*", "join-error", fmt.Sprintf("JoinGroup returned error %v", err))
		return
	}
	rp := coReply{kind: "join", err: resp.ErrorCode, gen: resp.Generation, leader: resp.LeaderID, member: resp.MemberID}
	for _, m := range resp.Members {
		rp.members = append(rp.members, coMemberSnap{id: m.MemberID, topics: coDecodeSubscription(m.ProtocolMetadata)})
	}
	if resp.MemberID != id {
		st.fresh = resp.MemberID
		r.ids = append(r.ids, resp.MemberID)
		r.tags["join-new"] = true
	} else {
		r.tags["join-existing"] = true
	}
	st.reply = rp
	post := r.view()
	me := resp.MemberID

	// ---- bookkeeping (black box) ----
	wasMember := pre.member(id) != nil && id == me
	if wasMember && pre.phase == groupStateStable && !coSameStrings(r.sub[me], topics) {
		r.tags["join-changed-subscription"] = true
		if post != nil && post.gen == pre.gen {
			r.changedSub[me] = true
		}
	}
	r.sub[me] = topics
	r.lastGen[me] = resp.Generation
	if op.Sess > 0 {
		r.sess[me] = int64(op.Sess)
	} else if _, ok := r.sess[me]; !ok || !wasMember {
		r.sess[me] = 30000
	}
	r.refresh[me] = now
	r.hbRebal[me] = false
	if post != nil {
		r.dropGone(post)
	}

	// ---- C13: generations reported to members never decrease while the group exists ----
	if resp.Generation < r.maxGen {
		r.fail("C13", "generation-decreased", fmt.Sprintf("join reply reports generation %d after %d was reported", resp.Generation, r.maxGen))
	}
	if resp.Generation > r.maxGen {
		r.maxGen = resp.Generation
	}
	// ---- C14 ----
	if post != nil {
		if resp.ErrorCode == protocol.NONE {
			r.tags["join-success"] = true
			if !r.failoverIn {
				for _, m := range post.members {
					if g, ok := r.lastGen[m.id]; !ok || g != resp.Generation {
						r.fail("C14", "success-before-all-joined", fmt.Sprintf("join of %s answered NONE in generation %d but member %s last joined generation %d", me, resp.Generation, m.id, g))
					}
				}
			}
		}
		if post.member(resp.LeaderID) == nil {
			r.fail("C14", "leader-not-member", fmt.Sprintf("join reply names leader %q which is not a current member", resp.LeaderID))
		}
	}
	if len(resp.Members) > 0 {
		r.tags["join-member-list"] = true
		if resp.ErrorCode == protocol.UNKNOWN_SERVER_ERROR && r.fired("persist") {
			r.fail("C14", "member-list-in-error-reply", fmt.Sprintf("join reply of %s reports the store failure (error %d) and still carries %d members", me, resp.ErrorCode, len(resp.Members)))
		} else if resp.ErrorCode != protocol.NONE || resp.MemberID != resp.LeaderID {
			r.fail("C14", "member-list-to-non-leader", fmt.Sprintf("join reply (error %d, member %s, leader %s) carries %d members", resp.ErrorCode, me, resp.LeaderID, len(resp.Members)))
		}
	}
	r.record(st)
}

func (r *coRunner) doSync(ctx context.Context, op coOp) {
	id := r.slotID(op.M)
	pre := r.view()
	gen := r.selGen(op.G, id, pre)
	offsBefore := r.offsets()
	req := kmsg.NewPtrSyncGroupRequest()
	req.Group = coGroup
	req.MemberID = id
	req.Generation = gen
	now := r.now()
	resp, err := r.c.SyncGroup(ctx, req)
	if (err != nil || resp == nil) && r.fired("fetch") {
		r.record(coStep{kind: "sync", mid: id, gen: gen, now: now, reply: coReply{kind: "fail"}})
		return
	}
	if err != nil || resp == nil {
		r.fail("*", "sync-error", fmt.Sprintf("SyncGroup returned error %v", err))
		return
	}
	st := coStep{kind: "sync", mid: id, gen: gen, now: now}
	st.reply = coReply{kind: "sync", err: resp.ErrorCode}
	st.reply.assign = coDecodeAssignment(resp.MemberAssignment)
	post := r.view()
	current := r.isCurrent(pre, id, gen)
	if r.interleaved() {
		// other operations completed while this sync was inside a store call: a NONE answer
		// must be for the current generation at the time it is answered
		current = current && r.isCurrent(post, id, gen)
	}
	// ---- C13 ----
	if !current {
		r.tags["sync-stale"] = true
		if resp.ErrorCode == protocol.NONE {
			r.fail("C13", "stale-sync-accepted", fmt.Sprintf("sync of %q generation %d answered NONE; generation in view %d (highest seen %d), member in view %v, removed earlier %v", id, gen, coGen(pre), r.genSeen, pre.member(id) != nil, r.fenced[id]))
		}
	}
	if !r.interleaved() {
		r.checkOffsetsUnchanged("C13", "sync", offsBefore)
	}
	// ---- C14: once the leader has synced (Stable), every member's sync in that generation succeeds ----
	if current && pre.phase == groupStateStable && resp.ErrorCode != protocol.NONE && !r.anyFault() {
		r.fail("C14", "sync-after-leader-sync-rejected", fmt.Sprintf("sync of current member %s in Stable generation %d answered %d", id, gen, resp.ErrorCode))
	}
	if current && pre.phase == groupStateCompletingRebalance && pre.leader == id && resp.ErrorCode != protocol.NONE && !r.anyFault() {
		r.fail("C14", "leader-sync-rejected", fmt.Sprintf("sync of the leader %s after everybody rejoined generation %d answered %d", id, gen, resp.ErrorCode))
	}
	// ---- C15: a current member keeps working after failover ----
	if r.kw != nil && r.kw.member(id) != nil && r.kw.gen == gen && !r.anyFault() {
		r.tags["after-failover-sync"] = true
		if resp.ErrorCode != protocol.NONE || !coSameAssign(st.reply.assign, r.kw.assignment(id)) {
			r.fail("C15", "sync-differs-after-failover", fmt.Sprintf("sync of %s after failover (no join, leave or due expiry since): error %d assignment %v, before failover its assignment was %v", id, resp.ErrorCode, st.reply.assign, r.kw.assignment(id)))
		}
	}
	// ---- C12 ----
	if resp.ErrorCode == protocol.NONE && post != nil {
		r.tags["sync-success"] = true
		r.checkAssignment(id, gen, st.reply.assign, post)
	}
	r.preFailover = nil
	r.record(st)
}

// isCurrent: (member, generation) is a current member in the current generation. The
// view (memory, else what the store restores) is cross-checked with what the harness
// itself saw happen: a member that was removed stays fenced until it joins again, and
// the current generation is never below one the group already had -- whatever image
// a new coordinator finds in the store.
func (r *coRunner) isCurrent(pre *coGroupSnap, id string, gen int32) bool {
	return pre.member(id) != nil && pre.gen == gen && !r.fenced[id] && gen >= r.genSeen
}

func coGen(v *coGroupSnap) int32 {
	if v == nil {
		return -1
	}
	return v.gen
}

func (r *coRunner) checkOffsetsUnchanged(prop, what string, before []int64) {
	after := r.offsets()
	for i := range before {
		if before[i] != after[i] {
			r.fail(prop, "offset-changed-by-"+what, fmt.Sprintf("%s changed committed offset of %s/%d from %d to %d", what, coTopicNames[r.keys[i][0]], r.keys[i][1], before[i], after[i]))
		}
	}
}

// checkAssignment: the C12 clauses at the moment a member receives its assignment.
func (r *coRunner) checkAssignment(id string, gen int32, got []assignmentTopic, post *coGroupSnap) {
	key := func(k string) string {
		for m := range r.changedSub {
			if r.changedSub[m] && post.member(m) != nil {
				return "rejoin-changed-subscription"
			}
		}
		return k
	}
	sub := func(m string) []string {
		if s, ok := r.sub[m]; ok {
			return s
		}
		if mm := post.member(m); mm != nil {
			return mm.topics
		}
		return nil
	}
	// the reply is what the coordinator holds for that member
	if !coSameAssign(got, post.assignment(id)) {
		r.fail("C12", key("reply-differs-from-state"), fmt.Sprintf("sync reply of %s is %v, coordinator holds %v", id, got, post.assignment(id)))
	}
	// no member holds a partition of a topic it did not subscribe to; only real partitions
	for _, m := range post.members {
		for _, at := range post.assignment(m.id) {
			if !coHas(sub(m.id), at.Name) {
				r.fail("C12", key("unsubscribed-topic"), fmt.Sprintf("member %s (subscription %v) holds partitions %v of topic %s", m.id, sub(m.id), at.Partitions, at.Name))
			}
			for _, p := range at.Partitions {
				ok := false
				for _, q := range r.partsOf(at.Name) {
					ok = ok || p == q
				}
				if !ok {
					r.fail("C12", key("phantom-partition"), fmt.Sprintf("member %s holds %s/%d which is not a partition of the topic", m.id, at.Name, p))
				}
			}
		}
	}
	// each partition of each subscribed topic goes to exactly one current subscriber
	topics := map[string]bool{}
	for _, m := range post.members {
		for _, t := range sub(m.id) {
			topics[t] = true
		}
	}
	for t := range topics {
		for _, p := range r.partsOf(t) {
			var holders []string
			for _, m := range post.members {
				for _, at := range post.assignment(m.id) {
					if at.Name != t {
						continue
					}
					for _, q := range at.Partitions {
						if q == p {
							holders = append(holders, m.id)
						}
					}
				}
			}
			if len(holders) == 0 {
				r.fail("C12", key("partition-unassigned"), fmt.Sprintf("generation %d: %s/%d is held by no member (subscriptions %v)", gen, t, p, r.sub))
			} else if len(holders) > 1 {
				r.fail("C12", key("partition-duplicated"), fmt.Sprintf("generation %d: %s/%d is held by %v", gen, t, p, holders))
			}
		}
	}
	// all syncs of one generation see one map
	k := fmt.Sprintf("%d/%d", r.epoch, gen)
	if r.syncLog[k] == nil {
		r.syncLog[k] = map[string][]assignmentTopic{}
	}
	if prev, ok := r.syncLog[k][id]; ok && !coSameAssign(prev, got) {
		r.fail("C12", key("assignment-changed-within-generation"), fmt.Sprintf("member %s received %v and later %v in generation %d", id, prev, got, gen))
	}
	r.syncLog[k][id] = coCloneAssign(got)
	for other, oa := range r.syncLog[k] {
		if other == id {
			continue
		}
		for _, x := range oa {
			for _, y := range got {
				if x.Name != y.Name {
					continue
				}
				for _, p := range x.Partitions {
					for _, q := range y.Partitions {
						if p == q {
							r.fail("C12", key("partition-duplicated"), fmt.Sprintf("generation %d: %s/%d was handed to %s and to %s", gen, x.Name, p, other, id))
						}
					}
				}
			}
		}
	}
}

func (r *coRunner) doHeartbeat(ctx context.Context, op coOp) {
	id := r.slotID(op.M)
	pre := r.view()
	gen := r.selGen(op.G, id, pre)
	offsBefore := r.offsets()
	req := kmsg.NewPtrHeartbeatRequest()
	req.Group = coGroup
	req.MemberID = id
	req.Generation = gen
	now := r.now()
	resp := r.c.Heartbeat(ctx, req)
	st := coStep{kind: "hb", mid: id, gen: gen, now: now, reply: coReply{kind: "err", err: resp.ErrorCode}}
	if r.fired("fetch") {
		r.record(st) // the group could not be loaded: UNKNOWN_SERVER_ERROR, nothing changed
		return
	}
	current := r.isCurrent(pre, id, gen)
	if r.interleaved() {
		current = current && r.isCurrent(r.view(), id, gen)
	}
	if !current {
		r.tags["hb-stale"] = true
		if resp.ErrorCode == protocol.NONE {
			r.fail("C13", "stale-heartbeat-accepted", fmt.Sprintf("heartbeat of %q generation %d answered NONE; generation in view %d (highest seen %d), member in view %v, removed earlier %v", id, gen, coGen(pre), r.genSeen, pre.member(id) != nil, r.fenced[id]))
		}
	} else {
		// a heartbeat of a current member in the current generation keeps the session alive
		r.refresh[id] = now
		r.hbRebal[id] = pre.phase != groupStateStable
		if pre.phase != groupStateStable {
			r.tags["hb-during-rebalance"] = true
		}
	}
	if !r.interleaved() {
		r.checkOffsetsUnchanged("C13", "heartbeat", offsBefore)
	}
	if r.kw != nil && r.kw.member(id) != nil && r.kw.gen == gen && !r.anyFault() {
		r.tags["after-failover-hb"] = true
		if resp.ErrorCode != protocol.NONE {
			r.fail("C15", "heartbeat-rejected-after-failover", fmt.Sprintf("heartbeat of %s (Stable generation %d before failover; no join, leave or due expiry since) answered %d by the new coordinator", id, gen, resp.ErrorCode))
		}
	}
	r.preFailover = nil
	r.record(st)
}

func (r *coRunner) doLeave(ctx context.Context, op coOp) {
	id := r.slotID(op.M)
	r.kw = nil
	req := kmsg.NewPtrLeaveGroupRequest()
	req.Group = coGroup
	req.MemberID = id
	now := r.now()
	resp := r.c.LeaveGroup(ctx, req)
	st := coStep{kind: "leave", mid: id, now: now, reply: coReply{kind: "err", err: resp.ErrorCode}}
	if r.fired("fetch") {
		r.record(st)
		return
	}
	if post := r.view(); post != nil {
		r.dropGone(post)
	}
	r.preFailover = nil
	r.record(st)
}

func (r *coRunner) doCommit(ctx context.Context, op coOp) {
	id := r.slotID(op.M)
	pre := r.view()
	gen := r.selGen(op.G, id, pre)
	offsBefore := r.offsets()
	req := kmsg.NewPtrOffsetCommitRequest()
	req.Group = coGroup
	req.MemberID = id
	req.Generation = gen
	tp := kmsg.NewOffsetCommitRequestTopic()
	tp.Topic = coTopicNames[op.T%len(coTopicNames)]
	pp := kmsg.NewOffsetCommitRequestTopicPartition()
	pp.Partition = op.P
	pp.Offset = op.Off
	tp.Partitions = append(tp.Partitions, pp)
	req.Topics = append(req.Topics, tp)
	now := r.now()
	resp, err := r.c.OffsetCommit(ctx, req)
	interleaved := r.interleaved()
	if (err != nil || resp == nil) && r.fired("fetch") {
		r.record(coStep{kind: "commit", mid: id, gen: gen, t: op.T % len(coTopicNames), p: op.P, off: op.Off, now: now, reply: coReply{kind: "fail"}})
		return
	}
	if err != nil || resp == nil || len(resp.Topics) != 1 || len(resp.Topics[0].Partitions) != 1 {
		r.fail("*", "commit-error", fmt.Sprintf("OffsetCommit returned %v / malformed response", err))
		return
	}
	code := resp.Topics[0].Partitions[0].ErrorCode
	st := coStep{kind: "commit", mid: id, gen: gen, t: op.T % len(coTopicNames), p: op.P, off: op.Off, now: now, reply: coReply{kind: "err", err: code}}
	current := r.isCurrent(pre, id, gen)
	if !current {
		r.tags["commit-stale"] = true
		if code == protocol.NONE {
			r.fail("C13", "stale-commit-accepted", fmt.Sprintf("commit of %q generation %d answered NONE; generation in view %d (highest seen %d), member in view %v, removed earlier %v", id, gen, coGen(pre), r.genSeen, pre.member(id) != nil, r.fenced[id]))
		}
		if !interleaved {
			r.checkOffsetsUnchanged("C13", "stale-commit", offsBefore)
		}
	} else {
		r.tags["commit-current"] = true
	}
	if interleaved && current && code == protocol.NONE {
		// other coordinator operations ran between the check and the write: was the
		// member still in the current generation when its offset landed?
		if at := r.view(); at.member(id) == nil || at.gen != gen {
			r.fail("C13", "commit-lands-after-rebalance", fmt.Sprintf("OffsetCommit of %s (generation %d) released the coordinator lock before writing: %d operation(s) ran in between, after them the member is present=%v in generation %d, yet offset %d was written and answered NONE", id, gen, len(op.Inner), at.member(id) != nil, coGen(at), op.Off))
		}
	}
	if r.kw != nil && r.kw.member(id) != nil && r.kw.gen == gen && !interleaved && !r.anyFault() {
		r.tags["after-failover-commit"] = true
		if code != protocol.NONE {
			r.fail("C15", "commit-rejected-after-failover", fmt.Sprintf("commit of %s (Stable generation %d before failover; no join, leave or due expiry since) answered %d by the new coordinator", id, gen, code))
		}
	}
	r.preFailover = nil
	r.record(st)
}

func (r *coRunner) doCleanup() {
	r.preFailover = nil
	pre := r.snapMem()
	now := r.now()
	r.c.cleanupGroups()
	st := coStep{kind: "cleanup", now: now, reply: coReply{kind: "none"}}
	post := r.snapMem()
	// ---- C43 ----
	if pre != nil {
		for _, m := range pre.members {
			last, ok := r.refresh[m.id]
			sess := r.sess[m.id]
			if !ok || sess == 0 {
				continue
			}
			gone := post.member(m.id) == nil
			// removed as a lagger only at/after the deadline of the CURRENT rebalance round
			lagger := pre.phase == groupStatePreparingRebalance && now >= r.roundDeadline && m.joingen != pre.gen
			if !lagger && pre.deadline != nil && now >= *pre.deadline && m.joingen != pre.gen {
				r.tags["cleanup-stale-internal-deadline"] = true
			}
			if now-last > sess {
				r.tags["cleanup-expired"] = true
				if !gone {
					r.fail("C43", "expired-member-kept", fmt.Sprintf("member %s last refreshed at %d ms with session %d ms is still a member after cleanup at %d ms", m.id, last, sess, now))
				} else if post != nil && post.gen <= pre.gen {
					r.fail("C43", "no-rebalance-after-expiry", fmt.Sprintf("member %s expired but the generation stayed %d", m.id, post.gen))
				}
			} else if lagger {
				r.tags["cleanup-lagger"] = true
				if !gone {
					r.fail("C43", "lagger-kept", fmt.Sprintf("member %s did not rejoin generation %d before the rebalance deadline %d ms and is still a member after cleanup at %d ms", m.id, pre.gen, r.roundDeadline, now))
				} else if post != nil && post.gen <= pre.gen {
					r.fail("C43", "no-rebalance-after-lagger", fmt.Sprintf("member %s was dropped but the generation stayed %d", m.id, post.gen))
				}
			} else {
				r.tags["cleanup-live"] = true
				if now-last == sess {
					r.tags["cleanup-at-threshold"] = true
				}
				if gone {
					key := "live-member-removed"
					if pre.phase == groupStatePreparingRebalance && m.joingen != pre.gen && now < r.roundDeadline {
						key = "dropped-before-deadline-of-current-round" // the rebalance was restarted / extended at a later time than the coordinator's deadline reflects
					} else if r.hbRebal[m.id] {
						key = "heartbeat-during-rebalance-ignored" // its last heartbeat was answered REBALANCE_IN_PROGRESS and did not count
					}
					r.fail("C43", key, fmt.Sprintf("member %s refreshed at %d ms (session %d ms, coordinator's rebalance deadline %v, current round's deadline %d ms, joined generation %d of %d) was removed by cleanup at %d ms", m.id, last, sess, coDeadline(pre), r.roundDeadline, m.joingen, pre.gen, now))
					if r.kw != nil && r.kw.member(m.id) != nil {
						// C15: a member of the generation that was Stable at the failover, refreshed
						// within its session timeout, is evicted by the new coordinator
						r.fail("C15", "live-member-evicted-after-failover", fmt.Sprintf("member %s of Stable generation %d kept refreshing within its session timeout (last at %d ms, session %d ms) but the coordinator that took over evicted it at its cleanup tick at %d ms (it works from a stale lastHeartbeat / session timeout)", m.id, r.kw.gen, last, sess, now))
					}
				}
			}
		}
		// a due expiry / lagger drop legitimately ends the generation
		for _, m := range pre.members {
			if last, ok := r.refresh[m.id]; ok && r.sess[m.id] > 0 && now-last > r.sess[m.id] {
				r.kw = nil
			}
		}
	}
	if post != nil {
		r.dropGone(post)
	}
	r.record(st)
}

func coDeadline(g *coGroupSnap) string {
	if g == nil || g.deadline == nil {
		return "none"
	}
	return fmt.Sprintf("%d ms", *g.deadline)
}

func (r *coRunner) doFailover() {
	pre := r.snapMem()
	now := r.now()
	r.newCoordinator()
	st := coStep{kind: "failover", now: now, reply: coReply{kind: "none"}}
	if pre != nil {
		r.tags["failover-loaded"] = true
		r.failoverIn = true
		// ---- C15: the new coordinator's view of the group ----
		pg := r.fetchStored()
		if r.dirty {
			// the last whole-group write failed: the store legitimately holds an older image
			r.tags["failover-with-stale-store"] = true
		} else if pg == nil {
			r.fail("C15", "group-lost", fmt.Sprintf("group with %d members in generation %d is not in the store", len(pre.members), pre.gen))
		} else {
			got := coSnapGroup(restoreGroupState(pg), r.base)
			if d := coViewDiff(pre, got); d != "" {
				r.fail("C15", "view-differs", "after failover "+d)
			}
			// timeouts are outside the C15 view; track what the new coordinator will use (C43 bookkeeping)
			for _, m := range got.members {
				if old := pre.member(m.id); old != nil && old.sess != m.sess {
					r.tags["failover-session-timeout-changed"] = true
					if _, ok := r.sess[m.id]; ok {
						r.sess[m.id] = m.sess
					}
				}
			}
		}
		r.preFailover = pre
		if pre.phase == groupStateStable && !r.dirty {
			r.kw = pre
			r.tags["failover-of-stable-group"] = true
		} else {
			r.kw = nil
		}
	}
	r.record(st)
}

// coViewDiff compares the C15 view: generation, state, leader, members, subscriptions, assignments.
func coViewDiff(a, b *coGroupSnap) string {
	if a.gen != b.gen {
		return fmt.Sprintf("generation %d became %d", a.gen, b.gen)
	}
	if a.phase != b.phase {
		return fmt.Sprintf("state %d became %d", a.phase, b.phase)
	}
	if a.leader != b.leader {
		return fmt.Sprintf("leader %q became %q", a.leader, b.leader)
	}
	if len(a.members) != len(b.members) {
		return fmt.Sprintf("%d members became %d", len(a.members), len(b.members))
	}
	for i := range a.members {
		if a.members[i].id != b.members[i].id {
			return fmt.Sprintf("member %s became %s", a.members[i].id, b.members[i].id)
		}
		if !coSameStrings(a.members[i].topics, b.members[i].topics) {
			return fmt.Sprintf("subscription of %s %v became %v", a.members[i].id, a.members[i].topics, b.members[i].topics)
		}
		if !coSameAssign(a.assignment(a.members[i].id), b.assignment(a.members[i].id)) {
			return fmt.Sprintf("assignment of %s %v became %v", a.members[i].id, a.assignment(a.members[i].id), b.assignment(a.members[i].id))
		}
	}
	return ""
}

// coDetectKeep: does the store's clone keep the session/rebalance timeouts?
func coDetectKeep() bool {
	s := metadata.NewInMemoryStore(metadata.ClusterMetadata{})
	_ = s.PutConsumerGroup(context.Background(), &metadatapb.ConsumerGroup{GroupId: "probe", RebalanceTimeoutMs: 7, Members: map[string]*metadatapb.GroupMember{"m": {SessionTimeoutMs: 9}}})
	g, _ := s.FetchConsumerGroup(context.Background(), "probe")
	return g != nil && g.RebalanceTimeoutMs == 7 && g.Members["m"] != nil && g.Members["m"].SessionTimeoutMs == 9
}

func coNewRunner(cs coCase) *coRunner {
	r := &coRunner{cs: cs, tags: map[string]bool{}, meta: map[string][]int32{}, keep: coDetectKeep(),
		sub: map[string][]string{}, lastGen: map[string]int32{}, sess: map[string]int64{}, refresh: map[string]int64{}, changedSub: map[string]bool{}, hbRebal: map[string]bool{}, fenced: map[string]bool{},
		syncLog: map[string]map[string][]assignmentTopic{}}
	var topics []protocol.MetadataTopic
	for i, parts := range cs.Parts {
		if parts == nil || i >= 3 {
			continue
		}
		name := coTopicNames[i]
		mt := protocol.MetadataTopic{Topic: kmsg.StringPtr(name)}
		for _, p := range parts {
			mt.Partitions = append(mt.Partitions, protocol.MetadataPartition{Partition: p, Leader: 1})
		}
		topics = append(topics, mt)
		r.meta[name] = append([]int32(nil), parts...)
	}
	r.store = &coStore{InMemoryStore: metadata.NewInMemoryStore(metadata.ClusterMetadata{Topics: topics})}
	// probe keys: every (topic, partition) a commit of this case touches
	seen := map[[2]int]bool{}
	var walk func(ops []coOp)
	walk = func(ops []coOp) {
		for _, op := range ops {
			if op.K == "commit" {
				k := [2]int{op.T % len(coTopicNames), int(op.P)}
				if !seen[k] {
					seen[k] = true
					r.keys = append(r.keys, k)
				}
			}
			walk(op.Inner)
		}
	}
	walk(cs.Ops)
	return r
}

// coRun replays a recorded case; next == nil. With next != nil the operations are
// chosen while running (the generator looks at the live state) and recorded.
func coRun(t *testing.T, cs coCase, next func(r *coRunner, i int) (coOp, bool)) *coRunner {
	var out *coRunner
	synctest.Test(t, func(t *testing.T) {
		rand.Seed(cs.Seed)
		r := coNewRunner(cs)
		r.base = time.Now()
		r.newCoordinator()
		if next == nil {
			for _, op := range cs.Ops {
				r.exec(op)
			}
		} else {
			for i := 0; ; i++ {
				op, ok := next(r, i)
				if !ok {
					break
				}
				// probe keys of this operation's commits (also those in its window): a new
				// key's earlier observations are 0 (never committed)
				var reg func(o coOp)
				reg = func(o coOp) {
					if o.K == "commit" {
						k := [2]int{o.T % len(coTopicNames), int(o.P)}
						found := false
						for _, kk := range r.keys {
							found = found || kk == k
						}
						if !found {
							r.keys = append(r.keys, k)
							for j := range r.steps {
								r.steps[j].offs = append(r.steps[j].offs, 0)
							}
						}
					}
					for _, in := range o.Inner {
						reg(in)
					}
				}
				reg(op)
				r.cs.Ops = append(r.cs.Ops, op)
				r.exec(op)
			}
		}
		r.c.Stop()
		out = r
	})
	return out
}

// ---------- generator ----------
func coGenCase(t *testing.T, rng *vRand) *coRunner {
	cs := coCase{Seed: int64(rng.U64() >> 1)}
	for i := 0; i < 3; i++ {
		switch rng.Intn(8) {
		case 0:
			cs.Parts = append(cs.Parts, nil) // topic unknown to the metadata
		case 1:
			cs.Parts = append(cs.Parts, []int32{}) // topic without partitions
		case 2:
			cs.Parts = append(cs.Parts, []int32{0, 2, 5}) // gaps
		default:
			n := rng.Range(1, 4)
			var p []int32
			for k := 0; k < n; k++ {
				p = append(p, int32(k))
			}
			cs.Parts = append(cs.Parts, p)
		}
	}
	nops := rng.Range(5, 40)
	sessions := []int32{0, 5000, 10000, 40000}
	rebs := []int32{0, 5000, 20000, 60000}
	subs := map[int][]int{} // slot -> subscription last used
	randTopics := func() []int {
		var out []int
		for i := 0; i < 4; i++ {
			if rng.Chance([]int{60, 50, 35, 8}[i]) {
				out = append(out, i)
			}
		}
		if rng.Chance(10) {
			rng2 := rng.Intn(len(out) + 1)
			if rng2 < len(out) {
				out[0], out[rng2] = out[rng2], out[0]
			}
		}
		return out
	}
	var pending []coOp // a planned multi-operation shape in progress
	var choose func(r *coRunner, i int) (coOp, bool)
	// windows: while the chosen operation is inside a store call, other clients issue
	// operations on the same group -- every outer kind x store call x inner kinds
	withWindow := func(r *coRunner, i int) (coOp, bool) { return coOp{}, false }
	lastKind := ""
	// transient store errors: any store call of any operation kind can fail
	next := func(r *coRunner, i int) (coOp, bool) {
		op, ok := withWindow(r, i)
		if !ok {
			return op, ok
		}
		switch op.K {
		case "join", "sync", "hb", "leave", "commit", "cleanup":
			p := 9
			if lastKind == "failover" || i == 0 {
				p = 30 // the load right after a failover; the very first join of a group
			}
			if len(op.Fail) == 0 && rng.Chance(p) {
				switch w := rng.Intn(10); {
				case w < 4:
					op.Fail = []string{"persist"}
				case w < 7:
					op.Fail = []string{"fetch"}
				case w < 8:
					op.Fail = []string{"commit"}
				case w < 9:
					op.Fail = []string{"fetch", "persist"}
				default:
					op.Fail = []string{"persist", "commit"}
				}
			}
		}
		lastKind = op.K
		return op, ok
	}
	withWindow = func(r *coRunner, i int) (coOp, bool) {
		op, ok := choose(r, i)
		if !ok || len(op.Inner) > 0 || !rng.Chance(16) {
			return op, ok
		}
		switch op.K {
		case "join", "sync", "hb", "leave", "commit", "cleanup":
		default:
			return op, ok
		}
		v := r.view()
		var cur []int
		if v != nil {
			for sl, id := range r.ids {
				if v.member(id) != nil {
					cur = append(cur, sl)
				}
			}
		}
		anyCur := func() int {
			if len(cur) == 0 {
				return -2
			}
			return cur[rng.Intn(len(cur))]
		}
		n := rng.Range(1, 2)
		for k := 0; k < n; k++ {
			switch rng.Intn(8) {
			case 0:
				op.Inner = append(op.Inner, coOp{K: "leave", M: anyCur()})
			case 1:
				op.Inner = append(op.Inner, coOp{K: "join", M: -1, Sess: sessions[rng.Intn(4)], Reb: rebs[rng.Intn(4)], Topics: randTopics()})
			case 2:
				sl := anyCur()
				op.Inner = append(op.Inner, coOp{K: "join", M: sl, Sess: sessions[rng.Intn(4)], Reb: rebs[rng.Intn(4)], Topics: subs[sl]})
			case 3:
				op.Inner = append(op.Inner, coOp{K: "adv", D: 60001}, coOp{K: "cleanup"})
			case 4:
				op.Inner = append(op.Inner, coOp{K: "hb", M: anyCur()})
			case 5:
				op.Inner = append(op.Inner, coOp{K: "sync", M: anyCur()})
			case 6:
				op.Inner = append(op.Inner, coOp{K: "commit", M: anyCur(), T: rng.Intn(3), P: int32(rng.Intn(3)), Off: int64(rng.Range(1, 1000))})
			default:
				sl := anyCur()
				op.Inner = append(op.Inner, coOp{K: "join", M: sl, Sess: sessions[rng.Intn(4)], Reb: rebs[rng.Intn(4)], Topics: randTopics()})
			}
		}
		if rng.Chance(40) {
			op.At = []string{"fetch", "put", "delete", "metadata", "commit"}[rng.Intn(5)]
		}
		for _, in := range op.Inner {
			if in.K != "adv" {
				r.tags["window:"+op.K+":"+in.K] = true
			}
		}
		return op, true
	}
	choose = func(r *coRunner, i int) (coOp, bool) {
		if len(pending) > 0 {
			op := pending[0]
			pending = pending[1:]
			return op, true
		}
		if i >= nops {
			return coOp{}, false
		}
		v := r.view()
		var cur []int // slots of current members
		if v != nil {
			for s, id := range r.ids {
				if v.member(id) != nil {
					cur = append(cur, s)
				}
			}
		}
		pickCur := func() int {
			if len(cur) == 0 || rng.Chance(6) {
				if rng.Bool() || len(r.ids) == 0 {
					return -2
				}
				return rng.Intn(len(r.ids)) // possibly a former member
			}
			return cur[rng.Intn(len(cur))]
		}
		genSel := func() int {
			if rng.Chance(80) {
				return 0
			}
			return rng.Range(1, 3)
		}
		joinNew := func() coOp {
			op := coOp{K: "join", M: -1, Sess: sessions[rng.Intn(4)], Reb: rebs[rng.Intn(4)], Topics: randTopics()}
			if rng.Chance(10) {
				op.M = -2
			}
			subs[len(r.ids)] = op.Topics
			return op
		}
		rejoin := func(slot int, change bool) coOp {
			op := coOp{K: "join", M: slot, Sess: sessions[rng.Intn(4)], Reb: rebs[rng.Intn(4)], Topics: subs[slot]}
			if change {
				op.Topics = randTopics()
				subs[slot] = op.Topics
			}
			return op
		}
		leaderSlot := func() int {
			for s, id := range r.ids {
				if v != nil && id == v.leader {
					return s
				}
			}
			return -2
		}
		advance := func() coOp {
			var d int64
			now := r.now()
			switch rng.Intn(6) {
			case 0, 1: // around a member's session expiry
				if v != nil && len(v.members) > 0 {
					m := v.members[rng.Intn(len(v.members))]
					d = m.hb + m.sess - now + int64(rng.Range(-1, 1))
				}
			case 2: // around the rebalance deadline
				if v != nil && v.deadline != nil {
					d = *v.deadline - now + int64(rng.Range(-1, 1))
				}
			case 3:
				d = int64(rng.Range(1, 3000))
			case 4:
				d = int64([]int{4999, 5000, 5001, 10001, 30000, 30001, 60001}[rng.Intn(7)])
			default:
				d = int64(rng.Range(1, 200))
			}
			if d <= 0 {
				d = int64(rng.Range(0, 50))
			}
			return coOp{K: "adv", D: d}
		}
		commit := func() coOp {
			op := coOp{K: "commit", M: pickCur(), G: genSel(), T: rng.Intn(4), P: int32(rng.Intn(3)), Off: int64(rng.Range(1, 1000))}
			if rng.Chance(25) {
				// operations racing with the commit: the member leaves / is expired / somebody joins
				switch rng.Intn(3) {
				case 0:
					op.Inner = []coOp{{K: "leave", M: op.M}}
				case 1:
					op.Inner = []coOp{{K: "adv", D: 60001}, {K: "cleanup"}}
				default:
					op.Inner = []coOp{joinNew()}
				}
			}
			return op
		}
		// shape: a member is removed (expired by a cleanup tick, or leaves), the coordinator
		// fails over before any survivor has rejoined, then the removed member and the
		// survivors send requests with the generation they last saw
		if v != nil && len(cur) >= 2 && rng.Chance(9) {
			zombieRequests := func(slot int) []coOp {
				all := []coOp{
					{K: "commit", M: slot, G: 1, T: rng.Intn(3), P: int32(rng.Intn(3)), Off: int64(rng.Range(1, 1000))},
					{K: "hb", M: slot, G: 1},
					{K: "sync", M: slot, G: 1},
				}
				k := rng.Intn(3)
				all[0], all[k] = all[k], all[0]
				return all[:rng.Range(1, 3)]
			}
			var plan []coOp
			var victim, survivor int
			if rng.Chance(70) {
				// the member whose session ends first expires; the others heartbeat just before the tick
				best := int64(-1)
				for _, sl := range cur {
					m := v.member(r.ids[sl])
					if e := m.hb + m.sess; best < 0 || e < best {
						best, victim = e, sl
					}
				}
				d := best + 1 - r.now()
				if d < 1 {
					d = 1
				}
				plan = append(plan, coOp{K: "adv", D: d})
				for _, sl := range cur {
					if sl != victim {
						plan = append(plan, coOp{K: "hb", M: sl})
						survivor = sl
					}
				}
				plan = append(plan, coOp{K: "cleanup"})
			} else {
				victim = cur[rng.Intn(len(cur))]
				for _, sl := range cur {
					if sl != victim {
						survivor = sl
					}
				}
				plan = append(plan, coOp{K: "leave", M: victim})
			}
			plan = append(plan, coOp{K: "failover"})
			plan = append(plan, zombieRequests(victim)...)
			if rng.Bool() {
				plan = append(plan, zombieRequests(survivor)[0]) // a survivor still using the old generation
			}
			if rng.Bool() {
				plan = append(plan, rejoin(survivor, false), coOp{K: "sync", M: survivor})
			}
			pending = plan[1:]
			return plan[0], true
		}
		// shape: a Stable group heartbeats regularly for longer than a session timeout, the
		// coordinator fails over, some request makes the new coordinator load the group, its
		// cleanup tick runs, then the members carry on with the generation they know
		if v != nil && v.phase == groupStateStable && len(cur) >= 1 && rng.Chance(9) {
			minSess := int64(-1)
			for _, sl := range cur {
				if m := v.member(r.ids[sl]); minSess < 0 || m.sess < minSess {
					minSess = m.sess
				}
			}
			step := minSess / 2
			if step < 1 {
				step = 1
			}
			var plan []coOp
			for _, sl := range cur {
				plan = append(plan, coOp{K: "hb", M: sl})
			}
			for round := 0; round < 3; round++ {
				plan = append(plan, coOp{K: "adv", D: step})
				for _, sl := range cur {
					plan = append(plan, coOp{K: "hb", M: sl})
				}
			}
			if rng.Chance(30) {
				plan = append(plan, coOp{K: "adv", D: int64(rng.Range(1, int(step)))})
			}
			plan = append(plan, coOp{K: "failover"})
			switch rng.Intn(4) { // what makes the new coordinator load the group
			case 0:
				plan = append(plan, coOp{K: "hb", M: -2})
			case 1:
				plan = append(plan, coOp{K: "hb", M: cur[rng.Intn(len(cur))], G: 1})
			case 2:
				plan = append(plan, coOp{K: "sync", M: cur[rng.Intn(len(cur))], G: 1})
			default:
				plan = append(plan, coOp{K: "commit", M: cur[rng.Intn(len(cur))], G: 1, T: rng.Intn(3), P: int32(rng.Intn(3)), Off: int64(rng.Range(1, 1000))})
			}
			plan = append(plan, coOp{K: "cleanup"})
			for _, sl := range cur {
				plan = append(plan, []coOp{{K: "hb", M: sl, G: 1}, {K: "sync", M: sl, G: 1}, {K: "commit", M: sl, G: 1, T: rng.Intn(3), P: int32(rng.Intn(3)), Off: int64(rng.Range(1, 1000))}}[rng.Intn(3)])
			}
			if rng.Bool() {
				plan = append(plan, coOp{K: "adv", D: step}, coOp{K: "cleanup"})
				plan = append(plan, coOp{K: "hb", M: cur[rng.Intn(len(cur))], G: 1})
			}
			pending = plan[1:]
			return plan[0], true
		}
		// shape: a rebalance with a lagger whose deadline passes (the sweep drops it and restarts
		// the rebalance); the survivors heartbeat and need longer than one sweep interval to
		// rejoin: they have a whole new rebalance timeout
		if v != nil && len(cur) >= 2 && rng.Chance(8) {
			reb := []int32{5000, 20000}[rng.Intn(2)]
			lag := cur[rng.Intn(len(cur))]
			var plan []coOp
			// (re)start a rebalance with a known timeout: a new member joins
			plan = append(plan, coOp{K: "join", M: -1, Sess: 40000, Reb: reb, Topics: randTopics()})
			joiner := len(r.ids) // slot of the new member
			var survivors []int
			for _, sl := range cur {
				if sl != lag {
					survivors = append(survivors, sl)
				}
			}
			// one survivor rejoins at once, the others only heartbeat for now; the lagger is silent
			if len(survivors) > 0 && rng.Bool() {
				plan = append(plan, coOp{K: "join", M: survivors[0], Sess: 40000, Reb: reb, Topics: subs[survivors[0]]})
			}
			plan = append(plan, coOp{K: "adv", D: int64(reb) + int64(rng.Range(0, 1))})
			for _, sl := range survivors {
				plan = append(plan, coOp{K: "hb", M: sl})
			}
			plan = append(plan, coOp{K: "hb", M: joiner}, coOp{K: "cleanup"}) // drops the laggers, restarts the rebalance
			sweep := int64(rng.Range(1000, 4000))
			plan = append(plan, coOp{K: "adv", D: sweep})
			for _, sl := range survivors {
				plan = append(plan, coOp{K: "hb", M: sl})
			}
			plan = append(plan, coOp{K: "cleanup"}) // nobody may be dropped here: the new round has just begun
			for _, sl := range survivors {
				plan = append(plan, coOp{K: "join", M: sl, Sess: 40000, Reb: reb, Topics: subs[sl]})
			}
			plan = append(plan, coOp{K: "join", M: joiner, Sess: 40000, Reb: reb}, coOp{K: "cleanup"})
			pending = plan[1:]
			return plan[0], true
		}
		// progress moves make complete rebalances frequent
		if v != nil && rng.Chance(45) {
			switch v.phase {
			case groupStatePreparingRebalance:
				var pending []int
				for s, id := range r.ids {
					if m := v.member(id); m != nil && m.joingen != v.gen {
						pending = append(pending, s)
					}
				}
				if len(pending) > 0 {
					return rejoin(pending[rng.Intn(len(pending))], rng.Chance(15)), true
				}
			case groupStateCompletingRebalance:
				return coOp{K: "sync", M: leaderSlot(), G: 0}, true
			case groupStateStable:
				if len(cur) > 0 {
					s := cur[rng.Intn(len(cur))]
					switch rng.Intn(5) {
					case 0:
						return coOp{K: "hb", M: s}, true
					case 1, 2:
						return coOp{K: "sync", M: s}, true
					case 3:
						return coOp{K: "commit", M: s, T: rng.Intn(3), P: int32(rng.Intn(3)), Off: int64(rng.Range(1, 1000))}, true
					default:
						return rejoin(s, true), true
					}
				}
			}
		}
		w := rng.Intn(100)
		switch {
		case w < 14:
			if len(r.ids) < 6 {
				return joinNew(), true
			}
			return rejoin(pickCur(), false), true
		case w < 26:
			return rejoin(pickCur(), false), true
		case w < 33:
			return rejoin(pickCur(), true), true
		case w < 49:
			s := pickCur()
			if rng.Chance(30) {
				s = leaderSlot()
			}
			return coOp{K: "sync", M: s, G: genSel()}, true
		case w < 60:
			return coOp{K: "hb", M: pickCur(), G: genSel()}, true
		case w < 64:
			return coOp{K: "leave", M: pickCur()}, true
		case w < 73:
			return commit(), true
		case w < 85:
			return advance(), true
		case w < 95:
			return coOp{K: "cleanup"}, true
		default:
			return coOp{K: "failover"}, true
		}
	}
	return coRun(t, cs, next)
}

// ---------- Coq emission ----------
type coRanks map[string]int64

func (r *coRunner) ranks() coRanks {
	ids := append([]string(nil), r.ids...)
	sort.Strings(ids)
	m := coRanks{}
	for i, id := range ids {
		m[id] = int64(i)
	}
	return m
}
func (m coRanks) z(id string) string {
	if id == "" {
		return "(-1)"
	}
	if v, ok := m[id]; ok {
		return cqZ(v)
	}
	return "(-2)"
}
func (m coRanks) opt(id string) string {
	if id == "" {
		return "None"
	}
	return "(Some " + m.z(id) + ")"
}
func coTopicZ(name string) string {
	for i, n := range coTopicNames {
		if n == name {
			return cqZ(int64(i))
		}
	}
	return "(-9)"
}
func coTopicsZ(names []string) string {
	items := make([]string, len(names))
	for i, n := range names {
		items[i] = coTopicZ(n)
	}
	return cqList(items)
}
func coAssignZ(a []assignmentTopic) string {
	items := make([]string, len(a))
	for i, t := range a {
		ps := make([]int64, len(t.Partitions))
		for j, p := range t.Partitions {
			ps[j] = int64(p)
		}
		items[i] = "(" + coTopicZ(t.Name) + ", " + cqZs(ps) + ")"
	}
	return cqList(items)
}
func coPhaseZ(p groupPhase) string {
	return []string{"PEmpty", "PPreparing", "PCompleting", "PStable", "PDead"}[int(p)%5]
}

func (r *coRunner) coq() string {
	rk := r.ranks()
	var tbl []string
	for i, parts := range r.cs.Parts {
		if parts == nil || i >= 3 {
			continue
		}
		ps := make([]int64, len(parts))
		for j, p := range parts {
			ps[j] = int64(p)
		}
		tbl = append(tbl, "("+cqZ(int64(i))+", "+cqZs(ps)+")")
	}
	keys := make([]string, len(r.keys))
	for i, k := range r.keys {
		keys[i] = fmt.Sprintf("(%d, %d)", k[0], k[1])
	}
	ops := make([]string, len(r.steps))
	obs := make([]string, len(r.steps))
	for i, s := range r.steps {
		switch s.kind {
		case "join":
			fresh := "(-100)"
			if s.fresh != "" {
				fresh = rk.z(s.fresh)
			}
			tz := make([]int64, len(s.topics))
			for j, t := range s.topics {
				tz[j] = int64(t % len(coTopicNames))
			}
			ops[i] = fmt.Sprintf("Join %s %s %s %s %s %s", rk.z(s.mid), fresh, cqZ(int64(s.sess)), cqZ(int64(s.reb)), cqZs(tz), cqZ(s.now))
		case "sync":
			ops[i] = fmt.Sprintf("Sync %s %s %s", rk.z(s.mid), cqZ(int64(s.gen)), cqZ(s.now))
		case "hb":
			ops[i] = fmt.Sprintf("Heartbeat %s %s %s", rk.z(s.mid), cqZ(int64(s.gen)), cqZ(s.now))
		case "leave":
			ops[i] = fmt.Sprintf("Leave %s %s", rk.z(s.mid), cqZ(s.now))
		case "commit":
			ops[i] = fmt.Sprintf("Commit %s %s %s %s %s %s", rk.z(s.mid), cqZ(int64(s.gen)), cqZ(int64(s.t)), cqZ(int64(s.p)), cqZ(s.off), cqZ(s.now))
		case "cleanup":
			ops[i] = "Cleanup " + cqZ(s.now)
		case "failover":
			ops[i] = "Failover"
		}
		flt := func(k string) string {
			for _, f := range s.fail {
				if f == k {
					return "true"
				}
			}
			return "false"
		}
		ops[i] = fmt.Sprintf("(%s, mkFault %s %s %s)", ops[i], flt("fetch"), flt("persist"), flt("commit"))
		var rep string
		switch s.reply.kind {
		case "join":
			ms := make([]string, len(s.reply.members))
			for j, m := range s.reply.members {
				ms[j] = "(" + rk.z(m.id) + ", " + coTopicsZ(m.topics) + ")"
			}
			rep = fmt.Sprintf("(RJoin %s %s %s %s %s)", cqZ(int64(s.reply.err)), cqZ(int64(s.reply.gen)), rk.opt(s.reply.leader), rk.z(s.reply.member), cqList(ms))
		case "sync":
			rep = fmt.Sprintf("(RSync %s %s)", cqZ(int64(s.reply.err)), coAssignZ(s.reply.assign))
		case "err":
			rep = fmt.Sprintf("(RErr %s)", cqZ(int64(s.reply.err)))
		case "fail":
			rep = ""
		default:
			rep = "RNone"
		}
		if rep == "" {
			rep = "None"
		} else {
			rep = "(Some " + rep + ")"
		}
		mem := "None"
		if g := s.mem; g != nil {
			ms := make([]string, len(g.members))
			for j, m := range g.members {
				ms[j] = fmt.Sprintf("(%s, mkMember %s %s %s %s)", rk.z(m.id), coTopicsZ(m.topics), cqZ(m.sess), cqZ(m.hb), cqZ(int64(m.joingen)))
			}
			as := make([]string, len(g.assign))
			for j, a := range g.assign {
				as[j] = "(" + rk.z(a.id) + ", " + coAssignZ(a.a) + ")"
			}
			dl := "None"
			if g.deadline != nil {
				dl = "(Some " + cqZ(*g.deadline) + ")"
			}
			mem = fmt.Sprintf("(Some (mkGroup %s %s %s %s %s %s %s))", cqZ(int64(g.gen)), rk.opt(g.leader), coPhaseZ(g.phase), cqList(ms), cqList(as), cqZ(g.rebto), dl)
		}
		sto := "None"
		if g := s.store; g != nil {
			ms := make([]string, len(g.members))
			for j, m := range g.members {
				ms[j] = fmt.Sprintf("(%s, mkPM %s %s %s %s)", rk.z(m.id), coTopicsZ(m.topics), cqZ(m.sess), cqZ(m.hb), coAssignZ(m.a))
			}
			sto = fmt.Sprintf("(Some (mkPG %s %s %s %s %s))", coPhaseZ(g.phase), rk.opt(g.leader), cqZ(int64(g.gen)), cqZ(g.rebto), cqList(ms))
		}
		offs := append([]int64(nil), s.offs...)
		for len(offs) < len(r.keys) {
			offs = append(offs, 0)
		}
		obs[i] = fmt.Sprintf("mkObs %s %s %s %s", rep, mem, sto, cqZs(offs))
	}
	return fmt.Sprintf("mkCase (mkEnv %s %s) %s %s %s", cqList(tbl), cqBool(r.keep), cqList(keys), cqList(ops), cqList(obs))
}

// ---------- corpus: the shapes of earlier findings ----------
func coCorpus() []coCase {
	p := [][]int32{{0, 1, 2}, {0, 1}, {0}}
	return []coCase{
		// C12: re-join of a Stable member with a changed subscription must rebalance
		{Parts: p, Seed: 11, Ops: []coOp{{K: "join", M: -1, Topics: []int{0}}, {K: "sync", M: 0}, {K: "join", M: 0, Topics: []int{1}}, {K: "sync", M: 0}, {K: "join", M: 0, Topics: []int{1}}, {K: "sync", M: 0}}},
		// C43: a member that keeps heartbeating through a long rebalance is not expired
		{Parts: p, Seed: 12, Ops: []coOp{{K: "join", M: -1, Sess: 10000, Reb: 60000, Topics: []int{0}}, {K: "sync", M: 0},
			{K: "join", M: -1, Sess: 10000, Reb: 60000, Topics: []int{0}}, {K: "join", M: 0, Sess: 10000, Reb: 60000, Topics: []int{0}},
			{K: "adv", D: 4000}, {K: "hb", M: 0}, {K: "adv", D: 4000}, {K: "hb", M: 0}, {K: "adv", D: 4000}, {K: "hb", M: 0}, {K: "cleanup"},
			{K: "join", M: 0, Sess: 10000, Reb: 60000, Topics: []int{0}}, {K: "sync", M: 0}}},
		// C13: a commit racing with the member's own departure / expiry
		{Parts: p, Seed: 13, Ops: []coOp{{K: "join", M: -1, Topics: []int{0}}, {K: "sync", M: 0}, {K: "join", M: -1, Topics: []int{0}}, {K: "join", M: 0, Topics: []int{0}}, {K: "sync", M: 0},
			{K: "commit", M: 1, T: 0, P: 1, Off: 50, Inner: []coOp{{K: "leave", M: 1}, {K: "join", M: 0, Topics: []int{0}}, {K: "sync", M: 0}, {K: "commit", M: 0, T: 0, P: 1, Off: 100}}}}},
		// C13: expired member commits with its old generation
		{Parts: p, Seed: 14, Ops: []coOp{{K: "join", M: -1, Sess: 5000, Topics: []int{0}}, {K: "sync", M: 0}, {K: "join", M: -1, Sess: 40000, Topics: []int{0}}, {K: "join", M: 0, Sess: 5000, Topics: []int{0}}, {K: "sync", M: 0}, {K: "sync", M: 1},
			{K: "commit", M: 0, T: 0, P: 0, Off: 7}, {K: "adv", D: 5001}, {K: "hb", M: 1}, {K: "cleanup"}, {K: "commit", M: 0, G: 1, T: 0, P: 0, Off: 9}, {K: "hb", M: 0, G: 1}, {K: "sync", M: 0, G: 1}}},
		// C15: failover in every phase, members keep working
		{Parts: p, Seed: 15, Ops: []coOp{{K: "join", M: -1, Sess: 40000, Reb: 60000, Topics: []int{0, 1}}, {K: "failover"}, {K: "sync", M: 0}, {K: "failover"}, {K: "hb", M: 0}, {K: "failover"}, {K: "sync", M: 0},
			{K: "join", M: -1, Topics: []int{1, 2}}, {K: "failover"}, {K: "join", M: 0, Topics: []int{0, 1}}, {K: "failover"}, {K: "sync", M: 0}, {K: "failover"}, {K: "sync", M: 1}, {K: "failover"}, {K: "commit", M: 1, T: 1, P: 0, Off: 3},
			{K: "adv", D: 30001}, {K: "hb", M: 0}, {K: "cleanup"}}},
		// C13 / C15: a member expires, failover before any survivor rejoins, then the expired
		// member (and a survivor) use the old generation: all fenced, generation not going back
		{Parts: p, Seed: 17, Ops: []coOp{{K: "join", M: -1, Sess: 5000, Topics: []int{0}}, {K: "sync", M: 0}, {K: "join", M: -1, Sess: 40000, Topics: []int{0}}, {K: "join", M: 0, Sess: 5000, Topics: []int{0}}, {K: "sync", M: 0}, {K: "sync", M: 1},
			{K: "commit", M: 0, T: 0, P: 0, Off: 7}, {K: "adv", D: 5001}, {K: "hb", M: 1}, {K: "cleanup"}, {K: "failover"},
			{K: "commit", M: 0, G: 1, T: 0, P: 0, Off: 9}, {K: "hb", M: 0, G: 1}, {K: "sync", M: 0, G: 1}, {K: "commit", M: 1, G: 1, T: 0, P: 0, Off: 11}, {K: "join", M: 1, Sess: 40000, Topics: []int{0}}, {K: "sync", M: 1}}},
		// the same with a LeaveGroup instead of an expiry
		{Parts: p, Seed: 18, Ops: []coOp{{K: "join", M: -1, Topics: []int{0}}, {K: "sync", M: 0}, {K: "join", M: -1, Topics: []int{0}}, {K: "join", M: 0, Topics: []int{0}}, {K: "sync", M: 0},
			{K: "leave", M: 1}, {K: "failover"}, {K: "commit", M: 1, G: 1, T: 0, P: 1, Off: 5}, {K: "sync", M: 1, G: 1}, {K: "hb", M: 0, G: 1}}},
		// C15 / C43: heartbeats for longer than the session timeout, failover, the new
		// coordinator loads the group and ticks: nobody is evicted, everybody keeps working
		{Parts: p, Seed: 19, Ops: []coOp{{K: "join", M: -1, Sess: 10000, Topics: []int{0}}, {K: "sync", M: 0}, {K: "join", M: -1, Sess: 10000, Topics: []int{0}}, {K: "join", M: 0, Sess: 10000, Topics: []int{0}}, {K: "sync", M: 0}, {K: "sync", M: 1},
			{K: "adv", D: 5000}, {K: "hb", M: 0}, {K: "hb", M: 1}, {K: "adv", D: 5000}, {K: "hb", M: 0}, {K: "hb", M: 1}, {K: "adv", D: 5000}, {K: "hb", M: 0}, {K: "hb", M: 1},
			{K: "failover"}, {K: "hb", M: 0, G: 1}, {K: "cleanup"}, {K: "hb", M: 1, G: 1}, {K: "sync", M: 1, G: 1}, {K: "commit", M: 0, G: 1, T: 0, P: 0, Off: 3}}},
		// schedules: the leader's sync is inside store.Metadata while a member leaves / a new
		// member joins; a join is inside PutConsumerGroup while another join completes
		{Parts: p, Seed: 20, Ops: []coOp{{K: "join", M: -1, Topics: []int{0}}, {K: "sync", M: 0}, {K: "join", M: -1, Topics: []int{0}}, {K: "join", M: 0, Topics: []int{0}},
			{K: "sync", M: 0, Inner: []coOp{{K: "leave", M: 1}}}, {K: "hb", M: 0}, {K: "sync", M: 0, G: 1}, {K: "failover"}, {K: "hb", M: 0, G: 1}}},
		{Parts: p, Seed: 21, Ops: []coOp{{K: "join", M: -1, Topics: []int{0}}, {K: "sync", M: 0},
			{K: "join", M: -1, Topics: []int{0}, At: "put", Inner: []coOp{{K: "join", M: -1, Topics: []int{1}}}}, {K: "failover"}, {K: "hb", M: 1, G: 1}, {K: "hb", M: 2, G: 1}}},
		// store faults: the first join's write fails, the client retries; the leader's sync write
		// fails; the last member's delete fails; the load after a failover fails once
		{Parts: p, Seed: 22, Ops: []coOp{{K: "join", M: -1, Topics: []int{0}, Fail: []string{"persist"}}, {K: "join", M: -1, Topics: []int{0}}, {K: "join", M: 0, Topics: []int{0}}, {K: "sync", M: 0, Fail: []string{"persist"}}, {K: "sync", M: 0}, {K: "sync", M: 1}, {K: "hb", M: 1}}},
		{Parts: p, Seed: 23, Ops: []coOp{{K: "join", M: -1, Topics: []int{0}}, {K: "sync", M: 0}, {K: "leave", M: 0, Fail: []string{"persist"}}, {K: "hb", M: 0, G: 1}, {K: "join", M: -1, Topics: []int{0}}, {K: "sync", M: 1}}},
		{Parts: p, Seed: 24, Ops: []coOp{{K: "join", M: -1, Sess: 5000, Topics: []int{0}}, {K: "sync", M: 0}, {K: "failover"}, {K: "hb", M: 0, G: 1, Fail: []string{"fetch"}}, {K: "sync", M: 0, G: 1, Fail: []string{"fetch"}}, {K: "hb", M: 0, G: 1},
			{K: "adv", D: 5001}, {K: "cleanup", Fail: []string{"persist"}}, {K: "failover"}, {K: "hb", M: 0, G: 1}, {K: "commit", M: 0, G: 1, T: 0, P: 0, Off: 4, Fail: []string{"commit"}}}},
		// C43: the sweep drops a lagger and restarts the rebalance: the survivors get a new deadline
		{Parts: p, Seed: 25, Ops: []coOp{{K: "join", M: -1, Sess: 40000, Reb: 5000, Topics: []int{0}}, {K: "sync", M: 0}, {K: "join", M: -1, Sess: 40000, Reb: 5000, Topics: []int{0}}, {K: "join", M: 0, Sess: 40000, Reb: 5000, Topics: []int{0}}, {K: "sync", M: 0},
			{K: "join", M: -1, Sess: 40000, Reb: 5000, Topics: []int{0}}, {K: "adv", D: 5000}, {K: "hb", M: 0}, {K: "hb", M: 2}, {K: "cleanup"}, {K: "adv", D: 2000}, {K: "hb", M: 0}, {K: "hb", M: 2}, {K: "cleanup"},
			{K: "join", M: 0, Sess: 40000, Reb: 5000, Topics: []int{0}}, {K: "join", M: 2, Sess: 40000, Reb: 5000, Topics: []int{0}}, {K: "sync", M: 0}}},
		// C14 / C43: laggers at the rebalance deadline
		{Parts: p, Seed: 16, Ops: []coOp{{K: "join", M: -1, Sess: 40000, Reb: 5000, Topics: []int{0}}, {K: "sync", M: 0}, {K: "join", M: -1, Sess: 40000, Reb: 5000, Topics: []int{0}}, {K: "adv", D: 4999}, {K: "cleanup"}, {K: "adv", D: 1}, {K: "cleanup"},
			{K: "join", M: 1, Sess: 40000, Reb: 5000, Topics: []int{0}}, {K: "sync", M: 1}}},
	}
}

func coWriteCases(rep *vReport, prop string, coq, jsons []string) {
	const chunk = 40
	for i, k := 0, 0; i < len(coq) || i == 0; i, k = i+chunk, k+1 {
		j := i + chunk
		if j > len(coq) {
			j = len(coq)
		}
		fn := fmt.Sprintf("cases_%s_%02d_0.v", prop, k)
		var sb strings.Builder
		sb.WriteString("From KS Require Import lib.Base model.Coordinator model.CoordinatorFaults corr.CoordinatorCorr.\nOpen Scope Z_scope.\n")
		names := make([]string, 0, j-i)
		for n, c := range coq[i:j] {
			sb.WriteString(fmt.Sprintf("(*#%d*) Definition c%d : case := %s.\n", n, n, strings.ReplaceAll(c, "\n", " ")))
			names = append(names, fmt.Sprintf("c%d", n))
		}
		sb.WriteString("Definition cases : list case := " + cqList(names) + ".\n")
		sb.WriteString("Definition mism := Eval vm_compute in (mismatches check_case cases).\nPrint mism.\n")
		_ = os.WriteFile(vOutDir()+"/"+fn, []byte(sb.String()), 0o644)
		if len(jsons) == len(coq) && j > i {
			_ = os.WriteFile(vOutDir()+"/"+strings.TrimSuffix(fn, ".v")+".jsonl", []byte(strings.Join(jsons[i:j], "\n")+"\n"), 0o644)
		}
		rep.CaseFiles = append(rep.CaseFiles, fn)
		if len(coq) == 0 {
			break
		}
	}
	rep.CaseCount += len(coq)
}

// coShapeTags: histogram entries for history shapes the oracles depend on
func coShapeTags(r *coRunner, rep *vReport) {
	for i := 2; i < len(r.steps); i++ {
		if r.steps[i-1].kind != "failover" {
			continue
		}
		prev, before := r.steps[i-2], (*coGroupSnap)(nil)
		if i >= 3 {
			before = r.steps[i-3].mem
		}
		removedJustBefore := false
		if before != nil && (prev.kind == "cleanup" || prev.kind == "leave") {
			for _, m := range before.members {
				if prev.mem != nil && prev.mem.member(m.id) == nil {
					removedJustBefore = true
				}
			}
		}
		if removedJustBefore {
			rep.Hist("removal-then-failover")
			k := r.steps[i].kind
			if (k == "commit" || k == "hb" || k == "sync") && r.steps[i].reply.err != 0 {
				rep.Hist("removal-then-failover-then-rejected-request")
			}
		}
	}
}

func coNontrivial(r *coRunner) bool {
	return r.tags["sync-success"] && r.tags["join-existing"] && len(r.steps) >= 5
}

func TestVerifCoordinator(t *testing.T) {
	prop := os.Getenv("VERIF_CO_PROP")
	if prop == "" {
		prop = "C12"
	}
	rep := vNewReport(prop, "generated histories of 5-40 operations on one consumer group over the real GroupCoordinator + InMemoryStore on virtual time: up to 6 member ids, 3 topics with 0-4 partitions (incl. unknown topic, gaps), joins (new / existing / changed subscription / unknown id), syncs and heartbeats and commits with current / stale / future generations, leaves, clock advances around session and rebalance thresholds (+-1 ms), explicit cleanup ticks, coordinator failovers, commits racing with membership changes; non-trivial = at least one completed rebalance (successful sync) and a re-join; distinct = distinct canonical op list")
	var coq, jsons []string
	handle := func(r *coRunner) {
		canon, _ := json.Marshal(r.cs)
		rep.Count(string(canon), coNontrivial(r))
		for tg := range r.tags {
			rep.Hist(tg)
		}
		rep.Hist(fmt.Sprintf("ops<=%d", ((len(r.steps)+9)/10)*10))
		coShapeTags(r, rep)
		rep.Sample(r.cs)
		seenKey := map[string]bool{}
		for _, f := range r.fails {
			if f.prop != prop && f.prop != "*" {
				continue
			}
			// one (shrunk) report per kind of failure and case; at most two per kind overall
			have := 0
			for _, old := range rep.Failures {
				if old.Key == f.key {
					have++
				}
			}
			if seenKey[f.key] || have >= 2 {
				continue
			}
			seenKey[f.key] = true
			// shrink: smallest op list that still fails with the same key
			shr := r.cs
			shr.Ops = vShrink(r.cs.Ops, func(ops []coOp) bool {
				c2 := r.cs
				c2.Ops = ops
				r2 := coRun(t, c2, nil)
				for _, g := range r2.fails {
					if g.prop == f.prop && g.key == f.key {
						return true
					}
				}
				return false
			})
			what := f.what
			r2 := coRun(t, shr, nil)
			for _, g := range r2.fails {
				if g.prop == f.prop && g.key == f.key {
					what = g.what
					break
				}
			}
			rep.Fail(f.key, f.key, what, shr)
		}
		coq = append(coq, r.coq())
		jsons = append(jsons, string(canon))
	}
	if rc := vReplayCase(); rc != nil {
		var cs coCase
		if err := json.Unmarshal(rc, &cs); err != nil {
			t.Fatalf("bad replay: %v", err)
		}
		handle(coRun(t, cs, nil))
	} else {
		for _, cs := range coCorpus() {
			handle(coRun(t, cs, nil))
		}
		rng := vNewRand(vSeed())
		n := vN(300, 3000)
		for i := 0; i < n; i++ {
			handle(coGenCase(t, rng.Fork()))
		}
	}
	if !coDetectKeep() {
		rep.Notes = append(rep.Notes, "InMemoryStore.cloneConsumerGroup drops SessionTimeoutMs/RebalanceTimeoutMs (defect owned by C17): after a failover the new coordinator uses the 30 s defaults; modelled with e_keep=false")
	}
	// cases files: one Definition per case (coqc elaborates one huge list literal
	// quadratically), several files so that bin/check evaluates them in parallel
	coWriteCases(rep, prop, coq, jsons)
	rep.WriteAs(prop)
	if len(rep.Failures) > 0 {
		t.Logf("oracle failures: %s", strings.TrimSpace(rep.Failures[0].What))
	}
}
