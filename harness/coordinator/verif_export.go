//go:build verif

package broker

// Injected by the C13 handler-level harness (go test -overlay, -tags verif): lets the
// schedule drive a coordinator's cleanup sweep explicitly and look at how the
// coordinator was wired. Nothing here is part of the repository.

// VerifSweep runs one cleanup sweep (what the background ticker does every CleanupInterval).
func (c *GroupCoordinator) VerifSweep() { c.cleanupGroups() }

// VerifSweepTiedToLease reports whether the sweep is tied to the group leases.
func (c *GroupCoordinator) VerifSweepTiedToLease() bool { return c.config.OwnsGroup != nil }
