package main

// C44 harness: drives the real dualS3Client (cmd/broker/s3_dual.go) over two real
// storage.MemoryS3Clients, each behind a recording fault wrapper.  The replica
// bucket is changed only by environment events (replication copying / dropping an
// object; in the "stale" stream also arbitrary content).  Implementation-side
// oracle: whenever the replica is consistent with the primary at the time of a read
// ("a replica object, when present, equals the primary's object under the same key")
// the dual client's answer must equal a direct read of the primary bucket; uploads,
// deletes, listings and EnsureBucket must reach the primary only, return its result
// and leave the replica bucket untouched.  Every case is emitted as a Coq term for
// corr/DualCorr.v.

import (
	"bytes"
	"context"
	"encoding/json"
	"errors"
	"fmt"
	"sort"
	"strings"
	"testing"

	"github.com/KafScale/platform/pkg/storage"
)

type c44Op struct {
	Kind    string `json:"kind"` // upseg upidx delseg delidx getseg getidx list ensure rseg ridx
	Key     string `json:"key,omitempty"`
	Body    []byte `json:"body,omitempty"`
	Present bool   `json:"present,omitempty"` // rseg/ridx: object set (true) or removed
	HasRng  bool   `json:"has_rng,omitempty"`
	Start   int64  `json:"start,omitempty"`
	End     int64  `json:"end,omitempty"`
	RF      bool   `json:"rf,omitempty"` // replica client fails this call
	PF      bool   `json:"pf,omitempty"` // primary client fails this call
}
type c44Case struct {
	Stream string  `json:"stream"`
	Ops    []c44Op `json:"ops"`
}

var errC44Fault = errors.New("verif: injected fault")

// recording fault wrapper
type c44Wrap struct {
	inner storage.S3Client
	fail  bool
	calls []string // Coq op terms of the calls received
}

func c44Rng(r *storage.ByteRange) string {
	if r == nil {
		return "None"
	}
	return fmt.Sprintf("(Some (%s, %s))", cqZ(r.Start), cqZ(r.End))
}
func (w *c44Wrap) UploadSegment(ctx context.Context, key string, body []byte) error {
	w.calls = append(w.calls, fmt.Sprintf("OUpSeg %s %s", cqStr(key), cqBytes(body)))
	if w.fail {
		return errC44Fault
	}
	return w.inner.UploadSegment(ctx, key, body)
}
func (w *c44Wrap) UploadIndex(ctx context.Context, key string, body []byte) error {
	w.calls = append(w.calls, fmt.Sprintf("OUpIdx %s %s", cqStr(key), cqBytes(body)))
	if w.fail {
		return errC44Fault
	}
	return w.inner.UploadIndex(ctx, key, body)
}
func (w *c44Wrap) DeleteSegment(ctx context.Context, key string) error {
	w.calls = append(w.calls, fmt.Sprintf("ODelSeg %s", cqStr(key)))
	if w.fail {
		return errC44Fault
	}
	return w.inner.DeleteSegment(ctx, key)
}
func (w *c44Wrap) DeleteIndex(ctx context.Context, key string) error {
	w.calls = append(w.calls, fmt.Sprintf("ODelIdx %s", cqStr(key)))
	if w.fail {
		return errC44Fault
	}
	return w.inner.DeleteIndex(ctx, key)
}
func (w *c44Wrap) DownloadSegment(ctx context.Context, key string, rng *storage.ByteRange) ([]byte, error) {
	w.calls = append(w.calls, fmt.Sprintf("OGetSeg %s %s", cqStr(key), c44Rng(rng)))
	if w.fail {
		// a failing S3 call may hand back partial bytes together with the error
		return []byte("PARTIAL-GARBAGE"), errC44Fault
	}
	return w.inner.DownloadSegment(ctx, key, rng)
}
func (w *c44Wrap) DownloadIndex(ctx context.Context, key string) ([]byte, error) {
	w.calls = append(w.calls, fmt.Sprintf("OGetIdx %s", cqStr(key)))
	if w.fail {
		return []byte("PARTIAL-GARBAGE"), errC44Fault
	}
	return w.inner.DownloadIndex(ctx, key)
}
func (w *c44Wrap) ListSegments(ctx context.Context, prefix string) ([]storage.S3Object, error) {
	w.calls = append(w.calls, fmt.Sprintf("OList %s", cqStr(prefix)))
	if w.fail {
		return nil, errC44Fault
	}
	return w.inner.ListSegments(ctx, prefix)
}
func (w *c44Wrap) EnsureBucket(ctx context.Context) error {
	w.calls = append(w.calls, "OEnsure")
	if w.fail {
		return errC44Fault
	}
	return w.inner.EnsureBucket(ctx)
}

// projected result of a read
type c44Res struct {
	kind string // ok notfound badrange fault other
	data []byte
}

func c44ResOf(data []byte, err error) c44Res {
	switch {
	case err == nil:
		return c44Res{"ok", append([]byte(nil), data...)}
	case errors.Is(err, errC44Fault):
		return c44Res{kind: "fault"}
	case errors.Is(err, storage.ErrNotFound) || strings.Contains(err.Error(), "not found"):
		return c44Res{kind: "notfound"}
	case strings.Contains(err.Error(), "invalid"):
		return c44Res{kind: "badrange"}
	}
	return c44Res{kind: "other:" + err.Error()}
}
func (r c44Res) eq(o c44Res) bool { return r.kind == o.kind && bytes.Equal(r.data, o.data) }
func (r c44Res) coq() string {
	switch r.kind {
	case "ok":
		return "ROk " + cqBytes(r.data)
	case "notfound":
		return "RNotFound"
	case "badrange":
		return "RBadRange"
	}
	return "RFault"
}

var c44Keys = []string{"t/0/segment-0.kfs", "t/0/segment-100.kfs", "t/1/segment-0.kfs", "u/0/segment-0.kfs", "t/0/segment-0.index", ""}

type c44Dump struct{ seg, idx map[string][]byte }

func c44DumpOf(m *storage.MemoryS3Client) c44Dump {
	ctx := context.Background()
	d := c44Dump{map[string][]byte{}, map[string][]byte{}}
	for _, k := range c44Keys {
		if b, err := m.DownloadSegment(ctx, k, nil); err == nil {
			d.seg[k] = b
		}
		if b, err := m.DownloadIndex(ctx, k); err == nil {
			d.idx[k] = b
		}
	}
	return d
}
func c44MapEq(a, b map[string][]byte) bool {
	if len(a) != len(b) {
		return false
	}
	for k, v := range a {
		if w, ok := b[k]; !ok || !bytes.Equal(v, w) {
			return false
		}
	}
	return true
}
func c44Sub(r, p map[string][]byte) bool {
	for k, v := range r {
		if w, ok := p[k]; !ok || !bytes.Equal(v, w) {
			return false
		}
	}
	return true
}
func c44StoreCoq(m map[string][]byte) string {
	keys := make([]string, 0, len(m))
	for k := range m {
		keys = append(keys, k)
	}
	sort.Strings(keys)
	items := make([]string, len(keys))
	for i, k := range keys {
		items[i] = fmt.Sprintf("(%s, %s)", cqStr(k), cqBytes(m[k]))
	}
	return cqList(items)
}

type c44Obs struct {
	out     string
	rcalls  []string
	pcalled bool
}

type c44Run struct {
	obs      []c44Obs
	fail     string
	key      string
	prim     c44Dump
	repl     c44Dump
	tags     map[string]bool
	consRead int
}

func c44Exec(cs c44Case) c44Run {
	ctx := context.Background()
	pm, rm := storage.NewMemoryS3Client(), storage.NewMemoryS3Client()
	pw, rw := &c44Wrap{inner: pm}, &c44Wrap{inner: rm}
	d := newDualS3Client(pw, rw)
	run := c44Run{tags: map[string]bool{}}
	setFail := func(k, f string) {
		if run.fail == "" {
			run.fail, run.key = f, k
		}
	}
	ref := c44Dump{map[string][]byte{}, map[string][]byte{}} // what the primary must hold
	for i, op := range cs.Ops {
		pw.fail, rw.fail = op.PF, op.RF
		pw.calls, rw.calls = nil, nil
		beforeR := c44DumpOf(rm)
		beforeP := c44DumpOf(pm)
		consistent := c44Sub(beforeR.seg, beforeP.seg) && c44Sub(beforeR.idx, beforeP.idx)
		var o c44Obs
		isRead, isEnv := false, false
		switch op.Kind {
		case "rseg":
			isEnv = true
			if op.Present {
				_ = rm.UploadSegment(ctx, op.Key, op.Body)
			} else {
				_ = rm.DeleteSegment(ctx, op.Key)
			}
			o.out = "VEnv"
		case "ridx":
			isEnv = true
			if op.Present {
				_ = rm.UploadIndex(ctx, op.Key, op.Body)
			} else {
				_ = rm.DeleteIndex(ctx, op.Key)
			}
			o.out = "VEnv"
		case "upseg":
			err := d.UploadSegment(ctx, op.Key, op.Body)
			o.out = "VErr " + cqBool(err != nil)
			if !op.PF {
				ref.seg[op.Key] = append([]byte(nil), op.Body...)
			}
			if (err != nil) != op.PF {
				setFail("write-result-not-primary", fmt.Sprintf("op %d UploadSegment: err=%v, primary fault=%v", i, err, op.PF))
			}
		case "upidx":
			err := d.UploadIndex(ctx, op.Key, op.Body)
			o.out = "VErr " + cqBool(err != nil)
			if !op.PF {
				ref.idx[op.Key] = append([]byte(nil), op.Body...)
			}
			if (err != nil) != op.PF {
				setFail("write-result-not-primary", fmt.Sprintf("op %d UploadIndex: err=%v, primary fault=%v", i, err, op.PF))
			}
		case "delseg":
			err := d.DeleteSegment(ctx, op.Key)
			o.out = "VErr " + cqBool(err != nil)
			if !op.PF {
				delete(ref.seg, op.Key)
			}
			if (err != nil) != op.PF {
				setFail("write-result-not-primary", fmt.Sprintf("op %d DeleteSegment: err=%v, primary fault=%v", i, err, op.PF))
			}
		case "delidx":
			err := d.DeleteIndex(ctx, op.Key)
			o.out = "VErr " + cqBool(err != nil)
			if !op.PF {
				delete(ref.idx, op.Key)
			}
			if (err != nil) != op.PF {
				setFail("write-result-not-primary", fmt.Sprintf("op %d DeleteIndex: err=%v, primary fault=%v", i, err, op.PF))
			}
		case "ensure":
			err := d.EnsureBucket(ctx)
			o.out = "VErr " + cqBool(err != nil)
			if (err != nil) != op.PF {
				setFail("write-result-not-primary", fmt.Sprintf("op %d EnsureBucket: err=%v, primary fault=%v", i, err, op.PF))
			}
		case "list":
			objs, err := d.ListSegments(ctx, op.Key)
			if err != nil {
				o.out = "VErr true"
				if !op.PF {
					setFail("list-not-primary", fmt.Sprintf("op %d ListSegments failed without a primary fault: %v", i, err))
				}
			} else {
				sort.Slice(objs, func(a, b int) bool { return objs[a].Key < objs[b].Key })
				items := make([]string, len(objs))
				want := 0
				for k, v := range beforeP.seg {
					if strings.HasPrefix(k, op.Key) {
						want++
						_ = v
					}
				}
				for j, ob := range objs {
					items[j] = fmt.Sprintf("(%s, %s)", cqStr(ob.Key), cqZ(ob.Size))
					if b, ok := beforeP.seg[ob.Key]; !ok || int64(len(b)) != ob.Size || !strings.HasPrefix(ob.Key, op.Key) {
						setFail("list-not-primary", fmt.Sprintf("op %d ListSegments(%q) returned %q size %d which is not a primary object with that prefix", i, op.Key, ob.Key, ob.Size))
					}
				}
				if len(objs) != want || op.PF {
					setFail("list-not-primary", fmt.Sprintf("op %d ListSegments(%q) returned %d objects, primary holds %d (primary fault=%v)", i, op.Key, len(objs), want, op.PF))
				}
				o.out = "VList " + cqList(items)
			}
		case "getseg", "getidx":
			isRead = true
			var got, direct c44Res
			if op.Kind == "getseg" {
				var rng *storage.ByteRange
				if op.HasRng {
					rng = &storage.ByteRange{Start: op.Start, End: op.End}
				}
				got = c44ResOf(d.DownloadSegment(ctx, op.Key, rng))
				direct = c44ResOf(pm.DownloadSegment(ctx, op.Key, rng))
			} else {
				got = c44ResOf(d.DownloadIndex(ctx, op.Key))
				direct = c44ResOf(pm.DownloadIndex(ctx, op.Key))
			}
			o.out = "VRes (" + got.coq() + ")"
			if strings.HasPrefix(got.kind, "other") || strings.HasPrefix(direct.kind, "other") {
				setFail("unclassified-error", fmt.Sprintf("op %d: %s / %s", i, got.kind, direct.kind))
			}
			if consistent {
				run.consRead++
				_, inRepl := beforeR.seg[op.Key]
				if op.Kind == "getidx" {
					_, inRepl = beforeR.idx[op.Key]
				}
				switch {
				case op.RF:
					run.tags["read:replica-failing"] = true
				case inRepl:
					run.tags["read:replica-present"] = true
				default:
					run.tags["read:replica-absent"] = true
				}
				if op.HasRng {
					run.tags["read:range"] = true
				}
				if !op.PF && !got.eq(direct) {
					setFail("read-differs-from-primary", fmt.Sprintf("op %d %s(%q, rng=%v %d-%d) through the dual client = %s %v, the primary bucket returns %s %v (replica consistent, replica fault=%v)", i, op.Kind, op.Key, op.HasRng, op.Start, op.End, got.kind, got.data, direct.kind, direct.data, op.RF))
				}
				if op.PF && !(got.eq(direct) || got.kind == "fault") {
					setFail("read-differs-from-primary", fmt.Sprintf("op %d %s(%q) with failing primary = %s %v, primary content read = %s %v", i, op.Kind, op.Key, got.kind, got.data, direct.kind, direct.data))
				}
			} else {
				run.tags["read:outside-hypothesis"] = true
			}
		default:
			panic("bad op kind " + op.Kind)
		}
		o.rcalls = append([]string(nil), rw.calls...)
		o.pcalled = len(pw.calls) > 0
		afterR, afterP := c44DumpOf(rm), c44DumpOf(pm)
		if !isEnv {
			if !c44MapEq(beforeR.seg, afterR.seg) || !c44MapEq(beforeR.idx, afterR.idx) {
				setFail("replica-modified", fmt.Sprintf("op %d %s changed the replica bucket", i, op.Kind))
			}
			for _, c := range rw.calls {
				if !strings.HasPrefix(c, "OGetSeg ") && !strings.HasPrefix(c, "OGetIdx ") {
					setFail("replica-called-by-write", fmt.Sprintf("op %d %s sent %s to the replica client", i, op.Kind, c))
				}
			}
			if !isRead {
				if len(rw.calls) != 0 {
					setFail("replica-called-by-write", fmt.Sprintf("op %d %s made %d replica calls", i, op.Kind, len(rw.calls)))
				}
				if len(pw.calls) != 1 {
					setFail("write-not-to-primary", fmt.Sprintf("op %d %s made %d primary calls: %v", i, op.Kind, len(pw.calls), pw.calls))
				}
			}
		}
		if isRead && (!c44MapEq(beforeP.seg, afterP.seg) || !c44MapEq(beforeP.idx, afterP.idx)) {
			setFail("read-modified-primary", fmt.Sprintf("op %d %s changed the primary bucket", i, op.Kind))
		}
		if !c44MapEq(ref.seg, afterP.seg) || !c44MapEq(ref.idx, afterP.idx) {
			setFail("write-not-to-primary", fmt.Sprintf("op %d %s: primary bucket content differs from the uploads/deletes issued", i, op.Kind))
		}
		run.obs = append(run.obs, o)
	}
	run.prim, run.repl = c44DumpOf(pm), c44DumpOf(rm)
	return run
}

func c44Gen(r *vRand, stale bool) c44Case {
	cs := c44Case{Stream: "consistent"}
	if stale {
		cs.Stream = "stale"
	}
	type bucket struct{ seg, idx map[string][]byte }
	p := bucket{map[string][]byte{}, map[string][]byte{}}
	rp := bucket{map[string][]byte{}, map[string][]byte{}}
	n := r.Range(4, 22)
	nk := r.Range(1, len(c44Keys))
	key := func() string { return c44Keys[r.Intn(nk)] }
	for i := 0; i < n; i++ {
		op := c44Op{Key: key()}
		if r.Chance(12) {
			op.PF = true
		}
		switch x := r.Intn(100); {
		case x < 16: // upload segment
			op.Kind = "upseg"
			op.Body = r.Bytes(r.Range(0, 12))
			if old, ok := rp.seg[op.Key]; ok && !stale {
				op.Body = append([]byte(nil), old...) // write-once keys: same bytes again
			}
			if !op.PF {
				p.seg[op.Key] = op.Body
			}
		case x < 22:
			op.Kind = "upidx"
			op.Body = r.Bytes(r.Range(0, 6))
			if old, ok := rp.idx[op.Key]; ok && !stale {
				op.Body = append([]byte(nil), old...)
			}
			if !op.PF {
				p.idx[op.Key] = op.Body
			}
		case x < 25:
			op.Kind = "delseg"
			if _, ok := rp.seg[op.Key]; ok && !stale {
				op.Kind = "getseg"
			} else if !op.PF {
				delete(p.seg, op.Key)
			}
		case x < 27:
			op.Kind = "delidx"
			if _, ok := rp.idx[op.Key]; ok && !stale {
				op.Kind = "getidx"
			} else if !op.PF {
				delete(p.idx, op.Key)
			}
		case x < 48: // replication of a segment
			op.Kind, op.PF = "rseg", false
			if b, ok := p.seg[op.Key]; ok && r.Chance(90) {
				op.Present, op.Body = true, append([]byte(nil), b...)
				if stale && r.Chance(50) {
					op.Body = r.Bytes(r.Range(0, 12))
				}
				rp.seg[op.Key] = op.Body
			} else if stale && r.Chance(40) {
				op.Present, op.Body = true, r.Bytes(r.Range(0, 8))
				rp.seg[op.Key] = op.Body
			} else {
				delete(rp.seg, op.Key)
			}
		case x < 55:
			op.Kind, op.PF = "ridx", false
			if b, ok := p.idx[op.Key]; ok && r.Chance(80) {
				op.Present, op.Body = true, append([]byte(nil), b...)
				if stale && r.Chance(50) {
					op.Body = r.Bytes(r.Range(0, 6))
				}
				rp.idx[op.Key] = op.Body
			} else {
				delete(rp.idx, op.Key)
			}
		case x < 82:
			op.Kind = "getseg"
			op.RF = r.Chance(25)
			if r.Chance(60) {
				op.HasRng = true
				ln := int64(len(p.seg[op.Key]))
				op.Start = int64(r.Range(-2, int(ln)+2))
				op.End = int64(r.Range(-2, int(ln)+3))
				if r.Chance(50) && op.End < op.Start {
					op.Start, op.End = op.End, op.Start
				}
				if r.Chance(5) {
					op.End = int64(r.U64() >> 1)
				}
			}
		case x < 92:
			op.Kind = "getidx"
			op.RF = r.Chance(25)
		case x < 98:
			op.Kind = "list"
			op.Key = []string{"", "t/", "t/0/", "u/", "zz"}[r.Intn(5)]
			op.RF = r.Chance(25)
		default:
			op.Kind = "ensure"
			op.RF = r.Chance(25)
		}
		cs.Ops = append(cs.Ops, op)
	}
	return cs
}

func c44Coq(cs c44Case, run c44Run) string {
	calls := make([]string, len(cs.Ops))
	obs := make([]string, len(run.obs))
	for i, op := range cs.Ops {
		var o string
		switch op.Kind {
		case "upseg":
			o = fmt.Sprintf("OUpSeg %s %s", cqStr(op.Key), cqBytes(op.Body))
		case "upidx":
			o = fmt.Sprintf("OUpIdx %s %s", cqStr(op.Key), cqBytes(op.Body))
		case "delseg":
			o = "ODelSeg " + cqStr(op.Key)
		case "delidx":
			o = "ODelIdx " + cqStr(op.Key)
		case "getseg":
			rng := "None"
			if op.HasRng {
				rng = fmt.Sprintf("(Some (%s, %s))", cqZ(op.Start), cqZ(op.End))
			}
			o = fmt.Sprintf("OGetSeg %s %s", cqStr(op.Key), rng)
		case "getidx":
			o = "OGetIdx " + cqStr(op.Key)
		case "list":
			o = "OList " + cqStr(op.Key)
		case "ensure":
			o = "OEnsure"
		case "rseg":
			o = fmt.Sprintf("ERSeg %s %s", cqStr(op.Key), cqOpt(op.Present, cqBytes(op.Body)))
		case "ridx":
			o = fmt.Sprintf("ERIdx %s %s", cqStr(op.Key), cqOpt(op.Present, cqBytes(op.Body)))
		}
		calls[i] = fmt.Sprintf("mkCall (%s) %s %s", o, cqBool(op.RF), cqBool(op.PF))
	}
	for i, o := range run.obs {
		obs[i] = fmt.Sprintf("mkObs (%s) %s %s", o.out, cqList(o.rcalls), cqBool(o.pcalled))
	}
	// bucketReady is not observable from package main: EnsureBucket's effect is checked through the call trace
	ready := false
	for _, op := range cs.Ops {
		if op.Kind == "ensure" && !op.PF {
			ready = true
		}
	}
	return fmt.Sprintf("mkCase %s %s %s %s %s %s %s false", cqList(calls), cqList(obs),
		c44StoreCoq(run.prim.seg), c44StoreCoq(run.prim.idx), c44StoreCoq(run.repl.seg), c44StoreCoq(run.repl.idx), cqBool(ready))
}

func TestVerifC44(t *testing.T) {
	rep := vNewReport("C44", "generated call lists (4-22 calls over 1-6 keys: uploads, deletes, whole/ranged segment reads incl. negative, inverted and out-of-range ranges, index reads, listings, EnsureBucket; replication events copying/dropping replica objects; per-call replica and primary faults) on the real dualS3Client over two MemoryS3Clients; a case is non-trivial when, with the replica consistent, it has reads in at least two of the replica states {absent, present, failing}; distinct = distinct canonical call list. A 'stale' stream (replica bytes differing under a key) is run for the model correspondence only: the read oracle applies exactly when the hypothesis holds on the real buckets at the time of the read.")
	var coq, jsons []string
	runOne := func(cs c44Case) {
		run := c44Exec(cs)
		canon, _ := json.Marshal(cs)
		states := 0
		for _, s := range []string{"read:replica-absent", "read:replica-present", "read:replica-failing"} {
			if run.tags[s] {
				states++
			}
		}
		rep.Count(string(canon), states >= 2)
		for tg := range run.tags {
			rep.Hist(tg)
		}
		rep.Hist("stream:" + cs.Stream)
		for _, op := range cs.Ops {
			rep.Hist("op:" + op.Kind)
		}
		rep.Sample(cs)
		if run.fail != "" {
			shr := cs
			shr.Ops = vShrink(cs.Ops, func(ops []c44Op) bool {
				r2 := c44Exec(c44Case{Stream: cs.Stream, Ops: ops})
				return r2.fail != "" && r2.key == run.key
			})
			r2 := c44Exec(shr)
			what := r2.fail
			if what == "" {
				shr, what = cs, run.fail
			}
			rep.Fail(run.key, run.key, what, shr)
		}
		coq = append(coq, c44Coq(cs, run))
		jsons = append(jsons, string(canon))
	}
	if rc := vReplayCase(); rc != nil {
		var cs c44Case
		if err := json.Unmarshal(rc, &cs); err != nil {
			t.Fatalf("bad replay: %v", err)
		}
		runOne(cs)
	} else {
		k := c44Keys[0]
		corpus := []c44Case{
			// lagging object: read falls back to the primary
			{Stream: "consistent", Ops: []c44Op{{Kind: "upseg", Key: k, Body: []byte("abcdef")}, {Kind: "getseg", Key: k}, {Kind: "getseg", Key: k, HasRng: true, Start: 1, End: 3}}},
			// replicated object, failing replica, invalid range answered identically
			{Stream: "consistent", Ops: []c44Op{{Kind: "upseg", Key: k, Body: []byte("abcdef")}, {Kind: "rseg", Key: k, Present: true, Body: []byte("abcdef")},
				{Kind: "getseg", Key: k, HasRng: true, Start: 2, End: 100}, {Kind: "getseg", Key: k, RF: true}, {Kind: "getseg", Key: k, HasRng: true, Start: 9, End: 12},
				{Kind: "upidx", Key: k, Body: []byte("ix")}, {Kind: "getidx", Key: k}, {Kind: "ridx", Key: k, Present: true, Body: []byte("ix")}, {Kind: "getidx", Key: k}, {Kind: "list", Key: "t/"}, {Kind: "ensure"}}},
			// outside the hypothesis (stale version under a reused key): correspondence only
			{Stream: "stale", Ops: []c44Op{{Kind: "upseg", Key: k, Body: []byte("old")}, {Kind: "rseg", Key: k, Present: true, Body: []byte("old")}, {Kind: "upseg", Key: k, Body: []byte("new")}, {Kind: "getseg", Key: k}}},
		}
		for _, cs := range corpus {
			runOne(cs)
		}
		r := vNewRand(vSeed())
		n := vN(300, 2500)
		for i := 0; i < n; i++ {
			runOne(c44Gen(r.Fork(), i%5 == 4))
		}
	}
	rep.Cases("C44", "From KS Require Import lib.Base model.Dual corr.DualCorr.", "case", "check_case", coq, jsons)
	rep.Write()
	if len(rep.Failures) > 0 {
		t.Logf("oracle failures: %s", strings.TrimSpace(rep.Failures[0].What))
	}
}
