package main

// C44 harness, time dimension: both buckets sit behind context-honouring fakes with
// a planned latency (0, 1.9 s, 2 s, 10 s, or "stall until the context ends") and a
// planned outcome (answer / fail / fail with partial bytes); the real dualS3Client is
// called inside a testing/synctest bubble with a caller context that has no, a
// generous or a tight deadline and may be cancelled mid-call.  Oracle: whenever the
// caller's own context is still live when the call returns and the primary can
// answer, the dual read is the primary's answer; a cancelled / expired caller context
// may yield an error but never different bytes; and the context the primary fake
// receives carries the caller's deadline (the fallback runs under the caller's
// context, not under a budget derived for the replica attempt).

import (
	"context"
	"encoding/json"
	"errors"
	"fmt"
	"strings"
	"testing"
	"testing/synctest"
	"time"

	"github.com/KafScale/platform/pkg/storage"
)

type c44Plan struct {
	LatMs   int64  `json:"lat_ms"`  // latency; ignored when Forever
	Forever bool   `json:"forever"` // stall until the context ends
	Out     string `json:"out"`     // ok fail partial
}
type c44TCase struct {
	Key        string  `json:"key"`
	Index      bool    `json:"index"`
	PrimBody   []byte  `json:"prim_body"`
	PrimHas    bool    `json:"prim_has"`
	ReplHas    bool    `json:"repl_has"` // the replica holds the same bytes (CRR done) or nothing (lag)
	HasRng     bool    `json:"has_rng,omitempty"`
	Start      int64   `json:"start,omitempty"`
	End        int64   `json:"end,omitempty"`
	DeadlineMs int64   `json:"deadline_ms"` // 0 = no deadline
	CancelMs   int64   `json:"cancel_ms"`   // 0 = never cancelled
	Replica    c44Plan `json:"replica"`
	Primary    c44Plan `json:"primary"`
}

// context-honouring bucket fake
type c44TimedBucket struct {
	inner       storage.S3Client
	plan        c44Plan
	called      bool
	hasDeadline bool
	deadline    time.Time
}

func (f *c44TimedBucket) wait(ctx context.Context) error {
	f.called = true
	f.deadline, f.hasDeadline = ctx.Deadline()
	if err := ctx.Err(); err != nil {
		return err
	}
	if f.plan.Forever {
		<-ctx.Done()
		return ctx.Err()
	}
	if f.plan.LatMs <= 0 {
		return nil
	}
	t := time.NewTimer(time.Duration(f.plan.LatMs) * time.Millisecond)
	defer t.Stop()
	select {
	case <-t.C:
		return nil
	case <-ctx.Done():
		return ctx.Err()
	}
}
func (f *c44TimedBucket) finish(data []byte, err error) ([]byte, error) {
	switch f.plan.Out {
	case "fail":
		return nil, errC44Fault
	case "partial":
		return []byte("PARTIAL-GARBAGE"), errC44Fault
	}
	return data, err
}
func (f *c44TimedBucket) DownloadSegment(ctx context.Context, key string, rng *storage.ByteRange) ([]byte, error) {
	if err := f.wait(ctx); err != nil {
		return []byte("PARTIAL-BEFORE-CTX-END"), err
	}
	return f.finish(f.inner.DownloadSegment(ctx, key, rng))
}
func (f *c44TimedBucket) DownloadIndex(ctx context.Context, key string) ([]byte, error) {
	if err := f.wait(ctx); err != nil {
		return nil, err
	}
	return f.finish(f.inner.DownloadIndex(ctx, key))
}
func (f *c44TimedBucket) UploadSegment(ctx context.Context, key string, body []byte) error {
	return f.inner.UploadSegment(ctx, key, body)
}
func (f *c44TimedBucket) UploadIndex(ctx context.Context, key string, body []byte) error {
	return f.inner.UploadIndex(ctx, key, body)
}
func (f *c44TimedBucket) DeleteSegment(ctx context.Context, key string) error {
	return f.inner.DeleteSegment(ctx, key)
}
func (f *c44TimedBucket) DeleteIndex(ctx context.Context, key string) error {
	return f.inner.DeleteIndex(ctx, key)
}
func (f *c44TimedBucket) ListSegments(ctx context.Context, prefix string) ([]storage.S3Object, error) {
	return f.inner.ListSegments(ctx, prefix)
}
func (f *c44TimedBucket) EnsureBucket(ctx context.Context) error { return f.inner.EnsureBucket(ctx) }

func c44TRes(data []byte, err error) c44Res {
	if err != nil && (errors.Is(err, context.DeadlineExceeded) || errors.Is(err, context.Canceled)) {
		return c44Res{kind: "ctx"}
	}
	return c44ResOf(data, err)
}
func c44TResCoq(r c44Res) string {
	if r.kind == "ctx" {
		return "RCtx"
	}
	return r.coq()
}

type c44TOut struct {
	coq       string
	key, what string
	tags      []string
}

// c44TExec must run inside a synctest bubble.
func c44TExec(cs c44TCase) c44TOut {
	var out c44TOut
	bg := context.Background()
	pm, rm := storage.NewMemoryS3Client(), storage.NewMemoryS3Client()
	if cs.PrimHas {
		if cs.Index {
			_ = pm.UploadIndex(bg, cs.Key, cs.PrimBody)
		} else {
			_ = pm.UploadSegment(bg, cs.Key, cs.PrimBody)
		}
		if cs.ReplHas {
			if cs.Index {
				_ = rm.UploadIndex(bg, cs.Key, cs.PrimBody)
			} else {
				_ = rm.UploadSegment(bg, cs.Key, cs.PrimBody)
			}
		}
	}
	pf := &c44TimedBucket{inner: pm, plan: cs.Primary}
	rf := &c44TimedBucket{inner: rm, plan: cs.Replica}
	d := newDualS3Client(pf, rf)
	start := time.Now()
	ctx, cancel := context.WithCancel(bg)
	defer cancel()
	var callerDeadline time.Time
	if cs.DeadlineMs > 0 {
		callerDeadline = start.Add(time.Duration(cs.DeadlineMs) * time.Millisecond)
		var c2 context.CancelFunc
		ctx, c2 = context.WithDeadline(ctx, callerDeadline)
		defer c2()
	}
	if cs.CancelMs > 0 {
		tm := time.AfterFunc(time.Duration(cs.CancelMs)*time.Millisecond, cancel)
		defer tm.Stop()
	}
	var rng *storage.ByteRange
	if cs.HasRng {
		rng = &storage.ByteRange{Start: cs.Start, End: cs.End}
	}
	var got, direct c44Res
	if cs.Index {
		got = c44TRes(d.DownloadIndex(ctx, cs.Key))
		direct = c44ResOf(pm.DownloadIndex(bg, cs.Key))
	} else {
		got = c44TRes(d.DownloadSegment(ctx, cs.Key, rng))
		direct = c44ResOf(pm.DownloadSegment(bg, cs.Key, rng))
	}
	elapsed := time.Since(start)
	callerLive := ctx.Err() == nil
	fail := func(k, w string) {
		if out.key == "" {
			out.key, out.what = k, w
		}
	}
	desc := fmt.Sprintf("replica %+v, primary %+v, caller deadline %dms cancel %dms", cs.Replica, cs.Primary, cs.DeadlineMs, cs.CancelMs)
	if callerLive && cs.Primary.Out == "ok" && !got.eq(direct) {
		fail("timed-read-differs-from-primary", fmt.Sprintf("the caller's context is still live after %v and the primary answers %s %v, but the dual read returned %s %v (%s)", elapsed, direct.kind, direct.data, got.kind, got.data, desc))
	}
	if got.kind == "ok" && !got.eq(direct) {
		fail("timed-read-wrong-bytes", fmt.Sprintf("dual read returned bytes %v, the primary holds %s %v (%s)", got.data, direct.kind, direct.data, desc))
	}
	if pf.called {
		if pf.hasDeadline != (cs.DeadlineMs > 0) || (pf.hasDeadline && !pf.deadline.Equal(callerDeadline)) {
			fail("primary-not-under-caller-context", fmt.Sprintf("the primary fallback received a context with deadline %v (present=%v), the caller's deadline is +%dms (%s)", pf.deadline.Sub(start), pf.hasDeadline, cs.DeadlineMs, desc))
		}
	}
	// tags
	if callerLive {
		out.tags = append(out.tags, "timed:caller-live")
	} else {
		out.tags = append(out.tags, "timed:caller-context-ended")
	}
	switch {
	case cs.Replica.Forever:
		out.tags = append(out.tags, "timed:replica-stalls-until-ctx")
	case cs.Replica.LatMs >= 2000:
		out.tags = append(out.tags, "timed:replica-slow>=2s")
	default:
		out.tags = append(out.tags, "timed:replica-fast")
	}
	if pf.called {
		out.tags = append(out.tags, "timed:fallback")
	}
	// Coq term
	store := func(has bool) string {
		if !has {
			return "[]"
		}
		return fmt.Sprintf("[(%s, %s)]", cqStr(cs.Key), cqBytes(cs.PrimBody))
	}
	ps, pi, rs, ri := store(cs.PrimHas && !cs.Index), store(cs.PrimHas && cs.Index), store(cs.PrimHas && cs.ReplHas && !cs.Index), store(cs.PrimHas && cs.ReplHas && cs.Index)
	plan := func(p c44Plan) string {
		o := map[string]string{"ok": "POk", "fail": "PFail", "partial": "PPartial"}[p.Out]
		return fmt.Sprintf("(mkPlan %s %s)", cqOpt(!p.Forever, cqZ(p.LatMs)), o)
	}
	rngCoq := "None"
	if cs.HasRng {
		rngCoq = fmt.Sprintf("(Some (%s, %s))", cqZ(cs.Start), cqZ(cs.End))
	}
	pdl := "None"
	if pf.called && pf.hasDeadline {
		pdl = "(Some " + cqZ(pf.deadline.Sub(start).Milliseconds()) + ")"
	}
	out.coq = fmt.Sprintf("mkTCase %s %s %s %s %s %s %s %s %s %s %s (%s) %s %s %s", ps, pi, rs, ri, cqBool(cs.Index), cqStr(cs.Key), rngCoq,
		cqOpt(cs.DeadlineMs > 0, cqZ(cs.DeadlineMs)), cqOpt(cs.CancelMs > 0, cqZ(cs.CancelMs)), plan(cs.Replica), plan(cs.Primary),
		c44TResCoq(got), cqZ(elapsed.Milliseconds()), cqBool(pf.called), pdl)
	return out
}

func c44TGen(r *vRand) c44TCase {
	cs := c44TCase{Key: c44Keys[r.Intn(3)], Index: r.Chance(25), PrimHas: !r.Chance(12), ReplHas: r.Chance(45), PrimBody: r.Bytes(r.Range(0, 10))}
	if !cs.Index && r.Chance(40) {
		cs.HasRng, cs.Start, cs.End = true, int64(r.Range(-1, 6)), int64(r.Range(-1, 12))
	}
	lat := func() c44Plan {
		p := c44Plan{Out: []string{"ok", "ok", "ok", "fail", "partial"}[r.Intn(5)]}
		switch r.Intn(6) {
		case 0:
			p.Forever = true
		default:
			p.LatMs = []int64{0, 0, 100, 1900, 2000, 10000}[r.Intn(6)]
		}
		return p
	}
	cs.Replica, cs.Primary = lat(), lat()
	if r.Chance(70) {
		cs.Primary.Out = "ok"
	}
	if r.Chance(60) {
		cs.Primary.Forever = false
		cs.Primary.LatMs = []int64{0, 100, 1900}[r.Intn(3)]
	}
	// caller context: deadlines / cancellation instants never coincide with a sum of latencies
	cs.DeadlineMs = []int64{0, 500, 3000, 5000, 30000, 60000, 60000}[r.Intn(7)]
	if r.Chance(20) {
		cs.CancelMs = []int64{1000, 2500, 15000}[r.Intn(3)]
	}
	if cs.DeadlineMs == 0 && cs.CancelMs == 0 && (cs.Replica.Forever || cs.Primary.Forever) {
		cs.DeadlineMs = 60000 // a stall needs some end
	}
	return cs
}

func TestVerifC44Timed(t *testing.T) {
	rep := vNewReport("C44", "timed reads under testing/synctest: replica and primary behind context-honouring fakes with latency 0 / 100 ms / 1.9 s / 2 s / 10 s / stall-until-context-ends and outcome answer / fail / fail-with-partial-bytes; replica object absent (lag) or equal; whole, ranged and index reads; caller context without deadline, with 0.5 s - 60 s deadlines, cancelled mid-call at 1 s / 2.5 s / 15 s; a timed case is non-trivial when the replica takes >= 2 s or stalls and the fallback to the primary is taken")
	var coq, jsons []string
	runOne := func(cs c44TCase) {
		var out c44TOut
		synctest.Test(t, func(t *testing.T) { out = c44TExec(cs) })
		canon, _ := json.Marshal(cs)
		slow, fb := false, false
		for _, tg := range out.tags {
			rep.Hist(tg)
			if tg == "timed:replica-stalls-until-ctx" || tg == "timed:replica-slow>=2s" {
				slow = true
			}
			if tg == "timed:fallback" {
				fb = true
			}
		}
		rep.Count(string(canon), slow && fb)
		rep.Sample(cs)
		if out.key != "" {
			// shrink: simplify fields one at a time while the same failure persists
			shr := cs
			try := func(mut func(c *c44TCase)) {
				c2 := shr
				mut(&c2)
				var o2 c44TOut
				synctest.Test(t, func(t *testing.T) { o2 = c44TExec(c2) })
				if o2.key == out.key {
					shr = c2
				}
			}
			try(func(c *c44TCase) { c.HasRng, c.Start, c.End = false, 0, 0 })
			try(func(c *c44TCase) { c.Index = false })
			try(func(c *c44TCase) { c.CancelMs = 0 })
			try(func(c *c44TCase) { c.ReplHas = false })
			try(func(c *c44TCase) { c.Primary = c44Plan{Out: "ok"} })
			try(func(c *c44TCase) { c.Replica.Out = "ok" })
			try(func(c *c44TCase) { c.PrimBody = []byte("abc") })
			var o2 c44TOut
			synctest.Test(t, func(t *testing.T) { o2 = c44TExec(shr) })
			rep.Fail(out.key, out.key, o2.what, shr)
		}
		coq = append(coq, out.coq)
		jsons = append(jsons, string(canon))
	}
	if rc := vReplayCase(); rc != nil {
		var cs c44TCase
		if err := json.Unmarshal(rc, &cs); err == nil && cs.Key != "" && cs.Replica.Out != "" {
			runOne(cs)
		}
	} else {
		k := c44Keys[0]
		corpus := []c44TCase{
			// a replica that stalls beyond any replica-side budget while the caller has a minute
			{Key: k, PrimHas: true, PrimBody: []byte("abcdef"), DeadlineMs: 60000, Replica: c44Plan{LatMs: 10000, Out: "fail"}, Primary: c44Plan{LatMs: 100, Out: "ok"}},
			{Key: k, PrimHas: true, PrimBody: []byte("abcdef"), DeadlineMs: 60000, Replica: c44Plan{LatMs: 2000, Out: "partial"}, Primary: c44Plan{LatMs: 1900, Out: "ok"}},
			{Key: k, PrimHas: true, PrimBody: []byte("abcdef"), Replica: c44Plan{LatMs: 10000, Out: "ok"}, Primary: c44Plan{Out: "ok"}}, // lagging object, slow not-found
			// the caller's own deadline ends during the replica stall: an error, never other bytes
			{Key: k, PrimHas: true, ReplHas: true, PrimBody: []byte("abcdef"), DeadlineMs: 5000, Replica: c44Plan{Forever: true, Out: "ok"}, Primary: c44Plan{LatMs: 100, Out: "ok"}},
			{Key: k, PrimHas: true, PrimBody: []byte("abcdef"), DeadlineMs: 60000, CancelMs: 2500, Replica: c44Plan{LatMs: 1900, Out: "fail"}, Primary: c44Plan{LatMs: 1900, Out: "ok"}},
			{Key: k, Index: true, PrimHas: true, ReplHas: true, PrimBody: []byte("ix"), DeadlineMs: 3000, Replica: c44Plan{LatMs: 1900, Out: "ok"}, Primary: c44Plan{Out: "ok"}},
		}
		for _, cs := range corpus {
			runOne(cs)
		}
		r := vNewRand(vSeed() ^ 0x44)
		n := vN(250, 2500)
		for i := 0; i < n; i++ {
			runOne(c44TGen(r.Fork()))
		}
	}
	rep.Cases("C44_timed", "From KS Require Import lib.Base model.Dual corr.DualCorr.", "tcase", "check_tcase", coq, jsons)
	rep.WriteAs("C44_timed")
	if len(rep.Failures) > 0 {
		t.Logf("oracle failures: %s", strings.TrimSpace(rep.Failures[0].What))
	}
}
