package main

// C31 harness: generated produce requests (flag mix, 1-3 batches per partition, several
// topics/partitions, none/gzip/snappy/lz4/zstd, null vs empty keys, values and header
// values, arbitrary record and batch header fields, a few malformed shapes) are pushed
// through the real (*lfsModule).rewriteProduceRecords with the package's fakeS3 (wrapped
// for fault injection and put-order recording).  The rewritten Records bytes are decoded
// again with kmsg/kgo by an independent decoder and compared field by field with the
// input (implementation-side oracle = the clauses of C31); every case, with the oracle
// answers observed on that run, is emitted as a Coq term for corr/RewriteCorr.v.

import (
	"bytes"
	"context"
	"crypto/md5"
	"crypto/sha256"
	"encoding/binary"
	"encoding/hex"
	"encoding/json"
	"errors"
	"fmt"
	"hash/crc32"
	"io"
	"log/slog"
	"reflect"
	"sort"
	"strings"
	"testing"

	"github.com/KafScale/platform/pkg/lfs"
	"github.com/KafScale/platform/pkg/protocol"
	"github.com/aws/aws-sdk-go-v2/service/s3"
	"github.com/twmb/franz-go/pkg/kgo"
	"github.com/twmb/franz-go/pkg/kmsg"
)

type c31Hdr struct {
	K string `json:"k"`
	V []byte `json:"v"` // null = nil header value
}
type c31Rec struct {
	Attr int8     `json:"attr"`
	Ts   int64    `json:"ts"`
	Off  int32    `json:"off"`
	Key  []byte   `json:"key"` // null = nil
	Val  []byte   `json:"val"` // null = nil
	Hdrs []c31Hdr `json:"hdrs"`
}
type c31Batch struct {
	First  int64    `json:"first"`
	PLE    int32    `json:"ple"`
	Magic  int8     `json:"magic"`
	Attrs  int16    `json:"attrs"` // bits 3..15 only; the codec goes into bits 0..2
	Codec  int      `json:"codec"`
	LOD    int32    `json:"lod"`
	FTS    int64    `json:"fts"`
	MTS    int64    `json:"mts"`
	PID    int64    `json:"pid"`
	PEpoch int16    `json:"pepoch"`
	FSeq   int32    `json:"fseq"`
	Recs   []c31Rec `json:"recs"`
	NumAdj int      `json:"num_adj,omitempty"` // malformed: NumRecords = len(Recs)+NumAdj
	Junk   []byte   `json:"junk,omitempty"`    // malformed: appended to the record payload before compression
}
type c31Part struct {
	Index   int32      `json:"index"`
	Batches []c31Batch `json:"batches"`
	Trunc   int        `json:"trunc,omitempty"` // malformed: drop the last Trunc bytes of Records
}
type c31Topic struct {
	Name  string    `json:"name"`
	Parts []c31Part `json:"parts"`
}
type c31Case struct {
	DefaultAlg string     `json:"default_alg"`
	MaxBlob    int64      `json:"max_blob"`
	Bucket     string     `json:"bucket"`
	Topics     []c31Topic `json:"topics"`
	Faults     []bool     `json:"faults,omitempty"`
}

func (cs c31Case) wellFormed() bool {
	for _, t := range cs.Topics {
		for _, p := range t.Parts {
			if p.Trunc != 0 {
				return false
			}
			for _, b := range p.Batches {
				if b.NumAdj != 0 || len(b.Junk) > 0 || b.Codec < 0 || b.Codec > 4 || len(b.Recs) == 0 {
					return false
				}
			}
		}
	}
	return true
}

// ---------- S3 fake with fault injection and put-order log ----------
type c31S3 struct {
	*fakeS3
	faults []bool
	n      int
	asked  []string // every key handed to PutObject, in order
	order  []string // keys successfully put, in order
	uploads map[string]*c31Upload
}

func (f *c31S3) PutObject(ctx context.Context, params *s3.PutObjectInput, optFns ...func(*s3.Options)) (*s3.PutObjectOutput, error) {
	idx := f.n
	f.n++
	f.asked = append(f.asked, *params.Key)
	if idx < len(f.faults) && f.faults[idx] {
		return nil, errors.New("verif: injected put failure")
	}
	out, err := f.fakeS3.PutObject(ctx, params, optFns...)
	if err == nil {
		f.order = append(f.order, *params.Key)
	}
	return out, err
}

// multipart at the S3-API level (the real s3Uploader.multipartUpload runs above it): the
// object is the concatenation of the listed parts; one fault-oracle entry per upload, taken at
// PutObject or CreateMultipartUpload
func (f *c31S3) CreateMultipartUpload(ctx context.Context, params *s3.CreateMultipartUploadInput, optFns ...func(*s3.Options)) (*s3.CreateMultipartUploadOutput, error) {
	idx := f.n
	f.n++
	f.asked = append(f.asked, *params.Key)
	if idx < len(f.faults) && f.faults[idx] {
		return nil, errors.New("verif: injected put failure")
	}
	if f.uploads == nil {
		f.uploads = map[string]*c31Upload{}
	}
	id := fmt.Sprintf("up-%d", idx)
	f.uploads[id] = &c31Upload{key: *params.Key, parts: map[int32][]byte{}}
	return &s3.CreateMultipartUploadOutput{UploadId: &id}, nil
}
func (f *c31S3) UploadPart(ctx context.Context, params *s3.UploadPartInput, optFns ...func(*s3.Options)) (*s3.UploadPartOutput, error) {
	up, ok := f.uploads[*params.UploadId]
	if !ok {
		return nil, errors.New("NoSuchUpload")
	}
	data, _ := io.ReadAll(params.Body)
	up.parts[*params.PartNumber] = data
	etag := fmt.Sprintf("\"e%d\"", *params.PartNumber)
	return &s3.UploadPartOutput{ETag: &etag}, nil
}
func (f *c31S3) CompleteMultipartUpload(ctx context.Context, params *s3.CompleteMultipartUploadInput, optFns ...func(*s3.Options)) (*s3.CompleteMultipartUploadOutput, error) {
	up, ok := f.uploads[*params.UploadId]
	if !ok {
		return nil, errors.New("NoSuchUpload")
	}
	obj := []byte{}
	prev := int32(0)
	if params.MultipartUpload != nil {
		for _, cp := range params.MultipartUpload.Parts {
			data, ok := up.parts[*cp.PartNumber]
			if !ok || *cp.PartNumber <= prev {
				return nil, errors.New("InvalidPart")
			}
			prev = *cp.PartNumber
			obj = append(obj, data...)
		}
	}
	f.fakeS3.objects[up.key] = obj
	f.order = append(f.order, up.key)
	delete(f.uploads, *params.UploadId)
	return &s3.CompleteMultipartUploadOutput{}, nil
}
func (f *c31S3) AbortMultipartUpload(ctx context.Context, params *s3.AbortMultipartUploadInput, optFns ...func(*s3.Options)) (*s3.AbortMultipartUploadOutput, error) {
	delete(f.uploads, *params.UploadId)
	return &s3.AbortMultipartUploadOutput{}, nil
}

type c31Upload struct {
	key   string
	parts map[int32][]byte
}

const c31Chunk = 64 // s3Uploader.chunkSize in this harness: multipart for values above 64 bytes

func (f *c31S3) storeNewestFirst() [][2][]byte {
	var out [][2][]byte
	seen := map[string]bool{}
	for i := len(f.order) - 1; i >= 0; i-- {
		k := f.order[i]
		if seen[k] {
			continue
		}
		seen[k] = true
		if v, ok := f.fakeS3.objects[k]; ok {
			out = append(out, [2][]byte{[]byte(k), v})
		}
	}
	return out
}

// ---------- building the request bytes ----------
func c31KRecord(r c31Rec) kmsg.Record {
	kr := kmsg.Record{Attributes: r.Attr, TimestampDelta64: r.Ts, TimestampDelta: int32(r.Ts), OffsetDelta: r.Off, Key: r.Key, Value: r.Val}
	for _, h := range r.Hdrs {
		kr.Headers = append(kr.Headers, kmsg.Header{Key: h.K, Value: h.V})
	}
	return kr
}

// franz-go's own encoder (not the repo's lfsEncodeRecord)
func c31EncodeRecord(r c31Rec) []byte {
	kr := c31KRecord(r)
	kr.Length = 0
	b := kr.AppendTo(nil)
	kr.Length = int32(len(b) - 1)
	return kr.AppendTo(nil)
}

func c31Compressor(codec int) kgo.Compressor {
	var c kgo.Compressor
	switch codec {
	case 1:
		c, _ = kgo.DefaultCompressor(kgo.GzipCompression())
	case 2:
		c, _ = kgo.DefaultCompressor(kgo.SnappyCompression())
	case 3:
		c, _ = kgo.DefaultCompressor(kgo.Lz4Compression())
	case 4:
		c, _ = kgo.DefaultCompressor(kgo.ZstdCompression())
	}
	return c
}

type c31DecEntry struct {
	enc []byte
	rec kmsg.Record
}
type c31DecompEntry struct {
	codec   int
	in, out []byte
	ok      bool
}
type c31HashEntry struct {
	alg     int
	payload []byte
	hex     string
}
type c31Tables struct {
	dec    []c31DecEntry // framed record bytes -> kmsg's decoding
	decomp []c31DecompEntry
	hash   []c31HashEntry
	blobs  [][]byte // input batches and partitions (shared in the emitted term)
	seenD  map[string]bool
}

// c31Intern shares byte strings inside one emitted case: long strings (record frames,
// envelopes, object keys, digests, payloads) become let-bound names and larger blobs are
// written as concatenations of those names and literal chunks.  Bytes are written with the
// constants b00..bff of corr/RewriteCorr.v (number literals are ~3x slower to elaborate).
type c31Intern struct {
	vals  [][]byte
	seen  map[string]bool
	names []string
	defs  []string
}

func (in *c31Intern) add(b []byte) {
	if len(b) < 12 {
		return
	}
	if in.seen == nil {
		in.seen = map[string]bool{}
	}
	if in.seen[string(b)] {
		return
	}
	in.seen[string(b)] = true
	in.vals = append(in.vals, append([]byte(nil), b...))
}
func (in *c31Intern) finalize() {
	sort.SliceStable(in.vals, func(i, j int) bool { return len(in.vals[i]) < len(in.vals[j]) })
	in.names = make([]string, len(in.vals))
	in.defs = make([]string, len(in.vals))
	for i := range in.vals {
		in.names[i] = fmt.Sprintf("s%d", i)
		in.defs[i] = in.emitUsing(in.vals[i], i)
	}
}
func c31Lit(b []byte) string {
	if len(b) == 0 {
		return "[]"
	}
	var sb strings.Builder
	sb.WriteByte('[')
	for i, x := range b {
		if i > 0 {
			sb.WriteByte(';')
		}
		fmt.Fprintf(&sb, "b%02x", x)
	}
	sb.WriteByte(']')
	return sb.String()
}
func (in *c31Intern) emitUsing(b []byte, limit int) string {
	if len(b) == 0 {
		return "[]"
	}
	for j := limit - 1; j >= 0; j-- {
		v := in.vals[j]
		if len(v) > len(b) {
			continue
		}
		idx := bytes.Index(b, v)
		if idx < 0 {
			continue
		}
		var parts []string
		if idx > 0 {
			parts = append(parts, in.emitUsing(b[:idx], j+1))
		}
		parts = append(parts, in.names[j])
		if rest := b[idx+len(v):]; len(rest) > 0 {
			parts = append(parts, in.emitUsing(rest, j+1))
		}
		if len(parts) == 1 {
			return parts[0]
		}
		return "(" + strings.Join(parts, " ++ ") + ")"
	}
	return c31Lit(b)
}
func (in *c31Intern) B(b []byte) string   { return in.emitUsing(b, len(in.vals)) }
func (in *c31Intern) S(s string) string   { return in.B([]byte(s)) }
func (in *c31Intern) Opt(b []byte) string { return cqOpt(b != nil, in.B(b)) }
func (in *c31Intern) wrap(term string) string {
	var sb strings.Builder
	sb.WriteByte('(')
	for i := range in.vals {
		fmt.Fprintf(&sb, "let %s := %s in ", in.names[i], in.defs[i])
	}
	sb.WriteString(term)
	sb.WriteByte(')')
	return sb.String()
}

func c31BuildBatch(b c31Batch, tb *c31Tables) []byte {
	var raw []byte
	for _, r := range b.Recs {
		enc := c31EncodeRecord(r)
		raw = append(raw, enc...)
		if tb != nil && !tb.seenD[string(enc)] {
			tb.seenD[string(enc)] = true
			var back kmsg.Record
			if err := back.ReadFrom(enc); err == nil {
				tb.dec = append(tb.dec, c31DecEntry{enc, back})
			}
		}
	}
	raw = append(raw, b.Junk...)
	payload := raw
	if b.Codec >= 1 && b.Codec <= 4 {
		out, _ := c31Compressor(b.Codec).Compress(bytes.NewBuffer(nil), raw)
		payload = append([]byte(nil), out...)
	}
	if tb != nil && b.Codec != 0 {
		res, err := kgo.DefaultDecompressor().Decompress(payload, kgo.CompressionCodecType(b.Codec))
		tb.decomp = append(tb.decomp, c31DecompEntry{b.Codec, payload, res, err == nil})
	}
	kb := kmsg.RecordBatch{
		FirstOffset: b.First, PartitionLeaderEpoch: b.PLE, Magic: b.Magic,
		Attributes: (b.Attrs &^ 7) | int16(b.Codec&7), LastOffsetDelta: b.LOD, FirstTimestamp: b.FTS, MaxTimestamp: b.MTS,
		ProducerID: b.PID, ProducerEpoch: b.PEpoch, FirstSequence: b.FSeq, NumRecords: int32(len(b.Recs) + b.NumAdj),
		Records: payload,
	}
	bb := kb.AppendTo(nil)
	kb.Length = int32(len(bb) - 12)
	bb = kb.AppendTo(nil)
	kb.CRC = int32(crc32.Checksum(bb[21:], crc32.MakeTable(crc32.Castagnoli)))
	return kb.AppendTo(nil)
}

func c31BuildPartition(p c31Part, tb *c31Tables) []byte {
	var out []byte
	for _, b := range p.Batches {
		bb := c31BuildBatch(b, tb)
		if tb != nil {
			tb.blobs = append(tb.blobs, bb)
		}
		out = append(out, bb...)
	}
	if p.Trunc > 0 && p.Trunc < len(out) {
		out = out[:len(out)-p.Trunc]
	}
	if tb != nil {
		tb.blobs = append(tb.blobs, out)
	}
	return out
}

// ---------- independent decoder used by the oracle ----------
type c31DBatch struct {
	hdr   kmsg.RecordBatch
	codec int
	recs  []kmsg.Record
	raw   []byte
}

func c31DecodePartition(buf []byte) ([]c31DBatch, error) { return c31DecodePartitionMode(buf, false) }

// lenient: stop at the first undecodable record of a batch instead of failing (used only to
// collect the oracle tables of malformed cases)
func c31DecodePartitionMode(buf []byte, lenient bool) ([]c31DBatch, error) {
	var out []c31DBatch
	for len(buf) > 0 {
		if len(buf) < 61 {
			return nil, fmt.Errorf("short batch (%d bytes)", len(buf))
		}
		l := int(int32(binary.BigEndian.Uint32(buf[8:12])))
		if l < 49 || 12+l > len(buf) {
			return nil, fmt.Errorf("bad batch length %d", l)
		}
		bb := buf[:12+l]
		buf = buf[12+l:]
		var kb kmsg.RecordBatch
		if err := kb.ReadFrom(bb); err != nil {
			return nil, err
		}
		d := c31DBatch{hdr: kb, codec: int(kb.Attributes & 7), raw: bb}
		payload := kb.Records
		if d.codec != 0 {
			var err error
			payload, err = kgo.DefaultDecompressor().Decompress(payload, kgo.CompressionCodecType(d.codec))
			if err != nil {
				return nil, fmt.Errorf("decompress: %w", err)
			}
		}
		for len(payload) > 0 {
			l, n := binary.Varint(payload)
			if n <= 0 || l < 0 || n+int(l) > len(payload) {
				if lenient {
					break
				}
				return nil, fmt.Errorf("bad record framing")
			}
			var r kmsg.Record
			if err := r.ReadFrom(payload[:n+int(l)]); err != nil {
				if lenient {
					break
				}
				return nil, err
			}
			if int(r.Length) != int(l) {
				return nil, fmt.Errorf("record length field")
			}
			d.recs = append(d.recs, r)
			payload = payload[n+int(l):]
		}
		out = append(out, d)
	}
	return out, nil
}

func c31Flagged(r kmsg.Record) bool {
	for _, h := range r.Headers {
		if h.Key == "LFS_BLOB" {
			return true
		}
	}
	return false
}

// exact equality including nil vs empty
func c31BytesSame(a, b []byte) bool { return (a == nil) == (b == nil) && bytes.Equal(a, b) }
func c31HeadersSame(a, b []kmsg.Header) bool {
	if len(a) != len(b) {
		return false
	}
	for i := range a {
		if a[i].Key != b[i].Key || !c31BytesSame(a[i].Value, b[i].Value) {
			return false
		}
	}
	return true
}

// ---------- one run ----------
type c31Obs struct {
	code     int
	errText  string
	in       [][]byte
	out      [][]byte
	store    [][2][]byte
	asked    []string
	bytes    int64
	orphans  []string
	modified bool
}

func c31Classify(err error, panicked bool) int {
	if panicked {
		return -1
	}
	if err == nil {
		return 0
	}
	var ce *lfs.ChecksumError
	msg := err.Error()
	switch {
	case errors.As(err, &ce):
		return 5
	case strings.Contains(msg, "unsupported checksum algorithm"):
		return 1
	case strings.Contains(msg, "checksum provided but checksum algorithm is none"):
		return 2
	case strings.Contains(msg, "exceeds max"):
		return 3
	case strings.Contains(msg, "injected put failure"):
		return 4
	case strings.Contains(msg, "record batch too short"), strings.Contains(msg, "invalid record batch length"), strings.Contains(msg, "did not contain enough data"):
		return 7
	case strings.Contains(msg, "invalid envelope"):
		return 9
	default:
		return 8
	}
}

func c31Run(cs c31Case, tb *c31Tables) c31Obs {
	fs3 := &c31S3{fakeS3: newFakeS3(), faults: cs.Faults}
	logger := slog.New(slog.NewTextHandler(io.Discard, nil))
	m := &lfsModule{
		logger:      logger,
		s3Uploader:  &s3Uploader{bucket: cs.Bucket, region: "us-east-1", chunkSize: c31Chunk, api: fs3, presign: &fakePresign{}},
		s3Bucket:    cs.Bucket,
		s3Namespace: "ns",
		maxBlob:     cs.MaxBlob,
		checksumAlg: cs.DefaultAlg,
		proxyID:     "verif-proxy",
		metrics:     newLfsMetrics(),
		tracker:     &LfsOpsTracker{config: TrackerConfig{}, logger: logger},
	}
	req := &kmsg.ProduceRequest{Acks: 1, TimeoutMillis: 1000}
	var obs c31Obs
	for _, t := range cs.Topics {
		kt := kmsg.ProduceRequestTopic{Topic: t.Name}
		for _, p := range t.Parts {
			rb := c31BuildPartition(p, tb)
			obs.in = append(obs.in, append([]byte(nil), rb...))
			kt.Partitions = append(kt.Partitions, kmsg.ProduceRequestTopicPartition{Partition: p.Index, Records: rb})
		}
		req.Topics = append(req.Topics, kt)
	}
	var res lfsRewriteResult
	var err error
	panicked := false
	func() {
		defer func() {
			if r := recover(); r != nil {
				panicked = true
				obs.errText = fmt.Sprint(r)
			}
		}()
		res, err = m.rewriteProduceRecords(context.Background(), &protocol.RequestHeader{}, req)
	}()
	obs.code = c31Classify(err, panicked)
	if err != nil {
		obs.errText = err.Error()
	}
	for _, t := range req.Topics {
		for _, p := range t.Partitions {
			obs.out = append(obs.out, p.Records)
		}
	}
	obs.store = fs3.storeNewestFirst()
	obs.asked = fs3.asked
	obs.bytes = res.uploadBytes
	obs.modified = res.modified
	for _, o := range res.orphans {
		obs.orphans = append(obs.orphans, o.Key)
	}
	return obs
}

// c31Oracle checks the clauses of C31 on a well-formed request that was rewritten without error.
func c31Oracle(cs c31Case, obs c31Obs) (string, string) {
	if len(obs.out) != len(obs.in) {
		return "count-changed", "partition count changed"
	}
	usedKeys := map[string]bool{}
	objects := map[string][]byte{}
	for _, kv := range obs.store {
		objects[string(kv[0])] = kv[1]
	}
	nFlag := 0
	for pi := range obs.in {
		inB, err := c31DecodePartition(obs.in[pi])
		if err != nil {
			return "harness", "input does not decode: " + err.Error()
		}
		outB, err := c31DecodePartition(obs.out[pi])
		if err != nil {
			return "batch-invalid", fmt.Sprintf("partition %d: rewritten Records do not decode: %v", pi, err)
		}
		if len(inB) != len(outB) {
			return "count-changed", fmt.Sprintf("partition %d: %d batches became %d", pi, len(inB), len(outB))
		}
		for bi := range inB {
			a, b := inB[bi], outB[bi]
			where := fmt.Sprintf("partition %d batch %d", pi, bi)
			// length, CRC, codec
			if int(b.hdr.Length) != len(b.raw)-12 {
				return "batch-invalid", where + ": length field wrong"
			}
			if uint32(b.hdr.CRC) != crc32.Checksum(b.raw[21:], crc32.MakeTable(crc32.Castagnoli)) {
				return "batch-invalid", where + ": CRC wrong"
			}
			if a.codec != b.codec {
				return "batch-invalid", fmt.Sprintf("%s: codec %d became %d", where, a.codec, b.codec)
			}
			if int(b.hdr.NumRecords) != len(b.recs) {
				return "batch-invalid", where + ": NumRecords does not match the records"
			}
			ha, hb := a.hdr, b.hdr
			ha.Length, ha.CRC, ha.Records, hb.Length, hb.CRC, hb.Records = 0, 0, nil, 0, 0, nil
			if !reflect.DeepEqual(ha, hb) {
				return "batch-header-changed", fmt.Sprintf("%s: header fields changed: %+v -> %+v", where, ha, hb)
			}
			if len(a.recs) != len(b.recs) {
				return "count-changed", fmt.Sprintf("%s: %d records became %d", where, len(a.recs), len(b.recs))
			}
			for ri := range a.recs {
				x, y := a.recs[ri], b.recs[ri]
				w := fmt.Sprintf("%s record %d", where, ri)
				if x.Attributes != y.Attributes || x.TimestampDelta64 != y.TimestampDelta64 || x.OffsetDelta != y.OffsetDelta || !c31BytesSame(x.Key, y.Key) {
					if c31Flagged(x) {
						return "flagged-meta-changed", w + ": attributes/timestamp/offset/key changed"
					}
					return "unflagged-changed", w + ": attributes/timestamp/offset/key changed"
				}
				if !c31Flagged(x) {
					if !c31BytesSame(x.Value, y.Value) || !c31HeadersSame(x.Headers, y.Headers) {
						return "unflagged-changed", fmt.Sprintf("%s: value/headers changed: %v %v -> %v %v", w, x.Value, x.Headers, y.Value, y.Headers)
					}
					continue
				}
				nFlag++
				var want []kmsg.Header
				for _, h := range x.Headers {
					if h.Key != "LFS_BLOB" {
						want = append(want, h)
					}
				}
				if !c31HeadersSame(want, y.Headers) {
					return "flagged-headers", fmt.Sprintf("%s: headers %v -> %v", w, x.Headers, y.Headers)
				}
				env, err := lfs.DecodeEnvelope(y.Value)
				if err != nil || !lfs.IsLfsEnvelope(y.Value) {
					return "envelope-invalid", fmt.Sprintf("%s: value is not a valid envelope: %v", w, err)
				}
				if usedKeys[env.Key] {
					return "key-not-fresh", w + ": object key reused: " + env.Key
				}
				usedKeys[env.Key] = true
				obj, ok := objects[env.Key]
				if !ok || !bytes.Equal(obj, x.Value) {
					return "object-mismatch", fmt.Sprintf("%s: object %s = %v (present %v), original value %v", w, env.Key, obj, ok, x.Value)
				}
				sum := sha256.Sum256(x.Value)
				if env.Size != int64(len(x.Value)) || env.SHA256 != hex.EncodeToString(sum[:]) || env.Bucket != cs.Bucket {
					return "envelope-fields", fmt.Sprintf("%s: size/sha256/bucket of the envelope wrong: %+v", w, env)
				}
			}
		}
	}
	if len(objects) != nFlag {
		return "object-count", fmt.Sprintf("%d objects for %d flagged records", len(objects), nFlag)
	}
	return "", ""
}

// ---------- Coq emission ----------
func c31CoqRec(in *c31Intern, r kmsg.Record) string {
	hs := make([]string, len(r.Headers))
	for i, h := range r.Headers {
		hs[i] = fmt.Sprintf("mkHeader %s %s", in.S(h.Key), in.Opt(h.Value))
	}
	return fmt.Sprintf("mkRec %s %s %s %s %s %s", cqZ(int64(r.Attributes)), cqZ(r.TimestampDelta64), cqZ(int64(r.OffsetDelta)), in.Opt(r.Key), in.Opt(r.Value), cqList(hs))
}

type c31EnvEntry struct {
	env  lfs.Envelope
	keys []string
	json []byte
}
type c31CompEntry struct {
	codec    int
	raw, out []byte
}

func c31Coq(cs c31Case, obs c31Obs, tb *c31Tables) string {
	in := &c31Intern{}
	// hashes of every flagged payload
	for _, t := range cs.Topics {
		for _, p := range t.Parts {
			for _, b := range p.Batches {
				for _, r := range b.Recs {
					if !c31Flagged(c31KRecord(r)) {
						continue
					}
					s := sha256.Sum256(r.Val)
					md := md5.Sum(r.Val)
					c := crc32.NewIEEE()
					c.Write(r.Val)
					tb.hash = append(tb.hash, c31HashEntry{0, r.Val, hex.EncodeToString(s[:])}, c31HashEntry{1, r.Val, hex.EncodeToString(md[:])}, c31HashEntry{2, r.Val, hex.EncodeToString(c.Sum(nil))})
				}
			}
		}
	}
	// envelope and compression tables from the rewritten output (only meaningful without error)
	var envs []c31EnvEntry
	var comps []c31CompEntry
	created := map[string]string{}
	if obs.code == 0 {
		for pi := range obs.out {
			if pi < len(obs.in) && bytes.Equal(obs.in[pi], obs.out[pi]) {
				continue
			}
			bs, err := c31DecodePartitionMode(obs.out[pi], true)
			if err != nil {
				continue
			}
			for _, b := range bs {
				if b.codec != 0 {
					raw, err := kgo.DefaultDecompressor().Decompress(b.hdr.Records, kgo.CompressionCodecType(b.codec))
					if err == nil {
						comps = append(comps, c31CompEntry{b.codec, raw, b.hdr.Records})
					}
				}
				for _, r := range b.recs {
					env, err := lfs.DecodeEnvelope(r.Value)
					if err != nil || !lfs.IsLfsEnvelope(r.Value) {
						continue
					}
					keys := make([]string, 0, len(env.OriginalHeaders))
					for k := range env.OriginalHeaders {
						keys = append(keys, k)
					}
					sort.Strings(keys)
					created[env.Key] = env.CreatedAt
					envs = append(envs, c31EnvEntry{env, keys, r.Value})
				}
			}
		}
	}
	// intern the long strings
	for _, d := range tb.dec {
		in.add(d.enc)
		in.add(d.rec.Value)
		in.add(d.rec.Key)
		for _, h := range d.rec.Headers {
			in.add(h.Value)
		}
	}
	for _, h := range tb.hash {
		in.add([]byte(h.hex))
	}
	for _, e := range envs {
		in.add(e.json)
		in.add([]byte(e.env.CreatedAt))
	}
	for _, k := range obs.asked {
		in.add([]byte(k))
	}
	for _, b := range tb.blobs {
		in.add(b)
	}
	for _, d := range tb.decomp {
		in.add(d.in)
	}
	in.add([]byte("verif-proxy"))
	in.finalize()

	hash := make([]string, len(tb.hash))
	for i, h := range tb.hash {
		hash[i] = fmt.Sprintf("(%d, %s, %s)", h.alg, in.B(h.payload), in.S(h.hex))
	}
	envT := make([]string, len(envs))
	for i, e := range envs {
		oh := make([]string, len(e.keys))
		for j, k := range e.keys {
			oh[j] = fmt.Sprintf("(%s, %s)", in.S(k), in.S(e.env.OriginalHeaders[k]))
		}
		env := e.env
		envT[i] = fmt.Sprintf("(mkEnv %s %s %s %s %s %s %s %s %s %s, %s)", in.S(env.Bucket), in.S(env.Key), cqZ(env.Size),
			in.S(env.SHA256), in.S(env.Checksum), in.S(env.ChecksumAlg), in.S(env.ContentType), cqList(oh), in.S(env.CreatedAt), in.S(env.ProxyID), in.B(e.json))
	}
	compT := make([]string, len(comps))
	for i, c := range comps {
		compT[i] = fmt.Sprintf("(%d, %s, (%s, %d))", c.codec, in.B(c.raw), in.B(c.out), c.codec)
	}
	decompT := make([]string, len(tb.decomp))
	for i, d := range tb.decomp {
		decompT[i] = fmt.Sprintf("(%d, %s, %s)", d.codec, in.B(d.in), cqOpt(d.ok, in.B(d.out)))
	}
	supply := make([]string, len(obs.asked))
	for i, k := range obs.asked {
		supply[i] = fmt.Sprintf("(%s, %s)", in.S(k), in.S(created[k]))
	}
	faults := make([]string, len(cs.Faults))
	for i, f := range cs.Faults {
		faults[i] = cqBool(f)
	}
	dec := make([]string, len(tb.dec))
	for i, d := range tb.dec {
		dec[i] = fmt.Sprintf("(%s, %s)", in.B(d.enc), c31CoqRec(in, d.rec))
	}
	orph := make([]string, len(obs.orphans))
	for i, k := range obs.orphans {
		orph[i] = in.S(k)
	}
	bl := func(l [][]byte) string {
		it := make([]string, len(l))
		for i, x := range l {
			it[i] = in.B(x)
		}
		return cqList(it)
	}
	store := make([]string, len(obs.store))
	for i, x := range obs.store {
		store[i] = fmt.Sprintf("(%s, %s)", in.B(x[0]), in.B(x[1]))
	}
	cfg := fmt.Sprintf("(mkCfg %s %s %s %s %d)", in.S(cs.Bucket), in.S("verif-proxy"), cqZ(cs.MaxBlob), in.S(cs.DefaultAlg), c31Chunk)
	return in.wrap(fmt.Sprintf("mkCase %s %s %s %s %s %s %s %s %s %s %s %s %s %s %s", cfg, bl(obs.in), cqList(supply), cqList(faults),
		cqList(dec), cqList(decompT), cqList(compT), cqList(hash), cqList(envT),
		cqZ(int64(obs.code)), bl(obs.out), cqList(store), cqZ(obs.bytes), cqList(orph), cqBool(obs.modified)))
}

// ---------- generator ----------
func c31GenBytes(r *vRand, allowNil bool) []byte {
	switch r.Intn(6) {
	case 0:
		if allowNil {
			return nil
		}
		return []byte{}
	case 1:
		return []byte{}
	default:
		return r.Bytes(r.Range(1, 14))
	}
}

func c31GenRec(r *vRand, flagPct int, idx int) c31Rec {
	rec := c31Rec{Attr: int8(r.Range(-128, 127)), Off: int32(idx), Key: c31GenBytes(r, true), Val: c31GenBytes(r, true)}
	if r.Chance(70) {
		rec.Attr = 0
	}
	switch r.Intn(5) {
	case 0:
		rec.Ts = int64(r.U64())
	case 1:
		rec.Ts = -int64(r.Range(1, 100000))
	default:
		rec.Ts = int64(r.Range(0, 5000))
	}
	if r.Chance(15) {
		rec.Off = int32(r.U64())
	}
	plain := []string{"a", "trace-id", "Content-Type", "content-type", "x-request-id", "X-Request-ID", "traceparent", "lfs_blob", "LFS_BLOB_X", "", "content-encoding"}
	nh := r.Range(0, 3)
	for i := 0; i < nh; i++ {
		h := c31Hdr{K: plain[r.Intn(len(plain))]}
		switch r.Intn(4) {
		case 0:
			h.V = nil
		case 1:
			h.V = []byte{}
		default:
			n := r.Range(1, 10)
			v := make([]byte, n)
			for j := range v {
				v[j] = byte(r.Range(0x20, 0x7e))
			}
			h.V = v
		}
		if strings.EqualFold(h.K, "lfs_blob") || h.K == "LFS_BLOB_X" || h.K == "a" || h.K == "" {
			if r.Chance(30) {
				h.V = r.Bytes(r.Range(1, 6))
			}
		}
		rec.Hdrs = append(rec.Hdrs, h)
	}
	if r.Chance(flagPct) {
		if r.Chance(35) { // sizes around the uploader's chunk size: PutObject vs multipart, short last part
			sizes := []int{0, 1, c31Chunk - 1, c31Chunk, c31Chunk + 1, 2*c31Chunk - 1, 2 * c31Chunk, 2*c31Chunk + 1, 5*c31Chunk + 7}
			rec.Val = r.Bytes(sizes[r.Intn(len(sizes))])
		}
		sum := sha256.Sum256(rec.Val)
		sha := hex.EncodeToString(sum[:])
		md := md5.Sum(rec.Val)
		var flag c31Hdr
		flag.K = "LFS_BLOB"
		alg := ""
		switch r.Intn(12) {
		case 0:
			flag.V = nil
		case 1:
			flag.V = []byte{}
		case 2:
			flag.V = []byte("  " + strings.ToUpper(sha) + "\t")
		case 3:
			flag.V = []byte("deadbeef") // mismatch
		case 4:
			flag.V, alg = []byte(hex.EncodeToString(md[:])), " MD5 "
		case 5:
			flag.V, alg = []byte(sha), "md5" // mismatch under md5
		case 6:
			c := crc32.ChecksumIEEE(rec.Val)
			flag.V, alg = []byte(fmt.Sprintf("%08X", c)), "crc32"
		case 7:
			flag.V, alg = nil, "none"
		case 8:
			flag.V, alg = []byte(sha), "none" // error 2
		case 9:
			flag.V, alg = []byte(sha), "bogus"
		default:
			flag.V = []byte(sha)
			if r.Chance(30) {
				alg = "sha256"
			}
		}
		pos := r.Intn(len(rec.Hdrs) + 1)
		rec.Hdrs = append(rec.Hdrs[:pos], append([]c31Hdr{flag}, rec.Hdrs[pos:]...)...)
		if alg != "" || r.Chance(5) {
			pos = r.Intn(len(rec.Hdrs) + 1)
			rec.Hdrs = append(rec.Hdrs[:pos], append([]c31Hdr{{K: "LFS_BLOB_ALG", V: []byte(alg)}}, rec.Hdrs[pos:]...)...)
		}
	}
	// header lists are LISTS: the flag header 2-3 times at different positions with different
	// values (null / empty / junk), LFS_BLOB_ALG repeated, ordinary keys repeated, case variants
	ins := func(h c31Hdr) {
		pos := r.Intn(len(rec.Hdrs) + 1)
		rec.Hdrs = append(rec.Hdrs[:pos], append([]c31Hdr{h}, rec.Hdrs[pos:]...)...)
	}
	flaggedNow := false
	for _, h := range rec.Hdrs {
		if h.K == "LFS_BLOB" {
			flaggedNow = true
		}
	}
	if flaggedNow && r.Chance(40) {
		n := r.Range(1, 2)
		for i := 0; i < n; i++ {
			switch r.Intn(4) {
			case 0:
				ins(c31Hdr{K: "LFS_BLOB", V: nil})
			case 1:
				ins(c31Hdr{K: "LFS_BLOB", V: []byte{}})
			case 2:
				ins(c31Hdr{K: "LFS_BLOB", V: []byte("zz")})
			default:
				v := make([]byte, r.Range(1, 5))
				for j := range v {
					v[j] = byte(r.Range(0x21, 0x7e))
				}
				ins(c31Hdr{K: "LFS_BLOB", V: v})
			}
		}
	}
	if flaggedNow && r.Chance(20) {
		ins(c31Hdr{K: "LFS_BLOB_ALG", V: []byte([]string{"md5", "sha256", "none", "bogus", ""}[r.Intn(5)])})
	}
	if flaggedNow && r.Chance(20) {
		ins(c31Hdr{K: []string{"lfs_blob", "Lfs_Blob", "LFS_blob", "LFS_BLOB ", " LFS_BLOB"}[r.Intn(5)], V: []byte("x")})
	}
	if len(rec.Hdrs) > 0 && r.Chance(25) { // an ordinary key repeated with another value
		h := rec.Hdrs[r.Intn(len(rec.Hdrs))]
		if h.K != "LFS_BLOB" && h.K != "LFS_BLOB_ALG" {
			ins(c31Hdr{K: h.K, V: []byte{byte(r.Range(0x30, 0x39))}})
		}
	}
	return rec
}

func c31GenBatch(r *vRand, flagPct int, malformed bool) c31Batch {
	b := c31Batch{Magic: 2, PLE: -1, PID: -1, PEpoch: -1, Codec: r.Intn(5)}
	if r.Chance(40) {
		b.First, b.PLE, b.FTS, b.MTS = int64(r.Range(0, 1<<20)), int32(r.Range(-1, 9)), int64(r.Range(0, 1<<40)), int64(r.Range(0, 1<<40))
		b.PID, b.PEpoch, b.FSeq = int64(r.Range(-1, 1<<30)), int16(r.Range(-1, 100)), int32(r.Range(-1, 1<<20))
		b.Attrs = int16(r.Intn(16)) << 3 // timestamp type, transactional, control, delete-horizon bits
	}
	if r.Chance(5) {
		b.First, b.FTS, b.PID, b.Attrs = int64(r.U64()), int64(r.U64()), int64(r.U64()), int16(r.U64())&^7
	}
	n := r.Range(1, 3)
	for i := 0; i < n; i++ {
		b.Recs = append(b.Recs, c31GenRec(r, flagPct, i))
	}
	b.LOD = int32(n - 1)
	if malformed {
		switch r.Intn(5) {
		case 0:
			b.NumAdj = 1
		case 1:
			b.NumAdj = -1
		case 2:
			b.Junk = r.Bytes(r.Range(1, 5))
		case 3:
			b.Codec = r.Range(5, 7)
		case 4:
			b.NumAdj = -len(b.Recs) - r.Range(0, 2)
		}
	}
	return b
}

func c31Gen(r *vRand) c31Case {
	cs := c31Case{Bucket: "bkt", MaxBlob: 1 << 20}
	algs := []string{"sha256", "sha256", "sha256", "", "md5", "crc32", "none", " SHA256 "}
	cs.DefaultAlg = algs[r.Intn(len(algs))]
	if r.Chance(2) {
		cs.DefaultAlg = "whirlpool"
	}
	if r.Chance(6) {
		cs.MaxBlob = int64(r.Range(0, 12))
	}
	if r.Chance(2) {
		cs.Bucket = ""
	}
	malformedCase := r.Chance(12)
	flagPct := []int{0, 25, 50, 50, 80, 100}[r.Intn(6)]
	if r.Chance(60) {
		// make errors rarer so that most requests are rewritten completely
		flagPct = flagPct / 2
	}
	nt := 1
	if r.Chance(30) {
		nt = 2
	}
	names := []string{"orders", "events", "t.1", "A_b-c"}
	for ti := 0; ti < nt; ti++ {
		t := c31Topic{Name: names[r.Intn(len(names))]}
		np := 1
		if r.Chance(40) {
			np = 2
		}
		for pi := 0; pi < np; pi++ {
			p := c31Part{Index: int32(r.Range(0, 5))}
			nb := []int{1, 1, 1, 2, 2, 3}[r.Intn(6)]
			if r.Chance(5) {
				nb = 0
			}
			for bi := 0; bi < nb; bi++ {
				p.Batches = append(p.Batches, c31GenBatch(r, flagPct, malformedCase && r.Chance(40)))
			}
			if malformedCase && r.Chance(15) {
				p.Trunc = r.Range(1, 20)
			}
			t.Parts = append(t.Parts, p)
		}
		cs.Topics = append(cs.Topics, t)
	}
	if r.Chance(6) {
		n := r.Range(1, 3)
		for i := 0; i < n; i++ {
			cs.Faults = append(cs.Faults, i == n-1)
		}
	}
	return cs
}

// a generated case with error-free flag headers only (so that the whole request is rewritten)
func c31Clean(cs c31Case) c31Case {
	for ti := range cs.Topics {
		for pi := range cs.Topics[ti].Parts {
			for bi := range cs.Topics[ti].Parts[pi].Batches {
				b := &cs.Topics[ti].Parts[pi].Batches[bi]
				for ri := range b.Recs {
					rec := &b.Recs[ri]
					// only the FIRST LFS_BLOB / LFS_BLOB_ALG header decides checksum and algorithm
					// (lfsFindHeaderValue): make those two harmless, keep every other entry
					seenFlag, seenAlg := false, false
					for hi := range rec.Hdrs {
						h := &rec.Hdrs[hi]
						if h.K == "LFS_BLOB" && !seenFlag {
							seenFlag = true
							if len(bytes.TrimSpace(h.V)) > 0 {
								h.V = nil
							}
						}
						if h.K == "LFS_BLOB_ALG" && !seenAlg {
							seenAlg = true
							if _, err := lfs.NormalizeChecksumAlg(string(h.V)); err != nil {
								h.V = []byte("md5")
							}
						}
					}
				}
			}
		}
	}
	cs.Faults = nil
	if cs.MaxBlob < 100 {
		cs.MaxBlob = 1 << 20
	}
	if cs.Bucket == "" {
		cs.Bucket = "bkt"
	}
	if _, err := lfs.NormalizeChecksumAlg(cs.DefaultAlg); err != nil {
		cs.DefaultAlg = "sha256"
	}
	return cs
}

// c31Shrink removes records, batches, partitions and topics while the same oracle key keeps failing.
func c31Shrink(cs c31Case, key string) c31Case {
	fails := func(c c31Case) bool {
		if !c.wellFormed() {
			return false
		}
		o := c31Run(c, nil)
		if o.code != 0 {
			return false
		}
		k, _ := c31Oracle(c, o)
		return k == key
	}
	clone := func(c c31Case) c31Case {
		b, _ := json.Marshal(c)
		var d c31Case
		_ = json.Unmarshal(b, &d)
		return d
	}
	for changed := true; changed; {
		changed = false
		for ti := 0; ti < len(cs.Topics); ti++ {
			if len(cs.Topics) > 1 {
				c := clone(cs)
				c.Topics = append(c.Topics[:ti], c.Topics[ti+1:]...)
				if fails(c) {
					cs, changed = c, true
					ti--
					continue
				}
			}
			for pi := 0; pi < len(cs.Topics[ti].Parts); pi++ {
				if len(cs.Topics[ti].Parts) > 1 {
					c := clone(cs)
					c.Topics[ti].Parts = append(c.Topics[ti].Parts[:pi], c.Topics[ti].Parts[pi+1:]...)
					if fails(c) {
						cs, changed = c, true
						pi--
						continue
					}
				}
				for bi := 0; bi < len(cs.Topics[ti].Parts[pi].Batches); bi++ {
					if len(cs.Topics[ti].Parts[pi].Batches) > 1 {
						c := clone(cs)
						bs := c.Topics[ti].Parts[pi].Batches
						c.Topics[ti].Parts[pi].Batches = append(bs[:bi], bs[bi+1:]...)
						if fails(c) {
							cs, changed = c, true
							bi--
							continue
						}
					}
					for ri := 0; ri < len(cs.Topics[ti].Parts[pi].Batches[bi].Recs); ri++ {
						if len(cs.Topics[ti].Parts[pi].Batches[bi].Recs) > 1 {
							c := clone(cs)
							rs := c.Topics[ti].Parts[pi].Batches[bi].Recs
							c.Topics[ti].Parts[pi].Batches[bi].Recs = append(rs[:ri], rs[ri+1:]...)
							if fails(c) {
								cs, changed = c, true
								ri--
							}
						}
					}
				}
			}
		}
	}
	return cs
}

func TestVerifC31(t *testing.T) {
	rep := vNewReport("C31", "generated produce requests (1-2 topics x 1-2 partitions x 0-3 batches x 1-3 records; codecs none/gzip/snappy/lz4/zstd; null/empty/non-empty keys, values, header values; arbitrary record attributes/timestamp deltas/offset deltas and batch header fields; LFS_BLOB / LFS_BLOB_ALG variants incl. mismatching checksums; ~12% malformed shapes; S3 put faults) through the real rewriteProduceRecords; a case is non-trivial when it is well formed, rewritten without error, and contains both a flagged and an unflagged record; distinct = distinct canonical JSON of the case")
	var coq, jsons []string
	runOne := func(cs c31Case) {
		tb := &c31Tables{seenD: map[string]bool{}}
		obs := c31Run(cs, tb)
		canon, _ := json.Marshal(cs)
		wf := cs.wellFormed()
		nFlag, nPlain, nBatches := 0, 0, 0
		for _, tp := range cs.Topics {
			for _, p := range tp.Parts {
				if len(p.Batches) > 1 {
					rep.Hist("multi-batch-partition")
				}
				for _, b := range p.Batches {
					nBatches++
					rep.Hist(fmt.Sprintf("codec=%d", b.Codec))
					for _, r := range b.Recs {
						if c31Flagged(c31KRecord(r)) {
							nFlag++
						} else {
							nPlain++
						}
						if r.Key == nil {
							rep.Hist("null-key")
						} else if len(r.Key) == 0 {
							rep.Hist("empty-key")
						}
						if r.Val == nil {
							rep.Hist("null-value")
						}
					}
				}
			}
		}
		rep.Hist(fmt.Sprintf("outcome=%d", obs.code))
		if !wf {
			rep.Hist("malformed")
		}
		rep.Count(string(canon), wf && obs.code == 0 && nFlag > 0 && nPlain > 0)
		rep.Sample(cs)
		if wf && obs.code == 0 {
			if key, what := c31Oracle(cs, obs); key != "" {
				shr := c31Shrink(cs, key)
				o2 := c31Run(shr, nil)
				if k2, w2 := c31Oracle(shr, o2); k2 == key {
					what = w2
				} else {
					shr = cs
				}
				rep.Fail(key, key, what, shr)
			}
		}
		if wf && obs.code == -1 {
			rep.Fail("panic", "panic", "rewriteProduceRecords panicked on a well-formed request: "+obs.errText, cs)
		}
		coq = append(coq, c31Coq(cs, obs, tb))
		jsons = append(jsons, string(canon))
	}
	if rc := vReplayCase(); rc != nil {
		var cs c31Case
		if err := json.Unmarshal(rc, &cs); err != nil {
			t.Fatalf("bad replay: %v", err)
		}
		runOne(cs)
	} else {
		sha := func(b []byte) []byte { s := sha256.Sum256(b); return []byte(hex.EncodeToString(s[:])) }
		plainB := func(codec int, recs ...c31Rec) c31Batch {
			return c31Batch{Magic: 2, PLE: -1, PID: -1, PEpoch: -1, Codec: codec, LOD: int32(len(recs) - 1), Recs: recs}
		}
		flagRec := c31Rec{Key: []byte("k"), Val: []byte("hello blob"), Hdrs: []c31Hdr{{K: "content-type", V: []byte("text/plain")}, {K: "LFS_BLOB", V: sha([]byte("hello blob"))}}}
		corpus := []c31Case{
			// the shapes the package's own tests use
			{DefaultAlg: "sha256", MaxBlob: 1 << 20, Bucket: "bkt", Topics: []c31Topic{{Name: "orders", Parts: []c31Part{{Batches: []c31Batch{plainB(0, flagRec)}}}}}},
			// no flagged record in a batch next to a rewritten one; null vs empty keys/values/header values; compressed
			{DefaultAlg: "sha256", MaxBlob: 1 << 20, Bucket: "bkt", Topics: []c31Topic{{Name: "orders", Parts: []c31Part{{Index: 3, Batches: []c31Batch{
				plainB(1, c31Rec{Key: nil, Val: []byte{}, Ts: -5, Off: 7, Attr: -1, Hdrs: []c31Hdr{{K: "a", V: nil}, {K: "", V: []byte{}}}}),
				plainB(2, c31Rec{Key: []byte{}, Val: nil, Ts: 1 << 40, Hdrs: []c31Hdr{{K: "x", V: []byte{}}}}, flagRec, c31Rec{Key: nil, Val: nil}),
				plainB(4, flagRec, flagRec)}}}}}},
			// header lists with repeated keys: the flag header two and three times (first / middle /
			// last, null / empty / other values), LFS_BLOB_ALG twice, an ordinary key twice, case variants
			{DefaultAlg: "sha256", MaxBlob: 1 << 20, Bucket: "bkt", Topics: []c31Topic{{Name: "orders", Parts: []c31Part{{Batches: []c31Batch{plainB(0,
				c31Rec{Key: []byte("a"), Val: []byte("v1"), Hdrs: []c31Hdr{{K: "LFS_BLOB", V: nil}, {K: "x", V: []byte("1")}, {K: "LFS_BLOB", V: []byte("zz")}}},
				c31Rec{Key: []byte("b"), Val: []byte("v2"), Hdrs: []c31Hdr{{K: "x", V: []byte("1")}, {K: "LFS_BLOB", V: []byte{}}, {K: "x", V: []byte("2")}, {K: "LFS_BLOB", V: nil}, {K: "lfs_blob", V: []byte("keep")}, {K: "LFS_BLOB", V: []byte("q")}}},
				c31Rec{Key: []byte("c"), Val: []byte("v3"), Hdrs: []c31Hdr{{K: "LFS_BLOB_ALG", V: []byte("md5")}, {K: "LFS_BLOB", V: nil}, {K: "LFS_BLOB_ALG", V: []byte("bogus")}, {K: "", V: nil}, {K: "", V: []byte{}}, {K: "LFS_BLOB", V: []byte{}}}},
				c31Rec{Key: []byte("d"), Val: []byte("v4"), Hdrs: []c31Hdr{{K: "x", V: []byte("1")}, {K: "x", V: []byte("1")}, {K: "Lfs_Blob", V: nil}}})}}}}}},
			// flagged values of sizes 0, 1, chunk-1, chunk, chunk+1, 2chunk-1, 2chunk, 2chunk+1, 5chunk+7
			func() c31Case {
				var recs []c31Rec
				for i, n := range []int{0, 1, c31Chunk - 1, c31Chunk, c31Chunk + 1, 2*c31Chunk - 1, 2 * c31Chunk, 2*c31Chunk + 1, 5*c31Chunk + 7} {
					v := make([]byte, n)
					for j := range v {
						v[j] = byte(i*31 + j*7)
					}
					recs = append(recs, c31Rec{Key: []byte{byte(i)}, Off: int32(i), Val: v, Hdrs: []c31Hdr{{K: "LFS_BLOB", V: nil}}})
				}
				return c31Case{DefaultAlg: "sha256", MaxBlob: 1 << 20, Bucket: "bkt", Topics: []c31Topic{{Name: "orders", Parts: []c31Part{{Batches: []c31Batch{plainB(0, recs[:5]...), plainB(1, recs[5:]...)}}}}}}
			}(),
			// malformed: NumRecords smaller than the records present
			{DefaultAlg: "sha256", MaxBlob: 1 << 20, Bucket: "bkt", Topics: []c31Topic{{Name: "t", Parts: []c31Part{{Batches: []c31Batch{{Magic: 2, Recs: []c31Rec{flagRec, {Val: []byte("x")}}, NumAdj: -1}}}}}}},
		}
		for _, cs := range corpus {
			runOne(cs)
		}
		r := vNewRand(vSeed())
		n := vN(80, 600)
		for i := 0; i < n; i++ {
			cs := c31Gen(r.Fork())
			if i%3 != 0 {
				cs = c31Clean(cs)
			}
			runOne(cs)
		}
	}
	// several smaller cases files: bin/check evaluates them in parallel
	const per = 25
	for i := 0; i < len(coq) || i == 0; i += per {
		j := i + per
		if j > len(coq) {
			j = len(coq)
		}
		rep.Cases(fmt.Sprintf("C31p%03d", i/per), "From KS Require Import lib.Base lib.RecVarint model.Rewrite corr.RewriteCorr.", "case", "check_case", coq[i:j], jsons[i:j])
	}
	rep.Write()
	if len(rep.Failures) > 0 {
		t.Logf("oracle failures: %s", strings.TrimSpace(rep.Failures[0].What))
	}
}
