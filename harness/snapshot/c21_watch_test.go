package operator

// C21, second stream: 2-3 real EtcdStores built by NewEtcdStore, i.e. WITH their real
// watchSnapshot goroutines, and the real operator publish path on the embedded etcd.
// A case is a sequence of phases; a phase is a burst of snapshot writes by brokers and
// the operator (back-to-back or spaced), then a quiescence wait: poll until every
// broker's Metadata() equals the etcd snapshot, at most 3 s, then one final direct
// comparison (WatchDeliver, the liveness obligation of the watcher) -> oracle
// "broker-metadata-differs-after-quiescence"; then an admin operation on every broker
// (each followed by a quiescence wait) under the acked-persist oracle.  The known
// stale-copy finding is only assigned to a put made inside a quiescence window (some
// write not yet known to be delivered); a stale copy after quiescence is a violation.
//
// Correspondence: refreshes are asynchronous here, so the harness linearises: an
// operation whose outcome shows which earlier write the broker had loaded gets a
// BRefresh right after that write; at quiescence the missing refreshes are placed after
// the last write.  corr/SnapshotCorr.v (check_wcase) replays that on the model.

import (
	"context"
	"encoding/json"
	"fmt"
	"strings"
	"testing"
	"time"

	clientv3 "go.etcd.io/etcd/client/v3"
	metav1 "k8s.io/apimachinery/pkg/apis/meta/v1"

	kafscalev1alpha1 "github.com/KafScale/platform/api/v1alpha1"
	"github.com/KafScale/platform/internal/testutil"
	"github.com/KafScale/platform/pkg/metadata"
	"github.com/KafScale/platform/pkg/protocol"
)

type c21wWrite struct {
	Actor string     `json:"actor"` // broker | operator
	B     int        `json:"b,omitempty"`
	Op    string     `json:"op,omitempty"` // create grow delete
	Topic string     `json:"topic,omitempty"`
	N     int32      `json:"n,omitempty"`
	Crd   []c21Topic `json:"crd,omitempty"`
	GapMs int        `json:"gap_ms,omitempty"` // pause before this write
}

type c21wCase struct {
	Brokers int           `json:"brokers"`
	Phases  [][]c21wWrite `json:"phases"`
}

type c21wGroup struct {
	events    []string
	code      int
	chkEtcd   bool
	etcd      c21Snap
	present   bool
	chkLocals bool
	locals    []c21Snap
	widx      int // number of snapshot writes that precede the end of this group
}

type c21wRun struct {
	groups  []c21wGroup
	fail    string
	key     string
	tags    map[string]bool
	harness string
}

// harness-side replicas of the three local operations, used ONLY to find which earlier
// write a broker had loaded (the model re-checks the chosen linearisation)
func c21wSim(op string, s c21Snap, t string, n int32) (int, c21Snap) {
	switch op {
	case "create":
		if !metadata.ValidTopicName(t) || n <= 0 {
			return 1, nil
		}
		for _, e := range s {
			if e.Name == t {
				return 2, nil
			}
		}
		return 0, append(append(c21Snap{}, s...), c21Topic{t, n})
	case "grow":
		if t == "" || n <= 0 {
			return 1, nil
		}
		for i, e := range s {
			if e.Name == t {
				if n <= e.N {
					return 1, nil
				}
				out := append(c21Snap{}, s...)
				out[i].N = n
				return 0, out
			}
		}
		return 3, nil
	case "delete":
		for i, e := range s {
			if e.Name == t {
				out := append(c21Snap{}, s[:i]...)
				return 0, append(out, s[i+1:]...)
			}
		}
		return 3, nil
	}
	return 9, nil
}

func c21wExec(endpoints []string, cli *clientv3.Client, cs c21wCase) (res c21wRun) {
	res.tags = map[string]bool{}
	ctx := context.Background()
	if cs.Brokers < 2 {
		cs.Brokers = 2
	}
	if _, err := cli.Delete(ctx, c21SnapshotKey); err != nil {
		res.harness = err.Error()
		return
	}
	initial := metadata.ClusterMetadata{Brokers: []protocol.MetadataBroker{{NodeID: 0, Host: "b0", Port: 9092}}}
	stores := make([]*metadata.EtcdStore, cs.Brokers)
	for i := range stores {
		st, err := metadata.NewEtcdStore(ctx, initial, metadata.EtcdStoreConfig{Endpoints: endpoints})
		if err != nil {
			res.harness = "NewEtcdStore: " + err.Error()
			return
		}
		stores[i] = st
		defer st.Close()
	}
	readEtcd := func() (c21Snap, bool) {
		resp, err := cli.Get(ctx, c21SnapshotKey)
		if err != nil {
			res.harness = err.Error()
			return nil, false
		}
		if len(resp.Kvs) == 0 {
			return c21Snap{}, false
		}
		var snap metadata.ClusterMetadata
		if err := json.Unmarshal(resp.Kvs[0].Value, &snap); err != nil {
			res.harness = "snapshot in etcd does not parse: " + err.Error()
			return nil, false
		}
		return c21Topics(snap.Topics), true
	}
	local := func(b int) c21Snap {
		m, err := stores[b].Metadata(ctx, nil)
		if err != nil {
			res.harness = err.Error()
			return nil
		}
		return c21Topics(m.Topics)
	}
	hist := []c21Snap{{}}             // etcd snapshot after every write; hist[0] = no snapshot yet
	sync := make([]int, cs.Brokers)   // the write every broker is known to have loaded (or made)
	lastEv := make([]int, cs.Brokers) // number of writes before the broker's last own operation
	cur := func() int { return len(hist) - 1 }
	insertRefresh := func(b, k int) {
		g := c21wGroup{events: []string{fmt.Sprintf("BRefresh %d%%nat", b)}, widx: k}
		pos := len(res.groups)
		for i, x := range res.groups {
			if x.widx > k {
				pos = i
				break
			}
		}
		res.groups = append(res.groups, c21wGroup{})
		copy(res.groups[pos+1:], res.groups[pos:])
		res.groups[pos] = g
		sync[b] = k
	}
	type ack struct {
		t string
		n int32
	}
	var acks []ack
	quiescent := false
	fail := func(key, what string) {
		if res.fail == "" {
			res.key, res.fail = key, what
		}
	}
	// acked-persist oracle after a write; lost acknowledgements are reported once
	checkAcks := func(key, where string, etcd c21Snap, present bool) {
		var keep []ack
		var lost []string
		for _, a := range acks {
			if present && c21Has(etcd, a.t, a.n) {
				keep = append(keep, a)
			} else {
				lost = append(lost, fmt.Sprintf("%s/%d", a.t, a.n))
			}
		}
		acks = keep
		if len(lost) > 0 {
			fail(key, fmt.Sprintf("%s: acknowledged and not deleted %s missing from the etcd snapshot %v", where, strings.Join(lost, ","), etcd))
		}
	}
	brokerOp := func(b int, op, topic string, n int32, where string) bool {
		var err error
		switch op {
		case "create":
			_, err = stores[b].CreateTopic(ctx, metadata.TopicSpec{Name: topic, NumPartitions: n, ReplicationFactor: 1})
		case "grow":
			err = stores[b].CreatePartitions(ctx, topic, n)
		case "delete":
			err = stores[b].DeleteTopic(ctx, topic)
		default:
			return true
		}
		code := c21Code(err)
		after, present := readEtcd()
		if res.harness != "" {
			return false
		}
		// which write had the broker loaded? smallest consistent index (see file comment)
		cands := []int{sync[b]}
		lo := sync[b] + 1
		if lastEv[b] > lo {
			lo = lastEv[b]
		}
		for k := lo; k <= cur(); k++ {
			cands = append(cands, k)
		}
		chosen := -1
		for _, k := range cands {
			c, out := c21wSim(op, hist[k], topic, n)
			if c == code && (code != 0 || c21Eq(out, after)) {
				chosen = k
				break
			}
		}
		raced := false
		if chosen < 0 && op == "grow" && code == 0 && c21Eq(after, hist[cur()]) {
			// the put wrote the unchanged etcd snapshot: the broker's own watcher refreshed
			// between CreatePartitions' local growth and its put (open finding
			// grow-lost-to-refresh-before-persist, here produced by the real watcher)
			for _, k := range cands {
				if c, _ := c21wSim(op, hist[k], topic, n); c == 0 {
					chosen, raced = k, true
					break
				}
			}
		}
		if chosen < 0 {
			chosen = sync[b] // no linearisation found: let the model comparison report it
			res.tags["no-linearisation-found"] = true
		}
		if chosen != sync[b] {
			insertRefresh(b, chosen)
		}
		stale := chosen < cur()
		var ev []string
		switch op {
		case "create":
			ev = []string{fmt.Sprintf("BCreate %d%%nat %s %s", b, cqStr(topic), cqZ(int64(n)))}
		case "delete":
			ev = []string{fmt.Sprintf("BDelete %d%%nat %s", b, cqStr(topic))}
		case "grow":
			ev = []string{fmt.Sprintf("BGrowLocal %d%%nat %s %s", b, cqStr(topic), cqZ(int64(n)))}
			if raced {
				ev = append(ev, fmt.Sprintf("BRefresh %d%%nat", b))
				res.tags["watcher-refresh-inside-CreatePartitions"] = true
			}
			if code == 0 {
				ev = append(ev, fmt.Sprintf("BGrowPersist %d%%nat", b))
			}
		}
		g := c21wGroup{events: ev, code: code, chkEtcd: true, etcd: after, present: present, widx: cur()}
		if code == 0 {
			hist = append(hist, after)
			sync[b] = cur()
			g.widx = cur()
			switch op {
			case "create", "grow":
				acks = append(acks, ack{topic, n})
			case "delete":
				var keep []ack
				for _, a := range acks {
					if a.t != topic {
						keep = append(keep, a)
					}
				}
				acks = keep
			}
		}
		lastEv[b] = cur()
		res.groups = append(res.groups, g)
		if code == 0 {
			key := "acked-topic-lost-by-derived-broker-put"
			if raced {
				key = "grow-lost-to-refresh-before-persist" // open finding
			} else if stale && !quiescent {
				key = "broker-put-of-stale-local-copy" // open finding: put inside the delivery window
				res.tags["stale-put-inside-delivery-window"] = true
			} else if stale {
				key = "stale-broker-copy-after-quiescence"
			}
			checkAcks(key, where, after, present)
			quiescent = false
		}
		return true
	}
	publish := func(crdTopics []c21Topic, where string) bool {
		one := int32(1)
		cluster := &kafscalev1alpha1.KafscaleCluster{ObjectMeta: metav1.ObjectMeta{Name: "c", Namespace: "ns"}}
		cluster.Spec.Brokers.Replicas = &one
		var topics []kafscalev1alpha1.KafscaleTopic
		var crd []string
		for _, ct := range crdTopics {
			topics = append(topics, kafscalev1alpha1.KafscaleTopic{ObjectMeta: metav1.ObjectMeta{Name: ct.Name, Namespace: "ns"},
				Spec: kafscalev1alpha1.KafscaleTopicSpec{ClusterRef: "c", Partitions: ct.N}})
			crd = append(crd, fmt.Sprintf("(%s, %s)", cqStr(ct.Name), cqZ(int64(ct.N))))
		}
		if err := PublishMetadataSnapshot(ctx, endpoints, BuildClusterMetadata(cluster, topics)); err != nil {
			res.harness = "publish: " + err.Error()
			return false
		}
		after, present := readEtcd()
		if res.harness != "" {
			return false
		}
		hist = append(hist, after)
		res.groups = append(res.groups, c21wGroup{events: []string{"OStart " + cqList(crd), "OGet", "OTxn"}, chkEtcd: true, etcd: after, present: present, widx: cur()})
		checkAcks("operator-publish-loses-acked-topic", where, after, present)
		quiescent = false
		return true
	}
	// WatchDeliver: after the last write every broker's watcher must load it
	allEqual := func() (bool, string) {
		etcd, _ := readEtcd()
		for b := range stores {
			if l := local(b); !c21Eq(l, etcd) {
				return false, fmt.Sprintf("broker %d Metadata() = %v, etcd snapshot = %v", b, l, etcd)
			}
		}
		return true, ""
	}
	quiesce := func(where string, d time.Duration) bool {
		deadline := time.Now().Add(d)
		ok, what := allEqual()
		for !ok && time.Now().Before(deadline) && res.harness == "" {
			time.Sleep(5 * time.Millisecond)
			ok, what = allEqual()
		}
		if !ok {
			ok, what = allEqual() // final direct comparison after the timeout
		}
		if res.harness != "" {
			return false
		}
		etcd, present := readEtcd()
		g := c21wGroup{chkEtcd: true, etcd: etcd, present: present, chkLocals: true, widx: cur()}
		for b := range stores {
			l := local(b)
			g.locals = append(g.locals, l)
			if c21Eq(l, hist[sync[b]]) && (sync[b] == cur() || !c21Eq(l, hist[cur()])) {
				continue // nothing newer loaded
			}
			lo := sync[b] + 1
			if lastEv[b] > lo {
				lo = lastEv[b]
			}
			for k := cur(); k >= lo; k-- { // the newest write whose snapshot the broker shows
				if c21Eq(l, hist[k]) {
					insertRefresh(b, k)
					break
				}
			}
		}
		res.groups = append(res.groups, g)
		if !ok {
			fail("broker-metadata-differs-after-quiescence", fmt.Sprintf("%s: %v after the last snapshot write, %s", where, d, what))
			return false // the case ends here (every further wait would time out as well)
		}
		quiescent = true
		return true
	}
	// warm-up: the watchers register asynchronously; publish a base snapshot until every
	// broker has loaded one (each publish is a real write and a model event)
	warm := false
	for i := 0; i < 25 && !warm; i++ {
		if !publish([]c21Topic{{"base", 1}}, "warm-up") {
			return
		}
		for j := 0; j < 40 && !warm; j++ {
			warm, _ = allEqual()
			if !warm {
				time.Sleep(5 * time.Millisecond)
			}
		}
	}
	if !warm {
		res.harness = "watchers never delivered the base snapshot"
		return
	}
	if !quiesce("warm-up", 3*time.Second) {
		return
	}
	for pi, burst := range cs.Phases {
		writers := map[string]bool{}
		for wi, w := range burst {
			if w.GapMs > 0 {
				time.Sleep(time.Duration(w.GapMs) * time.Millisecond)
				res.tags["spaced-writes"] = true
			}
			where := fmt.Sprintf("phase %d write %d", pi, wi)
			if w.Actor == "operator" {
				if !publish(w.Crd, where+" (operator publish)") {
					return
				}
				writers["op"] = true
			} else {
				b := ((w.B % cs.Brokers) + cs.Brokers) % cs.Brokers
				if !brokerOp(b, w.Op, w.Topic, w.N, fmt.Sprintf("%s (%s broker %d %q %d)", where, w.Op, b, w.Topic, w.N)) {
					return
				}
				writers[fmt.Sprint(b)] = true
			}
			if wi > 0 && w.GapMs == 0 {
				res.tags["back-to-back-writes"] = true
			}
		}
		if len(writers) > 1 {
			res.tags["burst-by-several-actors"] = true
		}
		if !quiesce(fmt.Sprintf("phase %d", pi), 3*time.Second) {
			return
		}
		// an admin operation on every broker, each from a quiescent state
		for b := range stores {
			if !quiescent {
				break
			}
			if !brokerOp(b, "create", fmt.Sprintf("adm%d-%d", pi, b), 1, fmt.Sprintf("phase %d admin create on broker %d after quiescence", pi, b)) {
				return
			}
			if !quiesce(fmt.Sprintf("phase %d after the admin operation on broker %d", pi, b), 3*time.Second) {
				return
			}
		}
	}
	return
}

func c21wCoq(cs c21wCase, r c21wRun) string {
	steps := make([]string, len(r.groups))
	for i, g := range r.groups {
		locs := make([]string, len(g.locals))
		for j, l := range g.locals {
			locs[j] = c21SnapCoq(l)
		}
		steps[i] = fmt.Sprintf("mkWObs %s %d %s %s %s %s", cqList(g.events), g.code, cqBool(g.chkEtcd), cqOpt(g.present, c21SnapCoq(g.etcd)), cqBool(g.chkLocals), cqList(locs))
	}
	b := cs.Brokers
	if b < 2 {
		b = 2
	}
	return fmt.Sprintf("mkWCase %d%%nat %s", b, cqList(steps))
}

func c21wGen(r *vRand) c21wCase {
	cs := c21wCase{Brokers: r.Range(2, 3)}
	names := []string{"a", "b", "orders"}
	for p := r.Range(1, 2); p > 0; p-- {
		var burst []c21wWrite
		for k := r.Range(1, 4); k > 0; k-- {
			w := c21wWrite{}
			switch g := r.Intn(10); {
			case g < 6:
			case g < 8:
				w.GapMs = r.Range(1, 40)
			default:
				w.GapMs = r.Range(260, 320)
			}
			if r.Chance(25) {
				w.Actor = "operator"
				used := map[string]bool{}
				for j := r.Intn(2); j >= 0; j-- {
					nm := names[r.Intn(len(names))]
					if !used[nm] {
						used[nm] = true
						w.Crd = append(w.Crd, c21Topic{nm, int32(r.Range(1, 5))})
					}
				}
			} else {
				w.Actor = "broker"
				w.B = r.Intn(cs.Brokers)
				w.Topic = names[r.Intn(len(names))]
				switch y := r.Intn(10); {
				case y < 5:
					w.Op, w.N = "create", int32(r.Range(1, 5))
				case y < 9:
					w.Op, w.N = "grow", int32(r.Range(2, 9))
				default:
					w.Op = "delete"
				}
			}
			burst = append(burst, w)
		}
		cs.Phases = append(cs.Phases, burst)
	}
	return cs
}

func TestVerifC21Watch(t *testing.T) {
	t.Setenv(operatorEtcdSilenceLogsEnv, "true")
	rep := vNewReport("C21", "second stream: 2-3 real EtcdStores WITH their watchSnapshot goroutines and the real operator publish on embedded etcd; 1-2 phases of a burst of 1-4 snapshot writes (broker create/grow/delete, operator publish; back-to-back, 1-40 ms or 260-320 ms apart), quiescence wait (poll <= 3 s, final direct comparison), then an admin create on every broker each followed by a quiescence wait; a case is non-trivial when a burst has back-to-back writes or several actors; distinct = distinct canonical case")
	endpoints := testutil.StartEmbeddedEtcd(t)
	cli, err := clientv3.New(clientv3.Config{Endpoints: endpoints, DialTimeout: 5 * time.Second})
	if err != nil {
		t.Fatalf("etcd client: %v", err)
	}
	defer cli.Close()
	var coq, jsons []string
	unknownFails := 0
	runOne := func(cs c21wCase, sample bool) {
		run := c21wExec(endpoints, cli, cs)
		canon, _ := json.Marshal(cs)
		if run.harness != "" {
			t.Fatalf("harness problem in case %s: %s", canon, run.harness)
		}
		rep.Count(string(canon), run.tags["back-to-back-writes"] || run.tags["burst-by-several-actors"])
		for tg := range run.tags {
			rep.Hist("watch:" + tg)
		}
		rep.Hist(fmt.Sprintf("watch:brokers=%d", cs.Brokers))
		if sample {
			rep.Sample(cs)
		}
		if run.fail != "" {
			shr := cs
			known := run.key == "broker-put-of-stale-local-copy" || run.key == "grow-lost-to-refresh-before-persist"
			if !known {
				unknownFails++
			}
			if !known && unknownFails <= 2 { // timing-dependent known findings are not shrunk
				for pi := range shr.Phases {
					pi := pi
					shr.Phases[pi] = vShrink(shr.Phases[pi], func(ws []c21wWrite) bool {
						c2 := c21wCase{Brokers: cs.Brokers, Phases: append([][]c21wWrite{}, shr.Phases...)}
						c2.Phases[pi] = ws
						r2 := c21wExec(endpoints, cli, c2)
						return r2.harness == "" && r2.key == run.key
					})
				}
			}
			what := run.fail
			if !known && unknownFails <= 2 {
				if r2 := c21wExec(endpoints, cli, shr); r2.harness == "" && r2.key == run.key {
					what = r2.fail
				} else {
					shr = cs
				}
			}
			rep.Fail("acked-persist", run.key, what, shr)
		}
		coq = append(coq, c21wCoq(cs, run))
		jsons = append(jsons, string(canon))
	}
	if rc := vReplayCase(); rc != nil {
		var cs c21wCase
		if err := json.Unmarshal(rc, &cs); err != nil || len(cs.Phases) == 0 {
			t.Skip("replay case belongs to the other C21 stream")
		}
		runOne(cs, false)
	} else {
		corpus := []c21wCase{
			// two writes by other actors back-to-back, then silence, then an admin op on the third broker
			{Brokers: 3, Phases: [][]c21wWrite{{{Actor: "broker", B: 0, Op: "create", Topic: "x", N: 3}, {Actor: "broker", B: 0, Op: "grow", Topic: "x", N: 6}}}},
			{Brokers: 2, Phases: [][]c21wWrite{{{Actor: "operator", Crd: []c21Topic{{"x", 3}}}, {Actor: "operator", Crd: []c21Topic{{"x", 3}, {"y", 2}}}, {Actor: "operator", Crd: []c21Topic{{"z", 1}}}}}},
			{Brokers: 2, Phases: [][]c21wWrite{{{Actor: "broker", B: 0, Op: "create", Topic: "x", N: 1}, {Actor: "broker", B: 0, Op: "create", Topic: "y", N: 1, GapMs: 280}, {Actor: "broker", B: 0, Op: "grow", Topic: "y", N: 4, GapMs: 20}}}},
		}
		for _, cs := range corpus {
			runOne(cs, false)
		}
		r := vNewRand(vSeed() ^ 0x5151)
		n := vN(40, 400)
		for i := 0; i < n && unknownFails < 4; i++ { // a violating tree times out at every wait: stop early
			runOne(c21wGen(r.Fork()), true)
		}
	}
	rep.Cases("C21_watch", "From KS Require Import lib.Base model.Snapshot corr.SnapshotCorr.", "wcase", "check_wcase", coq, jsons)
	rep.WriteAs("C21_watch")
	if len(rep.Failures) > 0 {
		t.Logf("oracle failures: %s", strings.TrimSpace(rep.Failures[0].What))
	}
}
