package operator

// C21 harness: 1-3 real metadata.EtcdStore instances (built without their snapshot
// watcher; refreshSnapshot is an explicit step) and the real operator publish path
// (BuildClusterMetadata + PublishMetadataSnapshot + mergeSnapshots) share the snapshot
// key of one embedded etcd.  Steps: CreateTopic / CreatePartitions / DeleteTopic on a
// broker, a refresh of a broker, a CreatePartitions with a refresh of the same broker
// between its local growth and its put (the refresh is parked inside persistMu at its
// etcd Get by a gating KV wrapper), an operator publish from topic resources.
//
// Implementation-side oracle, after every step: every (topic, count) acknowledged by a
// nil return of CreateTopic/CreatePartitions and not deleted since by DeleteTopic is in
// the etcd snapshot with at least that many partitions; at the end, after a refresh,
// every broker's Metadata() equals the etcd snapshot.  A failure is classified by the
// step that caused it.  Correspondence: corr/SnapshotCorr.v.

import (
	"context"
	"encoding/json"
	"errors"
	"fmt"
	"net"
	"strings"
	"sync"
	"sync/atomic"
	"testing"
	"time"

	pb "go.etcd.io/etcd/api/v3/etcdserverpb"
	clientv3 "go.etcd.io/etcd/client/v3"
	"google.golang.org/grpc"
	metav1 "k8s.io/apimachinery/pkg/apis/meta/v1"

	kafscalev1alpha1 "github.com/KafScale/platform/api/v1alpha1"
	"github.com/KafScale/platform/internal/testutil"
	"github.com/KafScale/platform/pkg/metadata"
	"github.com/KafScale/platform/pkg/protocol"
)

const c21SnapshotKey = "/kafscale/metadata/snapshot"

type c21Topic struct {
	Name string `json:"name"`
	N    int32  `json:"n"`
}

type c21Step struct {
	Op    string     `json:"op"` // create grow grow_race delete refresh publish
	B     int        `json:"b,omitempty"`
	Topic string     `json:"topic,omitempty"`
	N     int32      `json:"n,omitempty"`
	Crd   []c21Topic `json:"crd,omitempty"`
	// publish only: broker steps committed between the operator's Get and its Txn;
	// Inner[i] runs while the (i+1)-th Txn of this publish is held back
	Inner []c21Step `json:"inner,omitempty"`
}

type c21Case struct {
	Brokers int       `json:"brokers"`
	Steps   []c21Step `json:"steps"`
}

// gating KV: parks the next Get of the snapshot key when armed
type c21KV struct {
	clientv3.KV
	hold    atomic.Bool
	reached chan struct{}
	release chan struct{}
}

func (k *c21KV) Get(ctx context.Context, key string, opts ...clientv3.OpOption) (*clientv3.GetResponse, error) {
	if key == c21SnapshotKey && k.hold.CompareAndSwap(true, false) {
		k.reached <- struct{}{}
		<-k.release
	}
	return k.KV.Get(ctx, key, opts...)
}

// In-process pass-through etcd KV endpoint for the operator: PublishMetadataSnapshot
// dials its own client from an endpoint list, so the harness gives it this proxy's
// address.  Range/Put/DeleteRange/Compact are forwarded unchanged; a Txn first calls
// the armed hook (with the 1-based number of the Txn since arming), which lets the
// schedule commit a broker operation between the operator's Get and its Txn.
type c21Proxy struct {
	pb.UnimplementedKVServer
	kv   pb.KVClient
	addr string
	mu   sync.Mutex
	hook func(n int)
	txns []bool // Succeeded of every Txn since arming
}

func (p *c21Proxy) Range(ctx context.Context, r *pb.RangeRequest) (*pb.RangeResponse, error) {
	return p.kv.Range(ctx, r)
}
func (p *c21Proxy) Put(ctx context.Context, r *pb.PutRequest) (*pb.PutResponse, error) {
	return p.kv.Put(ctx, r)
}
func (p *c21Proxy) DeleteRange(ctx context.Context, r *pb.DeleteRangeRequest) (*pb.DeleteRangeResponse, error) {
	return p.kv.DeleteRange(ctx, r)
}
func (p *c21Proxy) Compact(ctx context.Context, r *pb.CompactionRequest) (*pb.CompactionResponse, error) {
	return p.kv.Compact(ctx, r)
}
func (p *c21Proxy) Txn(ctx context.Context, r *pb.TxnRequest) (*pb.TxnResponse, error) {
	p.mu.Lock()
	n := len(p.txns) + 1
	h := p.hook
	p.mu.Unlock()
	if h != nil {
		h(n)
	}
	resp, err := p.kv.Txn(ctx, r)
	p.mu.Lock()
	p.txns = append(p.txns, err == nil && resp.Succeeded)
	p.mu.Unlock()
	return resp, err
}
func (p *c21Proxy) arm(h func(n int)) {
	p.mu.Lock()
	p.hook, p.txns = h, nil
	p.mu.Unlock()
}
func (p *c21Proxy) disarm() []bool {
	p.mu.Lock()
	defer p.mu.Unlock()
	p.hook = nil
	return p.txns
}

func c21StartProxy(t *testing.T, cli *clientv3.Client) *c21Proxy {
	lis, err := net.Listen("tcp", "127.0.0.1:0")
	if err != nil {
		t.Fatalf("proxy listen: %v", err)
	}
	p := &c21Proxy{kv: clientv3.RetryKVClient(cli), addr: lis.Addr().String()}
	srv := grpc.NewServer()
	pb.RegisterKVServer(srv, p)
	go func() { _ = srv.Serve(lis) }()
	t.Cleanup(srv.Stop)
	return p
}

type c21Snap []c21Topic

func c21Topics(ts []protocol.MetadataTopic) c21Snap {
	out := c21Snap{}
	for _, t := range ts {
		name := ""
		if t.Topic != nil {
			name = *t.Topic
		}
		out = append(out, c21Topic{name, int32(len(t.Partitions))})
	}
	return out
}

func c21Eq(a, b c21Snap) bool {
	if len(a) != len(b) {
		return false
	}
	for i := range a {
		if a[i] != b[i] {
			return false
		}
	}
	return true
}

func c21Has(s c21Snap, t string, n int32) bool {
	for _, e := range s {
		if e.Name == t && e.N >= n {
			return true
		}
	}
	return false
}

// the growth CreatePartitions applies, on a topic list (harness-side, for the classification only)
func c21Grow(s c21Snap, t string, n int32) (c21Snap, bool) {
	out := append(c21Snap{}, s...)
	for i := range out {
		if out[i].Name == t {
			if n <= out[i].N || t == "" {
				return nil, false
			}
			out[i].N = n
			return out, true
		}
	}
	return nil, false
}

func c21Code(err error) int {
	switch {
	case err == nil:
		return 0
	case errors.Is(err, metadata.ErrInvalidTopic):
		return 1
	case errors.Is(err, metadata.ErrTopicExists):
		return 2
	case errors.Is(err, metadata.ErrUnknownTopic):
		return 3
	}
	return 9
}

type c21Obs struct {
	events  []string
	code    int
	etcd    c21Snap
	present bool
	locals  []c21Snap
	acksOK  bool
	derived bool
}

type c21Env struct {
	endpoints []string // the proxy in front of the embedded etcd (operator side)
	cli       *clientv3.Client
	proxy     *c21Proxy
}

var (
	c21PublishTime time.Duration
	c21Publishes   int
)

type c21Run struct {
	obs     []c21Obs
	fail    string
	key     string
	tags    map[string]bool
	harness string
}

func c21Exec(env *c21Env, cs c21Case) (res c21Run) {
	res.tags = map[string]bool{}
	ctx := context.Background()
	if _, err := env.cli.Delete(ctx, c21SnapshotKey); err != nil {
		res.harness = err.Error()
		return
	}
	if cs.Brokers < 1 {
		cs.Brokers = 1
	}
	initial := metadata.ClusterMetadata{Brokers: []protocol.MetadataBroker{{NodeID: 0, Host: "b0", Port: 9092}}}
	stores := make([]*metadata.EtcdStore, cs.Brokers)
	kvs := make([]*c21KV, cs.Brokers)
	for i := range stores {
		rc := clientv3.NewCtxClient(ctx)
		kvs[i] = &c21KV{KV: env.cli.KV, reached: make(chan struct{}), release: make(chan struct{})}
		rc.KV = kvs[i]
		stores[i] = metadata.VerifNewEtcdStoreNoWatch(rc, initial)
	}
	readEtcd := func() (c21Snap, bool) {
		resp, err := env.cli.Get(ctx, c21SnapshotKey)
		if err != nil {
			res.harness = err.Error()
			return nil, false
		}
		if len(resp.Kvs) == 0 {
			return c21Snap{}, false
		}
		var snap metadata.ClusterMetadata
		if err := json.Unmarshal(resp.Kvs[0].Value, &snap); err != nil {
			res.harness = "snapshot in etcd does not parse: " + err.Error()
			return nil, false
		}
		return c21Topics(snap.Topics), true
	}
	local := func(b int) c21Snap {
		m, err := stores[b].Metadata(ctx, nil)
		if err != nil {
			res.harness = err.Error()
			return nil
		}
		return c21Topics(m.Topics)
	}
	type ack struct {
		t string
		n int32
	}
	var acks []ack
	addAck := func(t string, n int32) { acks = append(acks, ack{t, n}) }
	dropAcks := func(t string) {
		var keep []ack
		for _, a := range acks {
			if a.t != t {
				keep = append(keep, a)
			}
		}
		acks = keep
	}
	writers := map[int]bool{}
	// finish one observation group: state after it, oracle verdict, classification
	observe := func(o c21Obs, culprit, where string, etcdBefore c21Snap) bool {
		if len(writers) > 1 {
			res.tags["two-brokers-wrote"] = true
		}
		o.etcd, o.present = readEtcd()
		for i := range stores {
			o.locals = append(o.locals, local(i))
		}
		if res.harness != "" {
			return false
		}
		o.acksOK = true
		var lost []string
		for _, a := range acks {
			if !o.present || !c21Has(o.etcd, a.t, a.n) {
				o.acksOK = false
				lost = append(lost, fmt.Sprintf("%s/%d", a.t, a.n))
			}
		}
		if !o.derived {
			res.tags["non-derived-broker-put"] = true
		}
		res.obs = append(res.obs, o)
		if !o.acksOK && res.fail == "" {
			if culprit == "" {
				culprit = "acked-topic-lost-by-derived-broker-put"
			}
			res.key = culprit
			res.fail = fmt.Sprintf("%s: acknowledged and not deleted %s missing from the etcd snapshot %v (before: %v)",
				where, strings.Join(lost, ","), o.etcd, etcdBefore)
		}
		return true
	}
	var step func(si int, st c21Step, inner bool) bool
	step = func(si int, st c21Step, inner bool) bool {
		b := ((st.B % cs.Brokers) + cs.Brokers) % cs.Brokers
		etcdBefore, presentBefore := readEtcd()
		if res.harness != "" {
			return false
		}
		var o c21Obs
		o.derived = true
		culprit := ""
		where := fmt.Sprintf("step %d (%s broker %d %q %d)", si, st.Op, b, st.Topic, st.N)
		if inner {
			where = fmt.Sprintf("step %d, between the operator's Get and Txn (%s broker %d %q %d)", si, st.Op, b, st.Topic, st.N)
		}
		fresh := func() bool { return !presentBefore || c21Eq(local(b), etcdBefore) }
		switch st.Op {
		case "create":
			if !fresh() {
				o.derived, culprit = false, "broker-put-of-stale-local-copy"
			}
			_, err := stores[b].CreateTopic(ctx, metadata.TopicSpec{Name: st.Topic, NumPartitions: st.N, ReplicationFactor: 1})
			o.code = c21Code(err)
			o.events = []string{fmt.Sprintf("BCreate %d%%nat %s %s", b, cqStr(st.Topic), cqZ(int64(st.N)))}
			if err == nil {
				addAck(st.Topic, st.N)
				writers[b] = true
			}
		case "delete":
			if !fresh() {
				o.derived, culprit = false, "broker-put-of-stale-local-copy"
			}
			err := stores[b].DeleteTopic(ctx, st.Topic)
			o.code = c21Code(err)
			o.events = []string{fmt.Sprintf("BDelete %d%%nat %s", b, cqStr(st.Topic))}
			if err == nil {
				dropAcks(st.Topic)
				writers[b] = true
				res.tags["delete"] = true
			}
		case "grow":
			before := local(b)
			err := stores[b].CreatePartitions(ctx, st.Topic, st.N)
			o.code = c21Code(err)
			o.events = []string{fmt.Sprintf("BGrowLocal %d%%nat %s %s", b, cqStr(st.Topic), cqZ(int64(st.N)))}
			if err == nil {
				o.events = append(o.events, fmt.Sprintf("BGrowPersist %d%%nat", b))
				if presentBefore {
					want, ok1 := c21Grow(etcdBefore, st.Topic, st.N)
					put, ok2 := c21Grow(before, st.Topic, st.N)
					if !ok1 || !ok2 || !c21Eq(want, put) {
						o.derived, culprit = false, "broker-put-of-stale-local-copy"
					}
				}
				addAck(st.Topic, st.N)
				writers[b] = true
				res.tags["grow"] = true
			}
		case "grow_race":
			if inner {
				return true
			}
			// refreshSnapshot parked at its Get (holding persistMu), CreatePartitions runs
			// its local part and waits for persistMu, then the refresh completes
			kvs[b].hold.Store(true)
			refDone := make(chan error, 1)
			go func() { refDone <- stores[b].RefreshSnapshot(ctx) }()
			select {
			case <-kvs[b].reached:
			case <-time.After(5 * time.Second):
				res.harness = "refresh did not reach its Get"
				return false
			}
			growDone := make(chan error, 1)
			go func() { growDone <- stores[b].CreatePartitions(ctx, st.Topic, st.N) }()
			var gerr error
			early := false
			deadline := time.After(3 * time.Second)
		wait:
			for {
				select {
				case gerr = <-growDone:
					early = true
					break wait
				case <-deadline:
					res.harness = "CreatePartitions neither failed nor grew the local copy"
					return false
				default:
					if c21Has(local(b), st.Topic, st.N) {
						break wait
					}
					time.Sleep(time.Millisecond)
				}
			}
			if !early {
				time.Sleep(15 * time.Millisecond) // let CreatePartitions reach persistMu
			}
			kvs[b].release <- struct{}{}
			if err := <-refDone; err != nil {
				res.harness = "refresh: " + err.Error()
				return false
			}
			if !early {
				select {
				case gerr = <-growDone:
				case <-time.After(5 * time.Second):
					res.harness = "CreatePartitions stuck"
					return false
				}
			}
			o.code = c21Code(gerr)
			o.events = []string{fmt.Sprintf("BGrowLocal %d%%nat %s %s", b, cqStr(st.Topic), cqZ(int64(st.N))), fmt.Sprintf("BRefresh %d%%nat", b)}
			if gerr == nil {
				o.events = append(o.events, fmt.Sprintf("BGrowPersist %d%%nat", b))
				if presentBefore {
					o.derived, culprit = false, "grow-lost-to-refresh-before-persist"
				}
				addAck(st.Topic, st.N)
				writers[b] = true
				res.tags["grow-with-refresh-inside"] = true
			}
		case "refresh":
			err := stores[b].RefreshSnapshot(ctx)
			o.code = c21Code(err)
			o.events = []string{fmt.Sprintf("BRefresh %d%%nat", b)}
		case "publish":
			if inner {
				return true
			}
			one := int32(1)
			cluster := &kafscalev1alpha1.KafscaleCluster{ObjectMeta: metav1.ObjectMeta{Name: "c", Namespace: "ns"}}
			cluster.Spec.Brokers.Replicas = &one
			var topics []kafscalev1alpha1.KafscaleTopic
			var crd []string
			for _, ct := range st.Crd {
				topics = append(topics, kafscalev1alpha1.KafscaleTopic{ObjectMeta: metav1.ObjectMeta{Name: ct.Name, Namespace: "ns"},
					Spec: kafscalev1alpha1.KafscaleTopicSpec{ClusterRef: "c", Partitions: ct.N}})
				crd = append(crd, fmt.Sprintf("(%s, %s)", cqStr(ct.Name), cqZ(int64(ct.N))))
			}
			// model events of the operator since the last observation
			opEvents := []string{"OStart " + cqList(crd), "OGet"}
			hookOK := true
			hooked := 0
			env.proxy.arm(func(n int) {
				if n > len(st.Inner) || !hookOK {
					return
				}
				if n > 1 {
					opEvents = append(opEvents, "OTxn", "OGet") // the previous Txn lost; next attempt has read
				}
				// the operator has read; close its group, then commit the broker step
				g := c21Obs{events: opEvents, derived: true}
				opEvents = nil
				hooked = n
				if !observe(g, "operator-publish-loses-acked-topic", where, etcdBefore) || !step(si, st.Inner[n-1], true) {
					hookOK = false
				}
				etcdBefore, _ = readEtcd() // what the held-back Txn is about to overwrite
			})
			tPub := time.Now()
			err := PublishMetadataSnapshot(ctx, env.endpoints, BuildClusterMetadata(cluster, topics))
			c21PublishTime += time.Since(tPub)
			c21Publishes++
			txns := env.proxy.disarm()
			if !hookOK {
				return false
			}
			if len(txns) == 0 {
				res.harness = fmt.Sprintf("publish made no Txn (err=%v)", err)
				return false
			}
			// Txn number `hooked` (or 1 when no hook ran) has not been emitted yet
			first := hooked
			if first == 0 {
				first = 1
			}
			for k := first; k <= len(txns); k++ {
				if k > first {
					opEvents = append(opEvents, "OGet")
				}
				opEvents = append(opEvents, "OTxn")
			}
			switch {
			case err == nil:
				o.code = 0
			case strings.Contains(err.Error(), "snapshot update conflict"):
				o.code = 1
				res.tags["publish-gave-up-after-5-conflicts"] = true
			default:
				o.code = 9
			}
			o.events = opEvents
			culprit = "operator-publish-loses-acked-topic"
			res.tags["publish"] = true
			if len(writers) > 0 {
				res.tags["publish-after-broker-write"] = true
			}
			if hooked > 0 {
				res.tags["broker-step-between-operator-get-and-txn"] = true
			}
			if len(txns) > 1 {
				res.tags["publish-conflict-retry"] = true
			}
		default:
			return true
		}
		return observe(o, culprit, where, etcdBefore)
	}
	for si, st := range cs.Steps {
		if !step(si, st, false) {
			return
		}
	}
	// quiescence: every broker refreshes; its Metadata() must be the etcd snapshot
	final, present := readEtcd()
	for i := range stores {
		var o c21Obs
		o.derived = true
		o.code = c21Code(stores[i].RefreshSnapshot(ctx))
		o.events = []string{fmt.Sprintf("BRefresh %d%%nat", i)}
		o.etcd, o.present = final, present
		for j := range stores {
			o.locals = append(o.locals, local(j))
		}
		o.acksOK = true
		for _, a := range acks {
			if !present || !c21Has(final, a.t, a.n) {
				o.acksOK = false
			}
		}
		res.obs = append(res.obs, o)
		if present && !c21Eq(o.locals[i], final) && res.fail == "" {
			res.key = "broker-metadata-differs-after-refresh"
			res.fail = fmt.Sprintf("after quiescence broker %d Metadata() = %v, etcd snapshot = %v", i, o.locals[i], final)
		}
	}
	return
}

func c21SnapCoq(s c21Snap) string {
	items := make([]string, len(s))
	for i, e := range s {
		items[i] = fmt.Sprintf("(%s, %s)", cqStr(e.Name), cqZ(int64(e.N)))
	}
	return cqList(items)
}

func c21Coq(cs c21Case, r c21Run) string {
	steps := make([]string, len(r.obs))
	for i, o := range r.obs {
		locs := make([]string, len(o.locals))
		for j, l := range o.locals {
			locs[j] = c21SnapCoq(l)
		}
		steps[i] = fmt.Sprintf("mkSObs %s %d %s %s %s %s", cqList(o.events), o.code, cqOpt(o.present, c21SnapCoq(o.etcd)), cqList(locs), cqBool(o.acksOK), cqBool(o.derived))
	}
	b := cs.Brokers
	if b < 1 {
		b = 1
	}
	return fmt.Sprintf("mkCase %d%%nat %s", b, cqList(steps))
}

func c21Gen(r *vRand) c21Case {
	cs := c21Case{Brokers: r.Range(1, 3)}
	names := []string{"a", "b", "orders"}
	// names CreateTopic must reject (ValidTopicName) but that the operator can publish
	odd := []string{"", "a/b", "..", ".", "t:1", strings.Repeat("n", 250), "x.y-z_1", strings.Repeat("m", 249)}
	pick := func() string {
		if r.Chance(10) {
			return odd[r.Intn(len(odd))]
		}
		return names[r.Intn(len(names))]
	}
	n := r.Range(3, 12)
	for i := 0; i < n; i++ {
		b := r.Intn(cs.Brokers)
		switch x := r.Intn(100); {
		case x < 28:
			cs.Steps = append(cs.Steps, c21Step{Op: "create", B: b, Topic: pick(), N: int32(r.Range(0, 6))})
		case x < 46:
			cs.Steps = append(cs.Steps, c21Step{Op: "grow", B: b, Topic: pick(), N: int32(r.Range(1, 9))})
		case x < 52:
			cs.Steps = append(cs.Steps, c21Step{Op: "grow_race", B: b, Topic: pick(), N: int32(r.Range(2, 9))})
		case x < 60:
			cs.Steps = append(cs.Steps, c21Step{Op: "delete", B: b, Topic: pick()})
		case x < 85:
			cs.Steps = append(cs.Steps, c21Step{Op: "refresh", B: b})
		default:
			st := c21Step{Op: "publish"}
			used := map[string]bool{}
			for k := r.Intn(3); k >= 0; k-- {
				nm := names[r.Intn(len(names))]
				if r.Chance(10) {
					nm = "crd-only"
				} else if r.Chance(8) {
					nm = "a/b" // not a name a broker would create, but resources are not validated here
				}
				if used[nm] {
					continue
				}
				used[nm] = true
				st.Crd = append(st.Crd, c21Topic{nm, int32(r.Range(0, 6))})
			}
			if r.Chance(30) { // broker steps committed between the operator's Get and Txn (each conflict costs its 200 ms back-off)
				for k := 1 + r.Intn(4)/3; k > 0; k-- {
					ib := r.Intn(cs.Brokers)
					switch y := r.Intn(10); {
					case y < 5:
						st.Inner = append(st.Inner, c21Step{Op: "create", B: ib, Topic: pick(), N: int32(r.Range(1, 6))})
					case y < 8:
						st.Inner = append(st.Inner, c21Step{Op: "grow", B: ib, Topic: pick(), N: int32(r.Range(1, 9))})
					case y < 9:
						st.Inner = append(st.Inner, c21Step{Op: "delete", B: ib, Topic: pick()})
					default:
						st.Inner = append(st.Inner, c21Step{Op: "refresh", B: ib})
					}
				}
			}
			cs.Steps = append(cs.Steps, st)
		}
	}
	return cs
}

func TestVerifC21(t *testing.T) {
	t.Setenv(operatorEtcdSilenceLogsEnv, "true")
	rep := vNewReport("C21", "generated schedules (3-12 steps) over 1-3 real EtcdStores (no watcher; refresh is a step) and the real operator publish path on one embedded etcd: CreateTopic/CreatePartitions/DeleteTopic on a broker, refresh of a broker, CreatePartitions with a refresh of the same broker between local growth and put, operator publish from 1-3 topic resources, optionally with 1-2 broker steps committed between the operator's Get and its Txn (through a pass-through gRPC KV proxy that holds the Txn back), incl. the conflict retries; a case is non-trivial when two brokers wrote, or the operator published after a broker write, or a refresh ran inside a CreatePartitions, or a broker step ran between an operator Get and Txn; distinct = distinct canonical schedule")
	endpoints := testutil.StartEmbeddedEtcd(t)
	cli, err := clientv3.New(clientv3.Config{Endpoints: endpoints, DialTimeout: 5 * time.Second})
	if err != nil {
		t.Fatalf("etcd client: %v", err)
	}
	defer cli.Close()
	proxy := c21StartProxy(t, cli)
	env := &c21Env{endpoints: []string{proxy.addr}, cli: cli, proxy: proxy}
	var coq, jsons []string
	runOne := func(cs c21Case, sample bool) {
		run := c21Exec(env, cs)
		canon, _ := json.Marshal(cs)
		if run.harness != "" {
			t.Fatalf("harness problem in case %s: %s", canon, run.harness)
		}
		nt := run.tags["two-brokers-wrote"] || run.tags["publish-after-broker-write"] || run.tags["grow-with-refresh-inside"] || run.tags["broker-step-between-operator-get-and-txn"]
		rep.Count(string(canon), nt)
		for tg := range run.tags {
			rep.Hist(tg)
		}
		rep.Hist(fmt.Sprintf("brokers=%d", cs.Brokers))
		rep.Hist(fmt.Sprintf("steps<=%d", ((len(cs.Steps)+3)/4)*4))
		if sample {
			rep.Sample(cs)
		}
		if run.fail != "" {
			shr := cs
			shr.Steps = vShrink(cs.Steps, func(steps []c21Step) bool {
				r2 := c21Exec(env, c21Case{Brokers: cs.Brokers, Steps: steps})
				return r2.harness == "" && r2.fail != "" && r2.key == run.key
			})
			r2 := c21Exec(env, shr)
			if r2.fail == "" || r2.key != run.key {
				shr, r2 = cs, run
			}
			rep.Fail("acked-persist", r2.key, r2.fail, shr)
		}
		coq = append(coq, c21Coq(cs, run))
		jsons = append(jsons, string(canon))
	}
	if rc := vReplayCase(); rc != nil {
		var cs c21Case
		if err := json.Unmarshal(rc, &cs); err != nil {
			t.Fatalf("bad replay: %v", err)
		}
		runOne(cs, false)
	} else {
		corpus := []c21Case{
			// broker half: create x on A, create y on B before B refreshed -> x dropped
			{Brokers: 2, Steps: []c21Step{{Op: "create", B: 0, Topic: "x", N: 3}, {Op: "create", B: 1, Topic: "y", N: 1}}},
			// one broker: a watch-triggered refresh between CreatePartitions' local growth and its put
			{Brokers: 1, Steps: []c21Step{{Op: "create", B: 0, Topic: "x", N: 3}, {Op: "grow_race", B: 0, Topic: "x", N: 6}}},
			// operator half (design-round witness): grown to 6 by a broker, resource says 3
			{Brokers: 1, Steps: []c21Step{{Op: "create", B: 0, Topic: "x", N: 3}, {Op: "grow", B: 0, Topic: "x", N: 6}, {Op: "publish", Crd: []c21Topic{{"x", 3}}}}},
			{Brokers: 2, Steps: []c21Step{{Op: "publish", Crd: []c21Topic{{"x", 3}, {"y", 2}}}, {Op: "refresh", B: 0}, {Op: "grow", B: 0, Topic: "x", N: 5}, {Op: "refresh", B: 1}, {Op: "create", B: 1, Topic: "z", N: 1}, {Op: "publish", Crd: []c21Topic{{"y", 2}, {"x", 3}}}}},
		}
		corpus = append(corpus,
			// a broker CreateTopic / CreatePartitions commits between the operator's Get and its Txn:
			// the Txn must lose (ModRevision guard) and the retry must keep the broker's change
			c21Case{Brokers: 1, Steps: []c21Step{{Op: "create", B: 0, Topic: "x", N: 3}, {Op: "publish", Crd: []c21Topic{{"x", 3}},
				Inner: []c21Step{{Op: "create", B: 0, Topic: "y", N: 2}}}}},
			c21Case{Brokers: 2, Steps: []c21Step{{Op: "publish", Crd: []c21Topic{{"x", 3}}}, {Op: "refresh", B: 1}, {Op: "publish", Crd: []c21Topic{{"x", 3}, {"w", 1}},
				Inner: []c21Step{{Op: "grow", B: 1, Topic: "x", N: 7}, {Op: "create", B: 1, Topic: "y", N: 2}}}}},
			// five conflicts in a row: the publish gives up, nothing is overwritten
			c21Case{Brokers: 1, Steps: []c21Step{{Op: "create", B: 0, Topic: "x", N: 1}, {Op: "publish", Crd: []c21Topic{{"x", 1}},
				Inner: []c21Step{{Op: "create", B: 0, Topic: "t1", N: 1}, {Op: "create", B: 0, Topic: "t2", N: 1}, {Op: "create", B: 0, Topic: "t3", N: 1}, {Op: "create", B: 0, Topic: "t4", N: 1}, {Op: "create", B: 0, Topic: "t5", N: 1}}}}},
		)
		for _, cs := range corpus {
			runOne(cs, false)
		}
		r := vNewRand(vSeed())
		n := vN(200, 3000)
		for i := 0; i < n; i++ {
			runOne(c21Gen(r.Fork()), true)
		}
	}
	rep.Notes = append(rep.Notes, fmt.Sprintf("%d operator publishes took %v in total (each dials its own client; a lost Txn backs off 200 ms)", c21Publishes, c21PublishTime.Round(time.Millisecond)))
	rep.Cases("C21", "From KS Require Import lib.Base model.Snapshot corr.SnapshotCorr.", "case", "check_case", coq, jsons)
	rep.Write()
	if len(rep.Failures) > 0 {
		t.Logf("oracle failures: %s", strings.TrimSpace(rep.Failures[0].What))
	}
}
