//go:build verif

package metadata

// Verification hook (overlaid by /verif, never part of a normal build): an EtcdStore
// exactly as NewEtcdStore builds it, but on a caller-supplied client and without the
// initial refresh and the background snapshot watcher, so that a harness in another
// package can make refreshSnapshot an explicit step (through the exported
// RefreshSnapshot).

import clientv3 "go.etcd.io/etcd/client/v3"

func VerifNewEtcdStoreNoWatch(cli *clientv3.Client, snapshot ClusterMetadata) *EtcdStore {
	return &EtcdStore{
		client:    cli,
		metadata:  NewInMemoryStore(snapshot),
		available: 1,
	}
}
