package proxy

// C23 harness (SQL-proxy ACL, sql-processor/internal/proxy/acl.go): generated
// ACL{Allow, Deny} pattern lists (exact, "p*", "*", empty, blank, whitespace and case
// variants, glob metacharacters, malformed globs, duplicates) x all topics of the
// alphabet on the REAL ACL.Allows / AllowShowTopics. Oracle = the statement's clauses
// evaluated on the lists (one pattern matches one topic as the code defines it: "*",
// path.Match without error, or literal equality, after TrimSpace; blank patterns match
// nothing); monotonicity at equal default (non-empty allow list). path.Match results
// for the pairs involved are recorded and handed to the Coq model as a table.

import (
	"encoding/json"
	"fmt"
	"path"
	"strings"
	"testing"
)

type c23sCase struct {
	Kind     string   `json:"kind"` // "sql"
	Allow    []string `json:"allow"`
	Deny     []string `json:"deny"`
	AddAllow []string `json:"add_allow,omitempty"` // edit: these are inserted into Allow at AddPos
	AddDeny  []string `json:"add_deny,omitempty"`
	AddPos   int      `json:"add_pos"`
}

var (
	c23sTopics   = []string{"orders", "orders-eu", "ord", "payments", "*", "", "Orders", "a/b", "[x"}
	c23sPatterns = []string{"orders", "orders*", "o*", "*", "", "  ", " orders ", "Orders", "pay?ents", "[op]*", "[x", "a/*", "a*", "ord", "\\*", "**", "orders-eu", " * "}
)

func c23sPatMatch(p0, topic string) bool {
	p := strings.TrimSpace(p0)
	if p == "" {
		return false
	}
	if p == "*" {
		return true
	}
	if m, err := path.Match(p, topic); err == nil && m {
		return true
	}
	return p == topic
}

func c23sAny(ps []string, topic string) bool {
	for _, p := range ps {
		if c23sPatMatch(p, topic) {
			return true
		}
	}
	return false
}

func c23sInsert(l []string, pos int, add []string) []string {
	if pos < 0 || pos > len(l) {
		pos = len(l)
	}
	out := append([]string(nil), l[:pos]...)
	out = append(out, add...)
	return append(out, l[pos:]...)
}

type c23sRes struct {
	show      bool
	obs       []bool
	show2     bool
	obs2      []bool
	al2, dn2  []string
	fail, key string
	tags      map[string]bool
}

func c23sRun(c c23sCase) c23sRes {
	res := c23sRes{tags: map[string]bool{}}
	setFail := func(k, f string) {
		if res.fail == "" {
			res.fail, res.key = f, k
		}
	}
	a := ACL{Allow: c.Allow, Deny: c.Deny}
	res.show = a.AllowShowTopics()
	for _, t := range c23sTopics {
		got := a.Allows(t)
		res.obs = append(res.obs, got)
		var want bool
		var clause string
		switch {
		case c23sAny(c.Deny, t):
			want, clause = false, "deny-overrides"
		case c23sAny(c.Allow, t):
			want, clause = true, "allow-then-default"
		default:
			want, clause = len(c.Allow) == 0, "default"
		}
		res.tags[clause] = true
		if got != want {
			setFail("sql-"+clause, fmt.Sprintf("clause %s: ACL{Allow:%q,Deny:%q}.Allows(%q) = %v, the statement demands %v", clause, c.Allow, c.Deny, t, got, want))
		}
	}
	if len(c.AddAllow) > 0 || len(c.AddDeny) > 0 {
		res.al2 = c23sInsert(c.Allow, c.AddPos, c.AddAllow)
		res.dn2 = c23sInsert(c.Deny, c.AddPos, c.AddDeny)
		b := ACL{Allow: res.al2, Deny: res.dn2}
		res.show2 = b.AllowShowTopics()
		sameDefault := (len(c.Allow) == 0) == (len(res.al2) == 0)
		for i, t := range c23sTopics {
			got2 := b.Allows(t)
			res.obs2 = append(res.obs2, got2)
			if got2 != res.obs[i] {
				res.tags["edit-changed-answer"] = true
			}
			if len(c.AddDeny) == 0 && sameDefault && res.obs[i] && !got2 {
				setFail("sql-add-allow-monotone", fmt.Sprintf("adding allow %q removed access to %q", c.AddAllow, t))
			}
			if len(c.AddAllow) == 0 && !res.obs[i] && got2 {
				setFail("sql-add-deny-antitone", fmt.Sprintf("adding deny %q granted access to %q", c.AddDeny, t))
			}
		}
		if len(c.AddDeny) == 0 && sameDefault && res.show && !res.show2 {
			setFail("sql-add-allow-monotone", fmt.Sprintf("adding allow %q removed SHOW TOPICS", c.AddAllow))
		}
		if len(c.AddAllow) == 0 && !res.show && res.show2 {
			setFail("sql-add-deny-antitone", fmt.Sprintf("adding deny %q granted SHOW TOPICS", c.AddDeny))
		}
		if !sameDefault {
			res.tags["edit-flips-default"] = true
		}
	}
	return res
}

func c23sGen(r *vRand) c23sCase {
	pick := func(maxN int) []string {
		n := r.Range(0, maxN)
		var out []string
		for i := 0; i < n; i++ {
			out = append(out, c23sPatterns[r.Intn(len(c23sPatterns))])
		}
		return out
	}
	c := c23sCase{Allow: pick(4), Deny: pick(3)}
	if r.Chance(70) {
		c.AddPos = r.Range(0, 4)
		add := []string{c23sPatterns[r.Intn(len(c23sPatterns))]}
		if r.Chance(20) {
			add = append(add, c23sPatterns[r.Intn(len(c23sPatterns))])
		}
		if r.Bool() {
			c.AddAllow = add
		} else {
			c.AddDeny = add
		}
	}
	return c
}

func c23sStrs(ss []string) string {
	items := make([]string, len(ss))
	for i, s := range ss {
		items[i] = cqStr(s)
	}
	return cqList(items)
}

func c23sCoq(al, dn []string, show bool, obs []bool) string {
	// table of the real path.Match for every (trimmed non-blank pattern, topic or "*") pair
	seen := map[string]bool{}
	var tbl []string
	topics := append(append([]string(nil), c23sTopics...), "*")
	for _, p0 := range append(append([]string(nil), al...), dn...) {
		p := strings.TrimSpace(p0)
		if p == "" {
			continue
		}
		for _, t := range topics {
			k := p + "\x00" + t
			if seen[k] {
				continue
			}
			seen[k] = true
			m, err := path.Match(p, t)
			tbl = append(tbl, fmt.Sprintf("(%s, %s, %s)", cqStr(p), cqStr(t), cqBool(err == nil && m)))
		}
	}
	reqs := make([]string, len(obs))
	for i, o := range obs {
		reqs[i] = fmt.Sprintf("(%s, %s)", cqStr(c23sTopics[i]), cqBool(o))
	}
	return fmt.Sprintf("mkS %s %s %s %s %s", c23sStrs(al), c23sStrs(dn), cqList(tbl), cqBool(show), cqList(reqs))
}

func TestVerifC23Sql(t *testing.T) {
	rep := vNewReport("C23", "SQL-proxy ACL: generated Allow (0-4) / Deny (0-3) pattern lists over 18 patterns (exact, p*, *, empty, blank, whitespace/case variants, ?, [..] classes, malformed '[x', escaped star, double star) x all 9 topics (incl. '*', '', 'a/b', '[x') + AllowShowTopics, plus one generated edit (insert 1-2 allow or deny patterns at any position); non-trivial = at least two different clauses decide topics of the case; distinct = distinct canonical JSON")
	var coq, jsons []string
	runOne := func(c c23sCase) {
		c.Kind = "sql"
		res := c23sRun(c)
		canon, _ := json.Marshal(c)
		clauses := 0
		for _, k := range []string{"deny-overrides", "allow-then-default", "default"} {
			if res.tags[k] {
				clauses++
			}
		}
		rep.Count(string(canon), clauses >= 2)
		for tg := range res.tags {
			rep.Hist("sql:" + tg)
		}
		rep.Sample(c)
		if res.fail != "" {
			shr := c
			shr.Allow = vShrink(c.Allow, func(l []string) bool {
				x := c
				x.Allow, x.AddPos = l, 0
				r := c23sRun(x)
				return r.fail != "" && r.key == res.key
			})
			if len(shr.Allow) < len(c.Allow) {
				shr.AddPos = 0
			}
			c2 := shr
			shr.Deny = vShrink(c2.Deny, func(l []string) bool {
				x := c2
				x.Deny, x.AddPos = l, 0
				r := c23sRun(x)
				return r.fail != "" && r.key == res.key
			})
			if len(shr.Deny) < len(c2.Deny) {
				shr.AddPos = 0
			}
			r2 := c23sRun(shr)
			if r2.fail == "" || r2.key != res.key {
				shr, r2 = c, res
			}
			rep.Fail(res.key, res.key, r2.fail, shr)
		}
		coq = append(coq, c23sCoq(c.Allow, c.Deny, res.show, res.obs))
		jsons = append(jsons, string(canon))
		if res.obs2 != nil {
			c2 := c23sCase{Allow: res.al2, Deny: res.dn2}
			canon2, _ := json.Marshal(c2)
			coq = append(coq, c23sCoq(res.al2, res.dn2, res.show2, res.obs2))
			jsons = append(jsons, string(canon2))
		}
	}
	if rc := vReplayCase(); rc != nil {
		var c c23sCase
		if err := json.Unmarshal(rc, &c); err != nil {
			t.Fatalf("bad replay: %v", err)
		}
		if c.Kind == "sql" {
			runOne(c)
		}
	} else {
		corpus := []c23sCase{
			{Allow: []string{"orders"}, Deny: []string{"orders"}},
			{Allow: nil, Deny: []string{"pay*"}, AddAllow: []string{"orders"}},          // default flips: scoped out of the monotonicity clause
			{Allow: []string{"  "}, Deny: nil, AddAllow: []string{"*"}, AddPos: 1},      // blank-only allow list: default is deny
			{Allow: []string{"[x"}, Deny: []string{"a/*"}, AddDeny: []string{" * "}},    // malformed glob falls back to literal equality
		}
		for _, c := range corpus {
			runOne(c)
		}
		r := vNewRand(vSeed() ^ 0x5a17)
		n := vN(300, 3000)
		for i := 0; i < n; i++ {
			runOne(c23sGen(r.Fork()))
		}
	}
	rep.Cases("C23_sql", "From KS Require Import lib.Base model.Acl corr.AclCorr.", "scase", "check_scase", coq, jsons)
	rep.WriteAs("C23_sql")
	if len(rep.Failures) > 0 {
		t.Logf("oracle failures: %s", strings.TrimSpace(rep.Failures[0].What))
	}
}
