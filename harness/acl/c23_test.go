package acl

// C23 harness (broker authorizer, pkg/acl): generated configurations over an alphabet
// of principals x actions x resources x name patterns (exact, "p*", "*", empty, case
// and whitespace variants, duplicate principal entries), every request of the
// request alphabet asked of the REAL NewAuthorizer/Allows. The implementation-side
// oracle checks the clauses of the statement directly on the configuration (whether one rule
// matches one request is decided by the harness's own reference matcher c23RefMatches):
// deny-overrides, allow-then-default, unknown-default, and -- on an edited copy of the
// configuration -- add-allow-monotone / add-deny-antitone. Every configuration and
// the observed answers are emitted for the Coq correspondence check (corr/AclCorr.v).

import (
	"encoding/json"
	"fmt"
	"strings"
	"testing"
)

type c23Rule struct {
	A string `json:"a"`
	R string `json:"r"`
	N string `json:"n"`
}
type c23Entry struct {
	Name  string    `json:"name"`
	Allow []c23Rule `json:"allow,omitempty"`
	Deny  []c23Rule `json:"deny,omitempty"`
}
type c23Add struct {
	Kind  string   `json:"kind"` // allow-rule | allow-entry | deny-rule | deny-entry
	Entry int      `json:"entry"`
	Pos   int      `json:"pos"`
	Name  string   `json:"name,omitempty"`
	Rule  c23Rule  `json:"rule"`
}
type c23Case struct {
	Kind    string     `json:"kind"` // "broker"
	Enabled bool       `json:"enabled"`
	Default string     `json:"default"`
	Entries []c23Entry `json:"entries"`
	Add     *c23Add    `json:"add,omitempty"`
}

var (
	// request alphabet = FULL product: every action x every resource kind acl.go defines (topic,
	// group, cluster; case variant), an unknown and the empty resource x names that do / do not
	// match each rule pattern, the empty name, "*", and "cluster" (the literal name the broker
	// passes for cluster requests, cmd/broker allowCluster)
	c23ReqPrincipals = []string{"alice", " alice ", "bob", "", "carol"}
	c23ReqActions    = []string{"produce", "FETCH", "admin", "group_write"}
	c23ReqResources  = []string{"topic", "Group", "cluster", "txn", ""}
	c23ReqNames      = []string{"orders", "orders-eu", "ord", "", "*", "cluster", "staging"}

	c23EntryNames   = []string{"alice", "alice", " alice", "alice\t", "bob", "anonymous", "", "  ", "Alice", "carol "}
	c23RuleActions  = []string{"", "*", "produce", "Produce", "fetch", "admin", "group_read", " produce"}
	c23RuleRes      = []string{"", "*", "topic", "TOPIC", "group", "cluster", "Cluster", "txn"}
	c23RuleNames    = []string{"", "*", "orders", "orders*", "o*", " orders ", "ord**", "Orders", "**", "orders-eu", "ord", " * ", "cluster", "staging", "tmp-*", "c*", "orders-*"}
	c23Defaults     = []string{"allow", "deny", "ALLOW", " Allow ", "", "bogus", "allow "}
)

func (c c23Case) config(entries []c23Entry) Config {
	cfg := Config{Enabled: c.Enabled, DefaultPolicy: c.Default}
	for _, e := range entries {
		pr := PrincipalRules{Name: e.Name}
		for _, r := range e.Allow {
			pr.Allow = append(pr.Allow, Rule{Action: Action(r.A), Resource: Resource(r.R), Name: r.N})
		}
		for _, r := range e.Deny {
			pr.Deny = append(pr.Deny, Rule{Action: Action(r.A), Resource: Resource(r.R), Name: r.N})
		}
		cfg.Principals = append(cfg.Principals, pr)
	}
	return cfg
}

// edited applies the "add one rule / one entry" edit; nil if the edit does not apply.
func (c c23Case) edited() []c23Entry {
	if c.Add == nil {
		return nil
	}
	ad := c.Add
	out := make([]c23Entry, 0, len(c.Entries)+1)
	for _, e := range c.Entries {
		out = append(out, c23Entry{Name: e.Name, Allow: append([]c23Rule(nil), e.Allow...), Deny: append([]c23Rule(nil), e.Deny...)})
	}
	ins := func(l []c23Rule, pos int, r c23Rule) []c23Rule {
		if pos < 0 || pos > len(l) {
			pos = len(l)
		}
		res := append([]c23Rule(nil), l[:pos]...)
		res = append(res, r)
		return append(res, l[pos:]...)
	}
	switch ad.Kind {
	case "allow-rule", "deny-rule":
		if ad.Entry < 0 || ad.Entry >= len(out) {
			return nil
		}
		if ad.Kind == "allow-rule" {
			out[ad.Entry].Allow = ins(out[ad.Entry].Allow, ad.Pos, ad.Rule)
		} else {
			out[ad.Entry].Deny = ins(out[ad.Entry].Deny, ad.Pos, ad.Rule)
		}
	case "allow-entry", "deny-entry":
		pos := ad.Pos
		if pos < 0 || pos > len(out) {
			pos = len(out)
		}
		ne := c23Entry{Name: ad.Name}
		if ad.Kind == "allow-entry" {
			ne.Allow = []c23Rule{ad.Rule}
		} else {
			ne.Deny = []c23Rule{ad.Rule}
		}
		res := append([]c23Entry(nil), out[:pos]...)
		res = append(res, ne)
		out = append(res, out[pos:]...)
	default:
		return nil
	}
	return out
}

type c23Req struct{ p, a, r, n string }

func c23Requests() []c23Req {
	var out []c23Req
	for _, p := range c23ReqPrincipals {
		for _, a := range c23ReqActions {
			for _, r := range c23ReqResources {
				for _, n := range c23ReqNames {
					out = append(out, c23Req{p, a, r, n})
				}
			}
		}
	}
	return out
}

func c23Norm(p string) string {
	p = strings.TrimSpace(p)
	if p == "" {
		return "anonymous"
	}
	return p
}

func c23HasDup(entries []c23Entry) bool {
	seen := map[string]bool{}
	for _, e := range entries {
		k := strings.TrimSpace(e.Name)
		if k == "" {
			continue
		}
		if seen[k] {
			return true
		}
		seen[k] = true
	}
	return false
}

// c23RefMatches is the harness's OWN reading of "a rule matches a request" (the statement's
// exact / prefix-wildcard / star patterns, "" and "*" as wildcards for action and resource,
// case-insensitive action and resource words, the rule name trimmed): the oracle must not ask
// the code under test whether a rule matches.
func c23RefMatches(r c23Rule, q c23Req) bool {
	word := func(rule, w string) bool { return rule == "" || rule == "*" || strings.EqualFold(rule, w) }
	if !word(r.A, q.a) || !word(r.R, q.r) {
		return false
	}
	n := strings.TrimSpace(r.N)
	switch {
	case n == "" || n == "*":
		return true
	case strings.HasSuffix(n, "*"):
		return strings.HasPrefix(q.n, n[:len(n)-1])
	default:
		return n == q.n
	}
}

// c23Expected evaluates the statement's clauses on the configuration itself.
// clause: which clause decided.
func c23Expected(c c23Case, entries []c23Entry, q c23Req) (bool, string) {
	if !c.Enabled {
		return true, "disabled"
	}
	k := c23Norm(q.p)
	known, denyHit, allowHit := false, false, false
	for _, e := range entries {
		if strings.TrimSpace(e.Name) != k {
			continue
		}
		known = true
		for _, r := range e.Deny {
			if c23RefMatches(r, q) {
				denyHit = true
			}
		}
		for _, r := range e.Allow {
			if c23RefMatches(r, q) {
				allowHit = true
			}
		}
	}
	def := strings.EqualFold(strings.TrimSpace(c.Default), "allow")
	switch {
	case denyHit:
		return false, "deny-overrides"
	case allowHit:
		return true, "allow-then-default"
	case !known:
		return def, "unknown-default"
	default:
		return def, "allow-then-default"
	}
}

type c23Result struct {
	obs, obs2 []bool
	ed        []c23Entry
	fail, key string
	tags      map[string]bool
}

func c23Run(c c23Case) c23Result {
	res := c23Result{tags: map[string]bool{}}
	reqs := c23Requests()
	a := NewAuthorizer(c.config(c.Entries))
	setFail := func(k, f string) {
		if res.fail == "" {
			res.fail, res.key = f, k
		}
	}
	dupSuffix := func(es []c23Entry) string {
		if c23HasDup(es) {
			return "/duplicate-principal"
		}
		return ""
	}
	for _, q := range reqs {
		got := a.Allows(q.p, Action(q.a), Resource(q.r), q.n)
		res.obs = append(res.obs, got)
		want, clause := c23Expected(c, c.Entries, q)
		res.tags[clause] = true
		if got != want {
			setFail(clause+dupSuffix(c.Entries), fmt.Sprintf("clause %s: Allows(%q,%q,%q,%q) = %v, the statement demands %v", clause, q.p, q.a, q.r, q.n, got, want))
		}
	}
	if ed := c.edited(); ed != nil {
		res.ed = ed
		b := NewAuthorizer(c.config(ed))
		allowEdit := strings.HasPrefix(c.Add.Kind, "allow")
		for i, q := range reqs {
			got2 := b.Allows(q.p, Action(q.a), Resource(q.r), q.n)
			res.obs2 = append(res.obs2, got2)
			if res.obs[i] != got2 {
				res.tags["edit-changed-answer"] = true
			}
			if allowEdit && res.obs[i] && !got2 {
				setFail("add-allow-monotone"+dupSuffix(ed), fmt.Sprintf("adding %s %+v removed access: Allows(%q,%q,%q,%q) true -> false", c.Add.Kind, c.Add.Rule, q.p, q.a, q.r, q.n))
			}
			if !allowEdit && !res.obs[i] && got2 {
				setFail("add-deny-antitone"+dupSuffix(ed), fmt.Sprintf("adding %s %+v granted access: Allows(%q,%q,%q,%q) false -> true", c.Add.Kind, c.Add.Rule, q.p, q.a, q.r, q.n))
			}
		}
	}
	if c23HasDup(c.Entries) {
		res.tags["duplicate-principal"] = true
	}
	return res
}

func c23GenRule(r *vRand) c23Rule {
	return c23Rule{A: c23RuleActions[r.Intn(len(c23RuleActions))], R: c23RuleRes[r.Intn(len(c23RuleRes))], N: c23RuleNames[r.Intn(len(c23RuleNames))]}
}

func c23Gen(r *vRand) c23Case {
	c := c23Case{Enabled: !r.Chance(5), Default: c23Defaults[r.Intn(len(c23Defaults))]}
	ne := r.Range(0, 4)
	for i := 0; i < ne; i++ {
		e := c23Entry{Name: c23EntryNames[r.Intn(len(c23EntryNames))]}
		for k := r.Range(0, 3); k > 0; k-- {
			e.Allow = append(e.Allow, c23GenRule(r))
		}
		for k := r.Range(0, 2); k > 0; k-- {
			e.Deny = append(e.Deny, c23GenRule(r))
		}
		c.Entries = append(c.Entries, e)
	}
	if r.Chance(70) {
		kinds := []string{"allow-rule", "allow-entry", "deny-rule", "deny-entry"}
		ad := &c23Add{Kind: kinds[r.Intn(4)], Rule: c23GenRule(r), Name: c23EntryNames[r.Intn(len(c23EntryNames))]}
		if strings.HasSuffix(ad.Kind, "rule") {
			if ne == 0 {
				ad.Kind = strings.Replace(ad.Kind, "rule", "entry", 1)
			} else {
				ad.Entry = r.Intn(ne)
			}
		}
		ad.Pos = r.Range(0, 4)
		c.Add = ad
	}
	return c
}

func c23CoqRules(rs []c23Rule) string {
	items := make([]string, len(rs))
	for i, r := range rs {
		items[i] = fmt.Sprintf("mkRule %s %s %s", cqStr(r.A), cqStr(r.R), cqStr(r.N))
	}
	return cqList(items)
}

func c23CoqStrs(ss []string) string {
	items := make([]string, len(ss))
	for i, s := range ss {
		items[i] = cqStr(s)
	}
	return cqList(items)
}

func c23Coq(c c23Case, entries []c23Entry, obs []bool) string {
	es := make([]string, len(entries))
	for i, e := range entries {
		es[i] = fmt.Sprintf("mkEntry %s %s %s", cqStr(e.Name), c23CoqRules(e.Allow), c23CoqRules(e.Deny))
	}
	ob := make([]string, len(obs))
	for i, o := range obs {
		ob[i] = cqBool(o)
	}
	return fmt.Sprintf("mkB (mkConfig %s %s %s) %s %s %s %s %s", cqBool(c.Enabled), cqStr(c.Default), cqList(es),
		c23CoqStrs(c23ReqPrincipals), c23CoqStrs(c23ReqActions), c23CoqStrs(c23ReqResources), c23CoqStrs(c23ReqNames), cqList(ob))
}

// c23Shrink removes entries and rules while the same failure class persists.
func c23Shrink(c c23Case, key string) c23Case {
	still := func(x c23Case) bool { r := c23Run(x); return r.fail != "" && r.key == key }
	cur := c
	if cur.Add == nil || strings.HasSuffix(cur.Add.Kind, "entry") {
		ents := vShrink(cur.Entries, func(es []c23Entry) bool { x := cur; x.Entries = es; return still(x) })
		cur.Entries = ents
	}
	for i := range cur.Entries {
		i := i
		al := vShrink(cur.Entries[i].Allow, func(rs []c23Rule) bool {
			x := cur
			x.Entries = append([]c23Entry(nil), cur.Entries...)
			x.Entries[i].Allow = rs
			if x.Add != nil {
				a := *x.Add
				a.Pos = 0
				x.Add = &a
			}
			return still(x)
		})
		if len(al) < len(cur.Entries[i].Allow) {
			cur.Entries = append([]c23Entry(nil), cur.Entries...)
			cur.Entries[i].Allow = al
			if cur.Add != nil {
				a := *cur.Add
				a.Pos = 0
				cur.Add = &a
			}
		}
		dn := vShrink(cur.Entries[i].Deny, func(rs []c23Rule) bool {
			x := cur
			x.Entries = append([]c23Entry(nil), cur.Entries...)
			x.Entries[i].Deny = rs
			if x.Add != nil {
				a := *x.Add
				a.Pos = 0
				x.Add = &a
			}
			return still(x)
		})
		if len(dn) < len(cur.Entries[i].Deny) {
			cur.Entries = append([]c23Entry(nil), cur.Entries...)
			cur.Entries[i].Deny = dn
			if cur.Add != nil {
				a := *cur.Add
				a.Pos = 0
				cur.Add = &a
			}
		}
	}
	if !still(cur) {
		return c
	}
	return cur
}

func TestVerifC23(t *testing.T) {
	rep := vNewReport("C23", "broker authorizer: generated acl.Config (0-4 principal entries incl. duplicates / whitespace variants / blank names, 0-3 allow and 0-2 deny rules each over actions x resources x name patterns exact, p*, *, empty, case and whitespace variants, double star; 7 default-policy spellings; ACL on/off) x ALL 700 requests of the request alphabet (5 principals x 4 actions x 5 resources incl. cluster / unknown / empty x 7 names incl. 'cluster'), plus one generated edit (add allow/deny rule or entry at any position) per case; non-trivial = at least two different clauses decide requests of the case and (if edited) the edit changes an answer or the config has a duplicate principal; distinct = distinct canonical JSON")
	var coq, jsons []string
	runOne := func(c c23Case) {
		c.Kind = "broker"
		res := c23Run(c)
		canon, _ := json.Marshal(c)
		clauses := 0
		for _, k := range []string{"deny-overrides", "allow-then-default", "unknown-default"} {
			if res.tags[k] {
				clauses++
			}
		}
		nt := clauses >= 2 && (c.Add == nil || res.tags["edit-changed-answer"] || res.tags["duplicate-principal"])
		rep.Count(string(canon), nt)
		for tg := range res.tags {
			rep.Hist(tg)
		}
		if c.Add != nil {
			rep.Hist("edit:" + c.Add.Kind)
		}
		rep.Hist(fmt.Sprintf("entries=%d", len(c.Entries)))
		rep.Sample(c)
		if res.fail != "" {
			shr := c23Shrink(c, res.key)
			r2 := c23Run(shr)
			rep.Fail(strings.SplitN(res.key, "/", 2)[0], res.key, r2.fail, shr)
		}
		coq = append(coq, c23Coq(c, c.Entries, res.obs))
		jsons = append(jsons, string(canon))
		if res.ed != nil {
			c2 := c
			c2.Entries, c2.Add = res.ed, nil
			canon2, _ := json.Marshal(c2)
			coq = append(coq, c23Coq(c2, res.ed, res.obs2))
			jsons = append(jsons, string(canon2))
		}
	}
	if rc := vReplayCase(); rc != nil {
		var c c23Case
		if err := json.Unmarshal(rc, &c); err != nil {
			t.Fatalf("bad replay: %v", err)
		}
		if c.Kind == "broker" {
			runOne(c)
		}
	} else {
		all := c23Rule{A: "*", R: "*", N: "*"}
		corpus := []c23Case{
			// design-round finding: same principal twice, deny in the first entry, allow in the second
			{Enabled: true, Default: "deny", Entries: []c23Entry{{Name: "alice", Deny: []c23Rule{all}}, {Name: "alice", Allow: []c23Rule{all}}}},
			// names differing only by surrounding whitespace
			{Enabled: true, Default: "allow", Entries: []c23Entry{{Name: "alice", Deny: []c23Rule{{A: "produce", R: "topic", N: "orders*"}}}, {Name: " alice\t", Allow: []c23Rule{{A: "fetch", R: "topic", N: "orders"}}}}},
			// "adding an allow entry" for a principal that has a deny entry
			{Enabled: true, Default: "allow", Entries: []c23Entry{{Name: "alice", Deny: []c23Rule{all}}}, Add: &c23Add{Kind: "allow-entry", Pos: 1, Name: "alice", Rule: c23Rule{A: "fetch", R: "group", N: "zzz"}}},
			// "adding a deny entry" for a principal that only had a deny-all entry: must not grant
			{Enabled: true, Default: "allow", Entries: []c23Entry{{Name: "alice", Deny: []c23Rule{all}}}, Add: &c23Add{Kind: "deny-entry", Pos: 1, Name: "alice", Rule: c23Rule{A: "fetch", R: "group", N: "zzz"}}},
			{Enabled: true, Default: "deny", Entries: []c23Entry{{Name: "anonymous", Allow: []c23Rule{{A: "", R: "", N: "ord**"}}}, {Name: "", Allow: []c23Rule{all}}}},
			{Enabled: false, Default: "deny", Entries: []c23Entry{{Name: "alice", Deny: []c23Rule{all}}}},
			// cluster requests are scoped by the rule's name pattern like any other request
			{Enabled: true, Default: "deny", Entries: []c23Entry{{Name: "alice", Allow: []c23Rule{{A: "*", R: "*", N: "orders-*"}}}}},
			{Enabled: true, Default: "allow", Entries: []c23Entry{{Name: "alice", Deny: []c23Rule{{A: "", R: "", N: "tmp-*"}}}}},
			{Enabled: true, Default: "deny", Entries: []c23Entry{{Name: "alice", Allow: []c23Rule{{A: "admin", R: "cluster", N: "staging"}}}, {Name: "bob", Allow: []c23Rule{{A: "admin", R: "cluster", N: "cluster"}}}}},
		}
		for _, c := range corpus {
			runOne(c)
		}
		r := vNewRand(vSeed())
		n := vN(120, 1500)
		for i := 0; i < n; i++ {
			runOne(c23Gen(r.Fork()))
		}
	}
	rep.Cases("C23_broker", "From KS Require Import lib.Base model.Acl corr.AclCorr.", "bcase", "check_bcase", coq, jsons)
	rep.WriteAs("C23_broker")
	if len(rep.Failures) > 0 {
		t.Logf("oracle failures: %s", strings.TrimSpace(rep.Failures[0].What))
	}
}
