package console

// C38 harness: generated histories of login (good / bad / malformed / wrong method,
// several client addresses), logout, protected request, session probe and clock
// advance events are driven through the real NewMux handler (httptest recorder)
// inside a testing/synctest bubble, so time.Now is virtual and exact.  Cookies are
// drawn from {none, empty, token of an earlier login (possibly expired or logged
// out), the same token quoted, forged, junk, two cookies}.  Implementation-side
// oracle: a protected request is answered iff its (parsed) cookie is a token issued
// by a successful login, not logged out since, and at most ttl old; in every
// sliding window at most `limit` attempts per address get past the limiter; every
// route of the regenerated route table answers 401 without a session unless it is
// one of the public ones.  Every request also carries client-controlled inputs other
// than the session cookie (forwarding headers, Host, Origin, Authorization, query-string
// and header tokens, other cookie names): the client address that bounds login attempts
// is the connection's peer address (RemoteAddr), and only the session cookie carries a
// session.  Every history is emitted as a Coq term for corr/ConsoleCorr.v.

import (
	"context"
	"encoding/json"
	"fmt"
	"net"
	"net/http"
	"net/http/httptest"
	"os"
	"path/filepath"
	"strings"
	"testing"
	"testing/synctest"
	"time"
)

type c38Ev struct {
	Kind   string `json:"kind"`             // login logout request session advance
	IP     string `json:"ip,omitempty"`     // RemoteAddr
	Login  string `json:"login,omitempty"`  // good bad empty malformed get
	Post   bool   `json:"post,omitempty"`   // logout method
	Cookie string `json:"cookie,omitempty"` // none empty tok quoted forged junk double
	Ref    int    `json:"ref,omitempty"`    // tok/quoted/double: index among the successful logins so far (mod count)
	D      int64  `json:"d,omitempty"`      // advance, nanoseconds
	// client-controlled inputs other than the session cookie that an implementation might
	// consult: xff-single xff-rotating xff-list xff-spoof xff-malformed x-real-ip forwarded
	// host origin auth-bearer auth-basic query-token hdr-token cookie-other-name
	Extra []string `json:"extra,omitempty"`
}
type c38Case struct {
	Enabled bool    `json:"enabled"`
	Events  []c38Ev `json:"events"`
}

const (
	c38User = "admin"
	c38Pass = "s3cret"
)

type c38Result struct {
	coqEvents  []string
	coqAnswers []string
	cfg        string
	fail, key  string
	tags       map[string]bool
}

func c38Key(remote string) string {
	host, _, err := net.SplitHostPort(remote)
	if err != nil || host == "" {
		return remote
	}
	return host
}

// c38Exec must run inside a synctest bubble.
func c38Exec(t *testing.T, cs c38Case) c38Result {
	res := c38Result{tags: map[string]bool{}}
	cfg := AuthConfig{}
	if cs.Enabled {
		cfg = AuthConfig{Username: c38User, Password: c38Pass}
	}
	probe := newAuthManager(cfg) // only to read the constants the real server uses
	ttl := probe.ttl
	limit, window := 0, time.Duration(0)
	if probe.limiter != nil {
		limit, window = probe.limiter.limit, probe.limiter.window
	}
	res.cfg = fmt.Sprintf("(mkConfig %s %s %s %s)", cqBool(probe.enabled), cqZ(int64(ttl)), cqZ(int64(limit)), cqZ(int64(window)))
	mux, err := NewMux(ServerOptions{Auth: cfg})
	if err != nil {
		t.Fatalf("NewMux: %v", err)
	}
	setFail := func(k, f string) {
		if res.fail == "" {
			res.fail, res.key = f, k
		}
	}
	type sess struct {
		issued    time.Time
		loggedOut bool
	}
	ref := map[string]*sess{}
	passed := map[string][]time.Time{}
	var issuedTokens []string
	anyToken := func(ref int) string {
		if len(issuedTokens) == 0 {
			return "bm8tdG9rZW4teWV0"
		}
		return issuedTokens[ref%len(issuedTokens)]
	}
	evIndex := 0
	var evExtra []string
	evRef := 0
	do := func(method, path, remote, body string, cookieHeader string) *httptest.ResponseRecorder {
		tok := anyToken(evRef)
		for _, x := range evExtra {
			if x == "query-token" {
				path += "?token=" + tok + "&" + sessionCookieName + "=" + tok + "&session=" + tok
			}
		}
		req := httptest.NewRequest(method, path, strings.NewReader(body))
		req.RemoteAddr = remote
		if cookieHeader != "" {
			req.Header.Set("Cookie", cookieHeader)
		}
		for _, x := range evExtra {
			switch x {
			case "xff-single":
				req.Header.Set("X-Forwarded-For", "203.0.113.7")
			case "xff-rotating":
				req.Header.Set("X-Forwarded-For", fmt.Sprintf("198.51.100.%d", evIndex%250+1))
			case "xff-list":
				req.Header.Set("X-Forwarded-For", fmt.Sprintf("198.51.100.%d, 10.1.1.1, 172.16.0.9", evIndex%250+1))
			case "xff-spoof":
				req.Header.Set("X-Forwarded-For", "10.0.0.2")
			case "xff-malformed":
				req.Header.Set("X-Forwarded-For", fmt.Sprintf(" ,not-an-ip-%d;;, ", evIndex))
			case "x-real-ip":
				req.Header.Set("X-Real-IP", fmt.Sprintf("192.0.2.%d", evIndex%250+1))
			case "forwarded":
				req.Header.Set("Forwarded", fmt.Sprintf("for=192.0.2.%d;proto=https;by=203.0.113.43", evIndex%250+1))
				req.Header.Set("X-Client-IP", fmt.Sprintf("192.0.2.%d", evIndex%250+1))
				req.Header.Set("True-Client-IP", fmt.Sprintf("192.0.2.%d", evIndex%250+1))
			case "host":
				req.Host = fmt.Sprintf("tenant-%d.evil.example", evIndex)
				req.Header.Set("X-Forwarded-Host", "localhost")
			case "origin":
				req.Header.Set("Origin", "https://evil.example")
				req.Header.Set("Referer", "https://evil.example/ui/")
			case "auth-bearer":
				req.Header.Set("Authorization", "Bearer "+tok)
			case "auth-basic":
				req.SetBasicAuth(c38User, c38Pass)
			case "hdr-token":
				req.Header.Set("X-Session-Token", tok)
				req.Header.Set("X-Auth-Token", tok)
				req.Header.Set(sessionCookieName, tok)
			case "cookie-other-name":
				add := "session=" + tok + "; token=" + tok + "; KAFSCALE_UI_SESSION=" + tok
				if c := req.Header.Get("Cookie"); c != "" {
					req.Header.Set("Cookie", c+"; "+add)
				} else {
					req.Header.Set("Cookie", add)
				}
			}
		}
		rec := httptest.NewRecorder()
		mux.ServeHTTP(rec, req)
		return rec
	}
	// cookie header and the value net/http will hand to the code
	cookieOf := func(ev c38Ev) (header string, parsed string, present bool) {
		pick := func() string {
			if len(issuedTokens) == 0 {
				return "bm8tdG9rZW4teWV0"
			}
			return issuedTokens[ev.Ref%len(issuedTokens)]
		}
		switch ev.Cookie {
		case "empty":
			header = sessionCookieName + "="
		case "tok":
			header = sessionCookieName + "=" + pick()
		case "quoted":
			header = sessionCookieName + "=\"" + pick() + "\""
		case "forged":
			header = sessionCookieName + "=Zm9yZ2VkLXNlc3Npb24tdG9rZW4tMDAwMDAwMDAwMDAwMDAwMDAwMA"
		case "junk":
			header = "other=1; " + sessionCookieName + "x=" + pick()
		case "double":
			header = sessionCookieName + "=Zm9yZ2Vk; " + sessionCookieName + "=" + pick()
		case "prefix":
			tk := pick()
			header = sessionCookieName + "=" + tk[:len(tk)-1]
		}
		if header == "" {
			return "", "", false
		}
		r := &http.Request{Header: http.Header{"Cookie": []string{header}}}
		c, err := r.Cookie(sessionCookieName)
		if err != nil {
			return header, "", false
		}
		return header, c.Value, true
	}
	cookieCoq := func(parsed string, present bool) string { return cqOpt(present, cqStr(parsed)) }
	start := time.Now()
	for i, ev := range cs.Events {
		now := time.Now()
		evIndex, evExtra, evRef = i, ev.Extra, ev.Ref
		for _, x := range ev.Extra {
			res.tags["extra:"+x] = true
		}
		switch ev.Kind {
		case "advance":
			if ev.D > 0 {
				time.Sleep(time.Duration(ev.D))
			}
			res.coqEvents = append(res.coqEvents, "EAdvance "+cqZ(ev.D))
			res.coqAnswers = append(res.coqAnswers, "ANone")
		case "login":
			method, body := http.MethodPost, ""
			kind := ""
			switch ev.Login {
			case "good":
				body = fmt.Sprintf(`{"username":%q,"password":%q}`, c38User, c38Pass)
			case "bad":
				body = fmt.Sprintf(`{"username":%q,"password":"nope"}`, c38User)
				kind = "LBad"
			case "empty":
				body = `{"username":"","password":""}`
				kind = "LBad"
			case "malformed":
				body = `{"username":`
				kind = "LMalformed"
			case "get":
				method = http.MethodGet
				kind = "LWrongMethod"
			}
			rec := do(method, "/ui/api/auth/login", ev.IP, body, "")
			tok := ""
			for _, c := range rec.Result().Cookies() {
				if c.Name == sessionCookieName {
					tok = c.Value
				}
			}
			if ev.Login == "good" {
				kind = "LGood " + cqStr(tok)
				if !cs.Enabled {
					kind = "LBad" // without configured credentials nothing is valid; the model needs no token
				}
			}
			ans := ""
			switch rec.Code {
			case 200:
				ans = "A200"
				if tok == "" {
					setFail("login-without-cookie", fmt.Sprintf("event %d: login answered 200 without a session cookie", i))
				}
				ref[tok] = &sess{issued: now}
				issuedTokens = append(issuedTokens, tok)
				res.tags["login:ok"] = true
			case 400:
				ans = "A400"
			case 401:
				ans = "A401"
			case 405:
				ans = "A405"
			case 429:
				ans = "A429"
				res.tags["login:rate-limited"] = true
			case 503:
				ans = "A503"
			default:
				ans = "A503"
				setFail("unexpected-status", fmt.Sprintf("event %d: login answered %d", i, rec.Code))
			}
			if rec.Code == 200 && (ev.Login != "good" || !cs.Enabled) {
				setFail("login-accepted-bad-credentials", fmt.Sprintf("event %d: %s login answered 200", i, ev.Login))
			}
			if rec.Code == 200 || rec.Code == 400 || rec.Code == 401 {
				k := c38Key(ev.IP)
				passed[k] = append(passed[k], now)
				if limit > 0 && window > 0 {
					n := 0
					for _, ts := range passed[k] {
						if ts.After(now.Add(-window)) {
							n++
						}
					}
					if n > limit {
						setFail("rate-limit-exceeded", fmt.Sprintf("event %d: %d login attempts of %s got past the limiter within %v (limit %d)", i, n, k, window, limit))
					}
				}
			}
			res.coqEvents = append(res.coqEvents, fmt.Sprintf("ELogin %s (%s)", cqStr(c38Key(ev.IP)), kind))
			res.coqAnswers = append(res.coqAnswers, ans)
		case "logout":
			header, parsed, present := cookieOf(ev)
			method := http.MethodPost
			if !ev.Post {
				method = http.MethodGet
			}
			rec := do(method, "/ui/api/auth/logout", "10.0.0.9:1", "", header)
			ans := "A200"
			switch rec.Code {
			case 200:
				if s := ref[parsed]; ev.Post && present && parsed != "" && s != nil {
					s.loggedOut = true
					res.tags["logout:live-token"] = true
				}
			case 405:
				ans = "A405"
			default:
				setFail("unexpected-status", fmt.Sprintf("event %d: logout answered %d", i, rec.Code))
			}
			res.coqEvents = append(res.coqEvents, fmt.Sprintf("ELogout %s %s", cqBool(ev.Post), cookieCoq(parsed, present)))
			res.coqAnswers = append(res.coqAnswers, ans)
		case "request", "session":
			header, parsed, present := cookieOf(ev)
			s := ref[parsed]
			want := cs.Enabled && present && parsed != "" && s != nil && !s.loggedOut && !now.After(s.issued.Add(ttl))
			class := "cookie:" + ev.Cookie
			if s != nil && (ev.Cookie == "tok" || ev.Cookie == "quoted" || ev.Cookie == "double") {
				switch {
				case s.loggedOut:
					class = "cookie:logged-out-token"
				case now.After(s.issued.Add(ttl)):
					class = "cookie:expired-token"
				default:
					class = "cookie:valid-token"
				}
			}
			res.tags[class] = true
			if ev.Kind == "request" {
				rec := do(http.MethodGet, "/ui/api/status", "10.0.0.9:1", "", header)
				got := rec.Code == 200
				ans := ""
				switch rec.Code {
				case 200:
					ans = "A200"
				case 401:
					ans = "A401"
				case 503:
					ans = "A503"
				default:
					ans = "A503"
					setFail("unexpected-status", fmt.Sprintf("event %d: protected request answered %d", i, rec.Code))
				}
				if got && !want {
					setFail("accepted-without-live-session", fmt.Sprintf("event %d at +%v: protected request with cookie %q (%s) was answered 200 although no live session carries that token", i, now.Sub(start), parsed, class))
				}
				if !got && want {
					setFail("rejected-live-session", fmt.Sprintf("event %d at +%v: protected request with the live session token (%s) was answered %d", i, now.Sub(start), class, rec.Code))
				}
				res.coqEvents = append(res.coqEvents, "ERequest "+cookieCoq(parsed, present))
				res.coqAnswers = append(res.coqAnswers, ans)
			} else {
				rec := do(http.MethodGet, "/ui/api/auth/session", "10.0.0.9:1", "", header)
				var body struct {
					Enabled       bool `json:"enabled"`
					Authenticated bool `json:"authenticated"`
				}
				if rec.Code != 200 || json.Unmarshal(rec.Body.Bytes(), &body) != nil {
					setFail("unexpected-status", fmt.Sprintf("event %d: session probe answered %d %q", i, rec.Code, rec.Body.String()))
				}
				if body.Authenticated != want || body.Enabled != cs.Enabled {
					setFail("session-probe-wrong", fmt.Sprintf("event %d: session probe says enabled=%v authenticated=%v, expected %v/%v (%s)", i, body.Enabled, body.Authenticated, cs.Enabled, want, class))
				}
				res.coqEvents = append(res.coqEvents, "ESession "+cookieCoq(parsed, present))
				res.coqAnswers = append(res.coqAnswers, fmt.Sprintf("ASession %s %s", cqBool(body.Enabled), cqBool(body.Authenticated)))
			}
		default:
			t.Fatalf("bad event kind %q", ev.Kind)
		}
	}
	return res
}

var c38IPs = []string{"10.0.0.1:40000", "10.0.0.2:40001", "[::1]:555", "no-port"}

func c38Gen(r *vRand) c38Case {
	cs := c38Case{Enabled: !r.Chance(8)}
	cookies := []string{"none", "empty", "tok", "tok", "tok", "quoted", "forged", "junk", "double", "prefix"}
	advances := []int64{0, 1, int64(time.Second), int64(10 * time.Second), int64(59 * time.Second), int64(time.Minute), int64(61 * time.Second),
		int64(time.Hour), int64(6 * time.Hour), int64(12*time.Hour - time.Second), int64(12 * time.Hour), int64(12*time.Hour + 1), -5}
	n := r.Range(6, 40)
	mode := r.Intn(3) // 0 mixed, 1 rate-limit bursts, 2 expiry focused
	if mode == 1 {
		n = r.Range(4, 12)
	}
	for i := 0; i < n; i++ {
		x := r.Intn(100)
		switch {
		case mode == 1 && x < 50:
			k := r.Range(6, 26)
			ip := c38IPs[r.Intn(2)]
			// the whole burst comes from one peer, which may vary what it claims about itself
			var burstExtra []string
			if r.Chance(70) {
				burstExtra = []string{[]string{"xff-rotating", "xff-list", "x-real-ip", "forwarded", "xff-spoof", "xff-malformed", "host"}[r.Intn(7)]}
			}
			for j := 0; j < k; j++ {
				cs.Events = append(cs.Events, c38Ev{Kind: "login", IP: ip, Login: []string{"bad", "bad", "good", "malformed", "empty", "get"}[r.Intn(6)], Extra: burstExtra})
				if r.Chance(12) {
					cs.Events = append(cs.Events, c38Ev{Kind: "advance", D: []int64{int64(time.Second), int64(5 * time.Second), int64(20 * time.Second), int64(41 * time.Second)}[r.Intn(4)]})
				}
			}
		case x < 22:
			cs.Events = append(cs.Events, c38Ev{Kind: "login", IP: c38IPs[r.Intn(len(c38IPs))], Login: []string{"good", "good", "good", "bad", "malformed", "empty", "get"}[r.Intn(7)]})
		case x < 32:
			cs.Events = append(cs.Events, c38Ev{Kind: "logout", Post: !r.Chance(15), Cookie: cookies[r.Intn(len(cookies))], Ref: r.Intn(8)})
		case x < 62:
			cs.Events = append(cs.Events, c38Ev{Kind: "request", Cookie: cookies[r.Intn(len(cookies))], Ref: r.Intn(8)})
		case x < 70:
			cs.Events = append(cs.Events, c38Ev{Kind: "session", Cookie: cookies[r.Intn(len(cookies))], Ref: r.Intn(8)})
		default:
			d := advances[r.Intn(len(advances))]
			if mode == 2 && r.Chance(50) {
				d = advances[7+r.Intn(5)]
			}
			cs.Events = append(cs.Events, c38Ev{Kind: "advance", D: d})
		}
	}
	// every request also carries client-controlled inputs an implementation might consult
	for i := range cs.Events {
		ev := &cs.Events[i]
		if ev.Kind == "advance" || ev.Extra != nil || !r.Chance(60) {
			continue
		}
		for k := r.Range(1, 3); k > 0; k-- {
			ev.Extra = append(ev.Extra, c38Extras[r.Intn(len(c38Extras))])
		}
	}
	return cs
}

var c38Extras = []string{"xff-single", "xff-rotating", "xff-list", "xff-spoof", "xff-malformed", "x-real-ip", "forwarded", "host", "origin",
	"auth-bearer", "auth-basic", "query-token", "hdr-token", "cookie-other-name"}

type c38Route struct {
	Pattern   string `json:"pattern"`
	Protected bool   `json:"protected"`
	LFS       bool   `json:"lfs"`
}

// every registered route, requested without and with a forged cookie
func c38Routes(t *testing.T, rep *vReport) {
	path := filepath.Join(os.Getenv("VERIF_DIR"), "coq", "theories", "gen", "ConsoleRoutes.json")
	data, err := os.ReadFile(path)
	if err != nil {
		rep.Notes = append(rep.Notes, "route table not found: "+err.Error())
		rep.Fail("route-table-missing", "route-table-missing", "coq/theories/gen/ConsoleRoutes.json (written by tools/console_routes) not readable: "+err.Error(), nil)
		return
	}
	var routes []c38Route
	if err := json.Unmarshal(data, &routes); err != nil {
		rep.Fail("route-table-missing", "route-table-missing", err.Error(), nil)
		return
	}
	mux, err := NewMux(ServerOptions{Auth: AuthConfig{Username: c38User, Password: c38Pass}, LFSHandlers: &LFSHandlers{}})
	if err != nil {
		t.Fatalf("NewMux: %v", err)
	}
	public := map[string]bool{"/ui": true, "/ui/": true, "/ui/api/auth/config": true, "/ui/api/auth/session": true, "/ui/api/auth/login": true, "/ui/api/auth/logout": true, "/healthz": true}
	for _, rt := range routes {
		p := rt.Pattern
		if strings.HasSuffix(p, "/") && p != "/ui/" {
			p += "some-name"
		}
		for _, method := range []string{http.MethodGet, http.MethodPost, http.MethodDelete} {
			for _, cookie := range []string{"", sessionCookieName + "=Zm9yZ2Vk"} {
				req := httptest.NewRequest(method, p, strings.NewReader("{}"))
				req.RemoteAddr = "10.9.9.9:1"
				if cookie != "" {
					req.Header.Set("Cookie", cookie)
				}
				// a handler that is reached may stream until the request is cancelled (metrics) or
				// panic on the zero-value LFS handlers: both count as "answered, not 401"
				ctx, cancel := context.WithTimeout(req.Context(), 100*time.Millisecond)
				req = req.WithContext(ctx)
				rec := httptest.NewRecorder()
				func() {
					defer func() {
						if p := recover(); p != nil {
							rec.Code = 599
						}
					}()
					mux.ServeHTTP(rec, req)
				}()
				cancel()
				rep.Evaluations++
				rep.Hist("route-probe")
				if rec.Code != http.StatusUnauthorized && !public[rt.Pattern] {
					rep.Fail("route-not-protected", "route-not-protected", fmt.Sprintf("%s %s (pattern %q) without a session answered %d, expected 401", method, p, rt.Pattern, rec.Code), rt)
				}
				if rt.Protected != !public[rt.Pattern] {
					rep.Fail("route-not-protected", "route-not-protected", fmt.Sprintf("pattern %q: wrapped in requireAuth = %v, public by design = %v", rt.Pattern, rt.Protected, public[rt.Pattern]), rt)
				}
			}
		}
	}
}

func TestVerifC38(t *testing.T) {
	rep := vNewReport("C38", "generated histories (6-40+ events: logins good/bad/empty/malformed/GET from 4 client addresses incl. bursts beyond the limit, POST/GET logout, protected requests and session probes with cookies from {none, empty, issued token (valid / expired / logged out), quoted token, token prefix, forged, other cookie name, two cookies}, clock advances from 1ns to 12h+1ns; every request additionally carries generated client-controlled inputs - X-Forwarded-For single/list/rotating/spoofing another client/malformed, X-Real-IP, Forwarded, X-Client-IP, Host, Origin, Authorization bearer/basic, token in the query string, in custom headers and in cookies of other names - while the rate-limit accounting stays keyed on the connection's peer address and the session oracle only honours the session cookie) through the real NewMux handler under testing/synctest virtual time; plus every route of the regenerated route table probed without a session; a history is non-trivial when it has a successful login and requests in at least two of the classes valid / expired / logged-out / forged-or-empty, or a rate-limited login; distinct = distinct canonical history")
	var coq, jsons []string
	runOne := func(cs c38Case) {
		var res c38Result
		synctest.Test(t, func(t *testing.T) { res = c38Exec(t, cs) })
		canon, _ := json.Marshal(cs)
		classes := 0
		for _, c := range []string{"cookie:valid-token", "cookie:expired-token", "cookie:logged-out-token"} {
			if res.tags[c] {
				classes++
			}
		}
		if res.tags["cookie:forged"] || res.tags["cookie:empty"] || res.tags["cookie:none"] || res.tags["cookie:prefix"] {
			classes++
		}
		rep.Count(string(canon), (res.tags["login:ok"] && classes >= 2) || res.tags["login:rate-limited"])
		for tg := range res.tags {
			rep.Hist(tg)
		}
		rep.Hist(fmt.Sprintf("events<=%d", ((len(cs.Events)+15)/16)*16))
		rep.Sample(cs)
		if res.fail != "" {
			shr := cs
			shr.Events = vShrink(cs.Events, func(evs []c38Ev) bool {
				var r2 c38Result
				synctest.Test(t, func(t *testing.T) { r2 = c38Exec(t, c38Case{Enabled: cs.Enabled, Events: evs}) })
				return r2.fail != "" && r2.key == res.key
			})
			var r2 c38Result
			synctest.Test(t, func(t *testing.T) { r2 = c38Exec(t, shr) })
			what := r2.fail
			if what == "" {
				shr, what = cs, res.fail
			}
			rep.Fail(res.key, res.key, what, shr)
		}
		coq = append(coq, fmt.Sprintf("mkCase %s %s %s", res.cfg, cqList(res.coqEvents), cqList(res.coqAnswers)))
		jsons = append(jsons, string(canon))
	}
	if rc := vReplayCase(); rc != nil {
		var cs c38Case
		if err := json.Unmarshal(rc, &cs); err != nil || len(cs.Events) == 0 {
			c38Routes(t, rep) // a route-table failure replays the route probe
		} else {
			runOne(cs)
		}
	} else {
		c38Routes(t, rep)
		h := int64(time.Hour)
		ip := c38IPs[0]
		burst := []c38Ev{}
		for i := 0; i < 22; i++ {
			burst = append(burst, c38Ev{Kind: "login", IP: ip, Login: "bad"})
		}
		burst = append(burst, c38Ev{Kind: "login", IP: c38IPs[1], Login: "good"}, c38Ev{Kind: "advance", D: int64(59 * time.Second)}, c38Ev{Kind: "login", IP: ip, Login: "good"},
			c38Ev{Kind: "advance", D: int64(time.Second)}, c38Ev{Kind: "login", IP: ip, Login: "good"}, c38Ev{Kind: "request", Cookie: "tok", Ref: 1})
		rot := []c38Ev{}
		for i := 0; i < 24; i++ { // one peer, a different X-Forwarded-For on every attempt
			rot = append(rot, c38Ev{Kind: "login", IP: ip, Login: "bad", Extra: []string{"xff-rotating"}})
		}
		for i := 0; i < 24; i++ {
			rot = append(rot, c38Ev{Kind: "login", IP: c38IPs[1], Login: "bad", Extra: []string{"x-real-ip", "forwarded"}})
		}
		elsewhere := []c38Ev{{Kind: "login", IP: ip, Login: "good"}}
		for _, x := range []string{"auth-bearer", "query-token", "hdr-token", "cookie-other-name", "auth-basic"} { // the token anywhere but the session cookie
			elsewhere = append(elsewhere, c38Ev{Kind: "request", Cookie: "none", Extra: []string{x}}, c38Ev{Kind: "request", Cookie: "forged", Extra: []string{x}}, c38Ev{Kind: "session", Cookie: "none", Extra: []string{x}})
		}
		elsewhere = append(elsewhere, c38Ev{Kind: "logout", Post: true, Cookie: "none", Extra: []string{"auth-bearer", "query-token", "cookie-other-name"}}, c38Ev{Kind: "request", Cookie: "tok", Extra: []string{"host", "origin"}})
		corpus := []c38Case{
			{Enabled: true, Events: rot},
			{Enabled: true, Events: elsewhere},
			{Enabled: true, Events: []c38Ev{{Kind: "login", IP: ip, Login: "good"}, {Kind: "request", Cookie: "tok"}, {Kind: "advance", D: 12 * h}, {Kind: "request", Cookie: "tok"},
				{Kind: "advance", D: 1}, {Kind: "request", Cookie: "tok"}, {Kind: "session", Cookie: "tok"}, {Kind: "request", Cookie: "forged"}, {Kind: "request", Cookie: "none"}, {Kind: "request", Cookie: "empty"}}},
			{Enabled: true, Events: []c38Ev{{Kind: "login", IP: ip, Login: "good"}, {Kind: "login", IP: ip, Login: "good"}, {Kind: "logout", Post: false, Cookie: "tok", Ref: 0}, {Kind: "request", Cookie: "tok", Ref: 0},
				{Kind: "logout", Post: true, Cookie: "tok", Ref: 0}, {Kind: "request", Cookie: "tok", Ref: 0}, {Kind: "request", Cookie: "tok", Ref: 1}, {Kind: "request", Cookie: "quoted", Ref: 1}, {Kind: "request", Cookie: "double", Ref: 1}, {Kind: "request", Cookie: "prefix", Ref: 1}}},
			{Enabled: true, Events: burst},
			{Enabled: false, Events: []c38Ev{{Kind: "login", IP: ip, Login: "good"}, {Kind: "request", Cookie: "none"}, {Kind: "session", Cookie: "forged"}, {Kind: "logout", Post: true, Cookie: "none"}}},
		}
		for _, cs := range corpus {
			runOne(cs)
		}
		r := vNewRand(vSeed())
		n := vN(220, 3000)
		for i := 0; i < n; i++ {
			runOne(c38Gen(r.Fork()))
		}
	}
	rep.Cases("C38", "From KS Require Import lib.Base model.Console corr.ConsoleCorr.", "case", "check_case", coq, jsons)
	rep.Write()
	if len(rep.Failures) > 0 {
		t.Logf("oracle failures: %s", strings.TrimSpace(rep.Failures[0].What))
	}
}
