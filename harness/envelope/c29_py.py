#!/usr/bin/env python3
"""C29 harness, stage 2 of 4 (Python).  Loads the REAL
{REPO}/lfs-client-sdk/python/lfs_sdk/envelope.py by file path (the package
__init__ imports boto3, which is not installed) and runs is_lfs_envelope /
decode_envelope on every input of {OUT}/c29_inputs.json.

usage: c29_py.py REPO OUT
"""
import dataclasses
import importlib.util
import json
import os
import sys


def main():
    repo, out = sys.argv[1], sys.argv[2]
    path = os.path.join(repo, "lfs-client-sdk", "python", "lfs_sdk", "envelope.py")
    spec = importlib.util.spec_from_file_location("kfs_lfs_envelope_under_test", path)
    mod = importlib.util.module_from_spec(spec)
    sys.modules[spec.name] = mod  # dataclasses looks the module up by name
    spec.loader.exec_module(mod)
    data = json.load(open(os.path.join(out, "c29_inputs.json"), encoding="utf-8"))
    res = []
    for inp in data["inputs"]:
        b = bytes.fromhex(inp["hex"])
        r = {"id": inp["id"], "py": bool(mod.is_lfs_envelope(b))}
        if inp["kind"] == "env":
            try:
                env = mod.decode_envelope(b)
                r["decoded"] = dataclasses.asdict(env)
            except Exception as e:  # noqa
                r["dec_err"] = "%s: %s" % (type(e).__name__, e)
        res.append(r)
    # None / empty input is "not an envelope" too (the API accepts Optional[bytes])
    extra = {"none": bool(mod.is_lfs_envelope(None)), "empty": bool(mod.is_lfs_envelope(b""))}
    json.dump({"source": path, "results": res, "extra": extra}, open(os.path.join(out, "c29_py.json"), "w"))
    rep = {"property": "C29", "evaluations": 0, "distinct_nontrivial": 0, "rule": "", "samples": [], "histogram": {},
           "failures": [], "case_files": [], "case_count": 0,
           "notes": ["stage 2 ran %d inputs through %s" % (len(res), path)]}
    json.dump(rep, open(os.path.join(out, "result_C29_py.json"), "w"), indent=1)
    return 0


if __name__ == "__main__":
    sys.exit(main())
