package lfs

// C29 harness, stage 1 of 4 (Go).  Generates the inputs shared by all three SDKs
// from VERIF_SEED, runs the real Go code on them (IsLfsEnvelope, EncodeEnvelope,
// DecodeEnvelope) and writes {OUT}/c29_inputs.json.  Stages 2 and 3 (c29_py.py,
// c29_node.mjs) run the real Python / JS SDK sources on the same file; stage 4
// (c29_merge.py) evaluates the cross-language oracle and emits the Coq cases.

import (
	"encoding/hex"
	"encoding/json"
	"fmt"
	"os"
	"path/filepath"
	"reflect"
	"strings"
	"testing"
	"unicode/utf8"
)

type c29Input struct {
	ID   int    `json:"id"`
	Kind string `json:"kind"` // "bytes" | "env"
	Tag  string `json:"tag"`
	Hex  string `json:"hex"`
	Go   bool   `json:"go"` // IsLfsEnvelope
	// kind "env": the fields given to EncodeEnvelope and what DecodeEnvelope returned
	Env       *Envelope `json:"env,omitempty"`
	GoDecoded *Envelope `json:"go_decoded,omitempty"`
	GoDecErr  string    `json:"go_dec_err,omitempty"`
}

type c29Replay struct {
	Kind string    `json:"kind"`
	Hex  string    `json:"hex"`
	Env  *Envelope `json:"env,omitempty"`
}

var c29Marker = []byte(`"kfs_lfs"`)

func c29Str(r *vRand, maxLen int) string {
	alpha := []string{"a", "b", "z", "0", "9", "-", "_", "/", ".", " ", "\u00e9", "\u00df", "\u20ac", "\u4e2d", "\U0001F600", "\U0001D11E", "\u2028", "\u2029", "<", ">", "&", "\"", "\\", "\n", "\t", "\x00", "\x7f", "\u00a0", "\ufffd", "\u0130", "\u212a"}
	n := r.Range(1, maxLen)
	var sb strings.Builder
	mode := r.Intn(3) // 0 ascii only, 1 mixed, 2 mostly non-ascii
	for i := 0; i < n; i++ {
		switch mode {
		case 0:
			sb.WriteString(alpha[r.Intn(9)])
		case 1:
			sb.WriteString(alpha[r.Intn(len(alpha))])
		default:
			sb.WriteString(alpha[10+r.Intn(8)])
		}
	}
	return sb.String()
}

func c29GenEnv(r *vRand) Envelope {
	e := Envelope{Version: 1, Bucket: c29Str(r, 12), Key: c29Str(r, 40), SHA256: hex.EncodeToString(r.Bytes(32))}
	switch r.Intn(8) {
	case 0:
		e.Version = r.Range(-3, 9)
		if e.Version == 0 {
			e.Version = 2
		}
	case 1:
		e.Version = 1 << uint(r.Range(10, 52))
	}
	switch r.Intn(12) {
	case 0:
		e.Key = c29Str(r, 200) + "/" + strings.Repeat("k", r.Range(100, 400)) // long keys
	case 1, 2:
		e.Bucket = strings.Repeat("\U0001f600", r.Range(1, 20)) // marker pushed nowhere: kfs_lfs is first
	}
	switch r.Intn(4) {
	case 0:
		e.Size = 0
	case 1:
		e.Size = int64(r.U64() % (1 << 53)) // exact in every JSON library (JS numbers)
	default:
		e.Size = int64(r.Range(1, 1<<30))
	}
	if r.Chance(40) {
		e.Checksum = hex.EncodeToString(r.Bytes(r.Range(1, 32)))
		e.ChecksumAlg = []string{"sha256", "md5", "crc32", "none", "SHA256", " md5 "}[r.Intn(6)]
	}
	if r.Chance(50) {
		e.ContentType = []string{"application/octet-stream", "text/plain; charset=utf-8", c29Str(r, 20)}[r.Intn(3)]
	}
	if r.Chance(40) {
		e.OriginalHeaders = map[string]string{}
		for i, n := 0, r.Range(1, 4); i < n; i++ {
			e.OriginalHeaders[c29Str(r, 10)] = c29Str(r, 16)
		}
	}
	if r.Chance(50) {
		e.CreatedAt = "2026-02-01T12:00:00Z"
	}
	if r.Chance(50) {
		e.ProxyID = c29Str(r, 12)
	}
	return e
}

// invalid / boundary UTF-8 fragments
var c29Frags = [][]byte{
	{0xff}, {0xfe}, {0x80}, {0xbf}, {0xc0}, {0xc1}, {0xc2}, {0xdf}, {0xe0}, {0xe0, 0x80}, {0xe0, 0xa0}, {0xe1, 0x80},
	{0xed, 0xa0}, {0xed, 0xa0, 0x80}, {0xed, 0x9f, 0xbf}, {0xef, 0xbf, 0xbd}, {0xef, 0xbb, 0xbf}, {0xf0}, {0xf0, 0x8f}, {0xf0, 0x90},
	{0xf0, 0x9f, 0x98}, {0xf0, 0x9f, 0x98, 0x80}, {0xf4, 0x8f, 0xbf, 0xbf}, {0xf4, 0x90}, {0xf5}, {0xf8, 0x88, 0x80, 0x80, 0x80},
	{0xc3, 0xa9}, {0xe2, 0x82, 0xac}, {0xe2, 0x82}, {0xc3}, {0xf1, 0x80, 0x80}, {0xf3, 0xa0},
}

func c29Frag(r *vRand) []byte {
	if r.Chance(20) {
		return r.Bytes(r.Range(1, 3))
	}
	return c29Frags[r.Intn(len(c29Frags))]
}

func c29Pad(r *vRand, n int) []byte {
	// n bytes of filler that never contains the marker's quote
	out := make([]byte, 0, n)
	for len(out) < n {
		switch r.Intn(6) {
		case 0:
			f := c29Frag(r)
			if len(out)+len(f) <= n {
				out = append(out, f...)
				continue
			}
			out = append(out, ' ')
		case 1:
			out = append(out, byte(0x80+r.Intn(0x80)))
		default:
			out = append(out, " \t\nabcxyz:,01"[r.Intn(13)])
		}
	}
	return out
}

func c29GenBytes(r *vRand) (string, []byte) {
	tmpl := []byte(`{"kfs_lfs":1,"bucket":"b","key":"k","size":3,"sha256":"ab"}`)
	switch r.Intn(12) {
	case 0: // truncations around the 15-byte boundary
		n := r.Range(0, 20)
		if n > len(tmpl) {
			n = len(tmpl)
		}
		return "truncated-template", append([]byte(nil), tmpl[:n]...)
	case 1: // short inputs containing the whole marker (10..16 bytes)
		b := append([]byte{'{'}, c29Marker...)
		b = append(b, c29Pad(r, r.Range(0, 6))...)
		return "short-with-marker", b
	case 2, 3: // marker around the 50-byte boundary
		pre := r.Range(30, 48)
		b := append([]byte{'{'}, c29Pad(r, pre)...)
		b = append(b, c29Marker...)
		b = append(b, c29Pad(r, r.Range(0, 12))...)
		return "marker-near-50", b
	case 4, 5: // invalid bytes inside the marker (a lossy decoder re-creates it)
		at := r.Range(1, len(c29Marker)-1)
		m := append(append(append([]byte(nil), c29Marker[:at]...), c29Frag(r)...), c29Marker[at:]...)
		b := append([]byte{'{'}, c29Pad(r, r.Range(0, 8))...)
		b = append(b, m...)
		b = append(b, []byte(`:1,"bucket":"b","key":"k"}`)...)
		return "marker-split-by-invalid", b
	case 6: // invalid bytes right before / after the marker
		b := append([]byte{'{'}, c29Pad(r, r.Range(0, 6))...)
		b = append(b, c29Frag(r)...)
		b = append(b, c29Marker...)
		b = append(b, c29Frag(r)...)
		b = append(b, []byte(`:1,"bucket":"b"}`)...)
		return "marker-next-to-invalid", b
	case 7: // multi-byte sequence straddling byte 50
		pre := r.Range(44, 49)
		b := append([]byte{'{'}, c29Pad(r, pre-1)...)
		b = append(b, c29Frag(r)...)
		b = append(b, c29Marker...)
		return "sequence-at-50", b
	case 8: // first byte is not the brace
		first := [][]byte{{' '}, {0xef, 0xbb, 0xbf}, {'['}, {0x7b ^ 0x80}, {}}[r.Intn(5)]
		b := append(append([]byte(nil), first...), tmpl...)
		return "not-brace-first", b
	case 9: // random bytes after a brace
		return "random-after-brace", append([]byte{'{'}, r.Bytes(r.Range(0, 70))...)
	case 10: // marker variants: missing quote, different case, partial
		vars := []string{`{"kfs_lfs:1,"bucket":"b","k":1}`, `{"KFS_LFS":1,"bucket":"b","k":1}`, `{'kfs_lfs':1,"bucket":"b","k":1}`, `{"kfs_lf":1,"s":"\"kfs_lfs","b":1}`, `{"a":"\"kfs_lfs\"","bucket":"b"}`, `{"kfs_lfs"`, `{"kfs_lfs"     `, `{     "kfs_lfs"`}
		return "marker-variant", []byte(vars[r.Intn(len(vars))])
	default: // template with a mutated byte / inserted fragment
		b := append([]byte(nil), tmpl...)
		if r.Bool() {
			b[r.Intn(len(b))] = byte(r.U64())
		} else {
			at := r.Intn(len(b))
			b = append(append(append([]byte(nil), b[:at]...), c29Frag(r)...), b[at:]...)
		}
		return "template-mutated", b
	}
}

func c29EnvEqual(a, b Envelope) bool {
	if len(a.OriginalHeaders) == 0 {
		a.OriginalHeaders = nil
	}
	if len(b.OriginalHeaders) == 0 {
		b.OriginalHeaders = nil
	}
	return reflect.DeepEqual(a, b)
}

func c29ValidUTF8(e Envelope) bool {
	ok := utf8.ValidString(e.Bucket) && utf8.ValidString(e.Key) && utf8.ValidString(e.SHA256) && utf8.ValidString(e.Checksum) &&
		utf8.ValidString(e.ChecksumAlg) && utf8.ValidString(e.ContentType) && utf8.ValidString(e.CreatedAt) && utf8.ValidString(e.ProxyID)
	for k, v := range e.OriginalHeaders {
		ok = ok && utf8.ValidString(k) && utf8.ValidString(v)
	}
	return ok
}

func TestVerifC29Gen(t *testing.T) {
	rep := vNewReport("C29", "stage 1 (Go): inputs generated and run through IsLfsEnvelope/EncodeEnvelope/DecodeEnvelope; counted in the merged result")
	var inputs []c29Input
	addBytes := func(tag string, b []byte) {
		inputs = append(inputs, c29Input{ID: len(inputs), Kind: "bytes", Tag: tag, Hex: hex.EncodeToString(b), Go: IsLfsEnvelope(b)})
	}
	addEnv := func(tag string, e Envelope) {
		enc, err := EncodeEnvelope(e)
		if err != nil {
			rep.Hist("encode-rejected")
			return
		}
		in := c29Input{ID: len(inputs), Kind: "env", Tag: tag, Hex: hex.EncodeToString(enc), Go: IsLfsEnvelope(enc), Env: &e}
		dec, derr := DecodeEnvelope(enc)
		if derr != nil {
			in.GoDecErr = derr.Error()
			rep.Fail("roundtrip", "roundtrip-go", fmt.Sprintf("DecodeEnvelope(EncodeEnvelope(env)) failed: %v", derr), c29Replay{Kind: "env", Env: &e})
		} else {
			in.GoDecoded = &dec
			if c29ValidUTF8(e) && !c29EnvEqual(e, dec) {
				rep.Fail("roundtrip", "roundtrip-go", fmt.Sprintf("DecodeEnvelope(EncodeEnvelope(env)) = %+v, want %+v", dec, e), c29Replay{Kind: "env", Env: &e})
			}
		}
		if !in.Go {
			rep.Fail("encoded-detected", "encoded-not-detected-go", "IsLfsEnvelope(EncodeEnvelope(env)) = false", c29Replay{Kind: "env", Env: &e})
		}
		inputs = append(inputs, in)
	}
	if rc := vReplayCase(); rc != nil {
		var rp c29Replay
		if err := json.Unmarshal(rc, &rp); err != nil {
			t.Fatalf("bad replay: %v", err)
		}
		if rp.Kind == "env" && rp.Env != nil {
			addEnv("replay", *rp.Env)
		} else {
			b, err := hex.DecodeString(rp.Hex)
			if err != nil {
				t.Fatalf("bad replay hex: %v", err)
			}
			addBytes("replay", b)
		}
	} else {
		// corpus: the shapes of the two findings of the design round, and the boundaries
		addBytes("corpus-js-short", []byte(`{"kfs_lfs":1}`))
		addBytes("corpus-py-lossy", []byte("{\"kfs_\xfflfs\":1,\"bucket\":\"b\"}"))
		addBytes("corpus-py-lossy", []byte("{\"kfs_lfs\xe2\x82\":1,\"bucket\":\"b\"}"))
		addBytes("corpus-len14", []byte(`{"kfs_lfs":12}`))
		addBytes("corpus-len15", []byte(`{"kfs_lfs":123}`))
		addBytes("corpus-empty", nil)
		addBytes("corpus-brace", []byte(`{`))
		for _, pre := range []int{39, 40, 41, 42} { // marker ends at byte 49, 50, 51, 52
			addBytes("corpus-boundary-50", append(append([]byte{'{'}, []byte(strings.Repeat(" ", pre))...), []byte(`"kfs_lfs":1}`)...))
		}
		addEnv("corpus-env", Envelope{Version: 1, Bucket: "b", Key: "k", SHA256: "ab"})
		addEnv("corpus-env-unicode", Envelope{Version: 1, Bucket: "b\u00fccket-\U0001f600", Key: "k/\u20ac/\u2028<&>\"\\", SHA256: "ab", OriginalHeaders: map[string]string{"x-\u00fc": "v\n"}})
		addEnv("corpus-env-long", Envelope{Version: -7, Bucket: "b", Key: strings.Repeat("long/", 400), Size: 1<<53 - 1, SHA256: "ab"})
		r := vNewRand(vSeed())
		n := vN(400, 5000)
		for i := 0; i < n; i++ {
			rr := r.Fork()
			if i%5 == 0 {
				addEnv("env", c29GenEnv(rr))
			} else {
				tag, b := c29GenBytes(rr)
				addBytes(tag, b)
			}
		}
	}
	out, _ := json.Marshal(map[string]any{"seed": vSeed(), "tier": vTier(), "inputs": inputs})
	if err := os.WriteFile(filepath.Join(vOutDir(), "c29_inputs.json"), out, 0o644); err != nil {
		t.Fatalf("write inputs: %v", err)
	}
	rep.Notes = append(rep.Notes, fmt.Sprintf("stage 1 wrote %d inputs", len(inputs)))
	rep.CaseFiles = []string{} // no Coq cases from this stage (stage 4 writes them)
	rep.WriteAs("C29_go")
}
