#!/usr/bin/env python3
"""C29 harness, stage 4 of 4: cross-language oracle + Coq cases.

Reads what the three real implementations did on the shared inputs
({OUT}/c29_inputs.json, c29_py.json, c29_js.json) and

  * evaluates the property's clauses directly on those observations
    (implementation-side oracle):
      detect-agree      Go, Python and JS give the same IsLfsEnvelope answer on every input
      encoded-detected  every EncodeEnvelope output is an envelope for all three
      roundtrip         every EncodeEnvelope output decodes to the same fields in all three
  * writes cases_C29_<n>.v (+ .jsonl) for the model/code correspondence check
    (corr/EnvelopeCorr.v) and result_C29.json in the vReport shape.

A failing input is classified into a key that names the specific defect; of all
failing inputs of a class the shortest is reported (inputs are <= ~100 bytes; the
three implementations live in three processes, so there is no in-process shrinker).

usage: c29_merge.py OUT
"""
import hashlib
import json
import os
import sys

SHARD = 500


def cq_bytes(b):
    return "[" + ";".join(str(x) for x in b) + "]" if b else "[]"


def cq_z(v):
    return "(%d)" % v if v < 0 else str(v)


def cq_bool(x):
    return "true" if x else "false"


def norm_env(d):
    """fields of an envelope as a comparable dict: absent == None == "" == {} (omitempty)"""
    if d is None:
        return None
    out = {}
    for k, v in d.items():
        if v is None or v == "" or v == {}:
            continue
        out[k] = v
    out.setdefault("size", 0)
    return out


def valid_utf8(b):
    try:
        b.decode("utf-8")
        return True
    except UnicodeDecodeError:
        return False


def main():
    out = sys.argv[1]
    data = json.load(open(os.path.join(out, "c29_inputs.json"), encoding="utf-8"))
    py = {r["id"]: r for r in json.load(open(os.path.join(out, "c29_py.json")))["results"]}
    jsd = json.load(open(os.path.join(out, "c29_js.json")))
    js = {r["id"]: r for r in jsd["results"]}
    pyx = json.load(open(os.path.join(out, "c29_py.json")))["extra"]
    jsx = jsd["extra"]

    failures = {}  # key -> list of (len, failure)
    hist = {}
    seen = set()
    evaluations = nontrivial = 0
    samples = []
    cases, jsons = [], []

    def fail(oracle, key, what, case, size):
        failures.setdefault((oracle, key), []).append((size, {"oracle": oracle, "key": key, "what": what, "case": case}))

    def bump(k):
        hist[k] = hist.get(k, 0) + 1

    for inp in data["inputs"]:
        i = inp["id"]
        b = bytes.fromhex(inp["hex"])
        if i not in py or i not in js:
            fail("harness", "missing-result", "input %d has no python/js result" % i, {"kind": "bytes", "hex": inp["hex"]}, len(b))
            continue
        g, p, j = bool(inp["go"]), bool(py[i]["py"]), bool(js[i]["js"])
        evaluations += 1
        bump(inp["tag"].split("-")[0] if inp["tag"].startswith("corpus") else inp["tag"])
        bump("len<15" if len(b) < 15 else ("len<=50" if len(b) <= 50 else "len>50"))
        bump("detected" if g else "not-detected")
        if not valid_utf8(b[:50]):
            bump("invalid-utf8-in-prefix")
        # non-trivial: starts with the brace and contains most of the marker somewhere, or is a real envelope
        nt = inp["kind"] == "env" or (b[:1] == b"{" and (b'kfs_' in b or b'lfs"' in b))
        h = hashlib.sha256(b).hexdigest()[:16]
        if nt and h not in seen:
            seen.add(h)
            nontrivial += 1
        if len(samples) < 3 and nt:
            samples.append({"hex": inp["hex"], "go": g, "py": p, "js": j, "tag": inp["tag"]})
        replay = {"kind": "bytes", "hex": inp["hex"]}
        if not (g == p == j):
            if j and not g and not p and len(b) < 15:
                key = "js-short-input-no-length-check"
            elif p and not g and not j and not valid_utf8(b[:50]):
                key = "py-lossy-utf8-creates-marker"
            else:
                key = "detect-disagree-go%d-py%d-js%d" % (g, p, j)
            fail("detect-agree", key, "IsLfsEnvelope disagreement on %r: go=%s python=%s js=%s" % (b, g, p, j), replay, len(b))
        if inp["kind"] == "env":
            replay = {"kind": "env", "env": inp["env"]}
            for lang, ok in (("go", g), ("python", p), ("js", j)):
                if not ok:
                    fail("encoded-detected", "encoded-not-detected-" + lang, "EncodeEnvelope output %r is not an envelope for %s" % (b, lang), replay, len(b))
            want = norm_env(inp["env"])
            for lang, dec, err in (("go", inp.get("go_decoded"), inp.get("go_dec_err")), ("python", py[i].get("decoded"), py[i].get("dec_err")),
                                   ("js", js[i].get("decoded"), js[i].get("dec_err"))):
                got = norm_env(dec)
                if got != want:
                    fail("roundtrip", "roundtrip-" + lang, "%s decodes EncodeEnvelope(%r) to %r (error %r)" % (lang, inp["env"], dec, err), replay, len(b))
            cases.append("CEncode %s %s" % (cq_z(inp["env"]["kfs_lfs"]), cq_bytes(b[:64])))  # only the head of the encoding is checked
            jsons.append(json.dumps(replay))
        cases.append("CDetect %s %s %s %s %s" % (cq_bytes(b), cq_bool(g), cq_bool(p), cq_bool(j), cq_bytes(js[i]["units"])))
        jsons.append(json.dumps({"kind": "bytes", "hex": inp["hex"]}))

    # None / null / empty inputs are "not an envelope" everywhere
    if pyx.get("none") or pyx.get("empty") or jsx.get("null") or jsx.get("undefined") or jsx.get("empty"):
        fail("detect-agree", "null-or-empty-detected", "a null/empty value is taken for an envelope: python %r js %r" % (pyx, jsx), {"kind": "bytes", "hex": ""}, 0)

    flist = []
    for (_o, _k), lst in sorted(failures.items()):
        lst.sort(key=lambda t: t[0])
        flist += [f for _, f in lst[:2]]

    files = []
    req = "From KS Require Import lib.Base lib.Strings model.Envelope corr.EnvelopeCorr."
    for s in range(0, max(len(cases), 1), SHARD):
        chunk = cases[s:s + SHARD]
        fn = "cases_C29_%d.v" % (s // SHARD)
        # one Definition per case: a single big list literal makes coqc's parser/elaborator
        # quadratic (500 cases: ~50 s instead of ~4 s)
        body = [req, "Open Scope Z_scope."]
        body += ["(*#%d*) Definition c%d : case := %s." % (s + k, s + k, c) for k, c in enumerate(chunk)]
        body.append("Definition cases : list (case) := [" + "; ".join("c%d" % (s + k) for k in range(len(chunk))) + "].")
        body.append("Definition mism := Eval vm_compute in (map (fun i => i + %d) (mismatches (check_case) cases)).\nPrint mism." % s)
        open(os.path.join(out, fn), "w").write("\n".join(body) + "\n")
        open(os.path.join(out, fn[:-2] + ".jsonl"), "w").write("\n".join(jsons[s:s + SHARD]) + "\n")
        files.append(fn)

    rep = {
        "property": "C29", "evaluations": evaluations, "distinct_nontrivial": nontrivial,
        "rule": "one generated input file run through the real Go (pkg/lfs), Python (lfs_sdk/envelope.py loaded by path) and JS (envelope.ts, types stripped) "
                "code: encoded envelopes with unicode/long keys, byte strings around the 15- and 50-byte boundaries, invalid UTF-8 inside/around the marker; "
                "non-trivial = a real encoded envelope, or starts with the brace and contains a marker fragment; distinct = distinct byte string",
        "samples": samples, "histogram": hist, "failures": flist, "case_files": files, "case_count": len(cases),
        "notes": ["python source: %s" % json.load(open(os.path.join(out, "c29_py.json")))["source"], "js source: %s" % jsd["source"]],
    }
    json.dump(rep, open(os.path.join(out, "result_C29.json"), "w"), indent=1)
    return 0


if __name__ == "__main__":
    sys.exit(main())
