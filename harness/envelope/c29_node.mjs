// C29 harness, stage 3 of 4 (JavaScript).  Strips the types from the REAL
// {REPO}/lfs-client-sdk/js/src/envelope.ts with tools/tsstrip.py (no tsc in the
// sandbox), checks that the result parses (node --check), imports it and runs
// isLfsEnvelope / decodeEnvelope on every input of {OUT}/c29_inputs.json.  Also
// records the UTF-16 code units of new TextDecoder().decode(first 50 bytes) so the
// Coq model of the WHATWG decoder is compared with node's, not only the boolean.
//
// usage: node c29_node.mjs VERIF REPO OUT
import { execFileSync } from 'node:child_process';
import { readFileSync, writeFileSync } from 'node:fs';
import { join } from 'node:path';
import { pathToFileURL } from 'node:url';

const [verif, repo, out] = process.argv.slice(2);
const src = join(repo, 'lfs-client-sdk', 'js', 'src', 'envelope.ts');
const mjs = join(out, 'c29_envelope_stripped.mjs');
execFileSync('python3', [join(verif, 'tools', 'tsstrip.py'), src, mjs], { stdio: 'inherit' });
execFileSync(process.execPath, ['--check', mjs], { stdio: 'inherit' });
const sdk = await import(pathToFileURL(mjs).href);

const data = JSON.parse(readFileSync(join(out, 'c29_inputs.json'), 'utf8'));
const results = [];
for (const inp of data.inputs) {
  const b = Uint8Array.from(Buffer.from(inp.hex, 'hex'));
  const r = { id: inp.id, js: sdk.isLfsEnvelope(b) === true };
  const prefix = new TextDecoder().decode(b.slice(0, Math.min(50, b.length)));
  r.units = Array.from({ length: prefix.length }, (_, i) => prefix.charCodeAt(i));
  if (inp.kind === 'env') {
    try {
      r.decoded = sdk.decodeEnvelope(b);
    } catch (e) {
      r.dec_err = String(e);
    }
  }
  results.push(r);
}
const extra = { null: sdk.isLfsEnvelope(null) === true, undefined: sdk.isLfsEnvelope(undefined) === true, empty: sdk.isLfsEnvelope(new Uint8Array(0)) === true };
writeFileSync(join(out, 'c29_js.json'), JSON.stringify({ source: src, results, extra }));
writeFileSync(join(out, 'result_C29_js.json'), JSON.stringify({
  property: 'C29', evaluations: 0, distinct_nontrivial: 0, rule: '', samples: [], histogram: {}, failures: [],
  case_files: [], case_count: 0, notes: [`stage 3 ran ${results.length} inputs through ${src} (types stripped by tools/tsstrip.py, node ${process.version})`],
}, null, 1));
