package operator

// C39 harness: generated cluster specs and topic lists go through the real
// BuildClusterMetadata and - with controller-runtime's fake client - the real
// reconcileBrokerDeployment / reconcileBrokerHeadlessService; generated names and
// namespaces (unicode, dots, upper case, padding, invalid UTF-8, up to 253 bytes)
// through the real defaultEtcdSnapshotBucket and sanitizeBucketName.
// Implementation-side oracle (CRD-admissible specs: replicas present and >= 1,
// partitions >= 0): one broker per StatefulSet replica, node id i, host = pod i's
// stable DNS name (or the advertised host exactly when the broker container gets
// KAFSCALE_BROKER_HOST); leaders/replicas/ISR among the broker ids; partitions
// 0..n-1; every derived bucket name is 3-63 chars of [a-z0-9-] with alphanumeric ends.

import (
	"context"
	"encoding/json"
	"fmt"
	"strings"
	"testing"

	appsv1 "k8s.io/api/apps/v1"
	corev1 "k8s.io/api/core/v1"
	metav1 "k8s.io/apimachinery/pkg/apis/meta/v1"
	"k8s.io/apimachinery/pkg/runtime"
	"k8s.io/apimachinery/pkg/types"
	"sigs.k8s.io/controller-runtime/pkg/client"
	"sigs.k8s.io/controller-runtime/pkg/client/fake"

	kafscalev1alpha1 "github.com/KafScale/platform/api/v1alpha1"
)

type c39Topic struct {
	Name  string `json:"name"`
	Parts int32  `json:"parts"`
}
type c39Case struct {
	Kind     string     `json:"kind"` // meta bucket sanitize
	Name     string     `json:"name"`
	NS       string     `json:"ns"`
	Replicas *int32     `json:"replicas,omitempty"`
	Host     string     `json:"host,omitempty"`
	Port     *int32     `json:"port,omitempty"`
	UID      string     `json:"uid,omitempty"`
	Topics   []c39Topic `json:"topics,omitempty"`
	Raw      []byte     `json:"raw,omitempty"` // sanitize: raw input bytes; bucket: name/ns may be arbitrary bytes too
	NameB    []byte     `json:"name_b,omitempty"`
	NSB      []byte     `json:"ns_b,omitempty"`
}

func c39Runes(s string) string {
	rs := []rune(s)
	items := make([]string, len(rs))
	for i, r := range rs {
		items[i] = cqZ(int64(r))
	}
	return cqList(items)
}

func c39ValidBucket(b string) string {
	if len(b) > 63 {
		return "bucket-name-too-long"
	}
	if len(b) < 3 {
		return "bucket-name-too-short"
	}
	for i := 0; i < len(b); i++ {
		c := b[i]
		if !(c >= 'a' && c <= 'z' || c >= '0' && c <= '9' || c == '-') {
			return "bucket-name-bad-character"
		}
	}
	if b[0] == '-' || b[len(b)-1] == '-' {
		return "bucket-name-bad-end"
	}
	return ""
}

type c39Out struct {
	coq  string
	key  string
	what string
	tags []string
}

func c39RunMeta(cs c39Case, scheme *runtime.Scheme) c39Out {
	var out c39Out
	cluster := &kafscalev1alpha1.KafscaleCluster{
		ObjectMeta: metav1.ObjectMeta{Name: cs.Name, Namespace: cs.NS, UID: types.UID(cs.UID)},
		Spec: kafscalev1alpha1.KafscaleClusterSpec{
			Brokers: kafscalev1alpha1.BrokerSpec{Replicas: cs.Replicas, AdvertisedHost: cs.Host, AdvertisedPort: cs.Port},
			S3:      kafscalev1alpha1.S3Spec{Bucket: "bucket", Region: "us-east-1"},
		},
	}
	topics := make([]kafscalev1alpha1.KafscaleTopic, len(cs.Topics))
	for i, tp := range cs.Topics {
		topics[i] = kafscalev1alpha1.KafscaleTopic{ObjectMeta: metav1.ObjectMeta{Name: tp.Name, Namespace: cs.NS},
			Spec: kafscalev1alpha1.KafscaleTopicSpec{ClusterRef: cs.Name, Partitions: tp.Parts}}
	}
	fail := func(k, w string) {
		if out.key == "" {
			out.key, out.what = k, w
		}
	}
	admissible := cs.Replicas != nil && *cs.Replicas >= 1
	for _, tp := range cs.Topics {
		if tp.Parts < 0 {
			admissible = false
		}
	}
	// the deployed side
	c := fake.NewClientBuilder().WithScheme(scheme).WithObjects(cluster).Build()
	r := &ClusterReconciler{Client: c, Scheme: scheme}
	stsName, stsNS, stsSvc, stsEnvHost, stsHasHost := "", "", "", "", false
	var stsReplicas int32
	if err := r.reconcileBrokerDeployment(context.Background(), cluster, []string{"http://etcd:2379"}); err != nil {
		fail("reconcile-error", fmt.Sprintf("reconcileBrokerDeployment: %v", err))
	} else {
		var list appsv1.StatefulSetList
		if err := c.List(context.Background(), &list); err != nil || len(list.Items) != 1 {
			fail("reconcile-error", fmt.Sprintf("expected one StatefulSet, got %d (%v)", len(list.Items), err))
		} else {
			sts := list.Items[0]
			stsName, stsNS, stsSvc = sts.Name, sts.Namespace, sts.Spec.ServiceName
			if sts.Spec.Replicas != nil {
				stsReplicas = *sts.Spec.Replicas
			}
			for _, ct := range sts.Spec.Template.Spec.Containers {
				for _, e := range ct.Env {
					if e.Name == "KAFSCALE_BROKER_HOST" {
						stsEnvHost, stsHasHost = e.Value, true
					}
				}
			}
			if err := r.reconcileBrokerHeadlessService(context.Background(), cluster); err != nil {
				fail("reconcile-error", fmt.Sprintf("reconcileBrokerHeadlessService: %v", err))
			} else {
				var svc corev1.Service
				if err := c.Get(context.Background(), client.ObjectKey{Namespace: stsNS, Name: stsSvc}, &svc); err != nil {
					fail("headless-service-missing", fmt.Sprintf("StatefulSet %s names governing service %q which reconcileBrokerHeadlessService did not create: %v", stsName, stsSvc, err))
				} else if svc.Spec.ClusterIP != corev1.ClusterIPNone {
					fail("headless-service-missing", fmt.Sprintf("service %q is not headless (ClusterIP %q)", stsSvc, svc.Spec.ClusterIP))
				}
			}
		}
	}
	// the published side
	panicked := false
	var metaCoq string
	func() {
		defer func() {
			if rec := recover(); rec != nil {
				panicked = true
			}
		}()
		m := BuildClusterMetadata(cluster, topics)
		brokers := make([]string, len(m.Brokers))
		ids := map[int32]bool{}
		for i, b := range m.Brokers {
			brokers[i] = fmt.Sprintf("mkBroker %s %s %s", cqZ(int64(b.NodeID)), cqStr(b.Host), cqZ(int64(b.Port)))
			ids[b.NodeID] = true
		}
		tps := make([]string, len(m.Topics))
		for i, tp := range m.Topics {
			parts := make([]string, len(tp.Partitions))
			for j, p := range tp.Partitions {
				conv := func(v []int32) []int64 {
					o := make([]int64, len(v))
					for k, x := range v {
						o[k] = int64(x)
					}
					return o
				}
				parts[j] = fmt.Sprintf("mkPart %s %s %s %s", cqZ(int64(p.Partition)), cqZ(int64(p.Leader)), cqZs(conv(p.Replicas)), cqZs(conv(p.ISR)))
				if admissible {
					if int(p.Partition) != j {
						fail("partitions-not-dense", fmt.Sprintf("topic %q: partition at position %d has id %d", *tp.Topic, j, p.Partition))
					}
					if !ids[p.Leader] {
						fail("leader-not-a-broker", fmt.Sprintf("topic %q partition %d: leader %d is not a listed broker", *tp.Topic, p.Partition, p.Leader))
					}
					for _, x := range append(append([]int32(nil), p.Replicas...), p.ISR...) {
						if !ids[x] {
							fail("replica-not-a-broker", fmt.Sprintf("topic %q partition %d: replica/ISR %d is not a listed broker", *tp.Topic, p.Partition, x))
						}
					}
				}
			}
			name := ""
			if tp.Topic != nil {
				name = *tp.Topic
			}
			tps[i] = fmt.Sprintf("mkMTopic %s %s %s", cqStr(name), cqZ(int64(tp.ErrorCode)), cqList(parts))
			if admissible && (i >= len(cs.Topics) || name != cs.Topics[i].Name || len(tp.Partitions) != int(cs.Topics[i].Parts)) {
				fail("partitions-not-dense", fmt.Sprintf("rendered topic %d is %q with %d partitions, spec says %v", i, name, len(tp.Partitions), cs.Topics))
			}
		}
		if admissible {
			if len(m.Topics) != len(cs.Topics) {
				fail("partitions-not-dense", fmt.Sprintf("%d topics rendered for %d topic specs", len(m.Topics), len(cs.Topics)))
			}
			if int32(len(m.Brokers)) != stsReplicas {
				fail("broker-count-differs", fmt.Sprintf("metadata lists %d brokers, the StatefulSet has %d replicas", len(m.Brokers), stsReplicas))
			}
			for i, b := range m.Brokers {
				want := fmt.Sprintf("%s-%d.%s.%s.svc.cluster.local", stsName, i, stsSvc, stsNS)
				if stsHasHost {
					want = stsEnvHost
				}
				if int(b.NodeID) != i || b.Host != want {
					fail("broker-address-differs", fmt.Sprintf("broker %d: node id %d host %q, pod %d of the StatefulSet is reachable at %q", i, b.NodeID, b.Host, i, want))
				}
			}
		}
		opt := func(p *string) string {
			if p == nil {
				return "None"
			}
			return "(Some " + cqStr(*p) + ")"
		}
		metaCoq = fmt.Sprintf("(mkMeta %s %s %s %s %s)", cqList(brokers), cqZ(int64(m.ControllerID)), cqList(tps), opt(m.ClusterName), opt(m.ClusterID))
	}()
	if panicked {
		metaCoq = "(mkMeta [] 0 [] None None)"
		if admissible {
			fail("metadata-panic", "BuildClusterMetadata panicked on an admissible spec")
		}
		out.tags = append(out.tags, "meta:panic")
	}
	tpc := make([]string, len(cs.Topics))
	for i, tp := range cs.Topics {
		tpc[i] = fmt.Sprintf("mkTopic %s %s", cqStr(tp.Name), cqZ(int64(tp.Parts)))
	}
	optZ := func(p *int32) string {
		if p == nil {
			return "None"
		}
		return "(Some " + cqZ(int64(*p)) + ")"
	}
	spec := fmt.Sprintf("(mkSpec %s %s %s %s %s %s)", cqStr(cs.Name), cqStr(cs.NS), optZ(cs.Replicas), cqStr(cs.Host), optZ(cs.Port), cqStr(cs.UID))
	trims := fmt.Sprintf("[(%s, %s)]", cqStr(cs.Host), cqStr(strings.TrimSpace(cs.Host)))
	sts := fmt.Sprintf("(mkSts %s %s %s %s %s)", cqStr(stsName), cqStr(stsNS), cqStr(stsSvc), cqZ(int64(stsReplicas)), cqOpt(stsHasHost, cqStr(stsEnvHost)))
	out.coq = fmt.Sprintf("KMeta %s %s %s %s %s %s", spec, cqList(tpc), trims, cqBool(panicked), metaCoq, sts)
	if admissible {
		out.tags = append(out.tags, "meta:admissible")
		if stsHasHost {
			out.tags = append(out.tags, "meta:advertised-host")
		} else {
			out.tags = append(out.tags, "meta:pod-dns")
		}
	} else {
		out.tags = append(out.tags, "meta:outside-crd")
	}
	return out
}

func c39RunBucket(cs c39Case) c39Out {
	var out c39Out
	name, ns := string(cs.NameB), string(cs.NSB)
	cluster := &kafscalev1alpha1.KafscaleCluster{ObjectMeta: metav1.ObjectMeta{Name: name, Namespace: ns}}
	got := defaultEtcdSnapshotBucket(cluster)
	if k := c39ValidBucket(got); k != "" {
		out.key, out.what = k, fmt.Sprintf("defaultEtcdSnapshotBucket(namespace %q (%d bytes), name %q (%d bytes)) = %q (%d bytes): not a valid S3 bucket name", ns, len(ns), name, len(name), got, len(got))
	}
	tn, tns := strings.TrimSpace(name), strings.TrimSpace(ns)
	raw := ""
	switch {
	case tn == "" && tns == "":
	case tns == "":
		raw = "kafscale-etcd-" + tn
	case tn == "":
		raw = "kafscale-etcd-" + tns
	default:
		raw = "kafscale-etcd-" + tns + "-" + tn
	}
	lowers := "[]"
	if raw != "" {
		lowers = fmt.Sprintf("[(%s, %s)]", cqStr(raw), c39Runes(strings.ToLower(strings.TrimSpace(raw))))
	}
	trims := fmt.Sprintf("[(%s, %s); (%s, %s)]", cqStr(name), cqStr(tn), cqStr(ns), cqStr(tns))
	out.coq = fmt.Sprintf("KBucket %s %s %s %s %s", cqStr(name), cqStr(ns), trims, lowers, cqStr(got))
	switch {
	case len(raw) > 63:
		out.tags = append(out.tags, "bucket:long-input")
	case raw == "":
		out.tags = append(out.tags, "bucket:empty-input")
	default:
		out.tags = append(out.tags, "bucket:short-input")
	}
	for i := 0; i < len(raw); i++ {
		if raw[i] >= 0x80 {
			out.tags = append(out.tags, "bucket:non-ascii")
			break
		}
	}
	return out
}

func c39RunSanitize(cs c39Case) c39Out {
	raw := string(cs.Raw)
	got := sanitizeBucketName(raw)
	return c39Out{coq: fmt.Sprintf("KSanitize %s [(%s, %s)] %s", cqStr(raw), cqStr(raw), c39Runes(strings.ToLower(strings.TrimSpace(raw))), cqStr(got)),
		tags: []string{"sanitize:direct"}}
}

var c39NamePool = []string{"demo", "prod-eu", "k", "kafscale", "a-b-c", "cluster-0123456789-0123456789-0123456789-0123456789x"}

func c39GenString(r *vRand) []byte {
	alphabets := []string{"abcxyz019-", "ABCxyz_.-", "a.b_c D", "éÉ日本KKİß", "-!@#", " \t\n"}
	switch r.Intn(12) {
	case 0:
		return nil
	case 1:
		return []byte(c39NamePool[r.Intn(len(c39NamePool))])
	case 2:
		return []byte(strings.Repeat("n", r.Range(40, 66)))
	case 3: // DNS-1123 label/subdomain limits
		return []byte(strings.Repeat("abcdefghi-", 26)[:[]int{63, 130, 50, 62, 49, 64}[r.Intn(6)]])
	case 4:
		return append([]byte("bad\xff\xfeutf"), r.Bytes(r.Range(0, 4))...)
	}
	n := r.Range(1, 30)
	if r.Chance(10) {
		n = r.Range(40, 90)
	}
	var sb strings.Builder
	mix := r.Chance(30)
	al := []rune(alphabets[r.Intn(len(alphabets))])
	for i := 0; i < n; i++ {
		if mix {
			al = []rune(alphabets[r.Intn(len(alphabets))])
		}
		sb.WriteRune(al[r.Intn(len(al))])
	}
	s := sb.String()
	if r.Chance(15) {
		s = "  " + s + "\t"
	}
	return []byte(s)
}

func c39Gen(r *vRand, i int) c39Case {
	switch i % 4 {
	case 0, 1:
		cs := c39Case{Kind: "meta", Name: c39NamePool[r.Intn(len(c39NamePool))], NS: []string{"default", "kafka", "ns-1"}[r.Intn(3)]}
		if !r.Chance(8) {
			v := []int32{1, 1, 2, 3, 3, 5, 9, 0, -1}[r.Intn(9)]
			cs.Replicas = &v
		}
		cs.Host = []string{"", "", " ", "kafka.example.com", " 10.0.0.1 ", "host\t", "lb.internal"}[r.Intn(7)]
		if r.Chance(60) {
			v := []int32{9092, 19092, 0, -5, 443}[r.Intn(5)]
			cs.Port = &v
		}
		if r.Bool() {
			cs.UID = "uid-" + fmt.Sprint(r.Intn(1000))
		}
		nt := r.Range(0, 3)
		for j := 0; j < nt; j++ {
			p := []int32{1, 1, 3, 6, 12, 0}[r.Intn(6)]
			if r.Chance(3) {
				p = -1
			}
			cs.Topics = append(cs.Topics, c39Topic{Name: []string{"orders", "events", "t.x", ""}[r.Intn(4)], Parts: p})
		}
		return cs
	case 2:
		return c39Case{Kind: "bucket", NameB: c39GenString(r), NSB: c39GenString(r)}
	}
	return c39Case{Kind: "sanitize", Raw: c39GenString(r)}
}

func TestVerifC39(t *testing.T) {
	rep := vNewReport("C39", "generated cluster specs (replicas nil/-1/0/1/2/3/5/9, advertised host empty/padded/set, ports nil/<=0/set, 0-3 topics with 0-12 partitions, rarely negative) through the real BuildClusterMetadata and, with the fake client, reconcileBrokerDeployment + reconcileBrokerHeadlessService; generated names/namespaces (ASCII, upper case, dots, underscores, unicode incl. letters whose lower case is ASCII, symbols, white space, invalid UTF-8, 0-253 bytes, mostly under 70) through the real defaultEtcdSnapshotBucket, and raw strings through sanitizeBucketName; a case is non-trivial when it is an admissible metadata case with >= 2 brokers or a topic, or a bucket case whose raw name needs sanitising (non-ASCII, over 63 bytes) ; distinct = distinct canonical case")
	scheme := testScheme(t)
	coqBy, jsonBy := map[string][]string{}, map[string][]string{}
	runOne := func(cs c39Case) {
		var out c39Out
		switch cs.Kind {
		case "meta":
			out = c39RunMeta(cs, scheme)
		case "bucket":
			out = c39RunBucket(cs)
		default:
			out = c39RunSanitize(cs)
		}
		canon, _ := json.Marshal(cs)
		nt := false
		for _, tg := range out.tags {
			rep.Hist(tg)
			if tg == "bucket:non-ascii" || tg == "bucket:long-input" {
				nt = true
			}
			if tg == "meta:admissible" && (len(cs.Topics) > 0 || *cs.Replicas >= 2) {
				nt = true
			}
		}
		rep.Count(string(canon), nt)
		if cs.Kind != "sanitize" {
			rep.Sample(cs)
		}
		if out.key != "" {
			shr := cs
			if cs.Kind == "bucket" { // shrink: shorten name and namespace while the same failure persists
				for changed := true; changed; {
					changed = false
					for _, f := range []*[]byte{&shr.NameB, &shr.NSB} {
						for len(*f) > 0 {
							old := *f
							*f = old[:len(old)-1]
							if o2 := c39RunBucket(shr); o2.key != out.key {
								*f = old
								break
							}
							changed = true
						}
					}
				}
				out = c39RunBucket(shr)
			} else if cs.Kind == "meta" {
				for len(shr.Topics) > 0 {
					c2 := shr
					c2.Topics = shr.Topics[:len(shr.Topics)-1]
					if o2 := c39RunMeta(c2, scheme); o2.key != out.key {
						break
					}
					shr = c2
				}
				out = c39RunMeta(shr, scheme)
			}
			rep.Fail(out.key, out.key, out.what, shr)
			out2 := out
			_ = out2
		}
		// the emitted case is the original one
		var term string
		switch cs.Kind {
		case "meta":
			term = c39RunMeta(cs, scheme).coq
		case "bucket":
			term = c39RunBucket(cs).coq
		default:
			term = c39RunSanitize(cs).coq
		}
		coqBy[cs.Kind] = append(coqBy[cs.Kind], term)
		jsonBy[cs.Kind] = append(jsonBy[cs.Kind], string(canon))
	}
	if rc := vReplayCase(); rc != nil {
		var cs c39Case
		if err := json.Unmarshal(rc, &cs); err != nil {
			t.Fatalf("bad replay: %v", err)
		}
		runOne(cs)
	} else {
		i32 := func(v int32) *int32 { return &v }
		corpus := []c39Case{
			// fixed finding: 63-character namespace + 50-character name gave a 128-character bucket name
			{Kind: "bucket", NSB: []byte(strings.Repeat("n", 63)), NameB: []byte(strings.Repeat("c", 50))},
			// DNS-1123 subdomain limit for the name, label limit for the namespace
			{Kind: "bucket", NSB: []byte(strings.Repeat("abcdefghi-", 7)[:63]), NameB: []byte(strings.Repeat("abcdefghi.", 26)[:253])},
			// truncation lands on a '-'
			{Kind: "bucket", NSB: []byte(strings.Repeat("n", 48)), NameB: []byte("-x")},
			{Kind: "bucket", NSB: []byte("Prod.EU"), NameB: []byte("My_Cluster")},
			{Kind: "bucket"},
			{Kind: "sanitize", Raw: []byte("a")},
			{Kind: "meta", Name: "demo", NS: "default", Replicas: i32(3), Host: "kafka.example.com", Topics: []c39Topic{{Name: "orders", Parts: 5}}},
			{Kind: "meta", Name: "demo", NS: "default", Replicas: i32(1), Host: " kafka.example.com ", Port: i32(19092), UID: "u1"},
			// outside the CRD schema: absent replicas (metadata says 1 broker, the StatefulSet gets 3)
			{Kind: "meta", Name: "demo", NS: "default"},
		}
		for _, cs := range corpus {
			runOne(cs)
		}
		r := vNewRand(vSeed())
		n := vN(240, 2400)
		for i := 0; i < n; i++ {
			runOne(c39Gen(r.Fork(), i))
		}
	}
	for _, k := range []string{"meta", "bucket", "sanitize"} {
		if len(coqBy[k]) > 0 {
			rep.Cases("C39_"+k, "From KS Require Import lib.Base lib.Strings model.Operator corr.OperatorCorr.", "case", "check_case", coqBy[k], jsonBy[k])
		}
	}
	rep.Write()
	if len(rep.Failures) > 0 {
		t.Logf("oracle failures: %s", strings.TrimSpace(rep.Failures[0].What))
	}
}
