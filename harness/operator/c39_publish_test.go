package operator

// C39 harness, publish path: sequences of operator publishes (replicas scaled up and
// down, topics added and removed) interleaved with broker-side changes of the stored
// snapshot.  A publish is the real BuildClusterMetadata followed by the real
// mergeSnapshots with the stored snapshot (JSON round trip in between, as etcd does)
// or, for part of the sequences, the real PublishMetadataSnapshot against embedded
// etcd.  Broker-side changes use the real metadata.InMemoryStore (CreatePartitions,
// CreateTopic, DeleteTopic) on the stored snapshot.  Implementation-side oracle on the
// snapshot after every publish: brokers = spec replicas with node ids 0..r-1, every
// leader / replica / ISR id is a listed broker, partitions are numbered 0..n-1.

import (
	"context"
	"encoding/json"
	"fmt"
	"strings"
	"testing"
	"time"

	clientv3 "go.etcd.io/etcd/client/v3"
	metav1 "k8s.io/apimachinery/pkg/apis/meta/v1"

	kafscalev1alpha1 "github.com/KafScale/platform/api/v1alpha1"
	"github.com/KafScale/platform/internal/testutil"
	"github.com/KafScale/platform/pkg/metadata"
)

type c39PEv struct {
	Kind     string     `json:"kind"` // publish grow create delete seterr
	Replicas int32      `json:"replicas,omitempty"`
	Topics   []c39Topic `json:"topics,omitempty"`
	Name     string     `json:"name,omitempty"`
	N        int32      `json:"n,omitempty"`
	Code     int16      `json:"code,omitempty"`
}
type c39Seq struct {
	Etcd   bool     `json:"etcd"` // publish through the real PublishMetadataSnapshot + embedded etcd
	Events []c39PEv `json:"events"`
}

const c39SnapshotKey = "/kafscale/metadata/snapshot"

func c39MetaCoq(m metadata.ClusterMetadata) string {
	brokers := make([]string, len(m.Brokers))
	for i, b := range m.Brokers {
		brokers[i] = fmt.Sprintf("mkBroker %s %s %s", cqZ(int64(b.NodeID)), cqStr(b.Host), cqZ(int64(b.Port)))
	}
	conv := func(v []int32) []int64 {
		o := make([]int64, len(v))
		for k, x := range v {
			o[k] = int64(x)
		}
		return o
	}
	tps := make([]string, len(m.Topics))
	for i, tp := range m.Topics {
		parts := make([]string, len(tp.Partitions))
		for j, p := range tp.Partitions {
			parts[j] = fmt.Sprintf("mkPart %s %s %s %s", cqZ(int64(p.Partition)), cqZ(int64(p.Leader)), cqZs(conv(p.Replicas)), cqZs(conv(p.ISR)))
		}
		name := ""
		if tp.Topic != nil {
			name = *tp.Topic
		}
		tps[i] = fmt.Sprintf("mkMTopic %s %s %s", cqStr(name), cqZ(int64(tp.ErrorCode)), cqList(parts))
	}
	opt := func(p *string) string {
		if p == nil {
			return "None"
		}
		return "(Some " + cqStr(*p) + ")"
	}
	return fmt.Sprintf("(mkMeta %s %s %s %s %s)", cqList(brokers), cqZ(int64(m.ControllerID)), cqList(tps), opt(m.ClusterName), opt(m.ClusterID))
}

// oracle on a published snapshot
func c39CheckPublished(m metadata.ClusterMetadata, replicas int32) (string, string) {
	if int32(len(m.Brokers)) != replicas {
		return "published-broker-count", fmt.Sprintf("published snapshot lists %d brokers, spec.brokers.replicas = %d", len(m.Brokers), replicas)
	}
	ids := map[int32]bool{}
	for i, b := range m.Brokers {
		if int(b.NodeID) != i {
			return "published-broker-count", fmt.Sprintf("broker at position %d has node id %d", i, b.NodeID)
		}
		ids[b.NodeID] = true
	}
	for _, tp := range m.Topics {
		for j, p := range tp.Partitions {
			if int(p.Partition) != j {
				return "published-partitions-not-dense", fmt.Sprintf("topic %q: partition at position %d has id %d", *tp.Topic, j, p.Partition)
			}
			if !ids[p.Leader] {
				return "published-leader-not-a-broker", fmt.Sprintf("topic %q partition %d is led by broker %d, but the published snapshot lists brokers 0..%d", *tp.Topic, p.Partition, p.Leader, replicas-1)
			}
			for _, x := range append(append([]int32(nil), p.Replicas...), p.ISR...) {
				if !ids[x] {
					return "published-replica-not-a-broker", fmt.Sprintf("topic %q partition %d names broker %d as replica/ISR, but the published snapshot lists brokers 0..%d", *tp.Topic, p.Partition, x, replicas-1)
				}
			}
		}
	}
	return "", ""
}

type c39SeqOut struct {
	coq       string
	key, what string
	tags      map[string]bool
}

func c39RunSeq(t *testing.T, sq c39Seq, endpoints []string) c39SeqOut {
	out := c39SeqOut{tags: map[string]bool{}}
	ctx := context.Background()
	var cli *clientv3.Client
	if sq.Etcd && len(endpoints) > 0 {
		var err error
		cli, err = clientv3.New(clientv3.Config{Endpoints: endpoints, DialTimeout: 5 * time.Second})
		if err != nil {
			t.Fatalf("etcd client: %v", err)
		}
		defer func() { _ = cli.Close() }()
		if _, err := cli.Delete(ctx, c39SnapshotKey); err != nil {
			t.Fatalf("etcd delete: %v", err)
		}
	}
	stored := metadata.ClusterMetadata{}
	hasStored := false
	roundTrip := func(m metadata.ClusterMetadata) metadata.ClusterMetadata {
		b, err := json.Marshal(m)
		if err != nil {
			t.Fatalf("marshal: %v", err)
		}
		var o metadata.ClusterMetadata
		if err := json.Unmarshal(b, &o); err != nil {
			t.Fatalf("unmarshal: %v", err)
		}
		return o
	}
	put := func(m metadata.ClusterMetadata) {
		if cli != nil {
			b, _ := json.Marshal(m)
			if _, err := cli.Put(ctx, c39SnapshotKey, string(b)); err != nil {
				t.Fatalf("etcd put: %v", err)
			}
		}
	}
	var evs, obs []string
	maxReplicas, grown := int32(0), false
	for i, ev := range sq.Events {
		switch ev.Kind {
		case "publish":
			r := ev.Replicas
			cluster := &kafscalev1alpha1.KafscaleCluster{ObjectMeta: metav1.ObjectMeta{Name: "demo", Namespace: "ns"},
				Spec: kafscalev1alpha1.KafscaleClusterSpec{Brokers: kafscalev1alpha1.BrokerSpec{Replicas: &r}}}
			topics := make([]kafscalev1alpha1.KafscaleTopic, len(ev.Topics))
			tpc := make([]string, len(ev.Topics))
			for j, tp := range ev.Topics {
				topics[j] = kafscalev1alpha1.KafscaleTopic{ObjectMeta: metav1.ObjectMeta{Name: tp.Name, Namespace: "ns"},
					Spec: kafscalev1alpha1.KafscaleTopicSpec{ClusterRef: "demo", Partitions: tp.Parts}}
				tpc[j] = fmt.Sprintf("mkTopic %s %s", cqStr(tp.Name), cqZ(int64(tp.Parts)))
			}
			next := BuildClusterMetadata(cluster, topics)
			if cli != nil {
				if err := PublishMetadataSnapshot(ctx, endpoints, next); err != nil {
					t.Fatalf("PublishMetadataSnapshot: %v", err)
				}
				resp, err := cli.Get(ctx, c39SnapshotKey)
				if err != nil || len(resp.Kvs) != 1 {
					t.Fatalf("etcd get: %v (%d kvs)", err, len(resp.Kvs))
				}
				var got metadata.ClusterMetadata
				if err := json.Unmarshal(resp.Kvs[0].Value, &got); err != nil {
					t.Fatalf("stored snapshot does not decode: %v", err)
				}
				stored = got
			} else {
				if hasStored {
					next = mergeSnapshots(next, stored)
				}
				stored = roundTrip(next)
			}
			hasStored = true
			if r < maxReplicas {
				out.tags["seq:scale-down"] = true
				if grown {
					out.tags["seq:scale-down-after-broker-change"] = true
				}
			}
			if r > maxReplicas {
				maxReplicas = r
			}
			if k, w := c39CheckPublished(stored, r); k != "" && out.key == "" {
				out.key, out.what = k, fmt.Sprintf("event %d (publish, replicas %d): %s", i, r, w)
			}
			evs = append(evs, fmt.Sprintf("PPublish (mkSpec %s %s (Some %s) [] None []) %s", cqStr("demo"), cqStr("ns"), cqZ(int64(r)), cqList(tpc)))
		case "grow", "create", "delete":
			st := metadata.NewInMemoryStore(stored)
			var err error
			switch ev.Kind {
			case "grow":
				err = st.CreatePartitions(ctx, ev.Name, ev.N)
				evs = append(evs, fmt.Sprintf("PGrow %s %s", cqStr(ev.Name), cqZ(int64(ev.N))))
			case "create":
				_, err = st.CreateTopic(ctx, metadata.TopicSpec{Name: ev.Name, NumPartitions: ev.N, ReplicationFactor: 1})
				evs = append(evs, fmt.Sprintf("PCreate %s %s", cqStr(ev.Name), cqZ(int64(ev.N))))
			case "delete":
				err = st.DeleteTopic(ctx, ev.Name)
				evs = append(evs, fmt.Sprintf("PDelete %s", cqStr(ev.Name)))
			}
			if err == nil {
				grown = true
				out.tags["seq:broker-"+ev.Kind] = true
			}
			m, _ := st.Metadata(ctx, nil)
			stored = roundTrip(*m)
			put(stored)
		case "seterr":
			for j := range stored.Topics {
				if stored.Topics[j].Topic != nil && *stored.Topics[j].Topic == ev.Name {
					stored.Topics[j].ErrorCode = ev.Code
					break
				}
			}
			stored = roundTrip(stored)
			put(stored)
			evs = append(evs, fmt.Sprintf("PSetErr %s %s", cqStr(ev.Name), cqZ(int64(ev.Code))))
		default:
			t.Fatalf("bad event %q", ev.Kind)
		}
		obs = append(obs, c39MetaCoq(stored))
	}
	if cli != nil {
		out.tags["seq:real-etcd-publish"] = true
	}
	out.coq = fmt.Sprintf("KSeq %s %s", cqList(evs), cqList(obs))
	return out
}

var c39TopicNames = []string{"orders", "events", "x", "byapi", "logs"}

func c39GenSeq(r *vRand, etcd bool) c39Seq {
	sq := c39Seq{Etcd: etcd}
	pub := func() c39PEv {
		ev := c39PEv{Kind: "publish", Replicas: []int32{1, 2, 2, 3, 3, 5}[r.Intn(6)]}
		for _, n := range c39TopicNames[:3] {
			if r.Chance(60) {
				ev.Topics = append(ev.Topics, c39Topic{Name: n, Parts: []int32{1, 2, 3, 3, 6}[r.Intn(5)]})
			}
		}
		return ev
	}
	sq.Events = append(sq.Events, pub())
	n := r.Range(2, 9)
	if etcd {
		n = r.Range(2, 5)
	}
	for i := 0; i < n; i++ {
		switch x := r.Intn(100); {
		case x < 40:
			sq.Events = append(sq.Events, pub())
		case x < 65:
			sq.Events = append(sq.Events, c39PEv{Kind: "grow", Name: c39TopicNames[r.Intn(4)], N: int32(r.Range(0, 9))})
		case x < 80:
			sq.Events = append(sq.Events, c39PEv{Kind: "create", Name: c39TopicNames[r.Range(2, 4)], N: int32(r.Range(0, 4))})
		case x < 92:
			sq.Events = append(sq.Events, c39PEv{Kind: "delete", Name: c39TopicNames[r.Intn(5)]})
		default:
			sq.Events = append(sq.Events, c39PEv{Kind: "seterr", Name: c39TopicNames[r.Intn(5)], Code: []int16{3, 0}[r.Intn(2)]})
		}
	}
	if r.Chance(70) {
		sq.Events = append(sq.Events, pub())
	}
	return sq
}

func TestVerifC39Publish(t *testing.T) {
	rep := vNewReport("C39", "generated publish sequences (3-11 events: operator publishes with replicas 1/2/3/5 scaled up and down and 0-3 CRD topics of 1-6 partitions added/removed, interleaved with broker-side CreatePartitions / CreateTopic / DeleteTopic on the stored snapshot through the real InMemoryStore and error-marked stored entries) through the real BuildClusterMetadata + mergeSnapshots, and for a share of the sequences through the real PublishMetadataSnapshot against embedded etcd; a sequence is non-trivial when a publish with fewer replicas follows a broker-side change; distinct = distinct canonical sequence")
	var endpoints []string
	replay := vReplayCase()
	nEtcd := vN(12, 60)
	if replay == nil || strings.Contains(string(replay), `"etcd":true`) {
		endpoints = testutil.StartEmbeddedEtcd(t)
	}
	var coq, jsons []string
	runOne := func(sq c39Seq) {
		out := c39RunSeq(t, sq, endpoints)
		canon, _ := json.Marshal(sq)
		rep.Count(string(canon), out.tags["seq:scale-down-after-broker-change"])
		for tg := range out.tags {
			rep.Hist(tg)
		}
		rep.Sample(sq)
		if out.key != "" {
			shr := sq
			shr.Etcd = false
			shr.Events = vShrink(sq.Events, func(evs []c39PEv) bool {
				o2 := c39RunSeq(t, c39Seq{Events: evs}, nil)
				return o2.key == out.key
			})
			o2 := c39RunSeq(t, shr, nil)
			what := o2.what
			if o2.key != out.key {
				shr, what = sq, out.what
			}
			rep.Fail(out.key, out.key, what, shr)
		}
		coq = append(coq, out.coq)
		jsons = append(jsons, string(canon))
	}
	if replay != nil {
		var sq c39Seq
		if err := json.Unmarshal(replay, &sq); err == nil && len(sq.Events) > 0 {
			runOne(sq)
		}
	} else {
		x3 := []c39Topic{{Name: "x", Parts: 3}}
		corpus := []c39Seq{
			// fixed finding: a broker grows x under 3 replicas, the cluster is scaled to 2, the operator publishes
			{Events: []c39PEv{{Kind: "publish", Replicas: 3, Topics: x3}, {Kind: "grow", Name: "x", N: 6}, {Kind: "publish", Replicas: 2, Topics: x3}}},
			// a topic only the snapshot knows (removed from the CRDs) keeps ids of the old broker set
			{Events: []c39PEv{{Kind: "publish", Replicas: 3, Topics: []c39Topic{{Name: "x", Parts: 3}, {Name: "orders", Parts: 3}}}, {Kind: "publish", Replicas: 2, Topics: x3}}},
			// equal partition counts: the rendered list wins (scale down, then up)
			{Events: []c39PEv{{Kind: "publish", Replicas: 3, Topics: x3}, {Kind: "publish", Replicas: 2, Topics: x3}, {Kind: "publish", Replicas: 3, Topics: x3}}},
			{Etcd: true, Events: []c39PEv{{Kind: "publish", Replicas: 3, Topics: x3}, {Kind: "grow", Name: "x", N: 5}, {Kind: "create", Name: "byapi", N: 2}, {Kind: "publish", Replicas: 2, Topics: x3}, {Kind: "seterr", Name: "byapi", Code: 3}, {Kind: "publish", Replicas: 1}}},
		}
		for _, sq := range corpus {
			runOne(sq)
		}
		r := vNewRand(vSeed() ^ 0x39)
		n := vN(150, 1500)
		for i := 0; i < n; i++ {
			runOne(c39GenSeq(r.Fork(), i < nEtcd))
		}
	}
	rep.Cases("C39_publish", "From KS Require Import lib.Base lib.Strings model.Operator corr.OperatorCorr.", "case", "check_case", coq, jsons)
	rep.WriteAs("C39_publish")
	if len(rep.Failures) > 0 {
		t.Logf("oracle failures: %s", strings.TrimSpace(rep.Failures[0].What))
	}
}
