package broker

// C25 harness, monitor half (pkg/broker/s3_health.go): generated threshold
// configurations (incl. exact boundaries such as 0.2 vs 1/5, inverted warn > crit,
// zero / negative / NaN / infinite thresholds, MaxSamples 1..6 or default, tiny
// windows) and outcome/latency sequences on the REAL S3HealthMonitor under
// testing/synctest virtual time (time.Now advances only through time.Sleep, so every
// timestamp is exact). Oracle, on what the real monitor held after every event:
//   window-only    : sample count / avgLatency / errorRate are those of the samples
//                    with ts > now-window among the last MaxSamples recorded, and a
//                    FRESH monitor fed only those samples reports the same state;
//   rating-monotone: for any two observations of the case, avg <= avg' and
//                    rate <= rate' imply rank(state) <= rank(state').
// Every history + observations is emitted for the Coq correspondence (HealthCorr.v).

import (
	"encoding/json"
	"errors"
	"fmt"
	"math"
	"strings"
	"testing"
	"testing/synctest"
	"time"
)

type c25Ev struct {
	Dt  int64 `json:"dt"` // ns slept before the event
	Rec bool  `json:"rec"`
	Lat int64 `json:"lat,omitempty"`
	Err bool  `json:"err,omitempty"`
}
type c25Case struct {
	Kind   string  `json:"kind"` // "monitor"
	Window int64   `json:"window"`
	LWarn  int64   `json:"lwarn"`
	LCrit  int64   `json:"lcrit"`
	EWarn  uint64  `json:"ewarn_bits"` // math.Float64bits
	ECrit  uint64  `json:"ecrit_bits"`
	Max    int     `json:"max"`
	Evs    []c25Ev `json:"evs"`
}
type c25Obs struct {
	now   int64
	state int
	avg   int64
	rate  float64
	n     int
}

func c25Rank(s S3HealthState) int {
	switch s {
	case S3StateHealthy:
		return 0
	case S3StateDegraded:
		return 1
	case S3StateUnavailable:
		return 2
	}
	return -1
}

func (c c25Case) cfg() S3HealthConfig {
	return S3HealthConfig{Window: time.Duration(c.Window), LatencyWarn: time.Duration(c.LWarn), LatencyCrit: time.Duration(c.LCrit),
		ErrorWarn: math.Float64frombits(c.EWarn), ErrorCrit: math.Float64frombits(c.ECrit), MaxSamples: c.Max}
}

type c25Smp struct {
	ts, lat int64
	err     bool
}

// c25Run must be called inside a synctest bubble.
func c25Run(c c25Case) ([]c25Obs, string, string, map[string]bool) {
	tags := map[string]bool{}
	fail, key := "", ""
	setFail := func(k, f string) {
		if fail == "" {
			fail, key = f, k
		}
	}
	m := NewS3HealthMonitor(c.cfg())
	base := time.Now()
	winEff, maxEff := c.Window, c.Max
	if winEff <= 0 {
		winEff = int64(time.Minute)
	}
	if maxEff <= 0 {
		maxEff = 512
	}
	var all []c25Smp
	var obs []c25Obs
	boom := errors.New("boom")
	for i, e := range c.Evs {
		time.Sleep(time.Duration(e.Dt))
		now := int64(time.Since(base))
		var st S3HealthState
		if e.Rec {
			var err error
			if e.Err {
				err = boom
			}
			m.RecordOperation("op", time.Duration(e.Lat), err)
			all = append(all, c25Smp{now, e.Lat, e.Err})
			m.mu.Lock()
			st = m.state
			m.mu.Unlock()
		} else {
			st = m.State()
		}
		m.mu.Lock()
		o := c25Obs{now: now, state: c25Rank(m.state), avg: int64(m.avgLatency), rate: m.errorRate, n: len(m.samples)}
		m.mu.Unlock()
		if c25Rank(st) != o.state {
			setFail("state-field", fmt.Sprintf("event %d: State() returned %s but the field says rank %d", i, st, o.state))
		}
		obs = append(obs, o)
		// --- window-only: recompute from the statement's sample set
		lastN := all
		if len(lastN) > maxEff {
			lastN = lastN[len(lastN)-maxEff:]
		}
		var win []c25Smp
		for _, s := range lastN {
			if s.ts > now-winEff {
				win = append(win, s)
			}
		}
		if len(win) < len(all) {
			tags["truncated"] = true
		}
		var sum int64
		errs := 0
		for _, s := range win {
			sum += s.lat // int64 wrap, as the code's Duration sum
			if s.err {
				errs++
			}
		}
		wantAvg, wantRate := int64(0), 0.0
		if len(win) > 0 {
			wantAvg = sum / int64(len(win))
			wantRate = float64(errs) / float64(len(win))
		}
		if o.n != len(win) || o.avg != wantAvg || o.rate != wantRate {
			setFail("window-only", fmt.Sprintf("event %d at t=%d: monitor holds n=%d avg=%d rate=%v; the in-window samples among the last %d are n=%d avg=%d rate=%v", i, now, o.n, o.avg, o.rate, maxEff, len(win), wantAvg, wantRate))
		}
		// a fresh monitor that sees only the in-window samples must agree on the state
		fresh := NewS3HealthMonitor(c.cfg())
		for _, s := range win {
			var err error
			if s.err {
				err = boom
			}
			fresh.RecordOperation("op", time.Duration(s.lat), err)
		}
		if winEff > 0 && len(win) <= maxEff {
			if fs := c25Rank(fresh.State()); fs != o.state {
				setFail("window-only-fresh", fmt.Sprintf("event %d: state rank %d, but a fresh monitor fed only the %d in-window samples says %d", i, o.state, len(win), fs))
			}
		}
		tags[fmt.Sprintf("state%d", o.state)] = true
	}
	// --- rating monotone over all pairs of observations with samples
	for i := range obs {
		for j := range obs {
			a, b := obs[i], obs[j]
			if a.n == 0 || b.n == 0 {
				continue
			}
			if a.avg <= b.avg && a.rate <= b.rate && a.state > b.state {
				setFail("rating-monotone", fmt.Sprintf("obs %d (avg=%d rate=%v) rated %d, obs %d (avg=%d rate=%v) rated %d", i, a.avg, a.rate, a.state, j, b.avg, b.rate, b.state))
			}
		}
	}
	return obs, fail, key, tags
}

var c25Floats = []float64{0.2, 0.25, 1.0 / 3, 0.5, 0.6, 1.0, 0.1 + 0.2, 0, -1, math.NaN(), math.Inf(1), math.Inf(-1), 2.0, 1e-300, 0.19999999999999998, 0.20000000000000004, 2.0 / 3, 0.75, math.Copysign(0, -1), 5e-324}

func c25Gen(r *vRand) c25Case {
	c := c25Case{}
	switch r.Intn(5) {
	case 0:
		c.Window = int64(r.Range(-1, 0)) // default one minute
	default:
		c.Window = int64(r.Range(1, 120))
	}
	lat := func() int64 {
		switch r.Intn(6) {
		case 0:
			return int64(r.Range(-2, 0)) // default
		case 1:
			return 500000000
		case 2:
			return 3000000000
		default:
			return int64(r.Range(1, 60)) * 100
		}
	}
	c.LWarn, c.LCrit = lat(), lat()
	c.EWarn = math.Float64bits(c25Floats[r.Intn(len(c25Floats))])
	c.ECrit = math.Float64bits(c25Floats[r.Intn(len(c25Floats))])
	if r.Chance(25) {
		c.Max = r.Range(-1, 0)
	} else {
		c.Max = r.Range(1, 6)
	}
	n := r.Range(3, 30)
	for i := 0; i < n; i++ {
		e := c25Ev{Dt: int64(r.Range(0, 40)), Rec: r.Chance(70)}
		if r.Chance(10) {
			e.Dt = int64(r.Range(40, 200))
		}
		if e.Rec {
			switch r.Intn(12) {
			case 0:
				e.Lat = 0
			case 1:
				e.Lat = int64(r.Range(-50, -1))
			case 2:
				e.Lat = math.MaxInt64 - int64(r.Range(0, 5)) // forces int64 wrap of the sum
			case 3:
				e.Lat = []int64{499999999, 500000000, 500000001, 2999999999, 3000000000}[r.Intn(5)]
			case 4:
				thr := []int64{c.LWarn, c.LCrit}[r.Intn(2)]
				e.Lat = thr + int64(r.Range(-1, 1)) // exact threshold boundary
			default:
				e.Lat = int64(r.Range(1, 70)) * 100
			}
			e.Err = r.Chance(35)
		}
		c.Evs = append(c.Evs, e)
	}
	return c
}

func cqFloat(f float64) string {
	switch {
	case math.IsNaN(f):
		return "nan"
	case math.IsInf(f, 1):
		return "infinity"
	case math.IsInf(f, -1):
		return "neg_infinity"
	case f == 0 && math.Signbit(f):
		return "neg_zero"
	case f == 0:
		return "zero"
	}
	frac, exp := math.Frexp(math.Abs(f))
	m := int64(frac * (1 << 53))
	s := fmt.Sprintf("(Z.ldexp (float_of_Z %d) %s)", m, cqZ(int64(exp-53)))
	if f < 0 {
		s = "(PrimFloat.opp " + s + ")"
	}
	return s
}

func c25Coq(c c25Case, obs []c25Obs) string {
	evs := make([]string, len(c.Evs))
	os_ := make([]string, len(obs))
	for i, e := range c.Evs {
		if e.Rec {
			evs[i] = fmt.Sprintf("HRecord %s %s %s", cqZ(obs[i].now), cqZ(e.Lat), cqBool(e.Err))
		} else {
			evs[i] = fmt.Sprintf("HQuery %s", cqZ(obs[i].now))
		}
		os_[i] = fmt.Sprintf("mkHobs %d %s %s %d", obs[i].state, cqZ(obs[i].avg), cqFloat(obs[i].rate), obs[i].n)
	}
	return fmt.Sprintf("mkHcase (mkHcfg %s %s %s %s %s %s) %s %s", cqZ(c.Window), cqZ(c.LWarn), cqZ(c.LCrit),
		cqFloat(math.Float64frombits(c.EWarn)), cqFloat(math.Float64frombits(c.ECrit)), cqZ(int64(c.Max)), cqList(evs), cqList(os_))
}

func TestVerifC25(t *testing.T) {
	rep := vNewReport("C25", "monitor: generated S3HealthConfig (window 1-120 ns or default, latency thresholds incl. defaults and inverted pairs, 20 error thresholds incl. 0.2 / 0.1+0.2 / 1/3 / neighbours of 0.2 / 0 / negative / NaN / +-Inf / subnormal, MaxSamples 1-6 or default) x 3-30 events (RecordOperation with latency incl. threshold +-1, negative, near MaxInt64; State queries; sleeps 0-200 ns) on the real S3HealthMonitor under synctest virtual time; non-trivial = at least two different states observed and at least one sample dropped by the window or the cap; distinct = distinct canonical JSON")
	var coq, jsons []string
	synctest.Test(t, func(t *testing.T) {
		runOne := func(c c25Case) {
			c.Kind = "monitor"
			obs, fail, key, tags := c25Run(c)
			canon, _ := json.Marshal(c)
			states := 0
			for _, k := range []string{"state0", "state1", "state2"} {
				if tags[k] {
					states++
				}
			}
			rep.Count(string(canon), states >= 2 && tags["truncated"])
			for tg := range tags {
				rep.Hist(tg)
			}
			rep.Sample(c)
			if fail != "" {
				shr := c
				shr.Evs = vShrink(c.Evs, func(evs []c25Ev) bool {
					x := c
					x.Evs = evs
					_, f, k, _ := c25Run(x)
					return f != "" && k == key
				})
				_, f2, _, _ := c25Run(shr)
				if f2 == "" {
					shr, f2 = c, fail
				}
				rep.Fail(key, key, f2, shr)
			}
			coq = append(coq, c25Coq(c, obs))
			jsons = append(jsons, string(canon))
		}
		if rc := vReplayCase(); rc != nil {
			var c c25Case
			if err := json.Unmarshal(rc, &c); err != nil {
				t.Fatalf("bad replay: %v", err)
			}
			if c.Kind == "monitor" {
				runOne(c)
			}
			return
		}
		b := math.Float64bits
		corpus := []c25Case{
			// 1 error in 5 against the literal 0.2: degraded by float division
			{Window: 0, EWarn: b(0.2), ECrit: b(0.6), Max: 8, Evs: []c25Ev{{Dt: 1, Rec: true, Lat: 100, Err: true}, {Dt: 1, Rec: true, Lat: 100}, {Dt: 1, Rec: true, Lat: 100}, {Dt: 1, Rec: true, Lat: 100}, {Dt: 1, Rec: true, Lat: 100}, {Dt: 1}}},
			// the error leaves the window exactly at ts == cutoff
			{Window: 10, LWarn: 1000, LCrit: 2000, EWarn: b(0.5), ECrit: b(0.9), Max: 4, Evs: []c25Ev{{Dt: 0, Rec: true, Lat: 1, Err: true}, {Dt: 9}, {Dt: 1}, {Dt: 1}}},
			// inverted thresholds
			{Window: 50, LWarn: 3000, LCrit: 1000, EWarn: b(0.9), ECrit: b(0.1), Max: 3, Evs: []c25Ev{{Dt: 1, Rec: true, Lat: 1500}, {Dt: 1, Rec: true, Lat: 100, Err: true}, {Dt: 1, Rec: true, Lat: 100}, {Dt: 1, Rec: true, Lat: 100}, {Dt: 1, Rec: true, Lat: 100}}},
			// int64 wrap of the latency sum
			{Window: 50, LWarn: 100, LCrit: 200, EWarn: b(0.5), ECrit: b(0.9), Max: 4, Evs: []c25Ev{{Dt: 1, Rec: true, Lat: math.MaxInt64}, {Dt: 1, Rec: true, Lat: math.MaxInt64}, {Dt: 1}}},
			{Window: 5, EWarn: b(math.NaN()), ECrit: b(math.Inf(1)), Max: 2, Evs: []c25Ev{{Dt: 1, Rec: true, Lat: 5, Err: true}, {Dt: 1, Rec: true, Lat: 5, Err: true}, {Dt: 10}}},
		}
		for _, c := range corpus {
			runOne(c)
		}
		r := vNewRand(vSeed())
		n := vN(300, 4000)
		for i := 0; i < n; i++ {
			runOne(c25Gen(r.Fork()))
		}
	})
	rep.Cases("C25_monitor", "From Coq Require Import Floats.\nFrom KS Require Import lib.Base model.Health corr.HealthCorr.", "hcase", "check_hcase", coq, jsons)
	rep.WriteAs("C25_monitor")
	if len(rep.Failures) > 0 {
		t.Logf("oracle failures: %s", strings.TrimSpace(rep.Failures[0].What))
	}
}
