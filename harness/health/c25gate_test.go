package main

// C25 harness, gate half (cmd/broker/main.go): Produce and Fetch requests (several
// topics / partitions, some topics denied by the ACL, metadata store reporting etcd
// down or not) sent through the REAL handler.Handle while the real S3HealthMonitor
// rates S3 healthy / degraded / unavailable. Oracle (statement, gate clause): while the
// rating is not healthy every partition of the request gets a non-zero error code, no
// record is appended (store next-offset and S3 listing unchanged) and no record bytes
// are returned; partitions that pass the ACL/etcd checks get exactly the backpressure
// code of the state. Every partition's environment + observation is emitted for the
// Coq correspondence (HealthCorr.check_gcase).

import (
	"context"
	"encoding/json"
	"errors"
	"fmt"
	"sort"
	"strings"
	"testing"
	"time"

	"github.com/KafScale/platform/pkg/broker"
	"github.com/KafScale/platform/pkg/metadata"
	"github.com/KafScale/platform/pkg/protocol"
	"github.com/KafScale/platform/pkg/storage"
	"github.com/twmb/franz-go/pkg/kmsg"
)

type c25gTopic struct {
	Name  string  `json:"name"`
	Parts []int32 `json:"parts"`
}
type c25gCase struct {
	Kind     string      `json:"kind"` // "gate"
	State    int         `json:"state"`
	EtcdDown bool        `json:"etcd_down"`
	ACL      bool        `json:"acl"`
	Produce  bool        `json:"produce"`
	Topics   []c25gTopic `json:"topics"`
}

type c25gStore struct {
	metadata.Store
	down bool
}

func (s c25gStore) Available() bool { return !s.down }

type c25gPart struct {
	topic            string
	part             int32
	allowed          bool
	code             int16
	touched          bool
	gateSt, codeSt   int
}

func c25gRank(s broker.S3HealthState) int {
	switch s {
	case broker.S3StateDegraded:
		return 1
	case broker.S3StateUnavailable:
		return 2
	}
	return 0
}

var c25gTopics = map[string]int32{"t0": 2, "t1": 1, "secret": 1}

func c25gRun(t *testing.T, c c25gCase) ([]c25gPart, string, string) {
	fail, key := "", ""
	setFail := func(k, f string) {
		if fail == "" {
			fail, key = f, k
		}
	}
	if c.ACL {
		t.Setenv("KAFSCALE_ACL_ENABLED", "true")
		t.Setenv("KAFSCALE_ACL_JSON", `{"default_policy":"deny","principals":[{"name":"client","allow":[{"action":"produce","resource":"topic","name":"t*"},{"action":"fetch","resource":"topic","name":"t*"}]}]}`)
	} else {
		t.Setenv("KAFSCALE_ACL_ENABLED", "false")
	}
	ctx := context.Background()
	mem := metadata.NewInMemoryStore(defaultMetadata())
	for name, n := range c25gTopics {
		if _, err := mem.CreateTopic(ctx, metadata.TopicSpec{Name: name, NumPartitions: n, ReplicationFactor: 1}); err != nil {
			t.Fatalf("create topic: %v", err)
		}
	}
	s3 := storage.NewMemoryS3Client()
	h := newHandler(mem, s3, protocol.MetadataBroker{NodeID: 1, Host: "localhost", Port: 19092}, testLogger())
	client := "client"
	// populate every partition with one record while healthy and unrestricted
	saved := h.authorizer
	h.authorizer = nil
	for name, n := range c25gTopics {
		for p := int32(0); p < n; p++ {
			req := &kmsg.ProduceRequest{Acks: -1, TimeoutMillis: 1000, Topics: []kmsg.ProduceRequestTopic{{Topic: name, Partitions: []kmsg.ProduceRequestTopicPartition{{Partition: p, Records: testBatchBytes(0, 0, 1)}}}}}
			payload, err := h.Handle(ctx, &protocol.RequestHeader{APIKey: 0, APIVersion: 3, CorrelationID: 1, ClientID: &client}, req)
			if err != nil {
				t.Fatalf("populate: %v", err)
			}
			resp := decodeKmsgResponse(t, 3, payload, kmsg.NewPtrProduceResponse)
			if resp.Topics[0].Partitions[0].ErrorCode != 0 {
				t.Fatalf("populate %s/%d: code %d", name, p, resp.Topics[0].Partitions[0].ErrorCode)
			}
		}
	}
	h.authorizer = saved
	// the rating under test (default thresholds: 500ms / 3s, 0.2 / 0.6, one minute window)
	h.s3Health = broker.NewS3HealthMonitor(broker.S3HealthConfig{})
	switch c.State {
	case 1:
		h.s3Health.RecordOperation("probe", time.Second, nil)
	case 2:
		for i := 0; i < 3; i++ {
			h.s3Health.RecordOperation("probe", time.Millisecond, errors.New("boom"))
		}
	}
	if c.EtcdDown {
		h.store = c25gStore{Store: mem, down: true}
	} else {
		h.store = c25gStore{Store: mem}
	}
	listS3 := func() string {
		objs, _ := s3.ListSegments(ctx, "")
		items := make([]string, 0, len(objs))
		for _, o := range objs {
			items = append(items, fmt.Sprintf("%s:%d", o.Key, o.Size))
		}
		sort.Strings(items)
		return strings.Join(items, ";")
	}
	before := map[string]int64{}
	for name, n := range c25gTopics {
		for p := int32(0); p < n; p++ {
			off, _ := mem.NextOffset(ctx, name, p)
			before[fmt.Sprintf("%s/%d", name, p)] = off
		}
	}
	s3Before := listS3()
	gate := c25gRank(h.s3Health.State())
	if gate != c.State {
		t.Fatalf("could not establish state %d (got %d)", c.State, gate)
	}
	var parts []c25gPart
	if c.Produce {
		req := &kmsg.ProduceRequest{Acks: -1, TimeoutMillis: 1000}
		for _, tp := range c.Topics {
			rt := kmsg.ProduceRequestTopic{Topic: tp.Name}
			for _, p := range tp.Parts {
				rt.Partitions = append(rt.Partitions, kmsg.ProduceRequestTopicPartition{Partition: p, Records: testBatchBytes(0, 0, 1)})
			}
			req.Topics = append(req.Topics, rt)
		}
		payload, err := h.Handle(ctx, &protocol.RequestHeader{APIKey: 0, APIVersion: 3, CorrelationID: 2, ClientID: &client}, req)
		if err != nil {
			t.Fatalf("produce: %v", err)
		}
		resp := decodeKmsgResponse(t, 3, payload, kmsg.NewPtrProduceResponse)
		if len(resp.Topics) != len(c.Topics) {
			setFail("response-shape", fmt.Sprintf("produce: %d topics answered, %d requested", len(resp.Topics), len(c.Topics)))
		}
		for i, rt := range resp.Topics {
			if i >= len(c.Topics) {
				break
			}
			if len(rt.Partitions) != len(c.Topics[i].Parts) {
				setFail("response-shape", fmt.Sprintf("produce topic %s: %d partitions answered, %d requested", rt.Topic, len(rt.Partitions), len(c.Topics[i].Parts)))
			}
			for _, rp := range rt.Partitions {
				parts = append(parts, c25gPart{topic: rt.Topic, part: rp.Partition, code: rp.ErrorCode})
			}
		}
	} else {
		req := &kmsg.FetchRequest{MaxWaitMillis: 0, MinBytes: 0, MaxBytes: 1 << 20}
		for _, tp := range c.Topics {
			rt := kmsg.FetchRequestTopic{Topic: tp.Name}
			for _, p := range tp.Parts {
				rt.Partitions = append(rt.Partitions, kmsg.FetchRequestTopicPartition{Partition: p, FetchOffset: 0, PartitionMaxBytes: 1 << 20})
			}
			req.Topics = append(req.Topics, rt)
		}
		payload, err := h.Handle(ctx, &protocol.RequestHeader{APIKey: 1, APIVersion: 11, CorrelationID: 3, ClientID: &client}, req)
		if err != nil {
			t.Fatalf("fetch: %v", err)
		}
		resp := decodeKmsgResponse(t, 11, payload, kmsg.NewPtrFetchResponse)
		if len(resp.Topics) != len(c.Topics) {
			setFail("response-shape", fmt.Sprintf("fetch: %d topics answered, %d requested", len(resp.Topics), len(c.Topics)))
		}
		for i, rt := range resp.Topics {
			if i >= len(c.Topics) {
				break
			}
			if len(rt.Partitions) != len(c.Topics[i].Parts) {
				setFail("response-shape", fmt.Sprintf("fetch topic %s: %d partitions answered, %d requested", rt.Topic, len(rt.Partitions), len(c.Topics[i].Parts)))
			}
			for _, rp := range rt.Partitions {
				parts = append(parts, c25gPart{topic: rt.Topic, part: rp.Partition, code: rp.ErrorCode, touched: len(rp.RecordBatches) > 0})
			}
		}
	}
	codeSt := c25gRank(h.s3Health.State())
	s3After := listS3()
	seen := map[string]int{}
	for i := range parts {
		p := &parts[i]
		p.gateSt, p.codeSt = gate, codeSt
		p.allowed = !c.ACL || strings.HasPrefix(p.topic, "t")
		k := fmt.Sprintf("%s/%d", p.topic, p.part)
		if c.Produce {
			off, _ := mem.NextOffset(ctx, p.topic, p.part)
			// a partition listed twice in one request: attribute the growth to the occurrences in order
			grown := off - before[k]
			p.touched = int64(seen[k]) < grown
			seen[k]++
		}
		if gate != 0 {
			if p.code == 0 {
				setFail("gate-acknowledged", fmt.Sprintf("S3 rated %d but %s partition %s answered with error code 0", gate, map[bool]string{true: "produce", false: "fetch"}[c.Produce], k))
			}
			if p.touched {
				setFail("gate-touched", fmt.Sprintf("S3 rated %d but partition %s was %s", gate, k, map[bool]string{true: "appended to", false: "read (record bytes returned)"}[c.Produce]))
			}
			want := int16(protocol.UNKNOWN_SERVER_ERROR)
			if codeSt == 1 {
				want = protocol.REQUEST_TIMED_OUT
			}
			if p.allowed && (!c.Produce || !c.EtcdDown) && gate == codeSt && p.code != want {
				setFail("gate-code", fmt.Sprintf("S3 rated %d: partition %s got code %d, backpressure code is %d", gate, k, p.code, want))
			}
		}
	}
	if gate != 0 && c.Produce && s3Before != s3After {
		setFail("gate-touched", fmt.Sprintf("S3 rated %d but the bucket listing changed during a produce request", gate))
	}
	return parts, fail, key
}

func c25gGen(r *vRand) c25gCase {
	c := c25gCase{Kind: "gate", State: r.Intn(3), EtcdDown: r.Chance(15), ACL: r.Chance(50), Produce: r.Bool()}
	names := []string{"t0", "t1", "secret", "t0"}
	nt := r.Range(1, 3)
	for i := 0; i < nt; i++ {
		name := names[r.Intn(len(names))]
		tp := c25gTopic{Name: name}
		np := r.Range(0, 3)
		for k := 0; k < np; k++ {
			tp.Parts = append(tp.Parts, int32(r.Intn(int(c25gTopics[name]))))
		}
		c.Topics = append(c.Topics, tp)
	}
	return c
}

func c25gCoq(c c25gCase, p c25gPart) string {
	st := []string{"Healthy", "Degraded", "Unavailable"}
	return fmt.Sprintf("mkG %s (mkPenv %s %s LeaseOk %s %s) %s %s", cqBool(c.Produce), cqBool(p.allowed), cqBool(!c.EtcdDown), st[p.gateSt], st[p.codeSt], cqZ(int64(p.code)), cqBool(p.touched))
}

func TestVerifC25Gate(t *testing.T) {
	rep := vNewReport("C25", "gate: Produce (v3, acks=-1) and Fetch (v11) requests with 1-3 topics x 0-3 partitions (existing, populated partitions; repeated topics/partitions; an ACL-denied topic; etcd reported down) through the real handler.Handle while the real monitor (default thresholds) rates S3 healthy / degraded (1 s latency sample) / unavailable (3 failed operations); non-trivial = a non-healthy rating and at least one partition in the request; distinct = distinct canonical JSON")
	var coq, jsons []string
	runOne := func(c c25gCase) {
		c.Kind = "gate"
		parts, fail, key := c25gRun(t, c)
		canon, _ := json.Marshal(c)
		rep.Count(string(canon), c.State != 0 && len(parts) > 0)
		rep.Hist(fmt.Sprintf("gate:state%d", c.State))
		rep.Hist(map[bool]string{true: "gate:produce", false: "gate:fetch"}[c.Produce])
		if c.EtcdDown {
			rep.Hist("gate:etcd-down")
		}
		rep.Sample(c)
		if fail != "" {
			shr := c
			shr.Topics = vShrink(c.Topics, func(ts []c25gTopic) bool {
				x := c
				x.Topics = ts
				_, f, k := c25gRun(t, x)
				return f != "" && k == key
			})
			_, f2, _ := c25gRun(t, shr)
			if f2 == "" {
				shr, f2 = c, fail
			}
			rep.Fail(key, key, f2, shr)
		}
		for _, p := range parts {
			if p.gateSt != p.codeSt {
				rep.Notes = append(rep.Notes, "rating changed between the gate and backpressureErrorCode in one case; emitted with both readings")
			}
			coq = append(coq, c25gCoq(c, p))
			jsons = append(jsons, string(canon))
		}
	}
	if rc := vReplayCase(); rc != nil {
		var c c25gCase
		if err := json.Unmarshal(rc, &c); err != nil {
			t.Fatalf("bad replay: %v", err)
		}
		if c.Kind == "gate" {
			runOne(c)
		}
	} else {
		corpus := []c25gCase{
			{State: 1, Produce: true, Topics: []c25gTopic{{Name: "t0", Parts: []int32{0, 1}}, {Name: "t1", Parts: []int32{0}}}},
			{State: 2, Produce: false, Topics: []c25gTopic{{Name: "t0", Parts: []int32{0, 1}}}},
			{State: 2, Produce: true, ACL: true, Topics: []c25gTopic{{Name: "secret", Parts: []int32{0}}, {Name: "t1", Parts: []int32{0}}}},
			{State: 1, Produce: true, EtcdDown: true, Topics: []c25gTopic{{Name: "t0", Parts: []int32{0}}}},
			{State: 0, Produce: true, Topics: []c25gTopic{{Name: "t0", Parts: []int32{0, 0}}}},
			{State: 0, Produce: false, ACL: true, Topics: []c25gTopic{{Name: "t0", Parts: []int32{1}}, {Name: "secret", Parts: []int32{0}}}},
		}
		for _, c := range corpus {
			runOne(c)
		}
		r := vNewRand(vSeed() ^ 0x25a7e)
		n := vN(120, 1200)
		for i := 0; i < n; i++ {
			runOne(c25gGen(r.Fork()))
		}
	}
	rep.Notes = append(rep.Notes, "observation (not an oracle failure): for the unavailable rating the backpressure code is UNKNOWN_SERVER_ERROR (-1), which Kafka's error table does not mark retriable; cmd/broker's own tests (TestProduceBackpressureUnavailable, TestFetchBackpressureUnavailable) pin that code; the degraded rating answers REQUEST_TIMED_OUT (7), which is retriable")
	rep.Cases("C25_gate", "From Coq Require Import Floats.\nFrom KS Require Import lib.Base model.Health corr.HealthCorr.", "gcase", "check_gcase", coq, jsons)
	rep.WriteAs("C25_gate")
	if len(rep.Failures) > 0 {
		t.Logf("oracle failures: %s", strings.TrimSpace(rep.Failures[0].What))
	}
}
