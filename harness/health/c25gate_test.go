package main

// C25 harness, gate half (cmd/broker/main.go): Produce and Fetch requests (several
// topics / partitions, some topics denied by the ACL, metadata store reporting etcd
// down or not) sent through the REAL handler.Handle while the real S3HealthMonitor
// rates S3 healthy / degraded / unavailable.
//
// The S3 client is a fake around the in-memory client whose UploadSegment /
// DownloadSegment outcomes are SCRIPTED per call, so the rating can change DURING one
// multi-partition request (an earlier partition's failed upload / download makes the
// monitor leave "healthy" before a later partition of the same request is handled).
// The fake samples the monitor's State() at the start of every S3 call.
//
// Oracle (statement, gate clause):
//   - no S3 data operation (segment upload for produce, segment download for fetch)
//     STARTS at a moment when State() is not healthy: that partition was not gated;
//   - a partition whose gate-time rating (derived from the samples, per partition) is not
//     healthy gets a non-zero error code, nothing is appended (store next-offset and S3
//     listing unchanged) and no record bytes are returned; if it passed the ACL / etcd
//     checks the code is exactly the backpressure code of the rating.
// Every partition's environment + observation is emitted for the Coq correspondence
// (HealthCorr.check_gcase; the model's gate is per partition).

import (
	"context"
	"encoding/json"
	"errors"
	"fmt"
	"sort"
	"strings"
	"sync"
	"testing"
	"time"

	"github.com/KafScale/platform/pkg/broker"
	"github.com/KafScale/platform/pkg/metadata"
	"github.com/KafScale/platform/pkg/protocol"
	"github.com/KafScale/platform/pkg/storage"
	"github.com/twmb/franz-go/pkg/kmsg"
)

type c25gTopic struct {
	Name  string  `json:"name"`
	Parts []int32 `json:"parts"`
}
type c25gCase struct {
	Kind      string      `json:"kind"` // "gate"
	State     int         `json:"state"`
	EtcdDown  bool        `json:"etcd_down"`
	ACL       bool        `json:"acl"`
	Produce   bool        `json:"produce"`
	Topics    []c25gTopic `json:"topics"`
	Scripted  bool        `json:"scripted,omitempty"`  // distinct partitions; fetch runs on a second handler with a cold cache
	Up        []bool      `json:"up,omitempty"`        // UploadSegment call k of the request fails iff Up[k]
	Dl        []bool      `json:"dl,omitempty"`        // DownloadSegment call k of the request fails iff Dl[k]
	Sensitive bool        `json:"sensitive,omitempty"` // ErrorWarn 0.05: one failure always leaves "healthy"
}

type c25gStore struct {
	metadata.Store
	down bool
}

func (s c25gStore) Available() bool { return !s.down }

// ---- scripted fake S3 ----
type c25gCall struct {
	op     string
	part   string // "topic/partition"
	state  int    // monitor rating when the call started (-1: not sampled)
	failed bool
}
type c25gS3 struct {
	*storage.MemoryS3Client
	mu     sync.Mutex
	h      *handler // sampled handler; nil while populating
	up, dl []bool
	nUp    int
	nDl    int
	log    []c25gCall
}

func c25gPartOfKey(key string) string {
	f := strings.Split(key, "/")
	if len(f) >= 3 {
		return f[1] + "/" + f[2]
	}
	return key
}

func (s *c25gS3) begin(op, key string, script []bool, n *int) (int, bool) {
	s.mu.Lock()
	h := s.h
	fail := false
	if h != nil && script != nil {
		if *n < len(script) {
			fail = script[*n]
		}
		*n++
	}
	s.mu.Unlock()
	if h == nil {
		return -1, false
	}
	st := c25gRank(h.s3Health.State())
	s.mu.Lock()
	s.log = append(s.log, c25gCall{op: op, part: c25gPartOfKey(key), state: st, failed: fail})
	idx := len(s.log) - 1
	s.mu.Unlock()
	return idx, fail
}

func (s *c25gS3) UploadSegment(ctx context.Context, key string, body []byte) error {
	if _, fail := s.begin("upload_segment", key, s.upScript(), &s.nUp); fail {
		return errors.New("scripted S3 upload failure")
	}
	return s.MemoryS3Client.UploadSegment(ctx, key, body)
}
func (s *c25gS3) UploadIndex(ctx context.Context, key string, body []byte) error {
	s.begin("upload_index", key, nil, nil)
	return s.MemoryS3Client.UploadIndex(ctx, key, body)
}
func (s *c25gS3) DownloadSegment(ctx context.Context, key string, rng *storage.ByteRange) ([]byte, error) {
	if _, fail := s.begin("download_segment", key, s.dlScript(), &s.nDl); fail {
		return nil, errors.New("scripted S3 download failure")
	}
	return s.MemoryS3Client.DownloadSegment(ctx, key, rng)
}
func (s *c25gS3) DownloadIndex(ctx context.Context, key string) ([]byte, error) {
	s.begin("download_index", key, nil, nil)
	return s.MemoryS3Client.DownloadIndex(ctx, key)
}
func (s *c25gS3) upScript() []bool {
	if s.up == nil {
		return []bool{}
	}
	return s.up
}
func (s *c25gS3) dlScript() []bool {
	if s.dl == nil {
		return []bool{}
	}
	return s.dl
}

type c25gPart struct {
	topic          string
	part           int32
	allowed        bool
	code           int16
	touched        bool
	gateSt, codeSt int
	s3fail         bool
	afterSt        int
}

func c25gRank(s broker.S3HealthState) int {
	switch s {
	case broker.S3StateDegraded:
		return 1
	case broker.S3StateUnavailable:
		return 2
	}
	return 0
}

var c25gTopics = map[string]int32{"t0": 4, "t1": 1, "secret": 1}

func c25gRun(t *testing.T, c c25gCase) ([]c25gPart, string, string, []string) {
	fail, key := "", ""
	var notes []string
	setFail := func(k, f string) {
		if fail == "" {
			fail, key = f, k
		}
	}
	if c.ACL {
		t.Setenv("KAFSCALE_ACL_ENABLED", "true")
		t.Setenv("KAFSCALE_ACL_JSON", `{"default_policy":"deny","principals":[{"name":"client","allow":[{"action":"produce","resource":"topic","name":"t*"},{"action":"fetch","resource":"topic","name":"t*"}]}]}`)
	} else {
		t.Setenv("KAFSCALE_ACL_ENABLED", "false")
	}
	t.Setenv("KAFSCALE_READAHEAD_SEGMENTS", "0") // no background prefetch: S3 calls happen in request order
	ctx := context.Background()
	mem := metadata.NewInMemoryStore(defaultMetadata())
	for name, n := range c25gTopics {
		if _, err := mem.CreateTopic(ctx, metadata.TopicSpec{Name: name, NumPartitions: n, ReplicationFactor: 1}); err != nil {
			t.Fatalf("create topic: %v", err)
		}
	}
	s3 := &c25gS3{MemoryS3Client: storage.NewMemoryS3Client()}
	bi := protocol.MetadataBroker{NodeID: 1, Host: "localhost", Port: 19092}
	h := newHandler(mem, s3, bi, testLogger())
	client := "client"
	// populate every partition with one record while healthy and unrestricted
	saved := h.authorizer
	h.authorizer = nil
	for name, n := range c25gTopics {
		for p := int32(0); p < n; p++ {
			req := &kmsg.ProduceRequest{Acks: -1, TimeoutMillis: 1000, Topics: []kmsg.ProduceRequestTopic{{Topic: name, Partitions: []kmsg.ProduceRequestTopicPartition{{Partition: p, Records: testBatchBytes(0, 0, 1)}}}}}
			payload, err := h.Handle(ctx, &protocol.RequestHeader{APIKey: 0, APIVersion: 3, CorrelationID: 1, ClientID: &client}, req)
			if err != nil {
				t.Fatalf("populate: %v", err)
			}
			resp := decodeKmsgResponse(t, 3, payload, kmsg.NewPtrProduceResponse)
			if resp.Topics[0].Partitions[0].ErrorCode != 0 {
				t.Fatalf("populate %s/%d: code %d", name, p, resp.Topics[0].Partitions[0].ErrorCode)
			}
		}
	}
	h.authorizer = saved
	if c.Scripted && !c.Produce {
		// a second broker instance on the same store and bucket: cold cache, partition logs
		// restored from S3, so a Fetch really downloads
		h = newHandler(mem, s3, bi, testLogger())
	}
	// the rating under test (default thresholds: 500ms / 3s, 0.2 / 0.6, one minute window)
	hc := broker.S3HealthConfig{}
	if c.Sensitive {
		hc.ErrorWarn = 0.05
	}
	h.s3Health = broker.NewS3HealthMonitor(hc)
	switch c.State {
	case 1:
		h.s3Health.RecordOperation("probe", time.Second, nil)
	case 2:
		for i := 0; i < 3; i++ {
			h.s3Health.RecordOperation("probe", time.Millisecond, errors.New("boom"))
		}
	}
	if c.EtcdDown {
		h.store = c25gStore{Store: mem, down: true}
	} else {
		h.store = c25gStore{Store: mem}
	}
	listS3 := func() string {
		objs, _ := s3.ListSegments(ctx, "")
		items := make([]string, 0, len(objs))
		for _, o := range objs {
			items = append(items, fmt.Sprintf("%s:%d", o.Key, o.Size))
		}
		sort.Strings(items)
		return strings.Join(items, ";")
	}
	before := map[string]int64{}
	for name, n := range c25gTopics {
		for p := int32(0); p < n; p++ {
			off, _ := mem.NextOffset(ctx, name, p)
			before[fmt.Sprintf("%s/%d", name, p)] = off
		}
	}
	s3Before := listS3()
	s0 := c25gRank(h.s3Health.State())
	if s0 != c.State {
		t.Fatalf("could not establish state %d (got %d)", c.State, s0)
	}
	// arm the fake: from here on it samples the rating and follows the scripts
	s3.mu.Lock()
	s3.h, s3.up, s3.dl, s3.nUp, s3.nDl, s3.log = h, c.Up, c.Dl, 0, 0, nil
	s3.mu.Unlock()
	var parts []c25gPart
	if c.Produce {
		req := &kmsg.ProduceRequest{Acks: -1, TimeoutMillis: 1000}
		for _, tp := range c.Topics {
			rt := kmsg.ProduceRequestTopic{Topic: tp.Name}
			for _, p := range tp.Parts {
				rt.Partitions = append(rt.Partitions, kmsg.ProduceRequestTopicPartition{Partition: p, Records: testBatchBytes(0, 0, 1)})
			}
			req.Topics = append(req.Topics, rt)
		}
		payload, err := h.Handle(ctx, &protocol.RequestHeader{APIKey: 0, APIVersion: 3, CorrelationID: 2, ClientID: &client}, req)
		if err != nil {
			t.Fatalf("produce: %v", err)
		}
		resp := decodeKmsgResponse(t, 3, payload, kmsg.NewPtrProduceResponse)
		if len(resp.Topics) != len(c.Topics) {
			setFail("response-shape", fmt.Sprintf("produce: %d topics answered, %d requested", len(resp.Topics), len(c.Topics)))
		}
		for i, rt := range resp.Topics {
			if i >= len(c.Topics) {
				break
			}
			if len(rt.Partitions) != len(c.Topics[i].Parts) {
				setFail("response-shape", fmt.Sprintf("produce topic %s: %d partitions answered, %d requested", rt.Topic, len(rt.Partitions), len(c.Topics[i].Parts)))
			}
			for _, rp := range rt.Partitions {
				parts = append(parts, c25gPart{topic: rt.Topic, part: rp.Partition, code: rp.ErrorCode})
			}
		}
	} else {
		req := &kmsg.FetchRequest{MaxWaitMillis: 0, MinBytes: 0, MaxBytes: 1 << 20}
		for _, tp := range c.Topics {
			rt := kmsg.FetchRequestTopic{Topic: tp.Name}
			for _, p := range tp.Parts {
				rt.Partitions = append(rt.Partitions, kmsg.FetchRequestTopicPartition{Partition: p, FetchOffset: 0, PartitionMaxBytes: 1 << 20})
			}
			req.Topics = append(req.Topics, rt)
		}
		payload, err := h.Handle(ctx, &protocol.RequestHeader{APIKey: 1, APIVersion: 11, CorrelationID: 3, ClientID: &client}, req)
		if err != nil {
			t.Fatalf("fetch: %v", err)
		}
		resp := decodeKmsgResponse(t, 11, payload, kmsg.NewPtrFetchResponse)
		if len(resp.Topics) != len(c.Topics) {
			setFail("response-shape", fmt.Sprintf("fetch: %d topics answered, %d requested", len(resp.Topics), len(c.Topics)))
		}
		for i, rt := range resp.Topics {
			if i >= len(c.Topics) {
				break
			}
			if len(rt.Partitions) != len(c.Topics[i].Parts) {
				setFail("response-shape", fmt.Sprintf("fetch topic %s: %d partitions answered, %d requested", rt.Topic, len(rt.Partitions), len(c.Topics[i].Parts)))
			}
			for _, rp := range rt.Partitions {
				parts = append(parts, c25gPart{topic: rt.Topic, part: rp.Partition, code: rp.ErrorCode, touched: len(rp.RecordBatches) > 0})
			}
		}
	}
	final := c25gRank(h.s3Health.State())
	s3.mu.Lock()
	calls := append([]c25gCall(nil), s3.log...)
	s3.h = nil
	s3.mu.Unlock()
	s3After := listS3()
	kind := map[bool]string{true: "produce", false: "fetch"}[c.Produce]

	// ---- oracle 1: no S3 data operation starts while the rating is not healthy
	dataOp := map[bool]string{true: "upload_segment", false: "download_segment"}[c.Produce]
	for _, cl := range calls {
		if cl.op == dataOp && cl.state > 0 {
			setFail("gate-s3-op-while-unhealthy", fmt.Sprintf("%s: %s for partition %s started while S3 was rated %d (the rating changed during the request; this partition was not gated)", kind, cl.op, cl.part, cl.state))
		}
	}

	// ---- per-partition gate-time rating, derived from the samples: the rating only changes
	// through recorded S3 calls, and the calls of one request happen in partition order
	distinct := true
	seenPart := map[string]bool{}
	for _, p := range parts {
		k := fmt.Sprintf("%s/%d", p.topic, p.part)
		if seenPart[k] {
			distinct = false
		}
		seenPart[k] = true
	}
	derived := distinct
	cur, lastIdx := s0, -1
	for i := range parts {
		p := &parts[i]
		k := fmt.Sprintf("%s/%d", p.topic, p.part)
		p.gateSt, p.codeSt, p.afterSt = cur, cur, cur
		if !distinct {
			p.gateSt, p.codeSt, p.afterSt = s0, final, final
			continue
		}
		first, last := -1, -1
		for j, cl := range calls {
			if cl.part == k {
				if first < 0 {
					first = j
				}
				last = j
				if cl.failed {
					p.s3fail = true
				}
			}
		}
		if first >= 0 {
			if first <= lastIdx {
				derived = false // calls not in partition order: do not trust the derivation
			}
			lastIdx = last
			if last+1 < len(calls) {
				cur = calls[last+1].state
			} else {
				cur = final
			}
			p.afterSt = cur
		}
	}
	if !distinct && s0 != final {
		derived = false
	}
	if !derived {
		notes = append(notes, "per-partition rating could not be derived for one case (repeated partitions while the rating changed, or S3 calls out of partition order); case not emitted for correspondence")
	}

	seen := map[string]int{}
	for i := range parts {
		p := &parts[i]
		p.allowed = !c.ACL || strings.HasPrefix(p.topic, "t")
		k := fmt.Sprintf("%s/%d", p.topic, p.part)
		if c.Produce {
			off, _ := mem.NextOffset(ctx, p.topic, p.part)
			// a partition listed twice in one request: attribute the growth to the occurrences in order
			grown := off - before[k]
			p.touched = int64(seen[k]) < grown
			seen[k]++
		}
		if derived && p.gateSt != 0 {
			if p.code == 0 {
				setFail("gate-acknowledged", fmt.Sprintf("S3 rated %d when %s partition %s was handled, but it was answered with error code 0", p.gateSt, kind, k))
			}
			if p.touched {
				setFail("gate-touched", fmt.Sprintf("S3 rated %d when partition %s was handled, but it was %s", p.gateSt, k, map[bool]string{true: "appended to", false: "read (record bytes returned)"}[c.Produce]))
			}
			want := int16(protocol.UNKNOWN_SERVER_ERROR)
			if p.codeSt == 1 {
				want = protocol.REQUEST_TIMED_OUT
			}
			if p.allowed && (!c.Produce || !c.EtcdDown) && p.code != want {
				setFail("gate-code", fmt.Sprintf("S3 rated %d: partition %s got code %d, backpressure code is %d", p.gateSt, k, p.code, want))
			}
		}
	}
	if s0 != 0 && c.Produce && s3Before != s3After {
		setFail("gate-touched", fmt.Sprintf("S3 rated %d but the bucket listing changed during a produce request", s0))
	}
	if !derived {
		parts = nil
	}
	return parts, fail, key, notes
}

func c25gGen(r *vRand) c25gCase {
	c := c25gCase{Kind: "gate", State: r.Intn(3), EtcdDown: r.Chance(15), ACL: r.Chance(50), Produce: r.Bool()}
	names := []string{"t0", "t1", "secret", "t0"}
	nt := r.Range(1, 3)
	for i := 0; i < nt; i++ {
		name := names[r.Intn(len(names))]
		tp := c25gTopic{Name: name}
		np := r.Range(0, 3)
		for k := 0; k < np; k++ {
			tp.Parts = append(tp.Parts, int32(r.Intn(int(c25gTopics[name]))))
		}
		c.Topics = append(c.Topics, tp)
	}
	return c
}

// c25gGenScripted: a multi-partition request over DISTINCT partitions that (usually) starts
// healthy, with scripted S3 failures so that the rating changes while the request is handled.
func c25gGenScripted(r *vRand) c25gCase {
	c := c25gCase{Kind: "gate", Scripted: true, Produce: r.Chance(60), ACL: r.Chance(25), Sensitive: r.Chance(50)}
	if r.Chance(15) {
		c.State = r.Range(1, 2)
	}
	perm := []int32{0, 1, 2, 3}
	for i := 3; i > 0; i-- {
		j := r.Intn(i + 1)
		perm[i], perm[j] = perm[j], perm[i]
	}
	t0 := c25gTopic{Name: "t0", Parts: perm[:r.Range(2, 4)]}
	switch r.Intn(4) {
	case 0:
		c.Topics = []c25gTopic{{Name: "t1", Parts: []int32{0}}, t0}
	case 1:
		c.Topics = []c25gTopic{t0, {Name: "t1", Parts: []int32{0}}}
	case 2:
		c.Topics = []c25gTopic{{Name: "secret", Parts: []int32{0}}, t0}
	default:
		c.Topics = []c25gTopic{t0}
	}
	script := make([]bool, r.Range(1, 6))
	for i := range script {
		script[i] = r.Chance(35)
	}
	if r.Chance(50) {
		script[r.Intn(2)%len(script)] = true // an early failure
	}
	if c.Produce {
		c.Up = script
	} else {
		c.Dl = script
	}
	return c
}

func c25gCoq(c c25gCase, p c25gPart) string {
	st := []string{"Healthy", "Degraded", "Unavailable"}
	return fmt.Sprintf("mkG %s (mkPenv %s %s LeaseOk %s %s) %s %s %s %s", cqBool(c.Produce), cqBool(p.allowed), cqBool(!c.EtcdDown), st[p.gateSt], st[p.codeSt],
		cqZ(int64(p.code)), cqBool(p.touched), cqBool(p.s3fail), st[p.afterSt])
}

func TestVerifC25Gate(t *testing.T) {
	rep := vNewReport("C25", "gate: Produce (v3, acks=-1) and Fetch (v11) requests through the real handler.Handle; (a) 1-3 topics x 0-3 partitions (populated; repeated topics/partitions; an ACL-denied topic; etcd reported down) while the real monitor rates S3 healthy / degraded / unavailable for the whole request; (b) scripted: 2-5 DISTINCT partitions, a fake S3 whose segment uploads / downloads fail per script (1-6 entries, 35% failures, often an early one) so that the rating changes DURING the request (fetch on a second handler with a cold cache), default or sensitive (0.05) error threshold; non-trivial = some partition handled while the rating was not healthy; distinct = distinct canonical JSON")
	var coq, jsons []string
	runOne := func(c c25gCase) {
		c.Kind = "gate"
		parts, fail, key, notes := c25gRun(t, c)
		canon, _ := json.Marshal(c)
		nt := false
		changed := false
		for _, p := range parts {
			if p.gateSt != 0 {
				nt = true
			}
			if p.gateSt != c.State {
				changed = true
			}
		}
		rep.Count(string(canon), nt)
		rep.Hist(fmt.Sprintf("gate:state%d", c.State))
		rep.Hist(map[bool]string{true: "gate:produce", false: "gate:fetch"}[c.Produce])
		if c.EtcdDown {
			rep.Hist("gate:etcd-down")
		}
		if c.Scripted {
			rep.Hist("gate:scripted")
		}
		if changed {
			rep.Hist("gate:rating-changed-during-request")
		}
		rep.Sample(c)
		for _, nn := range notes {
			dup := false
			for _, have := range rep.Notes {
				dup = dup || have == nn
			}
			if !dup {
				rep.Notes = append(rep.Notes, nn)
			}
		}
		if fail != "" {
			shr := c
			if !c.Scripted {
				shr.Topics = vShrink(c.Topics, func(ts []c25gTopic) bool {
					x := c
					x.Topics = ts
					_, f, k, _ := c25gRun(t, x)
					return f != "" && k == key
				})
			}
			_, f2, _, _ := c25gRun(t, shr)
			if f2 == "" {
				shr, f2 = c, fail
			}
			rep.Fail(key, key, f2, shr)
		}
		for _, p := range parts {
			coq = append(coq, c25gCoq(c, p))
			jsons = append(jsons, string(canon))
		}
	}
	if rc := vReplayCase(); rc != nil {
		var c c25gCase
		if err := json.Unmarshal(rc, &c); err != nil {
			t.Fatalf("bad replay: %v", err)
		}
		if c.Kind == "gate" {
			runOne(c)
		}
	} else {
		corpus := []c25gCase{
			{State: 1, Produce: true, Topics: []c25gTopic{{Name: "t0", Parts: []int32{0, 1}}, {Name: "t1", Parts: []int32{0}}}},
			{State: 2, Produce: false, Topics: []c25gTopic{{Name: "t0", Parts: []int32{0, 1}}}},
			{State: 2, Produce: true, ACL: true, Topics: []c25gTopic{{Name: "secret", Parts: []int32{0}}, {Name: "t1", Parts: []int32{0}}}},
			{State: 1, Produce: true, EtcdDown: true, Topics: []c25gTopic{{Name: "t0", Parts: []int32{0}}}},
			{State: 0, Produce: true, Topics: []c25gTopic{{Name: "t0", Parts: []int32{0, 0}}}},
			{State: 0, Produce: false, ACL: true, Topics: []c25gTopic{{Name: "t0", Parts: []int32{1}}, {Name: "secret", Parts: []int32{0}}}},
			// the rating changes during the request: the first partition's upload fails, the later
			// partitions of the SAME request must be rejected, not flushed and acknowledged
			{State: 0, Produce: true, Scripted: true, Up: []bool{true, false, false}, Topics: []c25gTopic{{Name: "t0", Parts: []int32{2, 0, 3}}}},
			{State: 0, Produce: true, Scripted: true, Sensitive: true, Up: []bool{false, true, false, false}, Topics: []c25gTopic{{Name: "t1", Parts: []int32{0}}, {Name: "t0", Parts: []int32{1, 3, 0}}}},
			{State: 0, Produce: false, Scripted: true, Dl: []bool{true, false, false}, Topics: []c25gTopic{{Name: "t0", Parts: []int32{0, 1, 2}}}},
			{State: 0, Produce: false, Scripted: true, Sensitive: true, Dl: []bool{false, false, true, false, false}, Topics: []c25gTopic{{Name: "t0", Parts: []int32{3, 1}}, {Name: "t1", Parts: []int32{0}}}},
		}
		for _, c := range corpus {
			runOne(c)
		}
		r := vNewRand(vSeed() ^ 0x25a7e)
		n := vN(120, 1200)
		for i := 0; i < n; i++ {
			if i%2 == 0 {
				runOne(c25gGen(r.Fork()))
			} else {
				runOne(c25gGenScripted(r.Fork()))
			}
		}
	}
	rep.Notes = append(rep.Notes, "observation (not an oracle failure): for the unavailable rating the backpressure code is UNKNOWN_SERVER_ERROR (-1), which Kafka's error table does not mark retriable; cmd/broker's own tests (TestProduceBackpressureUnavailable, TestFetchBackpressureUnavailable) pin that code; the degraded rating answers REQUEST_TIMED_OUT (7), which is retriable")
	rep.Cases("C25_gate", "From Coq Require Import Floats.\nFrom KS Require Import lib.Base model.Health corr.HealthCorr.", "gcase", "check_gcase", coq, jsons)
	rep.WriteAs("C25_gate")
	if len(rep.Failures) > 0 {
		t.Logf("oracle failures: %s", strings.TrimSpace(rep.Failures[0].What))
	}
}
