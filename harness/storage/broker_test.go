package main

// Glue harness for the storage write-path properties (C01, C02, C05, C06), driven through
// the REAL broker handler: handler.handleProduce (acks=-1, flushOnAck default) ->
// getPartitionLog (singleflight init, NextOffset, auto-create via ensureTopic/CreateTopic,
// RestoreFromS3, offset sync) -> NewRecordBatchFromBytes -> AppendBatch -> Flush -> the real
// onFlush closure -> the real metadata.InMemoryStore.UpdateOffsets, and handler.handleFetch.
// Only the S3 client is a fake (uploads block until released with an outcome; it records the
// prefixes it is asked to list) and the store is wrapped so that UpdateOffsets -- and, in
// "first touch" cases, NextOffset and CreateTopic -- block until released.
//
// The partition under test is partition 1 of a topic that does not exist at the start (the
// first produce auto-creates it); S3 may already hold objects of partitions 10 and 13 of the
// same topic (ids of which "1" is a decimal prefix) with more data than partition 1 gets.
// Schedules: 2-3 concurrent producers incl. concurrent FIRST touch of the partition, S3
// upload outcomes, store outcomes in any order, Fetch requests at any point (also while a
// produce is in flight), crash = new handler over the same S3 + store (so the restart goes
// through the real getPartitionLog with the store behind S3 by any amount, incl. 0).
// AppendBatch and Flush of one request run back to back here (the handler has no scheduling
// point between them). Implementation-side oracle only:
//   C01  success code => the record set (response base offset patched in) is inside a .kfs body
//        of THIS partition whose .index parses, and stays there; one PartitionLog per partition
//   C02  acknowledged offset ranges are pairwise disjoint, also across restarts
//   C05  store.NextOffset never exceeds 1 + the last offset of this partition's segments
//   C06  after a restart every acknowledged batch is returned by Read at its offset; records
//        shown to a consumer by Fetch are in S3 when shown and their offsets are never given
//        to other records; bases after restart lie above every acknowledged offset.

import (
	"bytes"
	"context"
	"encoding/binary"
	"encoding/json"
	"errors"
	"fmt"
	"os"
	"sort"
	"strings"
	"sync"
	"testing"
	"testing/synctest"
	"time"

	"github.com/KafScale/platform/pkg/metadata"
	"github.com/KafScale/platform/pkg/protocol"
	"github.com/KafScale/platform/pkg/storage"
	"github.com/twmb/franz-go/pkg/kmsg"
)

const (
	sbNT    = 3
	sbTopic = "vt"
	sbPart  = int32(1)
)

type sbAct struct {
	K   string `json:"k"` // produce|seg|idx|cb|no|ct|fetch|crash
	T   int    `json:"t,omitempty"`
	Ok  bool   `json:"ok,omitempty"`
	Raw []byte `json:"raw,omitempty"`
	Off int64  `json:"off,omitempty"` // fetch offset
}
type sbCase struct {
	GateInit bool    `json:"gate_init"` // NextOffset / CreateTopic of produce requests block until released
	Foreign  bool    `json:"foreign"`   // S3 holds objects of partitions 10 and 13 of the same topic
	Plan     []sbAct `json:"plan"`
}

type sbTid struct{}

type sbGate struct {
	ch chan bool
	v  int64
}

type sbWorld struct {
	mu       sync.Mutex
	objs     map[string][]byte
	pend     map[string]*sbGate
	dead     map[int]bool // epochs that crashed
	listed   []string     // prefixes ListSegments was asked for
	gateInit bool
}

type sbS3 struct {
	w     *sbWorld
	epoch int
}

func sbTidOf(ctx context.Context) int {
	if v, ok := ctx.Value(sbTid{}).(int); ok {
		return v
	}
	return -1
}

func (w *sbWorld) wait(key string, v int64) bool {
	g := &sbGate{ch: make(chan bool), v: v}
	w.mu.Lock()
	w.pend[key] = g
	w.mu.Unlock()
	return <-g.ch
}

func (s *sbS3) put(ctx context.Context, kind, key string, body []byte) error {
	ok := s.w.wait(fmt.Sprintf("%s:%d", kind, sbTidOf(ctx)), 0)
	s.w.mu.Lock()
	defer s.w.mu.Unlock()
	if !ok || s.w.dead[s.epoch] {
		return errors.New("injected: s3 upload failed")
	}
	s.w.objs[key] = append([]byte(nil), body...)
	return nil
}
func (s *sbS3) UploadSegment(ctx context.Context, key string, body []byte) error {
	return s.put(ctx, "seg", key, body)
}
func (s *sbS3) UploadIndex(ctx context.Context, key string, body []byte) error {
	return s.put(ctx, "idx", key, body)
}
func (s *sbS3) DeleteSegment(ctx context.Context, key string) error { return nil }
func (s *sbS3) DeleteIndex(ctx context.Context, key string) error   { return nil }
func (s *sbS3) EnsureBucket(ctx context.Context) error              { return nil }
func (s *sbS3) DownloadSegment(ctx context.Context, key string, rng *storage.ByteRange) ([]byte, error) {
	s.w.mu.Lock()
	defer s.w.mu.Unlock()
	data, ok := s.w.objs[key]
	if !ok {
		return nil, fmt.Errorf("segment %s not found", key)
	}
	if rng == nil {
		return append([]byte(nil), data...), nil
	}
	start, end := rng.Start, rng.End
	if start < 0 {
		start = 0
	}
	if end >= int64(len(data)) {
		end = int64(len(data)) - 1
	}
	if start > end || start >= int64(len(data)) {
		return nil, fmt.Errorf("segment %s range invalid", key)
	}
	return append([]byte(nil), data[start:end+1]...), nil
}
func (s *sbS3) DownloadIndex(ctx context.Context, key string) ([]byte, error) {
	s.w.mu.Lock()
	defer s.w.mu.Unlock()
	if data, ok := s.w.objs[key]; ok {
		return append([]byte(nil), data...), nil
	}
	return nil, fmt.Errorf("index %s: %w", key, storage.ErrNotFound)
}
func (s *sbS3) ListSegments(ctx context.Context, prefix string) ([]storage.S3Object, error) {
	s.w.mu.Lock()
	defer s.w.mu.Unlock()
	s.w.listed = append(s.w.listed, prefix)
	out := []storage.S3Object{}
	for k, d := range s.w.objs {
		if strings.HasPrefix(k, prefix) {
			out = append(out, storage.S3Object{Key: k, Size: int64(len(d))})
		}
	}
	sort.Slice(out, func(i, j int) bool { return out[i].Key > out[j].Key })
	return out, nil
}

// the real in-memory store; UpdateOffsets (and, in first-touch cases, NextOffset and
// CreateTopic) of produce requests are delayed / made to fail
type sbStore struct {
	metadata.Store
	w     *sbWorld
	epoch int
}

func (s *sbStore) gated(ctx context.Context, kind string, v int64) (bool, bool) {
	tid := sbTidOf(ctx)
	if tid < 0 {
		return false, true
	}
	ok := s.w.wait(fmt.Sprintf("%s:%d", kind, tid), v)
	s.w.mu.Lock()
	dead := s.w.dead[s.epoch]
	s.w.mu.Unlock()
	return true, ok && !dead
}

func (s *sbStore) UpdateOffsets(ctx context.Context, topic string, partition int32, lastOffset int64) error {
	if g, ok := s.gated(ctx, "cb", lastOffset); g && !ok {
		return errors.New("injected: etcd put failed")
	}
	return s.Store.UpdateOffsets(ctx, topic, partition, lastOffset)
}

func (s *sbStore) NextOffset(ctx context.Context, topic string, partition int32) (int64, error) {
	s.w.mu.Lock()
	gi := s.w.gateInit
	s.w.mu.Unlock()
	if gi {
		if g, ok := s.gated(ctx, "no", 0); g && !ok {
			return 0, errors.New("injected: etcd get failed")
		}
	}
	return s.Store.NextOffset(ctx, topic, partition)
}

func (s *sbStore) CreateTopic(ctx context.Context, spec metadata.TopicSpec) (*protocol.MetadataTopic, error) {
	s.w.mu.Lock()
	gi := s.w.gateInit
	s.w.mu.Unlock()
	if gi {
		if g, ok := s.gated(ctx, "ct", 0); g && !ok {
			return nil, errors.New("injected: etcd txn failed")
		}
	}
	return s.Store.CreateTopic(ctx, spec)
}

type sbReq struct {
	raw    []byte
	done   bool
	code   int16
	base   int64
	epoch  int
	acked  bool
	stored []byte
	segOK  bool // its own flush uploaded a segment ...
	idxOK  bool // ... and an index: the request's callback comes from a non-empty flush
}

func (r *sbReq) last() int64 { return r.base + int64(int32(binary.BigEndian.Uint32(r.raw[23:27]))) }

type sbExec struct {
	t       *testing.T
	cs      sbCase
	w       *sbWorld
	inner   metadata.Store
	h       *handler
	epoch   int
	running [sbNT]*sbReq
	reqs    []*sbReq
	logsEp  map[*storage.PartitionLog]bool
	shown   map[int64][]byte // offset -> record batch bytes a Fetch returned for it
	// C05: every value passed to store.UpdateOffsets, in the order the puts land
	cbSeq     int
	cbBirth   map[int]int  // tid -> sequence number at which its UpdateOffsets call appeared
	cbNE      map[int]bool // ... issued after a non-empty flush of that request
	lastBirth int          // birth number of the call that wrote the current store value
	lastNE    bool
	fail      string
	failKey   string
	tags      map[string]bool
	maxAck    int64
}

func (x *sbExec) setFail(k, w string) {
	if x.fail == "" {
		x.fail, x.failKey = w, k
	}
}

func (x *sbExec) ownPrefix() string {
	return fmt.Sprintf("%s/%s/%d/", x.h.s3Namespace, sbTopic, sbPart)
}

func (x *sbExec) newHandler() {
	if x.h != nil && x.h.coordinator != nil {
		x.h.coordinator.Stop() // its cleanup goroutine would otherwise outlive the bubble
	}
	x.epoch++
	store := &sbStore{Store: x.inner, w: x.w, epoch: x.epoch}
	x.h = newHandler(store, &sbS3{w: x.w, epoch: x.epoch}, protocol.MetadataBroker{NodeID: 1, Host: "localhost", Port: 19092}, testLogger())
	x.logsEp = map[*storage.PartitionLog]bool{}
}

func (x *sbExec) has(key string) bool {
	x.w.mu.Lock()
	defer x.w.mu.Unlock()
	_, ok := x.w.pend[key]
	return ok
}

func (x *sbExec) release(key string, ok bool) {
	x.w.mu.Lock()
	g := x.w.pend[key]
	delete(x.w.pend, key)
	x.w.mu.Unlock()
	if g != nil {
		g.ch <- ok
	}
}

func (x *sbExec) drain() { // let every in-flight request of a dead epoch finish
	for i := 0; i < 200; i++ {
		synctest.Wait()
		x.w.mu.Lock()
		keys := []string{}
		for k := range x.w.pend {
			keys = append(keys, k)
		}
		x.w.mu.Unlock()
		if len(keys) == 0 {
			return
		}
		for _, k := range keys {
			x.release(k, false)
		}
	}
}

func (x *sbExec) produce(tid int, raw []byte) {
	r := &sbReq{raw: raw, epoch: x.epoch}
	x.running[tid] = r
	x.reqs = append(x.reqs, r)
	h := x.h
	go func() {
		ctx := context.WithValue(context.Background(), sbTid{}, tid)
		req := &kmsg.ProduceRequest{Acks: -1, TimeoutMillis: 1000, Topics: []kmsg.ProduceRequestTopic{{Topic: sbTopic,
			Partitions: []kmsg.ProduceRequestTopicPartition{{Partition: sbPart, Records: raw}}}}}
		payload, err := h.handleProduce(ctx, &protocol.RequestHeader{CorrelationID: 1}, req)
		code, base := int16(-1), int64(-1)
		if err == nil && payload != nil {
			resp := decodeKmsgResponse(x.t, 0, payload, kmsg.NewPtrProduceResponse)
			if len(resp.Topics) == 1 && len(resp.Topics[0].Partitions) == 1 {
				code, base = resp.Topics[0].Partitions[0].ErrorCode, resp.Topics[0].Partitions[0].BaseOffset
			}
		}
		x.w.mu.Lock()
		r.code, r.base, r.done = code, base, true
		x.w.mu.Unlock()
	}()
}

// this partition's S3 objects only
func (x *sbExec) s3segs() (map[int64][]byte, map[int64]bool, int64) {
	bodies, hasIdx := map[int64][]byte{}, map[int64]bool{}
	end := int64(0)
	own := x.ownPrefix()
	x.w.mu.Lock()
	defer x.w.mu.Unlock()
	lasts := map[int64]int64{}
	for k, d := range x.w.objs {
		if !strings.HasPrefix(k, own) {
			continue
		}
		name := k[len(own):]
		var base int64
		if strings.HasSuffix(name, ".kfs") && len(d) >= 48 {
			fmt.Sscanf(strings.TrimSuffix(strings.TrimPrefix(name, "segment-"), ".kfs"), "%d", &base)
			bodies[base] = d[32 : len(d)-16]
			lasts[base] = int64(binary.BigEndian.Uint64(d[len(d)-12 : len(d)-4]))
		} else if strings.HasSuffix(name, ".index") {
			fmt.Sscanf(strings.TrimSuffix(strings.TrimPrefix(name, "segment-"), ".index"), "%d", &base)
			if _, err := storage.ParseIndex(d); err == nil {
				hasIdx[base] = true
			}
		}
	}
	for b, l := range lasts {
		if hasIdx[b] && l+1 > end {
			end = l + 1
		}
	}
	return bodies, hasIdx, end
}

func sbDurable(bodies map[int64][]byte, hasIdx map[int64]bool, rec []byte) bool {
	for b, body := range bodies {
		if hasIdx[b] && bytes.Contains(body, rec) {
			return true
		}
	}
	return false
}

func (x *sbExec) oracle(after string) {
	bodies, hasIdx, end := x.s3segs()
	// one PartitionLog per partition and handler
	x.h.logMu.RLock()
	if m, ok := x.h.logs[sbTopic]; ok {
		if pl, ok := m[sbPart]; ok && pl != nil {
			x.logsEp[pl] = true
		}
	}
	x.h.logMu.RUnlock()
	if len(x.logsEp) > 1 && os.Getenv("VERIF_SB_NOSTRUCT") == "" { // (switch used to test the properties' own clauses in isolation)
		x.setFail("second-partition-log", fmt.Sprintf("the handler registered %d different PartitionLog objects for %s/%d (%s): two logs hand out the same offsets and write the same segment keys", len(x.logsEp), sbTopic, sbPart, after))
	}
	x.w.mu.Lock()
	reqs := append([]*sbReq(nil), x.reqs...)
	listed := append([]string(nil), x.w.listed...)
	x.w.mu.Unlock()
	for _, p := range listed {
		if p != x.ownPrefix() {
			x.tags["listed-other-prefix"] = true
		}
	}
	for _, r := range reqs {
		x.w.mu.Lock()
		done, code, base := r.done, r.code, r.base
		x.w.mu.Unlock()
		if !done || code != 0 {
			continue
		}
		if !r.acked {
			r.acked = true
			r.stored = append([]byte(nil), r.raw...)
			binary.BigEndian.PutUint64(r.stored[0:8], uint64(base))
			x.tags["ack"] = true
			for _, o := range reqs {
				if o == r || !o.acked {
					continue
				}
				if o.base <= r.last() && r.base <= o.last() {
					key := "offset-assigned-twice"
					if o.epoch < r.epoch {
						key = "offset-reuse-after-restart"
					}
					x.setFail(key, fmt.Sprintf("success responses for offsets [%d,%d] and [%d,%d] (%s)", o.base, o.last(), r.base, r.last(), after))
				}
			}
			if r.last() > x.maxAck {
				x.maxAck = r.last()
			}
			for off := r.base; off <= r.last() && off < r.base+64; off++ {
				if rec, ok := x.shown[off]; ok && !bytes.Equal(rec, r.stored) {
					x.setFail("shown-offset-reassigned", fmt.Sprintf("offset %d was shown to a consumer with one record batch and is now acknowledged for a different one (%s)", off, after))
				}
			}
		}
		if !sbDurable(bodies, hasIdx, r.stored) {
			x.setFail("acked-batch-not-in-s3", fmt.Sprintf("produce answered with error code 0 and base offset %d, but the record set is in no S3 segment of the partition that has an index (%s)", base, after))
		}
	}
	next, err := x.inner.NextOffset(context.Background(), sbTopic, sbPart)
	if err == nil && next > end {
		x.setFail("hw-ahead-of-s3", fmt.Sprintf("store next_offset %d but the partition's S3 segments with an index end at %d (%s)", next, end-1, after))
	}
}

// noteCallbacks records, after an action, which UpdateOffsets calls have newly appeared.
func (x *sbExec) noteCallbacks() {
	for t := 0; t < sbNT; t++ {
		if x.has(fmt.Sprintf("cb:%d", t)) {
			if _, ok := x.cbBirth[t]; !ok {
				x.cbSeq++
				x.cbBirth[t] = x.cbSeq
				r := x.running[t]
				x.cbNE[t] = r != nil && r.segOK && r.idxOK
			}
		} else {
			delete(x.cbBirth, t)
			delete(x.cbNE, t)
		}
	}
}

// landCallback lets thread t's store.UpdateOffsets proceed and evaluates C05 on the value it
// writes: not below the previous next_offset, not above 1 + the last offset of this
// partition's indexed S3 segments. A decrease is classified by its structural cause.
func (x *sbExec) landCallback(a sbAct) bool {
	key := fmt.Sprintf("cb:%d", a.T)
	x.w.mu.Lock()
	v := x.w.pend[key].v
	x.w.mu.Unlock()
	birth, ne := x.cbBirth[a.T], x.cbNE[a.T]
	prev, perr := x.inner.NextOffset(context.Background(), sbTopic, sbPart)
	for t := 0; t < sbNT; t++ {
		if t != a.T && x.has(fmt.Sprintf("cb:%d", t)) {
			x.tags["callbacks-overlap"] = true
		}
	}
	x.release(key, a.Ok)
	synctest.Wait()
	delete(x.cbBirth, a.T)
	delete(x.cbNE, a.T)
	x.noteCallbacks()
	if !a.Ok || perr != nil {
		return true
	}
	if v+1 < prev {
		k := "hw-regressed"
		if x.lastBirth > birth { // a call issued LATER (later commit / later look) reached the store first
			if ne && x.lastNE {
				k = "hw-callback-reorder"
			} else {
				k = "hw-empty-flush-publish-reorder"
			}
		}
		x.setFail(k, fmt.Sprintf("store.UpdateOffsets wrote next_offset %d over %d (request t=%d; this call was issued as #%d, the value it overwrote came from call #%d)", v+1, prev, a.T, birth, x.lastBirth))
	}
	x.lastBirth, x.lastNE = birth, ne
	return true
}

func (x *sbExec) fetch(off int64) {
	req := &kmsg.FetchRequest{MaxWaitMillis: 0, Topics: []kmsg.FetchRequestTopic{{Topic: sbTopic,
		Partitions: []kmsg.FetchRequestTopicPartition{{Partition: sbPart, FetchOffset: off, PartitionMaxBytes: 1 << 20}}}}}
	payload, err := x.h.handleFetch(context.Background(), &protocol.RequestHeader{CorrelationID: 7, APIVersion: 11}, req)
	if err != nil || len(payload) == 0 {
		return
	}
	resp := decodeKmsgResponse(x.t, 11, payload, kmsg.NewPtrFetchResponse)
	if len(resp.Topics) != 1 || len(resp.Topics[0].Partitions) != 1 {
		return
	}
	p := resp.Topics[0].Partitions[0]
	if p.ErrorCode != 0 || len(p.RecordBatches) == 0 {
		return
	}
	x.tags["fetch-data"] = true
	bodies, hasIdx, _ := x.s3segs()
	d := p.RecordBatches
	for len(d) >= 61 {
		bl := int(int32(binary.BigEndian.Uint32(d[8:12])))
		if bl <= 0 || 12+bl > len(d) {
			break
		}
		rec := d[:12+bl]
		base := int64(binary.BigEndian.Uint64(rec[0:8]))
		lod := int64(int32(binary.BigEndian.Uint32(rec[23:27])))
		if !sbDurable(bodies, hasIdx, rec) {
			x.setFail("fetch-shows-non-durable-record", fmt.Sprintf("Fetch(offset %d) returned the record batch at offsets [%d,%d] (high watermark %d) which is in no S3 segment of the partition: a crash now loses a record a consumer has seen", off, base, base+lod, p.HighWatermark))
		}
		for o := base; o <= base+lod && o < base+64; o++ {
			if old, ok := x.shown[o]; ok && !bytes.Equal(old, rec) {
				x.setFail("shown-offset-reassigned", fmt.Sprintf("offset %d was shown to a consumer with two different record batches", o))
			}
			x.shown[o] = append([]byte(nil), rec...)
		}
		d = d[12+bl:]
	}
}

func (x *sbExec) do(a sbAct) bool {
	switch a.K {
	case "produce":
		if a.T < 0 || a.T >= sbNT {
			return false
		}
		x.w.mu.Lock()
		busy := x.running[a.T] != nil && !x.running[a.T].done
		x.w.mu.Unlock()
		if busy || len(a.Raw) < 61 {
			return false
		}
		x.produce(a.T, append([]byte(nil), a.Raw...))
	case "seg", "idx", "cb", "no", "ct":
		key := fmt.Sprintf("%s:%d", a.K, a.T)
		if !x.has(key) {
			return false
		}
		if !a.Ok {
			x.tags["fault"] = true
		}
		if a.K == "no" || a.K == "ct" {
			x.tags["first-touch-gated"] = true
		}
		if r := x.running[a.T]; r != nil && a.Ok {
			if a.K == "seg" {
				r.segOK = true
			}
			if a.K == "idx" {
				r.idxOK = true
			}
		}
		if a.K == "cb" {
			return x.landCallback(a)
		}
		x.release(key, a.Ok)
	case "fetch":
		// only once the partition's log is registered: otherwise the fetch joins the init
		// flight of a produce request (singleflight) whose store calls are gated, and this
		// goroutine -- the one that releases the gates -- would block
		x.h.logMu.RLock()
		_, registered := x.h.logs[sbTopic][sbPart]
		x.h.logMu.RUnlock()
		if !registered {
			return false
		}
		x.tags["fetch"] = true
		inflight := false
		for t := 0; t < sbNT; t++ {
			if x.has(fmt.Sprintf("seg:%d", t)) || x.has(fmt.Sprintf("idx:%d", t)) {
				inflight = true
			}
		}
		if inflight {
			x.tags["fetch-during-upload"] = true
		}
		x.fetch(a.Off)
	case "crash":
		x.w.mu.Lock()
		x.w.dead[x.epoch] = true
		x.w.mu.Unlock()
		x.drain()
		x.running = [sbNT]*sbReq{}
		x.cbBirth, x.cbNE = map[int]int{}, map[int]bool{}
		x.newHandler()
		x.tags["crash"] = true
		synctest.Wait()
		// C06: every acknowledged batch is readable at its offset from the restored log
		// (the restart itself goes through the real getPartitionLog, ungated)
		anyAck := false
		for _, r := range x.reqs {
			anyAck = anyAck || r.acked
		}
		if anyAck {
			plog, err := x.h.getPartitionLog(context.Background(), sbTopic, sbPart)
			if err != nil {
				x.setFail("restore-failed", fmt.Sprintf("getPartitionLog after restart: %v", err))
				return true
			}
			for _, r := range x.reqs {
				if !r.acked {
					continue
				}
				data, err := plog.Read(context.Background(), r.base, 0)
				if err != nil || !bytes.Contains(data, r.stored) {
					x.setFail("acked-unreadable-after-restart", fmt.Sprintf("after restart Read(%d) does not return the acknowledged record set (err=%v)", r.base, err))
				}
			}
			if next := plog.BufferedHighWatermark(); next <= x.maxAck {
				x.setFail("offset-reuse-after-restart", fmt.Sprintf("after restart the log's next offset is %d but offset %d was acknowledged", next, x.maxAck))
			}
		}
		return true
	default:
		return false
	}
	synctest.Wait()
	x.noteCallbacks()
	for t := 0; t < sbNT; t++ {
		if x.running[t] != nil && !x.running[t].done && !x.has(fmt.Sprintf("seg:%d", t)) && !x.has(fmt.Sprintf("idx:%d", t)) && !x.has(fmt.Sprintf("cb:%d", t)) &&
			!x.has(fmt.Sprintf("no:%d", t)) && !x.has(fmt.Sprintf("ct:%d", t)) {
			x.tags["request-parked"] = true
		}
	}
	return true
}

func sbBatch(lod, count int32, extra int, marker byte) []byte {
	n := 61 + extra
	d := make([]byte, n)
	binary.BigEndian.PutUint32(d[8:12], uint32(n-12))
	d[16] = 2
	binary.BigEndian.PutUint32(d[23:27], uint32(lod))
	binary.BigEndian.PutUint32(d[57:61], uint32(count))
	for i := 61; i < n; i++ {
		d[i] = marker
	}
	return d
}

// objects of partitions 10 and 13 of the same topic, holding more data than partition 1 will
func (x *sbExec) putForeign() {
	put := func(part int, base int64, lod int32, withIndex bool) {
		raw := sbBatch(lod, lod+1, 5, byte(0xF0+part%10))
		binary.BigEndian.PutUint64(raw[0:8], uint64(base))
		art, err := storage.BuildSegment(storage.SegmentWriterConfig{IndexIntervalMessages: 1},
			[]storage.RecordBatch{{BaseOffset: base, LastOffsetDelta: lod, MessageCount: lod + 1, Bytes: raw}}, time.Now())
		if err != nil {
			return
		}
		dir := fmt.Sprintf("%s/%s/%d/", x.h.s3Namespace, sbTopic, part)
		x.w.objs[dir+fmt.Sprintf("segment-%020d.kfs", base)] = art.SegmentBytes
		if withIndex {
			x.w.objs[dir+fmt.Sprintf("segment-%020d.index", base)] = art.IndexBytes
		}
	}
	x.w.mu.Lock()
	defer x.w.mu.Unlock()
	put(10, 0, 40, true)
	put(10, 41, 9, true)
	put(13, 0, 70, false)
	put(13, 2, 5, true)
}

func sbRun(t *testing.T, cs sbCase) (string, string, map[string]bool, int) {
	var fail, key string
	var tags map[string]bool
	n := 0
	synctest.Test(t, func(t *testing.T) {
		x := &sbExec{t: t, cs: cs, w: &sbWorld{objs: map[string][]byte{}, pend: map[string]*sbGate{}, dead: map[int]bool{}, gateInit: cs.GateInit},
			tags: map[string]bool{}, maxAck: -1, shown: map[int64][]byte{}, cbBirth: map[int]int{}, cbNE: map[int]bool{}, lastBirth: -1}
		x.inner = metadata.NewInMemoryStore(defaultMetadata())
		x.newHandler()
		if cs.Foreign {
			x.putForeign()
			x.tags["foreign-partitions"] = true
		}
		for _, a := range cs.Plan {
			if x.do(a) {
				n++
				x.oracle(fmt.Sprintf("after action %s t=%d", a.K, a.T))
			}
		}
		x.w.mu.Lock()
		x.w.dead[x.epoch] = true
		x.w.mu.Unlock()
		x.drain()
		if x.h.coordinator != nil {
			x.h.coordinator.Stop()
		}
		synctest.Wait()
		fail, key, tags = x.fail, x.failKey, x.tags
	})
	return fail, key, tags, n
}

func sbGen(r *vRand, maxActs int) sbCase {
	cs := sbCase{Foreign: r.Chance(50)}
	nthreads := r.Range(2, sbNT)
	marker := byte(1)
	mkRaw := func() []byte {
		c := int32(r.Range(1, 3))
		if r.Chance(35) {
			c = int32(r.Range(4, 10))
		}
		marker++
		return sbBatch(c-1, c, r.Range(1, 12), marker)
	}
	finish := func() {
		for pass := 0; pass < 3; pass++ {
			for t := 0; t < nthreads; t++ {
				cs.Plan = append(cs.Plan, sbAct{K: "no", T: t, Ok: true}, sbAct{K: "ct", T: t, Ok: true}, sbAct{K: "no", T: t, Ok: true},
					sbAct{K: "seg", T: t, Ok: true}, sbAct{K: "idx", T: t, Ok: true}, sbAct{K: "cb", T: t, Ok: true})
			}
		}
		cs.Plan = append(cs.Plan, sbAct{K: "fetch", Off: int64(r.Intn(4))}, sbAct{K: "crash"}, sbAct{K: "produce", T: 0, Raw: sbBatch(0, 1, 2, 0xEE)},
			sbAct{K: "no", T: 0, Ok: true}, sbAct{K: "seg", T: 0, Ok: true}, sbAct{K: "idx", T: 0, Ok: true}, sbAct{K: "cb", T: 0, Ok: true}, sbAct{K: "fetch", Off: 0})
	}
	if r.Chance(30) {
		// concurrent FIRST touch of the partition (fresh topic, auto-create), init calls gated
		cs.GateInit = true
		for t := 0; t < nthreads; t++ {
			cs.Plan = append(cs.Plan, sbAct{K: "produce", T: t, Raw: mkRaw()})
		}
		kinds := []string{"no", "ct", "no", "ct", "seg", "idx", "cb"}
		n := r.Range(8, maxActs)
		for i := 0; i < n; i++ {
			t := r.Intn(nthreads)
			switch {
			case r.Chance(8):
				cs.Plan = append(cs.Plan, sbAct{K: "fetch", Off: int64(r.Intn(3))})
			case r.Chance(6):
				cs.Plan = append(cs.Plan, sbAct{K: "produce", T: t, Raw: mkRaw()})
			default:
				cs.Plan = append(cs.Plan, sbAct{K: kinds[r.Intn(len(kinds))], T: t, Ok: !r.Chance(8)})
			}
		}
		finish()
		return cs
	}
	n := r.Range(6, maxActs)
	for len(cs.Plan) < n {
		t := r.Intn(nthreads)
		switch r.Intn(14) {
		case 0, 1, 2, 3:
			cs.Plan = append(cs.Plan, sbAct{K: "produce", T: t, Raw: mkRaw()})
		case 4, 5:
			cs.Plan = append(cs.Plan, sbAct{K: "seg", T: t, Ok: !r.Chance(25)})
		case 6, 7:
			cs.Plan = append(cs.Plan, sbAct{K: "idx", T: t, Ok: !r.Chance(25)})
		case 8:
			cs.Plan = append(cs.Plan, sbAct{K: "seg", T: t, Ok: !r.Chance(20)}, sbAct{K: "idx", T: t, Ok: !r.Chance(20)}, sbAct{K: "cb", T: t, Ok: true})
		case 9, 10:
			cs.Plan = append(cs.Plan, sbAct{K: "cb", T: t, Ok: !r.Chance(30)})
		case 11, 12:
			cs.Plan = append(cs.Plan, sbAct{K: "fetch", Off: int64(r.Intn(6))})
		default:
			switch {
			case r.Chance(35):
				cs.Plan = append(cs.Plan, sbAct{K: "crash"})
			case r.Chance(50):
				// the store update of an acknowledged flush is lost, then the broker dies:
				// the restart finds the store behind S3 (by everything when it was the first flush)
				cs.Plan = append(cs.Plan, sbAct{K: "seg", T: t, Ok: true}, sbAct{K: "idx", T: t, Ok: true}, sbAct{K: "cb", T: t, Ok: false}, sbAct{K: "crash"},
					sbAct{K: "produce", T: t, Raw: mkRaw()}, sbAct{K: "seg", T: t, Ok: true}, sbAct{K: "idx", T: t, Ok: true}, sbAct{K: "cb", T: t, Ok: r.Bool()})
			}
		}
	}
	finish()
	return cs
}

func TestVerifStorageBroker(t *testing.T) {
	prop := os.Getenv("VERIF_STORAGE_PROP")
	if prop == "" {
		prop = "C01"
	}
	rep := vNewReport(prop, "real handler.handleProduce (acks=-1) x 2-3 concurrent producers on partition 1 of a fresh auto-created topic (concurrent first touch with gated NextOffset/CreateTopic in 30% of the cases; foreign objects of partitions 10 and 13 in S3 in 50%), blocking fake S3 uploads with outcomes, delayed/failing UpdateOffsets on the real InMemoryStore, real handleFetch at any point incl. during an upload, crash = new handler over the same S3 + store (restart through the real getPartitionLog with the store behind S3 by any amount); non-trivial = a request parked behind another one, a fault, a crash, a gated first touch or a fetch during an upload")
	relevant := func(key string) bool {
		if key == "second-partition-log" { // violated assumption of the shared model, for every property
			return true
		}
		switch prop {
		case "C05":
			return strings.HasPrefix(key, "hw-")
		case "C02":
			return key == "offset-assigned-twice" || key == "offset-reuse-after-restart" || key == "acked-batch-not-in-s3"
		case "C06":
			return !strings.HasPrefix(key, "hw-") && key != "offset-assigned-twice"
		default:
			return key == "acked-batch-not-in-s3" || key == "acked-unreadable-after-restart"
		}
	}
	runOne := func(cs sbCase, label string) {
		fail, key, tags, _ := sbRun(t, cs)
		canon, _ := json.Marshal(cs)
		rep.Count(string(canon), tags["request-parked"] || tags["fault"] || tags["crash"] || tags["first-touch-gated"] || tags["fetch-during-upload"])
		keys := make([]string, 0, len(tags))
		for k := range tags {
			keys = append(keys, k)
		}
		sort.Strings(keys)
		for _, k := range keys {
			rep.Hist("broker:" + k)
		}
		rep.Hist("broker:" + label)
		rep.Sample(cs)
		if fail != "" && relevant(key) {
			shr := cs
			shr.Plan = vShrink(cs.Plan, func(p []sbAct) bool {
				f, k, _, _ := sbRun(t, sbCase{GateInit: cs.GateInit, Foreign: cs.Foreign, Plan: p})
				return f != "" && k == key
			})
			f2, k2, _, _ := sbRun(t, shr)
			if f2 == "" || k2 != key {
				shr, f2 = cs, fail
			}
			rkey := "broker-" + key
			if key == "hw-callback-reorder" || key == "hw-empty-flush-publish-reorder" {
				rkey = key // the two open C05 findings, reproduced through the real handler
			}
			rep.Fail(prop+":broker:"+key, rkey, f2, shr)
		}
	}
	if rc := vReplayCase(); rc != nil {
		// a replay written by the pkg/storage harness carries the buffer configuration; skip those
		var probe struct {
			Interval *int32 `json:"interval"`
		}
		var cs sbCase
		if json.Unmarshal(rc, &probe) == nil && probe.Interval == nil && json.Unmarshal(rc, &cs) == nil && len(cs.Plan) > 0 {
			runOne(cs, "replay")
		}
	} else {
		b := func(m byte) []byte { return sbBatch(0, 1, 4, m) }
		P := func(t int, raw []byte) sbAct { return sbAct{K: "produce", T: t, Raw: raw} }
		G := func(k string, t int, ok bool) sbAct { return sbAct{K: k, T: t, Ok: ok} }
		FE := func(off int64) sbAct { return sbAct{K: "fetch", Off: off} }
		CR := sbAct{K: "crash"}
		corpus := []sbCase{
			// B (t=1) drains A's batch too; A waits in Flush; B's segment upload fails
			{Plan: []sbAct{P(1, b(1)), P(0, b(2)), P(2, b(3)), G("seg", 1, false), G("idx", 1, true), G("seg", 0, true), G("idx", 0, true), G("seg", 2, true), G("idx", 2, true),
				G("cb", 0, true), G("cb", 2, true), CR}},
			// the store update of the FIRST flush is lost (store stays 0), crash, produce again; orphan segment; foreign partitions present
			{Foreign: true, Plan: []sbAct{P(0, b(1)), G("seg", 0, true), G("idx", 0, true), G("cb", 0, false), CR, P(1, b(2)), G("seg", 1, true), CR,
				P(1, b(3)), G("seg", 1, true), G("idx", 1, true), G("cb", 1, true), FE(0), CR, P(2, b(4)), G("seg", 2, true), G("idx", 2, true), G("cb", 2, true)}},
			// two producers touch the fresh partition at the same time; CreateTopic is slow for one
			// of them while the other one's S3 PUT is in flight
			{GateInit: true, Plan: []sbAct{P(0, b(1)), P(1, b(2)), G("no", 0, true), G("no", 1, true), G("ct", 0, true), G("no", 0, true), G("ct", 1, true), G("no", 1, true),
				G("seg", 0, true), G("idx", 0, true), G("seg", 1, true), G("idx", 1, true), G("cb", 0, true), G("cb", 1, true), G("seg", 1, true), G("idx", 1, true), G("cb", 1, true), FE(0), CR}},
			{GateInit: true, Plan: []sbAct{P(0, sbBatch(9, 10, 3, 0x31)), P(1, sbBatch(4, 5, 3, 0x32)), G("no", 0, true), G("no", 1, true), G("ct", 0, true), G("no", 0, true), G("ct", 1, true), G("no", 1, true),
				G("seg", 0, true), G("idx", 0, true), G("seg", 1, true), G("idx", 1, true), G("cb", 0, true), G("cb", 1, true), G("seg", 1, true), G("idx", 1, true), G("cb", 1, true), FE(0), CR}},
			{GateInit: true, Foreign: true, Plan: []sbAct{P(0, sbBatch(2, 3, 3, 0x33)), P(1, sbBatch(6, 7, 3, 0x34)), G("no", 0, true), G("ct", 1, true), G("no", 1, true), G("seg", 1, true), G("ct", 0, true), G("no", 0, true),
				G("idx", 1, true), G("cb", 1, true), G("seg", 0, true), G("idx", 0, true), G("cb", 0, true), G("cb", 1, true), FE(0), CR}},
			// Fetch while a produce is between AppendBatch and the end of its flush, then the broker dies
			{Plan: []sbAct{P(0, b(1)), FE(0), G("seg", 0, true), FE(0), G("idx", 0, true), G("cb", 0, true), FE(0), P(1, b(2)), FE(1), FE(0), CR,
				P(2, b(3)), G("seg", 2, true), G("idx", 2, true), G("cb", 2, true), FE(1)}},
			// restart of the short-id partition next to partitions 10 and 13 that hold more data
			{Foreign: true, Plan: []sbAct{P(0, b(1)), G("seg", 0, true), G("idx", 0, true), G("cb", 0, true), CR, P(1, b(2)), G("seg", 1, true), G("idx", 1, true), G("cb", 1, true), FE(0), CR,
				P(0, b(3)), G("seg", 0, true), G("idx", 0, true), G("cb", 0, false), CR, FE(0)}},
		}
		for _, cs := range corpus {
			runOne(cs, "corpus")
		}
		r := vNewRand(vSeed()*7919 + 17)
		n := vN(120, 900)
		for i := 0; i < n; i++ {
			runOne(sbGen(r.Fork(), 28), "gen")
		}
	}
	rep.CaseFiles = []string{}
	rep.WriteAs(prop + "_broker")
}
