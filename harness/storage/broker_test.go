package main

// Glue harness for the storage write-path properties (C01, C05, C06): the same kind of
// schedules as harness/storage/storage_test.go, but driven through the REAL broker
// handler: handler.handleProduce (acks=-1, flushOnAck default) -> getPartitionLog ->
// NewRecordBatchFromBytes -> AppendBatch -> Flush -> the real onFlush closure -> the real
// metadata.InMemoryStore.UpdateOffsets. Only the S3 client is a fake (uploads block until
// released with an outcome) and the store is wrapped so that UpdateOffsets blocks until
// released. AppendBatch and Flush of one request run back to back here (the handler has
// no scheduling point between them), so these schedules are coarser than the ones of
// the pkg/storage harness. Implementation-side oracle only (no model comparison):
//   C01  success code => the record set (with the response's base offset patched in)
//        is inside an S3 .kfs body whose .index object parses, and stays there
//   C05  store.NextOffset never exceeds 1 + the last offset of such segments
//   C06  after dropping the handler and building a new one over the same S3 + store,
//        every acknowledged batch is returned by the partition log's Read at its offset,
//        and later success responses carry base offsets above every acknowledged one.

import (
	"bytes"
	"context"
	"encoding/binary"
	"encoding/json"
	"errors"
	"fmt"
	"os"
	"sort"
	"strings"
	"sync"
	"testing"
	"testing/synctest"

	"github.com/KafScale/platform/pkg/metadata"
	"github.com/KafScale/platform/pkg/protocol"
	"github.com/KafScale/platform/pkg/storage"
	"github.com/twmb/franz-go/pkg/kmsg"
)

const sbNT = 3

type sbAct struct {
	K   string `json:"k"` // produce|seg|idx|cb|crash
	T   int    `json:"t,omitempty"`
	Ok  bool   `json:"ok,omitempty"`
	Raw []byte `json:"raw,omitempty"`
}
type sbCase struct {
	Plan []sbAct `json:"plan"`
}

type sbTid struct{}

type sbGate struct {
	ch chan bool
	v  int64
}

type sbWorld struct {
	mu   sync.Mutex
	objs map[string][]byte
	pend map[string]*sbGate
	dead map[int]bool // epochs that crashed
}

type sbS3 struct {
	w     *sbWorld
	epoch int
}

func sbTidOf(ctx context.Context) int {
	if v, ok := ctx.Value(sbTid{}).(int); ok {
		return v
	}
	return -1
}

func (w *sbWorld) wait(key string, v int64) bool {
	g := &sbGate{ch: make(chan bool), v: v}
	w.mu.Lock()
	w.pend[key] = g
	w.mu.Unlock()
	return <-g.ch
}

func (s *sbS3) put(ctx context.Context, kind, key string, body []byte) error {
	ok := s.w.wait(fmt.Sprintf("%s:%d", kind, sbTidOf(ctx)), 0)
	s.w.mu.Lock()
	defer s.w.mu.Unlock()
	if !ok || s.w.dead[s.epoch] {
		return errors.New("injected: s3 upload failed")
	}
	s.w.objs[key] = append([]byte(nil), body...)
	return nil
}
func (s *sbS3) UploadSegment(ctx context.Context, key string, body []byte) error {
	return s.put(ctx, "seg", key, body)
}
func (s *sbS3) UploadIndex(ctx context.Context, key string, body []byte) error {
	return s.put(ctx, "idx", key, body)
}
func (s *sbS3) DeleteSegment(ctx context.Context, key string) error { return nil }
func (s *sbS3) DeleteIndex(ctx context.Context, key string) error   { return nil }
func (s *sbS3) EnsureBucket(ctx context.Context) error              { return nil }
func (s *sbS3) DownloadSegment(ctx context.Context, key string, rng *storage.ByteRange) ([]byte, error) {
	s.w.mu.Lock()
	defer s.w.mu.Unlock()
	data, ok := s.w.objs[key]
	if !ok {
		return nil, fmt.Errorf("segment %s not found", key)
	}
	if rng == nil {
		return append([]byte(nil), data...), nil
	}
	start, end := rng.Start, rng.End
	if start < 0 {
		start = 0
	}
	if end >= int64(len(data)) {
		end = int64(len(data)) - 1
	}
	if start > end || start >= int64(len(data)) {
		return nil, fmt.Errorf("segment %s range invalid", key)
	}
	return append([]byte(nil), data[start:end+1]...), nil
}
func (s *sbS3) DownloadIndex(ctx context.Context, key string) ([]byte, error) {
	s.w.mu.Lock()
	defer s.w.mu.Unlock()
	if data, ok := s.w.objs[key]; ok {
		return append([]byte(nil), data...), nil
	}
	return nil, fmt.Errorf("index %s: %w", key, storage.ErrNotFound)
}
func (s *sbS3) ListSegments(ctx context.Context, prefix string) ([]storage.S3Object, error) {
	s.w.mu.Lock()
	defer s.w.mu.Unlock()
	out := []storage.S3Object{}
	for k, d := range s.w.objs {
		if strings.HasPrefix(k, prefix) {
			out = append(out, storage.S3Object{Key: k, Size: int64(len(d))})
		}
	}
	return out, nil
}

// the real in-memory store; only UpdateOffsets is delayed / made to fail
type sbStore struct {
	metadata.Store
	w     *sbWorld
	epoch int
}

func (s *sbStore) UpdateOffsets(ctx context.Context, topic string, partition int32, lastOffset int64) error {
	tid := sbTidOf(ctx)
	if tid < 0 { // getPartitionLog's own sync
		return s.Store.UpdateOffsets(ctx, topic, partition, lastOffset)
	}
	ok := s.w.wait(fmt.Sprintf("cb:%d", tid), lastOffset)
	s.w.mu.Lock()
	dead := s.w.dead[s.epoch]
	s.w.mu.Unlock()
	if !ok || dead {
		return errors.New("injected: etcd put failed")
	}
	return s.Store.UpdateOffsets(ctx, topic, partition, lastOffset)
}

type sbReq struct {
	raw    []byte
	done   bool
	code   int16
	base   int64
	epoch  int
	acked  bool
	stored []byte
}

type sbExec struct {
	t       *testing.T
	w       *sbWorld
	inner   metadata.Store
	h       *handler
	epoch   int
	running [sbNT]*sbReq
	reqs    []*sbReq
	fail    string
	failKey string
	tags    map[string]bool
	maxAck  int64
}

func (x *sbExec) setFail(k, w string) {
	if x.fail == "" {
		x.fail, x.failKey = w, k
	}
}

func (x *sbExec) newHandler() {
	if x.h != nil && x.h.coordinator != nil {
		x.h.coordinator.Stop() // its cleanup goroutine would otherwise outlive the bubble
	}
	x.epoch++
	store := &sbStore{Store: x.inner, w: x.w, epoch: x.epoch}
	x.h = newHandler(store, &sbS3{w: x.w, epoch: x.epoch}, protocol.MetadataBroker{NodeID: 1, Host: "localhost", Port: 19092}, testLogger())
}

func (x *sbExec) has(key string) bool {
	x.w.mu.Lock()
	defer x.w.mu.Unlock()
	_, ok := x.w.pend[key]
	return ok
}

func (x *sbExec) release(key string, ok bool) {
	x.w.mu.Lock()
	g := x.w.pend[key]
	delete(x.w.pend, key)
	x.w.mu.Unlock()
	if g != nil {
		g.ch <- ok
	}
}

func (x *sbExec) drain() { // let every in-flight request of a dead epoch finish
	for i := 0; i < 100; i++ {
		synctest.Wait()
		x.w.mu.Lock()
		keys := []string{}
		for k := range x.w.pend {
			keys = append(keys, k)
		}
		x.w.mu.Unlock()
		if len(keys) == 0 {
			return
		}
		for _, k := range keys {
			x.release(k, false)
		}
	}
}

func (x *sbExec) produce(tid int, raw []byte) {
	r := &sbReq{raw: raw, epoch: x.epoch}
	x.running[tid] = r
	x.reqs = append(x.reqs, r)
	h := x.h
	go func() {
		ctx := context.WithValue(context.Background(), sbTid{}, tid)
		req := &kmsg.ProduceRequest{Acks: -1, TimeoutMillis: 1000, Topics: []kmsg.ProduceRequestTopic{{Topic: "orders",
			Partitions: []kmsg.ProduceRequestTopicPartition{{Partition: 0, Records: raw}}}}}
		payload, err := h.handleProduce(ctx, &protocol.RequestHeader{CorrelationID: 1}, req)
		code, base := int16(-1), int64(-1)
		if err == nil && payload != nil {
			resp := decodeKmsgResponse(x.t, 0, payload, kmsg.NewPtrProduceResponse)
			if len(resp.Topics) == 1 && len(resp.Topics[0].Partitions) == 1 {
				code, base = resp.Topics[0].Partitions[0].ErrorCode, resp.Topics[0].Partitions[0].BaseOffset
			}
		}
		x.w.mu.Lock()
		r.code, r.base, r.done = code, base, true
		x.w.mu.Unlock()
	}()
}

func (x *sbExec) s3segs() (map[int64][]byte, map[int64]bool, int64) {
	bodies, hasIdx := map[int64][]byte{}, map[int64]bool{}
	end := int64(0)
	x.w.mu.Lock()
	defer x.w.mu.Unlock()
	lasts := map[int64]int64{}
	for k, d := range x.w.objs {
		name := k[strings.LastIndex(k, "/")+1:]
		var base int64
		if strings.HasSuffix(name, ".kfs") && len(d) >= 48 {
			fmt.Sscanf(strings.TrimSuffix(strings.TrimPrefix(name, "segment-"), ".kfs"), "%d", &base)
			bodies[base] = d[32 : len(d)-16]
			lasts[base] = int64(binary.BigEndian.Uint64(d[len(d)-12 : len(d)-4]))
		} else if strings.HasSuffix(name, ".index") {
			fmt.Sscanf(strings.TrimSuffix(strings.TrimPrefix(name, "segment-"), ".index"), "%d", &base)
			if _, err := storage.ParseIndex(d); err == nil {
				hasIdx[base] = true
			}
		}
	}
	for b, l := range lasts {
		if hasIdx[b] && l+1 > end {
			end = l + 1
		}
	}
	return bodies, hasIdx, end
}

func (x *sbExec) oracle(after string) {
	bodies, hasIdx, end := x.s3segs()
	x.w.mu.Lock()
	reqs := append([]*sbReq(nil), x.reqs...)
	x.w.mu.Unlock()
	for _, r := range reqs {
		x.w.mu.Lock()
		done, code, base := r.done, r.code, r.base
		x.w.mu.Unlock()
		if !done || code != 0 {
			continue
		}
		if !r.acked {
			r.acked = true
			r.stored = append([]byte(nil), r.raw...)
			binary.BigEndian.PutUint64(r.stored[0:8], uint64(base))
			x.tags["ack"] = true
			if r.epoch > 1 && base <= x.maxAck && x.maxAck >= 0 {
				prev := false
				for _, o := range reqs {
					if o.acked && o.epoch < r.epoch && o.base+int64(int32(binary.BigEndian.Uint32(o.raw[23:27]))) >= base {
						prev = true
					}
				}
				if prev {
					x.setFail("offset-reuse-after-restart", fmt.Sprintf("success response with base offset %d after restart, but offset %d was acknowledged before the crash", base, x.maxAck))
				}
			}
			if l := base + int64(int32(binary.BigEndian.Uint32(r.raw[23:27]))); l > x.maxAck {
				x.maxAck = l
			}
		}
		found := false
		for b, body := range bodies {
			if hasIdx[b] && bytes.Contains(body, r.stored) {
				found = true
			}
		}
		if !found {
			x.setFail("acked-batch-not-in-s3", fmt.Sprintf("produce answered with error code 0 and base offset %d, but the record set is in no S3 segment that has an index (%s)", base, after))
		}
	}
	next, err := x.inner.NextOffset(context.Background(), "orders", 0)
	if err == nil && next > end {
		x.setFail("hw-ahead-of-s3", fmt.Sprintf("store next_offset %d but S3 segments with an index end at %d (%s)", next, end-1, after))
	}
}

func (x *sbExec) do(a sbAct) bool {
	switch a.K {
	case "produce":
		if a.T < 0 || a.T >= sbNT {
			return false
		}
		x.w.mu.Lock()
		busy := x.running[a.T] != nil && !x.running[a.T].done
		x.w.mu.Unlock()
		if busy {
			return false
		}
		x.produce(a.T, append([]byte(nil), a.Raw...))
	case "seg", "idx", "cb":
		key := fmt.Sprintf("%s:%d", a.K, a.T)
		if !x.has(key) {
			return false
		}
		if !a.Ok {
			x.tags["fault"] = true
		}
		x.release(key, a.Ok)
	case "crash":
		x.w.mu.Lock()
		x.w.dead[x.epoch] = true
		x.w.mu.Unlock()
		x.drain()
		x.running = [sbNT]*sbReq{}
		x.newHandler()
		x.tags["crash"] = true
		synctest.Wait()
		// C06: every acknowledged batch is readable at its offset from the restored log
		anyAck := false
		for _, r := range x.reqs {
			anyAck = anyAck || r.acked
		}
		if anyAck {
			plog, err := x.h.getPartitionLog(context.Background(), "orders", 0)
			if err != nil {
				x.setFail("restore-failed", fmt.Sprintf("getPartitionLog after restart: %v", err))
				return true
			}
			for _, r := range x.reqs {
				if !r.acked {
					continue
				}
				data, err := plog.Read(context.Background(), r.base, 0)
				if err != nil || !bytes.Contains(data, r.stored) {
					x.setFail("acked-unreadable-after-restart", fmt.Sprintf("after restart Read(%d) does not return the acknowledged record set (err=%v)", r.base, err))
				}
			}
		}
		return true
	default:
		return false
	}
	synctest.Wait()
	for t := 0; t < sbNT; t++ {
		if x.running[t] != nil && !x.running[t].done && !x.has(fmt.Sprintf("seg:%d", t)) && !x.has(fmt.Sprintf("idx:%d", t)) && !x.has(fmt.Sprintf("cb:%d", t)) {
			x.tags["flush-parked"] = true
		}
	}
	return true
}

func sbRun(t *testing.T, cs sbCase) (string, string, map[string]bool, int) {
	var fail, key string
	var tags map[string]bool
	n := 0
	synctest.Test(t, func(t *testing.T) {
		x := &sbExec{t: t, w: &sbWorld{objs: map[string][]byte{}, pend: map[string]*sbGate{}, dead: map[int]bool{}}, tags: map[string]bool{}, maxAck: -1}
		x.inner = metadata.NewInMemoryStore(defaultMetadata())
		x.newHandler()
		for _, a := range cs.Plan {
			if x.do(a) {
				n++
				x.oracle(fmt.Sprintf("after action %s t=%d", a.K, a.T))
			}
		}
		x.w.mu.Lock()
		x.w.dead[x.epoch] = true
		x.w.mu.Unlock()
		x.drain()
		if x.h.coordinator != nil {
			x.h.coordinator.Stop()
		}
		synctest.Wait()
		fail, key, tags = x.fail, x.failKey, x.tags
	})
	return fail, key, tags, n
}

func sbBatch(lod, count int32, extra int, marker byte) []byte {
	n := 61 + extra
	d := make([]byte, n)
	binary.BigEndian.PutUint32(d[8:12], uint32(n-12))
	d[16] = 2
	binary.BigEndian.PutUint32(d[23:27], uint32(lod))
	binary.BigEndian.PutUint32(d[57:61], uint32(count))
	for i := 61; i < n; i++ {
		d[i] = marker
	}
	return d
}

func sbGen(r *vRand, maxActs int) sbCase {
	var cs sbCase
	nthreads := r.Range(2, sbNT)
	n := r.Range(6, maxActs)
	marker := byte(1)
	for len(cs.Plan) < n {
		t := r.Intn(nthreads)
		switch r.Intn(12) {
		case 0, 1, 2, 3:
			c := int32(r.Range(1, 4))
			cs.Plan = append(cs.Plan, sbAct{K: "produce", T: t, Raw: sbBatch(c-1, c, r.Range(1, 12), marker)})
			marker++
		case 4, 5:
			cs.Plan = append(cs.Plan, sbAct{K: "seg", T: t, Ok: !r.Chance(25)})
		case 6, 7:
			cs.Plan = append(cs.Plan, sbAct{K: "idx", T: t, Ok: !r.Chance(25)})
		case 8:
			cs.Plan = append(cs.Plan, sbAct{K: "seg", T: t, Ok: !r.Chance(20)}, sbAct{K: "idx", T: t, Ok: !r.Chance(20)}, sbAct{K: "cb", T: t, Ok: true})
		case 9, 10:
			cs.Plan = append(cs.Plan, sbAct{K: "cb", T: t, Ok: !r.Chance(15)})
		default:
			if r.Chance(35) {
				cs.Plan = append(cs.Plan, sbAct{K: "crash"})
			}
		}
	}
	for pass := 0; pass < 3; pass++ {
		for t := 0; t < nthreads; t++ {
			cs.Plan = append(cs.Plan, sbAct{K: "seg", T: t, Ok: true}, sbAct{K: "idx", T: t, Ok: true}, sbAct{K: "cb", T: t, Ok: true})
		}
	}
	cs.Plan = append(cs.Plan, sbAct{K: "crash"}, sbAct{K: "produce", T: 0, Raw: sbBatch(0, 1, 2, 0xEE)}, sbAct{K: "seg", T: 0, Ok: true}, sbAct{K: "idx", T: 0, Ok: true}, sbAct{K: "cb", T: 0, Ok: true})
	return cs
}

func TestVerifStorageBroker(t *testing.T) {
	prop := os.Getenv("VERIF_STORAGE_PROP")
	if prop == "" {
		prop = "C01"
	}
	rep := vNewReport(prop, "real handler.handleProduce (acks=-1) x 2-3 concurrent producers on one partition under synctest, blocking fake S3 uploads with outcomes, delayed/failing UpdateOffsets on the real InMemoryStore, crash = new handler over the same S3 + store; non-trivial = a request parked in Flush behind another one, a fault, or a crash")
	relevant := func(key string) bool {
		switch prop {
		case "C05":
			return key == "hw-ahead-of-s3"
		case "C06":
			return key != "hw-ahead-of-s3"
		default:
			return key == "acked-batch-not-in-s3" || key == "acked-unreadable-after-restart"
		}
	}
	runOne := func(cs sbCase, label string) {
		fail, key, tags, _ := sbRun(t, cs)
		canon, _ := json.Marshal(cs)
		rep.Count(string(canon), tags["flush-parked"] || tags["fault"] || tags["crash"])
		keys := make([]string, 0, len(tags))
		for k := range tags {
			keys = append(keys, k)
		}
		sort.Strings(keys)
		for _, k := range keys {
			rep.Hist("broker:" + k)
		}
		rep.Hist("broker:" + label)
		rep.Sample(cs)
		if fail != "" && relevant(key) {
			shr := cs
			shr.Plan = vShrink(cs.Plan, func(p []sbAct) bool {
				f, k, _, _ := sbRun(t, sbCase{Plan: p})
				return f != "" && k == key
			})
			f2, k2, _, _ := sbRun(t, shr)
			if f2 == "" || k2 != key {
				shr, f2 = cs, fail
			}
			rep.Fail(prop+":broker:"+key, "broker-"+key, f2, shr)
		}
	}
	if rc := vReplayCase(); rc != nil {
		// a replay written by the pkg/storage harness carries the buffer configuration; skip those
		var probe struct {
			Interval *int32 `json:"interval"`
		}
		var cs sbCase
		if json.Unmarshal(rc, &probe) == nil && probe.Interval == nil && json.Unmarshal(rc, &cs) == nil && len(cs.Plan) > 0 {
			runOne(cs, "replay")
		}
	} else {
		b := func(m byte) []byte { return sbBatch(0, 1, 4, m) }
		corpus := []sbCase{
			// B (t=1) drains A's batch too; A waits in Flush; B's segment upload fails
			{Plan: []sbAct{{K: "produce", T: 1, Raw: b(1)}, {K: "produce", T: 0, Raw: b(2)}, {K: "produce", T: 2, Raw: b(3)}, {K: "seg", T: 1, Ok: false}, {K: "idx", T: 1, Ok: true},
				{K: "seg", T: 0, Ok: true}, {K: "idx", T: 0, Ok: true}, {K: "seg", T: 2, Ok: true}, {K: "idx", T: 2, Ok: true}, {K: "cb", T: 0, Ok: true}, {K: "cb", T: 2, Ok: true}, {K: "crash"}}},
			{Plan: []sbAct{{K: "produce", T: 0, Raw: b(1)}, {K: "seg", T: 0, Ok: true}, {K: "idx", T: 0, Ok: true}, {K: "cb", T: 0, Ok: false}, {K: "crash"},
				{K: "produce", T: 1, Raw: b(2)}, {K: "seg", T: 1, Ok: true}, {K: "crash"}, {K: "produce", T: 1, Raw: b(3)}, {K: "seg", T: 1, Ok: true}, {K: "idx", T: 1, Ok: true}, {K: "cb", T: 1, Ok: true}}},
		}
		for _, cs := range corpus {
			runOne(cs, "corpus")
		}
		r := vNewRand(vSeed()*7919 + 17)
		n := vN(80, 800)
		for i := 0; i < n; i++ {
			runOne(sbGen(r.Fork(), 28), "gen")
		}
	}
	rep.CaseFiles = []string{}
	rep.WriteAs(prop + "_broker")
}
