package storage

// Storage write-path harness (C01, C02, C05, C06; selected by VERIF_STORAGE_PROP).
//
// Runs the REAL PartitionLog (AppendBatch / Flush / prepareFlush / uploadFlush /
// RestoreFromS3, WriteBuffer, NewRecordBatchFromBytes, BuildSegment) inside a
// testing/synctest bubble with
//   * up to three producer goroutines executing a faithful copy of the produce slice of
//     cmd/broker handleProduce (parse -> AppendBatch -> Flush -> success / error code),
//     split between AppendBatch and Flush so that other producers can be scheduled there;
//   * a fake S3Client whose uploads block until the schedule releases them with an
//     outcome (ok / error), and whose reads can be made to fail during restore;
//   * a copy of getPartitionLog's onFlush closure (store.UpdateOffsets = unconditional
//     put of lastOffset+1, error only logged) that blocks until released;
//   * crash = the PartitionLog and its goroutines are abandoned (their pending S3 calls
//     never take effect), restart = the getPartitionLog sequence (NextOffset,
//     NewPartitionLog, RestoreFromS3, offset sync) over the same fake S3 + store.
// After every scheduled action synctest.Wait() makes the execution quiescent; the
// harness then records which model events happened (a Flush parked on flushCond that
// proceeds after a commit/reset is observed, not assumed), snapshots the real state
// and evaluates the implementation-side oracle of the selected property directly on
// what the real code did. Every executed case is emitted as a Coq term for
// corr/StorageCorr.v (model/code correspondence).

import (
	"bytes"
	"context"
	"encoding/binary"
	"encoding/hex"
	"encoding/json"
	"errors"
	"fmt"
	"os"
	"sort"
	"strings"
	"sync"
	"testing"
	"testing/synctest"
	"time"
)

const swNT = 3

type swAct struct {
	K   string `json:"k"` // produce|flush|seg|idx|cb|respond|crash|restart|rfault
	T   int    `json:"t,omitempty"`
	Ok  bool   `json:"ok,omitempty"`
	Raw []byte `json:"raw,omitempty"`
	N   int    `json:"n,omitempty"` // rfault: index of the store/S3 call that fails
}

type swCase struct {
	MaxBytes   int     `json:"max_bytes"`
	MaxMsgs    int     `json:"max_msgs"`
	MaxBatches int     `json:"max_batches"`
	Interval   int32   `json:"interval"`
	Foreign    bool    `json:"foreign,omitempty"` // S3 also holds objects of partitions 10 and 13 of the same topic
	Plan       []swAct `json:"plan"`
}

// ---------------------------------------------------------------- world, epoch, fakes
type swWorld struct {
	objs  map[string][]byte // S3: full key -> bytes (.kfs and .index)
	store int64             // metadata store next_offset of the partition
	pubs  []int64           // every value written to the store, in order
}

type swTidKey struct{}

type swGate struct {
	tid  int
	kind string // seg|idx|cb
	key  string
	body []byte
	v    int64
	ch   chan bool
}

const (
	phIdle = iota
	phInAppend
	phAppended
	phInFlush
	phDone
)

type swCmd struct {
	kind string
	raw  []byte
}

type swThread struct {
	id       int
	cmd      chan swCmd
	phase    int
	raw      []byte
	base     int64
	last     int64
	ok       bool
	rejected bool
	fromApp  bool // AppendBatch returned an error (threshold flush failed)
}

type swEpoch struct {
	mu      sync.Mutex
	w       *swWorld
	dead    bool
	log     *PartitionLog
	pend    map[string]*swGate
	threads [swNT]*swThread
	faultAt int
	ops     int
}

func (e *swEpoch) fault() bool {
	e.mu.Lock()
	defer e.mu.Unlock()
	n := e.ops
	e.ops++
	return e.faultAt >= 0 && n == e.faultAt
}

func swTid(ctx context.Context) int {
	if v, ok := ctx.Value(swTidKey{}).(int); ok {
		return v
	}
	return -1
}

func (e *swEpoch) gate(ctx context.Context, kind, key string, body []byte, v int64) (bool, *swGate) {
	g := &swGate{tid: swTid(ctx), kind: kind, key: key, body: append([]byte(nil), body...), v: v, ch: make(chan bool)}
	e.mu.Lock()
	e.pend[fmt.Sprintf("%s:%d", kind, g.tid)] = g
	e.mu.Unlock()
	ok := <-g.ch
	e.mu.Lock()
	dead := e.dead
	e.mu.Unlock()
	return ok && !dead, g
}

type swS3 struct{ e *swEpoch }

func (s *swS3) UploadSegment(ctx context.Context, key string, body []byte) error {
	ok, g := s.e.gate(ctx, "seg", key, body, 0)
	if !ok {
		return errors.New("injected: upload segment failed")
	}
	s.e.mu.Lock()
	s.e.w.objs[key] = g.body
	s.e.mu.Unlock()
	return nil
}
func (s *swS3) UploadIndex(ctx context.Context, key string, body []byte) error {
	ok, g := s.e.gate(ctx, "idx", key, body, 0)
	if !ok {
		return errors.New("injected: upload index failed")
	}
	s.e.mu.Lock()
	s.e.w.objs[key] = g.body
	s.e.mu.Unlock()
	return nil
}
func (s *swS3) DeleteSegment(ctx context.Context, key string) error { return nil }
func (s *swS3) DeleteIndex(ctx context.Context, key string) error   { return nil }
func (s *swS3) EnsureBucket(ctx context.Context) error              { return nil }
func (s *swS3) DownloadSegment(ctx context.Context, key string, rng *ByteRange) ([]byte, error) {
	if s.e.fault() {
		return nil, errors.New("injected: transient download error")
	}
	s.e.mu.Lock()
	defer s.e.mu.Unlock()
	data, ok := s.e.w.objs[key]
	if !ok {
		return nil, fmt.Errorf("segment %s not found", key)
	}
	if rng == nil {
		return append([]byte(nil), data...), nil
	}
	start, end := rng.Start, rng.End
	if start < 0 {
		start = 0
	}
	if end >= int64(len(data)) {
		end = int64(len(data)) - 1
	}
	if start > end || start >= int64(len(data)) {
		return nil, fmt.Errorf("segment %s range invalid", key)
	}
	return append([]byte(nil), data[start:end+1]...), nil
}
func (s *swS3) DownloadIndex(ctx context.Context, key string) ([]byte, error) {
	if s.e.fault() {
		return nil, errors.New("injected: transient index download error")
	}
	s.e.mu.Lock()
	defer s.e.mu.Unlock()
	if data, ok := s.e.w.objs[key]; ok {
		return append([]byte(nil), data...), nil
	}
	return nil, fmt.Errorf("index %s: %w", key, ErrNotFound)
}
func (s *swS3) ListSegments(ctx context.Context, prefix string) ([]S3Object, error) {
	if s.e.fault() {
		return nil, errors.New("injected: transient list error")
	}
	s.e.mu.Lock()
	defer s.e.mu.Unlock()
	out := []S3Object{}
	for k, d := range s.e.w.objs {
		if strings.HasPrefix(k, prefix) {
			out = append(out, S3Object{Key: k, Size: int64(len(d))})
		}
	}
	sort.Slice(out, func(i, j int) bool { return out[i].Key > out[j].Key }) // deliberately not ascending
	return out, nil
}

// copy of the closure getPartitionLog passes to NewPartitionLog
func (e *swEpoch) onFlush(ctx context.Context, a *SegmentArtifact) {
	ok, _ := e.gate(ctx, "cb", "", nil, a.LastOffset)
	e.mu.Lock()
	defer e.mu.Unlock()
	if e.dead {
		return
	}
	if ok { // store.UpdateOffsets: unconditional put; an error is only logged
		e.w.store = a.LastOffset + 1
		e.w.pubs = append(e.w.pubs, a.LastOffset+1)
	}
}

// copy of the produce slice of handleProduce for one partition, acks != 0, flushOnAck
func (e *swEpoch) threadLoop(th *swThread) {
	ctx := context.WithValue(context.Background(), swTidKey{}, th.id)
	set := func(f func()) { e.mu.Lock(); f(); e.mu.Unlock() }
	for c := range th.cmd {
		switch c.kind {
		case "append":
			set(func() { th.phase = phInAppend; th.raw = c.raw; th.rejected = false; th.fromApp = false })
			batch, err := NewRecordBatchFromBytes(c.raw)
			if err != nil { // UNKNOWN_SERVER_ERROR for this partition
				set(func() { th.phase = phIdle; th.rejected = true })
				continue
			}
			res, err := e.log.AppendBatch(ctx, batch)
			if err != nil { // backpressure error code
				set(func() { th.phase = phDone; th.ok = false; th.fromApp = true })
				continue
			}
			set(func() { th.phase = phAppended; th.base = res.BaseOffset; th.last = res.LastOffset })
		case "flush":
			set(func() { th.phase = phInFlush })
			err := e.log.Flush(ctx)
			set(func() { th.phase = phDone; th.ok = err == nil })
		}
	}
}

// ---------------------------------------------------------------- executor
type swAccepted struct {
	inc    int
	seq    int
	base   int64
	last   int64
	lod    int32
	stored []byte
	acked  bool
	hit    bool // was in flushingBatches when an upload failure reset happened
}

type swUp struct{ sg, ix int } // 0 pending 1 ok 2 fail

type swExec struct {
	cs             swCase
	prop           string
	w              *swWorld
	e              *swEpoch
	live           bool
	inc            int
	up             map[int]*swUp
	origin         map[int]int // 0 FromAppend 1 FromFlush for the thread's current PUp/PCb
	cbEmpty        map[int]bool
	overtaken      map[int]bool // a larger offset was published while t's callback was pending
	overtakenNE    map[int]bool // ... by the callback of a NON-empty flush
	cbStale        map[int]bool // the callback's offset differed from the last committed offset when it was created
	cbWasOvertaken bool
	cbWasOvNE      bool
	cbWasStale     bool
	cbWasEmpty     bool
	accepted       []*swAccepted
	cur            [swNT]*swAccepted
	expNext        int64
	maxPub         int64
	maxAcked       int64
	fail           string
	failKey        string
	steps          []string // Coq: (events, obs)
	tags           map[string]bool
	nEvents        int
	lastCB         struct {
		tid int
		v   int64
	}
}

const swPrefix = "default/t/1/" // the partition under test is partition 1; partitions 10 and 13 may hold foreign data

func (x *swExec) setFail(key, what string) {
	if x.fail == "" {
		x.fail, x.failKey = what, key
	}
}

func (x *swExec) newEpoch() *swEpoch {
	e := &swEpoch{w: x.w, pend: map[string]*swGate{}, faultAt: -1}
	for i := 0; i < swNT; i++ {
		th := &swThread{id: i, cmd: make(chan swCmd)}
		e.threads[i] = th
		go e.threadLoop(th)
	}
	return e
}

func (x *swExec) logCfg() PartitionLogConfig {
	return PartitionLogConfig{
		Buffer:  WriteBufferConfig{MaxBytes: x.cs.MaxBytes, MaxMessages: x.cs.MaxMsgs, MaxBatches: x.cs.MaxBatches},
		Segment: SegmentWriterConfig{IndexIntervalMessages: x.cs.Interval},
	}
}

// copy of getPartitionLog's initialisation; returns false when it returned an error
func (x *swExec) openLog(e *swEpoch, syncOK bool) (bool, bool) {
	if e.fault() { // store.NextOffset
		return false, true
	}
	nextOffset := x.w.store
	plog := NewPartitionLog("default", "t", 1, nextOffset, &swS3{e: e}, nil, x.logCfg(), e.onFlush, nil, nil)
	before := e.ops
	lastOffset, err := plog.RestoreFromS3(context.Background())
	_ = before
	if err != nil {
		injected := e.faultAt >= 0 && e.ops > e.faultAt
		return false, injected
	}
	if lastOffset >= nextOffset {
		if syncOK { // UpdateOffsets error is only logged
			x.w.store = lastOffset + 1
			x.w.pubs = append(x.w.pubs, lastOffset+1)
		}
	}
	e.log = plog
	return true, false
}

func (x *swExec) kill() {
	e := x.e
	if e == nil {
		return
	}
	e.mu.Lock()
	e.dead = true
	e.mu.Unlock()
	for i := 0; i < 200; i++ {
		synctest.Wait()
		e.mu.Lock()
		gs := []*swGate{}
		for k, g := range e.pend {
			gs = append(gs, g)
			delete(e.pend, k)
		}
		e.mu.Unlock()
		if len(gs) == 0 {
			break
		}
		for _, g := range gs {
			g.ch <- false
		}
	}
	for _, th := range e.threads {
		close(th.cmd)
	}
	synctest.Wait()
	x.e = nil
}

type swStat struct {
	kind   int // 0 idle 1 appended(parked or not) 2 up 3 cb 4 ret
	parked bool
	base   int64
	v      int64
	ok     bool
}

func (x *swExec) stat(t int) swStat {
	e := x.e
	e.mu.Lock()
	defer e.mu.Unlock()
	th := e.threads[t]
	_, sg := e.pend[fmt.Sprintf("seg:%d", t)]
	_, ix := e.pend[fmt.Sprintf("idx:%d", t)]
	cb, hasCb := e.pend[fmt.Sprintf("cb:%d", t)]
	st := swStat{base: th.base}
	if x.cur[t] != nil {
		st.base = x.cur[t].base
	}
	switch {
	case th.phase == phIdle:
		st.kind = 0
	case th.phase == phDone:
		st.kind, st.ok = 4, th.ok
	case hasCb:
		st.kind, st.v = 3, cb.v
	case sg || ix:
		st.kind = 2
	case th.phase == phAppended:
		st.kind = 1
	case th.phase == phInFlush:
		st.kind, st.parked = 1, true
	case th.phase == phInAppend:
		st.kind = 2 // cannot be observed quiescent without gates
	}
	return st
}

func (x *swExec) enabled(a swAct) bool {
	switch a.K {
	case "restart", "rfault":
		return !x.live
	}
	if !x.live {
		return false
	}
	if a.K == "crash" {
		return true
	}
	if a.T < 0 || a.T >= swNT {
		return false
	}
	st := x.stat(a.T)
	x.e.mu.Lock()
	_, sg := x.e.pend[fmt.Sprintf("seg:%d", a.T)]
	_, ix := x.e.pend[fmt.Sprintf("idx:%d", a.T)]
	x.e.mu.Unlock()
	switch a.K {
	case "produce":
		return st.kind == 0
	case "flush":
		return st.kind == 1 && !st.parked
	case "seg":
		return sg
	case "idx":
		return ix
	case "cb":
		return st.kind == 3
	case "respond":
		return st.kind == 4
	}
	return false
}

func (x *swExec) release(kind string, t int, ok bool) {
	x.e.mu.Lock()
	k := fmt.Sprintf("%s:%d", kind, t)
	g := x.e.pend[k]
	delete(x.e.pend, k)
	x.e.mu.Unlock()
	if g != nil {
		g.ch <- ok
	}
}

// swHex emits a byte string as (unhex 0x1<hex>), see corr/StorageCorr.v
func swHex(b []byte) string {
	return "(unhex 0x1" + hex.EncodeToString(b) + ")"
}

func swPatched(raw []byte, base int64) []byte {
	b := append([]byte(nil), raw...)
	if len(b) >= 8 {
		binary.BigEndian.PutUint64(b[0:8], uint64(base))
	}
	return b
}

// flBases returns base offsets currently in l.flushingBatches / l.buffer
func (x *swExec) pendingBases() (fl []int64, buf []int64) {
	l := x.e.log
	l.mu.Lock()
	for _, b := range l.flushingBatches {
		fl = append(fl, b.BaseOffset)
	}
	l.buffer.mu.Lock()
	for _, b := range l.buffer.batches {
		buf = append(buf, b.BaseOffset)
	}
	l.buffer.mu.Unlock()
	l.mu.Unlock()
	return
}

// cbBorn is called when thread t's onFlush callback has just become pending: the offset it
// carries must be the last committed offset at that moment (a commit publishes its own
// segment's last offset, an empty Flush the last committed one).
func (x *swExec) cbBorn(t int, empty bool) {
	st := x.stat(t)
	if st.kind != 3 {
		return
	}
	x.cbEmpty[t] = empty
	delete(x.overtaken, t)
	delete(x.overtakenNE, t)
	l := x.e.log
	l.mu.Lock()
	clast, has := int64(-1), false
	if n := len(l.segments); n > 0 {
		clast, has = l.segments[n-1].lastOffset, true
	}
	l.mu.Unlock()
	x.cbStale[t] = !has || clast != st.v
}

// do executes one plan action (if enabled) and returns the Coq events that happened.
func (x *swExec) do(a swAct) ([]string, bool) {
	if !x.enabled(a) {
		return nil, false
	}
	var evs []string
	parkedBefore := map[int]bool{}
	if x.live {
		for t := 0; t < swNT; t++ {
			if x.stat(t).parked {
				parkedBefore[t] = true
			}
		}
	}
	ownerBefore := x.live && len(x.up) > 0
	var flBefore []int64
	if x.live {
		flBefore, _ = x.pendingBases()
	}
	noteGates := func(t int, origin int) { // thread t just became owner of a flush
		x.up[t] = &swUp{}
		x.origin[t] = origin
	}
	afterProceed := func(t int) { // thread t passed FlushBegin: classify what it did
		st := x.stat(t)
		switch st.kind {
		case 2:
			noteGates(t, 1)
		case 3:
			x.origin[t] = 1
			x.cbBorn(t, true)
			x.tags["empty-flush-publish"] = true
		}
	}
	switch a.K {
	case "produce":
		x.e.threads[a.T].cmd <- swCmd{kind: "append", raw: append([]byte(nil), a.Raw...)}
		synctest.Wait()
		evs = append(evs, fmt.Sprintf("EAppend %d %s", a.T, swHex(a.Raw)))
		th := x.e.threads[a.T]
		x.e.mu.Lock()
		rejected, phase, base, last := th.rejected, th.phase, th.base, th.last
		x.e.mu.Unlock()
		if rejected {
			x.tags["rejected"] = true
			x.cur[a.T] = nil
			break
		}
		// accepted: find the assigned base. When the threshold flush took over, the
		// thread is still inside AppendBatch; read the base from the log state.
		if phase != phAppended {
			fl, _ := x.pendingBases()
			if len(fl) > 0 {
				l := x.e.log
				l.mu.Lock()
				lb := l.flushingBatches[len(l.flushingBatches)-1]
				base, last = lb.BaseOffset, l.nextOffset-1 // what AppendResult.LastOffset will be
				l.mu.Unlock()
			}
			noteGates(a.T, 0)
			x.tags["threshold-flush"] = true
		}
		lod := int32(binary.BigEndian.Uint32(a.Raw[23:27]))
		acc := &swAccepted{inc: x.inc, seq: len(x.accepted), base: base, last: last, lod: lod, stored: swPatched(a.Raw, base)}
		x.accepted = append(x.accepted, acc)
		x.cur[a.T] = acc
		x.oracleAppend(acc)
	case "flush":
		x.e.threads[a.T].cmd <- swCmd{kind: "flush"}
		synctest.Wait()
		st := x.stat(a.T)
		if st.parked && ownerBefore {
			x.tags["flush-parked"] = true
		} else {
			evs = append(evs, fmt.Sprintf("EFlushBegin %d", a.T))
			afterProceed(a.T)
		}
	case "seg", "idx":
		u := x.up[a.T]
		if u == nil {
			u = &swUp{}
			x.up[a.T] = u
		}
		x.release(a.K, a.T, a.Ok)
		synctest.Wait()
		oc := 2
		if a.Ok {
			oc = 1
		} else {
			x.tags["s3-fault"] = true
		}
		if a.K == "seg" {
			u.sg = oc
			evs = append(evs, fmt.Sprintf("EUpSeg %d %s", a.T, cqBool(a.Ok)))
		} else {
			u.ix = oc
			evs = append(evs, fmt.Sprintf("EUpIdx %d %s", a.T, cqBool(a.Ok)))
		}
		if u.sg != 0 && u.ix != 0 {
			delete(x.up, a.T)
			if u.sg == 1 && u.ix == 1 {
				evs = append(evs, fmt.Sprintf("ECommit %d", a.T))
				x.cbBorn(a.T, false)
				if len(parkedBefore) > 0 {
					x.tags["commit-with-waiter"] = true
				}
			} else {
				evs = append(evs, fmt.Sprintf("EFailReset %d", a.T))
				// batches that were in flight and are now neither buffered nor in flight
				// were dropped by the failure branch (the C01 defect)
				flNow, bufNow := x.pendingBases()
				still := map[int64]bool{}
				for _, b := range flNow {
					still[b] = true
				}
				for _, b := range bufNow {
					still[b] = true
				}
				for _, acc := range x.accepted {
					for _, b := range flBefore {
						if acc.inc == x.inc && acc.base == b && !still[b] {
							acc.hit = true
						}
					}
				}
				x.tags["failed-flush"] = true
				if len(parkedBefore) > 0 {
					x.tags["failed-flush-with-waiter"] = true
				}
			}
			// waiters that proceeded because flushing was cleared
			for t := 0; t < swNT; t++ {
				if parkedBefore[t] && !x.stat(t).parked {
					evs = append(evs, fmt.Sprintf("EFlushBegin %d", t))
					afterProceed(t)
					x.tags["waiter-proceeds"] = true
				}
			}
		}
	case "cb":
		st := x.stat(a.T)
		x.lastCB.tid, x.lastCB.v = a.T, st.v
		for t := 0; t < swNT; t++ {
			if t != a.T && x.stat(t).kind == 3 {
				x.tags["callbacks-overlap"] = true
				if a.Ok && st.v > x.stat(t).v {
					x.overtaken[t] = true // a larger offset is published while t's callback is pending
					if !x.cbEmpty[a.T] {
						x.overtakenNE[t] = true
					}
				}
			}
		}
		x.cbWasOvertaken, x.cbWasOvNE, x.cbWasStale, x.cbWasEmpty = x.overtaken[a.T], x.overtakenNE[a.T], x.cbStale[a.T], x.cbEmpty[a.T]
		delete(x.overtaken, a.T)
		delete(x.overtakenNE, a.T)
		delete(x.cbStale, a.T)
		x.release("cb", a.T, a.Ok)
		synctest.Wait()
		if !a.Ok {
			x.tags["store-fault"] = true
		}
		evs = append(evs, fmt.Sprintf("ECallback %d %s", a.T, cqBool(a.Ok)))
	case "respond":
		th := x.e.threads[a.T]
		x.e.mu.Lock()
		ok := th.ok
		th.phase = phIdle
		x.e.mu.Unlock()
		evs = append(evs, fmt.Sprintf("ERespond %d", a.T))
		if acc := x.cur[a.T]; acc != nil && ok {
			acc.acked = true
			if acc.last > x.maxAcked {
				x.maxAcked = acc.last
			}
			x.tags["ack"] = true
		} else {
			x.tags["nack"] = true
		}
		x.cur[a.T] = nil
	case "crash":
		x.kill()
		x.live = false
		x.up = map[int]*swUp{}
		x.cur = [swNT]*swAccepted{}
		x.overtaken = map[int]bool{}
		x.overtakenNE = map[int]bool{}
		x.cbStale = map[int]bool{}
		x.cbEmpty = map[int]bool{}
		evs = append(evs, "ECrash")
		x.tags["crash"] = true
	case "restart", "rfault":
		e := x.newEpoch()
		if a.K == "rfault" {
			e.faultAt = a.N
		}
		x.e = e
		ok, injected := x.openLog(e, a.Ok || a.K == "rfault")
		if !ok {
			x.kill()
			if injected {
				evs = append(evs, "ERestartFault")
				x.tags["restart-fault"] = true
			} else {
				evs = append(evs, fmt.Sprintf("ERestart %s", cqBool(a.Ok)))
				x.tags["restore-error"] = true
			}
			break
		}
		e.mu.Lock()
		e.faultAt = -1 // the fault position was past the calls the restore made
		e.mu.Unlock()
		sync := a.Ok || a.K == "rfault"
		evs = append(evs, fmt.Sprintf("ERestart %s", cqBool(sync)))
		x.live = true
		x.inc++
		x.tags["restart"] = true
		e.log.mu.Lock()
		x.expNext = e.log.nextOffset
		e.log.mu.Unlock()
		x.oracleRestart()
	}
	return evs, true
}

// ---------------------------------------------------------------- observation
type swSegObj struct {
	base    int64
	hdrBase int64
	msgs    int32
	last    int64
	body    []byte
}

func (x *swExec) s3view() (segs []swSegObj, idx map[int64][]*IndexEntry, idxKeys []int64) {
	idx = map[int64][]*IndexEntry{}
	x.lockWorld()
	defer x.unlockWorld()
	for k, d := range x.w.objs {
		if !strings.HasPrefix(k, swPrefix) { // objects of other partitions are not this partition's data
			continue
		}
		name := k[strings.LastIndex(k, "/")+1:]
		if strings.HasSuffix(name, ".kfs") {
			base, ok := parseSegmentBaseOffset(k)
			if !ok || len(d) < 48 {
				continue
			}
			last, err := parseSegmentFooter(d[len(d)-segmentFooterLen:])
			if err != nil {
				last = -999
			}
			segs = append(segs, swSegObj{base: base, hdrBase: int64(binary.BigEndian.Uint64(d[8:16])), msgs: int32(binary.BigEndian.Uint32(d[16:20])), last: last, body: d[32 : len(d)-segmentFooterLen]})
		} else if strings.HasSuffix(name, ".index") {
			var base int64
			fmt.Sscanf(strings.TrimSuffix(strings.TrimPrefix(name, "segment-"), ".index"), "%d", &base)
			ents, err := ParseIndex(d)
			if err != nil {
				ents = nil
			}
			idx[base] = ents
			idxKeys = append(idxKeys, base)
		}
	}
	sort.Slice(segs, func(i, j int) bool { return segs[i].base < segs[j].base })
	sort.Slice(idxKeys, func(i, j int) bool { return idxKeys[i] < idxKeys[j] })
	return
}

var swNoEpochMu sync.Mutex

func (x *swExec) lockWorld() {
	if x.e != nil {
		x.e.mu.Lock()
	} else {
		swNoEpochMu.Lock()
	}
}
func (x *swExec) unlockWorld() {
	if x.e != nil {
		x.e.mu.Unlock()
	} else {
		swNoEpochMu.Unlock()
	}
}

func (x *swExec) obsCoq() string {
	segs, idx, idxKeys := x.s3view()
	so := make([]string, len(segs))
	for i, s := range segs {
		so[i] = fmt.Sprintf("(%s, %s, %s, %s)", cqZ(s.base), cqZ(s.last), cqZ(int64(s.msgs)), cqZ(int64(len(s.body))))
	}
	io := make([]string, len(idxKeys))
	for i, k := range idxKeys {
		io[i] = fmt.Sprintf("(%s, %s)", cqZ(k), cqZ(int64(len(idx[k]))))
	}
	var next int64
	var buf, fl []int64
	flushing := false
	clast, hasC := int64(0), false
	pcs := make([]string, swNT)
	if x.live {
		l := x.e.log
		fl, buf = x.pendingBases()
		l.mu.Lock()
		next, flushing = l.nextOffset, l.flushing
		if n := len(l.segments); n > 0 {
			clast, hasC = l.segments[n-1].lastOffset, true
		}
		l.mu.Unlock()
		for t := 0; t < swNT; t++ {
			st := x.stat(t)
			switch st.kind {
			case 0:
				pcs[t] = "(0, [])"
			case 1:
				pcs[t] = fmt.Sprintf("(1, [%s])", cqZ(st.base))
			case 2:
				u := x.up[t]
				if u == nil {
					u = &swUp{}
				}
				pcs[t] = fmt.Sprintf("(2, [%s; %d; %d; %d])", cqZ(st.base), x.origin[t], u.sg, u.ix)
			case 3:
				pcs[t] = fmt.Sprintf("(3, [%s; %d; %s])", cqZ(st.base), x.origin[t], cqZ(st.v))
			case 4:
				okv := 0
				if st.ok {
					okv = 1
				}
				pcs[t] = fmt.Sprintf("(4, [%s; %d])", cqZ(st.base), okv)
			}
		}
	} else {
		for t := range pcs {
			pcs[t] = "(0, [])"
		}
	}
	var acked []int64
	for _, a := range x.accepted {
		if a.acked {
			acked = append(acked, a.base)
		}
	}
	// acked order = response order is not tracked per base; the model list is compared as a sorted multiset
	sort.Slice(acked, func(i, j int) bool { return acked[i] < acked[j] })
	x.lockWorld()
	store := x.w.store
	x.unlockWorld()
	return fmt.Sprintf("mkObs %s %s %s %s %s %s %s %s %s %s %s", cqBool(x.live), cqZ(next), cqZs(buf), cqBool(flushing), cqZs(fl),
		cqOpt(hasC, cqZ(clast)), cqZ(store), cqList(so), cqList(io), cqList(pcs), cqZs(acked))
}

func (x *swExec) finalCoq() (string, string) {
	segs, idx, idxKeys := x.s3view()
	so := make([]string, len(segs))
	for i, s := range segs {
		so[i] = fmt.Sprintf("(%s, %s)", cqZ(s.base), swHex(s.body))
	}
	io := make([]string, len(idxKeys))
	for i, k := range idxKeys {
		es := make([]string, len(idx[k]))
		for j, e := range idx[k] {
			es[j] = fmt.Sprintf("(%s, %s)", cqZ(e.Offset), cqZ(int64(e.Position)))
		}
		io[i] = fmt.Sprintf("(%s, %s)", cqZ(k), cqList(es))
	}
	return cqList(so), cqList(io)
}

// ---------------------------------------------------------------- implementation-side oracles
func (x *swExec) want(p string) bool { return x.prop == p }

// durable: the stored bytes of acc appear in the body of an S3 segment whose index object exists and parses
func (x *swExec) durable(acc *swAccepted) (bool, bool) {
	segs, idx, _ := x.s3view()
	otherBase := false
	for _, s := range segs {
		ents, has := idx[s.base]
		if !has || ents == nil {
			continue
		}
		if bytes.Contains(s.body, acc.stored) {
			return true, false
		}
		if len(acc.stored) > 8 && bytes.Contains(s.body, acc.stored[8:]) {
			otherBase = true
		}
	}
	return false, otherBase
}

func (x *swExec) s3End() int64 {
	segs, idx, _ := x.s3view()
	end := int64(0)
	for _, s := range segs {
		if ents, has := idx[s.base]; has && ents != nil && s.last+1 > end {
			end = s.last + 1
		}
	}
	return end
}

// visible extents of a stored record set as a consumer walks it (frames by batchLength)
func swVisible(stored []byte) [][2]int64 {
	out := [][2]int64{{int64(binary.BigEndian.Uint64(stored[0:8])), int64(int32(binary.BigEndian.Uint32(stored[23:27])))}}
	bl := int64(int32(binary.BigEndian.Uint32(stored[8:12])))
	if !(bl > 0 && 12+bl+61 <= int64(len(stored))) {
		return out
	}
	d := stored[12+bl:]
	for len(d) >= 61 {
		out = append(out, [2]int64{int64(binary.BigEndian.Uint64(d[0:8])), int64(int32(binary.BigEndian.Uint32(d[23:27])))})
		b := int64(int32(binary.BigEndian.Uint32(d[8:12])))
		if b <= 0 || 12+b > int64(len(d)) {
			break
		}
		d = d[12+b:]
	}
	return out
}

func (x *swExec) oracleAppend(acc *swAccepted) {
	if x.want("C02") {
		// strictly increasing, contiguous assignment in append order; extent not empty
		if acc.base != x.expNext {
			key := "offset-not-contiguous"
			if n := len(x.accepted); n >= 2 && x.accepted[n-2].lod < 0 {
				key = "negative-last-offset-delta"
			}
			x.setFail(key, fmt.Sprintf("append #%d got base %d, previous batch ended at %d", acc.seq, acc.base, x.expNext-1))
		}
		if acc.lod < 0 {
			x.setFail("negative-last-offset-delta", fmt.Sprintf("append #%d accepted with base %d last %d (lastOffsetDelta %d): next offset does not advance", acc.seq, acc.base, acc.last, acc.lod))
		} else if acc.last != acc.base+int64(acc.lod) || acc.last < acc.base {
			x.setFail("offset-advance-overflow", fmt.Sprintf("append #%d: base %d, header lastOffsetDelta %d, but the broker reports last offset %d (expected %d)", acc.seq, acc.base, acc.lod, acc.last, acc.base+int64(acc.lod)))
		}
		if x.live && acc.lod >= 0 {
			x.e.log.mu.Lock()
			next := x.e.log.nextOffset
			x.e.log.mu.Unlock()
			if next != acc.base+int64(acc.lod)+1 {
				x.setFail("offset-advance-overflow", fmt.Sprintf("append #%d: base %d, header lastOffsetDelta %d, but nextOffset became %d (expected %d): later batches get offsets at or below acknowledged ones", acc.seq, acc.base, acc.lod, next, acc.base+int64(acc.lod)+1))
			}
		}
		// consumer-visible extents inside the stored record set
		vis := swVisible(acc.stored)
		lo := acc.base
		for i, e := range vis {
			if e[0] != lo || e[1] < 0 {
				if i > 0 {
					x.setFail("concatenated-batches", fmt.Sprintf("append #%d (base %d): frame %d inside the stored record set claims offsets [%d,%d] but the log position is %d: only the first frame's base offset is patched", acc.seq, acc.base, i, e[0], e[0]+e[1], lo))
				}
				break
			}
			lo += e[1] + 1
		}
		if lo != acc.last+1 && len(vis) > 1 && x.fail == "" {
			x.setFail("concatenated-batches", fmt.Sprintf("append #%d (base %d): stored frames cover offsets up to %d but the broker advanced to %d", acc.seq, acc.base, lo-1, acc.last))
		}
	}
	if x.want("C06") && x.inc > 0 {
		if acc.base <= x.maxAcked && x.anyAckedBefore(acc) {
			x.setFail(x.reuseKey(), fmt.Sprintf("after restart append got base %d but offset %d was acknowledged before the crash", acc.base, x.maxAcked))
		}
		if acc.base < x.maxPub {
			x.setFail(x.reuseKey(), fmt.Sprintf("after restart append got base %d but high watermark %d was published (offsets below it were visible to consumers)", acc.base, x.maxPub))
		}
	}
	x.expNext = acc.last + 1
}

func (x *swExec) anyAckedBefore(acc *swAccepted) bool {
	for _, a := range x.accepted {
		if a.acked && a.inc < acc.inc && a.last >= acc.base {
			return true
		}
	}
	return false
}

func (x *swExec) reuseKey() string {
	for _, a := range x.accepted {
		if a.acked && a.hit {
			return "ack-after-other-producers-failed-flush"
		}
	}
	return "offset-reuse-after-restart"
}

func (x *swExec) oracleRestart() {
	if x.want("C02") {
		x.e.log.mu.Lock()
		next := x.e.log.nextOffset
		x.e.log.mu.Unlock()
		if x.anyAcked() && next <= x.maxAcked {
			x.setFail("offset-reuse-after-restart", fmt.Sprintf("after restart nextOffset=%d but offset %d was acknowledged: acknowledged offsets will be handed out again", next, x.maxAcked))
		}
	}
	if !x.want("C06") && !x.want("C01") {
		return
	}
	for _, a := range x.accepted {
		if !a.acked {
			continue
		}
		data, err := x.e.log.Read(context.Background(), a.base, 0)
		if err != nil || !bytes.Contains(data, a.stored) {
			key := "acked-unreadable-after-restart"
			if a.hit {
				key = "ack-after-other-producers-failed-flush"
			}
			x.setFail(key, fmt.Sprintf("after restart Read(%d) does not return the acknowledged batch (err=%v, %d bytes)", a.base, err, len(data)))
		}
	}
	x.e.log.mu.Lock()
	next := x.e.log.nextOffset
	x.e.log.mu.Unlock()
	if x.want("C06") {
		if x.anyAcked() && next <= x.maxAcked {
			x.setFail(x.reuseKey(), fmt.Sprintf("after restart nextOffset=%d but offset %d was acknowledged", next, x.maxAcked))
		}
		if next < x.maxPub {
			x.setFail(x.reuseKey(), fmt.Sprintf("after restart nextOffset=%d but high watermark %d was published", next, x.maxPub))
		}
	}
}

func (x *swExec) anyAcked() bool {
	for _, a := range x.accepted {
		if a.acked {
			return true
		}
	}
	return false
}

// oracleStoredOrder decodes the REAL S3 contents of the partition: every segment (that has an
// index) body is cut into the accepted record sets the harness knows (matched by their bytes
// after the 8-byte base offset); the base offsets read from S3 must be strictly increasing
// within a segment and across segments, and the footer's last offset must be the last stored
// record set's last offset.
func (x *swExec) oracleStoredOrder(a swAct) {
	segs, idx, _ := x.s3view()
	prevEnd := int64(-1) // last offset stored so far, across segments in key order
	for _, sg := range segs {
		if ents, has := idx[sg.base]; !has || ents == nil {
			continue
		}
		body, pos := sg.body, 0
		lastEnd, decoded := int64(-1), false
		for pos < len(body) {
			var hit *swAccepted
			for _, acc := range x.accepted {
				n := len(acc.stored)
				if n >= 61 && pos+n <= len(body) && bytes.Equal(body[pos+8:pos+n], acc.stored[8:]) {
					hit = acc
					break
				}
			}
			if hit == nil {
				break // bytes the harness cannot attribute: stop decoding this segment
			}
			base := int64(binary.BigEndian.Uint64(body[pos : pos+8]))
			lod := int64(int32(binary.BigEndian.Uint32(body[pos+23 : pos+27])))
			if base <= prevEnd {
				x.setFail("stored-batches-out-of-order", fmt.Sprintf("S3 segment %d: the record set at body position %d has base offset %d but offsets up to %d are stored before it (action %s t=%d)", sg.base, pos, base, prevEnd, a.K, a.T))
			}
			if lod >= 0 {
				prevEnd = base + lod
			} else {
				prevEnd = base
			}
			lastEnd, decoded = prevEnd, true
			pos += len(hit.stored)
		}
		if decoded && pos == len(body) && sg.last != lastEnd {
			x.setFail("footer-last-offset-mismatch", fmt.Sprintf("S3 segment %d: footer says last offset %d but the last stored record set ends at %d (action %s t=%d)", sg.base, sg.last, lastEnd, a.K, a.T))
		}
	}
}

// evaluated after every action
func (x *swExec) oracleStep(a swAct, prevStore int64) {
	x.lockWorld()
	store := x.w.store
	x.unlockWorld()
	if store > x.maxPub {
		x.maxPub = store
	}
	if x.want("C01") || x.want("C06") {
		for _, acc := range x.accepted {
			if !acc.acked {
				continue
			}
			if ok, other := x.durable(acc); !ok {
				key := "acked-batch-not-in-s3"
				if acc.hit {
					key = "ack-after-other-producers-failed-flush"
				} else if other {
					key = "response-base-differs-from-stored-base"
				}
				x.setFail(key, fmt.Sprintf("batch acknowledged with base offset %d is not in any S3 segment that has an index (after action %s t=%d)", acc.base, a.K, a.T))
			}
		}
	}
	if x.want("C02") {
		x.oracleStoredOrder(a)
	}
	if x.want("C02") && x.live {
		// no gap between acknowledged batches: an accepted batch that precedes an
		// acknowledged one must still exist (stored, in flight, or buffered)
		fl, buf := x.pendingBases()
		pend := map[int64]bool{}
		for _, b := range fl {
			pend[b] = true
		}
		for _, b := range buf {
			pend[b] = true
		}
		for i, acc := range x.accepted {
			if acc.inc != x.inc || pend[acc.base] {
				continue
			}
			later := false
			for _, o := range x.accepted[i+1:] {
				if o.inc == x.inc && o.acked {
					later = true
				}
			}
			if !later {
				continue
			}
			if ok, _ := x.durable(acc); !ok {
				key := "gap-between-acked-batches"
				if acc.hit {
					key = "batch-dropped-by-failed-flush"
				}
				x.setFail(key, fmt.Sprintf("offsets [%d,%d] were assigned before an acknowledged batch but are neither stored nor pending: gap in the log", acc.base, acc.last))
			}
		}
		for _, acc := range x.accepted {
			if acc.acked {
				if ok, other := x.durable(acc); !ok && other {
					x.setFail("response-base-differs-from-stored-base", fmt.Sprintf("batch acknowledged with base %d is stored under a different base offset", acc.base))
				}
			}
		}
	}
	if x.want("C05") {
		if store < prevStore {
			// structural cause of the regression (a known finding must not hide another one):
			//  hw-callback-reorder            two NON-empty flushes committed in one order and their
			//                                 callbacks reached the store in the opposite order
			//  hw-empty-flush-publish-reorder the same race with an empty Flush's re-publish of the
			//                                 (then current) committed offset on either side
			//  hw-stale-publish               the callback carried an offset that was already behind
			//                                 the last committed one when it was created
			//  hw-regressed                   anything else
			key := "hw-regressed"
			if a.K == "cb" {
				switch {
				case x.cbWasStale:
					key = "hw-stale-publish"
				case x.cbWasOvertaken && !x.cbWasEmpty && x.cbWasOvNE:
					key = "hw-callback-reorder"
				case x.cbWasOvertaken:
					key = "hw-empty-flush-publish-reorder"
				}
			}
			x.setFail(key, fmt.Sprintf("published next_offset went from %d to %d (action %s t=%d)", prevStore, store, a.K, a.T))
		}
		if end := x.s3End(); store > end {
			key := "hw-ahead-of-s3"
			if a.K == "cb" && x.cbWasEmpty {
				key = "hw-empty-flush-ahead-of-s3"
			}
			x.setFail(key, fmt.Sprintf("published next_offset %d but S3 segments with an index end at offset %d (action %s t=%d)", store, end-1, a.K, a.T))
		}
	}
}

// ---------------------------------------------------------------- running a case
type swResult struct {
	coq     string
	fail    string
	failKey string
	tags    map[string]bool
	nEvents int
	nActs   int
}

func swRun(t *testing.T, cs swCase, prop string) swResult {
	var res swResult
	synctest.Test(t, func(t *testing.T) {
		x := &swExec{cs: cs, prop: prop, w: &swWorld{objs: map[string][]byte{}}, up: map[int]*swUp{}, origin: map[int]int{}, cbEmpty: map[int]bool{}, overtaken: map[int]bool{}, overtakenNE: map[int]bool{}, cbStale: map[int]bool{}, tags: map[string]bool{}}
		if cs.Foreign {
			swPutForeign(x.w)
			x.tags["foreign-partitions"] = true
		}
		x.e = x.newEpoch()
		if ok, _ := x.openLog(x.e, true); !ok {
			t.Fatalf("initial open failed")
		}
		x.live = true
		for _, a := range cs.Plan {
			x.lockWorld()
			prev := x.w.store
			x.unlockWorld()
			evs, applied := x.do(a)
			if !applied {
				continue
			}
			res.nActs++
			x.nEvents += len(evs)
			x.oracleStep(a, prev)
			x.steps = append(x.steps, fmt.Sprintf("(%s, %s)", cqList(evs), x.obsCoq()))
		}
		fs, fi := x.finalCoq()
		res.coq = fmt.Sprintf("mkCase (mkCfg %d %d %d %d) %s %s %s", cs.MaxBytes, cs.MaxMsgs, cs.MaxBatches, cs.Interval, cqList(x.steps), fs, fi)
		res.fail, res.failKey, res.tags, res.nEvents = x.fail, x.failKey, x.tags, x.nEvents
		x.kill()
	})
	return res
}

// swPutForeign stores segments of partitions 10 and 13 of the same topic (ids that have the
// partition under test, "1", as a decimal prefix) holding more data than partition 1 will:
// a restore of partition 1 must list exactly "<ns>/<topic>/1/".
func swPutForeign(w *swWorld) {
	put := func(part int, base int64, lod int32, withIndex bool) {
		raw := swBatch(lod, lod+1, base, 5, byte(0xF0+part%10))
		art, err := BuildSegment(SegmentWriterConfig{IndexIntervalMessages: 1}, []RecordBatch{{BaseOffset: base, LastOffsetDelta: lod, MessageCount: lod + 1, Bytes: raw}}, time.Now())
		if err != nil {
			return
		}
		dir := fmt.Sprintf("default/t/%d/", part)
		w.objs[dir+fmt.Sprintf("segment-%020d.kfs", base)] = art.SegmentBytes
		if withIndex {
			w.objs[dir+fmt.Sprintf("segment-%020d.index", base)] = art.IndexBytes
		}
	}
	put(10, 0, 40, true)
	put(10, 41, 9, true)
	put(13, 0, 70, false)
	put(13, 2, 5, true)
}

// ---------------------------------------------------------------- generators
func swBatch(lod, count int32, base int64, extra int, marker byte) []byte {
	n := 61 + extra
	d := make([]byte, n)
	binary.BigEndian.PutUint64(d[0:8], uint64(base))
	binary.BigEndian.PutUint32(d[8:12], uint32(n-12))
	d[16] = 2 // magic
	binary.BigEndian.PutUint32(d[23:27], uint32(lod))
	binary.BigEndian.PutUint32(d[57:61], uint32(count))
	for i := 61; i < n; i++ {
		d[i] = marker
	}
	return d
}

func swGenRaw(r *vRand, malformedPct int, marker byte) ([]byte, string) {
	cnt := int32(r.Range(1, 5))
	extra := r.Range(0, 24)
	if !r.Chance(malformedPct) {
		return swBatch(cnt-1, cnt, int64(r.Range(0, 3)), extra, marker), "valid"
	}
	switch r.Intn(11) {
	case 8, 9:
		// extreme header values: the offset arithmetic must be done in int64
		lods := []int32{2147483647, 2147483646, 1 << 30, 1 << 16, 65535, 1<<31 - 1 - 61}
		d := swBatch(lods[r.Intn(len(lods))], cnt, 0, extra, marker)
		if r.Bool() { // huge / negative record counts
			cnts := []int32{2147483647, -2147483648, 1 << 30, -1, 1 << 24}
			binary.BigEndian.PutUint32(d[57:61], uint32(cnts[r.Intn(len(cnts))]))
		}
		return swExtremeFields(r, d), "extreme-lod"
	case 10:
		d := swBatch(cnt-1, cnt, 0, extra, marker)
		if r.Bool() {
			cnts := []int32{2147483647, -2147483648, 1 << 30, 1<<31 - 2}
			binary.BigEndian.PutUint32(d[57:61], uint32(cnts[r.Intn(len(cnts))]))
		}
		return swExtremeFields(r, d), "extreme-fields"
	case 0:
		neg := []int32{-1, -2, -5, -2147483648}
		return swBatch(neg[r.Intn(len(neg))], cnt, 0, extra, marker), "neg-lod"
	case 1:
		return swBatch(cnt-1, int32(r.Range(-3, 9)), 0, extra, marker), "count-mismatch"
	case 2:
		d := swBatch(cnt-1, cnt, 0, extra, marker)
		binary.BigEndian.PutUint32(d[8:12], 0) // the shape the repo's own test fixtures use
		d[16] = 0
		return d, "batchlen-zero"
	case 3:
		d := swBatch(cnt-1, cnt, 0, extra, marker)
		binary.BigEndian.PutUint32(d[8:12], uint32(len(d)+r.Range(1, 90)))
		return d, "batchlen-overrun"
	case 4, 5:
		k := r.Range(2, 3)
		var d []byte
		for i := 0; i < k; i++ {
			c := int32(r.Range(1, 3))
			d = append(d, swBatch(c-1, c, int64(r.Range(0, 2)), r.Range(0, 8), marker)...)
		}
		return d, "concatenated"
	case 6:
		lens := []int{0, 1, 12, 60}
		return r.Bytes(lens[r.Intn(len(lens))]), "short"
	default:
		d := swBatch(cnt-1, cnt, 0, 0, marker)
		if r.Bool() {
			binary.BigEndian.PutUint32(d[23:27], uint32(r.Range(0, 900)))
		}
		return d, "min-size"
	}
}

// swExtremeFields overwrites header fields the broker does not interpret with extreme
// values: client base offset, partition leader epoch, CRC, attributes, first/max
// timestamp, producer id/epoch, base sequence.
func swExtremeFields(r *vRand, d []byte) []byte {
	ext := [][]byte{{0x7f, 0xff, 0xff, 0xff, 0xff, 0xff, 0xff, 0xff}, {0x80, 0, 0, 0, 0, 0, 0, 0}, {0xff, 0xff, 0xff, 0xff, 0xff, 0xff, 0xff, 0xff}, {0, 0, 0, 0, 0, 0, 0, 0}}
	put := func(off, n int) {
		if r.Chance(60) {
			copy(d[off:off+n], ext[r.Intn(len(ext))][:n])
		} else {
			copy(d[off:off+n], r.Bytes(n))
		}
	}
	put(0, 8)  // baseOffset as sent by the client
	put(12, 4) // partitionLeaderEpoch
	put(17, 4) // crc
	put(21, 2) // attributes
	put(27, 8) // firstTimestamp
	put(35, 8) // maxTimestamp
	put(43, 8) // producerId
	put(51, 2) // producerEpoch
	put(53, 4) // baseSequence
	return d
}

type swGenCfg struct {
	malformed, fault, crash, cbFirst int
}

func swGenCfgFor(prop string) swGenCfg {
	switch prop {
	case "C02":
		return swGenCfg{malformed: 40, fault: 15, crash: 3, cbFirst: 60}
	case "C05":
		return swGenCfg{malformed: 5, fault: 15, crash: 2, cbFirst: 25}
	case "C06":
		return swGenCfg{malformed: 8, fault: 25, crash: 9, cbFirst: 60}
	default:
		return swGenCfg{malformed: 8, fault: 30, crash: 3, cbFirst: 60}
	}
}

// swGen builds a plan by simulating thread statuses with a light-weight shadow of the
// control flow (which gates exist); actions that turn out not to be enabled on the real
// execution are skipped by the executor, so the shadow only has to be roughly right.
func swGen(r *vRand, prop string, maxActs int) swCase {
	g := swGenCfgFor(prop)
	cs := swCase{Interval: []int32{1, 1, 3, 100}[r.Intn(4)], Foreign: r.Chance(40)}
	switch r.Intn(6) {
	case 0:
		cs.MaxBatches = r.Range(1, 3)
	case 1:
		cs.MaxMsgs = r.Range(2, 7)
	case 2:
		cs.MaxBytes = r.Range(100, 400)
	}
	nthreads := r.Range(1, swNT)
	n := r.Range(6, maxActs)
	// shadow: 0 idle 1 appended 2 in-flush-call(unknown) 3 done
	marker := byte(1)
	live := true
	for i := 0; i < n; i++ {
		if !live {
			switch {
			case r.Chance(25):
				cs.Plan = append(cs.Plan, swAct{K: "rfault", N: r.Intn(7)})
			default:
				cs.Plan = append(cs.Plan, swAct{K: "restart", Ok: !r.Chance(20)})
				live = true
			}
			continue
		}
		if r.Chance(g.crash) {
			cs.Plan = append(cs.Plan, swAct{K: "crash"})
			live = false
			continue
		}
		t := r.Intn(nthreads)
		// emit a small burst for thread t: the executor skips what is not enabled
		switch r.Intn(10) {
		case 0, 1, 2:
			raw, _ := swGenRaw(r, g.malformed, marker)
			marker++
			cs.Plan = append(cs.Plan, swAct{K: "produce", T: t, Raw: raw})
		case 3, 4:
			cs.Plan = append(cs.Plan, swAct{K: "flush", T: t})
		case 5:
			cs.Plan = append(cs.Plan, swAct{K: "seg", T: t, Ok: !r.Chance(g.fault)})
		case 6:
			cs.Plan = append(cs.Plan, swAct{K: "idx", T: t, Ok: !r.Chance(g.fault)})
		case 7:
			if r.Bool() {
				cs.Plan = append(cs.Plan, swAct{K: "seg", T: t, Ok: !r.Chance(g.fault)}, swAct{K: "idx", T: t, Ok: !r.Chance(g.fault)})
			} else {
				cs.Plan = append(cs.Plan, swAct{K: "idx", T: t, Ok: !r.Chance(g.fault)}, swAct{K: "seg", T: t, Ok: !r.Chance(g.fault)})
			}
		case 8:
			cs.Plan = append(cs.Plan, swAct{K: "cb", T: t, Ok: !r.Chance(g.fault / 2)})
		default:
			if r.Chance(g.cbFirst) {
				cs.Plan = append(cs.Plan, swAct{K: "cb", T: t, Ok: true})
			}
			cs.Plan = append(cs.Plan, swAct{K: "respond", T: t})
		}
	}
	return cs
}

// swGenDriven builds a plan while executing a cheap status shadow so that most actions are enabled.
func swGenDriven(r *vRand, prop string, maxActs int) swCase {
	g := swGenCfgFor(prop)
	cs := swCase{Interval: []int32{1, 1, 3, 100}[r.Intn(4)], Foreign: r.Chance(40)}
	switch r.Intn(6) {
	case 0:
		cs.MaxBatches = r.Range(1, 3)
	case 1:
		cs.MaxMsgs = r.Range(2, 7)
	case 2:
		cs.MaxBytes = r.Range(100, 400)
	}
	nthreads := r.Range(1, swNT)
	n := r.Range(8, maxActs)
	marker := byte(1)
	// For every thread emit the natural sequence produce, flush, seg, idx, cb, respond, but
	// interleave the threads randomly and inject faults; since waiting/empty flushes
	// change which steps exist, surplus steps are skipped by the executor.
	type prog struct{ steps []swAct }
	mk := func(t int) []swAct {
		raw, _ := swGenRaw(r, g.malformed, marker)
		marker++
		so, io := !r.Chance(g.fault), !r.Chance(g.fault)
		up := []swAct{{K: "seg", T: t, Ok: so}, {K: "idx", T: t, Ok: io}}
		if r.Bool() {
			up[0], up[1] = up[1], up[0]
		}
		st := []swAct{{K: "produce", T: t, Raw: raw}}
		st = append(st, up...) // threshold flush inside AppendBatch (skipped when none)
		st = append(st, swAct{K: "cb", T: t, Ok: !r.Chance(g.fault / 2)})
		st = append(st, swAct{K: "flush", T: t})
		so2, io2 := !r.Chance(g.fault), !r.Chance(g.fault)
		st = append(st, swAct{K: "seg", T: t, Ok: so2}, swAct{K: "idx", T: t, Ok: io2})
		st = append(st, swAct{K: "cb", T: t, Ok: !r.Chance(g.fault / 2)}, swAct{K: "respond", T: t})
		return st
	}
	// regularly start with "a Flush parks behind the flush that drained its batch and proceeds
	// after the commit", with the two callbacks and a third producer's flush in random order
	if nthreads >= 2 && r.Chance(35) {
		okOr := func() bool { return !r.Chance(g.fault) }
		pre := []swAct{}
		if r.Bool() {
			pre = append(pre, swAct{K: "produce", T: 2, Raw: swBatch(0, 1, 0, 2, 0xA0)}, swAct{K: "flush", T: 2}, swAct{K: "seg", T: 2, Ok: true}, swAct{K: "idx", T: 2, Ok: true}, swAct{K: "cb", T: 2, Ok: okOr()}, swAct{K: "respond", T: 2})
		}
		pre = append(pre, swAct{K: "produce", T: 1, Raw: swBatch(0, 1, 0, 3, 0xA1)}, swAct{K: "produce", T: 0, Raw: swBatch(1, 2, 0, 3, 0xA2)},
			swAct{K: "flush", T: 0}, swAct{K: "flush", T: 1}, swAct{K: "seg", T: 0, Ok: okOr()}, swAct{K: "idx", T: 0, Ok: okOr()})
		tail := []swAct{{K: "cb", T: 0, Ok: true}, {K: "cb", T: 1, Ok: true}}
		if nthreads >= 3 {
			tail = append(tail, swAct{K: "produce", T: 2, Raw: swBatch(0, 1, 0, 2, 0xA3)}, swAct{K: "flush", T: 2}, swAct{K: "seg", T: 2, Ok: true}, swAct{K: "idx", T: 2, Ok: true}, swAct{K: "cb", T: 2, Ok: true})
		}
		// random interleaving that keeps the relative order of thread 2's steps
		var t2, rest []swAct
		for _, a := range tail {
			if a.T == 2 {
				t2 = append(t2, a)
			} else {
				rest = append(rest, a)
			}
		}
		if r.Bool() && len(rest) == 2 {
			rest[0], rest[1] = rest[1], rest[0]
		}
		for len(t2) > 0 || len(rest) > 0 {
			if len(rest) == 0 || (len(t2) > 0 && r.Bool()) {
				pre, t2 = append(pre, t2[0]), t2[1:]
			} else {
				pre, rest = append(pre, rest[0]), rest[1:]
			}
		}
		// seg/idx of thread 1 in case thread 0's flush failed and thread 1 re-flushes
		pre = append(pre, swAct{K: "seg", T: 1, Ok: true}, swAct{K: "idx", T: 1, Ok: true}, swAct{K: "cb", T: 1, Ok: true})
		cs.Plan = append(cs.Plan, pre...)
	}
	progs := make([][]swAct, nthreads)
	for len(cs.Plan) < n {
		if r.Chance(g.crash) {
			cs.Plan = append(cs.Plan, swAct{K: "crash"})
			if r.Chance(25) {
				cs.Plan = append(cs.Plan, swAct{K: "rfault", N: r.Intn(7)})
			}
			cs.Plan = append(cs.Plan, swAct{K: "restart", Ok: !r.Chance(20)})
			for i := range progs {
				progs[i] = nil
			}
			continue
		}
		t := r.Intn(nthreads)
		if len(progs[t]) == 0 {
			progs[t] = mk(t)
		}
		k := 1
		if r.Chance(40) {
			k = r.Range(1, 4)
		}
		for ; k > 0 && len(progs[t]) > 0; k-- {
			cs.Plan = append(cs.Plan, progs[t][0])
			progs[t] = progs[t][1:]
		}
	}
	// let pending work finish so that acks happen
	for pass := 0; pass < 2; pass++ {
		for t := 0; t < nthreads; t++ {
			cs.Plan = append(cs.Plan, progs[t]...)
			progs[t] = nil
			cs.Plan = append(cs.Plan, swAct{K: "seg", T: t, Ok: true}, swAct{K: "idx", T: t, Ok: true}, swAct{K: "cb", T: t, Ok: true}, swAct{K: "respond", T: t})
		}
	}
	if prop == "C06" || (prop == "C02" && r.Chance(50)) || r.Chance(20) {
		cs.Plan = append(cs.Plan, swAct{K: "crash"}, swAct{K: "restart", Ok: true}, swAct{K: "produce", T: 0, Raw: swBatch(0, 1, 0, 3, 0xEE)}, swAct{K: "flush", T: 0},
			swAct{K: "seg", T: 0, Ok: true}, swAct{K: "idx", T: 0, Ok: true}, swAct{K: "cb", T: 0, Ok: true}, swAct{K: "respond", T: 0})
	}
	return cs
}

func swCorpus() []swCase {
	b := func(m byte) []byte { return swBatch(0, 1, 0, 4, m) }
	P := func(t int, raw []byte) swAct { return swAct{K: "produce", T: t, Raw: raw} }
	F := func(t int) swAct { return swAct{K: "flush", T: t} }
	S := func(t int, ok bool) swAct { return swAct{K: "seg", T: t, Ok: ok} }
	I := func(t int, ok bool) swAct { return swAct{K: "idx", T: t, Ok: ok} }
	C := func(t int, ok bool) swAct { return swAct{K: "cb", T: t, Ok: ok} }
	R := func(t int) swAct { return swAct{K: "respond", T: t} }
	neg := func(l int32) []byte { return swBatch(l, 1, 0, 4, 9) }
	cat := append(append([]byte(nil), swBatch(1, 2, 0, 3, 7)...), swBatch(2, 3, 0, 5, 8)...)
	return []swCase{
		// C01/C05 probe of the design round: B's upload fails while A waits in Flush
		{Interval: 1, Plan: []swAct{P(0, b(1)), P(1, b(2)), F(1), F(0), S(1, false), I(1, true), C(0, true), R(0), R(1), S(0, true), I(0, true), C(0, true), R(0),
			{K: "crash"}, {K: "restart", Ok: true}, P(2, b(3)), F(2), S(2, true), I(2, true), C(2, true), R(2)}},
		// same with the threshold flush inside AppendBatch draining the other producer's batch
		{Interval: 1, MaxBatches: 2, Plan: []swAct{P(0, b(1)), P(1, b(2)), F(0), I(1, false), S(1, true), R(1), S(0, true), I(0, true), C(0, true), R(0)}},
		// C02 probe: lastOffsetDelta -1, 0, -5, 0
		{Interval: 1, Plan: []swAct{P(0, neg(-1)), F(0), S(0, true), I(0, true), C(0, true), R(0), P(0, neg(0)), F(0), S(0, true), I(0, true), C(0, true), R(0),
			P(0, neg(-5)), F(0), S(0, true), I(0, true), C(0, true), R(0), P(0, neg(0)), F(0), S(0, true), I(0, true), C(0, true), R(0)}},
		// C02 known finding: two concatenated batches in one record set
		{Interval: 1, Plan: []swAct{P(0, cat), F(0), S(0, true), I(0, true), C(0, true), R(0), P(1, b(5)), F(1), S(1, true), I(1, true), C(1, true), R(1)}},
		// C05 known finding: callbacks of two consecutive flushes land out of order
		{Interval: 1, Plan: []swAct{P(0, b(1)), F(0), S(0, true), I(0, true), P(1, b(2)), F(1), S(1, true), I(1, true), C(1, true), C(0, true), R(0), R(1)}},
		// C05: empty flush while another producer's batch is only buffered
		{Interval: 1, Plan: []swAct{P(0, b(1)), F(0), S(0, true), I(0, true), C(0, true), R(0), P(0, b(2)), P(1, b(3)), F(1), S(1, true), I(1, true), C(1, true), P(2, b(4)), F(0), C(0, true), R(0), R(1)}},
		// C06: crash between segment upload and index upload, restart, append again
		{Interval: 1, Plan: []swAct{P(0, b(1)), F(0), S(0, true), I(0, true), C(0, true), R(0), P(0, b(2)), F(0), S(0, true), {K: "crash"}, {K: "restart", Ok: true},
			P(1, b(3)), F(1), S(1, true), I(1, true), C(1, false), R(1), {K: "crash"}, {K: "rfault", N: 2}, {K: "restart", Ok: false}, P(0, b(4)), F(0), S(0, true), I(0, true), C(0, true), R(0)}},
		// C06: store update lost (callback error) then crash: restore must resync
		{Interval: 3, Plan: []swAct{P(0, b(1)), F(0), S(0, true), I(0, true), C(0, false), R(0), {K: "crash"}, {K: "restart", Ok: true}, P(0, b(2)), F(0), I(0, true), S(0, false), R(0), F(0)}},
	}
}

// corpus added after the seeded-mutation review: extreme header values and the schedules in
// which a Flush parked behind another producer's upload proceeds with nothing to drain.
func swCorpus2() []swCase {
	b := func(m byte) []byte { return swBatch(0, 1, 0, 4, m) }
	big := func(l int32, m byte) []byte { return swBatch(l, 1, 0, 4, m) }
	P := func(t int, raw []byte) swAct { return swAct{K: "produce", T: t, Raw: raw} }
	F := func(t int) swAct { return swAct{K: "flush", T: t} }
	S := func(t int, ok bool) swAct { return swAct{K: "seg", T: t, Ok: ok} }
	I := func(t int, ok bool) swAct { return swAct{K: "idx", T: t, Ok: ok} }
	C := func(t int, ok bool) swAct { return swAct{K: "cb", T: t, Ok: ok} }
	R := func(t int) swAct { return swAct{K: "respond", T: t} }
	full := func(t int, raw []byte) []swAct {
		return []swAct{P(t, raw), F(t), S(t, true), I(t, true), C(t, true), R(t)}
	}
	cat := func(xs ...[]swAct) []swAct {
		var out []swAct
		for _, x := range xs {
			out = append(out, x...)
		}
		return out
	}
	return []swCase{
		// C02: lastOffsetDelta = MaxInt32, MaxInt32-1, 2^30: the +1 must happen in int64
		{Interval: 1, Plan: cat(full(0, big(2147483647, 1)), full(1, b(2)), full(0, big(2147483646, 3)), full(2, big(1<<30, 4)), full(1, b(5)),
			[]swAct{{K: "crash"}, {K: "restart", Ok: true}}, full(0, b(6)))},
		{Interval: 1, MaxBatches: 2, Plan: cat([]swAct{P(0, big(2147483647, 1)), P(1, big(65535, 2)), S(1, true), I(1, true), C(1, true), F(1), C(1, true), R(1), F(0), C(0, true), R(0)}, full(2, b(3)))},
		// C05: one committed segment; B appends; A appends and its flush drains both; B parks in
		// Flush during A's upload; A commits; B wakes with nothing to drain and re-publishes
		// the committed offset; callbacks A then B (no regression allowed), then the reverse
		{Interval: 1, Plan: cat(full(2, b(1)), []swAct{P(1, b(2)), P(0, b(3)), F(0), F(1), S(0, true), I(0, true), C(0, true), C(1, true), R(0), R(1)})},
		{Interval: 1, Plan: cat(full(2, b(1)), []swAct{P(1, b(2)), P(0, b(3)), F(0), F(1), I(0, true), S(0, true), C(1, true), C(0, true), R(1), R(0)})},
		// upload failure with a produce to the same partition during that upload, retried flush
		// (re-queued batches must come BEFORE the ones appended meanwhile), restart, append
		{Interval: 1, Plan: cat(full(2, swBatch(2, 3, 0, 2, 0x41)), []swAct{P(0, swBatch(1, 2, 0, 3, 0x42)), F(0), P(1, b(0x43)), S(0, false), I(0, true), R(0), F(1), S(1, true), I(1, true), C(1, true), R(1),
			{K: "crash"}, {K: "restart", Ok: true}}, full(0, b(0x44)))},
		// restart of partition 1 next to partitions 10 and 13 that hold more data (store behind S3, incl. 0)
		{Interval: 1, Foreign: true, Plan: cat(full(0, b(1)), []swAct{{K: "crash"}, {K: "restart", Ok: true}}, []swAct{P(1, b(2)), F(1), S(1, true), I(1, true), C(1, false), R(1)},
			[]swAct{{K: "crash"}, {K: "restart", Ok: false}}, full(2, b(3)), []swAct{{K: "crash"}, {K: "restart", Ok: true}}, full(0, b(4)))},
		{Interval: 1, Foreign: true, Plan: cat([]swAct{P(0, b(1)), F(0), S(0, true), I(0, true), C(0, false), R(0), {K: "crash"}, {K: "restart", Ok: false}}, full(1, b(2)))},
		// C05 known finding hw-empty-flush-publish-reorder: B's empty Flush snapshots the committed
		// offset 1; C's flush commits offset 2 and publishes 3; then B's put lands: 3 -> 2
		{Interval: 1, Plan: []swAct{P(0, b(1)), P(1, b(2)), F(0), S(0, true), I(0, true), C(0, true), R(0), F(1), P(2, b(3)), F(2), S(2, true), I(2, true), C(2, true), C(1, true), R(1), R(2)}},
	}
}

// ---------------------------------------------------------------- test entry
func TestVerifStorage(t *testing.T) {
	prop := os.Getenv("VERIF_STORAGE_PROP")
	if prop == "" {
		prop = "C01"
	}
	rule := "schedules of 1-3 producers over the real PartitionLog under testing/synctest: produce/flush calls, S3 segment+index upload outcomes in either order, onFlush/UpdateOffsets outcomes in any order, responses, crashes at any quiescent point, restarts with transient restore faults; batches valid or malformed (negative lastOffsetDelta, lastOffsetDelta up to MaxInt32, huge/negative record counts, extreme client base offset / timestamps / producer fields, count mismatch, batchLength 0/overrun, 2-3 concatenated batches, short); non-trivial = a flush overlaps another producer's append/flush, or an S3/store fault, or a crash+restart; distinct = distinct (config, executed plan)"
	rep := vNewReport(prop, rule)
	var coq, jsons []string
	runOne := func(cs swCase, label string) {
		res := swRun(t, cs, prop)
		canon, _ := json.Marshal(cs)
		nt := res.tags["flush-parked"] || res.tags["s3-fault"] || res.tags["store-fault"] || res.tags["restart"] || res.tags["callbacks-overlap"] || res.tags["threshold-flush"]
		rep.Count(string(canon), nt)
		for tg := range res.tags {
			rep.Hist(tg)
		}
		rep.Hist(label)
		rep.Hist(fmt.Sprintf("events<=%d", ((res.nEvents+9)/10)*10))
		rep.Sample(cs)
		if res.fail != "" {
			n := 0
			for _, f := range rep.Failures {
				if f.Key == res.failKey {
					n++
				}
			}
			if n < 2 {
				key := res.failKey
				shr := cs
				shr.Plan = vShrink(cs.Plan, func(p []swAct) bool {
					c2 := cs
					c2.Plan = p
					r2 := swRun(t, c2, prop)
					return r2.fail != "" && r2.failKey == key
				})
				r2 := swRun(t, shr, prop)
				if r2.fail == "" || r2.failKey != key {
					shr, r2 = cs, res
				}
				rep.Fail(prop+":"+key, key, r2.fail, shr)
			}
		}
		coq = append(coq, res.coq)
		jsons = append(jsons, string(canon))
	}
	if rc := vReplayCase(); rc != nil {
		var cs swCase
		if err := json.Unmarshal(rc, &cs); err != nil {
			t.Fatalf("bad replay: %v", err)
		}
		runOne(cs, "replay")
	} else {
		for _, cs := range append(swCorpus(), swCorpus2()...) {
			runOne(cs, "corpus")
		}
		r := vNewRand(vSeed()*1000003 + uint64(len(prop))*7 + uint64(prop[2]))
		n := vN(360, 3000)
		maxActs := 34
		if vTier() == "thorough" {
			maxActs = 60
		}
		for i := 0; i < n; i++ {
			if i%5 == 0 {
				runOne(swGen(r.Fork(), prop, maxActs), "gen-free")
			} else {
				runOne(swGenDriven(r.Fork(), prop, maxActs), "gen-driven")
			}
		}
	}
	// several small case files: the runner evaluates them in parallel
	const chunk = 35
	for i, k := 0, 0; i < len(coq); i, k = i+chunk, k+1 {
		j := i + chunk
		if j > len(coq) {
			j = len(coq)
		}
		rep.Cases(fmt.Sprintf("%sp%02d", prop, k), "From KS Require Import lib.Base model.Storage corr.StorageCorr.", "case", "check_case", coq[i:j], jsons[i:j])
	}
	rep.Write()
	if len(rep.Failures) > 0 {
		t.Logf("oracle failures: %s", strings.TrimSpace(rep.Failures[0].What))
	}
}
