package storage

// C01, stream "aws": the REAL awsS3Client (newAWSClientWithAPI, the constructor NewS3Client
// uses) under a real PartitionLog doing AppendBatch + Flush, pointed at an in-process double
// of the AWS SDK client interface (awsS3API). The double answers every PutObject / HeadBucket
// / CreateBucket call from a script: ok, NoSuchBucket, or a 500. Deterministic enumeration of
// all PutObject outcome sequences of length <= 3 per object kind (.kfs, .index) x bucket
// behaviours; no randomness, no model cases (awsS3Client's bucket-missing retry is below the
// S3Client interface the Coq model abstracts). Oracle (C01's clause at this level):
//   Flush returned nil  => the segment object and the index object are in the double, the
//                          segment body contains the acknowledged record set (base patched)
//                          and a restarted log reads it back through the same client;
//   Flush returned error => the produce is not acknowledged; a later Flush with a healthy S3
//                          stores the batch.

import (
	"bytes"
	"context"
	"encoding/binary"
	"encoding/json"
	"fmt"
	"io"
	"sort"
	"strings"
	"sync"
	"testing"

	"github.com/aws/aws-sdk-go-v2/aws"
	"github.com/aws/aws-sdk-go-v2/service/s3"
	"github.com/aws/aws-sdk-go-v2/service/s3/types"
	"github.com/aws/smithy-go"
)

type awCase struct {
	Seg    []int `json:"seg"`    // outcomes of successive PutObject calls for the .kfs key: 0 ok, 1 NoSuchBucket, 2 InternalError(500)
	Idx    []int `json:"idx"`    // same for the .index key
	Bucket int   `json:"bucket"` // HeadBucket/CreateBucket behaviour: 0 head ok; 1 head NotFound, create ok; 2 head 500; 3 head NotFound, create 500
}

type awDouble struct {
	mu     sync.Mutex
	cs     awCase
	nSeg   int
	nIdx   int
	objs   map[string][]byte
	exists bool
	calls  []string
}

func awErr(code string) error {
	return &smithy.GenericAPIError{Code: code, Message: "scripted " + code}
}

func (d *awDouble) PutObject(ctx context.Context, in *s3.PutObjectInput, _ ...func(*s3.Options)) (*s3.PutObjectOutput, error) {
	body, _ := io.ReadAll(in.Body)
	if rs, ok := in.Body.(io.Seeker); ok {
		_, _ = rs.Seek(0, io.SeekStart) // the client re-sends the same input on retry
	}
	d.mu.Lock()
	defer d.mu.Unlock()
	key := aws.ToString(in.Key)
	script, n := d.cs.Idx, &d.nIdx
	if strings.HasSuffix(key, ".kfs") {
		script, n = d.cs.Seg, &d.nSeg
	}
	oc := 0
	if *n < len(script) {
		oc = script[*n]
	}
	*n++
	d.calls = append(d.calls, fmt.Sprintf("put %s -> %d", key[strings.LastIndex(key, "/")+1:], oc))
	switch oc {
	case 1:
		return nil, awErr("NoSuchBucket")
	case 2:
		return nil, awErr("InternalError")
	}
	d.objs[key] = body
	return &s3.PutObjectOutput{}, nil
}

func (d *awDouble) HeadBucket(ctx context.Context, in *s3.HeadBucketInput, _ ...func(*s3.Options)) (*s3.HeadBucketOutput, error) {
	d.mu.Lock()
	defer d.mu.Unlock()
	d.calls = append(d.calls, "head")
	switch d.cs.Bucket {
	case 1, 3:
		if !d.exists {
			return nil, awErr("NotFound")
		}
	case 2:
		return nil, awErr("InternalError")
	}
	return &s3.HeadBucketOutput{}, nil
}

func (d *awDouble) CreateBucket(ctx context.Context, in *s3.CreateBucketInput, _ ...func(*s3.Options)) (*s3.CreateBucketOutput, error) {
	d.mu.Lock()
	defer d.mu.Unlock()
	d.calls = append(d.calls, "create")
	if d.cs.Bucket == 3 {
		return nil, awErr("InternalError")
	}
	d.exists = true
	return &s3.CreateBucketOutput{}, nil
}

func (d *awDouble) GetObject(ctx context.Context, in *s3.GetObjectInput, _ ...func(*s3.Options)) (*s3.GetObjectOutput, error) {
	d.mu.Lock()
	defer d.mu.Unlock()
	data, ok := d.objs[aws.ToString(in.Key)]
	if !ok {
		return nil, awErr("NoSuchKey")
	}
	if in.Range != nil {
		var a, b int64
		if _, err := fmt.Sscanf(aws.ToString(in.Range), "bytes=%d-%d", &a, &b); err == nil {
			if b >= int64(len(data)) {
				b = int64(len(data)) - 1
			}
			if a < 0 || a > b {
				return nil, awErr("InvalidRange")
			}
			data = data[a : b+1]
		}
	}
	return &s3.GetObjectOutput{Body: io.NopCloser(bytes.NewReader(append([]byte(nil), data...)))}, nil
}

func (d *awDouble) DeleteObject(ctx context.Context, in *s3.DeleteObjectInput, _ ...func(*s3.Options)) (*s3.DeleteObjectOutput, error) {
	d.mu.Lock()
	defer d.mu.Unlock()
	delete(d.objs, aws.ToString(in.Key))
	return &s3.DeleteObjectOutput{}, nil
}

func (d *awDouble) ListObjectsV2(ctx context.Context, in *s3.ListObjectsV2Input, _ ...func(*s3.Options)) (*s3.ListObjectsV2Output, error) {
	d.mu.Lock()
	defer d.mu.Unlock()
	out := &s3.ListObjectsV2Output{IsTruncated: aws.Bool(false)}
	keys := []string{}
	for k := range d.objs {
		if strings.HasPrefix(k, aws.ToString(in.Prefix)) {
			keys = append(keys, k)
		}
	}
	sort.Strings(keys)
	for _, k := range keys {
		out.Contents = append(out.Contents, types.Object{Key: aws.String(k), Size: aws.Int64(int64(len(d.objs[k])))})
	}
	return out, nil
}

func awRun(cs awCase) (string, string) {
	d := &awDouble{cs: cs, objs: map[string][]byte{}, exists: cs.Bucket == 0 || cs.Bucket == 2}
	client := newAWSClientWithAPI("bkt", "us-east-1", "", d)
	mk := func() *PartitionLog {
		return NewPartitionLog("default", "t", 1, 0, client, nil, PartitionLogConfig{Segment: SegmentWriterConfig{IndexIntervalMessages: 1}}, nil, nil, nil)
	}
	raw := make([]byte, 70)
	binary.BigEndian.PutUint64(raw[0:8], 77) // client-side base offset, to be patched
	binary.BigEndian.PutUint32(raw[8:12], 58)
	raw[16] = 2
	binary.BigEndian.PutUint32(raw[57:61], 1)
	for i := 61; i < 70; i++ {
		raw[i] = 0xC1
	}
	plog := mk()
	batch, err := NewRecordBatchFromBytes(raw)
	if err != nil {
		return "harness", "batch rejected: " + err.Error()
	}
	res, err := plog.AppendBatch(context.Background(), batch)
	if err != nil {
		return "harness", "append failed: " + err.Error()
	}
	stored := append([]byte(nil), raw...)
	binary.BigEndian.PutUint64(stored[0:8], uint64(res.BaseOffset))
	segKey, idxKey := plog.segmentKey(res.BaseOffset), plog.indexKey(res.BaseOffset)
	durable := func() string {
		d.mu.Lock()
		seg, hasSeg := d.objs[segKey]
		idx, hasIdx := d.objs[idxKey]
		d.mu.Unlock()
		if !hasSeg || !hasIdx {
			return fmt.Sprintf("segment object present=%v, index object present=%v", hasSeg, hasIdx)
		}
		if !bytes.Contains(seg, stored) {
			return "segment object does not contain the record set"
		}
		if _, err := ParseIndex(idx); err != nil {
			return "index object does not parse"
		}
		return ""
	}
	ferr := plog.Flush(context.Background())
	d.mu.Lock()
	calls := strings.Join(d.calls, "; ")
	d.mu.Unlock()
	if ferr == nil {
		// handleProduce would now answer with error code 0
		if why := durable(); why != "" {
			return "acked-batch-not-in-s3", fmt.Sprintf("Flush returned nil (the produce is acknowledged) but %s; S3 API calls: %s", why, calls)
		}
		re := mk()
		if _, err := re.RestoreFromS3(context.Background()); err != nil {
			return "acked-unreadable-after-restart", fmt.Sprintf("restore through the aws client failed: %v", err)
		}
		data, err := re.Read(context.Background(), res.BaseOffset, 0)
		if err != nil || !bytes.Contains(data, stored) {
			return "acked-unreadable-after-restart", fmt.Sprintf("after restart Read(%d) through the aws client does not return the acknowledged record set (err=%v)", res.BaseOffset, err)
		}
		return "", ""
	}
	// not acknowledged; S3 recovers: the retried flush must store the batch
	d.mu.Lock()
	d.cs = awCase{}
	d.exists = true
	d.mu.Unlock()
	if err := plog.Flush(context.Background()); err != nil {
		return "retry-flush-failed", fmt.Sprintf("first Flush failed (%v); the retry against a healthy S3 failed too: %v", ferr, err)
	}
	if why := durable(); why != "" {
		return "retried-flush-stores-nothing", fmt.Sprintf("first Flush failed (%v); the retry returned nil but %s", ferr, why)
	}
	return "", ""
}

func awSeqs(maxLen int) [][]int {
	out := [][]int{{}}
	for l, prev := 1, [][]int{{}}; l <= maxLen; l++ {
		var cur [][]int
		for _, p := range prev {
			for oc := 0; oc < 3; oc++ {
				cur = append(cur, append(append([]int(nil), p...), oc))
			}
		}
		out = append(out, cur...)
		prev = cur
	}
	return out
}

func TestVerifStorageAWS(t *testing.T) {
	rep := vNewReport("C01", "real awsS3Client under PartitionLog AppendBatch+Flush against a scripted double of the AWS SDK client: every PutObject outcome sequence of length <= 3 over {ok, NoSuchBucket, 500} for the segment and for the index object x 4 HeadBucket/CreateBucket behaviours (exhaustive, deterministic); non-trivial = at least one scripted failure")
	runOne := func(cs awCase) {
		key, what := awRun(cs)
		canon, _ := json.Marshal(cs)
		nt := cs.Bucket != 0
		for _, o := range append(append([]int(nil), cs.Seg...), cs.Idx...) {
			nt = nt || o != 0
		}
		rep.Count(string(canon), nt)
		rep.Hist(fmt.Sprintf("aws:bucket-mode-%d", cs.Bucket))
		rep.Sample(cs)
		if key != "" {
			rep.Fail("C01:aws:"+key, "aws-"+key, what, cs)
		}
	}
	if rc := vReplayCase(); rc != nil {
		var probe struct {
			Seg *[]int `json:"seg"`
		}
		var cs awCase
		if json.Unmarshal(rc, &probe) == nil && probe.Seg != nil && json.Unmarshal(rc, &cs) == nil {
			runOne(cs)
		}
	} else {
		seqs := awSeqs(3)
		for b := 0; b < 4; b++ {
			for _, sg := range seqs {
				for _, ix := range seqs {
					runOne(awCase{Seg: sg, Idx: ix, Bucket: b})
				}
			}
		}
	}
	rep.CaseFiles = []string{}
	rep.WriteAs("C01_aws")
}
