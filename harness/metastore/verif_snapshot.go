//go:build verif

package metadata

// Verification-only helper (overlaid by /verif's C40 check, never part of the tree):
// a deterministic dump of every field of an InMemoryStore, so a harness in another
// package can compare the complete state before and after a call.

import (
	"fmt"
	"sort"
	"strings"

	"google.golang.org/protobuf/encoding/prototext"
)

func VerifSnapshot(s *InMemoryStore) string {
	s.mu.RLock()
	defer s.mu.RUnlock()
	var lines []string
	add := func(f string, a ...any) { lines = append(lines, fmt.Sprintf(f, a...)) }
	add("controller=%d", s.state.ControllerID)
	if s.state.ClusterName != nil {
		add("clusterName=%q", *s.state.ClusterName)
	}
	if s.state.ClusterID != nil {
		add("clusterID=%q", *s.state.ClusterID)
	}
	for i, b := range s.state.Brokers {
		add("broker[%d]=%+v", i, b)
	}
	for i, t := range s.state.Topics {
		add("topic[%d]=%q err=%d id=%x internal=%v auth=%d", i, *t.Topic, t.ErrorCode, t.TopicID, t.IsInternal, t.AuthorizedOperations)
		for j, p := range t.Partitions {
			add("topic[%d].part[%d]=%+v", i, j, p)
		}
	}
	var m []string
	for k, v := range s.offsets {
		m = append(m, fmt.Sprintf("offset %#v=%d", k, v))
	}
	for k, v := range s.consumerOffsets {
		m = append(m, fmt.Sprintf("coff %#v=%d", k, v))
	}
	for k, v := range s.consumerMeta {
		m = append(m, fmt.Sprintf("cmeta %#v=%q", k, v))
	}
	opt := prototext.MarshalOptions{Multiline: false}
	for k, v := range s.consumerGroups {
		b, _ := opt.Marshal(v)
		m = append(m, fmt.Sprintf("group %q=%s members=%d", k, canonText(string(b)), len(v.Members)))
	}
	for k, v := range s.topicConfigs {
		b, _ := opt.Marshal(v)
		m = append(m, fmt.Sprintf("cfg %q=%s", k, canonText(string(b))))
	}
	sort.Strings(m)
	return strings.Join(append(lines, m...), "\n")
}

// prototext inserts random extra spaces to discourage byte comparison; drop them
func canonText(s string) string {
	return strings.Join(strings.Fields(s), " ")
}

// Unexported key builders, for the C22 harness in pkg/storage.
func VerifOffsetKey(topic string, partition int32) string    { return offsetKey(topic, partition) }
func VerifPartitionKey(topic string, partition int32) string { return partitionKey(topic, partition) }

// The prefix EtcdStore.deleteTopicOffsets deletes (the format string is inlined there).
func VerifTopicDeletePrefix(topic string) string { return fmt.Sprintf("/kafscale/topics/%s/", topic) }
