//go:build verif

package metadata

// Verification-only helper (overlaid by /verif's C40 check, never part of the tree):
// a deterministic dump of every field of an InMemoryStore, so a harness in another
// package can compare the complete state before and after a call.

import (
	"fmt"
	"reflect"
	"sort"
	"strings"

	clientv3 "go.etcd.io/etcd/client/v3"
	"google.golang.org/protobuf/proto"

	metadatapb "github.com/KafScale/platform/pkg/gen/metadata"
)

// VerifSnapshot dumps EVERY field of the store (reflection over the struct, so a table
// added later is included automatically; only the mutex is skipped), following pointers,
// with map entries sorted. Unexported fields are read through reflect's kind accessors.
func VerifSnapshot(s *InMemoryStore) string { return verifSnapshot(s, false) }

// VerifSnapshotStable is the same without TopicConfig.CreatedAt (wall-clock text), for
// comparing two different store instances.
func VerifSnapshotStable(s *InMemoryStore) string { return verifSnapshot(s, true) }

func verifSnapshot(s *InMemoryStore, skipCreatedAt bool) string {
	s.mu.RLock()
	defer s.mu.RUnlock()
	var sb strings.Builder
	v := reflect.ValueOf(s).Elem()
	for i := 0; i < v.NumField(); i++ {
		name := v.Type().Field(i).Name
		if name == "mu" {
			continue
		}
		sb.WriteString(name + " = ")
		verifDump(&sb, v.Field(i), skipCreatedAt, 0)
		sb.WriteString("\n")
	}
	return sb.String()
}

func verifDump(sb *strings.Builder, v reflect.Value, skipCreatedAt bool, depth int) {
	if depth > 12 {
		sb.WriteString("<deep>")
		return
	}
	switch v.Kind() {
	case reflect.Ptr, reflect.Interface:
		if v.IsNil() {
			sb.WriteString("nil")
			return
		}
		sb.WriteString("&")
		verifDump(sb, v.Elem(), skipCreatedAt, depth+1)
	case reflect.Struct:
		sb.WriteString(v.Type().Name() + "{")
		for i := 0; i < v.NumField(); i++ {
			name := v.Type().Field(i).Name
			// protobuf bookkeeping, not data
			if name == "state" || name == "sizeCache" || name == "unknownFields" || name == "mu" {
				continue
			}
			if skipCreatedAt && name == "CreatedAt" {
				continue
			}
			sb.WriteString(name + ":")
			verifDump(sb, v.Field(i), skipCreatedAt, depth+1)
			sb.WriteString(" ")
		}
		sb.WriteString("}")
	case reflect.Map:
		if v.IsNil() {
			sb.WriteString("map(nil)")
			return
		}
		var ent []string
		it := v.MapRange()
		for it.Next() {
			var e strings.Builder
			verifDump(&e, it.Key(), skipCreatedAt, depth+1)
			e.WriteString("=>")
			verifDump(&e, it.Value(), skipCreatedAt, depth+1)
			ent = append(ent, e.String())
		}
		sort.Strings(ent)
		sb.WriteString("map[" + strings.Join(ent, "; ") + "]")
	case reflect.Slice, reflect.Array:
		if v.Kind() == reflect.Slice && v.IsNil() {
			sb.WriteString("[](nil)")
			return
		}
		sb.WriteString("[")
		for i := 0; i < v.Len(); i++ {
			verifDump(sb, v.Index(i), skipCreatedAt, depth+1)
			sb.WriteString(", ")
		}
		sb.WriteString("]")
	case reflect.String:
		fmt.Fprintf(sb, "%q", v.String())
	case reflect.Bool:
		fmt.Fprintf(sb, "%v", v.Bool())
	case reflect.Int, reflect.Int8, reflect.Int16, reflect.Int32, reflect.Int64:
		fmt.Fprintf(sb, "%d", v.Int())
	case reflect.Uint, reflect.Uint8, reflect.Uint16, reflect.Uint32, reflect.Uint64, reflect.Uintptr:
		fmt.Fprintf(sb, "%d", v.Uint())
	case reflect.Float32, reflect.Float64:
		fmt.Fprintf(sb, "%v", v.Float())
	default:
		sb.WriteString("<" + v.Kind().String() + ">")
	}
}

// VerifState is the store's internal state projected to the shape of the Coq model
// (model/MetaStore.v inmem): every table, entries in no particular order.
type VerifOffset struct {
	Topic string
	Part  int32
	Next  int64
}
type VerifCoff struct {
	Group, Topic string
	Part         int32
	Off          int64
	Meta         string
}
type VerifTopic struct {
	Name  string
	Parts int
}
type VerifState struct {
	Brokers int
	Topics  []VerifTopic
	Offsets []VerifOffset
	Coffs   []VerifCoff
	Groups  []*metadatapb.ConsumerGroup
	CfgKeys []string
	Cfgs    []*metadatapb.TopicConfig
}

func VerifModelState(s *InMemoryStore) VerifState {
	s.mu.RLock()
	defer s.mu.RUnlock()
	st := VerifState{Brokers: len(s.state.Brokers)}
	for _, t := range s.state.Topics {
		st.Topics = append(st.Topics, VerifTopic{*t.Topic, len(t.Partitions)})
	}
	for k, v := range s.offsets {
		st.Offsets = append(st.Offsets, VerifOffset{k.topic, k.partition, v})
	}
	for k, v := range s.consumerOffsets {
		st.Coffs = append(st.Coffs, VerifCoff{k.group, k.topic, k.partition, v, s.consumerMeta[k]})
	}
	for _, g := range s.consumerGroups {
		st.Groups = append(st.Groups, proto.Clone(g).(*metadatapb.ConsumerGroup))
	}
	for k, c := range s.topicConfigs {
		st.CfgKeys = append(st.CfgKeys, k)
		st.Cfgs = append(st.Cfgs, proto.Clone(c).(*metadatapb.TopicConfig))
	}
	return st
}

// Unexported key builders, for the C22 harness in pkg/storage.
func VerifOffsetKey(topic string, partition int32) string    { return offsetKey(topic, partition) }
func VerifPartitionKey(topic string, partition int32) string { return partitionKey(topic, partition) }

// The prefix EtcdStore.deleteTopicOffsets deletes (the format string is inlined there).
func VerifTopicDeletePrefix(topic string) string { return fmt.Sprintf("/kafscale/topics/%s/", topic) }

// VerifEtcdStoreNoWatch builds an EtcdStore over an existing client without the snapshot
// watcher goroutine (a harness that replays a broker-side history needs each operation to
// see exactly the state the previous one left; the watcher's asynchronous refresh is C21's
// subject).
func VerifEtcdStoreNoWatch(cli *clientv3.Client, snapshot ClusterMetadata) *EtcdStore {
	return &EtcdStore{client: cli, metadata: NewInMemoryStore(snapshot), available: 1}
}

// VerifInner exposes the embedded in-memory store of an EtcdStore (for full-state dumps).
func VerifInner(s *EtcdStore) *InMemoryStore { return s.metadata }
