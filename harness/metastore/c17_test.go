package metadata

// C17 harness: the same generated operation sequence runs against a real
// InMemoryStore and a real EtcdStore (embedded etcd, started once). Oracle: every
// operation returns the same projected observable from both. Every case and both
// observation lists go to Coq (corr/MetaStoreCorr.v check_case17), which replays the
// sequence on the two store models.

import (
	"encoding/json"
	"fmt"
	"reflect"
	"strings"
	"testing"
)

type c17Case struct {
	Brokers int    `json:"brokers"`
	Ops     []msOp `json:"ops"`
	Scale   bool   `json:"scale,omitempty"` // hundreds of keys: etcd key sets are not read after every op
}

func c17RunOne(t *testing.T, e *msEtcd, cs c17Case) msRun {
	return msRunBothOpt(t, e, cs.Brokers, cs.Ops, !cs.Scale)
}

// first op index at which the two stores answered differently, -1 if none
func c17Diverge(im, et []msRes) int {
	for i := range im {
		if !reflect.DeepEqual(im[i], et[i]) {
			return i
		}
	}
	return -1
}

// Structural class of a shrunk diverging case. Names that contain '/' or are empty
// are the recorded open finding (the etcd key layout cannot represent them); any
// other divergence is a new violation and is keyed by the diverging operation.
func c17Classify(cs c17Case, at int) string {
	for _, op := range cs.Ops {
		ts, gs := msOpNames(op)
		for _, n := range append(ts, gs...) {
			if n == "" || strings.Contains(n, "/") {
				return "etcd-name-with-slash-or-empty"
			}
		}
	}
	return "stores-diverge-on-" + cs.Ops[at].K
}

func TestVerifC17(t *testing.T) {
	rep := vNewReport("C17", "generated sequences (4-28 ops over all 16 Store operations, 1-6 topic and 1-5 group names, 30% of those cases with names containing '/', ':', '%', unicode, dot segments or empty) run on the real InMemoryStore and the real EtcdStore (embedded etcd); every eighth case uses partition indices the topic lacks (negative, = count, beyond, 2^31-1, before creation) on every partition-keyed operation, then delete / re-create / grow and reads back at the same indices; every fourth case is an overwrite family (for committed offset+metadata, next offset, topic config, group, partition count on one key: value->different, value->zero/empty, zero->value, same again, delete->re-create, full read-back after every write); every fourth case is a two-topic scenario: valid names where one is a strict string prefix of the other (a / a-b / a.b / a_1 / a0 ...), durable state on both, then DeleteTopic / re-create / growth / config / offsets on one, each followed by a full read-back of the other; the real etcd key set is read through the client after every op; plus 2 (thorough 12) scale cases per run: 150-300 committed offsets on one topic across groups x partitions, 150+ partitions, 150+ groups, 249-byte topic names and 254-byte group ids, then listings, DeleteTopic / DeleteConsumerGroup, reads of what must be gone and what must stay, re-creation; a case is non-trivial when it has a successful CreateTopic, a commit or group put, and a later read that returns stored data; distinct = distinct canonical (brokers, op list)")
	e := msStartEtcd(t)
	var coq, jsons []string
	runOne := func(cs c17Case) {
		run := c17RunOne(t, e, cs)
		im, et := run.im, run.et
		canon, _ := json.Marshal(cs)
		created, wrote, read := false, false, false
		for i, op := range cs.Ops {
			rep.Hist("op:" + op.K)
			switch {
			case op.K == "ct" && im[i].Err == 0:
				created = true
			case (op.K == "co" || op.K == "pg") && im[i].Err == 0:
				wrote = true
			case op.K == "fo" && (im[i].N != 0 || im[i].Meta != ""), op.K == "fg" && im[i].Group != nil,
				op.K == "ls" && len(im[i].Coffs) > 0, op.K == "lg" && len(im[i].Groups) > 0, op.K == "lo" && im[i].Found,
				op.K == "no" && im[i].Err == 0 && im[i].N > 0, op.K == "fc" && im[i].Err == 0:
				read = true
			}
		}
		rep.Count(string(canon), created && wrote && read)
		rep.Sample(cs)
		if at := c17Diverge(im, et); at >= 0 {
			rep.Hist("diverged")
			shr := cs
			shr.Ops = vShrink(cs.Ops, func(ops []msOp) bool {
				rr := c17RunOne(t, e, c17Case{Brokers: cs.Brokers, Ops: ops, Scale: cs.Scale})
				return c17Diverge(rr.im, rr.et) >= 0
			})
			rr := c17RunOne(t, e, shr)
			a, b := rr.im, rr.et
			k := c17Diverge(a, b)
			if k < 0 {
				shr, a, b, k = cs, im, et, at
			}
			rep.Fail("same-observable", c17Classify(shr, k),
				fmt.Sprintf("op %d (%s): in-memory store answered %+v, etcd store answered %+v", k, msCoqOp(shr.Ops[k]), a[k], b[k]), shr)
		}
		keys := "[]" // scale cases: answers only
		if !cs.Scale {
			keys = msCoqKeys(run.kvs)
		}
		coq = append(coq, fmt.Sprintf("mkCase17 %d %s %s %s %s", cs.Brokers, msCoqOps(cs.Ops), msCoqResList(im), msCoqResList(et), keys))
		jsons = append(jsons, string(canon))
	}
	if rc := vReplayCase(); rc != nil {
		var cs c17Case
		if err := json.Unmarshal(rc, &cs); err != nil {
			t.Fatalf("bad replay: %v", err)
		}
		runOne(cs)
	} else {
		grp := &msGroup{ID: "g1", State: "stable", PType: "consumer", Proto: "range", Leader: "m0", Gen: 3, Rebalance: 45000,
			Members: []msMember{{ID: "m0", Client: "c", Host: "/h", HB: "x", Session: 20000, Subs: []string{"orders"}, Assign: []msAssign{{Topic: "orders", Parts: []int32{0, 1}}}}}}
		cfg := &msCfg{Name: "orders", Parts: 0, RF: 1, RetMs: 1000, RetBytes: -1, Config: [][2]string{{"k", "v"}}}
		corpus := []c17Case{
			// earlier findings' shapes (now fixed): timeouts dropped by cloneConsumerGroup
			{Brokers: 1, Ops: []msOp{{K: "pg", G: grp}, {K: "fg", Group: "g1"}, {K: "lg"}}},
			// DeleteTopic kept consumer offsets in memory; re-created topic
			{Brokers: 1, Ops: []msOp{{K: "ct", Topic: "orders", N: 2, RF: 1}, {K: "co", Group: "g1", Topic: "orders", Part: 0, N: 7, Meta: "m"}, {K: "uo", Topic: "orders", Part: 1, N: 9}, {K: "dt", Topic: "orders"}, {K: "fo", Group: "g1", Topic: "orders"}, {K: "ls"}, {K: "ct", Topic: "orders", N: 2, RF: 1}, {K: "no", Topic: "orders", Part: 1}}},
			// replication factor of a created topic; partition growth after a config update
			{Brokers: 3, Ops: []msOp{{K: "ct", Topic: "orders", N: 3, RF: 1}, {K: "fc", Topic: "orders"}, {K: "uc", C: cfg}, {K: "cp", Topic: "orders", N: 5}, {K: "fc", Topic: "orders"}, {K: "md"}}},
			// group "offsets", topic "offsets": substring delete
			{Brokers: 1, Ops: []msOp{{K: "ct", Topic: "offsets", N: 1, RF: 1}, {K: "ct", Topic: "a", N: 1, RF: 1}, {K: "co", Group: "offsets", Topic: "a", N: 5}, {K: "dt", Topic: "offsets"}, {K: "fo", Group: "offsets", Topic: "a"}}},
			// error precedence of CreatePartitions
			{Brokers: 1, Ops: []msOp{{K: "cp", Topic: "nosuch", N: 0}, {K: "cp", Topic: "nosuch", N: 3}}},
			// an offset recorded for a partition the topic lacks must not survive delete + re-create
			{Brokers: 1, Ops: []msOp{{K: "ct", Topic: "orders", N: 1, RF: 1}, {K: "uo", Topic: "orders", Part: 3, N: 41}, {K: "uo", Topic: "orders", Part: -1, N: 5}, {K: "co", Group: "g1", Topic: "orders", Part: 3, N: 9, Meta: "m"}, {K: "no", Topic: "orders", Part: 3},
				{K: "dt", Topic: "orders"}, {K: "ct", Topic: "orders", N: 4, RF: 1}, {K: "no", Topic: "orders", Part: 3}, {K: "fo", Group: "g1", Topic: "orders", Part: 3}, {K: "cp", Topic: "orders", N: 6}, {K: "no", Topic: "orders", Part: 5}, {K: "ls"}}},
			// value -> empty value on the same key (metadata), offset -> 0, group fields cleared, config zeroed
			{Brokers: 1, Ops: []msOp{{K: "co", Group: "g1", Topic: "orders", N: 9, Meta: "checkpoint-a"}, {K: "co", Group: "g1", Topic: "orders", N: 9, Meta: ""}, {K: "fo", Group: "g1", Topic: "orders"}, {K: "co", Group: "g1", Topic: "orders", N: 0, Meta: "x"}, {K: "lo", Group: "g1", Topic: "orders"}, {K: "ls"},
				{K: "pg", G: grp}, {K: "pg", G: &msGroup{ID: "g1", Members: []msMember{}}}, {K: "fg", Group: "g1"}, {K: "ct", Topic: "orders", N: 1, RF: 1}, {K: "uc", C: cfg}, {K: "uc", C: &msCfg{Name: "orders", Config: [][2]string{}}}, {K: "fc", Topic: "orders"}, {K: "uo", Topic: "orders", N: 8}, {K: "uo", Topic: "orders", N: -1}, {K: "no", Topic: "orders"}}},
			// a topic whose name is a strict prefix of another live topic is deleted
			{Brokers: 1, Ops: []msOp{{K: "ct", Topic: "orders", N: 1, RF: 1}, {K: "ct", Topic: "orders-v2", N: 2, RF: 1}, {K: "uo", Topic: "orders-v2", Part: 1, N: 41}, {K: "uc", C: &msCfg{Name: "orders-v2", RF: 1, RetMs: 9, RetBytes: -1, Config: [][2]string{}}}, {K: "cp", Topic: "orders-v2", N: 3}, {K: "co", Group: "g1", Topic: "orders-v2", Part: 0, N: 5}, {K: "dt", Topic: "orders"}, {K: "no", Topic: "orders-v2", Part: 1}, {K: "fc", Topic: "orders-v2"}, {K: "fo", Group: "g1", Topic: "orders-v2"}, {K: "ls"}}},
			// the open finding: a group id containing '/' is not listed by the etcd store
			{Brokers: 1, Ops: []msOp{{K: "co", Group: "g/1", Topic: "orders", N: 3}, {K: "ls"}}},
			{Brokers: 1, Ops: []msOp{{K: "co", Group: "a/offsets/b", Topic: "c", N: 7}, {K: "fo", Group: "a", Topic: "b/offsets/c"}}},
		}
		for _, cs := range corpus {
			runOne(cs)
		}
		r := vNewRand(vSeed())
		// a handful of scale cases per run
		for i := 0; i < vN(2, 12); i++ {
			b, ops := msGenScale(r.Fork())
			rep.Hist("names:scale")
			runOne(c17Case{Brokers: b, Ops: ops, Scale: true})
		}
		n := vN(110, 2000)
		for i := 0; i < n; i++ {
			rr := r.Fork()
			if i%4 == 3 {
				// two live topics with prefix-related valid names, state on both, operations on one
				// interleaved with read-backs of the other
				sc := msGenScenario(rr)
				ops, _, _ := msScenarioOps(sc)
				rep.Hist("names:prefix-pair")
				runOne(c17Case{Brokers: sc.Brokers, Ops: ops})
				continue
			}
			if i%8 == 5 {
				// partition indices the topic lacks, then delete / re-create / grow and read back
				b, ops := msGenPartitionEdge(rr)
				rep.Hist("names:partition-edge")
				runOne(c17Case{Brokers: b, Ops: ops})
				continue
			}
			if i%4 == 1 {
				// overwrite families on one key of every table, read back after every write
				b, ops := msGenOverwrite(rr)
				rep.Hist("names:overwrite-family")
				runOne(c17Case{Brokers: b, Ops: ops})
				continue
			}
			names := msPickNames(rr, 30)
			cs := c17Case{Brokers: rr.Range(0, 3)}
			k := rr.Range(4, 28)
			for j := 0; j < k; j++ {
				cs.Ops = append(cs.Ops, msGenOp(rr, names))
			}
			if names.weird {
				rep.Hist("names:weird")
			} else {
				rep.Hist("names:plain")
			}
			runOne(cs)
		}
	}
	rep.Cases("C17", msRequires, "case17", "check_case17", coq, jsons)
	rep.Write()
	if len(rep.Failures) > 0 {
		t.Logf("oracle failures: %s", strings.TrimSpace(rep.Failures[0].What))
	}
}
