package mcpserver

// C40 on the etcd-backed store (result "C40_etcd"). cmd/mcp wires the MCP server to an
// EtcdStore, so the tools are also run against a real EtcdStore on the embedded etcd:
//   1. a broker-side EtcdStore persists a generated history (topics, partition growth,
//      configs, next offsets, committed offsets, groups, deletions, snapshot refreshes);
//   2. a cluster snapshot with different partition counts is published to etcd the way the
//      operator does (configs present / absent / lagging behind the snapshot);
//   3. a new EtcdStore is opened exactly as cmd/mcp does (metadata.NewEtcdStore with an
//      empty initial snapshot) and serves the real MCP server.
// Oracle: the raw dump of the whole /kafscale/ key space (key, value, mod revision) and
// the full dump of the store's in-process tables are the same after every tool call as
// before. Twin: the same history replayed without any tool call, then the same later
// writes on both, must leave the same key space (wall-clock fields normalised).
// Correspondence (check_case40e): the etcd store model, re-opened over the history's
// key space with the published snapshot, answers every recorded store call like the real
// store, and holds exactly the real key set.

import (
	"context"
	"encoding/json"
	"fmt"
	"sort"
	"strings"
	"testing"
	"time"

	clientv3 "go.etcd.io/etcd/client/v3"
	"google.golang.org/protobuf/proto"

	"github.com/KafScale/platform/internal/testutil"
	metadatapb "github.com/KafScale/platform/pkg/gen/metadata"
	"github.com/KafScale/platform/pkg/metadata"
	"github.com/modelcontextprotocol/go-sdk/mcp"
)

const c40SnapshotKey = "/kafscale/metadata/snapshot"

type c40eCase struct {
	Brokers  int        `json:"brokers"`
	Initial  []c40Topic `json:"initial"`
	Populate []c40Op    `json:"populate"`
	Pub      []c40Topic `json:"pub"` // the snapshot published after the broker-side history
	Calls    []c40Call  `json:"calls"`
	Later    []c40Op    `json:"later"`
	Etcd     bool       `json:"etcd"` // marks replays that belong to this harness
}

type c40eEnv struct {
	t   *testing.T
	cli *clientv3.Client
	eps []string
}

// broker-side store: EtcdStore + the operator's way of publishing a snapshot
type c40eBroker struct {
	*metadata.EtcdStore
	env *c40eEnv
}

func (b c40eBroker) publish(snap metadata.ClusterMetadata) {
	b.env.publish(snap)
	_ = b.EtcdStore.RefreshSnapshot(context.Background())
}

func (e *c40eEnv) publish(snap metadata.ClusterMetadata) {
	payload, _ := json.Marshal(snap)
	ctx, cancel := context.WithTimeout(context.Background(), 5*time.Second)
	defer cancel()
	if _, err := e.cli.Put(ctx, c40SnapshotKey, string(payload)); err != nil {
		e.t.Fatalf("publish snapshot: %v", err)
	}
}

type c40eKV struct {
	Key, Value string
	Mod        int64
}

func (e *c40eEnv) dump() []c40eKV {
	ctx, cancel := context.WithTimeout(context.Background(), 5*time.Second)
	defer cancel()
	resp, err := e.cli.Get(ctx, "/kafscale/", clientv3.WithPrefix())
	if err != nil {
		e.t.Fatalf("etcd scan: %v", err)
	}
	out := make([]c40eKV, 0, len(resp.Kvs))
	for _, kv := range resp.Kvs {
		out = append(out, c40eKV{string(kv.Key), string(kv.Value), kv.ModRevision})
	}
	return out
}

func c40eDumpText(d []c40eKV, withRev bool) string {
	var sb strings.Builder
	for _, kv := range d {
		if withRev {
			fmt.Fprintf(&sb, "%s @%d = %q\n", kv.Key, kv.Mod, kv.Value)
		} else {
			fmt.Fprintf(&sb, "%s = %s\n", kv.Key, c40eNormalise(kv.Key, kv.Value))
		}
	}
	return sb.String()
}

// values with their wall-clock fields removed and map-ordered encodings decoded, for
// comparing two separate runs
func c40eNormalise(key, val string) string {
	switch {
	case strings.HasSuffix(key, "/config"):
		c := &metadatapb.TopicConfig{}
		if proto.Unmarshal([]byte(val), c) == nil {
			c.CreatedAt = ""
			return c40CoqCfgPB(c) + fmt.Sprintf(" name=%q", c.Name)
		}
	case strings.HasPrefix(key, "/kafscale/consumers/") && strings.HasSuffix(key, "/metadata"):
		// protobuf map fields (group members) are marshalled in random order
		g := &metadatapb.ConsumerGroup{}
		if proto.Unmarshal([]byte(val), g) == nil {
			return c40CoqGroupPB(g)
		}
	case strings.Contains(key, "/offsets/"):
		var rec map[string]any
		if json.Unmarshal([]byte(val), &rec) == nil {
			delete(rec, "committed_at")
			b, _ := json.Marshal(rec)
			return string(b)
		}
	}
	return fmt.Sprintf("%q", val)
}

func (e *c40eEnv) wipe() {
	ctx, cancel := context.WithTimeout(context.Background(), 5*time.Second)
	defer cancel()
	if _, err := e.cli.Delete(ctx, "/kafscale/", clientv3.WithPrefix()); err != nil {
		e.t.Fatalf("etcd wipe: %v", err)
	}
}

// history replays steps 1-3 and returns the store opened the way cmd/mcp opens it
func (e *c40eEnv) history(cs c40eCase) (*metadata.EtcdStore, []string) {
	ctx := context.Background()
	e.wipe()
	broker := c40eBroker{metadata.VerifEtcdStoreNoWatch(e.cli, c40Snapshot(cs.Brokers, cs.Initial)), e}
	hist := []string{c40CoqUpdate(cs.Brokers, cs.Initial)}
	for _, op := range cs.Populate {
		hist = append(hist, c40Populate(ctx, broker, op))
	}
	e.publish(c40Snapshot(cs.Brokers, cs.Pub))
	st, err := metadata.NewEtcdStore(ctx, metadata.ClusterMetadata{}, metadata.EtcdStoreConfig{Endpoints: e.eps})
	if err != nil {
		e.t.Fatalf("NewEtcdStore: %v", err)
	}
	return st, hist
}

func c40eKeys(d []c40eKV) string {
	var it []string
	for _, kv := range d {
		if kv.Key != c40SnapshotKey {
			it = append(it, c40Str(kv.Key))
		}
	}
	return cqList(it)
}

type c40eResult struct {
	coq, jsons []string
	key, fail  string
}

func c40eRun(e *c40eEnv, cs c40eCase, rep *vReport) c40eResult {
	ctx := context.Background()
	var res c40eResult
	setFail := func(key, what string) {
		if res.fail == "" {
			res.key, res.fail = key, what
		}
	}
	// The later writes come from a broker-side store without the snapshot watcher: on a store
	// WITH the watcher, CreateTopic followed at once by CreatePartitions races with the watcher's
	// asynchronous refresh (the refresh can reload the pre-growth snapshot between
	// metadata.CreatePartitions and persistSnapshot, and the growth is lost) - that race is real
	// but it is C21's subject, and it made this comparison flaky.
	later := func(_ *metadata.EtcdStore) {
		w := metadata.VerifEtcdStoreNoWatch(e.cli, metadata.ClusterMetadata{})
		_ = w.RefreshSnapshot(ctx)
		b := c40eBroker{w, e}
		for _, op := range cs.Later {
			_ = c40Populate(ctx, b, op)
		}
	}
	// twin first: the same history, no tool call, then the later writes
	twin, _ := e.history(cs)
	twinNow := c40eDumpText(e.dump(), false)
	later(twin)
	twinLater := c40eDumpText(e.dump(), false)
	_ = twin.Close()

	st, hist := e.history(cs)
	defer st.Close()
	pub := make([]string, len(cs.Pub))
	for i, t := range cs.Pub {
		pub[i] = fmt.Sprintf("(%s, %d)", c40Str(t.Name), t.Parts)
	}
	rec := &c40Rec{inner: st}
	server := NewServer(Options{Store: rec, Version: "verif"})
	ct, stt := mcp.NewInMemoryTransports()
	ss, err := server.Connect(ctx, stt, nil)
	if err != nil {
		e.t.Fatalf("server connect: %v", err)
	}
	defer ss.Close()
	client := mcp.NewClient(&mcp.Implementation{Name: "verif-client", Version: "0"}, nil)
	sess, err := client.Connect(ctx, ct, nil)
	if err != nil {
		e.t.Fatalf("client connect: %v", err)
	}
	defer sess.Close()
	tool := ""
	for _, call := range cs.Calls {
		tool = call.Tool
		before, beforeMem := e.dump(), metadata.VerifSnapshot(metadata.VerifInner(st))
		rec.trace, rec.names = nil, nil
		var args any
		_ = json.Unmarshal(call.Args, &args)
		out, callErr := sess.CallTool(ctx, &mcp.CallToolParams{Name: call.Tool, Arguments: args})
		after, afterMem := e.dump(), metadata.VerifSnapshot(metadata.VerifInner(st))
		if rep != nil {
			rep.Hist("tool:" + call.Tool)
			switch {
			case callErr != nil:
				rep.Hist("outcome:protocol-error")
			case out.IsError:
				rep.Hist("outcome:tool-error")
			default:
				rep.Hist("outcome:ok")
			}
			for _, n := range rec.names {
				rep.Hist("store-call:" + n)
			}
		}
		if b, a := c40eDumpText(before, true), c40eDumpText(after, true); b != a {
			setFail("etcd-keyspace-changed-by-"+call.Tool, fmt.Sprintf("tool %s with arguments %s changed the etcd key space (store calls: %v)\nbefore (key @mod-revision = value):\n%s\nafter:\n%s", call.Tool, string(call.Args), rec.names, b, a))
		}
		if beforeMem != afterMem {
			setFail("etcd-store-memory-changed-by-"+call.Tool, fmt.Sprintf("tool %s with arguments %s changed the EtcdStore's in-process tables (store calls: %v)\nbefore:\n%s\nafter:\n%s", call.Tool, string(call.Args), rec.names, beforeMem, afterMem))
		}
		res.coq = append(res.coq, fmt.Sprintf("mkCase40e %d %s %s %s %s %s", cs.Brokers, cqList(hist), cqList(pub), c40Str(call.Tool), cqList(rec.trace), c40eKeys(after)))
		one := cs
		one.Calls = []c40Call{call}
		j, _ := json.Marshal(one)
		res.jsons = append(res.jsons, string(j))
	}
	key := "etcd-twin-diverges-after-tools"
	if len(cs.Calls) == 1 {
		key = "etcd-twin-diverges-after-" + tool
	}
	if now := c40eDumpText(e.dump(), false); now != twinNow {
		setFail(key, fmt.Sprintf("right after the calls the etcd key space differs from the one the same history leaves without any tool call\nwith tools:\n%s\nwithout:\n%s", now, twinNow))
	}
	later(st)
	if l := c40eDumpText(e.dump(), false); l != twinLater {
		setFail(key, fmt.Sprintf("after the later writes the etcd key space differs from the one the same history and writes leave without any tool call\nwith tools:\n%s\nwithout:\n%s", l, twinLater))
	}
	return res
}

func c40eGenPub(r *vRand, cs c40eCase) []c40Topic {
	seen := map[string]bool{}
	var out []c40Topic
	add := func(n string, parts int) {
		if !seen[n] && parts > 0 {
			seen[n] = true
			out = append(out, c40Topic{Name: n, Parts: parts})
		}
	}
	for _, op := range cs.Populate { // topics of the history, most with a different partition count
		if op.K == "ct" || op.K == "cp" {
			if r.Chance(85) {
				add(op.Topic, int(op.N)+r.Range(0, 3))
			}
		}
	}
	for _, t := range cs.Initial {
		add(t.Name, t.Parts+r.Range(0, 2))
	}
	if r.Chance(40) {
		add(c40Topics[r.Intn(len(c40Topics))], r.Range(1, 4))
	}
	return out
}

func TestVerifC40Etcd(t *testing.T) {
	rep := vNewReport("C40", "real EtcdStore on the embedded etcd: a broker-side store persists a generated history (0-3 created topics with growth / config / next offsets, snapshot refreshes, deletions, 0-6 committed offsets, 0-3 groups), a snapshot with different partition counts is published (configs present, absent or lagging behind it), a new EtcdStore is opened as cmd/mcp does and serves every tool of the real MCP server with generated arguments; the whole /kafscale/ key space (key, value, mod revision) and the store's in-process tables are compared before/after each call, and with a tool-free twin run after later writes; non-trivial = the history left keys in etcd and the tool made a store call")
	eps := testutil.StartEmbeddedEtcd(t)
	cli, err := clientv3.New(clientv3.Config{Endpoints: eps, DialTimeout: 5 * time.Second})
	if err != nil {
		t.Fatalf("etcd client: %v", err)
	}
	defer cli.Close()
	e := &c40eEnv{t: t, cli: cli, eps: eps}
	tools := []string{toolClusterStatus, toolClusterMetrics, toolListTopics, toolDescribeTopics, toolListGroups, toolDescribeGroup, toolFetchOffsets, toolDescribeConfigs}
	sort.Strings(tools)
	var coq, jsons []string
	runOne := func(cs c40eCase) {
		cs.Etcd = true
		res := c40eRun(e, cs, rep)
		for i, call := range cs.Calls {
			canon, _ := json.Marshal([]any{cs.Populate, cs.Pub, call})
			rep.Count(string(canon), len(cs.Populate) > 0 && i < len(res.coq) && !strings.Contains(res.coq[i], ") [] ["))
		}
		rep.Sample(cs)
		if res.fail != "" {
			shr := cs
			for _, call := range cs.Calls {
				one := cs
				one.Calls = []c40Call{call}
				if r1 := c40eRun(e, one, nil); r1.fail != "" {
					shr = one
					break
				}
			}
			shr.Populate = vShrink(shr.Populate, func(ops []c40Op) bool { s := shr; s.Populate = ops; return c40eRun(e, s, nil).fail != "" })
			shr.Later = vShrink(shr.Later, func(ops []c40Op) bool { s := shr; s.Later = ops; return c40eRun(e, s, nil).fail != "" })
			r2 := c40eRun(e, shr, nil)
			if r2.fail == "" {
				shr, r2 = cs, res
			}
			rep.Fail("etcd-store-unchanged", r2.key, r2.fail, shr)
		}
		coq = append(coq, res.coq...)
		jsons = append(jsons, res.jsons...)
	}
	if rc := vReplayCase(); rc != nil {
		var cs c40eCase
		if err := json.Unmarshal(rc, &cs); err == nil && cs.Etcd {
			runOne(cs)
		}
	} else {
		// corpus: a persisted config that lags behind the published snapshot is described
		runOne(c40eCase{Brokers: 1,
			Populate: []c40Op{{K: "ct", Topic: "orders", N: 2}, {K: "uc", Topic: "orders", N: 0, RetMs: 1000}, {K: "ct", Topic: "events", N: 1}, {K: "co", Group: "g1", Topic: "orders", Part: 1, N: 5, Meta: "m"}},
			Pub:      []c40Topic{{Name: "orders", Parts: 5}, {Name: "events", Parts: 2}, {Name: "logs", Parts: 1}},
			Calls:    []c40Call{{Tool: toolDescribeConfigs, Args: json.RawMessage(`{"topics":["orders","events","logs"]}`)}, {Tool: toolFetchOffsets, Args: json.RawMessage(`{"group_id":"g1","topics":["orders"]}`)}, {Tool: toolDescribeTopics, Args: json.RawMessage(`{"names":["orders"]}`)}},
			Later:    []c40Op{{K: "cp", Topic: "orders", N: 6}}})
		r := vNewRand(vSeed() ^ 0x40e7cd)
		n := vN(8, 120)
		for i := 0; i < n; i++ {
			rr := r.Fork()
			cs := c40eCase{Brokers: rr.Range(1, 3), Initial: c40GenSnapshotTopics(rr, 0, 2), Populate: c40GenPopulate(rr)}
			cs.Pub = c40eGenPub(rr, cs)
			for _, tool := range tools {
				cs.Calls = append(cs.Calls, c40Call{Tool: tool, Args: c40GenArgs(rr, tool)})
			}
			cs.Later = c40GenLater(rr, c40Case{Brokers: cs.Brokers, Initial: cs.Pub})
			runOne(cs)
		}
	}
	rep.Cases("C40_etcd", "From Coq Require Import String.\nFrom KS Require Import lib.Base lib.Strings lib.Paths model.MetaStore gen.McpCalls corr.MetaStoreCorr.\nOpen Scope string_scope.", "case40e", "check_case40e", coq, jsons)
	rep.WriteAs("C40_etcd")
	if len(rep.Failures) > 0 {
		t.Logf("oracle failures: %s", strings.TrimSpace(rep.Failures[0].What))
	}
}
