package mcpserver

// C40 harness: a real InMemoryStore starts from a cluster snapshot (topics known only from
// the snapshot have no recorded config) and is populated with created topics, partition
// growth, next offsets, committed offsets, groups, topic configs, snapshot refreshes; an
// identically populated twin is built next to it. Every tool the real ops MCP server
// lists is called with generated arguments through a real MCP client/server session
// (in-memory transport), the store sitting behind a recording wrapper. Oracles:
//   * every field of the store (reflective in-package dump by a verif-tagged helper: all
//     internal tables, present and future) and its public read-back are the same after
//     the call as before, whatever the tool answered;
//   * the store and its twin (which saw no tool call) are indistinguishable right after the
//     calls and after each of a generated sequence of later operations applied to both
//     (snapshot refresh with grown topics, CreatePartitions, UpdateTopicConfig, CreateTopic,
//     DeleteTopic) - hidden state that only matters later shows here.
// The populate ops, the tool name, the recorded store calls with their answers and the
// real store's internal tables after the call go to Coq (corr/MetaStoreCorr.v
// check_case40: replays the calls on the model, model state unchanged AND equal to the
// real internal tables, every recorded method listed for that tool in gen/McpCalls.v).

import (
	"context"
	"encoding/json"
	"errors"
	"fmt"
	"reflect"
	"sort"
	"strings"
	"testing"

	metadatapb "github.com/KafScale/platform/pkg/gen/metadata"
	"github.com/KafScale/platform/pkg/metadata"
	"github.com/KafScale/platform/pkg/protocol"
	"github.com/modelcontextprotocol/go-sdk/mcp"
)

// ---------- populate ops (a subset of the model's op language) ----------
type c40Member struct {
	ID      string   `json:"id"`
	Client  string   `json:"client"`
	Subs    []string `json:"subs"`
	Topic   string   `json:"topic"`
	Parts   []int32  `json:"parts"`
	Session int32    `json:"session"`
}
type c40Topic struct {
	Name  string `json:"name"`
	Parts int    `json:"parts"`
}
type c40Op struct {
	K       string      `json:"k"` // ct cp uo co pg uc dt, up = InMemoryStore.Update(snapshot)
	Topics  []c40Topic  `json:"topics,omitempty"`
	Topic   string      `json:"topic,omitempty"`
	Group   string      `json:"group,omitempty"`
	Part    int32       `json:"part,omitempty"`
	N       int64       `json:"n,omitempty"`
	Meta    string      `json:"meta,omitempty"`
	State   string      `json:"state,omitempty"`
	Gen     int32       `json:"gen,omitempty"`
	Rebal   int32       `json:"rebal,omitempty"`
	Members []c40Member `json:"members,omitempty"`
	RetMs   int64       `json:"ret_ms,omitempty"`
	Config  [][2]string `json:"config,omitempty"`
}
type c40Call struct {
	Tool string          `json:"tool"`
	Args json.RawMessage `json:"args"`
}
type c40Case struct {
	Brokers  int        `json:"brokers"`
	Initial  []c40Topic `json:"initial"` // topics the store knows only from its cluster snapshot (no recorded config)
	Populate []c40Op    `json:"populate"`
	Calls    []c40Call  `json:"calls"`
	Later    []c40Op    `json:"later"` // applied after the calls, to this store and to a twin that saw no tool call
}

func c40Snapshot(brokers int, topics []c40Topic) metadata.ClusterMetadata {
	name := "verif"
	st := metadata.ClusterMetadata{ControllerID: 1, ClusterName: &name}
	for i := 0; i < brokers; i++ {
		st.Brokers = append(st.Brokers, protocol.MetadataBroker{NodeID: int32(i + 1), Host: "h", Port: 9092})
	}
	for _, t := range topics {
		n := t.Name
		mt := protocol.MetadataTopic{Topic: &n}
		// deliberately UNSORTED list-valued state (deterministic): partitions in a rotated,
		// descending order, replica / ISR / offline lists out of order
		for k := 0; k < t.Parts; k++ {
			p := (t.Parts - 1 - k + len(n)) % t.Parts
			mt.Partitions = append(mt.Partitions, protocol.MetadataPartition{Partition: int32(p), Leader: 1, LeaderEpoch: int32(p),
				Replicas: []int32{3, 1, 2}, ISR: []int32{2, 1}, OfflineReplicas: []int32{9, 4, 7}})
		}
		st.Topics = append(st.Topics, mt)
	}
	return st
}
func c40CoqUpdate(brokers int, topics []c40Topic) string {
	it := make([]string, len(topics))
	for i, t := range topics {
		it[i] = fmt.Sprintf("(%s, %d)", c40Str(t.Name), t.Parts)
	}
	return fmt.Sprintf("OUpdate %d %s", brokers, cqList(it))
}

func c40Str(s string) string {
	if s == "" {
		return "[]"
	}
	for i := 0; i < len(s); i++ {
		if s[i] < 0x20 || s[i] > 0x7e || s[i] == '"' {
			return cqBytes([]byte(s))
		}
	}
	return "(lit \"" + s + "\")"
}
func c40Strs(l []string) string {
	it := make([]string, len(l))
	for i, s := range l {
		it[i] = c40Str(s)
	}
	return cqList(it)
}
func c40I32s(l []int32) string {
	it := make([]string, len(l))
	for i, v := range l {
		it[i] = cqZ(int64(v))
	}
	return cqList(it)
}

func c40GroupPB(op c40Op) *metadatapb.ConsumerGroup {
	g := &metadatapb.ConsumerGroup{GroupId: op.Group, State: op.State, ProtocolType: "consumer", Protocol: "range",
		GenerationId: op.Gen, RebalanceTimeoutMs: op.Rebal, Members: map[string]*metadatapb.GroupMember{}}
	for _, m := range op.Members {
		pm := &metadatapb.GroupMember{ClientId: m.Client, ClientHost: "/h", HeartbeatAt: "hb", Subscriptions: append([]string(nil), m.Subs...), SessionTimeoutMs: m.Session}
		if m.Topic != "" {
			pm.Assignments = []*metadatapb.Assignment{{Topic: m.Topic, Partitions: append([]int32(nil), m.Parts...)}}
		}
		g.Members[m.ID] = pm
	}
	return g
}
func c40CoqGroupPB(g *metadatapb.ConsumerGroup) string {
	ids := make([]string, 0, len(g.Members))
	for id := range g.Members {
		ids = append(ids, id)
	}
	sort.Strings(ids)
	ms := make([]string, len(ids))
	for i, id := range ids {
		m := g.Members[id]
		as := make([]string, len(m.Assignments))
		for j, a := range m.Assignments {
			as[j] = "(" + c40Str(a.Topic) + ", " + c40I32s(a.Partitions) + ")"
		}
		ms[i] = fmt.Sprintf("(%s, mkMember %s %s %s %s %s %s)", c40Str(id), c40Str(m.ClientId), c40Str(m.ClientHost), c40Str(m.HeartbeatAt), cqList(as), c40Strs(m.Subscriptions), cqZ(int64(m.SessionTimeoutMs)))
	}
	return fmt.Sprintf("(mkGroup %s %s %s %s %s %s %s %s)", c40Str(g.GroupId), c40Str(g.State), c40Str(g.ProtocolType), c40Str(g.Protocol), c40Str(g.Leader), cqZ(int64(g.GenerationId)), cqZ(int64(g.RebalanceTimeoutMs)), cqList(ms))
}
func c40CfgPB(op c40Op) *metadatapb.TopicConfig {
	c := &metadatapb.TopicConfig{Name: op.Topic, Partitions: int32(op.N), ReplicationFactor: 1, RetentionMs: op.RetMs, RetentionBytes: -1, Config: map[string]string{}}
	for _, kv := range op.Config {
		c.Config[kv[0]] = kv[1]
	}
	return c
}
func c40CoqCfgPB(c *metadatapb.TopicConfig) string {
	ks := make([]string, 0, len(c.Config))
	for k := range c.Config {
		ks = append(ks, k)
	}
	sort.Strings(ks)
	kv := make([]string, len(ks))
	for i, k := range ks {
		kv[i] = "(" + c40Str(k) + ", " + c40Str(c.Config[k]) + ")"
	}
	return fmt.Sprintf("(mkCfg %s %s %s %s %s %s %s)", c40Str(c.Name), cqZ(int64(c.Partitions)), cqZ(int64(c.ReplicationFactor)), cqZ(c.RetentionMs), cqZ(c.RetentionBytes), cqZ(c.SegmentBytes), cqList(kv))
}

// c40Populate applies one op to the real store and returns its Coq form.
func c40Populate(ctx context.Context, st metadata.Store, op c40Op) string {
	switch op.K {
	case "ct":
		_, _ = st.CreateTopic(ctx, metadata.TopicSpec{Name: op.Topic, NumPartitions: int32(op.N), ReplicationFactor: 1})
		return fmt.Sprintf("OCreateTopic %s %s 1", c40Str(op.Topic), cqZ(op.N))
	case "cp":
		_ = st.CreatePartitions(ctx, op.Topic, int32(op.N))
		return fmt.Sprintf("OCreatePartitions %s %s", c40Str(op.Topic), cqZ(op.N))
	case "uo":
		_ = st.UpdateOffsets(ctx, op.Topic, op.Part, op.N)
		return fmt.Sprintf("OUpdateOffsets %s %s %s", c40Str(op.Topic), cqZ(int64(op.Part)), cqZ(op.N))
	case "co":
		_ = st.CommitConsumerOffset(ctx, op.Group, op.Topic, op.Part, op.N, op.Meta)
		return fmt.Sprintf("OCommit %s %s %s %s %s", c40Str(op.Group), c40Str(op.Topic), cqZ(int64(op.Part)), cqZ(op.N), c40Str(op.Meta))
	case "pg":
		g := c40GroupPB(op)
		s := "OPutGroup " + c40CoqGroupPB(g)
		_ = st.PutConsumerGroup(ctx, g)
		return s
	case "uc":
		c := c40CfgPB(op)
		s := "OUpdateCfg " + c40CoqCfgPB(c)
		_ = st.UpdateTopicConfig(ctx, c)
		return s
	case "dt":
		_ = st.DeleteTopic(ctx, op.Topic)
		return "ODeleteTopic " + c40Str(op.Topic)
	case "up": // snapshot refresh; op.N carries the broker count
		if u, ok := st.(interface {
			Update(metadata.ClusterMetadata)
		}); ok {
			u.Update(c40Snapshot(int(op.N), op.Topics))
		} else if pub, ok := st.(interface {
			publish(metadata.ClusterMetadata)
		}); ok {
			pub.publish(c40Snapshot(int(op.N), op.Topics))
		}
		return c40CoqUpdate(int(op.N), op.Topics)
	}
	panic("populate kind " + op.K)
}

// ---------- recording wrapper ----------
type c40Rec struct {
	inner metadata.Store
	trace []string // Coq "(op, res)" pairs
	names []string // method names, for the histogram / report
}

var c40ErrNames = []string{"ENone", "EInvalidTopic", "ETopicExists", "EUnknownTopic", "EOther"}

func c40Err(err error) string {
	switch {
	case err == nil:
		return c40ErrNames[0]
	case errors.Is(err, metadata.ErrInvalidTopic):
		return c40ErrNames[1]
	case errors.Is(err, metadata.ErrTopicExists):
		return c40ErrNames[2]
	case errors.Is(err, metadata.ErrUnknownTopic):
		return c40ErrNames[3]
	}
	return c40ErrNames[4]
}
func (r *c40Rec) rec(name, op, res string) {
	r.names = append(r.names, name)
	r.trace = append(r.trace, "("+op+", "+res+")")
}

func (r *c40Rec) Metadata(ctx context.Context, topics []string) (*metadata.ClusterMetadata, error) {
	m, err := r.inner.Metadata(ctx, topics)
	var it []string
	if err == nil {
		for _, t := range m.Topics {
			it = append(it, fmt.Sprintf("(%s, %s, %s)", c40Str(*t.Topic), cqZ(int64(t.ErrorCode)), cqZ(int64(len(t.Partitions)))))
		}
	}
	r.rec("Metadata", "OMetadata "+c40Strs(topics), "RMeta "+cqList(it))
	return m, err
}
func (r *c40Rec) NextOffset(ctx context.Context, topic string, partition int32) (int64, error) {
	v, err := r.inner.NextOffset(ctx, topic, partition)
	r.rec("NextOffset", fmt.Sprintf("ONextOffset %s %s", c40Str(topic), cqZ(int64(partition))), fmt.Sprintf("ROffset %s %s", c40Err(err), cqZ(v)))
	return v, err
}
func (r *c40Rec) UpdateOffsets(ctx context.Context, topic string, partition int32, lastOffset int64) error {
	err := r.inner.UpdateOffsets(ctx, topic, partition, lastOffset)
	r.rec("UpdateOffsets", fmt.Sprintf("OUpdateOffsets %s %s %s", c40Str(topic), cqZ(int64(partition)), cqZ(lastOffset)), "RErr "+c40Err(err))
	return err
}
func (r *c40Rec) CommitConsumerOffset(ctx context.Context, group, topic string, partition int32, offset int64, md string) error {
	err := r.inner.CommitConsumerOffset(ctx, group, topic, partition, offset, md)
	r.rec("CommitConsumerOffset", fmt.Sprintf("OCommit %s %s %s %s %s", c40Str(group), c40Str(topic), cqZ(int64(partition)), cqZ(offset), c40Str(md)), "RErr "+c40Err(err))
	return err
}
func (r *c40Rec) FetchConsumerOffset(ctx context.Context, group, topic string, partition int32) (int64, string, error) {
	v, m, err := r.inner.FetchConsumerOffset(ctx, group, topic, partition)
	r.rec("FetchConsumerOffset", fmt.Sprintf("OFetchOffset %s %s %s", c40Str(group), c40Str(topic), cqZ(int64(partition))), fmt.Sprintf("RFetched %s %s", cqZ(v), c40Str(m)))
	return v, m, err
}
func (r *c40Rec) ListConsumerOffsets(ctx context.Context) ([]metadata.ConsumerOffset, error) {
	l, err := r.inner.ListConsumerOffsets(ctx)
	it := make([]string, len(l))
	for i, c := range l {
		it[i] = fmt.Sprintf("((%s, %s, %s), %s)", c40Str(c.Group), c40Str(c.Topic), cqZ(int64(c.Partition)), cqZ(c.Offset))
	}
	r.rec("ListConsumerOffsets", "OListOffsets", "RCoffs "+cqList(it))
	return l, err
}
func (r *c40Rec) PutConsumerGroup(ctx context.Context, group *metadatapb.ConsumerGroup) error {
	op := "OPutGroup " + c40CoqGroupPB(group)
	err := r.inner.PutConsumerGroup(ctx, group)
	r.rec("PutConsumerGroup", op, "RErr "+c40Err(err))
	return err
}
func (r *c40Rec) FetchConsumerGroup(ctx context.Context, groupID string) (*metadatapb.ConsumerGroup, error) {
	g, err := r.inner.FetchConsumerGroup(ctx, groupID)
	res := "RGroup None"
	if g != nil {
		res = "RGroup (Some " + c40CoqGroupPB(g) + ")"
	}
	r.rec("FetchConsumerGroup", "OFetchGroup "+c40Str(groupID), res)
	return g, err
}
func (r *c40Rec) ListConsumerGroups(ctx context.Context) ([]*metadatapb.ConsumerGroup, error) {
	l, err := r.inner.ListConsumerGroups(ctx)
	it := make([]string, len(l))
	for i, g := range l {
		it[i] = c40CoqGroupPB(g)
	}
	r.rec("ListConsumerGroups", "OListGroups", "RGroups "+cqList(it))
	return l, err
}
func (r *c40Rec) DeleteConsumerGroup(ctx context.Context, groupID string) error {
	err := r.inner.DeleteConsumerGroup(ctx, groupID)
	r.rec("DeleteConsumerGroup", "ODeleteGroup "+c40Str(groupID), "RErr "+c40Err(err))
	return err
}
func (r *c40Rec) FetchTopicConfig(ctx context.Context, topic string) (*metadatapb.TopicConfig, error) {
	c, err := r.inner.FetchTopicConfig(ctx, topic)
	res := fmt.Sprintf("RCfg %s None", c40Err(err))
	if err == nil && c != nil {
		res = fmt.Sprintf("RCfg ENone (Some %s)", c40CoqCfgPB(c))
	}
	r.rec("FetchTopicConfig", "OFetchCfg "+c40Str(topic), res)
	return c, err
}
func (r *c40Rec) UpdateTopicConfig(ctx context.Context, cfg *metadatapb.TopicConfig) error {
	op := "OUpdateCfg " + c40CoqCfgPB(cfg)
	err := r.inner.UpdateTopicConfig(ctx, cfg)
	r.rec("UpdateTopicConfig", op, "RErr "+c40Err(err))
	return err
}
func (r *c40Rec) CreatePartitions(ctx context.Context, topic string, partitionCount int32) error {
	err := r.inner.CreatePartitions(ctx, topic, partitionCount)
	r.rec("CreatePartitions", fmt.Sprintf("OCreatePartitions %s %s", c40Str(topic), cqZ(int64(partitionCount))), "RErr "+c40Err(err))
	return err
}
func (r *c40Rec) CreateTopic(ctx context.Context, spec metadata.TopicSpec) (*protocol.MetadataTopic, error) {
	t, err := r.inner.CreateTopic(ctx, spec)
	n := 0
	if t != nil {
		n = len(t.Partitions)
	}
	r.rec("CreateTopic", fmt.Sprintf("OCreateTopic %s %s %s", c40Str(spec.Name), cqZ(int64(spec.NumPartitions)), cqZ(int64(spec.ReplicationFactor))), fmt.Sprintf("RTopic %s %d", c40Err(err), n))
	return t, err
}
func (r *c40Rec) DeleteTopic(ctx context.Context, name string) error {
	err := r.inner.DeleteTopic(ctx, name)
	r.rec("DeleteTopic", "ODeleteTopic "+c40Str(name), "RErr "+c40Err(err))
	return err
}

// the real store's internal tables as a Coq [inmem] term
func c40CoqState(st *metadata.InMemoryStore) string {
	v := metadata.VerifModelState(st)
	ts := make([]string, len(v.Topics))
	for i, t := range v.Topics {
		ts[i] = fmt.Sprintf("(%s, %d)", c40Str(t.Name), t.Parts)
	}
	os_ := make([]string, len(v.Offsets))
	for i, o := range v.Offsets {
		os_[i] = fmt.Sprintf("((%s, %s), %s)", c40Str(o.Topic), cqZ(int64(o.Part)), cqZ(o.Next))
	}
	cs := make([]string, len(v.Coffs))
	for i, c := range v.Coffs {
		cs[i] = fmt.Sprintf("((%s, %s, %s), (%s, %s))", c40Str(c.Group), c40Str(c.Topic), cqZ(int64(c.Part)), cqZ(c.Off), c40Str(c.Meta))
	}
	gs := make([]string, len(v.Groups))
	for i, g := range v.Groups {
		gs[i] = "(" + c40Str(g.GroupId) + ", " + c40CoqGroupPB(g) + ")"
	}
	cf := make([]string, len(v.Cfgs))
	for i, c := range v.Cfgs {
		cf[i] = "(" + c40Str(v.CfgKeys[i]) + ", " + c40CoqCfgPB(c) + ")"
	}
	return fmt.Sprintf("(mkInmem %d %s %s %s %s %s)", v.Brokers, cqList(ts), cqList(os_), cqList(cs), cqList(gs), cqList(cf))
}

// public read-back of everything the Store interface can observe
func c40ReadBack(ctx context.Context, st *metadata.InMemoryStore) string {
	var sb strings.Builder
	m, _ := st.Metadata(ctx, nil)
	for _, t := range m.Topics {
		fmt.Fprintf(&sb, "topic %q %d %d;", *t.Topic, t.ErrorCode, len(t.Partitions))
		for _, p := range t.Partitions {
			n, err := st.NextOffset(ctx, *t.Topic, p.Partition)
			fmt.Fprintf(&sb, "next %d %d %v;", p.Partition, n, err)
		}
		c, err := st.FetchTopicConfig(ctx, *t.Topic)
		if c != nil {
			fmt.Fprintf(&sb, "cfg %s %v;", c40CoqCfgPB(c), err)
		}
	}
	offs, _ := st.ListConsumerOffsets(ctx)
	var l []string
	for _, o := range offs {
		_, md, _ := st.FetchConsumerOffset(ctx, o.Group, o.Topic, o.Partition)
		l = append(l, fmt.Sprintf("%q %q %d %d %q", o.Group, o.Topic, o.Partition, o.Offset, md))
	}
	gs, _ := st.ListConsumerGroups(ctx)
	for _, g := range gs {
		l = append(l, c40CoqGroupPB(g))
	}
	sort.Strings(l)
	sb.WriteString(strings.Join(l, ";"))
	return sb.String()
}

// ---------- generators ----------
var c40Topics = []string{"orders", "events", "a.b", "logs", "metrics"}
var c40Groups = []string{"g1", "g2", "billing", "a:b"}

func c40GenSnapshotTopics(r *vRand, lo, hi int) []c40Topic {
	var out []c40Topic
	seen := map[string]bool{}
	for i := 0; i < r.Range(lo, hi); i++ {
		n := c40Topics[r.Intn(len(c40Topics))]
		if !seen[n] {
			seen[n] = true
			out = append(out, c40Topic{Name: n, Parts: r.Range(1, 5)})
		}
	}
	return out
}

// operations applied after the tool calls to the store and to its twin
func c40GenLater(r *vRand, cs c40Case) []c40Op {
	var ops []c40Op
	for i := 0; i < r.Range(1, 4); i++ {
		t := c40Topics[r.Intn(len(c40Topics))]
		switch r.Intn(7) {
		case 0, 1, 2: // snapshot refresh: the known snapshot topics grow, maybe one more appears
			var ts []c40Topic
			for _, it := range cs.Initial {
				ts = append(ts, c40Topic{Name: it.Name, Parts: it.Parts + r.Range(0, 3)})
			}
			if r.Chance(50) {
				ts = append(ts, c40GenSnapshotTopics(r, 1, 2)...)
			}
			seen := map[string]bool{}
			var uniq []c40Topic
			for _, x := range ts {
				if !seen[x.Name] {
					seen[x.Name] = true
					uniq = append(uniq, x)
				}
			}
			ops = append(ops, c40Op{K: "up", N: int64(cs.Brokers), Topics: uniq})
		case 3:
			ops = append(ops, c40Op{K: "cp", Topic: t, N: int64(r.Range(2, 8))})
		case 4:
			ops = append(ops, c40Op{K: "uc", Topic: t, N: int64(r.Range(0, 1) * 4), RetMs: 777})
		case 5:
			ops = append(ops, c40Op{K: "ct", Topic: t, N: int64(r.Range(1, 3))})
		default:
			ops = append(ops, c40Op{K: "dt", Topic: t})
		}
	}
	return ops
}

func c40GenPopulate(r *vRand) []c40Op {
	var ops []c40Op
	nt := r.Range(0, 3)
	for i := 0; i < nt; i++ {
		t := c40Topics[r.Intn(len(c40Topics))]
		ops = append(ops, c40Op{K: "ct", Topic: t, N: int64(r.Range(1, 4))})
		if r.Chance(30) {
			ops = append(ops, c40Op{K: "cp", Topic: t, N: int64(r.Range(2, 6))})
		}
		if r.Chance(40) {
			op := c40Op{K: "uc", Topic: t, N: int64(r.Range(0, 1) * 3), RetMs: int64(r.Range(-1, 5) * 1000)}
			if r.Bool() {
				op.Config = [][2]string{{"cleanup.policy", "compact"}}
			}
			ops = append(ops, op)
		}
		for p := 0; p < r.Range(0, 3); p++ {
			ops = append(ops, c40Op{K: "uo", Topic: t, Part: int32(r.Range(0, 3)), N: int64(r.Range(0, 500))})
		}
	}
	if r.Chance(25) {
		ops = append(ops, c40Op{K: "up", N: int64(r.Range(1, 3)), Topics: c40GenSnapshotTopics(r, 1, 4)})
	}
	if r.Chance(15) {
		ops = append(ops, c40Op{K: "dt", Topic: c40Topics[r.Intn(len(c40Topics))]})
	}
	for i := 0; i < r.Range(0, 6); i++ {
		ops = append(ops, c40Op{K: "co", Group: c40Groups[r.Intn(len(c40Groups))], Topic: c40Topics[r.Intn(len(c40Topics))], Part: int32(r.Range(0, 3)), N: int64(r.Range(0, 900)), Meta: []string{"", "m", "mëta"}[r.Intn(3)]})
	}
	for i := 0; i < r.Range(0, 3); i++ {
		op := c40Op{K: "pg", Group: c40Groups[r.Intn(len(c40Groups))], State: []string{"stable", "empty"}[r.Intn(2)], Gen: int32(r.Range(0, 5)), Rebal: int32(r.Range(0, 2) * 30000)}
		for m := 0; m < r.Range(0, 3); m++ {
			mm := c40Member{ID: fmt.Sprintf("m%d", m), Client: "c", Session: int32(r.Range(0, 2) * 10000), Subs: []string{c40Topics[r.Intn(len(c40Topics))]}}
			if r.Bool() {
				mm.Topic, mm.Parts = mm.Subs[0], []int32{0, int32(r.Range(1, 3))}
			}
			op.Members = append(op.Members, mm)
		}
		ops = append(ops, op)
	}
	return ops
}

func c40GenNames(r *vRand, pool []string) []string {
	switch r.Intn(8) {
	case 0:
		return nil
	case 1:
		return []string{}
	case 2:
		return []string{""}
	case 3: // huge
		out := make([]string, 0, 300)
		for i := 0; i < 300; i++ {
			out = append(out, fmt.Sprintf("%s-%d", pool[r.Intn(len(pool))], i%7))
		}
		return out
	case 4:
		return []string{"nosuch", "a/../b", "ünï", strings.Repeat("x", 300), pool[0], pool[0]}
	default:
		var out []string
		for i := 0; i < r.Range(1, 3); i++ {
			out = append(out, pool[r.Intn(len(pool))])
		}
		return out
	}
}

func c40GenArgs(r *vRand, tool string) json.RawMessage {
	grp := append([]string{"", "nosuch", "g/1", strings.Repeat("g", 500)}, c40Groups...)[r.Intn(4+len(c40Groups))]
	var v any
	switch tool {
	case toolDescribeTopics:
		v = map[string]any{"names": c40GenNames(r, c40Topics)}
	case toolDescribeGroup:
		v = map[string]any{"group_id": grp}
	case toolFetchOffsets:
		v = map[string]any{"group_id": grp, "topics": c40GenNames(r, c40Topics)}
	case toolDescribeConfigs:
		v = map[string]any{"topics": c40GenNames(r, c40Topics)}
	default:
		// tools without input, and tools this harness does not know (added later): a mix of
		// empty input and plausible field names
		if r.Chance(70) {
			v = map[string]any{}
		} else {
			v = map[string]any{"names": c40GenNames(r, c40Topics), "topics": c40GenNames(r, c40Topics), "group_id": grp, "topic": "orders", "name": "orders", "partitions": 3}
		}
	}
	// nil slices must be absent, not null, to get past the input schema; also try null sometimes
	if m, ok := v.(map[string]any); ok {
		for k, x := range m {
			if s, ok := x.([]string); ok && s == nil {
				delete(m, k)
			}
		}
	}
	b, _ := json.Marshal(v)
	return b
}

type c40Result struct {
	coq    []string
	jsons  []string
	fail   string
	key    string
	tools  map[string]int
	writes []string
}

// c40Scribble overwrites everything reachable from a value a store read method returned:
// numbers, strings, slice elements (and their order), map entries.
func c40Scribble(v reflect.Value, depth int) {
	if depth > 10 {
		return
	}
	switch v.Kind() {
	case reflect.Ptr, reflect.Interface:
		if !v.IsNil() {
			c40Scribble(v.Elem(), depth+1)
		}
	case reflect.Struct:
		for i := 0; i < v.NumField(); i++ {
			if v.Type().Field(i).PkgPath == "" { // exported
				c40Scribble(v.Field(i), depth+1)
			}
		}
	case reflect.Slice, reflect.Array:
		for i := 0; i < v.Len(); i++ {
			c40Scribble(v.Index(i), depth+1)
		}
		for i, j := 0, v.Len()-1; i < j && v.Kind() == reflect.Slice; i, j = i+1, j-1 {
			if v.Index(i).CanSet() {
				tmp := reflect.New(v.Type().Elem()).Elem()
				tmp.Set(v.Index(i))
				v.Index(i).Set(v.Index(j))
				v.Index(j).Set(tmp)
			}
		}
	case reflect.Map:
		if v.IsNil() {
			return
		}
		for _, k := range v.MapKeys() {
			e := v.MapIndex(k)
			if e.Kind() == reflect.Ptr || e.Kind() == reflect.Map || e.Kind() == reflect.Slice {
				c40Scribble(e, depth+1)
			} else {
				n := reflect.New(v.Type().Elem()).Elem()
				n.Set(e)
				c40Scribble(n, depth+1)
				v.SetMapIndex(k, n)
			}
		}
		if v.Type().Key().Kind() == reflect.String && (v.Type().Elem().Kind() == reflect.String) {
			v.SetMapIndex(reflect.ValueOf("scribbled").Convert(v.Type().Key()), reflect.ValueOf("scribbled").Convert(v.Type().Elem()))
		}
	case reflect.String:
		if v.CanSet() {
			v.SetString("scribbled")
		}
	case reflect.Int, reflect.Int8, reflect.Int16, reflect.Int32, reflect.Int64:
		if v.CanSet() {
			v.SetInt(77)
		}
	case reflect.Uint, reflect.Uint8, reflect.Uint16, reflect.Uint32, reflect.Uint64:
		if v.CanSet() {
			v.SetUint(77)
		}
	case reflect.Bool:
		if v.CanSet() {
			v.SetBool(!v.Bool())
		}
	}
}

// c40AliasProbe: every read method of the store must hand out private copies. After each
// one returns, everything reachable from the returned value is scribbled on; the store's
// internal dump must not move. Returns the first offending method.
func c40AliasProbe(ctx context.Context, st *metadata.InMemoryStore, topics, groups []string) (string, string) {
	type probe struct {
		name string
		call func() any
	}
	var probes []probe
	probes = append(probes, probe{"Metadata(all)", func() any { m, _ := st.Metadata(ctx, nil); return m }})
	if len(topics) > 0 {
		probes = append(probes, probe{"Metadata(filtered)", func() any { m, _ := st.Metadata(ctx, topics); return m }})
	}
	for _, t := range topics {
		t := t
		probes = append(probes, probe{"FetchTopicConfig", func() any { c, _ := st.FetchTopicConfig(ctx, t); return c }})
	}
	for _, g := range groups {
		g := g
		probes = append(probes, probe{"FetchConsumerGroup", func() any { x, _ := st.FetchConsumerGroup(ctx, g); return x }})
	}
	probes = append(probes, probe{"ListConsumerGroups", func() any { x, _ := st.ListConsumerGroups(ctx); return x }},
		probe{"ListConsumerOffsets", func() any { x, _ := st.ListConsumerOffsets(ctx); return x }})
	for _, p := range probes {
		before := metadata.VerifSnapshot(st)
		v := p.call()
		if v == nil {
			continue
		}
		c40Scribble(reflect.ValueOf(v), 0)
		if after := metadata.VerifSnapshot(st); after != before {
			return p.name, fmt.Sprintf("the value returned by InMemoryStore.%s shares memory with the store: overwriting the returned value changed the store's internal state\nbefore:\n%s\nafter:\n%s", p.name, before, after)
		}
	}
	return "", ""
}

// c40Run populates a fresh store and performs the calls of the case.
func c40Build(ctx context.Context, cs c40Case) (*metadata.InMemoryStore, []string) {
	st := metadata.NewInMemoryStore(c40Snapshot(cs.Brokers, cs.Initial))
	pop := []string{c40CoqUpdate(cs.Brokers, cs.Initial)} // the model starts empty: the initial snapshot is its first op
	for _, op := range cs.Populate {
		pop = append(pop, c40Populate(ctx, st, op))
	}
	return st, pop
}

// c40Run populates a fresh store (and an identical twin that no tool ever touches),
// performs the calls of the case on the first, then applies the later operations to both.
func c40Run(t *testing.T, cs c40Case, rep *vReport) c40Result {
	ctx := context.Background()
	var res c40Result
	st, pop := c40Build(ctx, cs)
	twin, _ := c40Build(ctx, cs)
	setFail := func(key, what string) {
		if res.fail == "" {
			res.key, res.fail = key, what
		}
	}
	// store-level obligation the read-only argument relies on: reads return private copies
	{
		probeStore, _ := c40Build(ctx, cs)
		if m, what := c40AliasProbe(ctx, probeStore, c40Topics, c40Groups); what != "" {
			setFail("store-read-returns-shared-state-"+strings.SplitN(m, "(", 2)[0], what)
		}
	}
	rec := &c40Rec{inner: st}
	server := NewServer(Options{Store: rec, Version: "verif"})
	ct, stt := mcp.NewInMemoryTransports()
	ss, err := server.Connect(ctx, stt, nil)
	if err != nil {
		t.Fatalf("server connect: %v", err)
	}
	defer ss.Close()
	client := mcp.NewClient(&mcp.Implementation{Name: "verif-client", Version: "0"}, nil)
	sess, err := client.Connect(ctx, ct, nil)
	if err != nil {
		t.Fatalf("client connect: %v", err)
	}
	defer sess.Close()
	lastTool := ""
	for _, call := range cs.Calls {
		lastTool = call.Tool
		// internal dumps only around the call: a public read-back here could itself trigger (and
		// so hide) a read method that writes
		before := metadata.VerifSnapshot(st)
		rec.trace, rec.names = nil, nil
		var args any
		_ = json.Unmarshal(call.Args, &args)
		out, callErr := sess.CallTool(ctx, &mcp.CallToolParams{Name: call.Tool, Arguments: args})
		after := metadata.VerifSnapshot(st)
		if rep != nil {
			rep.Hist("tool:" + call.Tool)
			switch {
			case callErr != nil:
				rep.Hist("outcome:protocol-error")
			case out.IsError:
				rep.Hist("outcome:tool-error")
			default:
				rep.Hist("outcome:ok")
			}
			for _, n := range rec.names {
				rep.Hist("store-call:" + n)
			}
		}
		if before != after {
			setFail("state-changed-by-"+call.Tool, fmt.Sprintf("tool %s with arguments %s changed the metadata store (store calls: %v)\ninternal state before:\n%s\nafter:\n%s", call.Tool, string(call.Args), rec.names, before, after))
		}
		res.coq = append(res.coq, fmt.Sprintf("mkCase40 %d %s %s %s %s", cs.Brokers, cqList(pop), c40Str(call.Tool), cqList(rec.trace), c40CoqState(st)))
		one, _ := json.Marshal(c40Case{Brokers: cs.Brokers, Initial: cs.Initial, Populate: cs.Populate, Calls: []c40Call{call}, Later: cs.Later})
		res.jsons = append(res.jsons, string(one))
	}
	// twin oracle: the store the tools ran on and its untouched twin must be indistinguishable,
	// now and after the same later operations (snapshot refreshes, growth, config updates, ...)
	key := "twin-diverges-after-tools"
	if len(cs.Calls) == 1 {
		key = "twin-diverges-after-" + lastTool
	}
	cmp := func(when string, public bool) {
		a, b := metadata.VerifSnapshotStable(st), metadata.VerifSnapshotStable(twin)
		ap, bp := "", ""
		if public { // only at the very end, after the internal comparison (reads may write)
			ap, bp = c40ReadBack(ctx, st), c40ReadBack(ctx, twin)
		}
		if a != b || ap != bp {
			setFail(key, fmt.Sprintf("%s the store the tools were called on differs from an identically populated store that saw no tool call\nread-back with tools:    %s\nread-back without tools: %s\ninternal state with tools:\n%s\nwithout:\n%s", when, ap, bp, a, b))
		}
	}
	cmp("right after the calls", false)
	for i, op := range cs.Later {
		_ = c40Populate(ctx, st, op)
		_ = c40Populate(ctx, twin, op)
		cmp(fmt.Sprintf("after later operation %d (%s)", i, op.K), false)
	}
	cmp("at the end (public read-back)", true)
	return res
}

func TestVerifC40(t *testing.T) {
	rep := vNewReport("C40", "a real InMemoryStore that starts from a cluster snapshot with 0-3 topics known only from the snapshot (no recorded config), populated with 0-3 created topics (partition growth, configs, next offsets), snapshot refreshes, topic deletion, 0-6 committed offsets and 0-3 groups, plus an identically populated twin that no tool touches; every tool listed by the real MCP server (tools/list) is called through a real client session with generated arguments (absent / empty / unknown / duplicate / 300-element / 300-byte / unicode names and group ids) behind a recording Store wrapper; after the calls 1-4 later operations (snapshot refresh growing the snapshot topics, CreatePartitions, UpdateTopicConfig, CreateTopic, DeleteTopic) are applied to both stores; a case is non-trivial when the store is non-empty and the tool made at least one store call; distinct = distinct (populate ops, tool, arguments)")
	ctx := context.Background()
	// the tools the real server advertises
	var tools []string
	{
		server := NewServer(Options{Store: metadata.NewInMemoryStore(metadata.ClusterMetadata{}), Version: "verif"})
		ct, stt := mcp.NewInMemoryTransports()
		ss, err := server.Connect(ctx, stt, nil)
		if err != nil {
			t.Fatalf("server connect: %v", err)
		}
		client := mcp.NewClient(&mcp.Implementation{Name: "verif-client", Version: "0"}, nil)
		sess, err := client.Connect(ctx, ct, nil)
		if err != nil {
			t.Fatalf("client connect: %v", err)
		}
		lt, err := sess.ListTools(ctx, nil)
		if err != nil {
			t.Fatalf("tools/list: %v", err)
		}
		for _, tl := range lt.Tools {
			tools = append(tools, tl.Name)
		}
		sort.Strings(tools)
		sess.Close()
		ss.Close()
	}
	rep.Notes = append(rep.Notes, "tools listed by the server: "+strings.Join(tools, ", "))
	var coq, jsons []string
	runOne := func(cs c40Case) {
		res := c40Run(t, cs, rep)
		for i, call := range cs.Calls {
			canon, _ := json.Marshal([]any{cs.Populate, call})
			rep.Count(string(canon), len(cs.Populate)+len(cs.Initial) > 0 && i < len(res.coq) && !strings.Contains(res.coq[i], ") [] (mkInmem"))
		}
		rep.Sample(cs)
		if res.fail != "" {
			// shrink: one call, then the populate ops
			shr := cs
			for _, call := range cs.Calls {
				one := c40Case{Brokers: cs.Brokers, Initial: cs.Initial, Populate: cs.Populate, Calls: []c40Call{call}, Later: cs.Later}
				if r1 := c40Run(t, one, nil); r1.fail != "" {
					shr = one
					break
				}
			}
			shr.Populate = vShrink(shr.Populate, func(ops []c40Op) bool {
				return c40Run(t, c40Case{Brokers: shr.Brokers, Initial: shr.Initial, Populate: ops, Calls: shr.Calls, Later: shr.Later}, nil).fail != ""
			})
			shr.Later = vShrink(shr.Later, func(ops []c40Op) bool {
				return c40Run(t, c40Case{Brokers: shr.Brokers, Initial: shr.Initial, Populate: shr.Populate, Calls: shr.Calls, Later: ops}, nil).fail != ""
			})
			r2 := c40Run(t, shr, nil)
			if r2.fail == "" {
				shr, r2 = cs, res
			}
			rep.Fail("store-unchanged", r2.key, r2.fail, shr)
		}
		coq = append(coq, res.coq...)
		jsons = append(jsons, res.jsons...)
	}
	if rc := vReplayCase(); rc != nil {
		var cs c40Case
		if err := json.Unmarshal(rc, &cs); err != nil {
			t.Fatalf("bad replay: %v", err)
		}
		runOne(cs)
	} else {
		// corpus: a topic known only from the cluster snapshot (no recorded config) is described,
		// then the snapshot is refreshed with more partitions for it
		// corpus: describe a snapshot topic whose partition / ISR / offline lists are not sorted, by name
		runOne(c40Case{Brokers: 2, Initial: []c40Topic{{Name: "orders", Parts: 4}, {Name: "events", Parts: 3}},
			Calls: []c40Call{{Tool: toolDescribeTopics, Args: json.RawMessage(`{"names":["orders","events"]}`)}, {Tool: toolDescribeTopics, Args: json.RawMessage(`{"names":[]}`)}, {Tool: toolFetchOffsets, Args: json.RawMessage(`{"group_id":"g1","topics":["orders"]}`)}}})
		runOne(c40Case{Brokers: 1, Initial: []c40Topic{{Name: "orders", Parts: 2}},
			Calls: []c40Call{{Tool: toolDescribeConfigs, Args: json.RawMessage(`{}`)}, {Tool: toolDescribeConfigs, Args: json.RawMessage(`{"topics":["orders"]}`)}, {Tool: toolFetchOffsets, Args: json.RawMessage(`{"group_id":"g1"}`)}},
			Later: []c40Op{{K: "up", N: 1, Topics: []c40Topic{{Name: "orders", Parts: 5}}}}})
		r := vNewRand(vSeed())
		n := vN(22, 400)
		for i := 0; i < n; i++ {
			rr := r.Fork()
			cs := c40Case{Brokers: rr.Range(1, 3), Initial: c40GenSnapshotTopics(rr, 0, 3), Populate: c40GenPopulate(rr)}
			for _, tool := range tools {
				cs.Calls = append(cs.Calls, c40Call{Tool: tool, Args: c40GenArgs(rr, tool)})
			}
			// tools that take a filter: once unfiltered and once with the names that exist
			var known []string
			for _, it := range cs.Initial {
				known = append(known, it.Name)
			}
			for _, op := range cs.Populate {
				if op.K == "ct" {
					known = append(known, op.Topic)
				}
			}
			if len(known) > 0 {
				kj, _ := json.Marshal(known)
				cs.Calls = append(cs.Calls,
					c40Call{Tool: toolDescribeTopics, Args: json.RawMessage(`{"names":[]}`)}, c40Call{Tool: toolDescribeTopics, Args: json.RawMessage(`{"names":` + string(kj) + `}`)},
					c40Call{Tool: toolDescribeConfigs, Args: json.RawMessage(`{"topics":[]}`)}, c40Call{Tool: toolDescribeConfigs, Args: json.RawMessage(`{"topics":` + string(kj) + `}`)},
					c40Call{Tool: toolFetchOffsets, Args: json.RawMessage(`{"group_id":"g1","topics":[]}`)}, c40Call{Tool: toolFetchOffsets, Args: json.RawMessage(`{"group_id":"g1","topics":` + string(kj) + `}`)})
			}
			cs.Later = c40GenLater(rr, cs)
			runOne(cs)
		}
	}
	rep.Cases("C40", "From Coq Require Import String.\nFrom KS Require Import lib.Base lib.Strings lib.Paths model.MetaStore gen.McpCalls corr.MetaStoreCorr.\nOpen Scope string_scope.", "case40", "check_case40", coq, jsons)
	rep.Write()
	if len(rep.Failures) > 0 {
		t.Logf("oracle failures: %s", strings.TrimSpace(rep.Failures[0].What))
	}
}
