package broker

// C16 harness: generated commit / fetch histories go through the real
// GroupCoordinator.OffsetCommit and GroupCoordinator.OffsetFetch, once over a real
// InMemoryStore and once over a real EtcdStore (embedded etcd, started once).
// Oracle (the property's clauses, checked on what the real code answered): every
// fetched (group, topic, partition) returns the offset and metadata of the last
// commit to exactly that triple, a triple that was never committed returns offset -1
// with empty metadata, error code 0 throughout. Every history plus the observed
// responses goes to Coq (corr/MetaStoreCorr.v check_case16).

import (
	"context"
	"encoding/json"
	"errors"
	"fmt"
	"strings"
	"testing"
	"time"

	clientv3 "go.etcd.io/etcd/client/v3"

	"github.com/KafScale/platform/internal/testutil"
	metadatapb "github.com/KafScale/platform/pkg/gen/metadata"
	"github.com/KafScale/platform/pkg/metadata"
	"github.com/KafScale/platform/pkg/protocol"
	"github.com/twmb/franz-go/pkg/kmsg"
)

type c16Req struct {
	Topic string  `json:"topic"`
	Parts []int32 `json:"parts"`
}
type c16CPart struct {
	Part int32   `json:"part"`
	Off  int64   `json:"off"`
	Meta *string `json:"meta"` // nil = null metadata in the request
}
type c16CTopic struct {
	Topic string     `json:"topic"`
	Parts []c16CPart `json:"parts"`
}
type c16Step struct {
	Commit bool   `json:"commit"`
	Group  string `json:"group"`
	// one-partition commit (shorthand, metadata always present) ...
	Topic string `json:"topic,omitempty"`
	Part  int32  `json:"part,omitempty"`
	Off   int64  `json:"off,omitempty"`
	Meta  string `json:"meta,omitempty"`
	// ... or a whole OffsetCommit request: topics x partitions, metadata null / "" / text
	Creq []c16CTopic `json:"creq,omitempty"`
	Req  []c16Req    `json:"req,omitempty"`
	// ... or another store operation in between (on a related topic / group)
	Sop *c16Sop `json:"sop,omitempty"`
}

// store operations that may touch committed offsets as a side effect
type c16Sop struct {
	K     string `json:"k"` // ct dt cp dg uc
	Topic string `json:"topic,omitempty"`
	Group string `json:"group,omitempty"`
	N     int32  `json:"n,omitempty"`
}

var c16ErrNames = []string{"ENone", "EInvalidTopic", "ETopicExists", "EUnknownTopic", "EOther"}

func c16Err(err error) int {
	switch {
	case err == nil:
		return 0
	case errors.Is(err, metadata.ErrInvalidTopic):
		return 1
	case errors.Is(err, metadata.ErrTopicExists):
		return 2
	case errors.Is(err, metadata.ErrUnknownTopic):
		return 3
	}
	return 4
}

// c16StoreOp applies the operation to the real store; returns the Coq op, the Coq result
// and whether a DeleteTopic succeeded (the one operation that is meant to remove commits:
// exactly those of the deleted topic)
func c16StoreOp(ctx context.Context, st metadata.Store, o c16Sop) (string, string, bool) {
	switch o.K {
	case "ct":
		t, err := st.CreateTopic(ctx, metadata.TopicSpec{Name: o.Topic, NumPartitions: o.N, ReplicationFactor: 1})
		n := 0
		if err == nil && t != nil {
			n = len(t.Partitions)
		}
		return fmt.Sprintf("OCreateTopic %s %d 1", c16Str(o.Topic), o.N), fmt.Sprintf("RTopic %s %d", c16ErrNames[c16Err(err)], n), false
	case "dt":
		err := st.DeleteTopic(ctx, o.Topic)
		return "ODeleteTopic " + c16Str(o.Topic), "RErr " + c16ErrNames[c16Err(err)], err == nil
	case "cp":
		err := st.CreatePartitions(ctx, o.Topic, o.N)
		return fmt.Sprintf("OCreatePartitions %s %d", c16Str(o.Topic), o.N), "RErr " + c16ErrNames[c16Err(err)], false
	case "dg":
		err := st.DeleteConsumerGroup(ctx, o.Group)
		return "ODeleteGroup " + c16Str(o.Group), "RErr " + c16ErrNames[c16Err(err)], false
	case "uc":
		err := st.UpdateTopicConfig(ctx, &metadatapb.TopicConfig{Name: o.Topic, Partitions: o.N, ReplicationFactor: 1, RetentionMs: 1000, RetentionBytes: -1})
		return fmt.Sprintf("OUpdateCfg (mkCfg %s %d 1 1000 (-1) 0 [])", c16Str(o.Topic), o.N), "RErr " + c16ErrNames[c16Err(err)], false
	}
	panic("store op " + o.K)
}

// the commit request of a step, shorthand expanded
func (s c16Step) commitReq() []c16CTopic {
	if len(s.Creq) > 0 {
		return s.Creq
	}
	m := s.Meta
	return []c16CTopic{{Topic: s.Topic, Parts: []c16CPart{{Part: s.Part, Off: s.Off, Meta: &m}}}}
}

type c16Case struct {
	Etcd  bool      `json:"etcd"`
	Steps []c16Step `json:"steps"`
}
type c16Part struct {
	P    int32
	Off  int64
	Meta string
	Err  int16
}
type c16Obs struct {
	Topic string
	Parts []c16Part
}
type c16Key struct {
	g, t string
	p    int32
}
type c16Val struct {
	off  int64
	meta string
}

type c16Env struct {
	t   *testing.T
	cli *clientv3.Client
	eps []string
}

func (e *c16Env) store(etcd bool) metadata.Store {
	initial := metadata.ClusterMetadata{ControllerID: 1, Brokers: []protocol.MetadataBroker{{NodeID: 1, Host: "h", Port: 9092}}}
	if !etcd {
		return metadata.NewInMemoryStore(initial)
	}
	ctx, cancel := context.WithTimeout(context.Background(), 5*time.Second)
	defer cancel()
	if _, err := e.cli.Delete(ctx, "/kafscale/", clientv3.WithPrefix()); err != nil {
		e.t.Fatalf("etcd wipe: %v", err)
	}
	// built without the snapshot watcher goroutine: histories now create / grow / delete topics,
	// and the watcher's asynchronous refresh is not this property's subject (C21)
	return metadata.VerifEtcdStoreNoWatch(e.cli, initial)
}

// c16Run executes the history; returns the fetch observations (one entry per fetch
// step) and the first oracle failure.
// keys present under /kafscale/consumers/ in the real etcd
func (e *c16Env) consumerKeys() []string {
	ctx, cancel := context.WithTimeout(context.Background(), 5*time.Second)
	defer cancel()
	resp, err := e.cli.Get(ctx, "/kafscale/consumers/", clientv3.WithPrefix(), clientv3.WithKeysOnly())
	if err != nil {
		e.t.Fatalf("etcd scan: %v", err)
	}
	out := []string{}
	for _, kv := range resp.Kvs {
		out = append(out, string(kv.Key))
	}
	return out
}

var c16LastStore [][2]string // per store-op step of the last c16Run: Coq op and Coq result
var c16LastKeys [][]string   // per commit step of the last c16Run on etcd: the real key set afterwards

func c16Run(e *c16Env, cs c16Case) (obs [][]c16Obs, failKind, fail string) {
	c16LastKeys = nil
	ctx := context.Background()
	st := e.store(cs.Etcd)
	c16LastStore = nil
	c := &GroupCoordinator{store: st, broker: protocol.MetadataBroker{NodeID: 1}, config: defaultCoordinatorConfig,
		stopCh: make(chan struct{}), groups: map[string]*groupState{}}
	ref := map[c16Key]c16Val{}
	setFail := func(k, f string) {
		if fail == "" {
			failKind, fail = k, f
		}
	}
	for i, s := range cs.Steps {
		if s.Sop != nil {
			op, res, deleted := c16StoreOp(ctx, st, *s.Sop)
			c16LastStore = append(c16LastStore, [2]string{op, res})
			if deleted { // DeleteTopic removes the commits of exactly that topic
				for k := range ref {
					if k.t == s.Sop.Topic {
						delete(ref, k)
					}
				}
			}
			continue
		}
		if s.Commit {
			// a member of the group at the current generation commits
			c.mu.Lock()
			if c.groups[s.Group] == nil {
				c.groups[s.Group] = &groupState{generationID: 1, state: groupStateStable,
					members: map[string]*memberState{"m": {lastHeartbeat: time.Now(), sessionTimeout: time.Hour}}, assignments: map[string][]assignmentTopic{}}
			}
			c.mu.Unlock()
			creq := s.commitReq()
			req := kmsg.NewPtrOffsetCommitRequest()
			req.Group, req.MemberID, req.Generation = s.Group, "m", 1
			nparts := 0
			for _, ct := range creq {
				rt := kmsg.NewOffsetCommitRequestTopic()
				rt.Topic = ct.Topic
				for _, cp := range ct.Parts {
					rp := kmsg.NewOffsetCommitRequestTopicPartition()
					rp.Partition, rp.Offset = cp.Part, cp.Off
					if cp.Meta != nil {
						m := *cp.Meta
						rp.Metadata = &m
					}
					rt.Partitions = append(rt.Partitions, rp)
					nparts++
				}
				req.Topics = append(req.Topics, rt)
			}
			resp, err := c.OffsetCommit(ctx, req)
			okResp := err == nil && resp != nil && len(resp.Topics) == len(creq)
			if okResp {
				for ti, rt := range resp.Topics {
					if rt.Topic != creq[ti].Topic || len(rt.Partitions) != len(creq[ti].Parts) {
						okResp = false
						break
					}
					for pi, rp := range rt.Partitions {
						if rp.Partition != creq[ti].Parts[pi].Part || rp.ErrorCode != 0 {
							okResp = false
						}
					}
				}
			}
			if !okResp {
				setFail("commit-rejected", fmt.Sprintf("step %d: OffsetCommit(group %q, %d topics, %d partitions) failed or answered another shape: %v %+v", i, s.Group, len(creq), nparts, err, resp))
				if cs.Etcd {
					c16LastKeys = append(c16LastKeys, e.consumerKeys())
				}
				continue
			}
			for _, ct := range creq {
				for _, cp := range ct.Parts {
					m := ""
					if cp.Meta != nil {
						m = *cp.Meta
					}
					ref[c16Key{s.Group, ct.Topic, cp.Part}] = c16Val{cp.Off, m}
				}
			}
			if cs.Etcd {
				c16LastKeys = append(c16LastKeys, e.consumerKeys())
			}
			continue
		}
		req := kmsg.NewPtrOffsetFetchRequest()
		req.Group = s.Group
		for _, r := range s.Req {
			rt := kmsg.NewOffsetFetchRequestTopic()
			rt.Topic = r.Topic
			rt.Partitions = append(rt.Partitions, r.Parts...)
			req.Topics = append(req.Topics, rt)
		}
		resp, err := c.OffsetFetch(ctx, req)
		if err != nil {
			setFail("fetch-error", fmt.Sprintf("step %d: OffsetFetch error %v", i, err))
			obs = append(obs, nil)
			continue
		}
		var o []c16Obs
		if len(resp.Topics) != len(s.Req) {
			setFail("fetch-shape", fmt.Sprintf("step %d: %d topics requested, %d answered", i, len(s.Req), len(resp.Topics)))
		}
		for ti, rt := range resp.Topics {
			to := c16Obs{Topic: rt.Topic}
			for pi, rp := range rt.Partitions {
				m := ""
				if rp.Metadata != nil {
					m = *rp.Metadata
				}
				to.Parts = append(to.Parts, c16Part{rp.Partition, rp.Offset, m, rp.ErrorCode})
				if ti >= len(s.Req) || pi >= len(s.Req[ti].Parts) || rt.Topic != s.Req[ti].Topic || rp.Partition != s.Req[ti].Parts[pi] {
					setFail("fetch-shape", fmt.Sprintf("step %d: answer %d/%d is for (%q,%d), not the requested entry", i, ti, pi, rt.Topic, rp.Partition))
					continue
				}
				want, committed := ref[c16Key{s.Group, rt.Topic, rp.Partition}]
				switch {
				case rp.ErrorCode != 0:
					setFail("fetch-error", fmt.Sprintf("step %d: (%q,%q,%d) error code %d", i, s.Group, rt.Topic, rp.Partition, rp.ErrorCode))
				case !committed && (rp.Offset != -1 || m != ""):
					setFail("never-committed", fmt.Sprintf("step %d: (%q,%q,%d) was never committed but OffsetFetch returned offset %d metadata %q (protocol: -1, \"\")", i, s.Group, rt.Topic, rp.Partition, rp.Offset, m))
				case committed && (rp.Offset != want.off || m != want.meta):
					setFail("readback", fmt.Sprintf("step %d: (%q,%q,%d) last commit was offset %d metadata %q, OffsetFetch returned %d %q", i, s.Group, rt.Topic, rp.Partition, want.off, want.meta, rp.Offset, m))
				}
			}
			o = append(o, to)
		}
		obs = append(obs, o)
	}
	return
}

// Structural class of a shrunk failing history. The recorded open finding is the
// etcd key layout: with a TOPIC name containing '/', two different (group, topic)
// pairs share a key. Only a topic name decides that: a failing history whose topics are
// all '/'-free is a different defect whatever its group ids contain (C16_etcd_partial
// promises isolation for every group id then), and gets its own key.
func c16Classify(cs c16Case, kind string) string {
	if cs.Etcd && (kind == "readback" || kind == "never-committed") {
		for _, s := range cs.Steps {
			if s.Sop != nil && strings.Contains(s.Sop.Topic, "/") {
				return "etcd-topic-name-with-slash"
			}
			if s.Commit {
				for _, ct := range s.commitReq() {
					if strings.Contains(ct.Topic, "/") {
						return "etcd-topic-name-with-slash"
					}
				}
			}
			for _, r := range s.Req {
				if strings.Contains(r.Topic, "/") {
					return "etcd-topic-name-with-slash"
				}
			}
		}
	}
	store := "inmem"
	if cs.Etcd {
		store = "etcd"
	}
	return kind + "-" + store
}

func c16P(s string) *string { return &s }

func c16Str(s string) string {
	if s == "" {
		return "[]"
	}
	for i := 0; i < len(s); i++ {
		if s[i] < 0x20 || s[i] > 0x7e || s[i] == '"' {
			return cqBytes([]byte(s))
		}
	}
	return "(lit \"" + s + "\")"
}

func c16Coq(cs c16Case, obs [][]c16Obs, keys [][]string, sops [][2]string) string {
	var steps []string
	k, kc, ks_ := 0, 0, 0
	for _, s := range cs.Steps {
		if s.Sop != nil {
			if ks_ < len(sops) {
				steps = append(steps, fmt.Sprintf("KStore (%s) (%s)", sops[ks_][0], sops[ks_][1]))
			}
			ks_++
			continue
		}
		if s.Commit {
			ks := "None"
			if cs.Etcd && kc < len(keys) {
				it := make([]string, len(keys[kc]))
				for i, x := range keys[kc] {
					it[i] = c16Str(x)
				}
				ks = "(Some " + cqList(it) + ")"
			}
			kc++
			var ts []string
			for _, ct := range s.commitReq() {
				var ps []string
				for _, cp := range ct.Parts {
					m := "None"
					if cp.Meta != nil {
						m = "(Some " + c16Str(*cp.Meta) + ")"
					}
					ps = append(ps, fmt.Sprintf("(%s, %s, %s)", cqZ(int64(cp.Part)), cqZ(cp.Off), m))
				}
				ts = append(ts, "("+c16Str(ct.Topic)+", "+cqList(ps)+")")
			}
			steps = append(steps, fmt.Sprintf("KCommit %s %s %s", c16Str(s.Group), cqList(ts), ks))
			continue
		}
		var req, ob []string
		for _, r := range s.Req {
			ps := make([]int64, len(r.Parts))
			for i, p := range r.Parts {
				ps[i] = int64(p)
			}
			req = append(req, "("+c16Str(r.Topic)+", "+cqZs(ps)+")")
		}
		for _, o := range obs[k] {
			var ps []string
			for _, p := range o.Parts {
				ps = append(ps, fmt.Sprintf("(%s, %s, %s, %s)", cqZ(int64(p.P)), cqZ(p.Off), c16Str(p.Meta), cqZ(int64(p.Err))))
			}
			ob = append(ob, "("+c16Str(o.Topic)+", "+cqList(ps)+")")
		}
		k++
		steps = append(steps, fmt.Sprintf("KFetch %s %s %s", c16Str(s.Group), cqList(req), cqList(ob)))
	}
	return fmt.Sprintf("mkCase16 %s %s", cqBool(cs.Etcd), cqList(steps))
}

var c16Groups = []string{"g1", "g2", "a", "a:b", "a:b:c", "offsets", "g/1", "a/offsets/b", "", "grüppe", "%41", "a%2Fb", "x:1"}
var c16Topics = []string{"orders", "events", "c", "b:c", "a:b", "offsets", "b/offsets/c", "t/0", "a/b", "", "tøpic", "%", "1", "c:0"}

func c16Gen(r *vRand, etcd bool) c16Case {
	cs := c16Case{Etcd: etcd}
	ng, nt := r.Range(1, 3), r.Range(1, 3)
	var gs, ts []string
	plain := r.Chance(40)
	for i := 0; i < ng; i++ {
		if plain {
			gs = append(gs, c16Groups[r.Intn(2)])
		} else {
			gs = append(gs, c16Groups[r.Intn(len(c16Groups))])
		}
	}
	for i := 0; i < nt; i++ {
		if plain {
			ts = append(ts, c16Topics[r.Intn(2)])
		} else {
			ts = append(ts, c16Topics[r.Intn(len(c16Topics))])
		}
	}
	part := func() int32 {
		if r.Chance(8) {
			return int32(r.Range(-1, 100000))
		}
		return int32(r.Range(0, 2))
	}
	n := r.Range(2, 14)
	for i := 0; i < n; i++ {
		g := gs[r.Intn(len(gs))]
		if r.Chance(55) {
			off := int64(r.Range(0, 40))
			if r.Chance(10) {
				off = int64(r.U64() >> 2)
			}
			if r.Chance(45) {
				cs.Steps = append(cs.Steps, c16Step{Commit: true, Group: g, Topic: ts[r.Intn(len(ts))], Part: part(), Off: off,
					Meta: []string{"", "m1", "mëta", "a:b/c"}[r.Intn(4)]})
				continue
			}
			// a whole request: 1-4 topics x 1-4 partitions, metadata null / "" / text per partition
			st := c16Step{Commit: true, Group: g}
			for a := 0; a < r.Range(1, 4); a++ {
				ct := c16CTopic{Topic: ts[r.Intn(len(ts))]}
				for b := 0; b < r.Range(1, 4); b++ {
					cp := c16CPart{Part: int32(r.Range(0, 3)), Off: int64(r.Range(0, 60))}
					switch r.Intn(3) {
					case 0: // null
					case 1:
						e := ""
						cp.Meta = &e
					default:
						m := fmt.Sprintf("meta-%d-%d-%d", i, a, b)
						cp.Meta = &m
					}
					ct.Parts = append(ct.Parts, cp)
				}
				st.Creq = append(st.Creq, ct)
			}
			cs.Steps = append(cs.Steps, st)
			// read everything of the request back right away
			rd := c16Step{Group: g}
			for _, ct := range st.Creq {
				rq := c16Req{Topic: ct.Topic}
				for _, cp := range ct.Parts {
					rq.Parts = append(rq.Parts, cp.Part)
				}
				rd.Req = append(rd.Req, rq)
			}
			cs.Steps = append(cs.Steps, rd)
			continue
		}
		s := c16Step{Group: g}
		for j := 0; j < r.Range(1, 2); j++ {
			rq := c16Req{Topic: ts[r.Intn(len(ts))]}
			for k := 0; k < r.Range(1, 3); k++ {
				rq.Parts = append(rq.Parts, part())
			}
			s.Req = append(s.Req, rq)
		}
		cs.Steps = append(cs.Steps, s)
	}
	return cs
}

// group-id families: ids that a careless key function could identify (path cleaning,
// trailing / leading / doubled separators, dot segments, case, unicode normalisation,
// surrounding whitespace, percent-encoding), all on the same '/'-free topic and partition,
// with interleaved commits and fetches, some members of the family never committed.
var c16Families = [][]string{
	{"team", "team/", "team//", "team/.", "./team", "a/../team", "/team", "team/..", "x/../team/"},
	{"a/b", "a//b", "a/./b", "a/b/", "a/c/../b", "/a/b"},
	{"Team", "team", "TEAM", " team", "team ", "team\t", "te\u0301am", "t\u00e9am", "te\u0341am"},
	{"g%2F1", "g/1", "g%2f1", "g%252F1", "g\\1"},
	{"..", ".", "", "/", "./", "../", "./."},
}

func c16GenFamily(r *vRand, etcd bool) c16Case {
	cs := c16Case{Etcd: etcd}
	fam := c16Families[r.Intn(len(c16Families))]
	topic := []string{"orders", "events", "a.b"}[r.Intn(3)]
	part := int32(r.Range(0, 1))
	// 2-4 members; at least one of them is never committed
	var ids []string
	for len(ids) < r.Range(2, 4) {
		ids = append(ids, fam[r.Intn(len(fam))])
	}
	silent := r.Intn(len(ids))
	n := r.Range(4, 12)
	for i := 0; i < n; i++ {
		k := r.Intn(len(ids))
		if r.Chance(50) && (k != silent || ids[k] == ids[(silent+1)%len(ids)]) {
			cs.Steps = append(cs.Steps, c16Step{Commit: true, Group: ids[k], Topic: topic, Part: part, Off: int64(10*(k+1) + i), Meta: fmt.Sprintf("m%d", k)})
		} else {
			cs.Steps = append(cs.Steps, c16Step{Group: ids[k], Req: []c16Req{{Topic: topic, Parts: []int32{part, part + 1}}}})
		}
	}
	for _, id := range ids { // read every member back at the end
		cs.Steps = append(cs.Steps, c16Step{Group: id, Req: []c16Req{{Topic: topic, Parts: []int32{part}}}})
	}
	return cs
}

// histories where, between the commits and fetches, the store is operated on through its
// other methods on RELATED topics and groups (prefix, suffix, case, separators): topics are
// created, grown, configured, deleted and re-created, groups deleted; after every such
// operation everything committed is fetched again.
func c16GenInterleaved(r *vRand, etcd bool) c16Case {
	cs := c16Case{Etcd: etcd}
	base := []string{"orders", "a", "t1"}[r.Intn(3)]
	topics := []string{base, base + "-dlq", base + ".v2", base + "_", base + "0", strings.ToUpper(base), base[:len(base)-1] + "x"}
	if len(base) > 1 {
		topics = append(topics, base[:len(base)-1])
	}
	groups := []string{"g1", "g1-b", "g", "G1", "g1.", base}
	nt := r.Range(2, 4)
	live := topics[:1]
	for _, i := range []int{1 + r.Intn(len(topics)-1), 1 + r.Intn(len(topics)-1), 1 + r.Intn(len(topics)-1)}[:nt-1] {
		live = append(live, topics[i])
	}
	for _, t := range live {
		cs.Steps = append(cs.Steps, c16Step{Sop: &c16Sop{K: "ct", Topic: t, N: int32(r.Range(1, 3))}})
	}
	type key struct {
		g, t string
		p    int32
	}
	var committed []key
	fetchAll := func() {
		byGroup := map[string]map[string][]int32{}
		var order []string
		for _, k := range committed {
			if byGroup[k.g] == nil {
				byGroup[k.g] = map[string][]int32{}
				order = append(order, k.g)
			}
			byGroup[k.g][k.t] = append(byGroup[k.g][k.t], k.p)
		}
		for _, g := range order {
			st := c16Step{Group: g}
			for _, t := range live {
				if ps := byGroup[g][t]; len(ps) > 0 {
					st.Req = append(st.Req, c16Req{Topic: t, Parts: ps})
				}
			}
			cs.Steps = append(cs.Steps, st)
		}
	}
	for i := 0; i < r.Range(3, 7); i++ {
		k := key{groups[r.Intn(3)], live[r.Intn(len(live))], int32(r.Range(0, 2))}
		dup := false
		for _, c := range committed {
			dup = dup || c == k
		}
		if !dup {
			committed = append(committed, k)
		}
		cs.Steps = append(cs.Steps, c16Step{Commit: true, Group: k.g, Topic: k.t, Part: k.p, Off: int64(10 + i), Meta: fmt.Sprintf("m%d", i)})
	}
	fetchAll()
	for i := 0; i < r.Range(2, 5); i++ {
		t := live[r.Intn(len(live))]
		if r.Chance(30) {
			t = topics[r.Intn(len(topics))]
		}
		var so c16Sop
		switch r.Intn(8) {
		case 0, 1, 2:
			so = c16Sop{K: "dt", Topic: t}
		case 3:
			so = c16Sop{K: "ct", Topic: t, N: int32(r.Range(1, 3))}
		case 4:
			so = c16Sop{K: "cp", Topic: t, N: int32(r.Range(2, 6))}
		case 5:
			so = c16Sop{K: "uc", Topic: t, N: int32(r.Range(0, 3))}
		default:
			so = c16Sop{K: "dg", Group: groups[r.Intn(len(groups))]}
		}
		cs.Steps = append(cs.Steps, c16Step{Sop: &so})
		fetchAll()
	}
	return cs
}

func TestVerifC16(t *testing.T) {
	rep := vNewReport("C16", "generated histories of 2-14 OffsetCommit / OffsetFetch requests through the real GroupCoordinator (more than half of the commits are whole requests of 1-4 topics x 1-4 partitions with per-partition metadata null / empty / text, read back at once) over 1-3 groups x 1-3 topics x partitions, names drawn from an alphabet with ':', '/', '%', unicode and the empty string (40% plain), each history on the real InMemoryStore and on the real EtcdStore; every third history interleaves the other store operations (CreateTopic, DeleteTopic and re-create, CreatePartitions, UpdateTopicConfig, DeleteConsumerGroup) on topics and groups with names related to the committed ones (prefix, suffix, case, separators) and fetches everything committed after each; every third history is a group-id family (ids related by path cleaning, trailing/leading/double separators, dot segments, case, unicode normalisation, whitespace, percent-encoding; one slash-free topic and partition; interleaved commits and fetches, a member never committed); on etcd the real key set under /kafscale/consumers/ is read after every commit; a case is non-trivial when a fetch reads back a committed offset and another fetch reads a never-committed partition; distinct = distinct canonical history")
	eps := testutil.StartEmbeddedEtcd(t)
	cli, err := clientv3.New(clientv3.Config{Endpoints: eps, DialTimeout: 5 * time.Second})
	if err != nil {
		t.Fatalf("etcd client: %v", err)
	}
	defer cli.Close()
	e := &c16Env{t: t, cli: cli, eps: eps}
	var coq, jsons []string
	runOne := func(cs c16Case) {
		obs, kind, fail := c16Run(e, cs)
		keys, sops := c16LastKeys, c16LastStore
		canon, _ := json.Marshal(cs)
		hit, miss := false, false
		for _, os_ := range obs {
			for _, o := range os_ {
				for _, p := range o.Parts {
					if p.Off == -1 {
						miss = true
					} else {
						hit = true
					}
				}
			}
		}
		rep.Count(string(canon), hit && miss)
		if cs.Etcd {
			rep.Hist("store:etcd")
		} else {
			rep.Hist("store:inmem")
		}
		rep.Hist(fmt.Sprintf("steps<=%d", ((len(cs.Steps)+3)/4)*4))
		rep.Sample(cs)
		if fail != "" {
			shr := cs
			shr.Steps = vShrink(cs.Steps, func(steps []c16Step) bool {
				_, k, f := c16Run(e, c16Case{Etcd: cs.Etcd, Steps: steps})
				return f != "" && k == kind
			})
			_, k2, f2 := c16Run(e, shr)
			if f2 == "" {
				shr, k2, f2 = cs, kind, fail
			}
			rep.Fail(k2, c16Classify(shr, k2), f2, shr)
		}
		coq = append(coq, c16Coq(cs, obs, keys, sops))
		jsons = append(jsons, string(canon))
	}
	if rc := vReplayCase(); rc != nil {
		var cs c16Case
		if err := json.Unmarshal(rc, &cs); err != nil {
			t.Fatalf("bad replay: %v", err)
		}
		runOne(cs)
	} else {
		for _, etcd := range []bool{false, true} {
			corpus := []c16Case{
				// never committed -> -1 (was 0)
				{Etcd: etcd, Steps: []c16Step{{Group: "g1", Req: []c16Req{{Topic: "orders", Parts: []int32{0, 1}}}}}},
				// committed at offset 0 is not "missing"
				{Etcd: etcd, Steps: []c16Step{{Commit: true, Group: "g1", Topic: "orders", Off: 0}, {Group: "g1", Req: []c16Req{{Topic: "orders", Parts: []int32{0, 1}}}}}},
				// "%s:%s:%d" collision of the old in-memory key
				{Etcd: etcd, Steps: []c16Step{{Commit: true, Group: "a:b", Topic: "c", Off: 7, Meta: "x"}, {Group: "a", Req: []c16Req{{Topic: "b:c", Parts: []int32{0}}}}, {Group: "a:b", Req: []c16Req{{Topic: "c", Parts: []int32{0}}}}}},
				// etcd path collision (open finding on etcd)
				{Etcd: etcd, Steps: []c16Step{{Commit: true, Group: "a/offsets/b", Topic: "c", Off: 7, Meta: "x"}, {Group: "a", Req: []c16Req{{Topic: "b/offsets/c", Parts: []int32{0}}}}}},
				// a topic whose name is a prefix of a committed topic's name is deleted
				{Etcd: etcd, Steps: []c16Step{{Sop: &c16Sop{K: "ct", Topic: "orders", N: 1}}, {Sop: &c16Sop{K: "ct", Topic: "orders-dlq", N: 1}}, {Sop: &c16Sop{K: "ct", Topic: "orders.v2", N: 2}},
					{Commit: true, Group: "g1", Topic: "orders", Off: 4, Meta: "a"}, {Commit: true, Group: "g1", Topic: "orders-dlq", Off: 5, Meta: "b"}, {Commit: true, Group: "g1", Topic: "orders.v2", Part: 1, Off: 6, Meta: "c"}, {Commit: true, Group: "g1-b", Topic: "orders-dlq", Off: 7, Meta: "d"},
					{Sop: &c16Sop{K: "dt", Topic: "orders"}},
					{Group: "g1", Req: []c16Req{{Topic: "orders", Parts: []int32{0}}, {Topic: "orders-dlq", Parts: []int32{0}}, {Topic: "orders.v2", Parts: []int32{1}}}}, {Group: "g1-b", Req: []c16Req{{Topic: "orders-dlq", Parts: []int32{0}}}},
					{Sop: &c16Sop{K: "dg", Group: "g1"}}, {Sop: &c16Sop{K: "cp", Topic: "orders-dlq", N: 3}}, {Sop: &c16Sop{K: "uc", Topic: "orders.v2", N: 0}},
					{Group: "g1", Req: []c16Req{{Topic: "orders-dlq", Parts: []int32{0}}, {Topic: "orders.v2", Parts: []int32{1}}}}}},
				// one request, several partitions: text metadata, then null, then "" - each partition its own
				{Etcd: etcd, Steps: []c16Step{{Commit: true, Group: "g1", Creq: []c16CTopic{{Topic: "orders", Parts: []c16CPart{{Part: 0, Off: 5, Meta: c16P("checkpoint-a")}, {Part: 1, Off: 6}, {Part: 2, Off: 7, Meta: c16P("")}}}, {Topic: "events", Parts: []c16CPart{{Part: 0, Off: 8}, {Part: 1, Off: 9, Meta: c16P("b")}}}}},
					{Group: "g1", Req: []c16Req{{Topic: "orders", Parts: []int32{0, 1, 2, 3}}, {Topic: "events", Parts: []int32{0, 1}}}}}},
				// group ids related by path cleaning, slash-free topic: must stay apart on every store
				{Etcd: etcd, Steps: []c16Step{{Commit: true, Group: "team", Topic: "orders", Off: 11, Meta: "a"}, {Commit: true, Group: "team/", Topic: "orders", Off: 22, Meta: "b"}, {Commit: true, Group: "a/../team", Topic: "orders", Off: 33, Meta: "c"},
					{Group: "team", Req: []c16Req{{Topic: "orders", Parts: []int32{0}}}}, {Group: "team/", Req: []c16Req{{Topic: "orders", Parts: []int32{0}}}}, {Group: "team/.", Req: []c16Req{{Topic: "orders", Parts: []int32{0}}}}, {Group: "./team", Req: []c16Req{{Topic: "orders", Parts: []int32{0}}}}}},
				// groups with '/' but slash-free topics stay apart on etcd too
				{Etcd: etcd, Steps: []c16Step{{Commit: true, Group: "g/1", Topic: "orders", Off: 5}, {Commit: true, Group: "g", Topic: "orders", Part: 1, Off: 6}, {Group: "g/1", Req: []c16Req{{Topic: "orders", Parts: []int32{0, 1}}}}, {Group: "g", Req: []c16Req{{Topic: "orders", Parts: []int32{0, 1}}}}}},
			}
			for _, cs := range corpus {
				runOne(cs)
			}
		}
		r := vNewRand(vSeed())
		n := vN(120, 1600)
		for i := 0; i < n; i++ {
			if i%3 == 1 {
				rep.Hist("gen:store-ops-on-related-names")
				runOne(c16GenInterleaved(r.Fork(), i%2 == 1))
				continue
			}
			if i%3 == 2 {
				rep.Hist("gen:group-id-family")
				runOne(c16GenFamily(r.Fork(), i%2 == 1))
				continue
			}
			runOne(c16Gen(r.Fork(), i%2 == 1))
		}
	}
	rep.Cases("C16", "From Coq Require Import String.\nFrom KS Require Import lib.Base lib.Strings lib.Paths model.MetaStore corr.MetaStoreCorr.\nOpen Scope string_scope.", "case16", "check_case16", coq, jsons)
	rep.Write()
	if len(rep.Failures) > 0 {
		t.Logf("oracle failures: %s", strings.TrimSpace(rep.Failures[0].What))
	}
}
