package metadata

// Shared by the C17 / C22 harnesses that are overlaid into pkg/metadata: the op
// language of model/MetaStore.v, a runner that applies an op to a real Store and
// projects the answer to the model's observables, generators and Coq emitters.

import (
	"context"
	"encoding/json"
	"errors"
	"fmt"
	"reflect"
	"sort"
	"strings"
	"testing"
	"time"

	clientv3 "go.etcd.io/etcd/client/v3"

	"github.com/KafScale/platform/internal/testutil"
	metadatapb "github.com/KafScale/platform/pkg/gen/metadata"
	"github.com/KafScale/platform/pkg/protocol"
)

type msAssign struct {
	Topic string  `json:"topic"`
	Parts []int32 `json:"parts"`
}
type msMember struct {
	ID      string     `json:"id"`
	Client  string     `json:"client"`
	Host    string     `json:"host"`
	HB      string     `json:"hb"`
	Assign  []msAssign `json:"assign"`
	Subs    []string   `json:"subs"`
	Session int32      `json:"session"`
}
type msGroup struct {
	ID        string     `json:"id"`
	State     string     `json:"state"`
	PType     string     `json:"ptype"`
	Proto     string     `json:"proto"`
	Leader    string     `json:"leader"`
	Gen       int32      `json:"gen"`
	Rebalance int32      `json:"rebalance"`
	Members   []msMember `json:"members"`
}
type msCfg struct {
	Name     string      `json:"name"`
	Parts    int32       `json:"parts"`
	RF       int32       `json:"rf"`
	RetMs    int64       `json:"ret_ms"`
	RetBytes int64       `json:"ret_bytes"`
	SegBytes int64       `json:"seg_bytes"`
	Config   [][2]string `json:"config"`
}

// op kinds: ct CreateTopic, dt DeleteTopic, cp CreatePartitions, uo UpdateOffsets, no NextOffset,
// co CommitConsumerOffset, fo FetchConsumerOffset, lo LookupConsumerOffset, ls ListConsumerOffsets,
// pg PutConsumerGroup, fg FetchConsumerGroup, lg ListConsumerGroups, dg DeleteConsumerGroup,
// fc FetchTopicConfig, uc UpdateTopicConfig, md Metadata
type msOp struct {
	K     string   `json:"k"`
	Topic string   `json:"topic,omitempty"`
	Group string   `json:"group,omitempty"`
	Part  int32    `json:"part,omitempty"`
	N     int64    `json:"n,omitempty"`
	RF    int16    `json:"rf,omitempty"`
	Meta  string   `json:"meta,omitempty"`
	Names []string `json:"names,omitempty"`
	G     *msGroup `json:"g,omitempty"`
	C     *msCfg   `json:"c,omitempty"`
}

type msCoff struct {
	G, T string
	P    int32
	Off  int64
}
type msMeta struct {
	Name  string
	Code  int16
	Parts int
}
type msRes struct {
	Kind   string // err topic offset fetched looked coffs group groups cfg meta
	Err    int
	N      int64
	Meta   string
	Found  bool
	Coffs  []msCoff
	Group  *msGroup
	Groups []msGroup
	Cfg    *msCfg
	Metas  []msMeta
}

func msErr(err error) int {
	switch {
	case err == nil:
		return 0
	case errors.Is(err, ErrInvalidTopic):
		return 1
	case errors.Is(err, ErrTopicExists):
		return 2
	case errors.Is(err, ErrUnknownTopic):
		return 3
	}
	return 4
}

func msGroupToPB(g *msGroup) *metadatapb.ConsumerGroup {
	if g == nil {
		return nil
	}
	out := &metadatapb.ConsumerGroup{GroupId: g.ID, State: g.State, ProtocolType: g.PType, Protocol: g.Proto,
		Leader: g.Leader, GenerationId: g.Gen, RebalanceTimeoutMs: g.Rebalance, Members: map[string]*metadatapb.GroupMember{}}
	for _, m := range g.Members {
		pm := &metadatapb.GroupMember{ClientId: m.Client, ClientHost: m.Host, HeartbeatAt: m.HB,
			Subscriptions: append([]string(nil), m.Subs...), SessionTimeoutMs: m.Session}
		for _, a := range m.Assign {
			pm.Assignments = append(pm.Assignments, &metadatapb.Assignment{Topic: a.Topic, Partitions: append([]int32(nil), a.Parts...)})
		}
		out.Members[m.ID] = pm
	}
	return out
}

func msGroupFromPB(g *metadatapb.ConsumerGroup) *msGroup {
	if g == nil {
		return nil
	}
	out := &msGroup{ID: g.GroupId, State: g.State, PType: g.ProtocolType, Proto: g.Protocol, Leader: g.Leader,
		Gen: g.GenerationId, Rebalance: g.RebalanceTimeoutMs, Members: []msMember{}}
	for id, m := range g.Members {
		mm := msMember{ID: id, Assign: []msAssign{}, Subs: []string{}}
		if m != nil {
			mm.Client, mm.Host, mm.HB, mm.Session = m.ClientId, m.ClientHost, m.HeartbeatAt, m.SessionTimeoutMs
			mm.Subs = append(mm.Subs, m.Subscriptions...)
			for _, a := range m.Assignments {
				mm.Assign = append(mm.Assign, msAssign{Topic: a.Topic, Parts: append([]int32{}, a.Partitions...)})
			}
		}
		out.Members = append(out.Members, mm)
	}
	sort.Slice(out.Members, func(i, j int) bool { return out.Members[i].ID < out.Members[j].ID })
	return out
}

func msCfgToPB(c *msCfg) *metadatapb.TopicConfig {
	if c == nil {
		return nil
	}
	out := &metadatapb.TopicConfig{Name: c.Name, Partitions: c.Parts, ReplicationFactor: c.RF, RetentionMs: c.RetMs,
		RetentionBytes: c.RetBytes, SegmentBytes: c.SegBytes, Config: map[string]string{}}
	for _, kv := range c.Config {
		out.Config[kv[0]] = kv[1]
	}
	return out
}

func msCfgFromPB(c *metadatapb.TopicConfig) *msCfg {
	if c == nil {
		return nil
	}
	out := &msCfg{Name: c.Name, Parts: c.Partitions, RF: c.ReplicationFactor, RetMs: c.RetentionMs,
		RetBytes: c.RetentionBytes, SegBytes: c.SegmentBytes, Config: [][2]string{}}
	for k, v := range c.Config {
		out.Config = append(out.Config, [2]string{k, v})
	}
	sort.Slice(out.Config, func(i, j int) bool { return out.Config[i][0] < out.Config[j][0] })
	return out
}

// msApply runs one op on a real store and projects the answer.
func msApply(ctx context.Context, st Store, op msOp) msRes {
	switch op.K {
	case "ct":
		t, err := st.CreateTopic(ctx, TopicSpec{Name: op.Topic, NumPartitions: int32(op.N), ReplicationFactor: op.RF})
		r := msRes{Kind: "topic", Err: msErr(err)}
		if err == nil && t != nil {
			r.N = int64(len(t.Partitions))
		}
		return r
	case "dt":
		return msRes{Kind: "err", Err: msErr(st.DeleteTopic(ctx, op.Topic))}
	case "cp":
		return msRes{Kind: "err", Err: msErr(st.CreatePartitions(ctx, op.Topic, int32(op.N)))}
	case "uo":
		return msRes{Kind: "err", Err: msErr(st.UpdateOffsets(ctx, op.Topic, op.Part, op.N))}
	case "no":
		v, err := st.NextOffset(ctx, op.Topic, op.Part)
		return msRes{Kind: "offset", Err: msErr(err), N: v}
	case "co":
		return msRes{Kind: "err", Err: msErr(st.CommitConsumerOffset(ctx, op.Group, op.Topic, op.Part, op.N, op.Meta))}
	case "fo":
		v, m, err := st.FetchConsumerOffset(ctx, op.Group, op.Topic, op.Part)
		if err != nil {
			return msRes{Kind: "err", Err: 4}
		}
		return msRes{Kind: "fetched", N: v, Meta: m}
	case "lo":
		lk, ok := st.(interface {
			LookupConsumerOffset(ctx context.Context, group, topic string, partition int32) (int64, string, bool, error)
		})
		if !ok { // unpatched tree: the method does not exist; report what Fetch says, found unknown
			v, m, _ := st.FetchConsumerOffset(ctx, op.Group, op.Topic, op.Part)
			return msRes{Kind: "looked", N: v, Meta: m, Found: v != 0 || m != ""}
		}
		v, m, f, err := lk.LookupConsumerOffset(ctx, op.Group, op.Topic, op.Part)
		if err != nil {
			return msRes{Kind: "err", Err: 4}
		}
		return msRes{Kind: "looked", N: v, Meta: m, Found: f}
	case "ls":
		l, err := st.ListConsumerOffsets(ctx)
		if err != nil {
			return msRes{Kind: "err", Err: 4}
		}
		r := msRes{Kind: "coffs", Coffs: []msCoff{}}
		for _, e := range l {
			r.Coffs = append(r.Coffs, msCoff{e.Group, e.Topic, e.Partition, e.Offset})
		}
		sort.Slice(r.Coffs, func(i, j int) bool {
			a, b := r.Coffs[i], r.Coffs[j]
			if a.G != b.G {
				return a.G < b.G
			}
			if a.T != b.T {
				return a.T < b.T
			}
			return a.P < b.P
		})
		return r
	case "pg":
		return msRes{Kind: "err", Err: msErr(st.PutConsumerGroup(ctx, msGroupToPB(op.G)))}
	case "fg":
		g, err := st.FetchConsumerGroup(ctx, op.Group)
		if err != nil {
			return msRes{Kind: "err", Err: 4}
		}
		return msRes{Kind: "group", Group: msGroupFromPB(g)}
	case "lg":
		l, err := st.ListConsumerGroups(ctx)
		if err != nil {
			return msRes{Kind: "err", Err: 4}
		}
		r := msRes{Kind: "groups", Groups: []msGroup{}}
		for _, g := range l {
			r.Groups = append(r.Groups, *msGroupFromPB(g))
		}
		sort.Slice(r.Groups, func(i, j int) bool { return r.Groups[i].ID < r.Groups[j].ID })
		return r
	case "dg":
		return msRes{Kind: "err", Err: msErr(st.DeleteConsumerGroup(ctx, op.Group))}
	case "fc":
		c, err := st.FetchTopicConfig(ctx, op.Topic)
		r := msRes{Kind: "cfg", Err: msErr(err)}
		if err == nil {
			r.Cfg = msCfgFromPB(c)
		}
		return r
	case "uc":
		return msRes{Kind: "err", Err: msErr(st.UpdateTopicConfig(ctx, msCfgToPB(op.C)))}
	case "md":
		m, err := st.Metadata(ctx, op.Names)
		if err != nil {
			return msRes{Kind: "err", Err: 4}
		}
		r := msRes{Kind: "meta", Metas: []msMeta{}}
		for _, t := range m.Topics {
			r.Metas = append(r.Metas, msMeta{*t.Topic, t.ErrorCode, len(t.Partitions)})
		}
		return r
	}
	panic("unknown op kind " + op.K)
}

// ---------- real stores ----------
func msInitial(brokers int) ClusterMetadata {
	st := ClusterMetadata{ControllerID: 1}
	for i := 0; i < brokers; i++ {
		st.Brokers = append(st.Brokers, protocol.MetadataBroker{NodeID: int32(i + 1), Host: "h", Port: 9092})
	}
	return st
}

type msEtcd struct {
	cli *clientv3.Client
}

// one embedded etcd per test run
func msStartEtcd(t *testing.T) *msEtcd {
	endpoints := testutil.StartEmbeddedEtcd(t)
	cli, err := clientv3.New(clientv3.Config{Endpoints: endpoints, DialTimeout: 5 * time.Second})
	if err != nil {
		t.Fatalf("etcd client: %v", err)
	}
	t.Cleanup(func() { _ = cli.Close() })
	return &msEtcd{cli: cli}
}

// fresh EtcdStore over an emptied keyspace, built in-package without the snapshot
// watcher goroutine (its refresh is asynchronous; C21 covers it)
func (e *msEtcd) fresh(t *testing.T, brokers int) *EtcdStore {
	ctx, cancel := context.WithTimeout(context.Background(), 5*time.Second)
	defer cancel()
	if _, err := e.cli.Delete(ctx, "/kafscale/", clientv3.WithPrefix()); err != nil {
		t.Fatalf("etcd wipe: %v", err)
	}
	return &EtcdStore{client: e.cli, metadata: NewInMemoryStore(msInitial(brokers)), available: 1}
}

// ---------- Coq emitters ----------
// msStr renders a byte string: printable ASCII as a Coq string literal under [lit]
// (much cheaper for coqc to read than a list of numerals), anything else as a list.
func msStr(s string) string {
	if s == "" {
		return "[]"
	}
	for i := 0; i < len(s); i++ {
		if s[i] < 0x20 || s[i] > 0x7e || s[i] == '"' {
			return cqBytes([]byte(s))
		}
	}
	return "(lit \"" + s + "\")"
}

const msRequires = "From Coq Require Import String.\nFrom KS Require Import lib.Base lib.Strings lib.Paths model.MetaStore corr.MetaStoreCorr.\nOpen Scope string_scope."

func cqStrs(l []string) string {
	it := make([]string, len(l))
	for i, s := range l {
		it[i] = msStr(s)
	}
	return cqList(it)
}
func cqI32s(l []int32) string {
	it := make([]string, len(l))
	for i, v := range l {
		it[i] = cqZ(int64(v))
	}
	return cqList(it)
}
func msCoqGroup(g *msGroup) string {
	ms := make([]string, len(g.Members))
	for i, m := range g.Members {
		as := make([]string, len(m.Assign))
		for j, a := range m.Assign {
			as[j] = "(" + msStr(a.Topic) + ", " + cqI32s(a.Parts) + ")"
		}
		ms[i] = fmt.Sprintf("(%s, mkMember %s %s %s %s %s %s)", msStr(m.ID), msStr(m.Client), msStr(m.Host), msStr(m.HB), cqList(as), cqStrs(m.Subs), cqZ(int64(m.Session)))
	}
	return fmt.Sprintf("(mkGroup %s %s %s %s %s %s %s %s)", msStr(g.ID), msStr(g.State), msStr(g.PType), msStr(g.Proto), msStr(g.Leader), cqZ(int64(g.Gen)), cqZ(int64(g.Rebalance)), cqList(ms))
}
func msCoqCfg(c *msCfg) string {
	kv := make([]string, len(c.Config))
	for i, e := range c.Config {
		kv[i] = "(" + msStr(e[0]) + ", " + msStr(e[1]) + ")"
	}
	return fmt.Sprintf("(mkCfg %s %s %s %s %s %s %s)", msStr(c.Name), cqZ(int64(c.Parts)), cqZ(int64(c.RF)), cqZ(c.RetMs), cqZ(c.RetBytes), cqZ(c.SegBytes), cqList(kv))
}
func msCoqOp(op msOp) string {
	switch op.K {
	case "ct":
		return fmt.Sprintf("OCreateTopic %s %s %s", msStr(op.Topic), cqZ(op.N), cqZ(int64(op.RF)))
	case "dt":
		return "ODeleteTopic " + msStr(op.Topic)
	case "cp":
		return fmt.Sprintf("OCreatePartitions %s %s", msStr(op.Topic), cqZ(op.N))
	case "uo":
		return fmt.Sprintf("OUpdateOffsets %s %s %s", msStr(op.Topic), cqZ(int64(op.Part)), cqZ(op.N))
	case "no":
		return fmt.Sprintf("ONextOffset %s %s", msStr(op.Topic), cqZ(int64(op.Part)))
	case "co":
		return fmt.Sprintf("OCommit %s %s %s %s %s", msStr(op.Group), msStr(op.Topic), cqZ(int64(op.Part)), cqZ(op.N), msStr(op.Meta))
	case "fo":
		return fmt.Sprintf("OFetchOffset %s %s %s", msStr(op.Group), msStr(op.Topic), cqZ(int64(op.Part)))
	case "lo":
		return fmt.Sprintf("OLookupOffset %s %s %s", msStr(op.Group), msStr(op.Topic), cqZ(int64(op.Part)))
	case "ls":
		return "OListOffsets"
	case "pg":
		return "OPutGroup " + msCoqGroup(op.G)
	case "fg":
		return "OFetchGroup " + msStr(op.Group)
	case "lg":
		return "OListGroups"
	case "dg":
		return "ODeleteGroup " + msStr(op.Group)
	case "fc":
		return "OFetchCfg " + msStr(op.Topic)
	case "uc":
		return "OUpdateCfg " + msCoqCfg(op.C)
	case "md":
		return "OMetadata " + cqStrs(op.Names)
	}
	panic("op kind")
}

var msErrNames = []string{"ENone", "EInvalidTopic", "ETopicExists", "EUnknownTopic", "EOther"}

func msCoqRes(r msRes) string {
	switch r.Kind {
	case "err":
		return "RErr " + msErrNames[r.Err]
	case "topic":
		return fmt.Sprintf("RTopic %s %s", msErrNames[r.Err], cqZ(r.N))
	case "offset":
		return fmt.Sprintf("ROffset %s %s", msErrNames[r.Err], cqZ(r.N))
	case "fetched":
		return fmt.Sprintf("RFetched %s %s", cqZ(r.N), msStr(r.Meta))
	case "looked":
		return fmt.Sprintf("RLooked %s %s %s", cqZ(r.N), msStr(r.Meta), cqBool(r.Found))
	case "coffs":
		it := make([]string, len(r.Coffs))
		for i, c := range r.Coffs {
			it[i] = fmt.Sprintf("((%s, %s, %s), %s)", msStr(c.G), msStr(c.T), cqZ(int64(c.P)), cqZ(c.Off))
		}
		return "RCoffs " + cqList(it)
	case "group":
		if r.Group == nil {
			return "RGroup None"
		}
		return "RGroup (Some " + msCoqGroup(r.Group) + ")"
	case "groups":
		it := make([]string, len(r.Groups))
		for i := range r.Groups {
			it[i] = msCoqGroup(&r.Groups[i])
		}
		return "RGroups " + cqList(it)
	case "cfg":
		if r.Cfg == nil {
			return fmt.Sprintf("RCfg %s None", msErrNames[r.Err])
		}
		return fmt.Sprintf("RCfg %s (Some %s)", msErrNames[r.Err], msCoqCfg(r.Cfg))
	case "meta":
		it := make([]string, len(r.Metas))
		for i, m := range r.Metas {
			it[i] = fmt.Sprintf("(%s, %s, %s)", msStr(m.Name), cqZ(int64(m.Code)), cqZ(int64(m.Parts)))
		}
		return "RMeta " + cqList(it)
	}
	panic("res kind " + r.Kind)
}
func msCoqOps(ops []msOp) string {
	it := make([]string, len(ops))
	for i, o := range ops {
		it[i] = msCoqOp(o)
	}
	return cqList(it)
}
func msCoqResList(rs []msRes) string {
	it := make([]string, len(rs))
	for i, r := range rs {
		it[i] = msCoqRes(r)
	}
	return cqList(it)
}

// ---------- generators ----------
var msGoodTopics = []string{"orders", "events", "a", "b", "a.b", "offsets", "metadata", "config", "partitions", "T_1-x", "0"}
var msWeirdTopics = []string{"a/b", "a:b", "b:c", "a/../b", ".", "..", "", "a%2Fb", "ünï", "日本", "a b", "x/offsets/y", "a/0", "orders/", "/", "a/partitions/0", strings.Repeat("n", 250)}
var msGoodGroups = []string{"g1", "g2", "a", "offsets", "metadata", "a:b", "ü-grp", "g 1", "%", "a:1"}
var msWeirdGroups = []string{"g/1", "a/offsets/b", "", "/", "a/metadata", "g1/offsets/orders"}

type msNames struct {
	topics, groups []string
	weird          bool
}

func msPickNames(r *vRand, weirdPct int) msNames {
	n := msNames{}
	nt, ng := r.Range(1, 4), r.Range(1, 3)
	for i := 0; i < nt; i++ {
		n.topics = append(n.topics, msGoodTopics[r.Intn(len(msGoodTopics))])
	}
	for i := 0; i < ng; i++ {
		n.groups = append(n.groups, msGoodGroups[r.Intn(len(msGoodGroups))])
	}
	if r.Chance(weirdPct) {
		n.weird = true
		k := r.Range(1, 2)
		for i := 0; i < k; i++ {
			if r.Bool() {
				n.topics = append(n.topics, msWeirdTopics[r.Intn(len(msWeirdTopics))])
			} else {
				n.groups = append(n.groups, msWeirdGroups[r.Intn(len(msWeirdGroups))])
			}
		}
	}
	return n
}

func msGenGroup(r *vRand, n msNames, id string) *msGroup {
	g := &msGroup{ID: id, State: []string{"stable", "empty", "preparing_rebalance", ""}[r.Intn(4)], PType: "consumer",
		Proto: []string{"range", "roundrobin", ""}[r.Intn(3)], Gen: int32(r.Range(0, 9)), Rebalance: int32(r.Range(0, 3) * 15000), Members: []msMember{}}
	nm := r.Range(0, 3)
	for i := 0; i < nm; i++ {
		m := msMember{ID: fmt.Sprintf("m%d", i), Client: fmt.Sprintf("c%d", r.Intn(3)), Host: "/10.0.0.1", HB: "2026-01-01T00:00:00Z",
			Session: int32(r.Range(0, 3) * 10000), Assign: []msAssign{}, Subs: []string{}}
		for _, t := range n.topics {
			if r.Chance(50) {
				m.Subs = append(m.Subs, t)
				if r.Chance(60) {
					a := msAssign{Topic: t, Parts: []int32{}}
					for p := 0; p < r.Range(0, 3); p++ {
						a.Parts = append(a.Parts, int32(p))
					}
					m.Assign = append(m.Assign, a)
				}
			}
		}
		g.Members = append(g.Members, m)
	}
	if nm > 0 {
		g.Leader = g.Members[r.Intn(nm)].ID
	}
	return g
}

func msGenOp(r *vRand, n msNames) msOp {
	t := n.topics[r.Intn(len(n.topics))]
	g := n.groups[r.Intn(len(n.groups))]
	p := int32(r.Range(0, 3))
	if r.Chance(5) {
		p = int32(r.Range(-1, 40))
	}
	switch r.Intn(24) {
	case 0, 1, 2:
		return msOp{K: "ct", Topic: t, N: int64(r.Range(-1, 4)), RF: int16(r.Range(-1, 3))}
	case 3:
		return msOp{K: "dt", Topic: t}
	case 4, 5:
		return msOp{K: "cp", Topic: t, N: int64(r.Range(-1, 6))}
	case 6, 7:
		return msOp{K: "uo", Topic: t, Part: p, N: int64(r.Range(-1, 50))}
	case 8, 9:
		return msOp{K: "no", Topic: t, Part: p}
	case 10, 11, 12:
		return msOp{K: "co", Group: g, Topic: t, Part: p, N: int64(r.Range(0, 99)), Meta: []string{"", "m", "ü", "a:b/c"}[r.Intn(4)]}
	case 13:
		return msOp{K: "fo", Group: g, Topic: t, Part: p}
	case 14:
		return msOp{K: "lo", Group: g, Topic: t, Part: p}
	case 15:
		return msOp{K: "ls"}
	case 16, 17:
		return msOp{K: "pg", G: msGenGroup(r, n, g)}
	case 18:
		return msOp{K: "fg", Group: g}
	case 19:
		return msOp{K: "lg"}
	case 20:
		if r.Chance(40) {
			return msOp{K: "dg", Group: g}
		}
		return msOp{K: "fc", Topic: t}
	case 21:
		return msOp{K: "fc", Topic: t}
	case 22:
		c := &msCfg{Name: t, Parts: int32(r.Range(0, 2) * r.Range(0, 5)), RF: int32(r.Range(0, 3)), RetMs: int64(r.Range(-1, 3) * 1000),
			RetBytes: int64(r.Range(-1, 2)), SegBytes: int64(r.Range(0, 2) * 1024), Config: [][2]string{}}
		if r.Bool() {
			c.Config = append(c.Config, [2]string{"cleanup.policy", "delete"})
		}
		return msOp{K: "uc", C: c}
	default:
		var names []string
		for i := 0; i < r.Range(0, 3); i++ {
			names = append(names, n.topics[r.Intn(len(n.topics))])
		}
		return msOp{K: "md", Names: names}
	}
}

// names used by a case (for the finding classifier)
func msOpNames(op msOp) (topics, groups []string) {
	switch op.K {
	case "ct", "dt", "cp", "uo", "no", "fc":
		topics = append(topics, op.Topic)
	case "co", "fo", "lo":
		topics = append(topics, op.Topic)
		groups = append(groups, op.Group)
	case "fg", "dg":
		groups = append(groups, op.Group)
	case "pg":
		groups = append(groups, op.G.ID)
	case "uc":
		topics = append(topics, op.C.Name)
	case "md":
		topics = append(topics, op.Names...)
	}
	return
}

// ---------- running an op list on both real stores, observing the real etcd keyspace ----------
const msSnapshotKey = "/kafscale/metadata/snapshot"

// msEtcdKVs reads every key under /kafscale/ (except the shared metadata snapshot) with
// its value through the etcd client.
func (e *msEtcd) kvs(t *testing.T) map[string]string {
	ctx, cancel := context.WithTimeout(context.Background(), 30*time.Second)
	defer cancel()
	resp, err := e.cli.Get(ctx, "/kafscale/", clientv3.WithPrefix())
	if err != nil {
		t.Fatalf("etcd scan: %v", err)
	}
	out := make(map[string]string, len(resp.Kvs))
	for _, kv := range resp.Kvs {
		if string(kv.Key) == msSnapshotKey {
			continue
		}
		out[string(kv.Key)] = string(kv.Value)
	}
	return out
}

type msRun struct {
	im, et []msRes
	kvs    []map[string]string // real etcd contents after each op
}

func msRunBoth(t *testing.T, e *msEtcd, brokers int, ops []msOp) msRun {
	return msRunBothOpt(t, e, brokers, ops, true)
}

// scan=false: the etcd key space is not read after every op (scale cases: hundreds of keys)
func msRunBothOpt(t *testing.T, e *msEtcd, brokers int, ops []msOp, scan bool) msRun {
	return msRunBothAt(t, e, brokers, ops, func(int) bool { return scan })
}

// scanAt(i): read the etcd key space after op i (a nil entry in kvs means "not read")
func msRunBothAt(t *testing.T, e *msEtcd, brokers int, ops []msOp, scanAt func(int) bool) msRun {
	ctx := context.Background()
	ims := NewInMemoryStore(msInitial(brokers))
	ets := e.fresh(t, brokers)
	var r msRun
	for _, op := range ops {
		r.im = append(r.im, msApply(ctx, ims, op))
		r.et = append(r.et, msApply(ctx, ets, op))
		if scanAt(len(r.et) - 1) {
			r.kvs = append(r.kvs, e.kvs(t))
		} else {
			r.kvs = append(r.kvs, nil)
		}
	}
	return r
}

func msCoqKeys(kvs []map[string]string) string {
	it := make([]string, len(kvs))
	prev := ""
	for i, m := range kvs {
		ks := make([]string, 0, len(m))
		for k := range m {
			ks = append(ks, k)
		}
		sort.Strings(ks)
		cur := cqStrs(ks)
		if i > 0 && cur == prev {
			it[i] = "None" // same key set as after the previous operation
		} else {
			it[i] = "(Some " + cur + ")"
		}
		prev = cur
	}
	return cqList(it)
}

// ---------- two-topic isolation scenarios ----------
// Two live topics X and Y with valid names, regularly chosen so that one name is a strict
// string prefix of the other (a / a-b / a.b / a_1 / a0 ...), durable state on both (partition
// growth, next offsets, config, committed offsets), then operations on X only (DeleteTopic,
// re-create, growth, config, offsets), each followed by a full read-back of Y.
type msScenario struct {
	Brokers int      `json:"brokers"`
	X       string   `json:"x"`
	Y       string   `json:"y"`
	Groups  []string `json:"groups"`
	MaxPart int32    `json:"max_part"`
	Setup   []msOp   `json:"setup"`
	Muts    []msOp   `json:"muts"`
}

// everything the Store interface can say about topic y
func msScenarioReads(sc msScenario) []msOp {
	ops := []msOp{{K: "md", Names: []string{sc.Y}}, {K: "fc", Topic: sc.Y}}
	for p := int32(0); p <= sc.MaxPart; p++ {
		ops = append(ops, msOp{K: "no", Topic: sc.Y, Part: p})
		for _, g := range sc.Groups {
			ops = append(ops, msOp{K: "fo", Group: g, Topic: sc.Y, Part: p}, msOp{K: "lo", Group: g, Topic: sc.Y, Part: p})
		}
	}
	return append(ops, msOp{K: "ls"}, msOp{K: "md"})
}

// flattened op list; blocks[0] is the baseline read-back of Y, blocks[i] the one after Muts[i-1];
// mutAt[i] is the index of Muts[i]
func msScenarioOps(sc msScenario) (ops []msOp, blocks [][2]int, mutAt []int) {
	ops = append(ops, sc.Setup...)
	rd := msScenarioReads(sc)
	blocks = append(blocks, [2]int{len(ops), len(ops) + len(rd)})
	ops = append(ops, rd...)
	for _, m := range sc.Muts {
		mutAt = append(mutAt, len(ops))
		ops = append(ops, m)
		blocks = append(blocks, [2]int{len(ops), len(ops) + len(rd)})
		ops = append(ops, rd...)
	}
	return
}

// a read result restricted to what concerns topic y (listings contain every topic)
func msAboutTopic(r msRes, y string) msRes {
	switch r.Kind {
	case "coffs":
		out := msRes{Kind: "coffs", Coffs: []msCoff{}}
		for _, c := range r.Coffs {
			if c.T == y {
				out.Coffs = append(out.Coffs, c)
			}
		}
		return out
	case "meta":
		out := msRes{Kind: "meta", Metas: []msMeta{}}
		for _, m := range r.Metas {
			if m.Name == y {
				out.Metas = append(out.Metas, m)
			}
		}
		return out
	}
	return r
}

var msPrefixBases = []string{"a", "orders", "t1", "A.b", "x-y", "0"}
var msPrefixSufs = []string{"-b", ".b", "_1", "0", "-v2", ".dlq", "a", "-", "_", ".", "1", "-0", ".config", "-partitions"}

func msGenScenario(r *vRand) msScenario {
	base := msPrefixBases[r.Intn(len(msPrefixBases))]
	long := base + msPrefixSufs[r.Intn(len(msPrefixSufs))]
	sc := msScenario{Brokers: r.Range(1, 2), X: base, Y: long}
	switch r.Intn(10) {
	case 0, 1, 2:
		sc.X, sc.Y = long, base // the deleted name is the longer one
	case 3:
		sc.Y = base + msPrefixSufs[r.Intn(len(msPrefixSufs))] // siblings sharing a prefix
		sc.X = long
		if sc.X == sc.Y {
			sc.Y = base
		}
	case 4:
		sc.X, sc.Y = "ab", "ac" // unrelated
	}
	gs := []string{"g1", "g2", sc.X, "offsets"}
	for i := 0; i < r.Range(1, 2); i++ {
		sc.Groups = append(sc.Groups, gs[r.Intn(len(gs))])
	}
	sc.MaxPart = int32(r.Range(1, 2))
	nx, ny := int64(r.Range(1, 3)), int64(r.Range(1, 3))
	mk := func(t string, n int64) []msOp {
		ops := []msOp{{K: "ct", Topic: t, N: n, RF: 1}}
		if r.Chance(50) {
			n += int64(r.Range(1, 2))
			ops = append(ops, msOp{K: "cp", Topic: t, N: n})
		}
		if r.Chance(65) {
			ops = append(ops, msOp{K: "uc", C: &msCfg{Name: t, Parts: 0, RF: 1, RetMs: int64(r.Range(1, 9) * 1000), RetBytes: -1, Config: [][2]string{{"k", t}}}})
		}
		for p := int64(0); p < n; p++ {
			if r.Chance(75) {
				ops = append(ops, msOp{K: "uo", Topic: t, Part: int32(p), N: int64(r.Range(0, 90))})
			}
			for _, g := range sc.Groups {
				if r.Chance(50) {
					ops = append(ops, msOp{K: "co", Group: g, Topic: t, Part: int32(p), N: int64(r.Range(1, 99)), Meta: "m-" + t})
				}
			}
		}
		return ops
	}
	a, b := mk(sc.X, nx), mk(sc.Y, ny)
	if r.Bool() {
		a, b = b, a
	}
	sc.Setup = append(a, b...)
	if r.Chance(40) {
		sc.Setup = append(sc.Setup, msOp{K: "pg", G: msGenGroup(r, msNames{topics: []string{sc.X, sc.Y}}, sc.Groups[0])})
	}
	nm := r.Range(1, 3)
	for i := 0; i < nm; i++ {
		k := r.Intn(8)
		if i == 0 && r.Chance(60) {
			k = 0
		}
		switch k {
		case 0, 1:
			sc.Muts = append(sc.Muts, msOp{K: "dt", Topic: sc.X})
		case 2:
			sc.Muts = append(sc.Muts, msOp{K: "ct", Topic: sc.X, N: int64(r.Range(1, 3)), RF: 1})
		case 3:
			sc.Muts = append(sc.Muts, msOp{K: "cp", Topic: sc.X, N: int64(r.Range(2, 6))})
		case 4:
			sc.Muts = append(sc.Muts, msOp{K: "uc", C: &msCfg{Name: sc.X, Parts: int32(r.Range(0, 4)), RF: 1, RetMs: 5, RetBytes: 7, Config: [][2]string{}}})
		case 5:
			sc.Muts = append(sc.Muts, msOp{K: "uo", Topic: sc.X, Part: int32(r.Range(0, 3)), N: int64(r.Range(100, 200))})
		case 6:
			sc.Muts = append(sc.Muts, msOp{K: "co", Group: sc.Groups[0], Topic: sc.X, Part: int32(r.Range(0, 3)), N: int64(r.Range(100, 200)), Meta: "later"})
		default:
			sc.Muts = append(sc.Muts, msOp{K: "dg", Group: sc.Groups[0]})
		}
	}
	return sc
}

// msScenarioOracle checks, on what the real stores did, that no operation on X changed
// what is read back for Y (both stores), and that in the real etcd keyspace an operation
// naming topic T never removed or rewrote a key that was last written by an operation
// naming another topic. Returns (key, description) of the first failure.
func msScenarioOracle(sc msScenario, run msRun) (string, string) {
	ops, blocks, mutAt := msScenarioOps(sc)
	for s, res := range [][]msRes{run.im, run.et} {
		store := []string{"inmem", "etcd"}[s]
		base := blocks[0]
		for bi := 1; bi < len(blocks); bi++ {
			for k := 0; k < base[1]-base[0]; k++ {
				want, got := msAboutTopic(res[base[0]+k], sc.Y), msAboutTopic(res[blocks[bi][0]+k], sc.Y)
				if !reflect.DeepEqual(want, got) {
					wj, _ := json.Marshal(want)
					gj, _ := json.Marshal(got)
					return "other-topic-readback-changed-" + store, fmt.Sprintf("%s store: after %s (an operation on topic %q) the read %s about topic %q changed from %s to %s",
						store, msCoqOp(ops[mutAt[bi-1]]), sc.X, msCoqOp(ops[base[0]+k]), sc.Y, wj, gj)
				}
			}
		}
	}
	// ownership is learned from the observed key space: keys that appear or change between
	// two reads belong to the topic named by the operations in between (when they all name
	// the same one)
	owner := map[string]string{}
	prev := map[string]string{}
	topic, has, mixed := "", false, false
	for i, op := range ops {
		ts, _ := msOpNames(op)
		if len(ts) == 1 && op.K != "md" {
			if has && ts[0] != topic {
				mixed = true
			}
			topic, has = ts[0], true
		}
		cur := run.kvs[i]
		if cur == nil {
			continue // not read after this op: the interval goes on
		}
		single := has && !mixed
		for k, v := range prev {
			nv, still := cur[k]
			if still && nv == v {
				continue
			}
			if o, owned := owner[k]; single && owned && o != topic {
				what := "removed"
				if still {
					what = "rewrote"
				}
				return "etcd-key-of-other-topic-touched", fmt.Sprintf("real etcd: %s (topic %q) %s key %s, which was written for topic %q", msCoqOp(op), topic, what, k, o)
			}
		}
		for k, v := range cur {
			if pv, was := prev[k]; !was || pv != v {
				if single {
					owner[k] = topic
				} else {
					delete(owner, k)
				}
			}
		}
		for k := range owner {
			if _, still := cur[k]; !still {
				delete(owner, k)
			}
		}
		// a deleted topic leaves nothing behind: a later topic of the same name must not
		// inherit keys of the old one
		if op.K == "dt" && run.et[i].Err != 3 {
			for k, o := range owner {
				if _, still := cur[k]; still && o == op.Topic {
					return "deleted-topic-keys-remain", fmt.Sprintf("real etcd: after %s (answer error class %d) key %s written for that topic is still there (%d keys in etcd)", msCoqOp(op), run.et[i].Err, k, len(cur))
				}
			}
		}
		prev = cur
		topic, has, mixed = "", false, false
	}
	return "", ""
}

// ---------- overwrite families ----------
// For every keyed table of the stores (committed offset + metadata, next offset, topic
// config, consumer group, partition count) a systematic write / overwrite history on ONE
// key, with a full read-back after every write: value -> different value, value ->
// zero/empty value, zero -> value, same value again, delete -> read -> re-create.
func msGenOverwrite(r *vRand) (int, []msOp) {
	t := []string{"orders", "a.b", "t1"}[r.Intn(3)]
	g := []string{"g1", "a:b", "grp"}[r.Intn(3)]
	p := int32(r.Range(0, 1))
	ops := []msOp{{K: "ct", Topic: t, N: 2, RF: 1}}
	reads := func() {
		ops = append(ops, msOp{K: "fo", Group: g, Topic: t, Part: p}, msOp{K: "lo", Group: g, Topic: t, Part: p}, msOp{K: "ls"},
			msOp{K: "no", Topic: t, Part: p}, msOp{K: "fc", Topic: t}, msOp{K: "fg", Group: g}, msOp{K: "lg"}, msOp{K: "md", Names: []string{t}})
	}
	metas := []string{"checkpoint-a", "", "b", "", "checkpoint-a"}
	offs := []int64{9, 9, 0, 5, 0}
	fullGroup := func(gen int32) *msGroup {
		return &msGroup{ID: g, State: "stable", PType: "consumer", Proto: "range", Leader: "m0", Gen: gen, Rebalance: 45000,
			Members: []msMember{{ID: "m0", Client: "c", Host: "/h", HB: "hb", Session: 20000, Subs: []string{t}, Assign: []msAssign{{Topic: t, Parts: []int32{0, 1}}}},
				{ID: "m1", Client: "d", Host: "/h", HB: "hb", Session: 10000, Subs: []string{t}, Assign: []msAssign{}}}}
	}
	emptyGroup := &msGroup{ID: g, Members: []msMember{}}
	fullCfg := &msCfg{Name: t, Parts: 2, RF: 1, RetMs: 60000, RetBytes: 1 << 20, SegBytes: 4096, Config: [][2]string{{"cleanup.policy", "compact"}, {"x", "y"}}}
	zeroCfg := &msCfg{Name: t, Config: [][2]string{}}
	steps := [][]msOp{}
	for i := range metas { // committed offset and its metadata
		steps = append(steps, []msOp{{K: "co", Group: g, Topic: t, Part: p, N: offs[i], Meta: metas[i]}})
	}
	steps = append(steps,
		[]msOp{{K: "uo", Topic: t, Part: p, N: 41}}, []msOp{{K: "uo", Topic: t, Part: p, N: -1}}, []msOp{{K: "uo", Topic: t, Part: p, N: 6}}, []msOp{{K: "uo", Topic: t, Part: p, N: 6}},
		[]msOp{{K: "uc", C: fullCfg}}, []msOp{{K: "uc", C: zeroCfg}}, []msOp{{K: "uc", C: fullCfg}},
		[]msOp{{K: "pg", G: fullGroup(3)}}, []msOp{{K: "pg", G: emptyGroup}}, []msOp{{K: "pg", G: fullGroup(0)}}, []msOp{{K: "dg", Group: g}}, []msOp{{K: "pg", G: fullGroup(4)}},
		[]msOp{{K: "cp", Topic: t, N: 4}}, []msOp{{K: "cp", Topic: t, N: 4}}, []msOp{{K: "cp", Topic: t, N: 3}},
		[]msOp{{K: "dt", Topic: t}}, []msOp{{K: "ct", Topic: t, N: 1, RF: 1}}, []msOp{{K: "co", Group: g, Topic: t, Part: p, N: 1, Meta: ""}})
	// the families in a random order (a prefix of them), each step followed by the read-back
	order := make([]int, len(steps))
	for i := range order {
		order[i] = i
	}
	if r.Chance(70) {
		for i := len(order) - 1; i > 0; i-- {
			j := r.Intn(i + 1)
			order[i], order[j] = order[j], order[i]
		}
	}
	n := r.Range(6, 12)
	for _, k := range order[:n] {
		ops = append(ops, steps[k]...)
		reads()
	}
	return 1, ops
}

// ---------- scale families ----------
// Operations over many keys: a topic with 150-300 committed offsets spread over groups x
// partitions, 150+ partitions, 150+ groups, names near their length limits - then listings,
// DeleteTopic / DeleteConsumerGroup, reads of what should be gone and of what should stay,
// re-creation. (etcd rejects a transaction with more than 128 operations and a request
// above 1.5 MiB; code that batches per-key work meets those limits only at this scale.)
func msGenScale(r *vRand) (int, []msOp) {
	var ops []msOp
	t, other := "orders", "orders-v2"
	tail := func(groups []string, parts int) {
		g0 := groups[0]
		ops = append(ops, msOp{K: "lg"}, msOp{K: "md"},
			msOp{K: "dt", Topic: t}, msOp{K: "ls"}, msOp{K: "fo", Group: g0, Topic: t, Part: 0}, msOp{K: "lo", Group: groups[len(groups)-1], Topic: t, Part: int32(parts - 1)},
			msOp{K: "fo", Group: g0, Topic: other, Part: 0}, msOp{K: "no", Topic: other, Part: 0}, msOp{K: "md"}, msOp{K: "fc", Topic: t},
			msOp{K: "ct", Topic: t, N: 2, RF: 1}, msOp{K: "fo", Group: g0, Topic: t, Part: 0}, msOp{K: "no", Topic: t, Part: 1},
			msOp{K: "dg", Group: g0}, msOp{K: "lg"}, msOp{K: "fg", Group: g0}, msOp{K: "dt", Topic: other}, msOp{K: "ls"}, msOp{K: "md"})
	}
	switch r.Intn(4) {
	case 0: // many groups x few partitions: 150-300 committed offsets on one topic
		parts := r.Range(3, 8)
		ng := (r.Range(150, 300) + parts - 1) / parts
		var groups []string
		for i := 0; i < ng; i++ {
			groups = append(groups, fmt.Sprintf("grp-%03d", i))
		}
		ops = append(ops, msOp{K: "ct", Topic: t, N: int64(parts), RF: 1}, msOp{K: "ct", Topic: other, N: 1, RF: 1},
			msOp{K: "co", Group: groups[0], Topic: other, N: 77, Meta: "keep"}, msOp{K: "uo", Topic: other, N: 6})
		for _, g := range groups {
			for p := 0; p < parts; p++ {
				ops = append(ops, msOp{K: "co", Group: g, Topic: t, Part: int32(p), N: int64(p + 1), Meta: "m"})
			}
		}
		ops = append(ops, msOp{K: "pg", G: &msGroup{ID: groups[0], State: "stable", Members: []msMember{}}})
		tail(groups, parts)
	case 1: // 150+ partitions, one group committing on all of them
		parts := r.Range(150, 220)
		first := r.Range(1, 100)
		ops = append(ops, msOp{K: "ct", Topic: t, N: int64(first), RF: 1}, msOp{K: "cp", Topic: t, N: int64(parts)}, msOp{K: "ct", Topic: other, N: 1, RF: 1},
			msOp{K: "co", Group: "g1", Topic: other, N: 77, Meta: "keep"}, msOp{K: "uo", Topic: other, N: 6},
			msOp{K: "uc", C: &msCfg{Name: t, RF: 1, RetMs: 5, RetBytes: -1, Config: [][2]string{}}})
		for p := 0; p < parts; p++ {
			ops = append(ops, msOp{K: "co", Group: "g1", Topic: t, Part: int32(p), N: int64(p), Meta: ""})
			if p%3 == 0 {
				ops = append(ops, msOp{K: "uo", Topic: t, Part: int32(p), N: int64(p)})
			}
		}
		ops = append(ops, msOp{K: "no", Topic: t, Part: int32(parts - 1)}, msOp{K: "fc", Topic: t})
		tail([]string{"g1"}, parts)
	case 2: // 150+ groups with metadata records, each with one commit
		ng := r.Range(150, 200)
		var groups []string
		ops = append(ops, msOp{K: "ct", Topic: t, N: 1, RF: 1}, msOp{K: "ct", Topic: other, N: 1, RF: 1}, msOp{K: "co", Group: "g-000", Topic: other, N: 77, Meta: "keep"})
		for i := 0; i < ng; i++ {
			g := fmt.Sprintf("g-%03d", i)
			groups = append(groups, g)
			ops = append(ops, msOp{K: "pg", G: &msGroup{ID: g, State: "stable", Gen: int32(i), Members: []msMember{{ID: "m0", Client: "c", Host: "/h", HB: "hb", Subs: []string{t}, Assign: []msAssign{}}}}},
				msOp{K: "co", Group: g, Topic: t, N: int64(i), Meta: "m"})
		}
		for i := 0; i < ng; i += 7 {
			ops = append(ops, msOp{K: "dg", Group: groups[i]})
		}
		tail(groups[1:], 1)
	default: // names near their limits: 249-byte topic names, 254-byte group ids
		t = strings.Repeat("t", 247) + "-1"
		other = strings.Repeat("t", 247) + "-2"
		var groups []string
		for i := 0; i < r.Range(30, 45); i++ {
			groups = append(groups, strings.Repeat("g", 250)+fmt.Sprintf("%04d", i))
		}
		ops = append(ops, msOp{K: "ct", Topic: t, N: 2, RF: 1}, msOp{K: "ct", Topic: other, N: 1, RF: 1}, msOp{K: "ct", Topic: strings.Repeat("t", 250), N: 1, RF: 1},
			msOp{K: "co", Group: groups[0], Topic: other, N: 77, Meta: "keep"}, msOp{K: "uo", Topic: other, N: 6})
		for _, g := range groups {
			ops = append(ops, msOp{K: "co", Group: g, Topic: t, Part: 1, N: 3, Meta: strings.Repeat("x", 200)})
		}
		tail(groups, 2)
	}
	return 1, ops
}

// a two-topic scenario at scale: X carries 150-300 committed offsets (groups x partitions),
// Y (prefix-related) a few; X is deleted, Y read back; X re-created
func msGenScaleScenario(r *vRand) msScenario {
	sc := msScenario{Brokers: 1, X: "orders", Y: "orders-v2", MaxPart: 1}
	if r.Bool() {
		sc.X, sc.Y = "orders.v2", "orders"
	}
	parts := r.Range(2, 6)
	ng := (r.Range(150, 300) + parts - 1) / parts
	sc.Groups = []string{"grp-000", fmt.Sprintf("grp-%03d", ng-1)}
	sc.Setup = []msOp{{K: "ct", Topic: sc.X, N: int64(parts), RF: 1}}
	for g := 0; g < ng; g++ { // everything of X first, then everything of Y (the key space is read between the two)
		for p := 0; p < parts; p++ {
			sc.Setup = append(sc.Setup, msOp{K: "co", Group: fmt.Sprintf("grp-%03d", g), Topic: sc.X, Part: int32(p), N: int64(g + p), Meta: "m"})
		}
	}
	sc.Setup = append(sc.Setup, msOp{K: "ct", Topic: sc.Y, N: 2, RF: 1}, msOp{K: "uo", Topic: sc.Y, Part: 1, N: 8},
		msOp{K: "uc", C: &msCfg{Name: sc.Y, RF: 1, RetMs: 9, RetBytes: -1, Config: [][2]string{}}})
	for g := 0; g < ng; g += 40 {
		sc.Setup = append(sc.Setup, msOp{K: "co", Group: fmt.Sprintf("grp-%03d", g), Topic: sc.Y, Part: int32(g % 2), N: int64(g + 1), Meta: "y"})
	}
	sc.Muts = []msOp{{K: "dt", Topic: sc.X}, {K: "ct", Topic: sc.X, N: 1, RF: 1}}
	return sc
}

// ---------- partition-index edges ----------
// Every partition-keyed operation (UpdateOffsets, NextOffset, Commit / Fetch / Lookup
// consumer offsets, CreatePartitions' partition states) with indices the topic does not
// have: negative, equal to the count, beyond it, not yet existing, very large - followed by
// delete / re-create (smaller and larger) / growth and a read-back at the same indices.
func msGenPartitionEdge(r *vRand) (int, []msOp) {
	t := []string{"orders", "t1", "a.b"}[r.Intn(3)]
	g := "g1"
	n := int64(r.Range(1, 3))
	idx := []int32{-1, int32(n), int32(n + 2), 7, 40, 2147483647, 0, int32(n - 1)}
	var ops []msOp
	reads := func() {
		for _, p := range idx {
			ops = append(ops, msOp{K: "no", Topic: t, Part: p}, msOp{K: "fo", Group: g, Topic: t, Part: p}, msOp{K: "lo", Group: g, Topic: t, Part: p})
		}
		ops = append(ops, msOp{K: "ls"}, msOp{K: "md", Names: []string{t}}, msOp{K: "fc", Topic: t})
	}
	if r.Chance(30) { // before the topic exists at all
		ops = append(ops, msOp{K: "uo", Topic: t, Part: 3, N: 41}, msOp{K: "co", Group: g, Topic: t, Part: 5, N: 9, Meta: "early"})
	}
	ops = append(ops, msOp{K: "ct", Topic: t, N: n, RF: 1})
	for _, p := range idx {
		if r.Chance(70) {
			ops = append(ops, msOp{K: "uo", Topic: t, Part: p, N: int64(40 + r.Intn(9))})
		}
		if r.Chance(50) {
			ops = append(ops, msOp{K: "co", Group: g, Topic: t, Part: p, N: int64(1 + r.Intn(9)), Meta: "m"})
		}
	}
	reads()
	steps := [][]msOp{
		{{K: "dt", Topic: t}}, {{K: "ct", Topic: t, N: n + 3, RF: 1}}, {{K: "cp", Topic: t, N: n + 5}}, {{K: "cp", Topic: t, N: 45}},
		{{K: "dt", Topic: t}, {K: "ct", Topic: t, N: 1, RF: 1}}, {{K: "uo", Topic: t, Part: int32(n + 2), N: 70}}, {{K: "dt", Topic: t}, {K: "ct", Topic: t, N: 8, RF: 1}},
	}
	k := r.Range(3, len(steps))
	start := r.Intn(2)
	for i := 0; i < k; i++ {
		ops = append(ops, steps[(start+i)%len(steps)]...)
		reads()
	}
	return 1, ops
}
