package metadata

// C22, metadata-key half on the real stores (result "C22_etcd"). Two live topics with
// valid names — regularly one a strict string prefix of the other — get durable state
// (partition growth, next offsets, config, committed offsets) in a real InMemoryStore and
// a real EtcdStore; then DeleteTopic / re-create / growth / config / offset operations hit
// one of them. Oracle, on what the real code did:
//   * everything the Store interface reads back for the OTHER topic is unchanged, on both stores;
//   * in the real etcd keyspace (read through the etcd client after every operation, not
//     through the key-builder functions) no operation naming topic T removes or rewrites a
//     key last written by an operation naming another topic — this is where the delete
//     prefix actually used by DeleteTopic is observed.
// Every scenario, the answers and the etcd key set after each operation go to Coq
// (check_case17: both store models replay it; the model's key set must equal the real one).

import (
	"encoding/json"
	"fmt"
	"strings"
	"testing"
)

// c22eRun runs the scenario on both stores. Normally the etcd key space is read after every
// op; at scale only where the topic named by the ops changes and from the end of the setup on.
func c22eRun(t *testing.T, e *msEtcd, sc msScenario, scale bool) msRun {
	ops, _, _ := msScenarioOps(sc)
	if !scale {
		return msRunBoth(t, e, sc.Brokers, ops)
	}
	topicOf := func(i int) string {
		if i < 0 || i >= len(ops) {
			return "\x00"
		}
		ts, _ := msOpNames(ops[i])
		if len(ts) == 1 && ops[i].K != "md" {
			return ts[0]
		}
		return ""
	}
	return msRunBothAt(t, e, sc.Brokers, ops, func(i int) bool {
		return i >= len(sc.Setup)-1 || (topicOf(i+1) != "" && topicOf(i+1) != topicOf(i))
	})
}

func TestVerifC22Etcd(t *testing.T) {
	rep := vNewReport("C22", "two-topic scenarios on the real InMemoryStore and EtcdStore (embedded etcd): accepted names, mostly one a strict string prefix of the other (base a/orders/t1/A.b/x-y/0 + suffix -b .b _1 0 -v2 .dlq a - _ . 1 -0 .config -partitions, either one being the one operated on, also siblings and unrelated names), 1-5 partitions each (read back 0..2), next offsets, config, committed offsets of 1-2 groups on both; then 1-3 operations on one topic (DeleteTopic first in 60%), each followed by a full read-back of the other; plus 1 (thorough 6) scale scenario per run where the deleted topic carries 150-300 committed offsets; a deleted topic must leave none of its keys in etcd; non-trivial = both topics were created and a DeleteTopic succeeded; distinct = distinct scenario")
	e := msStartEtcd(t)
	var coq, jsons []string
	scale := false
	runScale := func(sc msScenario) {}
	runOne := func(sc msScenario) {
		ops, _, mutAt := msScenarioOps(sc)
		run := c22eRun(t, e, sc, scale)
		canon, _ := json.Marshal(sc)
		deleted := false
		for i, at := range mutAt {
			rep.Hist("mut:" + sc.Muts[i].K)
			if sc.Muts[i].K == "dt" && run.et[at].Err == 0 {
				deleted = true
			}
		}
		switch {
		case strings.HasPrefix(sc.Y, sc.X) && sc.X != sc.Y:
			rep.Hist("pair:operated-name-is-prefix-of-other")
		case strings.HasPrefix(sc.X, sc.Y) && sc.X != sc.Y:
			rep.Hist("pair:other-name-is-prefix-of-operated")
		default:
			rep.Hist("pair:siblings-or-unrelated")
		}
		rep.Count(string(canon), deleted)
		rep.Sample(sc)
		if key, fail := msScenarioOracle(sc, run); fail != "" {
			shr := sc
			still := func(s msScenario) bool {
				o, _, _ := msScenarioOps(s)
				_ = o
				k, f := msScenarioOracle(s, c22eRun(t, e, s, scale))
				return f != "" && k == key
			}
			shr.Muts = vShrink(shr.Muts, func(m []msOp) bool { s := shr; s.Muts = m; return still(s) })
			shr.Setup = vShrink(shr.Setup, func(m []msOp) bool { s := shr; s.Setup = m; return still(s) })
			o2, _, _ := msScenarioOps(shr)
			_ = o2
			k2, f2 := msScenarioOracle(shr, c22eRun(t, e, shr, scale))
			if f2 == "" {
				shr, k2, f2 = sc, key, fail
			}
			rep.Fail(k2, k2, f2, shr)
		}
		keys := "[]" // scale scenarios: answers only
		if !scale {
			keys = msCoqKeys(run.kvs)
		}
		coq = append(coq, fmt.Sprintf("mkCase17 %d %s %s %s %s", sc.Brokers, msCoqOps(ops), msCoqResList(run.im), msCoqResList(run.et), keys))
		jsons = append(jsons, string(canon))
	}
	runScale = func(sc msScenario) {
		scale = true
		runOne(sc)
		scale = false
	}
	if rc := vReplayCase(); rc != nil {
		var sc msScenario
		if err := json.Unmarshal(rc, &sc); err != nil || (sc.X == "" && sc.Y == "") {
			// a replay of the other C22 harness (pkg/storage): nothing to do here
			rep.Cases("C22_etcd", msRequires, "case17", "check_case17", nil, nil)
			rep.WriteAs("C22_etcd")
			return
		}
		runOne(sc)
	} else {
		cfg := func(n string) *msCfg {
			return &msCfg{Name: n, RF: 1, RetMs: 9000, RetBytes: -1, Config: [][2]string{{"k", n}}}
		}
		corpus := []msScenario{
			{Brokers: 1, X: "orders", Y: "orders-v2", Groups: []string{"g1"}, MaxPart: 2,
				Setup: []msOp{{K: "ct", Topic: "orders", N: 1, RF: 1}, {K: "ct", Topic: "orders-v2", N: 2, RF: 1}, {K: "cp", Topic: "orders-v2", N: 3}, {K: "uc", C: cfg("orders-v2")},
					{K: "uo", Topic: "orders-v2", Part: 1, N: 41}, {K: "uo", Topic: "orders", N: 7}, {K: "co", Group: "g1", Topic: "orders-v2", Part: 2, N: 5, Meta: "m"}},
				Muts: []msOp{{K: "dt", Topic: "orders"}}},
			{Brokers: 1, X: "a.b", Y: "a", Groups: []string{"g1", "a.b"}, MaxPart: 1,
				Setup: []msOp{{K: "ct", Topic: "a", N: 2, RF: 1}, {K: "ct", Topic: "a.b", N: 2, RF: 1}, {K: "uc", C: cfg("a")}, {K: "uo", Topic: "a", Part: 1, N: 3}, {K: "uo", Topic: "a.b", Part: 1, N: 9}, {K: "co", Group: "a.b", Topic: "a", Part: 0, N: 4}},
				Muts:  []msOp{{K: "dt", Topic: "a.b"}, {K: "ct", Topic: "a.b", N: 1, RF: 1}, {K: "dt", Topic: "a.b"}}},
			{Brokers: 1, X: "t1", Y: "t10", Groups: []string{"offsets"}, MaxPart: 2,
				Setup: []msOp{{K: "ct", Topic: "t10", N: 1, RF: 1}, {K: "ct", Topic: "t1", N: 1, RF: 1}, {K: "cp", Topic: "t10", N: 2}, {K: "cp", Topic: "t1", N: 12}, {K: "uo", Topic: "t10", Part: 0, N: 3}, {K: "uo", Topic: "t1", Part: 10, N: 8}},
				Muts:  []msOp{{K: "dt", Topic: "t1"}}},
		}
		for _, sc := range corpus {
			runOne(sc)
		}
		r := vNewRand(vSeed() ^ 0x22e7cd)
		for i := 0; i < vN(1, 6); i++ { // scale: the deleted topic carries 150-300 committed offsets
			rep.Hist("scenario:scale")
			runScale(msGenScaleScenario(r.Fork()))
		}
		n := vN(50, 700)
		for i := 0; i < n; i++ {
			runOne(msGenScenario(r.Fork()))
		}
	}
	rep.Cases("C22_etcd", msRequires, "case17", "check_case17", coq, jsons)
	rep.WriteAs("C22_etcd")
	if len(rep.Failures) > 0 {
		t.Logf("oracle failures: %s", strings.TrimSpace(rep.Failures[0].What))
	}
}
