package storage

// C22 harness. For generated (namespace, topic, partition, base offset, group):
// the real PartitionLog key builders (segmentKey, indexKey, segmentPrefix,
// cacheTopicKey), the real etcd / in-memory key builders of pkg/metadata and the real
// InMemoryStore.CreateTopic acceptance are recorded and compared with the model
// (corr/MetaStoreCorr.v check_case22), together with path.Join on generated element
// lists and the two etcd key parsers on generated keys.
// Oracle on the real code: for every pair of ACCEPTED topic names and partitions with
// (t,p) <> (t',p'): no shared S3 object key, no key of one under the listing prefix of
// the other, a segment cached for one is not served for the other (real SegmentCache),
// a segment flushed to a real MemoryS3Client by one PartitionLog is not found by the
// other's RestoreFromS3, no shared etcd / in-memory key in any family, and no key of
// one topic under the delete prefix of the other.

import (
	"context"
	"encoding/json"
	"fmt"
	"path"
	"strings"
	"testing"

	"github.com/KafScale/platform/pkg/cache"
	"github.com/KafScale/platform/pkg/metadata"
	"github.com/KafScale/platform/pkg/protocol"
)

type c22Case struct {
	Kind  string   `json:"kind"` // pair | join | parse
	NS    string   `json:"ns,omitempty"`
	T1    string   `json:"t1,omitempty"`
	P1    int32    `json:"p1,omitempty"`
	T2    string   `json:"t2,omitempty"`
	P2    int32    `json:"p2,omitempty"`
	Base  int64    `json:"base,omitempty"`
	Group string   `json:"group,omitempty"`
	Elems []string `json:"elems,omitempty"`
	Key   string   `json:"key,omitempty"`
}

func c22Str(s string) string {
	if s == "" {
		return "[]"
	}
	for i := 0; i < len(s); i++ {
		if s[i] < 0x20 || s[i] > 0x7e || s[i] == '"' {
			return cqBytes([]byte(s))
		}
	}
	return "(lit \"" + s + "\")"
}
func c22Strs(l []string) string {
	it := make([]string, len(l))
	for i, s := range l {
		it[i] = c22Str(s)
	}
	return cqList(it)
}

func c22Accepted(name string, p int32) bool {
	st := metadata.NewInMemoryStore(metadata.ClusterMetadata{ControllerID: 1, Brokers: []protocol.MetadataBroker{{NodeID: 1, Host: "h", Port: 1}}})
	n := p + 1
	if n < 1 {
		n = 1
	}
	_, err := st.CreateTopic(context.Background(), metadata.TopicSpec{Name: name, NumPartitions: n, ReplicationFactor: 1})
	return err == nil
}

type c22Keys struct {
	s3   []string // segmentKey, indexKey, segmentPrefix, cacheTopicKey
	etcd []string // offsetKey, TopicConfigKey, PartitionStateKey, delete prefix, ConsumerOffsetKey, PartitionAssignmentKey, partitionKey
}

func c22KeysOf(ns, t string, p int32, base int64, g string) c22Keys {
	l := NewPartitionLog(ns, t, p, 0, nil, nil, PartitionLogConfig{}, nil, nil, nil)
	return c22Keys{
		s3: []string{l.segmentKey(base), l.indexKey(base), l.segmentPrefix(), l.cacheTopicKey()},
		etcd: []string{metadata.VerifOffsetKey(t, p), metadata.TopicConfigKey(t), metadata.PartitionStateKey(t, p), metadata.VerifTopicDeletePrefix(t),
			metadata.ConsumerOffsetKey(g, t, p), metadata.PartitionAssignmentKey(t, p), metadata.VerifPartitionKey(t, p)},
	}
}

func c22CoqKeys(ns, t string, p int32, base int64, g string) string {
	k := c22KeysOf(ns, t, p, base, g)
	return fmt.Sprintf("KKeys %s %s %s %s %s %s %s %s", c22Str(ns), c22Str(t), cqZ(int64(p)), cqZ(base), cqBool(c22Accepted(t, p)), c22Strs(k.s3), c22Strs(k.etcd), c22Str(g))
}

// c22Pair evaluates the isolation clauses on the real code for one pair.
func c22Pair(cs c22Case) (key, fail string) {
	if cs.T1 == cs.T2 && cs.P1 == cs.P2 {
		return "", ""
	}
	if !c22Accepted(cs.T1, cs.P1) || !c22Accepted(cs.T2, cs.P2) {
		return "", ""
	}
	ctx := context.Background()
	a := c22KeysOf(cs.NS, cs.T1, cs.P1, cs.Base, cs.Group)
	bases := []int64{cs.Base, 0, cs.Base + 1}
	what := fmt.Sprintf("accepted topics (%q,%d) and (%q,%d), namespace %q", cs.T1, cs.P1, cs.T2, cs.P2, cs.NS)
	for _, b2 := range bases {
		b := c22KeysOf(cs.NS, cs.T2, cs.P2, b2, cs.Group)
		for i := 0; i < 2; i++ {
			for j := 0; j < 2; j++ {
				if a.s3[i] == b.s3[j] {
					return "s3-key-shared", what + ": both use S3 object " + a.s3[i]
				}
			}
			if strings.HasPrefix(b.s3[i], a.s3[2]) {
				return "s3-prefix-overlap", what + ": object " + b.s3[i] + " of the second lies under the listing prefix " + a.s3[2] + " of the first"
			}
			if strings.HasPrefix(a.s3[i], b.s3[2]) {
				return "s3-prefix-overlap", what + ": object " + a.s3[i] + " of the first lies under the listing prefix " + b.s3[2] + " of the second"
			}
		}
		for _, i := range []int{0, 2, 4, 5, 6} {
			if a.etcd[i] == b.etcd[i] {
				return "metadata-key-shared", what + ": both use metadata key " + a.etcd[i]
			}
		}
		if cs.T1 != cs.T2 {
			if a.etcd[1] == b.etcd[1] {
				return "metadata-key-shared", what + ": both use config key " + a.etcd[1]
			}
			for _, i := range []int{0, 1, 2} {
				if strings.HasPrefix(b.etcd[i], a.etcd[3]) || strings.HasPrefix(a.etcd[i], b.etcd[3]) {
					return "metadata-prefix-overlap", what + ": a key of one topic lies under the delete prefix of the other (" + a.etcd[3] + " / " + b.etcd[3] + ")"
				}
			}
			// the in-memory per-partition key of one under the "name:" of the other (routers still use it)
		}
	}
	// behaviour: real cache, real restore
	c := cache.NewSegmentCache(1 << 16)
	l1 := NewPartitionLog(cs.NS, cs.T1, cs.P1, 0, nil, c, PartitionLogConfig{}, nil, nil, nil)
	l2 := NewPartitionLog(cs.NS, cs.T2, cs.P2, 0, nil, c, PartitionLogConfig{}, nil, nil, nil)
	c.SetSegment(l1.cacheTopicKey(), cs.P1, cs.Base, []byte("one"))
	if d, ok := c.GetSegment(l2.cacheTopicKey(), cs.P2, cs.Base); ok {
		return "cache-shared", what + fmt.Sprintf(": segment cached for the first is served for the second (%q)", d)
	}
	s3 := NewMemoryS3Client()
	body := make([]byte, 64)
	_ = s3.UploadSegment(ctx, l1.segmentKey(cs.Base), body)
	_ = s3.UploadIndex(ctx, l1.indexKey(cs.Base), []byte{})
	objs, _ := s3.ListSegments(ctx, l2.segmentPrefix())
	if len(objs) > 0 {
		return "s3-prefix-overlap", what + ": ListSegments under the second's prefix returns the first's object " + objs[0].Key
	}
	if _, err := s3.DownloadSegment(ctx, l2.segmentKey(cs.Base), nil); err == nil {
		return "s3-key-shared", what + ": the second reads the first's segment object"
	}
	return "", ""
}

var c22Names = []string{"orders", "events", "a", "b", "a.b", "a-b", "a_b", "A", "0", "1", "a.0", "a..b", "...", ".a", "a.", "segment-00000000000000000000.kfs",
	"a/b", "a/../b", "a/0", "a/0/", "/a", "a/", ".", "..", "", "a:b", "a:0", "b/", "a//b", "./a", "a/.", "a/..", "../a", "a b", "ünï", "a%2Fb", "a\\b", "a\x00b",
	"default", "offsets", "partitions", "config", "a/partitions/0", "a/config", "0/next_offset"}
var c22NS = []string{"", "default", "ns", "a", "a/b", "/", "/abs", ".", "..", "a/..", "ns/", "../x", "a//b"}

func c22GenPair(r *vRand) c22Case {
	cs := c22Case{Kind: "pair", NS: c22NS[r.Intn(len(c22NS))], Base: int64(r.Range(0, 3)), Group: []string{"g", "a/b", "offsets", ""}[r.Intn(4)]}
	if r.Chance(70) {
		cs.NS = c22NS[r.Intn(3)]
	}
	if r.Chance(10) {
		cs.Base = int64(r.U64() >> 1)
	}
	if r.Chance(5) {
		cs.Base = -int64(r.Range(1, 1000))
	}
	valid := r.Chance(45)
	pick := func() string {
		if valid {
			if r.Chance(15) {
				// random valid name
				n := r.Range(1, 12)
				if r.Chance(10) {
					n = r.Range(245, 251)
				}
				const al = "abAB01._-"
				b := make([]byte, n)
				for i := range b {
					b[i] = al[r.Intn(len(al))]
				}
				return string(b)
			}
			return c22Names[r.Intn(16)]
		}
		return c22Names[r.Intn(len(c22Names))]
	}
	cs.T1, cs.T2 = pick(), pick()
	cs.P1, cs.P2 = int32(r.Range(0, 2)), int32(r.Range(0, 2))
	if r.Chance(10) {
		cs.P1 = int32(r.Range(0, 1000))
	}
	if r.Chance(25) {
		cs.T2 = cs.T1
	}
	return cs
}

// the literal edge names of the acceptance rule: dot names, length limits, and every single
// byte outside [A-Za-z0-9._-] alone and inside a name
func c22EdgeNames() []string {
	out := []string{".", "..", "...", "....", "a..b", ".a", "a.", "..a", "a..", "-", "_", "-.", "._", "0", "1", "00",
		strings.Repeat("a", 248), strings.Repeat("a", 249), strings.Repeat("a", 250), strings.Repeat(".", 249), strings.Repeat(".", 250), strings.Repeat("a", 1000)}
	for b := 0; b < 256; b++ {
		c := byte(b)
		if c >= 'a' && c <= 'z' || c >= 'A' && c <= 'Z' || c >= '0' && c <= '9' || c == '.' || c == '_' || c == '-' {
			continue
		}
		out = append(out, string([]byte{c}), "a"+string([]byte{c})+"b", string([]byte{c})+"a", "a"+string([]byte{c}), "a"+string([]byte{c, '.', '.', c})+"b")
	}
	return out
}

// partners that a name could collide with if it were accepted: what path.Clean makes of it,
// its path elements, small numbers (partition directories), names sharing a prefix
func c22Partners(name string) []string {
	seen := map[string]bool{}
	var out []string
	add := func(n string) {
		if n != "" && n != name && !seen[n] {
			seen[n] = true
			out = append(out, n)
		}
	}
	add(path.Clean(name))
	add(path.Base(name))
	add(path.Dir(name))
	for _, seg := range strings.FieldsFunc(name, func(r rune) bool { return r == '/' || r == ':' }) {
		add(seg)
	}
	for _, n := range []string{"0", "1", "a", "b", "default", "ns", "orders", name + "0", name + ".", strings.TrimRight(name, "./")} {
		add(n)
	}
	return out
}

// c22NamespaceEscape: an accepted topic's objects stay under the (plain) namespace
func c22NamespaceEscape(ns, t string, p int32) string {
	if ns == "" {
		ns = "default"
	}
	if strings.ContainsAny(ns, "/.") { // only for plain namespaces (a cleaned or nested one has another base)
		return ""
	}
	k := c22KeysOf(ns, t, p, 0, "g")
	for _, key := range k.s3[:3] {
		if !strings.HasPrefix(key, ns+"/") {
			return fmt.Sprintf("accepted topic (%q,%d) in namespace %q stores object %s outside the namespace, where another namespace's topics live", t, p, ns, key)
		}
	}
	return ""
}

func c22Classify(cs c22Case, kind string) string {
	weird := func(t string) bool { return strings.ContainsAny(t, "/") || t == "." || t == ".." }
	if weird(cs.T1) || weird(cs.T2) {
		return kind + "-name-with-path-syntax"
	}
	return kind
}

func TestVerifC22(t *testing.T) {
	rep := vNewReport("C22", "an edge sweep (literal names . .. ... a..b .a a. and 248/249/250-byte names, every single byte outside [A-Za-z0-9._-] alone and inside a name: whatever the real CreateTopic accepts is checked against its likely partners and for staying inside its namespace) and pairs of (topic, partition) over an alphabet of valid Kafka names, random valid names up to 251 bytes and names with '/', dot segments, ':', '%', unicode, NUL, empty; namespaces incl. nested, rooted, dotted and empty; base offsets incl. negative and > 2^62; plus path.Join element lists and etcd keys for the two parsers. A pair case is non-trivial when both names are accepted by the real CreateTopic and (t,p) <> (t',p'); distinct = distinct canonical case")
	var coq, jsons []string
	runOne := func(cs c22Case) {
		canon, _ := json.Marshal(cs)
		switch cs.Kind {
		case "pair":
			key, fail := c22Pair(cs)
			if fail == "" && cs.T1 == cs.T2 && c22Accepted(cs.T1, 0) {
				if what := c22NamespaceEscape(cs.NS, cs.T1, 0); what != "" {
					key, fail = "s3-key-outside-namespace", what
				}
			}
			acc := c22Accepted(cs.T1, cs.P1) && c22Accepted(cs.T2, cs.P2)
			rep.Count(string(canon), acc && !(cs.T1 == cs.T2 && cs.P1 == cs.P2))
			if acc {
				rep.Hist("pair:both-accepted")
			} else {
				rep.Hist("pair:some-rejected")
			}
			if fail != "" {
				rep.Fail(key, c22Classify(cs, key), fail, cs)
			}
			coq = append(coq, c22CoqKeys(cs.NS, cs.T1, cs.P1, cs.Base, cs.Group), c22CoqKeys(cs.NS, cs.T2, cs.P2, cs.Base, cs.Group))
			jsons = append(jsons, string(canon), string(canon))
		case "join":
			rep.Count(string(canon), true)
			rep.Hist("join")
			coq = append(coq, fmt.Sprintf("KJoin %s %s", c22Strs(cs.Elems), c22Str(path.Join(cs.Elems...))))
			jsons = append(jsons, string(canon))
		case "parse":
			rep.Count(string(canon), true)
			rep.Hist("parse")
			g, tp, p, ok := metadata.ParseConsumerOffsetKey(cs.Key)
			c1 := "None"
			if ok {
				c1 = fmt.Sprintf("(Some (%s, %s, %s))", c22Str(g), c22Str(tp), cqZ(int64(p)))
			}
			gid, ok2 := metadata.ParseConsumerGroupID(cs.Key)
			c2 := "None"
			if ok2 {
				c2 = "(Some " + c22Str(gid) + ")"
			}
			coq = append(coq, fmt.Sprintf("KParse %s %s %s", c22Str(cs.Key), c1, c2))
			jsons = append(jsons, string(canon))
		}
		rep.Sample(cs)
	}
	if rc := vReplayCase(); rc != nil {
		var cs c22Case
		if err := json.Unmarshal(rc, &cs); err != nil {
			t.Fatalf("bad replay: %v", err)
		}
		runOne(cs)
	} else {
		corpus := []c22Case{
			{Kind: "pair", NS: "default", T1: "a/../b", T2: "b"},
			{Kind: "pair", NS: "default", T1: "a/0", P1: 1, T2: "a", P2: 0},
			{Kind: "pair", NS: "default", T1: ".", T2: "default", P2: 0},
			{Kind: "pair", NS: "ns", T1: "a", P1: 1, T2: "a", P2: 10},
			{Kind: "pair", NS: "", T1: "a.b", T2: "a", P1: 0, P2: 0},
			{Kind: "join", Elems: []string{"default", "a/../b", "0", "segment-00000000000000000000.kfs"}},
			{Kind: "join", Elems: []string{"", "", "x"}},
			{Kind: "join", Elems: []string{"/", "..", "a"}},
			{Kind: "parse", Key: "/kafscale/consumers/g1/offsets/orders/3"},
			{Kind: "parse", Key: "/kafscale/consumers/g1/metadata"},
			{Kind: "parse", Key: "/kafscale/consumers/a/offsets/b/offsets/c/0"},
		}
		for _, cs := range corpus {
			runOne(cs)
		}
		// edge sweep: every literal edge name goes through the real CreateTopic; whatever it
		// accepts is checked for isolation against its likely partners (both partition orders)
		// and for staying inside its namespace; the verdicts go to the correspondence
		edge := c22EdgeNames()
		swept := 0
		for ei, name := range edge {
			if ei%23 == int(vSeed()%23) || (len(name) < 3 && name[0] < 0x80 && name[0] >= 0x20) || ei < 22 { // short ones always, the byte family in rotating slices
				coq = append(coq, c22CoqKeys("default", name, 0, 0, "g"))
				jsons = append(jsons, fmt.Sprintf(`{"kind":"pair","ns":"default","t1":%q,"t2":%q}`, name, name))
			}
			if !c22Accepted(name, 0) {
				rep.Hist("edge:rejected")
				continue
			}
			rep.Hist("edge:accepted")
			for _, ns := range []string{"default", "ns"} {
				if what := c22NamespaceEscape(ns, name, 0); what != "" {
					cs := c22Case{Kind: "pair", NS: ns, T1: name, T2: name, P2: 1}
					rep.Fail("s3-key-outside-namespace", c22Classify(cs, "s3-key-outside-namespace"), what, cs)
				}
			}
			for _, partner := range c22Partners(name) {
				for _, pp := range [][2]int32{{0, 0}, {0, 1}, {1, 0}} {
					cs := c22Case{Kind: "pair", NS: "default", T1: name, P1: pp[0], T2: partner, P2: pp[1], Group: "g"}
					swept++
					if key, fail := c22Pair(cs); fail != "" {
						rep.Fail(key, c22Classify(cs, key), fail, cs)
					}
					cs.T1, cs.T2 = cs.T2, cs.T1
					if key, fail := c22Pair(cs); fail != "" {
						rep.Fail(key, c22Classify(cs, key), fail, cs)
					}
				}
			}
		}
		rep.Notes = append(rep.Notes, fmt.Sprintf("edge sweep: %d literal edge names, %d isolation pairs over the accepted ones", len(edge), swept))
		r := vNewRand(vSeed())
		n := vN(180, 2600)
		segs := []string{"a", "b", "", ".", "..", "/", "a/b", "a/", "/a", "../", "x.y", "a//b", "...", "ü"}
		for i := 0; i < n; i++ {
			rr := r.Fork()
			switch {
			case i%5 == 3:
				cs := c22Case{Kind: "join"}
				for k := 0; k < rr.Range(0, 5); k++ {
					cs.Elems = append(cs.Elems, segs[rr.Intn(len(segs))])
				}
				runOne(cs)
			case i%5 == 4:
				g := []string{"g1", "a/b", "", "offsets", "g"}[rr.Intn(5)]
				tp := c22Names[rr.Intn(len(c22Names))]
				var key string
				switch rr.Intn(5) {
				case 0:
					key = metadata.ConsumerGroupKey(g)
				case 1:
					key = metadata.ConsumerOffsetKey(g, tp, int32(rr.Range(-1, 30))) + []string{"", "", "x", "/"}[rr.Intn(4)]
				case 2:
					key = "/kafscale/consumers/" + g + "/offsets/" + tp + "/" + []string{"+1", "007", "-0", "", "2147483648", "1e3", " 1"}[rr.Intn(7)]
				case 3:
					key = metadata.TopicConfigKey(tp)
				default:
					key = metadata.ConsumerOffsetKey(g, tp, int32(rr.Range(0, 3)))
				}
				runOne(c22Case{Kind: "parse", Key: key})
			default:
				runOne(c22GenPair(rr))
			}
		}
	}
	rep.Cases("C22", "From Coq Require Import String.\nFrom KS Require Import lib.Base lib.Strings lib.Paths model.MetaStore gen.McpCalls corr.MetaStoreCorr.\nOpen Scope string_scope.", "case22", "check_case22", coq, jsons)
	rep.Write()
	if len(rep.Failures) > 0 {
		t.Logf("oracle failures: %s", strings.TrimSpace(rep.Failures[0].What))
	}
}
