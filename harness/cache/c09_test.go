package cache

// C09 harness: runs generated Set/Get sequences on the real SegmentCache, checks the
// property clauses directly on what the real code did (implementation-side oracle)
// and emits every executed case, with the observations after each operation, as a
// Coq term for the model/code correspondence check (corr/CacheCorr.v).

import (
	"bytes"
	"encoding/json"
	"fmt"
	"strings"
	"sync"
	"testing"
)

type c09Op struct {
	Set   bool   `json:"set"`
	Topic string `json:"topic"`
	Part  int32  `json:"part"`
	Base  int64  `json:"base"`
	Data  []byte `json:"data,omitempty"`
}
type c09Case struct {
	Cap int     `json:"cap"`
	Ops []c09Op `json:"ops"`
}

type c09Obs struct {
	hit  bool
	data []byte
	size int
	keys []string // oldest first
}

type c09Key struct {
	t string
	p int32
	b int64
}

// c09Run executes the case; returns observations and the first oracle failure ("" if none).
func c09Run(cs c09Case, concurrent bool) ([]c09Obs, string, string) {
	c := NewSegmentCache(cs.Cap)
	capEff := cs.Cap
	if capEff <= 0 {
		capEff = 1
	}
	ref := map[c09Key][]byte{} // last value set per API key
	type handout struct {
		slice []byte
		snap  []byte
		at    int
	}
	var handouts []handout
	var obs []c09Obs
	fail, failKey := "", ""
	setFail := func(k, f string) {
		if fail == "" {
			fail, failKey = f, k
		}
	}
	var wg sync.WaitGroup
	var scratch []byte
	for i, op := range cs.Ops {
		var o c09Obs
		if op.Set {
			// the writer hands SetSegment a scratch buffer it keeps using afterwards (a pooled
			// buffer): the cache must hold its own copy, so scribbling on the buffer after the
			// call must not change what later lookups (or earlier hand-outs) see
			scratch = append(scratch[:0], op.Data...)
			c.SetSegment(op.Topic, op.Part, op.Base, scratch)
			for k := range scratch {
				scratch[k] ^= 0xA5
			}
			ref[c09Key{op.Topic, op.Part, op.Base}] = append([]byte(nil), op.Data...)
		} else {
			d, ok := c.GetSegment(op.Topic, op.Part, op.Base)
			o.hit = ok
			if ok {
				o.data = append([]byte(nil), d...)
				handouts = append(handouts, handout{slice: d, snap: o.data, at: i})
				want, had := ref[c09Key{op.Topic, op.Part, op.Base}]
				if !had || !bytes.Equal(want, d) {
					setFail("lookup-not-latest", fmt.Sprintf("op %d: Get(%q,%d,%d) returned %v, last set under that key: %v (ever set: %v)", i, op.Topic, op.Part, op.Base, d, want, had))
				}
				if concurrent {
					// a reader keeps using the handed-out slice while later operations run
					wg.Add(1)
					go func(s, snap []byte) {
						defer wg.Done()
						for k := 0; k < 50; k++ {
							if !bytes.Equal(s, snap) {
								return
							}
						}
					}(d, o.data)
				}
			}
		}
		// in-package view of the real state
		c.mu.Lock()
		o.size = c.size
		total := 0
		for e := c.ll.Back(); e != nil; e = e.Prev() {
			ent := e.Value.(*cacheEntry)
			o.keys = append(o.keys, ent.key)
			total += len(ent.data)
		}
		nItems := len(c.items)
		c.mu.Unlock()
		if total > capEff {
			setFail("over-capacity", fmt.Sprintf("op %d: cache holds %d bytes, capacity %d", i, total, capEff))
		}
		if total != o.size || nItems != len(o.keys) {
			setFail("size-accounting", fmt.Sprintf("op %d: size field %d, held %d, list %d, map %d", i, o.size, total, len(o.keys), nItems))
		}
		for _, h := range handouts {
			if !bytes.Equal(h.slice, h.snap) {
				setFail("handout-changed", fmt.Sprintf("op %d: bytes handed out by op %d changed from %v to %v", i, h.at, h.snap, h.slice))
			}
		}
		obs = append(obs, o)
	}
	wg.Wait()
	return obs, fail, failKey
}

func c09Gen(r *vRand) c09Case {
	cs := c09Case{}
	switch r.Intn(10) {
	case 0:
		cs.Cap = r.Range(-2, 1)
	case 1, 2:
		cs.Cap = r.Range(1, 8)
	default:
		cs.Cap = r.Range(8, 64)
	}
	topics := []string{"a", "b", "a:1", "orders", "a:1:2", ""}
	nk := r.Range(1, 5)
	type k struct {
		t string
		p int32
		b int64
	}
	keys := make([]k, nk)
	for i := range keys {
		keys[i] = k{topics[r.Intn(len(topics))], int32(r.Range(-1, 12)), int64(r.Range(-1, 12))}
		if r.Chance(10) {
			keys[i].b = int64(r.U64())
		}
	}
	n := r.Range(3, 24)
	for i := 0; i < n; i++ {
		kk := keys[r.Intn(nk)]
		op := c09Op{Topic: kk.t, Part: kk.p, Base: kk.b}
		if r.Chance(55) {
			op.Set = true
			var sz int
			switch r.Intn(6) {
			case 0:
				sz = 0
			case 1:
				sz = r.Range(cs.Cap, cs.Cap*2+2) // around / above capacity
			default:
				sz = r.Range(1, 12)
			}
			if sz < 0 {
				sz = 0
			}
			op.Data = r.Bytes(sz)
		}
		cs.Ops = append(cs.Ops, op)
	}
	return cs
}

func c09Coq(cs c09Case, obs []c09Obs) string {
	ops := make([]string, len(cs.Ops))
	os_ := make([]string, len(obs))
	for i, op := range cs.Ops {
		if op.Set {
			ops[i] = fmt.Sprintf("OSet %s %s %s %s", cqStr(op.Topic), cqZ(int64(op.Part)), cqZ(op.Base), cqBytes(op.Data))
		} else {
			ops[i] = fmt.Sprintf("OGet %s %s %s", cqStr(op.Topic), cqZ(int64(op.Part)), cqZ(op.Base))
		}
	}
	for i, o := range obs {
		ks := make([]string, len(o.keys))
		for j, k := range o.keys {
			ks[j] = cqStr(k)
		}
		os_[i] = fmt.Sprintf("mkObs %s %s %s %s", cqBool(o.hit), cqBytes(o.data), cqZ(int64(o.size)), cqList(ks))
	}
	return fmt.Sprintf("mkCase %s %s %s", cqZ(int64(cs.Cap)), cqList(ops), cqList(os_))
}

func c09Nontrivial(cs c09Case, obs []c09Obs) (bool, map[string]bool) {
	tags := map[string]bool{}
	prevKeys := 0
	overwrite := map[string]bool{}
	for i, op := range cs.Ops {
		k := fmt.Sprintf("%s|%d|%d", op.Topic, op.Part, op.Base)
		if op.Set {
			if overwrite[k] {
				tags["overwrite"] = true
			}
			overwrite[k] = true
			if len(op.Data) > cs.Cap {
				tags["oversized"] = true
			}
			if len(obs[i].keys) <= prevKeys && len(obs[i].keys) < len(overwrite) {
				tags["eviction"] = true
			}
		} else if obs[i].hit {
			tags["hit"] = true
		} else {
			tags["miss"] = true
		}
		prevKeys = len(obs[i].keys)
	}
	return tags["hit"] && (tags["overwrite"] || tags["eviction"]), tags
}

func TestVerifC09(t *testing.T) {
	rep := vNewReport("C09", "generated Set/Get sequences (3-24 ops, 1-5 API keys incl. topics containing ':', sizes 0..2*capacity+2, capacities -2..64) on the real SegmentCache; a case is non-trivial when it has a Get hit and an overwrite or an eviction; distinct = distinct canonical (capacity, op list)")
	var coq, jsons []string
	runOne := func(cs c09Case, conc bool) {
		obs, fail, key := c09Run(cs, conc)
		canon, _ := json.Marshal(cs)
		nt, tags := c09Nontrivial(cs, obs)
		rep.Count(string(canon), nt)
		for tg := range tags {
			rep.Hist(tg)
		}
		rep.Hist(fmt.Sprintf("ops<=%d", ((len(cs.Ops)+7)/8)*8))
		rep.Sample(cs)
		if fail != "" {
			shr := cs
			shr.Ops = vShrink(cs.Ops, func(ops []c09Op) bool {
				_, f, k := c09Run(c09Case{Cap: cs.Cap, Ops: ops}, false)
				return f != "" && k == key
			})
			_, f2, _ := c09Run(shr, false)
			if f2 == "" {
				shr, f2 = cs, fail
			}
			rep.Fail(key, key, f2, shr)
		}
		coq = append(coq, c09Coq(cs, obs))
		jsons = append(jsons, string(canon))
	}
	if rc := vReplayCase(); rc != nil {
		var cs c09Case
		if err := json.Unmarshal(rc, &cs); err != nil {
			t.Fatalf("bad replay: %v", err)
		}
		runOne(cs, false)
	} else {
		// corpus first: the shapes of earlier findings
		corpus := []c09Case{
			{Cap: 16, Ops: []c09Op{{Set: true, Topic: "t", Data: []byte("abc")}, {Topic: "t"}, {Set: true, Topic: "t", Data: []byte("xyz")}, {Topic: "t"}}},
			{Cap: 4, Ops: []c09Op{{Set: true, Topic: "t", Data: []byte("abcdefgh")}, {Topic: "t"}}},
			{Cap: 64, Ops: []c09Op{{Set: true, Topic: "a:1", Part: 2, Base: 3, Data: []byte("x")}, {Topic: "a", Part: 1, Base: 2}, {Topic: "a:1", Part: 2, Base: 3}}},
		}
		for _, cs := range corpus {
			runOne(cs, false)
		}
		r := vNewRand(vSeed())
		n := vN(400, 6000)
		for i := 0; i < n; i++ {
			runOne(c09Gen(r.Fork()), i%4 == 0)
		}
	}
	rep.Cases("C09", "From KS Require Import lib.Base lib.Strings model.Cache corr.CacheCorr.", "case", "check_case", coq, jsons)
	rep.Write()
	if len(rep.Failures) > 0 {
		t.Logf("oracle failures: %s", strings.TrimSpace(rep.Failures[0].What))
	}
}
