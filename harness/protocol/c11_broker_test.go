package main

// C11 harness, broker side (overlaid into cmd/broker, package main):
//   * the ApiVersions entries the running handler advertises are emitted for comparison
//     with the go/ast-extracted table (gen/ApiTables.v);
//   * every advertised (key, version) x generated request bodies (kmsg defaults, names of
//     existing topics, reflection-filled random values) goes through the real
//     protocol.ParseRequest + handler.Handle over an in-memory store and memory S3; the
//     reply must exist, carry the request's correlation id, have the Kafka header shape
//     and decode with kmsg at the same version;
//   * every (key, version) kmsg knows — advertised or not — plus versions above the
//     known maximum goes through a real broker.Server on a loopback TCP socket
//     (ReadFrame, ParseRequest, Handle, buildErrorResponse, WriteFrame): whatever reply
//     arrives must decode at that version.

import (
	"bytes"
	"context"
	"encoding/binary"
	"encoding/json"
	"errors"
	"fmt"
	"io"
	"log"
	"net"
	"os"
	"reflect"
	"sort"
	"strings"
	"sync"
	"testing"
	"time"

	"github.com/twmb/franz-go/pkg/kmsg"

	"github.com/KafScale/platform/pkg/broker"
	"github.com/KafScale/platform/pkg/metadata"
	"github.com/KafScale/platform/pkg/protocol"
	"github.com/KafScale/platform/pkg/storage"
)

type c11Case struct {
	Key     int16  `json:"key"`
	Version int16  `json:"version"`
	Body    []byte `json:"body"`
	Via     string `json:"via"` // "handle" | "server"
	Class   string `json:"class"`
}

func c11Str(r *vRand) string {
	if r.Intn(3) == 0 {
		return []string{"orders", "events", "g1", "verif-topic"}[r.Intn(4)]
	}
	n := r.Intn(9)
	b := make([]byte, n)
	for i := range b {
		b[i] = "abcdefghijklmnopqrstuvwxyz-._0123456789"[r.Intn(39)]
	}
	return string(b)
}

func c11Fill(r *vRand, v reflect.Value, depth int) {
	switch v.Kind() {
	case reflect.Bool:
		v.SetBool(r.Bool())
	case reflect.Int8, reflect.Int16, reflect.Int32, reflect.Int64:
		bits := v.Type().Bits()
		var x int64
		switch r.Intn(6) {
		case 0:
			x = -1
		case 1:
			x = int64(1)<<(bits-1) - 1
		case 2:
			x = 0
		default:
			x = int64(r.Intn(20))
		}
		v.SetInt(x)
	case reflect.Uint8, reflect.Uint16, reflect.Uint32, reflect.Uint64:
		v.SetUint(uint64(r.Intn(200)))
	case reflect.Float64:
		v.SetFloat(float64(r.Intn(100)))
	case reflect.String:
		v.SetString(c11Str(r))
	case reflect.Ptr:
		if r.Intn(3) == 0 {
			v.Set(reflect.Zero(v.Type()))
			return
		}
		p := reflect.New(v.Type().Elem())
		c11Fill(r, p.Elem(), depth)
		v.Set(p)
	case reflect.Slice:
		if v.Type().Elem().Kind() == reflect.Uint8 {
			if r.Intn(3) == 0 {
				v.Set(reflect.Zero(v.Type()))
			} else {
				v.SetBytes(r.Bytes(r.Intn(10)))
			}
			return
		}
		n := r.Intn(3)
		if depth > 3 {
			n = r.Intn(2)
		}
		s := reflect.MakeSlice(v.Type(), n, n)
		for i := 0; i < n; i++ {
			c11Fill(r, s.Index(i), depth+1)
		}
		v.Set(s)
	case reflect.Array:
		for i := 0; i < v.Len(); i++ {
			c11Fill(r, v.Index(i), depth+1)
		}
	case reflect.Struct:
		t := v.Type()
		for i := 0; i < v.NumField(); i++ {
			f := t.Field(i)
			if !f.IsExported() || f.Name == "Version" || f.Name == "UnknownTags" {
				continue
			}
			if v.Field(i).CanSet() {
				c11Fill(r, v.Field(i), depth+1)
			}
		}
	}
}

// c11Tame keeps generated requests from waiting (long polls, rebalance/session timers) or asking for no reply.
func c11Tame(r *vRand, req kmsg.Request) {
	switch q := req.(type) {
	case *kmsg.ProduceRequest:
		if q.Acks == 0 {
			q.Acks = []int16{1, -1}[r.Intn(2)]
		}
		q.TimeoutMillis = int32(r.Intn(50))
		for i := range q.Topics {
			for j := range q.Topics[i].Partitions {
				if r.Bool() {
					q.Topics[i].Partitions[j].Records = nil
				}
			}
		}
	case *kmsg.FetchRequest:
		q.MaxWaitMillis = int32(r.Intn(3))
		q.MinBytes = 0
	case *kmsg.ListOffsetsRequest:
		// resource bound of the generator: v0's MaxNumOffsets is used as a slice capacity by
		// handleListOffsets (make([]int64, 0, max)): 2^31-1 asks for 16 GiB. Reported separately.
		for i := range q.Topics {
			for j := range q.Topics[i].Partitions {
				if q.Topics[i].Partitions[j].MaxNumOffsets > 64 {
					q.Topics[i].Partitions[j].MaxNumOffsets = int32(r.Range(1, 64))
				}
			}
		}
	case *kmsg.JoinGroupRequest:
		q.SessionTimeoutMillis = int32(r.Range(10, 50))
		q.RebalanceTimeoutMillis = int32(r.Range(10, 50))
		// resource bound of the generator: protocol metadata is a well-formed consumer subscription
		// (version, topic array, user data) or shorter than its 6-byte prefix. Arbitrary bytes make
		// parseSubscriptionTopics allocate make([]string, 0, <client-chosen uint32>) — tens of GB under
		// the coordinator lock — which is a resource-exhaustion defect reported separately.
		for i := range q.Protocols {
			if r.Intn(4) == 0 {
				q.Protocols[i].Metadata = r.Bytes(r.Intn(6))
				continue
			}
			var md []byte
			n := r.Intn(3)
			md = append(md, 0, byte(r.Intn(2)), 0, 0, 0, byte(n))
			for k := 0; k < n; k++ {
				name := c11Str(r)
				md = append(md, 0, byte(len(name)))
				md = append(md, name...)
			}
			md = append(md, 0, 0, 0, 0)
			q.Protocols[i].Metadata = md
		}
	case *kmsg.CreateTopicsRequest:
		q.TimeoutMillis = int32(r.Intn(50))
		// resource bound of the generator: partition / replica counts stay small (a CreateTopics with
		// NumPartitions near MaxInt32 makes the store allocate that many partitions: out of memory,
		// reported separately — it is not what this property is about)
		for i := range q.Topics {
			if q.Topics[i].NumPartitions > 64 {
				q.Topics[i].NumPartitions = int32(r.Range(1, 64))
			}
			if q.Topics[i].ReplicationFactor > 8 {
				q.Topics[i].ReplicationFactor = int16(r.Range(1, 3))
			}
		}
	case *kmsg.DeleteTopicsRequest:
		q.TimeoutMillis = int32(r.Intn(50))
	case *kmsg.CreatePartitionsRequest:
		q.TimeoutMillis = int32(r.Intn(50))
		for i := range q.Topics {
			if q.Topics[i].Count > 64 {
				q.Topics[i].Count = int32(r.Range(1, 64))
			}
		}
	}
}

func c11GenBody(r *vRand, key, ver int16, mode int) (body []byte, class string, ok bool) {
	req := kmsg.RequestForKey(key)
	if req == nil {
		return nil, "", false
	}
	req.SetVersion(ver)
	defer func() {
		if rec := recover(); rec != nil {
			ok = false
		}
	}()
	class = "default-body"
	if mode > 0 {
		c11Fill(r, reflect.ValueOf(req).Elem(), 0)
		req.SetVersion(ver)
		class = "generated-body"
	}
	c11Tame(r, req)
	return req.AppendTo(nil), class, true
}

func c11Payload(key, ver int16, corr int32, body []byte) []byte {
	out := make([]byte, 8)
	binary.BigEndian.PutUint16(out[0:], uint16(key))
	binary.BigEndian.PutUint16(out[2:], uint16(ver))
	binary.BigEndian.PutUint32(out[4:], uint32(corr))
	out = append(out, 0, 5, 'v', 'e', 'r', 'i', 'f')
	rq := kmsg.RequestForKey(key)
	if rq != nil {
		rq.SetVersion(ver)
		if rq.IsFlexible() {
			out = append(out, 0)
		}
	}
	return append(out, body...)
}

// c11Decode: does reply decode at (key, ver) with the given header shape, and does the decoded
// response re-encode to exactly the reply's body bytes (used only to tell the two shapes apart)?
func c11Decode(key, ver int16, reply []byte, flexible bool) (decoded, exact bool) {
	resp := kmsg.ResponseForKey(key)
	if resp == nil || len(reply) < 4 {
		return false, false
	}
	resp.SetVersion(ver)
	off := 4
	if flexible {
		if len(reply) < 5 || reply[4] != 0 {
			return false, false
		}
		off = 5
	}
	defer func() {
		if rec := recover(); rec != nil {
			decoded, exact = false, false
		}
	}()
	if err := resp.ReadFrom(reply[off:]); err != nil {
		return false, false
	}
	return true, bytes.Equal(resp.AppendTo(nil), reply[off:])
}

// c11Shape: 1 flexible header, 0 non-flexible, 2 undecidable; dec = decodes with that shape at ver
func c11Shape(key, ver int16, reply []byte) (shape int, dec bool) {
	d0, e0 := c11Decode(key, ver, reply, false)
	d1, e1 := c11Decode(key, ver, reply, true)
	switch {
	case e1 && !e0:
		return 1, true
	case e0 && !e1:
		return 0, true
	case d1 && !d0:
		return 1, true
	case d0 && !d1:
		return 0, true
	}
	return 2, d0 || d1
}


// ---------------------------------------------------------------- boundary-size stream
//
// For every advertised (key, version) and every string / nullable string / bytes / array field of the
// request (nested fields are reached through one-element arrays), requests whose field has a boundary
// size: 0, 1, 127/128, 255/256, 32766/32767/32768 (65536 for bytes) — whatever the request encoding
// allows (kmsg rejecting the request is not a case). Numeric fields are 0 or 1, so that many of these
// requests FAIL in the handler and error strings derived from the request are produced; every request
// is sent twice (the second attempt hits "already exists" paths). The reply must decode at the request
// version; the longest string found in each decoded response is recorded per (key, version).

// c11Expand gives every array one element and every string a short value, so nested fields exist.
func c11Expand(v reflect.Value, depth int, one int64) {
	switch v.Kind() {
	case reflect.Int8, reflect.Int16, reflect.Int32, reflect.Int64:
		v.SetInt(one)
	case reflect.String:
		v.SetString("t")
	case reflect.Ptr:
		if v.Type().Elem().Kind() == reflect.String {
			s := "t"
			v.Set(reflect.ValueOf(&s))
		}
	case reflect.Slice:
		if v.Type().Elem().Kind() == reflect.Uint8 {
			v.SetBytes([]byte{1})
			return
		}
		if depth > 5 {
			return
		}
		s := reflect.MakeSlice(v.Type(), 1, 1)
		c11Expand(s.Index(0), depth+1, one)
		v.Set(s)
	case reflect.Struct:
		t := v.Type()
		for i := 0; i < v.NumField(); i++ {
			f := t.Field(i)
			if !f.IsExported() || f.Name == "Version" || f.Name == "UnknownTags" || !v.Field(i).CanSet() {
				continue
			}
			c11Expand(v.Field(i), depth+1, one)
		}
	}
}

// c11WalkSet visits the size-carrying leaves in a fixed order; leaf number target gets size L.
// Returns the kinds of the leaves visited ("string", "bytes", "array-scalar", "array-struct").
func c11WalkSet(v reflect.Value, n *int, target, L int, path string, kinds *[]string) {
	hit := func(kind string) bool {
		*kinds = append(*kinds, kind+" "+path)
		*n++
		return *n-1 == target
	}
	switch v.Kind() {
	case reflect.String:
		if hit("string") {
			v.SetString(strings.Repeat("a", L))
		}
	case reflect.Ptr:
		if v.Type().Elem().Kind() == reflect.String {
			if hit("string") {
				s := strings.Repeat("a", L)
				v.Set(reflect.ValueOf(&s))
			}
		}
	case reflect.Slice:
		if v.Type().Elem().Kind() == reflect.Uint8 {
			if hit("bytes") {
				v.SetBytes(bytes.Repeat([]byte{7}, L))
			}
			return
		}
		kind := "array-scalar"
		if v.Type().Elem().Kind() == reflect.Struct {
			kind = "array-struct"
		}
		if hit(kind) {
			s := reflect.MakeSlice(v.Type(), L, L)
			for i := 0; i < L && v.Len() > 0; i++ {
				s.Index(i).Set(v.Index(0))
			}
			v.Set(s)
			return
		}
		for i := 0; i < v.Len(); i++ {
			c11WalkSet(v.Index(i), n, target, L, path+"[]", kinds)
		}
	case reflect.Struct:
		t := v.Type()
		for i := 0; i < v.NumField(); i++ {
			f := t.Field(i)
			if !f.IsExported() || f.Name == "Version" || f.Name == "UnknownTags" || !v.Field(i).CanSet() {
				continue
			}
			c11WalkSet(v.Field(i), n, target, L, path+"."+f.Name, kinds)
		}
	}
}

// c11Boundary builds the request for (key, ver) whose leaf number target has size L; ok=false past the last leaf.
func c11Boundary(key, ver int16, one int64, target, L int) (body []byte, kind string, ok bool) {
	req := kmsg.RequestForKey(key)
	req.SetVersion(ver)
	defer func() {
		if rec := recover(); rec != nil {
			ok = false
		}
	}()
	c11Expand(reflect.ValueOf(req).Elem(), 0, one)
	req.SetVersion(ver)
	n := 0
	var kinds []string
	c11WalkSet(reflect.ValueOf(req).Elem(), &n, target, L, "", &kinds)
	if target >= n {
		return nil, "", false
	}
	c11Tame(vNewRand(uint64(target)*131+uint64(L)), req)
	return req.AppendTo(nil), kinds[target], true
}

// c11MaxString: the longest string / nullable string in a decoded kmsg response.
func c11MaxString(v reflect.Value, depth int) int {
	m := 0
	switch v.Kind() {
	case reflect.String:
		return v.Len()
	case reflect.Ptr, reflect.Interface:
		if !v.IsNil() && depth < 12 {
			return c11MaxString(v.Elem(), depth+1)
		}
	case reflect.Slice, reflect.Array:
		if v.Type().Elem().Kind() == reflect.Uint8 {
			return 0
		}
		for i := 0; i < v.Len(); i++ {
			if x := c11MaxString(v.Index(i), depth+1); x > m {
				m = x
			}
		}
	case reflect.Struct:
		for i := 0; i < v.NumField(); i++ {
			if v.Type().Field(i).IsExported() {
				if x := c11MaxString(v.Field(i), depth+1); x > m {
					m = x
				}
			}
		}
	}
	return m
}

func c11ReplyMaxString(key, ver int16, reply []byte, flexible bool) int {
	resp := kmsg.ResponseForKey(key)
	resp.SetVersion(ver)
	off := 4
	if flexible {
		off = 5
	}
	if len(reply) < off || resp.ReadFrom(reply[off:]) != nil {
		return -1
	}
	return c11MaxString(reflect.ValueOf(resp).Elem(), 0)
}

const c11Deadline = 3 * time.Second

type c11Obs struct {
	panicked    bool
	msg         string
	err         error
	reply       []byte
	replied     bool
	unsupported bool
	guard       bool
	hung        bool // Handle returned only because the harness's deadline cancelled the context
}

func c11ViaHandle(h *handler, payload []byte) (o c11Obs) {
	defer func() {
		if r := recover(); r != nil {
			o.panicked, o.msg = true, fmt.Sprint(r)
		}
	}()
	header, req, err := protocol.ParseRequest(payload)
	if err != nil {
		o.err = fmt.Errorf("parse: %w", err)
		return o
	}
	// the real server's context has no deadline: a handler that returns only when this one
	// expires would never answer
	ctx, cancel := context.WithTimeout(context.Background(), c11Deadline)
	defer cancel()
	t0 := time.Now()
	if wd := os.Getenv("VERIF_C11_WATCHDOG"); wd != "" {
		tm := time.AfterFunc(8*time.Second, func() {
			_ = os.WriteFile(wd, []byte(fmt.Sprintf("key=%d v=%d payload=%x\n", header.APIKey, header.APIVersion, payload)), 0o644)
		})
		defer tm.Stop()
	}
	resp, err := h.Handle(ctx, header, req)
	o.err = err
	if ctx.Err() != nil && time.Since(t0) >= c11Deadline {
		// suspected: confirm with a ten times longer deadline, so that a slow machine is not mistaken for a handler
		// that only returns when its context is cancelled
		ctx2, cancel2 := context.WithTimeout(context.Background(), 10*c11Deadline)
		defer cancel2()
		t1 := time.Now()
		resp, err = h.Handle(ctx2, header, req)
		o.err = err
		o.hung = ctx2.Err() != nil && time.Since(t1) >= 10*c11Deadline
	}
	if err != nil {
		o.unsupported = errors.Is(err, ErrUnsupportedAPI)
		o.guard = strings.Contains(err.Error(), "version") && strings.Contains(err.Error(), "not supported")
	}
	o.reply, o.replied = resp, resp != nil
	return o
}

func c11ViaServer(addr string, payload []byte) (reply []byte, replied bool, err error) {
	conn, err := net.DialTimeout("tcp", addr, 5*time.Second)
	if err != nil {
		return nil, false, err
	}
	defer conn.Close()
	_ = conn.SetDeadline(time.Now().Add(60 * time.Second))
	if err := protocol.WriteFrame(conn, payload); err != nil {
		return nil, false, err
	}
	f, err := protocol.ReadFrame(conn)
	if err != nil {
		return nil, false, nil // connection closed / no reply
	}
	return f.Payload, true, nil
}

func TestVerifC11(t *testing.T) {
	log.SetOutput(io.Discard)
	rep := vNewReport("C11", "every (key, version) pair the running broker advertises x generated request bodies (kmsg default, reflection-filled values incl. existing topic names) through the real ParseRequest + handler.Handle (in-memory store, memory S3), and every (key, version) kmsg knows plus out-of-range versions through a real broker.Server on loopback TCP; reply decoded by kmsg at the request version; non-trivial = an advertised pair with a generated (non-default) body; distinct = distinct (key, version, body)")
	store := metadata.NewInMemoryStore(defaultMetadata())
	h := newHandler(store, storage.NewMemoryS3Client(), protocol.MetadataBroker{NodeID: 1, Host: "localhost", Port: 19092}, testLogger())
	var coq, jsons []string
	emit := func(c string, js any) {
		coq = append(coq, c)
		b, _ := json.Marshal(js)
		jsons = append(jsons, string(b))
	}

	// (a) what the running code advertises
	adv := h.apiVersions
	items := make([]string, len(adv))
	advMax := map[int16]int16{}
	for i, e := range adv {
		items[i] = fmt.Sprintf("(%s, %s, %s)", cqZ(int64(e.ApiKey)), cqZ(int64(e.MinVersion)), cqZ(int64(e.MaxVersion)))
		advMax[e.ApiKey] = e.MaxVersion
	}
	emit("CBrokerTable "+cqList(items), map[string]any{"table": "broker"})
	isAdvertised := func(k, v int16) bool {
		for _, e := range adv {
			if e.ApiKey == k && e.MinVersion <= v && v <= e.MaxVersion && v >= 0 {
				return true
			}
		}
		return false
	}
	// version a standard client decodes the reply at: the request version, except the KIP-511 fallback
	replyVersion := func(k, v int16) int16 {
		if k == 18 && v > advMax[18] {
			return 0
		}
		return v
	}

	quiet := false                    // boundary-size stream: oracle only, no per-case Coq term
	maxStr := map[[2]int16]int{}      // longest string seen in a decoded response, per (key, reply version)
	check := func(cs c11Case, o c11Obs, advertised bool) {
		name := kmsg.NameForKey(cs.Key)
		key := func(s string) string { return fmt.Sprintf("%s:%s-v%d", s, name, cs.Version) }
		rep.Hist("via-" + cs.Via)
		if o.panicked {
			rep.Fail("panic", key("panic"), fmt.Sprintf("%s v%d: handler panicked: %s", name, cs.Version, o.msg), cs)
			return
		}
		if o.hung {
			rep.Fail("advertised-served", "no-reply-hang:"+name, fmt.Sprintf("%s v%d: handler.Handle did not return until the harness cancelled its context (after %v, and again after %v) — the server's context has no deadline: the client never gets a reply and the goroutine spins", name, cs.Version, c11Deadline, 10*c11Deadline), cs)
			return
		}
		if advertised {
			if o.err != nil && (o.guard || o.unsupported) {
				rep.Fail("advertised-served", key("advertised-rejected"), fmt.Sprintf("advertised %s v%d answered with an error instead of a reply: %v", name, cs.Version, o.err), cs)
			} else if o.err != nil {
				// an error caused by the request's content: the server answers through buildErrorResponse; that reply was
				// fetched through the real server (errPathReply) — none arriving is a failure
				rep.Fail("advertised-served", key("error-path-no-reply"), fmt.Sprintf("advertised %s v%d: handler error %v and no error response reached the client", name, cs.Version, o.err), cs)
			} else if !o.replied {
				rep.Fail("advertised-served", key("advertised-no-reply"), fmt.Sprintf("advertised %s v%d got no reply", name, cs.Version), cs)
			}
		}
		shape, rv := 2, cs.Version
		if o.replied {
			rv = replyVersion(cs.Key, cs.Version)
			if len(o.reply) < 4 {
				rep.Fail("decodable", key("reply-short"), fmt.Sprintf("%s v%d: reply of %d bytes", name, cs.Version, len(o.reply)), cs)
			} else {
				if corr := int32(binary.BigEndian.Uint32(o.reply)); corr != 0x0badcafe {
					rep.Fail("correlation", key("correlation"), fmt.Sprintf("%s v%d: reply carries correlation id %#x, request had 0x0badcafe", name, cs.Version, corr), cs)
				}
				var dec bool
				shape, dec = c11Shape(cs.Key, rv, o.reply)
				kresp := kmsg.ResponseForKey(cs.Key)
				kresp.SetVersion(rv)
				want := 0
				if kresp.IsFlexible() && cs.Key != 18 {
					want = 1
				}
				okWant, exactWant := c11Decode(cs.Key, rv, o.reply, want == 1)
				if dec && okWant {
					if m := c11ReplyMaxString(cs.Key, rv, o.reply, want == 1); m > maxStr[[2]int16{cs.Key, rv}] {
						maxStr[[2]int16{cs.Key, rv}] = m
					}
				}
				if !dec || !okWant {
					rep.Fail("decodable", key("undecodable"), fmt.Sprintf("%s v%d: kmsg cannot decode the reply at version %d with the %s header (%d bytes: %x)", name, cs.Version, rv, []string{"non-flexible", "flexible"}[want], len(o.reply), c11Cut(o.reply)), cs)
				} else if !exactWant {
					// kmsg's readers are lenient (a negative string length reads as null, trailing bytes are ignored): a reply
					// that decodes but does not re-encode to the same bytes is mis-framed — a strict client reads garbage
					rep.Fail("decodable", key("misframed"), fmt.Sprintf("%s v%d: the reply decodes at version %d only leniently: re-encoding the decoded response gives different bytes (a length prefix wrapped or bytes are left over); %d bytes: %x", name, cs.Version, rv, len(o.reply), c11Cut(o.reply)), cs)
				} else if shape != 2 && shape != want {
					rep.Fail("header-shape", key("header-shape"), fmt.Sprintf("%s v%d: reply header shape %d, Kafka rule says %d", name, cs.Version, shape, want), cs)
				}
				if shape == 2 {
					shape = want // both shapes decode and re-encode identically: keep the rule's shape, counted below
					rep.Hist("shape-undecidable")
				}
			}
		}
		if !quiet {
			emit(fmt.Sprintf("CReply %s %s %s %s %s %d %s", cqZ(int64(cs.Key)), cqZ(int64(cs.Version)), cqBool(o.unsupported), cqBool(o.guard), cqBool(o.replied), shape, cqZ(int64(rv))), cs)
		}
	}

	// errPathReply: the handler returned an error that is about the request's content (not a version guard /
	// unsupported API): what the client receives is decided by broker.Server's error path — take it from there.
	srvFor := map[*handler]string{}
	errPathReply := func(hh *handler, cs c11Case, o c11Obs) c11Obs {
		if o.err == nil || o.guard || o.unsupported || o.panicked || o.hung {
			return o
		}
		addr, ok := srvFor[hh]
		if !ok {
			addr = c11Serve(t, hh)
			srvFor[hh] = addr
		}
		if addr == "" {
			return o
		}
		reply, replied, err := c11ViaServer(addr, c11Payload(cs.Key, cs.Version, 0x0badcafe, cs.Body))
		if err != nil || !replied {
			return o
		}
		rep.Hist("content-error-path")
		o.reply, o.replied, o.err = reply, true, nil
		return o
	}
	runHandle := func(cs c11Case) {
		t0 := time.Now()
		o := c11ViaHandle(h, c11Payload(cs.Key, cs.Version, 0x0badcafe, cs.Body))
		if d := time.Since(t0); d > 300*time.Millisecond {
			rep.Hist("slow-" + kmsg.NameForKey(cs.Key))
		}
		if o.err != nil && strings.HasPrefix(o.err.Error(), "parse:") {
			rep.Hist("body-rejected-by-kmsg")
			return
		}
		rep.Count(fmt.Sprintf("%d/%d/%x", cs.Key, cs.Version, cs.Body), cs.Class == "generated-body" && isAdvertised(cs.Key, cs.Version))
		rep.Hist(cs.Class)
		if o.err != nil {
			o.replied = false
			o = errPathReply(h, cs, o)
		}
		check(cs, o, isAdvertised(cs.Key, cs.Version))
	}

	var srvAddr string
	startServer := func() { srvAddr = c11Serve(t, h) }
	runServer := func(cs c11Case) {
		if srvAddr == "" {
			return
		}
		// classify through Handle's error first (unsupported / guard), then take the real server's reply
		o := c11ViaHandle(h, c11Payload(cs.Key, cs.Version, 0x0badcafe, cs.Body))
		if o.err != nil && strings.HasPrefix(o.err.Error(), "parse:") {
			rep.Hist("body-rejected-by-kmsg")
			return
		}
		reply, replied, err := c11ViaServer(srvAddr, c11Payload(cs.Key, cs.Version, 0x0badcafe, cs.Body))
		if err != nil {
			rep.Notes = append(rep.Notes, "server path unavailable: "+err.Error())
			return
		}
		o.reply, o.replied = reply, replied
		herr := o.err
		o.err = nil // through the server an error becomes buildErrorResponse's reply
		rep.Count(fmt.Sprintf("s%d/%d/%x", cs.Key, cs.Version, cs.Body), false)
		if herr != nil {
			rep.Hist("server-error-path")
			if !replied {
				rep.Fail("decodable", fmt.Sprintf("error-path-no-reply:%s-v%d", kmsg.NameForKey(cs.Key), cs.Version), fmt.Sprintf("%s v%d: handler error %v and no error response reached the client", kmsg.NameForKey(cs.Key), cs.Version, herr), cs)
			}
		}
		check(cs, o, false)
	}

	if rc := vReplayCase(); rc != nil {
		var cs c11Case
		if err := json.Unmarshal(rc, &cs); err != nil {
			t.Fatalf("bad replay: %v", err)
		}
		var probe struct {
			Path string `json:"path"`
		}
		_ = json.Unmarshal(rc, &probe)
		if probe.Path != "" || cs.Via == "concurrent" {
			// a proxy-side replay: handled by the proxy harness
		} else if cs.Via == "server" {
			startServer()
			runServer(cs)
		} else {
			runHandle(cs)
		}
	} else {
		// corpus: the shape of an earlier finding first — Produce to a partition index the (auto-created)
		// topic does not have made getPartitionLog retry ensureTopic forever
		{
			rq := kmsg.NewPtrProduceRequest()
			rq.SetVersion(7)
			rq.Acks = -1
			rq.TimeoutMillis = 10
			tp := kmsg.NewProduceRequestTopic()
			tp.Topic = "c11-corpus"
			pp := kmsg.NewProduceRequestTopicPartition()
			pp.Partition = -1
			tp.Partitions = append(tp.Partitions, pp)
			rq.Topics = append(rq.Topics, tp)
			runHandle(c11Case{Key: 0, Version: 7, Body: rq.AppendTo(nil), Via: "handle", Class: "generated-body"})
		}
		r := vNewRand(vSeed())
		per := 3 // bodies per advertised pair; the failing-input search (VERIF_N) is capped
		if vTier() == "thorough" {
			per = 40
		}
		if n := vN(0, 0); n > 0 {
			per = 12
		}
		for _, e := range adv {
			for v := e.MinVersion; v <= e.MaxVersion && v >= 0; v++ {
				for k := 0; k < per; k++ {
					mode := 1
					if k == 0 {
						mode = 0
					}
					if body, class, ok := c11GenBody(r.Fork(), e.ApiKey, v, mode); ok {
						runHandle(c11Case{Key: e.ApiKey, Version: v, Body: body, Via: "handle", Class: class})
					}
				}
			}
		}
		// boundary-size stream (own handler + store: it creates topics with very long names)
		{
			hb := newHandler(metadata.NewInMemoryStore(defaultMetadata()), storage.NewMemoryS3Client(), protocol.MetadataBroker{NodeID: 1, Host: "localhost", Port: 19092}, testLogger())
			strLens := []int{0, 1, 127, 128, 255, 256, 32766, 32767, 32768}
			byteLens := []int{0, 1, 127, 128, 255, 256, 32767, 32768, 65536}
			arrLens := []int{0, 1, 127, 128, 255, 256}
			bigArr := []int{32767, 32768}
			quiet = true
			for _, e := range adv {
				for v := e.MinVersion; v <= e.MaxVersion && v >= 0; v++ {
					for target := 0; ; target++ {
						_, kind, ok := c11Boundary(e.ApiKey, v, 1, target, 1)
						if !ok {
							break
						}
						lens := strLens
						switch {
						case strings.HasPrefix(kind, "bytes"):
							lens = byteLens
						case strings.HasPrefix(kind, "array-scalar"):
							lens = arrLens
							if vTier() == "thorough" {
								lens = append(append([]int{}, arrLens...), bigArr...)
							}
						case strings.HasPrefix(kind, "array-struct"):
							lens = arrLens
						}
						for _, L := range lens {
							for _, one := range []int64{0, 1} {
								body, _, ok := c11Boundary(e.ApiKey, v, one, target, L)
								if !ok {
									continue
								}
								cs := c11Case{Key: e.ApiKey, Version: v, Body: body, Via: "handle", Class: "boundary-size"}
								for attempt := 0; attempt < 2; attempt++ { // the second attempt reaches the "already exists" paths
									o := c11ViaHandle(hb, c11Payload(cs.Key, cs.Version, 0x0badcafe, cs.Body))
									if o.err != nil && strings.HasPrefix(o.err.Error(), "parse:") {
										rep.Hist("boundary-rejected-by-kmsg")
										break
									}
									rep.Evaluations++
									rep.Hist("boundary-" + strings.Fields(kind)[0])
									if o.err != nil {
										o.replied = false
										o = errPathReply(hb, cs, o)
									}
									check(cs, o, true)
								}
							}
						}
					}
				}
			}
			quiet = false
		}
		startServer()
		if srvAddr == "" {
			rep.Notes = append(rep.Notes, "loopback server did not start; error path not exercised")
		}
		for k := int16(0); k <= kmsg.MaxKey; k++ {
			rq := kmsg.RequestForKey(k)
			if rq == nil {
				continue
			}
			extra := int16(1)
			if k == 18 {
				extra = 3
			}
			for v := int16(0); v <= rq.MaxVersion()+extra; v++ {
				if isAdvertised(k, v) && vTier() != "thorough" && r.Intn(4) != 0 {
					continue // advertised pairs were covered through Handle; sample them here
				}
				if body, class, ok := c11GenBody(r.Fork(), k, v, 0); ok {
					runServer(c11Case{Key: k, Version: v, Body: body, Via: "server", Class: class})
				}
			}
		}
	}
	{
		type kv struct {
			k, v int16
			m    int
		}
		var all []kv
		for p, m := range maxStr {
			all = append(all, kv{p[0], p[1], m})
		}
		sort.Slice(all, func(i, j int) bool {
			if all[i].k != all[j].k {
				return all[i].k < all[j].k
			}
			return all[i].v < all[j].v
		})
		top := ""
		for _, e := range all {
			coq = append(coq, fmt.Sprintf("CRespStrings %s %s %d", cqZ(int64(e.k)), cqZ(int64(e.v)), e.m))
			jsons = append(jsons, fmt.Sprintf(`{"resp_strings":{"key":%d,"version":%d,"max":%d}}`, e.k, e.v, e.m))
			if e.m >= 256 {
				top += fmt.Sprintf(" %s v%d: %d;", kmsg.NameForKey(e.k), e.v, e.m)
			}
		}
		if top != "" {
			rep.Notes = append(rep.Notes, "longest string in a decoded response, per API/version (>= 256 bytes):"+top)
		}
	}
	rep.Cases("C11_broker", "From KS Require Import lib.Base gen.ApiTables model.ApiVersions corr.ApiVersionsCorr.", "case", "check_case", coq, jsons)
	rep.WriteAs("C11_broker")
	if len(rep.Failures) > 0 {
		t.Logf("oracle failures: %s", strings.TrimSpace(rep.Failures[0].What))
	}
}

func c11Cut(b []byte) []byte {
	if len(b) > 64 {
		return b[:64]
	}
	return b
}

// ---------------------------------------------------------------- concurrent stream
//
// The Coq theorems and the sequential streams are about the per-request function. State
// shared between requests (a cached response message, a reused buffer, ...) can only go wrong
// when requests overlap: this stream opens several client connections at once to a real
// broker.Server (loopback TCP: ReadFrame, ParseRequest, handler.Handle, WriteFrame per
// connection goroutine) and sends requests of the same API at DIFFERENT versions, and mixed
// APIs, simultaneously for a bounded number of rounds. Only read-only APIs are used, so over
// the unchanged in-memory store every reply must equal byte for byte the reply the same
// request got alone, and is checked like a sequential one (correlation id, header shape, kmsg
// decode at the request's version, canonical re-encode).

type c11Req struct {
	Key     int16  `json:"key"`
	Version int16  `json:"version"`
	Body    []byte `json:"body"`
}

type c11ConcCase struct {
	Via        string   `json:"via"` // "concurrent"
	Requests   []c11Req `json:"requests"`
	Goroutines int      `json:"goroutines"`
	Rounds     int      `json:"rounds"`
}

func c11CheckReply(rq c11Req, corr int32, reply []byte) (string, string) {
	name := kmsg.NameForKey(rq.Key)
	if len(reply) < 4 {
		return "concurrent-short:" + name, fmt.Sprintf("%s v%d: reply of %d bytes", name, rq.Version, len(reply))
	}
	if got := int32(binary.BigEndian.Uint32(reply)); got != corr {
		return "concurrent-correlation:" + name, fmt.Sprintf("%s v%d: reply carries correlation id %#x, request had %#x", name, rq.Version, got, corr)
	}
	kresp := kmsg.ResponseForKey(rq.Key)
	kresp.SetVersion(rq.Version)
	flex := kresp.IsFlexible() && rq.Key != 18
	dec, exact := c11Decode(rq.Key, rq.Version, reply, flex)
	if !dec || !exact {
		other := "none of 0..MaxVersion"
		for v := int16(0); v <= kmsg.RequestForKey(rq.Key).MaxVersion(); v++ {
			kr := kmsg.ResponseForKey(rq.Key)
			kr.SetVersion(v)
			if d, e := c11Decode(rq.Key, v, reply, kr.IsFlexible() && rq.Key != 18); d && e && v != rq.Version {
				other = fmt.Sprintf("version %d", v)
				break
			}
		}
		return "concurrent-corrupt:" + name, fmt.Sprintf("%s v%d: reply behind the request's correlation id does not decode canonically at version %d (decodes=%v, re-encodes identically=%v); its body is a canonical encoding at %s; reply bytes %x", name, rq.Version, rq.Version, dec, exact, other, c11Cut(reply))
	}
	return "", ""
}

type c11ConcFailure struct {
	key, what string
	req       c11Req
}

func c11RoundTrip(conn net.Conn, rq c11Req, corr int32) ([]byte, error) {
	_ = conn.SetDeadline(time.Now().Add(120 * time.Second))
	if err := protocol.WriteFrame(conn, c11Payload(rq.Key, rq.Version, corr, rq.Body)); err != nil {
		return nil, err
	}
	f, err := protocol.ReadFrame(conn)
	if err != nil {
		return nil, err
	}
	return f.Payload, nil
}

func c11RunConcurrent(addr string, cs c11ConcCase) (*c11ConcFailure, int) {
	ref := make([][]byte, len(cs.Requests))
	seq, err := net.DialTimeout("tcp", addr, 5*time.Second)
	if err != nil {
		return &c11ConcFailure{"concurrent-dial", err.Error(), c11Req{}}, 0
	}
	for i, rq := range cs.Requests {
		reply, err := c11RoundTrip(seq, rq, 0x5e9e0000+int32(i))
		if err != nil {
			_ = seq.Close()
			return &c11ConcFailure{"concurrent-no-reply:" + kmsg.NameForKey(rq.Key), fmt.Sprintf("%s v%d: no reply on a sequential connection: %v", kmsg.NameForKey(rq.Key), rq.Version, err), rq}, i
		}
		if k, w := c11CheckReply(rq, 0x5e9e0000+int32(i), reply); k != "" {
			_ = seq.Close()
			return &c11ConcFailure{k, "sequential reference: " + w, rq}, i
		}
		ref[i] = append([]byte{}, reply[4:]...)
	}
	_ = seq.Close()

	var mu sync.Mutex
	var first *c11ConcFailure
	checked := 0
	start := make(chan struct{})
	var wg sync.WaitGroup
	for g := 0; g < cs.Goroutines; g++ {
		wg.Add(1)
		go func(g int) {
			defer wg.Done()
			conn, err := net.DialTimeout("tcp", addr, 5*time.Second)
			if err != nil {
				return
			}
			defer conn.Close()
			<-start
			n := 0
			for round := 0; round < cs.Rounds; round++ {
				i := (g + round*(g%3+1)) % len(cs.Requests)
				rq := cs.Requests[i]
				corr := int32(g+1)<<20 | int32(round)
				reply, err := c11RoundTrip(conn, rq, corr)
				var k, w string
				if err != nil {
					k, w = "concurrent-no-reply:"+kmsg.NameForKey(rq.Key), fmt.Sprintf("%s v%d: no reply while %d connections were active: %v", kmsg.NameForKey(rq.Key), rq.Version, cs.Goroutines, err)
				} else if k, w = c11CheckReply(rq, corr, reply); k == "" && !bytes.Equal(reply[4:], ref[i]) {
					k, w = "concurrent-differs:"+kmsg.NameForKey(rq.Key), fmt.Sprintf("%s v%d: reply under concurrency differs from the reply to the same request sent alone: %x vs %x", kmsg.NameForKey(rq.Key), rq.Version, c11Cut(reply[4:]), c11Cut(ref[i]))
				}
				n++
				mu.Lock()
				if k != "" && first == nil {
					first = &c11ConcFailure{k, w, rq}
				}
				stop := first != nil
				mu.Unlock()
				if stop {
					break
				}
			}
			mu.Lock()
			checked += n
			mu.Unlock()
		}(g)
	}
	close(start)
	wg.Wait()
	return first, checked
}

func c11StartServer(t *testing.T) string {
	store := metadata.NewInMemoryStore(defaultMetadata())
	h := newHandler(store, storage.NewMemoryS3Client(), protocol.MetadataBroker{NodeID: 1, Host: "localhost", Port: 19092}, testLogger())
	return c11Serve(t, h)
}

// c11Serve starts a real broker.Server for h on a free loopback port and waits until it accepts.
// (The port is chosen here and the server is probed by dialing: Server.ListenAddress reads a field
// that ListenAndServe writes without synchronisation.)
func c11Serve(t *testing.T, h *handler) string {
	l, err := net.Listen("tcp", "127.0.0.1:0")
	if err != nil {
		return ""
	}
	addr := l.Addr().String()
	_ = l.Close()
	srv := &broker.Server{Addr: addr, Handler: h}
	ctx, cancel := context.WithCancel(context.Background())
	t.Cleanup(cancel)
	go func() { _ = srv.ListenAndServe(ctx) }()
	for i := 0; i < 300; i++ {
		time.Sleep(10 * time.Millisecond)
		if c, err := net.DialTimeout("tcp", addr, time.Second); err == nil {
			_ = c.Close()
			return addr
		}
	}
	return ""
}

func TestVerifC11Concurrent(t *testing.T) {
	log.SetOutput(io.Discard)
	name := "C11_broker_conc" + os.Getenv("VERIF_C11_TAG")
	rep := vNewReport("C11", "concurrent stream: several client connections at once to a real broker.Server (loopback TCP), requests of the same API at different versions and mixed read-only APIs (ApiVersions, Metadata, FindCoordinator, ListGroups, ListOffsets, DescribeGroups, OffsetFetch, DescribeConfigs) simultaneously for a bounded number of rounds; each reply checked like a sequential one and compared byte for byte with the reply the same request got alone")
	def := func(key, ver int16) c11Req {
		rq := kmsg.RequestForKey(key)
		rq.SetVersion(ver)
		if m, ok := rq.(*kmsg.MetadataRequest); ok {
			m.AllowAutoTopicCreation = false
		}
		return c11Req{Key: key, Version: ver, Body: rq.AppendTo(nil)}
	}
	var cases []c11ConcCase
	if rc := vReplayCase(); rc != nil {
		var cs c11ConcCase
		if err := json.Unmarshal(rc, &cs); err != nil || cs.Via != "concurrent" {
			rep.WriteAs(name)
			return
		}
		cases = []c11ConcCase{cs}
	} else {
		rounds := vN(2000, 12000)
		readOnly := map[int16]bool{18: true, 3: true, 10: true, 16: true, 2: true, 15: true, 9: true, 32: true}
		var apiv, mixed []c11Req
		for _, e := range generateApiVersions() {
			for v := e.MinVersion; v <= e.MaxVersion && v >= 0; v++ {
				if e.ApiKey == 18 {
					apiv = append(apiv, def(18, v))
				}
				if readOnly[e.ApiKey] {
					mixed = append(mixed, def(e.ApiKey, v))
				}
			}
		}
		cases = []c11ConcCase{
			{Via: "concurrent", Requests: apiv, Goroutines: 8, Rounds: rounds},
			{Via: "concurrent", Requests: mixed, Goroutines: 8, Rounds: rounds},
		}
	}
	for _, cs := range cases {
		addr := c11StartServer(t)
		if addr == "" {
			rep.Notes = append(rep.Notes, "loopback server did not start; concurrent stream not run")
			break
		}
		f, n := c11RunConcurrent(addr, cs)
		rep.Evaluations += n
		rep.Histogram["broker-concurrent-replies"] += n
		if f != nil {
			shr := cs
			for _, other := range cs.Requests {
				if other.Key == f.req.Key && other.Version != f.req.Version {
					cand := c11ConcCase{Via: "concurrent", Requests: []c11Req{f.req, other}, Goroutines: 2, Rounds: cs.Rounds * 4}
					if a2 := c11StartServer(t); a2 != "" {
						if f2, _ := c11RunConcurrent(a2, cand); f2 != nil && f2.key == f.key {
							shr, f = cand, f2
							break
						}
					}
				}
			}
			rep.Fail("concurrent", f.key, f.what, shr)
		}
	}
	rep.WriteAs(name)
	if len(rep.Failures) > 0 {
		t.Logf("oracle failures: %s", strings.TrimSpace(rep.Failures[0].What))
	}
}
