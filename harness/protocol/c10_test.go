package broker

// C10 harness (overlaid into pkg/broker so that the real Server.handleConnection glue is
// exercised as well as the exported pkg/protocol entry points):
//   * byte strings from a grammar — valid request headers with mutated tagged-field
//     sections, huge uvarints, truncated / over-long frames, random bytes — through the
//     real protocol.ParseRequestHeader / protocol.ParseRequest / protocol.ReadFrame
//     under recover();
//   * every request key kmsg knows x every version 0..MaxVersion with reflection-filled
//     random bodies, encoded by kmsg.RequestFormatter (a standard client codec), through
//     ReadFrame + ParseRequest: key, version, correlation id, client id and body must come
//     back (body compared by re-encoding);
//   * whole connection streams through the real handleConnection over net.Pipe with a
//     recording handler.
// Implementation-side oracle: no panic; round trip. Every case is emitted as a Coq term
// for corr/ProtoHeaderCorr.v.

import (
	"bytes"
	"context"
	"encoding/binary"
	"encoding/json"
	"errors"
	"fmt"
	"io"
	"log"
	"net"
	"reflect"
	"strings"
	"testing"
	"time"

	"github.com/twmb/franz-go/pkg/kmsg"

	"github.com/KafScale/platform/pkg/protocol"
)

type c10Case struct {
	Kind  string `json:"kind"`  // "header" | "frame" | "conn" | "roundtrip"
	Class string `json:"class"` // generator class
	Bytes []byte `json:"bytes"`
	// roundtrip expectation (kind "roundtrip": Bytes is the full frame written by the client codec)
	Key      int16   `json:"key,omitempty"`
	Version  int16   `json:"version,omitempty"`
	Corr     int32   `json:"corr,omitempty"`
	ClientID *string `json:"client_id,omitempty"`
	Body     []byte  `json:"body,omitempty"`
}

// ---------------------------------------------------------------- running the real code

type c10Hdr struct {
	panicked bool
	msg      string
	err      error
	h        *protocol.RequestHeader
	bodyLen  int
}

func c10ParseHeader(b []byte) (o c10Hdr) {
	defer func() {
		if r := recover(); r != nil {
			o.panicked, o.msg = true, fmt.Sprint(r)
		}
	}()
	h, body, err := protocol.ParseRequestHeader(b)
	o.h, o.err, o.bodyLen = h, err, len(body)
	return o
}

type c10Req struct {
	panicked bool
	msg      string
	err      error
	h        *protocol.RequestHeader
	req      kmsg.Request
}

func c10ParseRequest(b []byte) (o c10Req) {
	defer func() {
		if r := recover(); r != nil {
			o.panicked, o.msg = true, fmt.Sprint(r)
		}
	}()
	o.h, o.req, o.err = protocol.ParseRequest(b)
	return o
}

func c10ErrClass(err error) int64 {
	s := err.Error()
	switch {
	case strings.Contains(s, "insufficient bytes"):
		return 1
	case strings.Contains(s, "invalid string length"):
		return 2
	case strings.Contains(s, "read uvarint"):
		return 3
	case strings.Contains(s, "invalid read length"):
		return 4
	case strings.Contains(s, "unsupported api key"):
		return 5
	case strings.HasPrefix(s, "decode "):
		return 6
	case strings.Contains(s, "invalid frame length"):
		return 12
	case strings.Contains(s, "read frame size"):
		if errors.Is(err, io.ErrUnexpectedEOF) {
			return 11
		}
		return 10
	case strings.Contains(s, "read frame payload"):
		return 13
	}
	return 99
}

type c10Frame struct {
	panicked bool
	msg      string
	err      error
	payload  []byte
	restLen  int
}

func c10ReadFrame(s []byte) (o c10Frame) {
	defer func() {
		if r := recover(); r != nil {
			o.panicked, o.msg = true, fmt.Sprint(r)
		}
	}()
	rd := bytes.NewReader(s)
	f, err := protocol.ReadFrame(rd)
	o.err = err
	if f != nil {
		o.payload = f.Payload
	}
	o.restLen = rd.Len()
	return o
}

type c10Recorder struct{ got [][3]int64 }

func (h *c10Recorder) Handle(_ context.Context, header *protocol.RequestHeader, _ kmsg.Request) ([]byte, error) {
	h.got = append(h.got, [3]int64{int64(header.APIKey), int64(header.APIVersion), int64(header.CorrelationID)})
	return nil, nil // no response: handleConnection continues with the next frame
}

func c10Conn(stream []byte, deadline time.Duration) (handled [][3]int64, consumed int, panicked bool, msg string) {
	rec := &c10Recorder{}
	srv := &Server{Handler: rec}
	conn, peer := net.Pipe()
	wrote := make(chan int, 1)
	go func() {
		n, _ := peer.Write(stream) // returns early, with the bytes taken so far, when the server closes
		_ = peer.Close()
		wrote <- n
	}()
	done := make(chan struct{})
	go func() {
		defer close(done)
		defer func() {
			if r := recover(); r != nil {
				panicked, msg = true, fmt.Sprint(r)
				_ = conn.Close()
			}
		}()
		srv.handleConnection(conn)
	}()
	select {
	case <-done:
	case <-time.After(deadline):
		// closing the pipe makes a loop that is blocked in I/O return; one that spins without I/O keeps running
		_ = conn.Close()
		_ = peer.Close()
		select {
		case <-done:
		case <-time.After(5 * time.Second):
		}
		msg = fmt.Sprintf("handleConnection did not return within %v although every frame of the stream parses in isolation within a fraction of that", deadline)
	}
	_ = conn.Close()
	consumed = <-wrote
	return rec.got, consumed, panicked, msg
}

// c10Listener: the same stream through a real broker.Server listener (loopback TCP). Only used after the
// stream went through handleConnection under recover() without a panic: a panic in the server's own
// connection goroutine cannot be recovered here and would take the test process down.
func c10Listener(stream []byte) (handled [][3]int64, err error) {
	l, err := net.Listen("tcp", "127.0.0.1:0")
	if err != nil {
		return nil, err
	}
	addr := l.Addr().String()
	_ = l.Close()
	rec := &c10Recorder{}
	srv := &Server{Addr: addr, Handler: rec}
	ctx, cancel := context.WithCancel(context.Background())
	defer cancel()
	go func() { _ = srv.ListenAndServe(ctx) }()
	var c net.Conn
	for i := 0; i < 300; i++ {
		time.Sleep(5 * time.Millisecond)
		if c, err = net.DialTimeout("tcp", addr, time.Second); err == nil {
			break
		}
	}
	if err != nil {
		return nil, err
	}
	defer c.Close()
	_ = c.SetDeadline(time.Now().Add(15 * time.Second))
	_, _ = c.Write(stream)
	if tc, ok := c.(*net.TCPConn); ok {
		_ = tc.CloseWrite()
	}
	_, _ = io.Copy(io.Discard, c) // until the server closes its side: every Handle call has returned
	cancel()
	srv.Wait()
	return rec.got, nil
}

// c10BadBodies: the (key, version, body) triples of the stream's frames that the kmsg decoder rejects
// (each frame parsed separately with the real ParseRequestHeader / ParseRequest, under recover).
func c10BadBodies(stream []byte) (bad [][3]any, maxAnnounced int64) {
	pos := 0
	for {
		if len(stream)-pos < 4 {
			return bad, maxAnnounced
		}
		l := int64(int32(binary.BigEndian.Uint32(stream[pos:])))
		if l < 0 {
			return bad, maxAnnounced
		}
		if l > maxAnnounced {
			maxAnnounced = l // ReadFrame allocates this many bytes before it reads the payload
		}
		if int64(len(stream)-pos-4) < l {
			return bad, maxAnnounced
		}
		payload := stream[pos+4 : pos+4+int(l)]
		pos += 4 + int(l)
		h := c10ParseHeader(payload)
		if h.panicked || h.err != nil {
			return bad, maxAnnounced
		}
		q := c10ParseRequest(payload)
		if q.panicked {
			return bad, maxAnnounced
		}
		if q.err != nil {
			if c10ErrClass(q.err) == 6 {
				bad = append(bad, [3]any{int64(h.h.APIKey), int64(h.h.APIVersion), append([]byte{}, payload[len(payload)-h.bodyLen:]...)})
			}
			return bad, maxAnnounced
		}
	}
}

// c10SoftDeadline: how long the harness waits for one ParseRequest call. kmsg's generated readers loop over a
// client-chosen tagged-field count even after the input is exhausted (about 10 ns per iteration: 2^24 -> 0.2 s,
// 2^31-1 -> 22 s, 2^32-1 -> 44 s on a quiet machine): slow, but it returns an error — outside C10's statement.
// The quick tier does not wait for such a call (it is left running in its goroutine and recorded as a note);
// the thorough tier waits long enough to see it return.
func c10SoftDeadline() time.Duration {
	if vTier() == "thorough" {
		return 300 * time.Second
	}
	return 5 * time.Second
}

// c10Timed runs f in its own goroutine and waits at most limit for it.
func c10Timed(limit time.Duration, f func()) (done bool, took time.Duration) {
	ch := make(chan struct{})
	t0 := time.Now()
	go func() {
		defer close(ch)
		f()
	}()
	select {
	case <-ch:
		return true, time.Since(t0)
	case <-time.After(limit):
		return false, time.Since(t0)
	}
}

// c10FrameInfo: key/version of the first frame whose request parse is slow, for the evidence note
func c10Describe(payload []byte) string {
	if len(payload) >= 4 {
		k := int16(binary.BigEndian.Uint16(payload))
		v := int16(binary.BigEndian.Uint16(payload[2:]))
		return fmt.Sprintf("%s v%d (%d-byte request)", kmsg.NameForKey(k), v, len(payload))
	}
	return fmt.Sprintf("%d-byte request", len(payload))
}

// ---------------------------------------------------------------- generators

func c10Uvarint(v uint64) []byte {
	var tmp [binary.MaxVarintLen64]byte
	return tmp[:binary.PutUvarint(tmp[:], v)]
}

// c10OddUvarint: huge values, non-minimal encodings, overflowing and truncated encodings
func c10OddUvarint(r *vRand) []byte {
	switch r.Intn(9) {
	case 0:
		return c10Uvarint(^uint64(0))
	case 1:
		return c10Uvarint(uint64(1) << 63)
	case 2:
		return c10Uvarint(uint64(1)<<63 - 1)
	case 3:
		return c10Uvarint(uint64(1)<<63 + uint64(r.Intn(1000)))
	case 4:
		return c10Uvarint(uint64(r.Intn(1 << 20)))
	case 5: // non-minimal
		return []byte{0x80 | byte(r.Intn(128)), 0x80, 0x00}
	case 6: // 10th byte > 1: overflow
		return []byte{0xff, 0xff, 0xff, 0xff, 0xff, 0xff, 0xff, 0xff, 0xff, byte(r.Range(2, 127))}
	case 7: // 11 continuation bytes
		return bytes.Repeat([]byte{0x80}, 11)
	default: // truncated
		return bytes.Repeat([]byte{0xff}, r.Range(1, 9))
	}
}

var c10Keys []int16 // every key kmsg knows

func c10Init() {
	if c10Keys != nil {
		return
	}
	for k := int16(0); k <= kmsg.MaxKey; k++ {
		if kmsg.RequestForKey(k) != nil {
			c10Keys = append(c10Keys, k)
		}
	}
}

func c10HeaderBytes(key, ver int16, corr int32, cid *string) []byte {
	out := make([]byte, 8)
	binary.BigEndian.PutUint16(out[0:], uint16(key))
	binary.BigEndian.PutUint16(out[2:], uint16(ver))
	binary.BigEndian.PutUint32(out[4:], uint32(corr))
	if cid == nil {
		return append(out, 0xff, 0xff)
	}
	out = append(out, byte(len(*cid)>>8), byte(len(*cid)))
	return append(out, *cid...)
}

func c10IsFlexible(key, ver int16) bool {
	req := kmsg.RequestForKey(key)
	if req == nil {
		return false
	}
	req.SetVersion(ver)
	return req.IsFlexible()
}

// c10GenHeader: a header for a (mostly flexible) key/version followed by a generated tagged section and body.
func c10GenHeader(r *vRand) c10Case {
	c10Init()
	key := c10Keys[r.Intn(len(c10Keys))]
	req := kmsg.RequestForKey(key)
	ver := int16(r.Range(0, int(req.MaxVersion())))
	class := "hdr"
	switch r.Intn(12) {
	case 0:
		key = int16(r.Range(93, 200)) // unknown key
		class = "hdr-unknown-key"
	case 1:
		key = -int16(r.Range(1, 100))
		class = "hdr-negative-key"
	case 2:
		ver = int16(r.Range(-3, 40)) // outside the known range
		class = "hdr-odd-version"
	}
	var cid *string
	switch r.Intn(4) {
	case 0:
	case 1:
		s := ""
		cid = &s
	default:
		s := string(r.Bytes(r.Range(1, 12)))
		cid = &s
	}
	b := c10HeaderBytes(key, ver, int32(r.U64()), cid)
	if r.Chance(6) { // odd client-id length
		binary.BigEndian.PutUint16(b[8:], uint16([]int{-2, -32768, 32767, 300}[r.Intn(4)]))
		class = "hdr-odd-clientid-len"
	}
	if c10IsFlexible(key, ver) {
		// tagged-field section
		switch r.Intn(10) {
		case 0, 1, 2: // well-formed
			n := r.Intn(4)
			b = append(b, c10Uvarint(uint64(n))...)
			for i := 0; i < n; i++ {
				d := r.Bytes(r.Intn(6))
				b = append(b, c10Uvarint(uint64(r.Intn(1<<16)))...)
				b = append(b, c10Uvarint(uint64(len(d)))...)
				b = append(b, d...)
			}
			class += "-tags"
		case 3: // huge size on the last field (the C10 finding)
			b = append(b, 1, byte(r.Intn(128)))
			b = append(b, c10OddUvarint(r)...)
			b = append(b, r.Bytes(r.Intn(4))...)
			class += "-tag-size-odd"
		case 4: // huge count
			b = append(b, c10OddUvarint(r)...)
			for i := r.Intn(5); i > 0; i-- {
				b = append(b, byte(r.Intn(128)), byte(r.Intn(3)))
				b = append(b, r.Bytes(r.Intn(3))...)
			}
			class += "-tag-count-odd"
		case 5: // odd tag id
			b = append(b, 1)
			b = append(b, c10OddUvarint(r)...)
			b = append(b, 0)
			class += "-tag-id-odd"
		case 6: // size beyond the remaining bytes
			b = append(b, 1, 0)
			b = append(b, c10Uvarint(uint64(r.Range(1, 1<<20)))...)
			b = append(b, r.Bytes(r.Intn(8))...)
			class += "-tag-size-beyond"
		case 7:
			b = append(b, r.Bytes(r.Intn(12))...)
			class += "-tag-random"
		default:
			b = append(b, 0)
			class += "-notags"
		}
	}
	// body: a kmsg-encoded default body, or random bytes
	if r.Bool() {
		if rq := kmsg.RequestForKey(key); rq != nil {
			rq.SetVersion(ver)
			func() {
				defer func() { _ = recover() }()
				b = rq.AppendTo(b)
			}()
		}
	} else {
		b = append(b, r.Bytes(r.Intn(24))...)
	}
	if r.Chance(12) && len(b) > 0 {
		b = b[:r.Intn(len(b))]
		class += "-truncated"
	}
	return c10Case{Kind: "header", Class: class, Bytes: b}
}

func c10GenFrame(r *vRand) c10Case {
	var s []byte
	class := "frame"
	put := func(n int32) []byte { o := make([]byte, 4); binary.BigEndian.PutUint32(o, uint32(n)); return o }
	switch r.Intn(8) {
	case 0:
		s = r.Bytes(r.Intn(4))
		class += "-short-size"
	case 1:
		s = append(put(-int32(r.Range(1, 1<<30))), r.Bytes(r.Intn(8))...)
		class += "-negative"
	case 2:
		s = append(put(int32(-1<<31)), r.Bytes(r.Intn(8))...)
		class += "-negative"
	case 3: // claims more than is there (bounded: the reader allocates the claimed size)
		s = append(put(int32(r.Range(20, 1<<20))), r.Bytes(r.Intn(16))...)
		class += "-truncated"
	case 4:
		s = put(0)
		s = append(s, r.Bytes(r.Intn(6))...)
		class += "-empty"
	default:
		p := r.Bytes(r.Range(1, 40))
		s = append(append(put(int32(len(p))), p...), r.Bytes(r.Intn(10))...)
		class += "-ok"
	}
	return c10Case{Kind: "frame", Class: class, Bytes: s}
}

// c10Fill sets exported fields of a kmsg struct to generated values.
func c10Fill(r *vRand, v reflect.Value, depth int) {
	switch v.Kind() {
	case reflect.Bool:
		v.SetBool(r.Bool())
	case reflect.Int8, reflect.Int16, reflect.Int32, reflect.Int64:
		bits := v.Type().Bits()
		var x int64
		switch r.Intn(6) {
		case 0:
			x = -1
		case 1:
			x = int64(1)<<(bits-1) - 1
		case 2:
			x = -(int64(1) << (bits - 1))
		default:
			x = int64(r.Intn(1000))
			if bits == 8 {
				x = int64(r.Intn(100))
			}
		}
		v.SetInt(x)
	case reflect.Uint8, reflect.Uint16, reflect.Uint32, reflect.Uint64:
		v.SetUint(uint64(r.Intn(200)))
	case reflect.Float64:
		v.SetFloat(float64(r.Intn(1000)) / 4)
	case reflect.String:
		v.SetString(c10Str(r))
	case reflect.Ptr:
		if r.Intn(3) == 0 {
			v.Set(reflect.Zero(v.Type()))
			return
		}
		p := reflect.New(v.Type().Elem())
		c10Fill(r, p.Elem(), depth)
		v.Set(p)
	case reflect.Slice:
		if v.Type().Elem().Kind() == reflect.Uint8 {
			if r.Intn(4) == 0 {
				v.Set(reflect.Zero(v.Type()))
			} else {
				v.SetBytes(r.Bytes(r.Intn(10)))
			}
			return
		}
		n := r.Intn(3)
		if depth > 3 {
			n = r.Intn(2)
		}
		if n == 0 && r.Bool() {
			v.Set(reflect.Zero(v.Type()))
			return
		}
		s := reflect.MakeSlice(v.Type(), n, n)
		for i := 0; i < n; i++ {
			c10Fill(r, s.Index(i), depth+1)
		}
		v.Set(s)
	case reflect.Array:
		for i := 0; i < v.Len(); i++ {
			c10Fill(r, v.Index(i), depth+1)
		}
	case reflect.Struct:
		t := v.Type()
		for i := 0; i < v.NumField(); i++ {
			f := t.Field(i)
			if !f.IsExported() || f.Name == "Version" || f.Name == "UnknownTags" {
				continue
			}
			if v.Field(i).CanSet() {
				c10Fill(r, v.Field(i), depth+1)
			}
		}
	}
}

func c10Str(r *vRand) string {
	n := r.Intn(9)
	b := make([]byte, n)
	for i := range b {
		b[i] = "abcdefghijklmnopqrstuvwxyz-._0123456789"[r.Intn(39)]
	}
	return string(b)
}

// c10GenRoundtrip: a request of the given key/version with generated field values, written
// by the client codec (size prefix + header + body).
func c10GenRoundtrip(r *vRand, key, ver int16) (cs c10Case, ok bool) {
	req := kmsg.RequestForKey(key)
	req.SetVersion(ver)
	func() {
		defer func() {
			if rec := recover(); rec != nil {
				ok = false
			}
		}()
		c10Fill(r, reflect.ValueOf(req).Elem(), 0)
		req.SetVersion(ver)
		var opts []kmsg.RequestFormatterOpt
		var cid *string
		if r.Intn(4) != 0 {
			s := c10Str(r)
			cid = &s
			opts = append(opts, kmsg.FormatterClientID(s))
		}
		corr := int32(r.U64())
		f := kmsg.NewRequestFormatter(opts...)
		buf := f.AppendRequest(nil, req, corr)
		body := req.AppendTo(nil)
		cs = c10Case{Kind: "roundtrip", Class: fmt.Sprintf("rt-%s", kmsg.NameForKey(key)), Bytes: buf, Key: key, Version: ver, Corr: corr, ClientID: cid, Body: body}
		ok = true
	}()
	return cs, ok
}

// c10Frame wraps a request payload into a size-prefixed frame.
func c10FrameOf(payload []byte) []byte {
	fr := make([]byte, 4, 4+len(payload))
	binary.BigEndian.PutUint32(fr, uint32(len(payload)))
	return append(fr, payload...)
}

// c10BadFrame: a frame that is well-framed but whose request does not parse, or that breaks the framing.
func c10BadFrame(r *vRand, key, ver int16, good []byte) (fr []byte, class string) {
	var cid *string
	if r.Bool() {
		s := c10Str(r)
		cid = &s
	}
	hdr := c10HeaderBytes(key, ver, int32(r.Intn(1000)), cid)
	if c10IsFlexible(key, ver) {
		hdr = append(hdr, 0)
	}
	rq := kmsg.RequestForKey(key)
	rq.SetVersion(ver)
	body := rq.AppendTo(nil)
	switch r.Intn(10) {
	case 0: // valid header, body cut short
		if len(body) > 0 {
			body = body[:r.Intn(len(body))]
		}
		return c10FrameOf(append(hdr, body...)), "conn-body-truncated"
	case 1: // valid header, empty body
		return c10FrameOf(hdr), "conn-body-empty"
	case 2: // valid header, an array length of 0x7fffffff (or a huge compact length) at the start of the body
		huge := []byte{0x7f, 0xff, 0xff, 0xff}
		if c10IsFlexible(key, ver) {
			// a compact length / tagged-field count; kmsg loops over a tag count (10 ns per iteration), so the
			// quick tier stays at 2^24 (0.2 s); the thorough tier also uses 2^28 and, rarely, 2^31-1 (22 s)
			huge = []byte{0x80, 0x80, 0x80, 0x08}
			if vTier() == "thorough" {
				switch r.Intn(12) {
				case 0:
					huge = []byte{0xff, 0xff, 0xff, 0xff, 0x07}
				case 1, 2:
					huge = []byte{0x80, 0x80, 0x80, 0x80, 0x01}
				}
			}
		}
		return c10FrameOf(append(append(hdr, huge...), r.Bytes(r.Intn(8))...)), "conn-body-oversized-count"
	case 3: // valid header, random body
		return c10FrameOf(append(hdr, r.Bytes(r.Range(1, 24))...)), "conn-body-random"
	case 4, 5: // unknown / unsupported API key, every client-id shape, with and without a body
		k := []int16{9999, 93, 200, -1, -32768, 32767, 88, 89}[r.Intn(8)]
		h2 := c10HeaderBytes(k, int16(r.Range(0, 12)), int32(r.Intn(1000)), cid)
		if r.Bool() {
			h2 = append(h2, body...)
		}
		return c10FrameOf(h2), "conn-unknown-key"
	case 6: // oversized tagged-field size
		if c10IsFlexible(key, ver) {
			h := c10HeaderBytes(key, ver, 77, cid)
			h = append(h, 1, 0)
			h = append(h, c10OddUvarint(r)...)
			return c10FrameOf(h), "conn-odd-tag-size"
		}
		return c10FrameOf(hdr[:r.Intn(len(hdr))]), "conn-header-truncated"
	case 7:
		return c10FrameOf(hdr[:r.Intn(len(hdr))]), "conn-header-truncated"
	case 8:
		return good[:r.Intn(len(good))], "conn-truncated"
	default:
		return []byte{0xff, 0xff, 0xff, byte(r.Intn(256))}, "conn-negative-frame"
	}
}

func c10GenConn(r *vRand) c10Case {
	c10Init()
	var s []byte
	n := r.Range(1, 5)
	class := "conn"
	badAt := -1
	if r.Chance(75) {
		badAt = r.Intn(n) // anywhere in the stream: the frames after it must stay unread and unhandled
	}
	for i := 0; i < n; i++ {
		key := c10Keys[r.Intn(len(c10Keys))]
		rq := kmsg.RequestForKey(key)
		ver := int16(r.Range(0, int(rq.MaxVersion())))
		if key == 7 && ver == 0 {
			ver = 1
		}
		rq.SetVersion(ver)
		var opts []kmsg.RequestFormatterOpt
		if r.Bool() {
			opts = append(opts, kmsg.FormatterClientID(c10Str(r)))
		}
		fr := kmsg.NewRequestFormatter(opts...).AppendRequest(nil, rq, int32(r.Intn(1000)))
		if i == badAt {
			fr, class = c10BadFrame(r, key, ver, fr)
		}
		s = append(s, fr...)
	}
	if _, announced := c10BadBodies(s); announced > 1<<24 && !(vTier() == "thorough" && r.Chance(20)) {
		// mis-framing (a frame cut short and followed by more bytes) made some later bytes look like a huge size
		// field: keep such streams rare (thorough tier only) — each costs an allocation of that size in ReadFrame
		return c10GenConn(r)
	}
	return c10Case{Kind: "conn", Class: class, Bytes: s}
}

// ---------------------------------------------------------------- Coq emission

func c10CoqHeader(b []byte, h c10Hdr, q c10Req) string {
	var ho, ro string
	switch {
	case h.panicked:
		ho = "HPanic"
	case h.err != nil:
		ho = fmt.Sprintf("(HErr %d)", c10ErrClass(h.err))
	default:
		cl := "None"
		if h.h.ClientID != nil {
			cl = "(Some " + cqStr(*h.h.ClientID) + ")"
		}
		ho = fmt.Sprintf("(HOk %s %s %s %s %d)", cqZ(int64(h.h.APIKey)), cqZ(int64(h.h.APIVersion)), cqZ(int64(h.h.CorrelationID)), cl, h.bodyLen)
	}
	bodyOK := true
	switch {
	case q.panicked:
		ro = "RPanic"
	case q.err != nil:
		c := c10ErrClass(q.err)
		if c == 6 {
			bodyOK = false
		}
		ro = fmt.Sprintf("(RErr %d)", c)
	default:
		ro = "ROk"
	}
	return fmt.Sprintf("CHeader %s %s %s %s", cqBytes(b), ho, cqBool(bodyOK), ro)
}

func c10CoqFrame(s []byte, f c10Frame) string {
	var fo string
	switch {
	case f.panicked:
		fo = "FPanic"
	case f.err != nil:
		fo = fmt.Sprintf("(FErr %d)", c10ErrClass(f.err))
	default:
		fo = fmt.Sprintf("(FOk %d %d)", len(f.payload), f.restLen)
	}
	return fmt.Sprintf("CFrame %s %s", cqBytes(s), fo)
}

func TestVerifC10(t *testing.T) {
	log.SetOutput(io.Discard)
	c10Init()
	rep := vNewReport("C10", "byte strings from a grammar (valid request headers for every kmsg key/version + well-formed or mutated tagged-field sections, huge/non-minimal/overflowing uvarints, odd client-id lengths, truncations; frames with negative/short/over-long sizes; multi-frame connection streams) through the real ParseRequestHeader/ParseRequest/ReadFrame/handleConnection under recover(), and every kmsg request key x version 0..MaxVersion with reflection-filled bodies written by kmsg.RequestFormatter; non-trivial = flexible header with a non-empty tagged section, or a round trip of a body with at least 8 bytes, or a multi-frame connection; distinct = distinct byte string")
	var coq, jsons []string
	fail := func(key, what string, cs c10Case) { rep.Fail(key, key, what, cs) }

	slowNotes := 0
	// slow: a ParseRequest call that took long (or was not waited for). Slow-but-returning is not a failure: C10
	// says "a request or an error, never a crash"; the time is spent in kmsg's tag loop.
	slow := func(what string, took time.Duration, returned bool) {
		rep.Hist("slow-parse")
		if slowNotes < 6 {
			slowNotes++
			if returned {
				rep.Notes = append(rep.Notes, fmt.Sprintf("%s: ParseRequest returned after %.1f s — kmsg loops over a client-chosen tagged-field count after the input is exhausted (third-party code, CPU-burn DoS, outside C10's statement)", what, took.Seconds()))
			} else {
				rep.Notes = append(rep.Notes, fmt.Sprintf("%s: ParseRequest still running after %.0f s and not waited for in this tier (kmsg tagged-field count loop: 2^31-1 iterations take ~22 s, 2^32-1 ~44 s on a quiet machine, then it returns an error); case skipped", what, took.Seconds()))
			}
		}
	}
	runHeader := func(cs c10Case) {
		h := c10ParseHeader(cs.Bytes)
		var q c10Req
		done, took := c10Timed(c10SoftDeadline(), func() { q = c10ParseRequest(cs.Bytes) })
		if !done {
			slow(c10Describe(cs.Bytes), took, false)
			return
		}
		if took > time.Second {
			slow(c10Describe(cs.Bytes), took, true)
		}
		if h.panicked || q.panicked {
			msg := h.msg
			if msg == "" {
				msg = q.msg
			}
			key := "panic:other"
			if strings.Contains(msg, "slice bounds out of range") && strings.Contains(cs.Class, "tag") {
				key = "panic:tagged-field-size"
			}
			// shrink: cut bytes from the end while it still panics
			shr := cs
			for len(shr.Bytes) > 0 {
				cand := shr
				cand.Bytes = shr.Bytes[:len(shr.Bytes)-1]
				if hh := c10ParseHeader(cand.Bytes); !hh.panicked {
					break
				}
				shr = cand
			}
			fail(key, fmt.Sprintf("ParseRequest panicked on %d bytes %x: %s", len(shr.Bytes), shr.Bytes, msg), shr)
		}
		rep.Hist(cs.Class)
		switch {
		case h.panicked:
			rep.Hist("header:panic")
		case h.err != nil:
			rep.Hist(fmt.Sprintf("header:error-%d", c10ErrClass(h.err)))
		default:
			rep.Hist("header:ok")
		}
		rep.Count(string(cs.Bytes), strings.Contains(cs.Class, "-tag"))
		coq = append(coq, c10CoqHeader(cs.Bytes, h, q))
		js, _ := json.Marshal(cs)
		jsons = append(jsons, string(js))
	}
	runFrame := func(cs c10Case) {
		f := c10ReadFrame(cs.Bytes)
		if f.panicked {
			fail("panic:read-frame", "ReadFrame panicked: "+f.msg, cs)
		}
		rep.Hist(cs.Class)
		rep.Count("f"+string(cs.Bytes), f.err == nil && len(f.payload) > 0)
		coq = append(coq, c10CoqFrame(cs.Bytes, f))
		js, _ := json.Marshal(cs)
		jsons = append(jsons, string(js))
	}
	connN := 0
	runConn := func(cs c10Case) {
		var badBodies [][3]any
		var announced int64
		done, pre := c10Timed(c10SoftDeadline(), func() { badBodies, announced = c10BadBodies(cs.Bytes) })
		if !done {
			slow("connection stream of "+fmt.Sprint(len(cs.Bytes))+" bytes ("+cs.Class+")", pre, false)
			return
		}
		if pre > time.Second {
			slow("connection stream of "+fmt.Sprint(len(cs.Bytes))+" bytes ("+cs.Class+")", pre, true)
		}
		// ReadFrame allocates (and the runtime zeroes) the announced frame size — up to 2 GiB for 4 bytes from the
		// client — before reading the payload: slow under load, but it returns. The quick tier does not run such
		// streams (the generator avoids them; a replayed one is recorded and skipped), the thorough tier does.
		if announced > 1<<26 && vTier() != "thorough" {
			rep.Hist("big-frame-skipped")
			rep.Notes = append(rep.Notes, fmt.Sprintf("connection stream (%s) announces a frame of %d MiB: ReadFrame allocates the announced size before reading (memory/CPU cost chosen by the client, outside C10's statement); not run in the quick tier", cs.Class, announced>>20))
			return
		}
		// "did not return" is judged against the measured parse time and the announced allocation
		deadline := 30*time.Second + 4*pre + time.Duration(announced>>20)*150*time.Millisecond
		t0 := time.Now()
		handled, consumed, panicked, msg := c10Conn(cs.Bytes, deadline)
		if d := time.Since(t0); d > 5*time.Second && msg == "" && !panicked {
			rep.Hist("slow-connection")
			rep.Notes = append(rep.Notes, fmt.Sprintf("connection stream (%s, largest announced frame %d MiB): handleConnection returned after %.1f s", cs.Class, announced>>20, d.Seconds()))
		}
		if panicked {
			key := "panic:connection"
			if strings.Contains(msg, "slice bounds out of range") {
				key = "panic:tagged-field-size"
			}
			// shrink: drop whole frames from the front while the panic persists
			shr := cs
			for len(shr.Bytes) > 4 {
				l := int(binary.BigEndian.Uint32(shr.Bytes))
				if l < 0 || 4+l >= len(shr.Bytes) {
					break
				}
				cand := shr
				cand.Bytes = shr.Bytes[4+l:]
				if _, _, p2, _ := c10Conn(cand.Bytes, 30*time.Second); !p2 {
					break
				}
				shr = cand
			}
			fail(key, fmt.Sprintf("handleConnection panicked (no recover: the broker process dies) on stream %x: %s", shr.Bytes, msg), shr)
		} else if msg != "" {
			fail("conn:hang", msg, cs)
		} else {
			connN++
			if connN%4 == 0 { // part of the time also through a real broker.Server listener
				if viaTCP, err := c10Listener(cs.Bytes); err == nil {
					rep.Hist("conn-via-listener")
					if fmt.Sprint(viaTCP) != fmt.Sprint(handled) {
						fail("conn:listener-differs", fmt.Sprintf("requests handled through broker.Server on TCP %v differ from handleConnection over a pipe %v", viaTCP, handled), cs)
					}
				}
			}
		}
		rep.Hist(cs.Class)
		rep.Count("c"+string(cs.Bytes), len(handled) > 1 || strings.HasPrefix(cs.Class, "conn-"))
		items := make([]string, len(handled))
		for i, h := range handled {
			items[i] = fmt.Sprintf("(%s, %s, %s)", cqZ(h[0]), cqZ(h[1]), cqZ(h[2]))
		}
		var bad []string
		for _, b := range badBodies {
			bad = append(bad, fmt.Sprintf("(%s, %s, %s)", cqZ(b[0].(int64)), cqZ(b[1].(int64)), cqBytes(b[2].([]byte))))
		}
		coq = append(coq, fmt.Sprintf("CConn %s %s %s %d %s", cqBytes(cs.Bytes), cqList(bad), cqList(items), consumed, cqBool(panicked)))
		js, _ := json.Marshal(cs)
		jsons = append(jsons, string(js))
	}
	runRoundtrip := func(cs c10Case) {
		rep.Hist("roundtrip")
		rep.Count("r"+string(cs.Bytes), len(cs.Body) >= 8)
		f := c10ReadFrame(cs.Bytes)
		if f.panicked || f.err != nil || f.restLen != 0 {
			fail("roundtrip:frame", fmt.Sprintf("%s v%d: frame written by the client codec not read back: %v %s", kmsg.NameForKey(cs.Key), cs.Version, f.err, f.msg), cs)
			return
		}
		q := c10ParseRequest(f.payload)
		switch {
		case q.panicked:
			fail("panic:roundtrip", fmt.Sprintf("%s v%d: ParseRequest panicked: %s", kmsg.NameForKey(cs.Key), cs.Version, q.msg), cs)
		case q.err != nil:
			fail("roundtrip:rejected", fmt.Sprintf("%s v%d: request written by the client codec rejected: %v", kmsg.NameForKey(cs.Key), cs.Version, q.err), cs)
		default:
			same := q.h.APIKey == cs.Key && q.h.APIVersion == cs.Version && q.h.CorrelationID == cs.Corr &&
				((q.h.ClientID == nil) == (cs.ClientID == nil)) && (cs.ClientID == nil || *q.h.ClientID == *cs.ClientID)
			if !same {
				fail("roundtrip:header", fmt.Sprintf("%s v%d: header came back as %+v", kmsg.NameForKey(cs.Key), cs.Version, *q.h), cs)
			} else if q.req.Key() != cs.Key || q.req.GetVersion() != cs.Version || !bytes.Equal(q.req.AppendTo(nil), cs.Body) {
				fail("roundtrip:body", fmt.Sprintf("%s v%d: body re-encodes to different bytes", kmsg.NameForKey(cs.Key), cs.Version), cs)
			}
		}
		h := c10ParseHeader(f.payload)
		coq = append(coq, c10CoqHeader(f.payload, h, q))
		js, _ := json.Marshal(cs)
		jsons = append(jsons, string(js))
	}
	run := func(cs c10Case) {
		switch cs.Kind {
		case "header":
			runHeader(cs)
		case "frame":
			runFrame(cs)
		case "conn":
			runConn(cs)
		case "roundtrip":
			runRoundtrip(cs)
		}
	}

	if rc := vReplayCase(); rc != nil {
		var cs c10Case
		if err := json.Unmarshal(rc, &cs); err != nil {
			t.Fatalf("bad replay: %v", err)
		}
		run(cs)
	} else {
		// corpus: the shape of the earlier finding first (ApiVersions v3, tagged field of size 2^64-1)
		w := []byte{0, 18, 0, 3, 0, 0, 0, 1, 0, 0, 1, 0, 0xff, 0xff, 0xff, 0xff, 0xff, 0xff, 0xff, 0xff, 0xff, 0x01}
		fr := append([]byte{0, 0, 0, byte(len(w))}, w...)
		corpus := []c10Case{
			{Kind: "header", Class: "hdr-tag-size-odd", Bytes: w},
			{Kind: "header", Class: "hdr-tag-size-odd", Bytes: append(append([]byte{}, w[:12]...), 0x80, 0x80, 0x80, 0x80, 0x80, 0x80, 0x80, 0x80, 0x80, 0x01)}, // 2^63
			{Kind: "conn", Class: "conn-odd-tag-size", Bytes: fr},
			// well-formed header + unknown API key / undecodable body, then another request: error path of handleConnection
			{Kind: "conn", Class: "conn-unknown-key", Bytes: append(c10FrameOf(c10HeaderBytes(9999, 0, 5, nil)), c10FrameOf(c10HeaderBytes(18, 0, 6, nil))...)},
			{Kind: "conn", Class: "conn-body-truncated", Bytes: append(c10FrameOf(append(c10HeaderBytes(3, 1, 7, nil), 0, 0, 0, 2, 0, 1)), c10FrameOf(c10HeaderBytes(18, 0, 8, nil))...)},
			{Kind: "conn", Class: "conn-body-oversized-count", Bytes: c10FrameOf(append(c10HeaderBytes(3, 1, 9, nil), 0x7f, 0xff, 0xff, 0xff))},
			{Kind: "conn", Class: "conn-body-empty", Bytes: c10FrameOf(c10HeaderBytes(0, 7, 10, nil))},
			// ListGroups v3 (flexible, body = tagged fields only) announcing 2^24 body tags: kmsg loops that often, then errors
			{Kind: "conn", Class: "conn-body-oversized-count", Bytes: c10FrameOf(append(append(c10HeaderBytes(16, 3, 0x32, nil), 0), 0x80, 0x80, 0x80, 0x08, 0xf4, 0x3b, 0xed))},
			{Kind: "frame", Class: "frame-negative", Bytes: []byte{0xff, 0xff, 0xff, 0xff, 1, 2}},
			{Kind: "frame", Class: "frame-truncated", Bytes: []byte{0x00, 0x10, 0x00, 0x00, 1, 2}},
		}
		if vTier() == "thorough" {
			// the same with 2^31-1 tags (about 22 s of kmsg looping before the error): waited for in this tier only
			corpus = append(corpus, c10Case{Kind: "conn", Class: "conn-body-oversized-count", Bytes: c10FrameOf(append(append(c10HeaderBytes(16, 3, 0x32, nil), 0), 0xff, 0xff, 0xff, 0xff, 0x07, 0xf4, 0x3b, 0xed))})
		}
		for _, cs := range corpus {
			run(cs)
		}
		r := vNewRand(vSeed())
		// every key x every version, generated bodies
		per := 1 // bodies per (key, version); not scaled by VERIF_N (the failing-input search scales the grammar cases)
		if vTier() == "thorough" {
			per = 6
		}
		for _, key := range c10Keys {
			max := kmsg.RequestForKey(key).MaxVersion()
			for ver := int16(0); ver <= max; ver++ {
				if key == 7 && ver == 0 {
					// ControlledShutdown v0 (inter-broker API, listed as unsupported by KafScale) uses request
					// header v0 without a client id; kmsg's RequestFormatter returns early for it without
					// body or size. Not a client request: excluded from the round trip.
					continue
				}
				for k := 0; k < per; k++ {
					if cs, ok := c10GenRoundtrip(r.Fork(), key, ver); ok {
						run(cs)
					}
				}
			}
		}
		n := vN(500, 5000)
		for i := 0; i < n; i++ {
			rr := r.Fork()
			switch i % 10 {
			case 0, 1:
				run(c10GenFrame(rr))
			case 2, 3, 4:
				run(c10GenConn(rr))
			default:
				run(c10GenHeader(rr))
			}
		}
	}
	rep.Notes = append(rep.Notes, "round trip skips ControlledShutdown v0 (request header v0, kmsg.RequestFormatter writes no body/size for it; KafScale lists key 7 as unsupported)")
	rep.Cases("C10", "From KS Require Import lib.Base lib.Wire model.ProtoHeader corr.ProtoHeaderCorr.", "case", "check_case", coq, jsons)
	rep.Write()
	if len(rep.Failures) > 0 {
		t.Logf("oracle failures: %s", strings.TrimSpace(rep.Failures[0].What))
	}
}
