package main

// C11 harness, proxy side (overlaid into cmd/proxy, package main): the entries the proxy
// advertises (generateProxyApiVersions) are emitted for comparison with the extracted
// table; for every advertised (key, version) x generated bodies the replies the proxy
// builds itself — handleApiVersions, buildNotReadyResponse (also used by
// respondBackendError), handleFindCoordinator, handleMetadata over an in-memory store —
// must carry the correlation id, have the Kafka header shape and decode with kmsg at the
// request version.

import (
	"bytes"
	"context"
	"encoding/binary"
	"encoding/json"
	"fmt"
	"io"
	"log/slog"
	"net"
	"os"
	"reflect"
	"strings"
	"sync"
	"testing"
	"time"

	"github.com/twmb/franz-go/pkg/kmsg"

	"github.com/KafScale/platform/pkg/metadata"
	"github.com/KafScale/platform/pkg/protocol"
)

type c11pCase struct {
	Key     int16  `json:"key"`
	Version int16  `json:"version"`
	Body    []byte `json:"body"`
	Path    string `json:"path"` // apiversions | notready | findcoordinator | metadata
}

func c11pStr(r *vRand) string {
	if r.Intn(3) == 0 {
		return []string{"orders", "events", "g1"}[r.Intn(3)]
	}
	n := r.Intn(9)
	b := make([]byte, n)
	for i := range b {
		b[i] = "abcdefghijklmnopqrstuvwxyz-._0123456789"[r.Intn(39)]
	}
	return string(b)
}

func c11pFill(r *vRand, v reflect.Value, depth int) {
	switch v.Kind() {
	case reflect.Bool:
		v.SetBool(r.Bool())
	case reflect.Int8, reflect.Int16, reflect.Int32, reflect.Int64:
		bits := v.Type().Bits()
		x := int64(r.Intn(20))
		switch r.Intn(6) {
		case 0:
			x = -1
		case 1:
			x = int64(1)<<(bits-1) - 1
		}
		v.SetInt(x)
	case reflect.Uint8, reflect.Uint16, reflect.Uint32, reflect.Uint64:
		v.SetUint(uint64(r.Intn(200)))
	case reflect.Float64:
		v.SetFloat(float64(r.Intn(100)))
	case reflect.String:
		v.SetString(c11pStr(r))
	case reflect.Ptr:
		if r.Intn(3) == 0 {
			v.Set(reflect.Zero(v.Type()))
			return
		}
		p := reflect.New(v.Type().Elem())
		c11pFill(r, p.Elem(), depth)
		v.Set(p)
	case reflect.Slice:
		if v.Type().Elem().Kind() == reflect.Uint8 {
			if r.Intn(3) == 0 {
				v.Set(reflect.Zero(v.Type()))
			} else {
				v.SetBytes(r.Bytes(r.Intn(10)))
			}
			return
		}
		n := r.Intn(3)
		if depth > 3 {
			n = r.Intn(2)
		}
		s := reflect.MakeSlice(v.Type(), n, n)
		for i := 0; i < n; i++ {
			c11pFill(r, s.Index(i), depth+1)
		}
		v.Set(s)
	case reflect.Array:
		for i := 0; i < v.Len(); i++ {
			c11pFill(r, v.Index(i), depth+1)
		}
	case reflect.Struct:
		t := v.Type()
		for i := 0; i < v.NumField(); i++ {
			f := t.Field(i)
			if !f.IsExported() || f.Name == "Version" || f.Name == "UnknownTags" {
				continue
			}
			if v.Field(i).CanSet() {
				c11pFill(r, v.Field(i), depth+1)
			}
		}
	}
}

func c11pDecode(key, ver int16, reply []byte, flexible bool) (decoded, exact bool) {
	resp := kmsg.ResponseForKey(key)
	if resp == nil || len(reply) < 4 {
		return false, false
	}
	resp.SetVersion(ver)
	off := 4
	if flexible {
		if len(reply) < 5 || reply[4] != 0 {
			return false, false
		}
		off = 5
	}
	defer func() {
		if rec := recover(); rec != nil {
			decoded, exact = false, false
		}
	}()
	if err := resp.ReadFrom(reply[off:]); err != nil {
		return false, false
	}
	return true, bytes.Equal(resp.AppendTo(nil), reply[off:])
}

func TestVerifC11Proxy(t *testing.T) {
	rep := vNewReport("C11", "every (key, version) pair the proxy advertises x generated request bodies through the proxy's own reply builders (handleApiVersions, buildNotReadyResponse, handleFindCoordinator, handleMetadata over an in-memory store); reply decoded by kmsg at the request version; non-trivial = generated (non-default) body; distinct = distinct (key, version, body, path)")
	adv := generateProxyApiVersions()
	topic := "orders"
	store := metadata.NewInMemoryStore(metadata.ClusterMetadata{
		Brokers: []protocol.MetadataBroker{{NodeID: 1, Host: "b1", Port: 9092}},
		Topics: []protocol.MetadataTopic{{Topic: &topic, Partitions: []protocol.MetadataPartition{{Partition: 0, Leader: 1, Replicas: []int32{1}, ISR: []int32{1}}}}},
	})
	p := &proxy{apiVersions: adv, store: store, advertisedHost: "proxy.local", advertisedPort: 9092, brokerAddrs: map[string]string{}, topicNames: map[[16]byte]string{}}
	var coq, jsons []string
	items := make([]string, len(adv))
	for i, e := range adv {
		items[i] = fmt.Sprintf("(%s, %s, %s)", cqZ(int64(e.ApiKey)), cqZ(int64(e.MinVersion)), cqZ(int64(e.MaxVersion)))
	}
	coq = append(coq, "CProxyTable "+cqList(items))
	jsons = append(jsons, `{"table":"proxy"}`)

	run := func(cs c11pCase, nontrivial bool) {
		name := kmsg.NameForKey(cs.Key)
		key := func(s string) string { return fmt.Sprintf("proxy-%s:%s-v%d", s, name, cs.Version) }
		cid := "verif"
		header := &protocol.RequestHeader{APIKey: cs.Key, APIVersion: cs.Version, CorrelationID: 0x0badcafe, ClientID: &cid}
		var reply []byte
		var err error
		ok := true
		panicked := ""
		func() {
			defer func() {
				if r := recover(); r != nil {
					panicked = fmt.Sprint(r)
				}
			}()
			switch cs.Path {
			case "apiversions":
				reply, err = p.handleApiVersions(header)
			case "notready":
				reply, ok, err = p.buildNotReadyResponse(header, cs.Body)
			case "findcoordinator":
				reply, err = p.handleFindCoordinator(header)
			case "metadata":
				payload := []byte{0, byte(cs.Key), byte(cs.Version >> 8), byte(cs.Version), 0x0b, 0xad, 0xca, 0xfe, 0xff, 0xff}
				rq := kmsg.RequestForKey(cs.Key)
				rq.SetVersion(cs.Version)
				if rq.IsFlexible() {
					payload = append(payload, 0)
				}
				reply, err = p.handleMetadata(context.Background(), header, append(payload, cs.Body...))
			}
		}()
		rep.Count(fmt.Sprintf("%s/%d/%d/%x", cs.Path, cs.Key, cs.Version, cs.Body), nontrivial)
		rep.Hist("proxy-" + cs.Path)
		if panicked != "" {
			rep.Fail("panic", key("panic"), fmt.Sprintf("proxy %s for %s v%d panicked: %s", cs.Path, name, cs.Version, panicked), cs)
			return
		}
		if err != nil && strings.Contains(err.Error(), "decode ") {
			rep.Hist("body-rejected-by-kmsg")
			return
		}
		if err != nil || !ok || reply == nil {
			rep.Fail("advertised-served", key("no-reply"), fmt.Sprintf("proxy advertises %s v%d but %s built no reply (ok=%v err=%v)", name, cs.Version, cs.Path, ok, err), cs)
			return
		}
		if len(reply) < 4 || int32(binary.BigEndian.Uint32(reply)) != 0x0badcafe {
			rep.Fail("correlation", key("correlation"), fmt.Sprintf("proxy %s reply for %s v%d does not carry the correlation id", cs.Path, name, cs.Version), cs)
			return
		}
		kresp := kmsg.ResponseForKey(cs.Key)
		kresp.SetVersion(cs.Version)
		want := 0
		if kresp.IsFlexible() && cs.Key != 18 {
			want = 1
		}
		d0, e0 := c11pDecode(cs.Key, cs.Version, reply, false)
		d1, e1 := c11pDecode(cs.Key, cs.Version, reply, true)
		shape := want
		switch {
		case e1 && !e0, d1 && !d0:
			shape = 1
		case e0 && !e1, d0 && !d1:
			shape = 0
		default:
			rep.Hist("shape-undecidable")
		}
		if (want == 1 && d1 && !e1) || (want == 0 && d0 && !e0) {
			rep.Fail("decodable", key("misframed"), fmt.Sprintf("proxy %s reply for %s v%d decodes only leniently: re-encoding the decoded response gives different bytes", cs.Path, name, cs.Version), cs)
		} else if (want == 1 && !d1) || (want == 0 && !d0) {
			rep.Fail("decodable", key("undecodable"), fmt.Sprintf("proxy %s reply for %s v%d does not decode with the %s header", cs.Path, name, cs.Version, []string{"non-flexible", "flexible"}[want]), cs)
		} else if shape != want {
			rep.Fail("header-shape", key("header-shape"), fmt.Sprintf("proxy %s reply for %s v%d: header shape %d, Kafka rule says %d", cs.Path, name, cs.Version, shape, want), cs)
		}
		coq = append(coq, fmt.Sprintf("CProxyReply %s %s %d", cqZ(int64(cs.Key)), cqZ(int64(cs.Version)), shape))
		js, _ := json.Marshal(cs)
		jsons = append(jsons, string(js))
	}

	if rc := vReplayCase(); rc != nil {
		var cs c11pCase
		if err := json.Unmarshal(rc, &cs); err != nil {
			t.Fatalf("bad replay: %v", err)
		}
		if cs.Path == "" || cs.Path == "concurrent" { // a broker-side or concurrent-stream replay: nothing to do here
			rep.Cases("C11_proxy", "From KS Require Import lib.Base gen.ApiTables model.ApiVersions corr.ApiVersionsCorr.", "case", "check_case", coq[:1], jsons[:1])
			rep.WriteAs("C11_proxy")
			return
		}
		run(cs, true)
	} else {
		r := vNewRand(vSeed() ^ 0x5eed)
		per := 3
		if vTier() == "thorough" {
			per = 30
		}
		if n := vN(0, 0); n > 0 {
			per = 10
		}
		for _, e := range adv {
			for v := e.MinVersion; v <= e.MaxVersion && v >= 0; v++ {
				for k := 0; k < per; k++ {
					rq := kmsg.RequestForKey(e.ApiKey)
					rq.SetVersion(v)
					var body []byte
					func() {
						defer func() { _ = recover() }()
						if k > 0 {
							c11pFill(r.Fork(), reflect.ValueOf(rq).Elem(), 0)
							rq.SetVersion(v)
						}
						body = rq.AppendTo(nil)
					}()
					path := "notready"
					if e.ApiKey == 18 {
						path = "apiversions"
					}
					run(c11pCase{Key: e.ApiKey, Version: v, Body: body, Path: path}, k > 0)
					if e.ApiKey == 10 && k == 0 {
						run(c11pCase{Key: e.ApiKey, Version: v, Body: body, Path: "findcoordinator"}, false)
					}
					if e.ApiKey == 3 {
						run(c11pCase{Key: e.ApiKey, Version: v, Body: body, Path: "metadata"}, k > 0)
					}
				}
			}
		}
	}
	rep.Cases("C11_proxy", "From KS Require Import lib.Base gen.ApiTables model.ApiVersions corr.ApiVersionsCorr.", "case", "check_case", coq, jsons)
	rep.WriteAs("C11_proxy")
	if len(rep.Failures) > 0 {
		t.Logf("oracle failures: %s", strings.TrimSpace(rep.Failures[0].What))
	}
}

// ---------------------------------------------------------------- concurrent stream
//
// The Coq theorems and the sequential stream above are about the per-request function.
// State shared between requests (a cached response message, a reused buffer, ...) can only
// go wrong when requests overlap, so this stream drives several client connections at once
// through the real proxy.handleConnection over net.Pipe: requests of the same API at
// DIFFERENT versions (and mixed APIs) simultaneously, for a bounded number of rounds. Every
// reply is checked exactly like a sequential one (correlation id, header shape, kmsg decode at
// the request's version, canonical re-encode) and, the served APIs being deterministic over a
// static store, must equal byte for byte the reply the same request got sequentially.

type c11pReq struct {
	Key     int16  `json:"key"`
	Version int16  `json:"version"`
	Body    []byte `json:"body"`
}

type c11pConcCase struct {
	Path       string    `json:"path"` // "concurrent"
	Requests   []c11pReq `json:"requests"`
	Goroutines int       `json:"goroutines"`
	Rounds     int       `json:"rounds"`
}

func c11pFramePayload(rq c11pReq, corr int32) []byte {
	out := make([]byte, 8)
	binary.BigEndian.PutUint16(out[0:], uint16(rq.Key))
	binary.BigEndian.PutUint16(out[2:], uint16(rq.Version))
	binary.BigEndian.PutUint32(out[4:], uint32(corr))
	out = append(out, 0, 5, 'v', 'e', 'r', 'i', 'f')
	k := kmsg.RequestForKey(rq.Key)
	k.SetVersion(rq.Version)
	if k.IsFlexible() {
		out = append(out, 0)
	}
	return append(out, rq.Body...)
}

// c11pCheckReply: the per-reply oracle shared by the sequential reference and the concurrent stream.
func c11pCheckReply(rq c11pReq, corr int32, reply []byte) (string, string) {
	name := kmsg.NameForKey(rq.Key)
	if len(reply) < 4 {
		return "concurrent-short:" + name, fmt.Sprintf("%s v%d: reply of %d bytes", name, rq.Version, len(reply))
	}
	if got := int32(binary.BigEndian.Uint32(reply)); got != corr {
		return "concurrent-correlation:" + name, fmt.Sprintf("%s v%d: reply carries correlation id %#x, request had %#x", name, rq.Version, got, corr)
	}
	kresp := kmsg.ResponseForKey(rq.Key)
	kresp.SetVersion(rq.Version)
	flex := kresp.IsFlexible() && rq.Key != 18
	dec, exact := c11pDecode(rq.Key, rq.Version, reply, flex)
	if !dec || !exact {
		// which other version does the body belong to?
		other := "none of 0..MaxVersion"
		for v := int16(0); v <= kmsg.RequestForKey(rq.Key).MaxVersion(); v++ {
			kr := kmsg.ResponseForKey(rq.Key)
			kr.SetVersion(v)
			if d, e := c11pDecode(rq.Key, v, reply, kr.IsFlexible() && rq.Key != 18); d && e && v != rq.Version {
				other = fmt.Sprintf("version %d", v)
				break
			}
		}
		return "concurrent-corrupt:" + name, fmt.Sprintf("%s v%d: reply behind the request's correlation id does not decode canonically at version %d (decodes=%v, re-encodes identically=%v); its body is a canonical encoding at %s; reply bytes %x", name, rq.Version, rq.Version, dec, exact, other, c11pCut(reply))
	}
	return "", ""
}

func c11pCut(b []byte) []byte {
	if len(b) > 96 {
		return b[:96]
	}
	return b
}

// c11pClient: one client connection served by the real handleConnection.
type c11pClient struct {
	conn net.Conn
	done chan struct{}
}

func c11pDial(p *proxy) *c11pClient {
	srv, cli := net.Pipe()
	c := &c11pClient{conn: cli, done: make(chan struct{})}
	go func() {
		defer close(c.done)
		p.handleConnection(context.Background(), srv)
	}()
	return c
}

func (c *c11pClient) roundTrip(rq c11pReq, corr int32) ([]byte, error) {
	_ = c.conn.SetDeadline(time.Now().Add(120 * time.Second))
	if err := protocol.WriteFrame(c.conn, c11pFramePayload(rq, corr)); err != nil {
		return nil, err
	}
	f, err := protocol.ReadFrame(c.conn)
	if err != nil {
		return nil, err
	}
	return f.Payload, nil
}

func (c *c11pClient) close() {
	_ = c.conn.Close()
	select {
	case <-c.done:
	case <-time.After(5 * time.Second):
	}
}

type c11pConcFailure struct {
	key, what string
	req       c11pReq
}

// c11pRunConcurrent returns the first failure (or nil) and the number of replies checked.
func c11pRunConcurrent(p *proxy, cs c11pConcCase) (*c11pConcFailure, int) {
	// sequential reference, itself checked
	ref := make([][]byte, len(cs.Requests))
	seq := c11pDial(p)
	for i, rq := range cs.Requests {
		reply, err := seq.roundTrip(rq, 0x5e9e0000+int32(i))
		if err != nil {
			seq.close()
			return &c11pConcFailure{"concurrent-no-reply:" + kmsg.NameForKey(rq.Key), fmt.Sprintf("%s v%d: no reply on a sequential connection: %v", kmsg.NameForKey(rq.Key), rq.Version, err), rq}, i
		}
		if k, w := c11pCheckReply(rq, 0x5e9e0000+int32(i), reply); k != "" {
			seq.close()
			return &c11pConcFailure{k, "sequential reference: " + w, rq}, i
		}
		ref[i] = append([]byte{}, reply[4:]...)
	}
	seq.close()

	var mu sync.Mutex
	var first *c11pConcFailure
	checked := 0
	start := make(chan struct{})
	var wg sync.WaitGroup
	for g := 0; g < cs.Goroutines; g++ {
		wg.Add(1)
		go func(g int) {
			defer wg.Done()
			c := c11pDial(p)
			defer c.close()
			<-start
			n := 0
			for round := 0; round < cs.Rounds; round++ {
				i := (g + round*(g%3+1)) % len(cs.Requests) // goroutines walk the request list at different strides
				rq := cs.Requests[i]
				corr := int32(g+1)<<20 | int32(round)
				reply, err := c.roundTrip(rq, corr)
				var k, w string
				if err != nil {
					k, w = "concurrent-no-reply:"+kmsg.NameForKey(rq.Key), fmt.Sprintf("%s v%d: no reply while %d connections were active: %v", kmsg.NameForKey(rq.Key), rq.Version, cs.Goroutines, err)
				} else if k, w = c11pCheckReply(rq, corr, reply); k == "" && !bytes.Equal(reply[4:], ref[i]) {
					k, w = "concurrent-differs:"+kmsg.NameForKey(rq.Key), fmt.Sprintf("%s v%d: reply under concurrency differs from the reply to the same request sent alone: %x vs %x", kmsg.NameForKey(rq.Key), rq.Version, c11pCut(reply[4:]), c11pCut(ref[i]))
				}
				n++
				if k != "" {
					mu.Lock()
					if first == nil {
						first = &c11pConcFailure{k, w, rq}
					}
					mu.Unlock()
					break
				}
				mu.Lock()
				stop := first != nil
				mu.Unlock()
				if stop {
					break
				}
			}
			mu.Lock()
			checked += n
			mu.Unlock()
		}(g)
	}
	close(start)
	wg.Wait()
	return first, checked
}

func c11pProxyForConcurrency() *proxy {
	topic := "orders"
	store := metadata.NewInMemoryStore(metadata.ClusterMetadata{
		Brokers: []protocol.MetadataBroker{{NodeID: 1, Host: "b1", Port: 9092}},
		Topics:  []protocol.MetadataTopic{{Topic: &topic, Partitions: []protocol.MetadataPartition{{Partition: 0, Leader: 1, Replicas: []int32{1}, ISR: []int32{1}}}}},
	})
	p := &proxy{apiVersions: generateProxyApiVersions(), store: store, advertisedHost: "proxy.local", advertisedPort: 9092,
		brokerAddrs: map[string]string{}, topicNames: map[[16]byte]string{}, logger: slog.New(slog.NewTextHandler(io.Discard, nil)), dialTimeout: time.Second}
	p.setReady(true)
	return p
}

func TestVerifC11ProxyConcurrent(t *testing.T) {
	name := "C11_proxy_conc" + os.Getenv("VERIF_C11_TAG")
	rep := vNewReport("C11", "concurrent stream: several client connections at once through the real proxy.handleConnection (net.Pipe), requests of the same API at different versions and mixed APIs (ApiVersions, Metadata, FindCoordinator — the APIs the proxy answers itself) simultaneously for a bounded number of rounds; each reply checked like a sequential one and compared byte for byte with the reply the same request got alone")
	def := func(key, ver int16) c11pReq {
		rq := kmsg.RequestForKey(key)
		rq.SetVersion(ver)
		return c11pReq{Key: key, Version: ver, Body: rq.AppendTo(nil)}
	}
	var cases []c11pConcCase
	if rc := vReplayCase(); rc != nil {
		var cs c11pConcCase
		if err := json.Unmarshal(rc, &cs); err != nil || cs.Path != "concurrent" {
			rep.WriteAs(name)
			return
		}
		cases = []c11pConcCase{cs}
	} else {
		rounds := vN(6000, 40000)
		var apiv, mixed []c11pReq
		for _, e := range generateProxyApiVersions() {
			for v := e.MinVersion; v <= e.MaxVersion && v >= 0; v++ {
				switch e.ApiKey {
				case 18:
					apiv = append(apiv, def(18, v))
					mixed = append(mixed, def(18, v))
				case 3, 10:
					mixed = append(mixed, def(e.ApiKey, v))
				}
			}
		}
		for v := int16(0); v <= 4; v++ { // FindCoordinator is answered locally at any version
			mixed = append(mixed, def(10, v))
		}
		cases = []c11pConcCase{
			{Path: "concurrent", Requests: apiv, Goroutines: 8, Rounds: rounds},
			{Path: "concurrent", Requests: mixed, Goroutines: 8, Rounds: rounds / 3},
		}
	}
	for _, cs := range cases {
		p := c11pProxyForConcurrency()
		f, n := c11pRunConcurrent(p, cs)
		rep.Evaluations += n
		rep.Hist("proxy-concurrent-replies")
		rep.Histogram["proxy-concurrent-replies"] += n - 1
		if f != nil {
			// shrink: the failing request plus one request of the same API at another version, two connections
			shr := cs
			for _, other := range cs.Requests {
				if other.Key == f.req.Key && other.Version != f.req.Version {
					cand := c11pConcCase{Path: "concurrent", Requests: []c11pReq{f.req, other}, Goroutines: 2, Rounds: cs.Rounds * 4}
					if f2, _ := c11pRunConcurrent(c11pProxyForConcurrency(), cand); f2 != nil && f2.key == f.key {
						shr, f = cand, f2
						break
					}
				}
			}
			rep.Fail("concurrent", f.key, f.what, shr)
		}
	}
	rep.WriteAs(name)
	if len(rep.Failures) > 0 {
		t.Logf("oracle failures: %s", strings.TrimSpace(rep.Failures[0].What))
	}
}
