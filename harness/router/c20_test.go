package metadata

// C20 harness: drives the real PartitionRouter / GroupRouter against embedded etcd.
// The router's own code (loadAll, the watch loop) runs unmodified in its goroutine; the
// etcd client handed to it has its KV and Watcher replaced by gating wrappers, so that
// every Get, every Watch call, every watch response and every stream close happens
// exactly when the schedule says.  Lease writes are interleaved at any of those points
// (in particular between the Get of loadAll and the Watch call).
//
// Implementation-side oracle: after the history, with the router watching and every
// pending response delivered, LookupOwner/AllRoutes must agree with a Get of the lease
// prefix.  Correspondence: every step is emitted as a model event together with the
// table, the rev field and the program position observed after it (corr/RouterCorr.v).

import (
	"context"
	"encoding/json"
	"errors"
	"fmt"
	"io"
	"log/slog"
	"reflect"
	"sort"
	"strings"
	"sync"
	"sync/atomic"
	"testing"
	"time"

	clientv3 "go.etcd.io/etcd/client/v3"

	"github.com/KafScale/platform/internal/testutil"
)

type c20Op struct {
	Del bool   `json:"del,omitempty"`
	Key int    `json:"key"`
	Val string `json:"val,omitempty"`
}

type c20Step struct {
	Op  string  `json:"op"` // put del txn other compact compact_at(val: rev|rev+1|cur) load_ok load_fail watch deliver drain close
	Key int     `json:"key,omitempty"`
	Val string  `json:"val,omitempty"`
	Ops []c20Op `json:"ops,omitempty"`
}

type c20Key struct {
	Rem   string `json:"rem"`             // key after the prefix
	Topic string `json:"topic,omitempty"` // canonical partition keys: how it was built
	Part  int32  `json:"part,omitempty"`
}

type c20Case struct {
	Kind  int       `json:"kind"` // 0 partition router, 1 group router
	Canon bool      `json:"canon"`
	Keys  []c20Key  `json:"keys"`
	Steps []c20Step `json:"steps"`
}

type c20Obs struct {
	routes [][2]string
	rev    int64
	pc     int
}

// ---------- gating client wrappers ----------

type c20Sig struct {
	what string // get watch watching cancelled
}

type c20KV struct {
	clientv3.KV
	ctx     context.Context
	reached chan c20Sig
	gate    chan bool // true = proceed, false = fail
}

func (k *c20KV) Get(ctx context.Context, key string, opts ...clientv3.OpOption) (*clientv3.GetResponse, error) {
	select {
	case k.reached <- c20Sig{"get"}:
	case <-k.ctx.Done():
		return nil, k.ctx.Err()
	}
	select {
	case ok := <-k.gate:
		if !ok {
			return nil, errors.New("verif: injected etcd Get failure")
		}
	case <-k.ctx.Done():
		return nil, k.ctx.Err()
	}
	return k.KV.Get(ctx, key, opts...)
}

type c20Stream struct {
	real   clientv3.WatchChan
	out    chan clientv3.WatchResponse
	cancel context.CancelFunc
	pos    int64 // next revision the stream delivers
}

type c20Watcher struct {
	inner   clientv3.Watcher
	ctx     context.Context
	reached chan c20Sig
	gate    chan bool
	mu      sync.Mutex
	cur     *c20Stream
	compact *int64 // the lane's last compaction revision (the harness compacts itself)
}

func (w *c20Watcher) Watch(ctx context.Context, key string, opts ...clientv3.OpOption) clientv3.WatchChan {
	closed := make(chan clientv3.WatchResponse)
	select {
	case w.reached <- c20Sig{"watch"}:
	case <-w.ctx.Done():
		close(closed)
		return closed
	}
	select {
	case <-w.gate:
	case <-w.ctx.Done():
		close(closed)
		return closed
	}
	startRev := clientv3.OpGet(key, opts...).Rev()
	wctx, cancel := context.WithCancel(ctx)
	real := w.inner.Watch(wctx, key, append(append([]clientv3.OpOption{}, opts...), clientv3.WithCreatedNotify())...)
	out := make(chan clientv3.WatchResponse)
	var first clientv3.WatchResponse
	var ok bool
	select {
	case first, ok = <-real:
	case <-time.After(10 * time.Second):
	}
	if ok && first.Created && !first.Canceled && startRev != 0 && startRev < atomic.LoadInt64(w.compact) {
		// the requested start revision is compacted: etcd registers the watcher and
		// cancels it as soon as its sync loop sees it; wait for that response
		select {
		case first, ok = <-real:
		case <-time.After(10 * time.Second):
			ok = false
		}
	}
	if !ok || first.Canceled || first.CompactRevision != 0 || !first.Created {
		// cancelled (compacted start revision): the router sees the error response and
		// then the closed channel
		go func() {
			if ok {
				select {
				case out <- first:
				case <-w.ctx.Done():
				}
			}
			close(out)
		}()
		cancel()
		w.reached <- c20Sig{"cancelled"}
		return out
	}
	pos := startRev
	if pos == 0 {
		pos = first.Header.Revision + 1
	}
	w.mu.Lock()
	w.cur = &c20Stream{real: real, out: out, cancel: cancel, pos: pos}
	w.mu.Unlock()
	w.reached <- c20Sig{"watching"}
	return out
}
func (w *c20Watcher) RequestProgress(ctx context.Context) error { return w.inner.RequestProgress(ctx) }
func (w *c20Watcher) Close() error                              { return nil }

// ---------- one lane = one embedded etcd ----------

type c20Lane struct {
	cli     *clientv3.Client
	compact int64
}

const c20OtherKey = "/kafscale/verif-other"

type c20Router interface {
	loadAll(ctx context.Context) error
	watch(ctx context.Context)
}

func c20Prefix(kind int) string {
	if kind == 0 {
		return partitionLeasePrefix + "/"
	}
	return groupLeasePrefix + "/"
}

type c20Run struct {
	events  []string
	obs     []c20Obs
	etcd    [][2]string
	fail    string
	tags    map[string]bool
	harness string // harness-level problem (timeout...)
	stuck   bool   // never reached the watching state again
}

func c20Exec(l *c20Lane, cs c20Case) (res c20Run) {
	res.tags = map[string]bool{}
	bg := context.Background()
	prefix := c20Prefix(cs.Kind)
	if _, err := l.cli.Delete(bg, partitionLeasePrefix+"/", clientv3.WithPrefix()); err != nil {
		res.harness = "cleanup: " + err.Error()
		return
	}
	_, _ = l.cli.Delete(bg, groupLeasePrefix+"/", clientv3.WithPrefix())
	baseResp, err := l.cli.Get(bg, c20OtherKey)
	if err != nil {
		res.harness = "base: " + err.Error()
		return
	}
	base := baseResp.Header.Revision

	ctx, cancelAll := context.WithCancel(bg)
	defer cancelAll()
	reached := make(chan c20Sig)
	kv := &c20KV{KV: l.cli.KV, ctx: ctx, reached: reached, gate: make(chan bool)}
	wt := &c20Watcher{inner: l.cli.Watcher, ctx: ctx, reached: reached, gate: make(chan bool), compact: &l.compact}
	rc := clientv3.NewCtxClient(ctx)
	rc.KV = kv
	rc.Watcher = wt
	logger := slog.New(slog.NewTextHandler(io.Discard, nil))

	var rt c20Router
	var pr *PartitionRouter
	var gr *GroupRouter
	if cs.Kind == 0 {
		pr = &PartitionRouter{client: rc, logger: logger, cancel: cancelAll, routes: make(map[string]string)}
		rt = pr
	} else {
		gr = &GroupRouter{client: rc, logger: logger, cancel: cancelAll, routes: make(map[string]string)}
		rt = gr
	}
	routesOf := func() (map[string]string, int64) {
		var mu *sync.RWMutex
		var m map[string]string
		var v reflect.Value
		if pr != nil {
			mu, m, v = &pr.mu, nil, reflect.ValueOf(pr).Elem()
		} else {
			mu, m, v = &gr.mu, nil, reflect.ValueOf(gr).Elem()
		}
		mu.RLock()
		defer mu.RUnlock()
		if pr != nil {
			m = pr.routes
		} else {
			m = gr.routes
		}
		cp := make(map[string]string, len(m))
		for k, x := range m {
			cp[k] = x
		}
		rev := int64(-1)
		if f := v.FieldByName("rev"); f.IsValid() {
			rev = f.Int() - base
		}
		return cp, rev
	}
	done := make(chan struct{})
	go func() {
		defer close(done)
		// NewPartitionRouter / NewGroupRouter: loadAll, then the watch goroutine; a failed
		// initial load makes the constructor return an error and the caller tries again.
		for ctx.Err() == nil {
			if err := rt.loadAll(ctx); err == nil {
				break
			}
		}
		if ctx.Err() == nil {
			rt.watch(ctx)
		}
	}()
	defer func() {
		cancelAll()
		wt.mu.Lock()
		if wt.cur != nil {
			wt.cur.cancel()
			close(wt.cur.out)
			wt.cur = nil
		}
		wt.mu.Unlock()
		select {
		case <-done:
		case <-time.After(5 * time.Second):
		}
	}()

	waitSig := func(d time.Duration) (string, bool) {
		select {
		case s := <-reached:
			return s.what, true
		case <-time.After(d):
			return "", false
		}
	}
	// phase: 0 at the Get gate before any successful load, 1 at the Watch gate,
	// 2 watching, 3 at the Get gate after a closed/cancelled stream
	phase := 0
	if s, ok := waitSig(10 * time.Second); !ok || s != "get" {
		res.harness = "router did not reach the initial Get: " + s
		return
	}
	var watched []int64 // revisions that carried events under the prefix
	loaded := false
	gapWrite := false
	record := func(ev string) {
		m, rev := routesOf()
		keys := make([]string, 0, len(m))
		for k := range m {
			keys = append(keys, k)
		}
		sort.Strings(keys)
		o := c20Obs{rev: rev, pc: phase}
		for _, k := range keys {
			o.routes = append(o.routes, [2]string{k, m[k]})
		}
		res.events = append(res.events, ev)
		res.obs = append(res.obs, o)
	}
	pending := func() int {
		wt.mu.Lock()
		defer wt.mu.Unlock()
		if wt.cur == nil {
			return 0
		}
		n := 0
		for _, r := range watched {
			if r >= wt.cur.pos {
				n++
			}
		}
		return n
	}
	noteWrite := func() {
		if phase == 1 {
			gapWrite = true
			res.tags["write-between-load-and-watch"] = true
		}
		if phase == 3 && loaded {
			res.tags["write-while-disconnected"] = true
		}
	}
	deliver := func() bool {
		wt.mu.Lock()
		st := wt.cur
		wt.mu.Unlock()
		var resp clientv3.WatchResponse
		var ok bool
		select {
		case resp, ok = <-st.real:
		case <-time.After(10 * time.Second):
			res.harness = "expected a watch response, none arrived"
			return false
		}
		if !ok || len(resp.Events) == 0 {
			res.harness = fmt.Sprintf("unexpected watch response ok=%v %+v", ok, resp)
			return false
		}
		revs := map[int64]bool{}
		last := int64(0)
		for _, ev := range resp.Events {
			revs[ev.Kv.ModRevision] = true
			if ev.Kv.ModRevision > last {
				last = ev.Kv.ModRevision
			}
		}
		for _, x := range []clientv3.WatchResponse{resp, {}} { // the empty response is a barrier
			select {
			case st.out <- x:
			case <-time.After(10 * time.Second):
				res.harness = "router does not take the watch response"
				return false
			}
		}
		wt.mu.Lock()
		st.pos = last + 1
		wt.mu.Unlock()
		record(fmt.Sprintf("EDeliver %d%%nat", len(revs)))
		return true
	}
	// after a closed or cancelled stream the router backs off one second and then calls
	// loadAll (Get gate, position 3); a router that re-opens the watch without reloading
	// shows up at the Watch gate instead (position 1)
	toClosed := func() (int, bool) {
		s, ok := waitSig(10 * time.Second)
		switch {
		case ok && s == "get":
			return 3, true
		case ok && s == "watch":
			res.tags["reconnect-without-reload"] = true
			return 1, true
		}
		res.harness = "router did not come back after a closed stream: " + s
		return 0, false
	}
	keyName := func(i int) string { return cs.Keys[((i%len(cs.Keys))+len(cs.Keys))%len(cs.Keys)].Rem }

	do := func(st c20Step) bool {
		switch st.Op {
		case "put":
			k := keyName(st.Key)
			resp, err := l.cli.Put(bg, prefix+k, st.Val)
			if err != nil {
				res.harness = err.Error()
				return false
			}
			watched = append(watched, resp.Header.Revision)
			noteWrite()
			record(fmt.Sprintf("EPut %s %s", cqStr(k), cqStr(st.Val)))
		case "del":
			k := keyName(st.Key)
			resp, err := l.cli.Delete(bg, prefix+k)
			if err != nil {
				res.harness = err.Error()
				return false
			}
			if resp.Deleted > 0 {
				watched = append(watched, resp.Header.Revision)
				noteWrite()
				res.tags["delete"] = true
			}
			record(fmt.Sprintf("EDel %s", cqStr(k)))
		case "txn":
			if len(st.Ops) == 0 {
				return true
			}
			var ops []clientv3.Op
			var coq []string
			for _, o := range st.Ops {
				k := keyName(o.Key)
				if o.Del {
					ops = append(ops, clientv3.OpDelete(prefix+k))
					coq = append(coq, "KDel "+cqStr(k))
				} else {
					ops = append(ops, clientv3.OpPut(prefix+k, o.Val))
					coq = append(coq, fmt.Sprintf("KPut %s %s", cqStr(k), cqStr(o.Val)))
				}
			}
			resp, err := l.cli.Txn(bg).Then(ops...).Commit()
			if err != nil {
				// etcd rejects duplicate keys in one transaction: not an event
				return true
			}
			eff := false
			for i, r := range resp.Responses {
				if st.Ops[i].Del {
					if r.GetResponseDeleteRange().Deleted > 0 {
						eff = true
					}
				} else {
					eff = true
				}
			}
			if eff {
				watched = append(watched, resp.Header.Revision)
				noteWrite()
				res.tags["txn"] = true
			}
			record("ETxn " + cqList(coq))
		case "other":
			if _, err := l.cli.Put(bg, c20OtherKey, "x"); err != nil {
				res.harness = err.Error()
				return false
			}
			record("EOther")
		case "compact":
			if phase == 2 {
				// etcd moves a watcher that starts in the past to its synced group only in
				// a 100 ms loop; a compaction racing with that loop cancels it or not. The
				// schedule therefore compacts only while no stream is open.
				return true
			}
			resp, err := l.cli.Put(bg, c20OtherKey, "c")
			if err != nil {
				res.harness = err.Error()
				return false
			}
			if _, err := l.cli.Compact(bg, resp.Header.Revision, clientv3.WithCompactPhysical()); err != nil {
				res.harness = "compact: " + err.Error()
				return false
			}
			atomic.StoreInt64(&l.compact, resp.Header.Revision)
			record("ECompact")
		case "compact_at":
			// compaction at a revision chosen relative to the router: "rev" = the revision its
			// table reflects, "rev+1" = the first revision its resumed watch asks for, "cur"
			// = etcd's current revision; only while no stream is open (see "compact")
			if phase == 2 {
				return true
			}
			_, rel := routesOf()
			cur, err := l.cli.Get(bg, c20OtherKey)
			if err != nil {
				res.harness = err.Error()
				return false
			}
			switch st.Val {
			case "rev":
			case "rev+1":
				rel++
			default:
				rel = cur.Header.Revision - base
			}
			if rel < 0 || (st.Val != "cur" && !loaded) {
				return true // unpatched code has no rev field / nothing loaded yet
			}
			if _, err := l.cli.Compact(bg, base+rel, clientv3.WithCompactPhysical()); err == nil {
				if base+rel > atomic.LoadInt64(&l.compact) {
					atomic.StoreInt64(&l.compact, base+rel)
				}
				res.tags["compact-at-"+st.Val] = true
			}
			record(fmt.Sprintf("ECompactAt %d%%nat", rel))
		case "load_ok", "load_fail":
			if phase != 0 && phase != 3 {
				return true
			}
			okLoad := st.Op == "load_ok"
			kv.gate <- okLoad
			s, ok := waitSig(10 * time.Second)
			if !ok {
				res.harness = "router stuck after loadAll"
				return false
			}
			switch {
			case okLoad && s == "watch":
				phase, loaded = 1, true
				gapWrite = false
				record("ELoadOk")
			case !okLoad && s == "get" && phase == 0:
				record("ELoadFail")
			case !okLoad && s == "watch" && phase == 3:
				phase = 1
				res.tags["reload-failed"] = true
				record("ELoadFail")
			default:
				res.harness = "unexpected router position after " + st.Op + ": " + s
				return false
			}
		case "watch":
			if phase != 1 {
				return true
			}
			wt.gate <- true
			s, ok := waitSig(15 * time.Second)
			if !ok {
				res.harness = "router stuck in Watch"
				return false
			}
			switch s {
			case "watching":
				phase = 2
				if gapWrite {
					res.tags["gap-write-then-watch"] = true
				}
				record("EWatchStart")
			case "cancelled":
				res.tags["watch-cancelled-by-compaction"] = true
				p, ok := toClosed()
				if !ok {
					return false
				}
				phase = p
				record("EWatchStart")
			default:
				res.harness = "unexpected signal after Watch: " + s
				return false
			}
		case "deliver":
			if phase != 2 || pending() == 0 {
				return true
			}
			return deliver()
		case "drain":
			for phase == 2 && pending() > 0 {
				if !deliver() {
					return false
				}
			}
		case "close":
			if phase != 2 {
				return true
			}
			wt.mu.Lock()
			st := wt.cur
			wt.cur = nil
			wt.mu.Unlock()
			st.cancel()
			close(st.out)
			p, ok := toClosed()
			if !ok {
				return false
			}
			phase = p
			res.tags["stream-closed"] = true
			record("EStreamClosed")
		}
		return true
	}
	for _, st := range cs.Steps {
		if !do(st) {
			return
		}
	}
	// quiescence: changes have stopped; bring the router to watching and deliver everything
	// (bounded: six reconnect rounds, each gated; a router that can never resume is reported)
	for i := 0; phase != 2 && i < 6; i++ {
		if phase == 0 || phase == 3 {
			if !do(c20Step{Op: "load_ok"}) {
				return
			}
		}
		if phase == 1 {
			if !do(c20Step{Op: "watch"}) {
				return
			}
		}
	}
	stuck := phase != 2
	if !stuck && !do(c20Step{Op: "drain"}) {
		return
	}
	// final read of etcd
	get, err := l.cli.Get(bg, prefix, clientv3.WithPrefix())
	if err != nil {
		res.harness = err.Error()
		return
	}
	for _, kvp := range get.Kvs {
		res.etcd = append(res.etcd, [2]string{strings.TrimPrefix(string(kvp.Key), prefix), string(kvp.Value)})
	}
	if stuck {
		m, _ := routesOf()
		res.stuck = true
		res.fail = fmt.Sprintf("changes stopped, six reconnect rounds later the router is still not watching (every Watch is cancelled: compacted); table %v, etcd %v", m, res.etcd)
		return
	}
	// ---- implementation-side oracle (canonical keys only: the keys brokers write) ----
	if cs.Canon {
		want := map[string]string{}
		for _, e := range res.etcd {
			want[e[0]] = e[1]
		}
		var diffs []string
		n := 0
		for _, k := range cs.Keys {
			var got string
			if pr != nil {
				got = pr.LookupOwner(k.Topic, k.Part)
			} else {
				got = gr.LookupOwner(k.Rem)
			}
			if got != want[k.Rem] {
				diffs = append(diffs, fmt.Sprintf("%s: router owner %q, etcd owner %q", k.Rem, got, want[k.Rem]))
			}
		}
		if pr != nil {
			n = len(pr.AllRoutes())
		} else {
			n = len(gr.AllRoutes())
		}
		if n != len(want) {
			diffs = append(diffs, fmt.Sprintf("AllRoutes has %d entries, etcd has %d lease keys", n, len(want)))
		}
		if len(diffs) > 0 {
			res.fail = "after quiescence (router watching, nothing pending): " + strings.Join(diffs, "; ")
		}
	}
	return
}

func c20Coq(cs c20Case, r c20Run) string {
	obs := make([]string, len(r.obs))
	for i, o := range r.obs {
		rs := make([]string, len(o.routes))
		for j, p := range o.routes {
			rs[j] = fmt.Sprintf("(%s, %s)", cqStr(p[0]), cqStr(p[1]))
		}
		obs[i] = fmt.Sprintf("mkObs %s %s %s", cqList(rs), cqZ(o.rev), cqZ(int64(o.pc)))
	}
	et := make([]string, len(r.etcd))
	for j, p := range r.etcd {
		et[j] = fmt.Sprintf("(%s, %s)", cqStr(p[0]), cqStr(p[1]))
	}
	return fmt.Sprintf("mkCase %d %s %s %s %s", cs.Kind, cqBool(cs.Canon), cqList(r.events), cqList(obs), cqList(et))
}

func c20Gen(r *vRand) c20Case {
	cs := c20Case{Kind: r.Intn(2), Canon: !r.Chance(15)}
	nk := r.Range(1, 4)
	topics := []string{"orders", "a", "a/b", "t:1", "x-y_z", "9"}
	groups := []string{"g", "group-1", "a/b", "g:1", "~"}
	odd := []string{"a/05", "a/5", "a/+5", "x", "/3", "a/", "a/b/7", "a/99999999999", "a/-0", "a/0", "a/2147483648", "a/-2147483648", "a/1_0", "a/ 1", ""}
	seen := map[string]bool{}
	for len(cs.Keys) < nk {
		var k c20Key
		switch {
		case !cs.Canon && cs.Kind == 0:
			k = c20Key{Rem: odd[r.Intn(len(odd))]}
		case !cs.Canon:
			if r.Chance(30) {
				k = c20Key{Rem: ""}
			} else {
				k = c20Key{Rem: groups[r.Intn(len(groups))]}
			}
		case cs.Kind == 0:
			k.Topic = topics[r.Intn(len(topics))]
			k.Part = int32(r.Range(0, 3))
			if r.Chance(10) {
				k.Part = int32(r.Range(0, 1<<31-1))
			}
			k.Rem = strings.TrimPrefix(partitionLeaseKey(k.Topic, k.Part), partitionLeasePrefix+"/")
		default:
			k.Rem = groups[r.Intn(len(groups))]
		}
		if seen[k.Rem] {
			if len(seen) >= 4 {
				break
			}
			continue
		}
		seen[k.Rem] = true
		cs.Keys = append(cs.Keys, k)
	}
	vals := []string{"0", "1", "2", "broker-7"}
	write := func() c20Step {
		switch r.Intn(10) {
		case 0, 1, 2:
			return c20Step{Op: "del", Key: r.Intn(len(cs.Keys))}
		case 3:
			n := r.Range(1, 3)
			st := c20Step{Op: "txn"}
			used := map[int]bool{}
			for i := 0; i < n; i++ {
				k := r.Intn(len(cs.Keys))
				if used[k] {
					continue
				}
				used[k] = true
				st.Ops = append(st.Ops, c20Op{Del: r.Chance(70), Key: k, Val: vals[r.Intn(len(vals))]})
			}
			sort.Slice(st.Ops, func(i, j int) bool { return st.Ops[i].Key < st.Ops[j].Key })
			return st
		case 4:
			return c20Step{Op: "other"}
		default:
			return c20Step{Op: "put", Key: r.Intn(len(cs.Keys)), Val: vals[r.Intn(len(vals))]}
		}
	}
	// the router's position is tracked approximately (a watch cancelled by compaction is
	// not foreseen; steps that do not apply are skipped by the runner)
	n := r.Range(5, 18)
	closes, ph := 0, 0
	for i := 0; i < n; i++ {
		if r.Chance(45) {
			cs.Steps = append(cs.Steps, write())
			continue
		}
		x := r.Intn(100)
		switch ph {
		case 0:
			if x < 80 {
				cs.Steps = append(cs.Steps, c20Step{Op: "load_ok"})
				ph = 1
			} else {
				cs.Steps = append(cs.Steps, c20Step{Op: "load_fail"})
			}
		case 1:
			if x < 85 {
				cs.Steps = append(cs.Steps, c20Step{Op: "watch"})
				ph = 2
			} else {
				cs.Steps = append(cs.Steps, c20Step{Op: "compact"})
			}
		case 2:
			switch {
			case x < 40:
				cs.Steps = append(cs.Steps, c20Step{Op: "deliver"})
			case x < 60:
				cs.Steps = append(cs.Steps, c20Step{Op: "drain"})
			case closes < 2: // every close costs the router's one-second back-off
				closes++
				cs.Steps = append(cs.Steps, c20Step{Op: "close"})
				ph = 3
			default:
				cs.Steps = append(cs.Steps, c20Step{Op: "deliver"})
			}
		case 3:
			switch {
			case x < 45:
				cs.Steps = append(cs.Steps, c20Step{Op: "load_ok"})
				ph = 1
			case x < 80:
				cs.Steps = append(cs.Steps, c20Step{Op: "load_fail"})
				ph = 1
			default:
				cs.Steps = append(cs.Steps, c20Step{Op: "compact"})
			}
		}
	}
	// the compaction family: stream closed -> lease changes -> compaction relative to the
	// router's revision (beyond it, exactly at it, at the first revision the resumed watch
	// asks for, at etcd's current revision) -> reconnect, optionally with a reload that
	// fails once; repeated cycles.  Each cycle costs the router's one-second back-off(s).
	if r.Chance(35) {
		cs.Steps = append(cs.Steps, c20Step{Op: "load_ok"}, c20Step{Op: "watch"}, c20Step{Op: "drain"})
		for c := r.Range(1, 2); c > 0; c-- {
			cs.Steps = append(cs.Steps, c20Step{Op: "close"})
			for k := r.Range(1, 3); k > 0; k-- {
				cs.Steps = append(cs.Steps, write())
			}
			switch r.Intn(5) {
			case 0:
				cs.Steps = append(cs.Steps, c20Step{Op: "compact"})
			case 1:
				cs.Steps = append(cs.Steps, c20Step{Op: "compact_at", Val: "rev"})
			case 2:
				cs.Steps = append(cs.Steps, c20Step{Op: "compact_at", Val: "rev+1"})
			case 3:
				cs.Steps = append(cs.Steps, c20Step{Op: "compact_at", Val: "cur"})
			default:
				cs.Steps = append(cs.Steps, c20Step{Op: "compact"}, c20Step{Op: "compact"})
			}
			if r.Chance(30) {
				cs.Steps = append(cs.Steps, write())
			}
			if r.Chance(40) { // the reload fails once: the watch resumes from the old revision
				cs.Steps = append(cs.Steps, c20Step{Op: "load_fail"}, c20Step{Op: "watch"})
			}
			cs.Steps = append(cs.Steps, c20Step{Op: "load_ok"}, c20Step{Op: "watch"})
			if r.Chance(50) {
				cs.Steps = append(cs.Steps, c20Step{Op: "drain"})
			}
		}
	}
	return cs
}

func TestVerifC20(t *testing.T) {
	rep := vNewReport("C20", "generated histories (5-18 steps) on a real PartitionRouter/GroupRouter with embedded etcd: lease puts/deletes/multi-key transactions, writes outside the prefix, compactions, loadAll successes and injected failures, the Watch call, single watch responses, stream closes; a case is non-trivial when a lease write falls between a loadAll and the following Watch call, or while the stream is closed, or a reload fails, or a resumed watch is cancelled by compaction; distinct = distinct canonical (kind, keys, steps)")
	corpus := []c20Case{
		// the design-round witness: load; put; start watch
		{Kind: 1, Canon: true, Keys: []c20Key{{Rem: "g"}}, Steps: []c20Step{{Op: "load_ok"}, {Op: "put", Key: 0, Val: "1"}, {Op: "watch"}}},
		{Kind: 0, Canon: true, Keys: []c20Key{{Rem: "orders/3", Topic: "orders", Part: 3}}, Steps: []c20Step{{Op: "load_ok"}, {Op: "put", Key: 0, Val: "1"}, {Op: "watch"}}},
		// the same at a reconnect, and with a failed reload
		{Kind: 0, Canon: true, Keys: []c20Key{{Rem: "orders/3", Topic: "orders", Part: 3}}, Steps: []c20Step{{Op: "put", Key: 0, Val: "1"}, {Op: "load_ok"}, {Op: "watch"}, {Op: "close"}, {Op: "load_ok"}, {Op: "del", Key: 0}, {Op: "watch"}}},
		{Kind: 1, Canon: true, Keys: []c20Key{{Rem: "g"}, {Rem: "h"}}, Steps: []c20Step{{Op: "put", Key: 0, Val: "1"}, {Op: "load_ok"}, {Op: "watch"}, {Op: "close"}, {Op: "put", Key: 0, Val: "2"}, {Op: "put", Key: 1, Val: "2"}, {Op: "load_fail"}, {Op: "watch"}}},
		// resumed revision compacted away: the watch is cancelled and the router reloads
		{Kind: 1, Canon: true, Keys: []c20Key{{Rem: "g"}}, Steps: []c20Step{{Op: "load_ok"}, {Op: "watch"}, {Op: "close"}, {Op: "put", Key: 0, Val: "1"}, {Op: "compact"}, {Op: "compact"}, {Op: "load_fail"}, {Op: "watch"}}},
	}
	corpus = append(corpus,
		// stream closed -> the lease moves -> etcd compacts past the router's revision -> reconnect:
		// only the reload gets the router going again (a re-watch from rev+1 is cancelled forever)
		c20Case{Kind: 0, Canon: true, Keys: []c20Key{{Rem: "orders/3", Topic: "orders", Part: 3}}, Steps: []c20Step{{Op: "put", Key: 0, Val: "1"}, {Op: "load_ok"}, {Op: "watch"}, {Op: "close"}, {Op: "put", Key: 0, Val: "2"}, {Op: "compact"}, {Op: "compact"}}},
		c20Case{Kind: 1, Canon: true, Keys: []c20Key{{Rem: "g"}, {Rem: "h"}}, Steps: []c20Step{{Op: "put", Key: 0, Val: "1"}, {Op: "load_ok"}, {Op: "watch"}, {Op: "close"}, {Op: "del", Key: 0}, {Op: "put", Key: 1, Val: "2"}, {Op: "compact_at", Val: "cur"}, {Op: "other"}}},
		// compaction exactly at the router's revision / at the first revision the resumed watch asks for (a delete), reload failing once
		c20Case{Kind: 1, Canon: true, Keys: []c20Key{{Rem: "g"}}, Steps: []c20Step{{Op: "put", Key: 0, Val: "1"}, {Op: "load_ok"}, {Op: "watch"}, {Op: "close"}, {Op: "put", Key: 0, Val: "2"}, {Op: "compact_at", Val: "rev"}, {Op: "load_fail"}, {Op: "watch"}}},
		c20Case{Kind: 1, Canon: true, Keys: []c20Key{{Rem: "g"}}, Steps: []c20Step{{Op: "put", Key: 0, Val: "1"}, {Op: "load_ok"}, {Op: "watch"}, {Op: "close"}, {Op: "del", Key: 0}, {Op: "put", Key: 0, Val: "3"}, {Op: "compact_at", Val: "rev+1"}, {Op: "load_fail"}, {Op: "watch"}, {Op: "drain"}}},
		// two cycles, the first reload fails and its watch is cancelled
		c20Case{Kind: 0, Canon: true, Keys: []c20Key{{Rem: "a/0", Topic: "a"}, {Rem: "a/1", Topic: "a", Part: 1}}, Steps: []c20Step{{Op: "put", Key: 0, Val: "1"}, {Op: "load_ok"}, {Op: "watch"}, {Op: "close"}, {Op: "put", Key: 1, Val: "2"}, {Op: "compact"}, {Op: "compact"}, {Op: "load_fail"}, {Op: "watch"}, {Op: "load_ok"}, {Op: "watch"}, {Op: "close"}, {Op: "del", Key: 0}, {Op: "compact_at", Val: "cur"}, {Op: "other"}, {Op: "load_ok"}, {Op: "watch"}}},
	)
	var cases []c20Case
	if rc := vReplayCase(); rc != nil {
		var cs c20Case
		if err := json.Unmarshal(rc, &cs); err != nil {
			t.Fatalf("bad replay: %v", err)
		}
		cases = []c20Case{cs}
	} else {
		cases = append(cases, corpus...)
		r := vNewRand(vSeed())
		n := vN(100, 1200)
		for i := 0; i < n; i++ {
			cases = append(cases, c20Gen(r.Fork()))
		}
	}
	nl := 10
	if len(cases) < nl {
		nl = 1
	}
	lanes := make([]*c20Lane, nl)
	t0 := time.Now()
	for i := range lanes {
		eps := testutil.StartEmbeddedEtcd(t)
		cli, err := clientv3.New(clientv3.Config{Endpoints: eps, DialTimeout: 5 * time.Second})
		if err != nil {
			t.Fatalf("etcd client: %v", err)
		}
		defer cli.Close()
		lanes[i] = &c20Lane{cli: cli}
	}
	t.Logf("started %d embedded etcd servers in %v", nl, time.Since(t0))
	t0 = time.Now()
	type outT struct {
		run    c20Run
		shrunk *c20Case
		what   string
	}
	outs := make([]outT, len(cases))
	var shrinks int32
	var wg sync.WaitGroup
	for li := range lanes {
		wg.Add(1)
		go func(li int) {
			defer wg.Done()
			for i := li; i < len(cases); i += nl {
				run := c20Exec(lanes[li], cases[i])
				outs[i].run = run
				if run.fail != "" && run.harness == "" && atomic.AddInt32(&shrinks, 1) <= 2 {
					cs := cases[i]
					shr := cs
					shr.Steps = vShrink(cs.Steps, func(steps []c20Step) bool {
						c2 := cs
						c2.Steps = steps
						r2 := c20Exec(lanes[li], c2)
						return r2.fail != "" && r2.harness == "" && r2.stuck == run.stuck
					})
					r2 := c20Exec(lanes[li], shr)
					if r2.fail != "" {
						outs[i].shrunk, outs[i].what = &shr, r2.fail
					}
				}
			}
		}(li)
	}
	wg.Wait()
	t.Logf("ran %d cases in %v", len(cases), time.Since(t0))
	var coq, jsons []string
	for i, cs := range cases {
		o := outs[i]
		canon, _ := json.Marshal(cs)
		if o.run.harness != "" {
			t.Fatalf("harness problem in case %d (%s): %s", i, canon, o.run.harness)
		}
		nt := o.run.tags["write-between-load-and-watch"] || o.run.tags["write-while-disconnected"] || o.run.tags["reload-failed"] || o.run.tags["watch-cancelled-by-compaction"]
		rep.Count(string(canon), nt)
		for tg := range o.run.tags {
			rep.Hist(tg)
		}
		rep.Hist(fmt.Sprintf("kind=%d canon=%v", cs.Kind, cs.Canon))
		rep.Hist(fmt.Sprintf("events<=%d", ((len(o.run.events)+7)/8)*8))
		if i >= len(corpus) {
			rep.Sample(cs)
		}
		if o.run.fail != "" {
			key := "routes-differ-from-etcd-after-quiescence"
			if o.run.stuck {
				key = "router-not-watching-after-bounded-reconnects"
			}
			if o.shrunk != nil {
				rep.Fail("converge", key, o.what, *o.shrunk)
			} else {
				rep.Fail("converge", key, o.run.fail, cs)
			}
		}
		coq = append(coq, c20Coq(cs, o.run))
		jsons = append(jsons, string(canon))
	}
	rep.Cases("C20", "From KS Require Import lib.Base lib.Strings lib.RevKV model.Router corr.RouterCorr.", "case", "check_case", coq, jsons)
	rep.Write()
	if len(rep.Failures) > 0 {
		t.Logf("oracle failures: %s", strings.TrimSpace(rep.Failures[0].What))
	}
}
