package main

// C24 harness (cmd/broker/main.go): generated request SEQUENCES from principals with
// arbitrary (incl. empty) permission sets through the REAL handler.Handle (package
// main; in-memory metadata store + in-memory S3; ACL enforcement on), topic
// auto-creation on and off, all 21 request kinds Handle accepts; requests that can address a topic by ID (Fetch v13,
// Metadata v12) are sent in both the name- and the ID-addressed form, and the ACL shapes
// include wildcard-allow + specific-deny and default-allow + deny.
// Implementation-side oracle, per request: for every item (topic / group / config
// resource) whose required permission (the table in c24Required, written from the
// property statement) the REAL authorizer denies to the principal:
//   - the reply answers the item with a code of the authorization family (29/30/31),
//   - no record bytes are returned for it,
//   - the part of the deep snapshot that belongs to the item is unchanged;
// and when every item of the request is denied the WHOLE deep snapshot is unchanged.
// Deep snapshot = store topics / partitions / next offsets / topic configs / committed
// offsets / persisted groups + coordinator group listing and descriptions + partition
// logs' buffered high watermarks + S3 listing.
// Every request with what was observed is emitted for the Coq correspondence
// (corr/DispatchCorr.v; the permission oracle there is the C23 authorizer model).

import (
	"context"
	"encoding/hex"
	"encoding/json"
	"fmt"
	"net"
	"sort"
	"strings"
	"testing"

	"github.com/KafScale/platform/pkg/acl"
	"github.com/KafScale/platform/pkg/broker"
	"github.com/KafScale/platform/pkg/metadata"
	"github.com/KafScale/platform/pkg/protocol"
	"github.com/KafScale/platform/pkg/storage"
	"github.com/twmb/franz-go/pkg/kmsg"
	"google.golang.org/protobuf/proto"
)

type c24Rule struct {
	A string `json:"action"`
	R string `json:"resource"`
	N string `json:"name"`
}
type c24Principal struct {
	Name  string    `json:"name"`
	Allow []c24Rule `json:"allow"`
	Deny  []c24Rule `json:"deny"`
}
type c24Res struct {
	Type int8   `json:"type"`
	Name string `json:"name"`
}
type c24Req struct {
	Kind      string   `json:"kind"`
	Principal string   `json:"principal"`
	Names     []string `json:"names,omitempty"` // topics or groups
	Res       []c24Res `json:"res,omitempty"`
	ByID      bool     `json:"by_id,omitempty"` // Fetch v13 / Metadata v12: topics addressed by topic ID, name empty
	Acks      int16    `json:"acks,omitempty"`
	Mode      int      `json:"mode,omitempty"` // the kind's "mode" fields: validate-only, isolation level, include-authorized-ops, allow-auto-create, ...
	Ts        int64    `json:"ts,omitempty"`
}
type c24Case struct {
	Kind       string         `json:"kind"` // "dispatch"
	Default    string         `json:"default_policy"`
	Principals []c24Principal `json:"principals"`
	AutoCreate bool           `json:"auto_create"`
	AdminAPIs  bool           `json:"admin_apis"`
	Reqs       []c24Req       `json:"reqs"`
	// connection dimension: all requests of the sequence share ONE connection context built by the
	// real buildConnContextFunc. "" = client_id source without proxy protocol (no context at all),
	// "client_id+proxy" = client_id source behind PROXY protocol (a context with empty Principal),
	// "remote_addr" / "proxy_addr" = the principal is the host of the peer / PROXY source address.
	Conn     string `json:"conn,omitempty"`
	ConnHost string `json:"conn_host,omitempty"` // peer (remote_addr) or PROXY source (proxy_addr) host
}

// c24Conn is a net.Conn that only serves a PROXY v1 header and a peer address.
type c24Conn struct {
	net.Conn
	r    *strings.Reader
	peer string
}
type c24Addr string

func (a c24Addr) Network() string             { return "tcp" }
func (a c24Addr) String() string              { return string(a) }
func (c *c24Conn) Read(b []byte) (int, error) { return c.r.Read(b) }
func (c *c24Conn) RemoteAddr() net.Addr       { return c24Addr(c.peer) }
func (c *c24Conn) LocalAddr() net.Addr        { return c24Addr("10.0.0.9:9092") }
func (c *c24Conn) Close() error               { return nil }

// c24ConnCtx builds the per-connection context exactly as the server does.
func c24ConnCtx(t *testing.T, c c24Case) context.Context {
	host := c.ConnHost
	if host == "" {
		host = "10.0.0.7"
	}
	src, proxy, peer := "client_id", "false", host+":40000"
	switch c.Conn {
	case "client_id+proxy":
		proxy = "true"
	case "remote_addr":
		src = "remote_addr"
	case "proxy_addr":
		src, peer = "proxy_addr", "10.0.0.8:41000" // the socket peer is the proxy, the PROXY header names the client
	}
	t.Setenv("KAFSCALE_PRINCIPAL_SOURCE", src)
	t.Setenv("KAFSCALE_PROXY_PROTOCOL", proxy)
	fn := buildConnContextFunc(testLogger())
	if fn == nil {
		return context.Background()
	}
	_, info, err := fn(&c24Conn{r: strings.NewReader("PROXY TCP4 " + host + " 10.0.0.9 40000 9092\r\n"), peer: peer})
	if err != nil {
		t.Fatalf("conn context: %v", err)
	}
	return broker.ContextWithConnInfo(context.Background(), info)
}

// c24PrincipalOf: the principal of ONE request by the configuration's definition: the client id
// of THAT request for the client_id source (blank -> anonymous), the connection's peer / PROXY
// source host for the address sources. Never taken from the code under test.
func c24PrincipalOf(c c24Case, r c24Req) string {
	if c.Conn == "remote_addr" || c.Conn == "proxy_addr" {
		host := c.ConnHost
		if host == "" {
			host = "10.0.0.7"
		}
		return host
	}
	if strings.TrimSpace(r.Principal) == "" {
		return "anonymous"
	}
	return r.Principal
}

type c24Item struct {
	typ  int8
	name string
}

// c24Required: the permission an item needs, straight from the property statement /
// the broker's ACL vocabulary (acl.Action*, acl.Resource*). ok=false: none needed.
func c24Required(kind string, it c24Item, autoCreate, existed bool) (acl.Action, acl.Resource, string, bool) {
	switch kind {
	case "Metadata":
		if autoCreate && !existed {
			return acl.ActionProduce, acl.ResourceTopic, it.name, true
		}
		return "", "", "", false
	case "Produce":
		return acl.ActionProduce, acl.ResourceTopic, it.name, true
	case "Fetch", "OffsetForLeaderEpoch", "ListOffsets":
		return acl.ActionFetch, acl.ResourceTopic, it.name, true
	case "JoinGroup", "SyncGroup", "Heartbeat", "LeaveGroup", "OffsetCommit":
		return acl.ActionGroupWrite, acl.ResourceGroup, it.name, true
	case "OffsetFetch", "DescribeGroups", "ListGroups":
		return acl.ActionGroupRead, acl.ResourceGroup, it.name, true
	case "DeleteGroups":
		return acl.ActionGroupAdmin, acl.ResourceGroup, it.name, true
	case "DescribeConfigs":
		if it.typ == 2 {
			return acl.ActionFetch, acl.ResourceTopic, it.name, true
		}
		return acl.ActionAdmin, acl.ResourceCluster, "cluster", true
	case "AlterConfigs", "CreatePartitions", "CreateTopics", "DeleteTopics":
		return acl.ActionAdmin, acl.ResourceCluster, "cluster", true
	}
	return "", "", "", false
}

func c24IsGroupKind(kind string) bool {
	switch kind {
	case "JoinGroup", "SyncGroup", "Heartbeat", "LeaveGroup", "OffsetCommit", "OffsetFetch", "DescribeGroups", "ListGroups", "DeleteGroups":
		return true
	}
	return false
}

func c24Snapshot(t *testing.T, h *handler, mem *metadata.InMemoryStore, s3 *storage.MemoryS3Client) map[string]string {
	ctx := context.Background()
	out := map[string]string{}
	det := proto.MarshalOptions{Deterministic: true}
	meta, err := mem.Metadata(ctx, nil)
	if err != nil {
		t.Fatalf("snapshot metadata: %v", err)
	}
	for _, tp := range meta.Topics {
		name := *tp.Topic
		parts := make([]string, 0, len(tp.Partitions))
		for _, p := range tp.Partitions {
			parts = append(parts, fmt.Sprint(p.Partition))
			off, _ := mem.NextOffset(ctx, name, p.Partition)
			out[fmt.Sprintf("topic|%s|off|%d", name, p.Partition)] = fmt.Sprint(off)
		}
		sort.Strings(parts)
		out["topic|"+name+"|meta"] = fmt.Sprintf("err=%d parts=%s", tp.ErrorCode, strings.Join(parts, ","))
		if cfg, err := mem.FetchTopicConfig(ctx, name); err == nil {
			cfg.CreatedAt = "" // a wall-clock timestamp (synthesised anew for default configs): not an observable
			b, _ := det.Marshal(cfg)
			out["topic|"+name+"|cfg"] = hex.EncodeToString(b)
		}
	}
	if offs, err := mem.ListConsumerOffsets(ctx); err == nil {
		for _, o := range offs {
			out[fmt.Sprintf("group|%s|coff|%s|%d", o.Group, o.Topic, o.Partition)] = fmt.Sprintf("%d", o.Offset)
		}
	}
	if groups, err := mem.ListConsumerGroups(ctx); err == nil {
		for _, g := range groups {
			b, _ := det.Marshal(g)
			out["group|"+g.GetGroupId()+"|store"] = hex.EncodeToString(b)
		}
	}
	if lr, err := h.coordinator.ListGroups(ctx, kmsg.NewPtrListGroupsRequest()); err == nil {
		ids := []string{}
		for _, g := range lr.Groups {
			ids = append(ids, g.Group)
			out["group|"+g.Group+"|listed"] = g.ProtocolType + "/" + g.GroupState
		}
		if len(ids) > 0 {
			dr := kmsg.NewPtrDescribeGroupsRequest()
			dr.Groups = ids
			if resp, err := h.coordinator.DescribeGroups(ctx, dr); err == nil {
				for _, g := range resp.Groups {
					ms := []string{}
					for _, m := range g.Members {
						ms = append(ms, m.MemberID)
					}
					sort.Strings(ms)
					out["group|"+g.Group+"|desc"] = fmt.Sprintf("%d/%s/%s/%s", g.ErrorCode, g.State, g.Protocol, strings.Join(ms, ","))
				}
			}
		}
	}
	h.logMu.RLock()
	for topic, parts := range h.logs {
		for p, plog := range parts {
			out[fmt.Sprintf("topic|%s|log|%d", topic, p)] = fmt.Sprint(plog.BufferedHighWatermark())
		}
	}
	h.logMu.RUnlock()
	objs, _ := s3.ListSegments(ctx, "")
	for _, o := range objs {
		out["s3|"+o.Key] = fmt.Sprint(o.Size)
	}
	return out
}

func c24Diff(a, b map[string]string, match func(k string) bool) string {
	var d []string
	for k, v := range a {
		if !match(k) {
			continue
		}
		if w, ok := b[k]; !ok {
			d = append(d, "-"+k)
		} else if w != v {
			d = append(d, "~"+k+": "+v+" -> "+w)
		}
	}
	for k := range b {
		if match(k) {
			if _, ok := a[k]; !ok {
				d = append(d, "+"+k+"="+b[k])
			}
		}
	}
	sort.Strings(d)
	if len(d) > 4 {
		d = append(d[:4], "...")
	}
	return strings.Join(d, "; ")
}

type c24Obs struct {
	item c24Item
	code int16
	data bool
}

// c24Build builds the kmsg request; c24Decode extracts (item, code, data) in item order.
func c24Build(r c24Req, ids map[string][16]byte) (kmsg.Request, int16) {
	idOf := func(n string) [16]byte {
		if id, ok := ids[n]; ok {
			return id
		}
		return metadata.TopicIDForName("unknown-" + n) // an ID the store does not know
	}
	switch r.Kind {
	case "ApiVersions":
		return kmsg.NewPtrApiVersionsRequest(), 0
	case "FindCoordinator":
		q := kmsg.NewPtrFindCoordinatorRequest()
		q.CoordinatorType = int8(r.Mode & 1)
		if len(r.Names) > 0 {
			q.CoordinatorKey = r.Names[0]
		}
		return q, 1
	case "Metadata":
		q := kmsg.NewPtrMetadataRequest()
		if r.ByID {
			for _, n := range r.Names {
				mt := kmsg.NewMetadataRequestTopic()
				mt.TopicID = idOf(n)
				q.Topics = append(q.Topics, mt)
			}
			return q, 12
		}
		for _, n := range r.Names {
			mt := kmsg.NewMetadataRequestTopic()
			mt.Topic = kmsg.StringPtr(n)
			q.Topics = append(q.Topics, mt)
		}
		q.AllowAutoTopicCreation = r.Mode&1 == 0
		q.IncludeClusterAuthorizedOperations, q.IncludeTopicAuthorizedOperations = r.Mode&2 != 0, r.Mode&2 != 0
		if r.Mode&2 != 0 {
			return q, 8
		}
		return q, 4
	case "Produce":
		q := &kmsg.ProduceRequest{Acks: r.Acks, TimeoutMillis: 1000}
		for _, n := range r.Names {
			q.Topics = append(q.Topics, kmsg.ProduceRequestTopic{Topic: n, Partitions: []kmsg.ProduceRequestTopicPartition{{Partition: 0, Records: testBatchBytes(0, 0, 1)}}})
		}
		return q, 3
	case "Fetch":
		q := &kmsg.FetchRequest{MaxWaitMillis: 0, MaxBytes: 1 << 20, IsolationLevel: int8(r.Mode & 1)}
		for _, n := range r.Names {
			ft := kmsg.FetchRequestTopic{Topic: n, Partitions: []kmsg.FetchRequestTopicPartition{{Partition: 0, FetchOffset: 0, PartitionMaxBytes: 1 << 20}}}
			if r.ByID {
				ft.Topic, ft.TopicID = "", idOf(n) // v13: the wire carries only the ID
			}
			q.Topics = append(q.Topics, ft)
		}
		if r.ByID {
			return q, 13
		}
		return q, 11
	case "JoinGroup":
		q := kmsg.NewPtrJoinGroupRequest()
		q.Group, q.SessionTimeoutMillis, q.RebalanceTimeoutMillis, q.ProtocolType = r.Names[0], 60000, 60000, "consumer"
		q.Protocols = []kmsg.JoinGroupRequestProtocol{{Name: "range", Metadata: encodeJoinMetadata([]string{"orders"})}}
		return q, 4
	case "SyncGroup":
		q := kmsg.NewPtrSyncGroupRequest()
		q.Group, q.Generation, q.MemberID = r.Names[0], 1, "member-x"
		return q, 2
	case "Heartbeat":
		q := kmsg.NewPtrHeartbeatRequest()
		q.Group, q.Generation, q.MemberID = r.Names[0], 1, "member-x"
		return q, 2
	case "LeaveGroup":
		q := kmsg.NewPtrLeaveGroupRequest()
		q.Group, q.MemberID = r.Names[0], "member-x"
		return q, 2
	case "OffsetCommit":
		q := kmsg.NewPtrOffsetCommitRequest()
		q.Group, q.Generation = r.Names[0], -1
		q.Topics = []kmsg.OffsetCommitRequestTopic{{Topic: "orders", Partitions: []kmsg.OffsetCommitRequestTopicPartition{{Partition: 0, Offset: 7, Metadata: kmsg.StringPtr("")}}}}
		return q, 3
	case "OffsetFetch":
		q := kmsg.NewPtrOffsetFetchRequest()
		q.Group, q.RequireStable = r.Names[0], r.Mode&1 != 0
		q.Topics = []kmsg.OffsetFetchRequestTopic{{Topic: "orders", Partitions: []int32{0}}}
		return q, 5
	case "DescribeGroups":
		q := kmsg.NewPtrDescribeGroupsRequest()
		q.Groups, q.IncludeAuthorizedOperations = r.Names, r.Mode&1 != 0
		return q, 4
	case "DeleteGroups":
		q := kmsg.NewPtrDeleteGroupsRequest()
		q.Groups = r.Names
		return q, 1
	case "ListGroups":
		return kmsg.NewPtrListGroupsRequest(), 5
	case "OffsetForLeaderEpoch":
		q := kmsg.NewPtrOffsetForLeaderEpochRequest()
		q.ReplicaID = -1
		for _, n := range r.Names {
			q.Topics = append(q.Topics, kmsg.OffsetForLeaderEpochRequestTopic{Topic: n, Partitions: []kmsg.OffsetForLeaderEpochRequestTopicPartition{{Partition: 0, CurrentLeaderEpoch: -1, LeaderEpoch: 0}}})
		}
		return q, 3
	case "ListOffsets":
		q := kmsg.NewPtrListOffsetsRequest()
		q.ReplicaID, q.IsolationLevel = -1, int8(r.Mode&1)
		for _, n := range r.Names {
			q.Topics = append(q.Topics, kmsg.ListOffsetsRequestTopic{Topic: n, Partitions: []kmsg.ListOffsetsRequestTopicPartition{{Partition: 0, Timestamp: r.Ts, MaxNumOffsets: 1}}})
		}
		return q, 4
	case "DescribeConfigs":
		q := kmsg.NewPtrDescribeConfigsRequest()
		q.IncludeSynonyms, q.IncludeDocumentation = r.Mode&1 != 0, r.Mode&2 != 0
		for _, rs := range r.Res {
			q.Resources = append(q.Resources, kmsg.DescribeConfigsRequestResource{ResourceType: kmsg.ConfigResourceType(rs.Type), ResourceName: rs.Name})
		}
		return q, 2
	case "AlterConfigs":
		q := kmsg.NewPtrAlterConfigsRequest()
		q.ValidateOnly = r.Mode&1 != 0
		for _, rs := range r.Res {
			q.Resources = append(q.Resources, kmsg.AlterConfigsRequestResource{ResourceType: kmsg.ConfigResourceType(rs.Type), ResourceName: rs.Name,
				Configs: []kmsg.AlterConfigsRequestResourceConfig{{Name: "retention.ms", Value: kmsg.StringPtr("12345")}}})
		}
		return q, 1
	case "CreatePartitions":
		q := kmsg.NewPtrCreatePartitionsRequest()
		q.TimeoutMillis, q.ValidateOnly = 1000, r.Mode&1 != 0
		for _, n := range r.Names {
			q.Topics = append(q.Topics, kmsg.CreatePartitionsRequestTopic{Topic: n, Count: 3})
		}
		return q, 1
	case "CreateTopics":
		q := kmsg.NewPtrCreateTopicsRequest()
		q.TimeoutMillis, q.ValidateOnly = 1000, r.Mode&1 != 0
		for _, n := range r.Names {
			q.Topics = append(q.Topics, kmsg.CreateTopicsRequestTopic{Topic: n, NumPartitions: 1, ReplicationFactor: 1})
		}
		return q, 2
	case "DeleteTopics":
		q := kmsg.NewPtrDeleteTopicsRequest()
		q.TimeoutMillis = 1000
		q.TopicNames = r.Names
		return q, 2
	}
	return nil, 0
}

func c24Decode(t *testing.T, r c24Req, ver int16, payload []byte, names map[[16]byte]string) []c24Obs {
	var out []c24Obs
	switch r.Kind {
	case "Metadata":
		if r.ByID {
			return nil // ID-addressed Metadata names nothing: no item needs a permission
		}
		resp := decodeKmsgResponse(t, ver, payload, kmsg.NewPtrMetadataResponse)
		byName := map[string]int16{}
		for _, tp := range resp.Topics {
			if tp.Topic != nil {
				byName[*tp.Topic] = tp.ErrorCode
			}
		}
		for _, n := range r.Names {
			if strings.TrimSpace(n) == "" {
				continue
			}
			code, ok := byName[n]
			if !ok {
				code = -99 // requested topic missing from the reply
			}
			out = append(out, c24Obs{item: c24Item{0, n}, code: code})
		}
	case "Produce":
		resp := decodeKmsgResponse(t, ver, payload, kmsg.NewPtrProduceResponse)
		for i, tp := range resp.Topics {
			if i < len(r.Names) && len(tp.Partitions) > 0 {
				out = append(out, c24Obs{item: c24Item{0, tp.Topic}, code: tp.Partitions[0].ErrorCode})
			}
		}
	case "Fetch":
		resp := decodeKmsgResponse(t, ver, payload, kmsg.NewPtrFetchResponse)
		for _, tp := range resp.Topics {
			if len(tp.Partitions) == 0 {
				continue
			}
			it := c24Item{0, tp.Topic}
			if r.ByID { // the reply carries the ID; the item is the topic the ID resolves to
				if n, ok := names[tp.TopicID]; ok {
					it = c24Item{0, n}
				} else {
					it = c24Item{-1, ""}
				}
			}
			out = append(out, c24Obs{item: it, code: tp.Partitions[0].ErrorCode, data: len(tp.Partitions[0].RecordBatches) > 0})
		}
	case "JoinGroup":
		out = append(out, c24Obs{item: c24Item{0, r.Names[0]}, code: decodeKmsgResponse(t, ver, payload, kmsg.NewPtrJoinGroupResponse).ErrorCode})
	case "SyncGroup":
		out = append(out, c24Obs{item: c24Item{0, r.Names[0]}, code: decodeKmsgResponse(t, ver, payload, kmsg.NewPtrSyncGroupResponse).ErrorCode})
	case "Heartbeat":
		out = append(out, c24Obs{item: c24Item{0, r.Names[0]}, code: decodeKmsgResponse(t, ver, payload, kmsg.NewPtrHeartbeatResponse).ErrorCode})
	case "LeaveGroup":
		out = append(out, c24Obs{item: c24Item{0, r.Names[0]}, code: decodeKmsgResponse(t, ver, payload, kmsg.NewPtrLeaveGroupResponse).ErrorCode})
	case "OffsetCommit":
		resp := decodeKmsgResponse(t, ver, payload, kmsg.NewPtrOffsetCommitResponse)
		code := int16(-99)
		if len(resp.Topics) > 0 && len(resp.Topics[0].Partitions) > 0 {
			code = resp.Topics[0].Partitions[0].ErrorCode
		}
		out = append(out, c24Obs{item: c24Item{0, r.Names[0]}, code: code})
	case "OffsetFetch":
		resp := decodeKmsgResponse(t, ver, payload, kmsg.NewPtrOffsetFetchResponse)
		out = append(out, c24Obs{item: c24Item{0, r.Names[0]}, code: resp.ErrorCode})
	case "DescribeGroups":
		resp := decodeKmsgResponse(t, ver, payload, kmsg.NewPtrDescribeGroupsResponse)
		for _, g := range resp.Groups {
			out = append(out, c24Obs{item: c24Item{0, g.Group}, code: g.ErrorCode})
		}
	case "DeleteGroups":
		resp := decodeKmsgResponse(t, ver, payload, kmsg.NewPtrDeleteGroupsResponse)
		for _, g := range resp.Groups {
			out = append(out, c24Obs{item: c24Item{0, g.Group}, code: g.ErrorCode})
		}
	case "ListGroups":
		out = append(out, c24Obs{item: c24Item{0, "*"}, code: decodeKmsgResponse(t, ver, payload, kmsg.NewPtrListGroupsResponse).ErrorCode})
	case "OffsetForLeaderEpoch":
		resp := decodeKmsgResponse(t, ver, payload, kmsg.NewPtrOffsetForLeaderEpochResponse)
		for _, tp := range resp.Topics {
			if len(tp.Partitions) > 0 {
				out = append(out, c24Obs{item: c24Item{0, tp.Topic}, code: tp.Partitions[0].ErrorCode})
			}
		}
	case "ListOffsets":
		resp := decodeKmsgResponse(t, ver, payload, kmsg.NewPtrListOffsetsResponse)
		for _, tp := range resp.Topics {
			if len(tp.Partitions) > 0 {
				out = append(out, c24Obs{item: c24Item{0, tp.Topic}, code: tp.Partitions[0].ErrorCode})
			}
		}
	case "DescribeConfigs":
		resp := decodeKmsgResponse(t, ver, payload, kmsg.NewPtrDescribeConfigsResponse)
		for _, rs := range resp.Resources {
			out = append(out, c24Obs{item: c24Item{int8(rs.ResourceType), rs.ResourceName}, code: rs.ErrorCode})
		}
	case "AlterConfigs":
		resp := decodeKmsgResponse(t, ver, payload, kmsg.NewPtrAlterConfigsResponse)
		for _, rs := range resp.Resources {
			out = append(out, c24Obs{item: c24Item{int8(rs.ResourceType), rs.ResourceName}, code: rs.ErrorCode})
		}
	case "CreatePartitions":
		resp := decodeKmsgResponse(t, ver, payload, kmsg.NewPtrCreatePartitionsResponse)
		for _, tp := range resp.Topics {
			out = append(out, c24Obs{item: c24Item{0, tp.Topic}, code: tp.ErrorCode})
		}
	case "CreateTopics":
		resp := decodeKmsgResponse(t, ver, payload, kmsg.NewPtrCreateTopicsResponse)
		for _, tp := range resp.Topics {
			out = append(out, c24Obs{item: c24Item{0, tp.Topic}, code: tp.ErrorCode})
		}
	case "DeleteTopics":
		resp := decodeKmsgResponse(t, ver, payload, kmsg.NewPtrDeleteTopicsResponse)
		for _, tp := range resp.Topics {
			n := ""
			if tp.Topic != nil {
				n = *tp.Topic
			}
			out = append(out, c24Obs{item: c24Item{0, n}, code: tp.ErrorCode})
		}
	}
	return out
}

func c24Authz(code int16) bool {
	return code == protocol.TOPIC_AUTHORIZATION_FAILED || code == protocol.GROUP_AUTHORIZATION_FAILED || code == protocol.CLUSTER_AUTHORIZATION_FAILED
}

type c24Step struct {
	created   []string        // topics that exist after the request and did not before
	known     map[string]bool // topics whose ID the store knew before the request (ID-addressed Fetch)
	req       c24Req
	principal string
	existed   []string
	obs       []c24Obs
	changed   bool
	replied   bool
}

// c24Run runs the whole sequence on a fresh handler; returns per-request observations
// and the first oracle failure.
func c24Run(t *testing.T, c c24Case) ([]c24Step, string, string, map[string]bool) {
	tags := map[string]bool{}
	fail, key := "", ""
	setFail := func(k, f string) {
		if fail == "" {
			fail, key = f, k
		}
	}
	cfgJSON, _ := json.Marshal(map[string]any{"default_policy": c.Default, "principals": c.Principals})
	t.Setenv("KAFSCALE_ACL_ENABLED", "true")
	t.Setenv("KAFSCALE_ACL_JSON", string(cfgJSON))
	t.Setenv("KAFSCALE_AUTO_CREATE_TOPICS", fmt.Sprint(c.AutoCreate))
	t.Setenv("KAFSCALE_ALLOW_ADMIN_APIS", fmt.Sprint(c.AdminAPIs))
	ctx := context.Background()
	mem := metadata.NewInMemoryStore(defaultMetadata())
	if _, err := mem.CreateTopic(ctx, metadata.TopicSpec{Name: "t1", NumPartitions: 1, ReplicationFactor: 1}); err != nil {
		t.Fatalf("setup: %v", err)
	}
	s3 := storage.NewMemoryS3Client()
	h := newHandler(mem, s3, protocol.MetadataBroker{NodeID: 1, Host: "localhost", Port: 19092}, testLogger())
	defer h.coordinator.Stop()
	// one record in orders/0 and t1/0 so that an authorised Fetch returns bytes
	saved := h.authorizer
	h.authorizer = nil
	for _, n := range []string{"orders", "t1"} {
		q, ver := c24Build(c24Req{Kind: "Produce", Names: []string{n}, Acks: -1}, nil)
		cid := "setup"
		if _, err := h.Handle(ctx, &protocol.RequestHeader{APIKey: q.Key(), APIVersion: ver, CorrelationID: 1, ClientID: &cid}, q); err != nil {
			t.Fatalf("setup produce: %v", err)
		}
	}
	for _, g := range []string{"g1", "g2"} {
		cid := "setup"
		for _, k := range []string{"JoinGroup", "OffsetCommit"} {
			q, ver := c24Build(c24Req{Kind: k, Names: []string{g}}, nil)
			if _, err := h.Handle(ctx, &protocol.RequestHeader{APIKey: q.Key(), APIVersion: ver, CorrelationID: 2, ClientID: &cid}, q); err != nil {
				t.Fatalf("setup %s %s: %v", k, g, err)
			}
		}
	}
	h.authorizer = saved

	connCtx := c24ConnCtx(t, c) // ONE connection for the whole sequence
	var steps []c24Step
	for i, r := range c.Reqs {
		ids := map[string][16]byte{}
		idNames := map[[16]byte]string{}
		if m0, err := mem.Metadata(ctx, nil); err == nil {
			for _, tp := range m0.Topics {
				ids[*tp.Topic], idNames[tp.TopicID] = tp.TopicID, *tp.Topic
			}
		}
		q, ver := c24Build(r, ids)
		if q == nil {
			continue
		}
		cid := r.Principal
		hdr := &protocol.RequestHeader{APIKey: q.Key(), APIVersion: ver, CorrelationID: int32(10 + i), ClientID: &cid}
		principal := c24PrincipalOf(c, r)
		st := c24Step{req: r, principal: principal, known: map[string]bool{}}
		for n := range ids {
			st.known[n] = true
		}
		meta, _ := mem.Metadata(ctx, nil)
		existed := map[string]bool{}
		for _, tp := range meta.Topics {
			existed[*tp.Topic] = true
			st.existed = append(st.existed, *tp.Topic)
		}
		sort.Strings(st.existed)
		before := c24Snapshot(t, h, mem, s3)
		if again := c24Snapshot(t, h, mem, s3); c24Diff(before, again, func(string) bool { return true }) != "" {
			t.Fatalf("snapshot is not stable: %s", c24Diff(before, again, func(string) bool { return true }))
		}
		payload, err := h.Handle(connCtx, hdr, q)
		after := c24Snapshot(t, h, mem, s3)
		st.changed = c24Diff(before, after, func(string) bool { return true }) != ""
		if err != nil {
			// Handle returned a Go error (connection would be dropped): no reply to inspect
			tags["handle-error"] = true
			payload = nil
		}
		if payload != nil {
			st.replied = true
			st.obs = c24Decode(t, r, ver, payload, idNames)
		}
		// ---- oracle
		var items []c24Item
		switch r.Kind {
		case "DescribeConfigs", "AlterConfigs":
			for _, rs := range r.Res {
				items = append(items, c24Item{rs.Type, rs.Name})
			}
		case "ListGroups":
			items = []c24Item{{0, "*"}}
		case "Metadata":
			for _, n := range r.Names {
				if strings.TrimSpace(n) != "" && !r.ByID {
					items = append(items, c24Item{0, n})
				}
			}
		case "Fetch":
			// the item is the RESOLVED topic: the name itself, or the topic the ID belongs to
			for _, n := range r.Names {
				if _, known := ids[n]; known || !r.ByID {
					items = append(items, c24Item{0, n})
				}
			}
			if r.ByID {
				tags["fetch-by-id"] = true
			}
		case "ApiVersions", "FindCoordinator":
		default:
			for _, n := range r.Names {
				items = append(items, c24Item{0, n})
			}
		}
		denied := map[c24Item]bool{}
		nDenied := 0
		for _, it := range items {
			act, res, name, need := c24Required(r.Kind, it, c.AutoCreate, existed[it.name])
			if need && !h.authorizer.Allows(principal, act, res, name) {
				denied[it] = true
				nDenied++
			}
		}
		allDenied := len(items) > 0 && nDenied == len(items)
		if nDenied > 0 {
			tags["denied:"+r.Kind] = true
		}
		if nDenied > 0 && nDenied < len(items) {
			tags["mixed:"+r.Kind] = true
		}
		what := fmt.Sprintf("request %d %s by %q (names %q res %v by_id %v)", i, r.Kind, principal, r.Names, r.Res, r.ByID)
		// ---- "creates no topic": a topic that appears must be one this principal may create:
		// produce permission on it (auto-creation, whichever request triggered it) or cluster admin
		// (CreateTopics). Fetch permission alone is not a permission to create.
		for k := range after {
			if _, had := before[k]; !had && strings.HasPrefix(k, "topic|") && strings.HasSuffix(k, "|meta") {
				n := strings.TrimSuffix(strings.TrimPrefix(k, "topic|"), "|meta")
				st.created = append(st.created, n)
				mayProduce := h.authorizer.Allows(principal, acl.ActionProduce, acl.ResourceTopic, n)
				isAdmin := r.Kind == "CreateTopics" && h.authorizer.Allows(principal, acl.ActionAdmin, acl.ResourceCluster, "cluster")
				if !mayProduce && !isAdmin {
					setFail(r.Kind+"-created-topic-without-create-permission", fmt.Sprintf("%s: topic %q was created although the principal may neither produce to it nor administer the cluster", what, n))
				}
			}
		}
		sort.Strings(st.created)
		// ---- mixed per-item requests: the state delta must come from PERMITTED items only
		switch r.Kind {
		case "Produce", "Fetch", "Metadata", "DescribeGroups", "DeleteGroups", "DescribeConfigs":
			isGroup := c24IsGroupKind(r.Kind)
			owned := func(k string) bool {
				for _, it := range items {
					if denied[it] || (it.typ != 0 && it.typ != 2) {
						continue
					}
					if isGroup && strings.HasPrefix(k, "group|"+it.name+"|") {
						return true
					}
					if !isGroup && (strings.HasPrefix(k, "topic|"+it.name+"|") || (strings.HasPrefix(k, "s3|") && strings.Contains(k, "/"+it.name+"/"))) {
						return true
					}
				}
				return false
			}
			if d := c24Diff(before, after, func(k string) bool { return !owned(k) }); d != "" && nDenied > 0 {
				setFail(r.Kind+"-delta-outside-permitted-items", fmt.Sprintf("%s: the request carries denied items and the state changed outside its permitted items: %s", what, d))
			}
		}
		if allDenied && st.changed {
			setFail(r.Kind+"-denied-request-changed-state", fmt.Sprintf("%s: every item lacks its permission but the state changed: %s", what, c24Diff(before, after, func(string) bool { return true })))
		}
		for it := range denied {
			isGroup := c24IsGroupKind(r.Kind)
			match := func(k string) bool {
				if it.typ != 0 && it.typ != 2 {
					return false
				}
				if isGroup {
					return strings.HasPrefix(k, "group|"+it.name+"|")
				}
				return strings.HasPrefix(k, "topic|"+it.name+"|") || (strings.HasPrefix(k, "s3|") && strings.Contains(k, "/"+it.name+"/"))
			}
			if r.Kind != "ListGroups" {
				if d := c24Diff(before, after, match); d != "" {
					setFail(r.Kind+"-denied-item-changed-state", fmt.Sprintf("%s: %q lacks its permission but its state changed: %s", what, it.name, d))
				}
			}
		}
		if st.replied {
			seen := map[c24Item]bool{}
			for _, o := range st.obs {
				seen[o.item] = true
				if denied[o.item] {
					if !c24Authz(o.code) {
						setFail(r.Kind+"-no-authorization-error", fmt.Sprintf("%s: %q lacks its permission but was answered with code %d", what, o.item.name, o.code))
					}
					if o.data {
						setFail(r.Kind+"-leaked-records", fmt.Sprintf("%s: record bytes returned for %q", what, o.item.name))
					}
				}
			}
			for it := range denied {
				if !seen[it] {
					setFail(r.Kind+"-no-authorization-error", fmt.Sprintf("%s: %q lacks its permission and is missing from the reply", what, it.name))
				}
			}
		} else if err == nil && !(r.Kind == "Produce" && r.Acks == 0) {
			setFail(r.Kind+"-no-reply", fmt.Sprintf("%s: no reply", what))
		}
		steps = append(steps, st)
	}
	return steps, fail, key, tags
}

// ---------- generator ----------
var (
	c24Topics  = []string{"orders", "t1", "sneaky", "sneaky2", "", " "}
	c24Groups  = []string{"g1", "g2"}
	c24Clients = []string{"p1", "p2", "p3", "ghost", ""}
	c24Kinds   = []string{"ApiVersions", "FindCoordinator", "Metadata", "Metadata", "Metadata", "Produce", "Produce", "Fetch", "Fetch", "JoinGroup", "SyncGroup", "Heartbeat",
		"LeaveGroup", "OffsetCommit", "OffsetFetch", "DescribeGroups", "DeleteGroups", "ListGroups", "OffsetForLeaderEpoch", "ListOffsets",
		"DescribeConfigs", "AlterConfigs", "CreatePartitions", "CreateTopics", "DeleteTopics"}
)

func c24GenRule(r *vRand) c24Rule {
	acts := []string{"produce", "fetch", "group_read", "group_write", "group_admin", "admin", "*", "Produce"}
	ress := []string{"topic", "group", "cluster", "*", ""}
	names := []string{"orders", "t1", "sneaky", "g1", "g2", "cluster", "*", "t*", "s*", "", "o*"}
	if r.Chance(60) {
		// a coherent rule (topic action on ONE topic name, group action on ONE group, admin on the
		// cluster): gives principals partial permissions, hence mixed multi-item requests
		switch r.Intn(3) {
		case 0:
			return c24Rule{A: []string{"produce", "fetch", "*"}[r.Intn(3)], R: "topic", N: []string{"orders", "t1", "sneaky", "t*"}[r.Intn(4)]}
		case 1:
			return c24Rule{A: []string{"group_read", "group_write", "group_admin", "*"}[r.Intn(4)], R: "group", N: []string{"g1", "g2"}[r.Intn(2)]}
		default:
			return c24Rule{A: "admin", R: "cluster", N: []string{"cluster", "*", ""}[r.Intn(3)]}
		}
	}
	return c24Rule{A: acts[r.Intn(len(acts))], R: ress[r.Intn(len(ress))], N: names[r.Intn(len(names))]}
}

func c24GenReq(r *vRand) c24Req {
	q := c24Req{Kind: c24Kinds[r.Intn(len(c24Kinds))], Principal: c24Clients[r.Intn(len(c24Clients))], Mode: r.Intn(4)}
	pickTopics := func(lo, hi int, pool []string) []string {
		n := r.Range(lo, hi)
		var out []string
		for i := 0; i < n; i++ {
			out = append(out, pool[r.Intn(len(pool))])
		}
		return out
	}
	named := []string{"orders", "t1", "sneaky", "sneaky2"}
	switch q.Kind {
	case "Metadata":
		q.Names = pickTopics(0, 3, c24Topics)
		if r.Chance(15) {
			q.Names, q.ByID = pickTopics(1, 3, named), true
		}
	case "Produce":
		q.Names = pickTopics(1, 3, named)
		q.Acks = []int16{-1, 1, -1, 0}[r.Intn(4)]
	case "Fetch":
		q.Names = pickTopics(1, 3, named)
		q.ByID = r.Chance(45)
	case "OffsetForLeaderEpoch", "CreatePartitions", "CreateTopics", "DeleteTopics":
		q.Names = pickTopics(1, 3, named)
	case "ListOffsets":
		q.Names = pickTopics(1, 3, named)
		// every timestamp class: latest, earliest, zero, a real time, far future, other negatives
		q.Ts = []int64{-1, -2, -1, -2, 0, 1700000000000, 1 << 62, -3, -100}[r.Intn(9)]
	case "FindCoordinator", "JoinGroup", "SyncGroup", "Heartbeat", "LeaveGroup", "OffsetCommit", "OffsetFetch":
		q.Names = pickTopics(1, 1, c24Groups)
	case "DescribeGroups", "DeleteGroups":
		q.Names = pickTopics(1, 3, c24Groups)
	case "DescribeConfigs", "AlterConfigs":
		n := r.Range(1, 3)
		for i := 0; i < n; i++ {
			switch r.Intn(4) {
			case 0:
				q.Res = append(q.Res, c24Res{4, "1"})
			case 1:
				q.Res = append(q.Res, c24Res{8, "x"})
			default:
				q.Res = append(q.Res, c24Res{2, named[r.Intn(len(named))]})
			}
		}
	}
	return q
}

// c24MakeMixed rewrites a per-item request so that it carries at least one permitted and one
// denied item for its principal, when the ACL makes that possible.
func c24MakeMixed(r *vRand, auth *acl.Authorizer, q *c24Req) {
	var act acl.Action
	var res acl.Resource
	var pool []string
	switch q.Kind {
	case "Produce":
		act, res, pool = acl.ActionProduce, acl.ResourceTopic, []string{"orders", "t1", "sneaky", "sneaky2"}
	case "Fetch":
		act, res, pool = acl.ActionFetch, acl.ResourceTopic, []string{"orders", "t1", "sneaky", "sneaky2"}
	case "Metadata":
		if q.ByID {
			return
		}
		act, res, pool = acl.ActionProduce, acl.ResourceTopic, []string{"sneaky", "sneaky2", "orders", "t1"}
	case "DescribeGroups":
		act, res, pool = acl.ActionGroupRead, acl.ResourceGroup, []string{"g1", "g2", "g3"}
	case "DeleteGroups":
		act, res, pool = acl.ActionGroupAdmin, acl.ResourceGroup, []string{"g1", "g2", "g3"}
	case "DescribeConfigs":
		act, res, pool = acl.ActionFetch, acl.ResourceTopic, []string{"orders", "t1", "sneaky"}
	default:
		return
	}
	var yes, no []string
	for _, who := range []string{q.Principal, "p1", "p2", "p3"} { // prefer the drawn principal, else one that CAN be mixed
		yes, no = nil, nil
		for _, n := range pool {
			if auth.Allows(who, act, res, n) {
				yes = append(yes, n)
			} else {
				no = append(no, n)
			}
		}
		if len(yes) > 0 && len(no) > 0 {
			q.Principal = who
			break
		}
	}
	if len(yes) == 0 || len(no) == 0 {
		return
	}
	names := []string{yes[r.Intn(len(yes))], no[r.Intn(len(no))]}
	if r.Bool() {
		names[0], names[1] = names[1], names[0]
	}
	if r.Chance(40) {
		names = append(names, pool[r.Intn(len(pool))])
	}
	if q.Kind == "DescribeConfigs" {
		q.Res = nil
		for _, n := range names {
			q.Res = append(q.Res, c24Res{2, n})
		}
		return
	}
	q.Names = names
}

func c24Gen(r *vRand) c24Case {
	c := c24Case{Kind: "dispatch", Default: []string{"deny", "deny", "deny", "allow", ""}[r.Intn(5)], AutoCreate: r.Chance(65), AdminAPIs: !r.Chance(15)}
	for _, n := range []string{"p1", "p2", "p3"} {
		if r.Chance(15) {
			continue // not listed at all
		}
		p := c24Principal{Name: n, Allow: []c24Rule{}, Deny: []c24Rule{}}
		if r.Chance(25) {
			// exactly ONE permission, on everything of its resource kind
			one := [][2]string{{"produce", "topic"}, {"fetch", "topic"}, {"group_read", "group"}, {"group_write", "group"}, {"group_admin", "group"}, {"admin", "cluster"}}[r.Intn(6)]
			p.Allow = append(p.Allow, c24Rule{A: one[0], R: one[1], N: "*"})
			c.Principals = append(c.Principals, p)
			continue
		}
		if r.Chance(30) {
			// deny-list shape: a wildcard (or no) allow plus a deny that depends on the concrete name
			act := []string{"fetch", "produce", "*"}[r.Intn(3)]
			if c.Default != "allow" || r.Bool() {
				p.Allow = append(p.Allow, c24Rule{A: []string{act, "*"}[r.Intn(2)], R: []string{"topic", "*", ""}[r.Intn(3)], N: []string{"*", "", "t*"}[r.Intn(3)]})
			}
			p.Deny = append(p.Deny, c24Rule{A: act, R: "topic", N: []string{"orders", "t1", "o*", "sneaky"}[r.Intn(4)]})
			c.Principals = append(c.Principals, p)
			continue
		}
		for k := r.Range(0, 4); k > 0; k-- {
			p.Allow = append(p.Allow, c24GenRule(r))
		}
		if r.Chance(30) {
			p.Deny = append(p.Deny, c24GenRule(r))
		}
		c.Principals = append(c.Principals, p)
	}
	if c.Principals == nil {
		c.Principals = []c24Principal{}
	}
	switch r.Intn(10) {
	case 0, 1, 2:
		c.Conn = "client_id+proxy"
	case 3:
		c.Conn, c.ConnHost = "remote_addr", "10.0.0.2"
	case 4:
		c.Conn, c.ConnHost = "proxy_addr", "10.0.0.2"
	}
	if c.ConnHost != "" && len(c.Principals) > 0 {
		c.Principals[r.Intn(len(c.Principals))].Name = c.ConnHost // the address-named principal has rules of its own
	}
	// the generator knows the ACL: half of the list-shaped requests are made MIXED on purpose
	// (>= 1 item the principal is permitted and >= 1 it is not)
	cfg := acl.Config{Enabled: true, DefaultPolicy: c.Default}
	for _, p := range c.Principals {
		pr := acl.PrincipalRules{Name: p.Name}
		for _, x := range p.Allow {
			pr.Allow = append(pr.Allow, acl.Rule{Action: acl.Action(x.A), Resource: acl.Resource(x.R), Name: x.N})
		}
		for _, x := range p.Deny {
			pr.Deny = append(pr.Deny, acl.Rule{Action: acl.Action(x.A), Resource: acl.Resource(x.R), Name: x.N})
		}
		cfg.Principals = append(cfg.Principals, pr)
	}
	auth := acl.NewAuthorizer(cfg)
	n := r.Range(4, 14)
	for i := 0; i < n; i++ {
		q := c24GenReq(r)
		if r.Chance(70) {
			c24MakeMixed(r, auth, &q)
		}
		c.Reqs = append(c.Reqs, q)
	}
	return c
}

// ---------- Coq emission ----------
func c24Strs(ss []string) string {
	items := make([]string, len(ss))
	for i, s := range ss {
		items[i] = cqStr(s)
	}
	return cqList(items)
}

func c24CoqRules(rs []c24Rule) string {
	items := make([]string, len(rs))
	for i, r := range rs {
		items[i] = fmt.Sprintf("mkRule %s %s %s", cqStr(r.A), cqStr(r.R), cqStr(r.N))
	}
	return cqList(items)
}

func c24CoqReq(r c24Req, known map[string]bool) string {
	if r.Kind == "Fetch" {
		items := make([]string, len(r.Names))
		for i, n := range r.Names {
			switch {
			case !r.ByID:
				items[i] = "ByName " + cqStr(n)
			case known[n]:
				items[i] = "ById (Some " + cqStr(n) + ")"
			default:
				items[i] = "ById None"
			}
		}
		return "(RFetch " + cqList(items) + ")"
	}
	if r.Kind == "Metadata" && r.ByID {
		return "(RMetadata [])"
	}
	res := func() string {
		items := make([]string, len(r.Res))
		for i, x := range r.Res {
			items[i] = fmt.Sprintf("(%d, %s)", x.Type, cqStr(x.Name))
		}
		return cqList(items)
	}
	switch r.Kind {
	case "ApiVersions", "FindCoordinator", "ListGroups":
		return "R" + r.Kind
	case "JoinGroup", "SyncGroup", "Heartbeat", "LeaveGroup", "OffsetCommit", "OffsetFetch":
		return fmt.Sprintf("(R%s %s)", r.Kind, cqStr(r.Names[0]))
	case "DescribeConfigs", "AlterConfigs":
		return fmt.Sprintf("(R%s %s)", r.Kind, res())
	default:
		return fmt.Sprintf("(R%s %s)", r.Kind, c24Strs(r.Names))
	}
}

func c24Coq(c c24Case, st c24Step) string {
	es := make([]string, len(c.Principals))
	for i, p := range c.Principals {
		es[i] = fmt.Sprintf("mkEntry %s %s %s", cqStr(p.Name), c24CoqRules(p.Allow), c24CoqRules(p.Deny))
	}
	obs := make([]string, len(st.obs))
	for i, o := range st.obs {
		obs[i] = fmt.Sprintf("((%d, %s), %s)", o.item.typ, cqStr(o.item.name), cqZ(int64(o.code)))
	}
	return fmt.Sprintf("mkD (mkConfig true %s %s) %s %s %s %s %s %s %s %s", cqStr(c.Default), cqList(es), cqStr(st.principal),
		cqBool(c.AutoCreate), cqBool(c.AdminAPIs), c24Strs(st.existed), c24CoqReq(st.req, st.known), cqList(obs), cqBool(st.changed), c24Strs(st.created))
}

func TestVerifC24(t *testing.T) {
	rep := vNewReport("C24", "request sequences (4-14 requests over all 21 kinds Handle accepts, 1-3 topics/groups/config resources each incl. repeated, non-existent, empty and blank names; acks -1/1/0, every ListOffsets timestamp class, validate-only / isolation-level / include-authorized-ops / allow-auto-create mode bits) from principals p1-p3 with 0-4 generated allow rules and 0-1 deny rules each (actions x resources x exact / prefix / star names, or not listed at all), an unknown principal and the anonymous one, default policy deny or allow, auto-create on/off, admin APIs on/off, through the real handler.Handle on an in-memory store + in-memory S3; non-trivial = the sequence contains a denied request and a request that changed the state; distinct = distinct canonical JSON")
	var coq, jsons []string
	runOne := func(c c24Case) {
		c.Kind = "dispatch"
		if c.Principals == nil {
			c.Principals = []c24Principal{}
		}
		steps, fail, key, tags := c24Run(t, c)
		canon, _ := json.Marshal(c)
		anyDenied, anyChanged := false, false
		for tg := range tags {
			rep.Hist(tg)
			if strings.HasPrefix(tg, "denied:") {
				anyDenied = true
			}
		}
		for _, st := range steps {
			if st.changed {
				anyChanged = true
			}
			rep.Hist("kind:" + st.req.Kind)
		}
		rep.Count(string(canon), anyDenied && anyChanged)
		rep.Sample(c)
		if fail != "" {
			shr := c
			shr.Reqs = vShrink(c.Reqs, func(rs []c24Req) bool {
				x := c
				x.Reqs = rs
				_, f, k, _ := c24Run(t, x)
				return f != "" && k == key
			})
			_, f2, _, _ := c24Run(t, shr)
			if f2 == "" {
				shr, f2 = c, fail
			}
			rep.Fail(key, key, f2, shr)
		}
		for _, st := range steps {
			if !st.replied {
				continue
			}
			coq = append(coq, c24Coq(c, st))
			jsons = append(jsons, string(canon)) // the whole sequence: a step depends on the state built before it
		}
	}
	if rc := vReplayCase(); rc != nil {
		var c c24Case
		if err := json.Unmarshal(rc, &c); err != nil {
			t.Fatalf("bad replay: %v", err)
		}
		if c.Kind == "dispatch" {
			runOne(c)
		}
	} else {
		corpus := []c24Case{
			// design-round finding: default deny, unknown principal, Metadata naming a new topic
			{Default: "deny", AutoCreate: true, AdminAPIs: true, Reqs: []c24Req{{Kind: "Metadata", Principal: "ghost", Names: []string{"sneaky"}}}},
			{Default: "deny", AutoCreate: true, AdminAPIs: true, Principals: []c24Principal{{Name: "p1", Allow: []c24Rule{{"fetch", "topic", "*"}}, Deny: []c24Rule{}}},
				Reqs: []c24Req{{Kind: "Metadata", Principal: "p1", Names: []string{"orders", "sneaky", ""}}, {Kind: "Fetch", Principal: "p1", Names: []string{"orders"}}, {Kind: "Produce", Principal: "p1", Names: []string{"orders", "sneaky"}, Acks: -1}}},
			{Default: "deny", AutoCreate: false, AdminAPIs: true, Principals: []c24Principal{{Name: "p1", Allow: []c24Rule{{"produce", "topic", "t*"}, {"group_read", "group", "g1"}}, Deny: []c24Rule{}}},
				Reqs: []c24Req{{Kind: "Produce", Principal: "p1", Names: []string{"t1", "orders"}, Acks: 0}, {Kind: "DescribeGroups", Principal: "p1", Names: []string{"g1", "g2"}}, {Kind: "DeleteGroups", Principal: "p1", Names: []string{"g1"}},
					{Kind: "CreateTopics", Principal: "p1", Names: []string{"sneaky"}}, {Kind: "AlterConfigs", Principal: "p1", Res: []c24Res{{2, "orders"}, {4, "1"}}}, {Kind: "ListOffsets", Principal: "p1", Names: []string{"t1", "orders"}, Ts: -2},
					{Kind: "OffsetCommit", Principal: "p1", Names: []string{"g1"}}, {Kind: "JoinGroup", Principal: "", Names: []string{"g2"}}}},
			{Default: "allow", AutoCreate: true, AdminAPIs: false, Principals: []c24Principal{{Name: "p2", Allow: []c24Rule{}, Deny: []c24Rule{{"*", "*", "*"}}}},
				Reqs: []c24Req{{Kind: "Metadata", Principal: "p2", Names: []string{"sneaky2"}}, {Kind: "CreateTopics", Principal: "ghost", Names: []string{"sneaky"}}, {Kind: "Metadata", Principal: "ghost", Names: []string{"sneaky2"}}, {Kind: "DeleteTopics", Principal: "p2", Names: []string{"orders"}}}},
		}
		// deny-list ACLs x ID-addressed requests: the decision must be taken on the RESOLVED name
		// (Fetch v13 carries an empty name; "" matches a wildcard allow and no specific deny)
		corpus = append(corpus,
			c24Case{Default: "deny", AutoCreate: true, AdminAPIs: true, Principals: []c24Principal{{Name: "p1", Allow: []c24Rule{{"fetch", "topic", "*"}}, Deny: []c24Rule{{"fetch", "topic", "orders"}}}},
				Reqs: []c24Req{{Kind: "Fetch", Principal: "p1", Names: []string{"orders", "t1"}, ByID: true}, {Kind: "Fetch", Principal: "p1", Names: []string{"orders", "t1"}}, {Kind: "Metadata", Principal: "p1", Names: []string{"orders", "sneaky"}, ByID: true}}},
			c24Case{Default: "allow", AutoCreate: false, AdminAPIs: true, Principals: []c24Principal{{Name: "p2", Allow: []c24Rule{}, Deny: []c24Rule{{"*", "topic", "t1"}}}},
				Reqs: []c24Req{{Kind: "Fetch", Principal: "p2", Names: []string{"t1"}, ByID: true}, {Kind: "Fetch", Principal: "p2", Names: []string{"sneaky", "orders"}, ByID: true}, {Kind: "Produce", Principal: "p2", Names: []string{"t1", "orders"}, Acks: -1}}},
		)
		corpus = append(corpus,
			// a DeleteGroups mixing a group the principal administers with one it does not: only the former may go
			c24Case{Default: "deny", AutoCreate: true, AdminAPIs: true, Principals: []c24Principal{{Name: "p1", Allow: []c24Rule{{"group_admin", "group", "g1"}, {"group_read", "group", "g1"}}, Deny: []c24Rule{}}},
				Reqs: []c24Req{{Kind: "DeleteGroups", Principal: "p1", Names: []string{"g1", "g2"}}, {Kind: "DescribeGroups", Principal: "p1", Names: []string{"g2", "g1"}}}},
			// fetch permission is not a permission to create: Fetch / ListOffsets of a missing topic
			c24Case{Default: "deny", AutoCreate: true, AdminAPIs: true, Principals: []c24Principal{{Name: "p1", Allow: []c24Rule{{"fetch", "topic", "*"}}, Deny: []c24Rule{}}},
				Reqs: []c24Req{{Kind: "Fetch", Principal: "p1", Names: []string{"sneaky"}}, {Kind: "ListOffsets", Principal: "p1", Names: []string{"sneaky2"}, Ts: -2}, {Kind: "Fetch", Principal: "p1", Names: []string{"orders", "sneaky"}}}},
		)
		// one permission only x every ListOffsets timestamp class / request mode x missing and existing topics
		for _, one := range [][2]string{{"fetch", "topic"}, {"produce", "topic"}, {"admin", "cluster"}, {"group_write", "group"}} {
			cs := c24Case{Default: "deny", AutoCreate: true, AdminAPIs: true, Principals: []c24Principal{{Name: "p1", Allow: []c24Rule{{one[0], one[1], "*"}}, Deny: []c24Rule{}}}}
			for i, ts := range []int64{-1, -2, 0, 1700000000000, 1 << 62, -3} {
				cs.Reqs = append(cs.Reqs, c24Req{Kind: "ListOffsets", Principal: "p1", Names: []string{fmt.Sprintf("missing%d", i)}, Ts: ts, Mode: i & 1},
					c24Req{Kind: "ListOffsets", Principal: "p1", Names: []string{"orders"}, Ts: ts})
			}
			for m := 0; m < 4; m++ {
				cs.Reqs = append(cs.Reqs, c24Req{Kind: "Fetch", Principal: "p1", Names: []string{fmt.Sprintf("missingf%d", m)}, Mode: m},
					c24Req{Kind: "Metadata", Principal: "p1", Names: []string{fmt.Sprintf("missingm%d", m)}, Mode: m},
					c24Req{Kind: "CreateTopics", Principal: "p1", Names: []string{fmt.Sprintf("missingc%d", m)}, Mode: m},
					c24Req{Kind: "OffsetForLeaderEpoch", Principal: "p1", Names: []string{fmt.Sprintf("missingo%d", m)}, Mode: m})
			}
			corpus = append(corpus, cs)
		}
		// one connection, the client id changes between requests: each request is authorised as ITS principal
		for _, conn := range []string{"", "client_id+proxy", "remote_addr", "proxy_addr"} {
			cs := c24Case{Default: "deny", AutoCreate: true, AdminAPIs: true, Conn: conn, ConnHost: "10.0.0.2",
				Principals: []c24Principal{{Name: "writer", Allow: []c24Rule{{"produce", "topic", "*"}, {"group_write", "group", "*"}}, Deny: []c24Rule{}},
					{Name: "reader", Allow: []c24Rule{{"fetch", "topic", "*"}}, Deny: []c24Rule{}},
					{Name: "10.0.0.2", Allow: []c24Rule{{"fetch", "topic", "orders"}}, Deny: []c24Rule{}}},
				Reqs: []c24Req{{Kind: "Produce", Principal: "writer", Names: []string{"orders"}, Acks: -1}, {Kind: "Produce", Principal: "reader", Names: []string{"orders"}, Acks: -1},
					{Kind: "Fetch", Principal: "reader", Names: []string{"orders"}}, {Kind: "Fetch", Principal: "writer", Names: []string{"orders"}},
					{Kind: "OffsetCommit", Principal: "reader", Names: []string{"g1"}}, {Kind: "Produce", Principal: "", Names: []string{"t1"}, Acks: -1}}}
			corpus = append(corpus, cs)
		}
		for _, c := range corpus {
			runOne(c)
		}
		r := vNewRand(vSeed())
		n := vN(100, 900)
		for i := 0; i < n; i++ {
			runOne(c24Gen(r.Fork()))
		}
	}
	rep.Notes = append(rep.Notes, "observation (outside the statement's list of effects): handleProduce calls acquirePartitionLeases for every partition of the request BEFORE the per-topic ACL check (visible as the 'pre' guard of the Produce row in gen/DispatchTable.v); with the etcd lease manager an unauthorised Produce can therefore take partition leases")
	rep.Cases("C24", "From KS Require Import lib.Base lib.Strings model.Acl model.Dispatch corr.DispatchCorr.", "dcase", "check_dcase", coq, jsons)
	rep.Write()
	if len(rep.Failures) > 0 {
		t.Logf("oracle failures: %s", strings.TrimSpace(rep.Failures[0].What))
	}
}
