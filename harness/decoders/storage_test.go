package storage

// C07 / C34 harness, storage side (overlaid into /repo/pkg/storage).
//
// C07: generated well-formed record batches are encoded with franz-go's kmsg (an
// encoder independent of the repository), serialized by the REAL BuildSegment, checked
// against the segment/index layout clauses, read back with the real PITR scanner
// (collectRecoverableBatches, scanRecord) and ParseIndex, and written to
// {VERIF_OUT}/c07_inputs.json for the three add-on harnesses, which decode the same
// files with the processors' real decoders.
// C34: arbitrary / mutated / hostile inputs (incl. broker-written segments whose record
// bodies are arbitrary client bytes) are run through the PITR scanner and ParseIndex
// under recover() with allocation accounting, and written to c34_inputs.json for the
// add-on harnesses.
// Every execution is emitted as a Coq case for corr/DecodersCorr.v.

import (
	"bytes"
	"encoding/binary"
	"encoding/json"
	"fmt"
	"hash/crc32"
	"math"
	"os"
	"path/filepath"
	"runtime"
	"strings"
	"testing"
	"time"

	"github.com/twmb/franz-go/pkg/kmsg"
)

// ---------- shared shapes (duplicated in addon_shared_test.go) ----------
type vdHdr struct {
	K string `json:"k"`
	V []byte `json:"v"` // nil = null
}
type vdRec struct {
	Off  int64   `json:"off"`
	Ts   int64   `json:"ts"`
	Key  []byte  `json:"key"` // nil = null
	Val  []byte  `json:"val"`
	Hdrs []vdHdr `json:"hdrs"`
}
type vdInput struct {
	ID      int        `json:"id"`
	Class   string     `json:"class"`
	Kind    string     `json:"kind"` // "segment" | "index"
	Data    []byte     `json:"data"`
	Index   []byte     `json:"index,omitempty"`
	Entries [][2]int64 `json:"entries,omitempty"`
	Want    []vdRec    `json:"want,omitempty"`
	MaxAbs  int64      `json:"max_abs_ts_delta,omitempty"`
	Case    any        `json:"case,omitempty"` // replayable generator case
}

const vdRequires = "From KS Require Import lib.Base lib.Varint lib.Outcome lib.Kafka model.Decoders corr.DecodersCorr."

func cqOB(b []byte) string {
	if b == nil {
		return "None"
	}
	return "(Some " + cqBytes(b) + ")"
}
func cqPairs(p [][2]int64) string {
	it := make([]string, len(p))
	for i, x := range p {
		it[i] = "(" + cqZ(x[0]) + ", " + cqZ(x[1]) + ")"
	}
	return cqList(it)
}
func cqBytesList(l [][]byte) string {
	it := make([]string, len(l))
	for i, x := range l {
		it[i] = cqBytes(x)
	}
	return cqList(it)
}

// vdErrClass maps a Go error of the decoders to the model's error enum.
func vdErrClass(err error) string {
	s := err.Error()
	switch {
	case strings.Contains(s, "segment too small"):
		return "ESmall"
	case strings.Contains(s, "invalid segment magic"), strings.Contains(s, "invalid index magic"):
		return "EMagic"
	case strings.Contains(s, "record batch too small"):
		return "EBatchSmall"
	case strings.Contains(s, "negative last offset delta"):
		return "ELastDelta"
	case strings.Contains(s, "compressed"):
		return "ECompressed"
	case strings.Contains(s, "record count"):
		return "ERecCount"
	case strings.Contains(s, "invalid record length"):
		return "ERecLen"
	case strings.Contains(s, "EOF"):
		return "EEof"
	case strings.Contains(s, "varint overflow"), strings.Contains(s, "varint too long"), strings.Contains(s, "varlong too long"):
		return "EVarint"
	case strings.Contains(s, "invalid header count"):
		return "EHdrCount"
	case strings.Contains(s, "exceeds segment bounds"), strings.Contains(s, "exceeds remaining"), strings.Contains(s, "index entry out of bounds"), strings.Contains(s, "index truncated"):
		return "EBounds"
	case strings.Contains(s, "index too small"), strings.Contains(s, "unsupported index version"), strings.Contains(s, "invalid index entry count"):
		return "EIndex"
	}
	return "UNMAPPED(" + s + ")"
}

// vdGuard runs f under recover() and reports the bytes allocated meanwhile.
func vdGuard(f func()) (panicked string, alloc uint64, dur time.Duration) {
	var m0, m1 runtime.MemStats
	runtime.ReadMemStats(&m0)
	t0 := time.Now()
	func() {
		defer func() {
			if r := recover(); r != nil {
				panicked = fmt.Sprint(r)
			}
		}()
		f()
	}()
	dur = time.Since(t0)
	runtime.ReadMemStats(&m1)
	return panicked, m1.TotalAlloc - m0.TotalAlloc, dur
}

const vdAllocC = 1024
const vdAllocSlack = 65536

// vdClassKey: histogram key of an input class (sweep inputs are grouped per field).
func vdClassKey(c string) string {
	if strings.HasPrefix(c, "sweep-") {
		if i := strings.Index(c, "="); i > 0 {
			return c[:i]
		}
	}
	return c
}

func vdPanicSite(p string) string {
	switch {
	case strings.Contains(p, "makeslice"):
		return "makeslice"
	case strings.Contains(p, "out of range"):
		return "index"
	case strings.Contains(p, "nil pointer"):
		return "nil"
	}
	return "other"
}

// ---------- C07 generator ----------
type c07Hdr struct {
	K string `json:"k"`
	V []byte `json:"v"`
}
type c07Rec struct {
	TsDelta  int64    `json:"ts_delta"`
	OffDelta int32    `json:"off_delta"`
	Attr     int8     `json:"attr"`
	Key      []byte   `json:"key"`
	Val      []byte   `json:"val"`
	Hdrs     []c07Hdr `json:"hdrs"`
}
type c07Batch struct {
	Base    int64    `json:"base"`
	FirstTs int64    `json:"first_ts"`
	Recs    []c07Rec `json:"recs"`
}
type c07Case struct {
	Interval int32      `json:"interval"`
	Created  int64      `json:"created"`
	Batches  []c07Batch `json:"batches"`
}

func c07Field(r *vRand) []byte {
	switch r.Intn(8) {
	case 0:
		return nil
	case 1:
		return []byte{}
	case 2:
		return r.Bytes(r.Range(200, 300))
	default:
		return r.Bytes(r.Range(1, 24))
	}
}

var c07Deltas = []int64{0, 1, 5, 1000, -1, -1000, 1 << 30, 1<<30 - 1, -(1 << 30), -(1 << 30) - 1, 1 << 31, -(1 << 31) - 1, 1<<31 - 1,
	2592000000, -2592000000, 1 << 34, -(1 << 34), 1 << 35, 1 << 62, -(1 << 62)}

func c07TsDelta(r *vRand) int64 {
	switch r.Intn(10) {
	case 0, 1, 2:
		return int64(r.Range(0, 5000))
	case 3:
		return -int64(r.Range(1, 5000))
	case 4:
		return int64(r.U64()>>2) - (1 << 61)
	case 5:
		return int64(r.U64()>>30) - (1 << 33)
	default:
		return c07Deltas[r.Intn(len(c07Deltas))]
	}
}

func c07Gen(r *vRand) c07Case {
	cs := c07Case{Interval: []int32{-1, 0, 1, 2, 5, 100}[r.Intn(6)], Created: 1700000000000 + int64(r.Intn(1000000))}
	base := int64(r.Intn(1000000))
	if r.Chance(10) {
		base = 1<<40 + int64(r.Intn(1000))
	}
	nb := r.Range(1, 4)
	for b := 0; b < nb; b++ {
		bt := c07Batch{Base: base, FirstTs: 1700000000000 + int64(r.Intn(100000000))}
		n := r.Range(1, 6)
		if r.Chance(5) {
			n = r.Range(20, 40)
		}
		for i := 0; i < n; i++ {
			rec := c07Rec{TsDelta: c07TsDelta(r), OffDelta: int32(i), Key: c07Field(r), Val: c07Field(r)}
			if r.Chance(10) {
				rec.Attr = int8(r.Intn(128))
			}
			nh := 0
			if r.Chance(50) {
				nh = r.Range(1, 3)
			}
			for h := 0; h < nh; h++ {
				hd := c07Hdr{K: []string{"", "k", "trace-id", "ключ"}[r.Intn(4)]}
				switch r.Intn(4) {
				case 0:
					hd.V = nil
				case 1:
					hd.V = []byte{}
				default:
					hd.V = r.Bytes(r.Range(1, 12))
				}
				rec.Hdrs = append(rec.Hdrs, hd)
			}
			bt.Recs = append(bt.Recs, rec)
		}
		cs.Batches = append(cs.Batches, bt)
		base += int64(n)
	}
	return cs
}

// c07RecSizes: encoded size of every record of the batch (kmsg).
func c07RecSizes(b c07Batch) []int {
	out := make([]int, len(b.Recs))
	for i, r := range b.Recs {
		kr := kmsg.Record{Attributes: r.Attr, TimestampDelta64: r.TsDelta, OffsetDelta: r.OffDelta, Key: r.Key, Value: r.Val}
		for _, h := range r.Hdrs {
			kr.Headers = append(kr.Headers, kmsg.Header{Key: h.K, Value: h.V})
		}
		tmp := kr.AppendTo(nil)
		kr.Length = int32(len(tmp) - 1)
		out[i] = len(kr.AppendTo(nil))
	}
	return out
}

// c07GenBoundary: small batches whose timestamp ranges overlap and are NOT monotone across
// batches (a later batch may lie entirely at or before an earlier batch's max timestamp);
// record 0 has delta 0 and MaxTimestamp is the true maximum (consistent headers), so the
// scanner contract below applies. Cut-offs are then placed on every boundary.
func c07GenBoundary(r *vRand) c07Case {
	cs := c07Case{Interval: []int32{1, 2, 100}[r.Intn(3)], Created: 1700000000000 + int64(r.Intn(1000))}
	base := int64(r.Intn(1000))
	t0 := int64(1700000000000) + int64(r.Intn(100000))
	nb := r.Range(2, 4)
	for b := 0; b < nb; b++ {
		bt := c07Batch{Base: base, FirstTs: t0 + int64(r.Range(-300, 300))}
		if r.Chance(30) && b > 0 {
			prev := cs.Batches[b-1]
			bt.FirstTs = prev.FirstTs - int64(r.Range(0, 50)) // at or before the previous batch
		}
		n := r.Range(1, 5)
		for i := 0; i < n; i++ {
			rec := c07Rec{OffDelta: int32(i), Key: r.Bytes(r.Range(0, 3)), Val: r.Bytes(r.Range(1, 6))}
			if i > 0 {
				switch r.Intn(4) {
				case 0:
					rec.TsDelta = 0
				case 1:
					rec.TsDelta = -int64(r.Range(1, 50))
				default:
					rec.TsDelta = int64(r.Range(1, 200))
				}
			}
			bt.Recs = append(bt.Recs, rec)
		}
		cs.Batches = append(cs.Batches, bt)
		base += int64(n)
	}
	return cs
}

func c07Consistent(cs c07Case) bool {
	for _, b := range cs.Batches {
		if b.Recs[0].TsDelta != 0 {
			return false
		}
		for i, r := range b.Recs {
			if int(r.OffDelta) != i {
				return false
			}
		}
	}
	return true
}

// c07Cutoffs: every batch's first/max timestamp and every record's timestamp, each -1, 0, +1 ms
// (batch boundaries first), deduplicated.
func c07Cutoffs(cs c07Case) []int64 {
	var out []int64
	seen := map[int64]bool{}
	add := func(t int64) {
		for _, d := range []int64{0, -1, 1} {
			if !seen[t+d] {
				seen[t+d] = true
				out = append(out, t+d)
			}
		}
	}
	for _, b := range cs.Batches {
		mx := b.FirstTs
		for _, r := range b.Recs {
			if b.FirstTs+r.TsDelta > mx {
				mx = b.FirstTs + r.TsDelta
			}
		}
		add(mx)
		add(b.FirstTs)
	}
	for _, b := range cs.Batches {
		for _, r := range b.Recs {
			add(b.FirstTs + r.TsDelta)
		}
	}
	return out
}

// c07PitrContract: the contract of collectRecoverableBatches for batches with consistent
// headers (record 0 at firstTimestamp, maxTimestamp = the true maximum): the recovered
// records are exactly the records of the segment in scan order (batch order, record order)
// up to, not including, the first record whose timestamp is > cutoff. A batch kept whole is
// returned byte-identical; a partially kept batch is returned with its first n records,
// batchLength/lastOffsetDelta/maxTimestamp/numRecords/CRC rewritten accordingly and every
// other header byte unchanged. Returns "" or a description of the first deviation.
func c07PitrContract(cs c07Case, raws [][]byte, cutoff int64, kept []RecordBatch, err error) string {
	if err != nil {
		return "error on a well-formed segment: " + err.Error()
	}
	type want struct{ batch, n int }
	var exp []want
	stop := false
	for bi, b := range cs.Batches {
		n := 0
		for _, r := range b.Recs {
			if b.FirstTs+r.TsDelta > cutoff {
				stop = true
				break
			}
			n++
		}
		if n > 0 {
			exp = append(exp, want{bi, n})
		}
		if stop {
			break
		}
	}
	var gotOffs, expOffs []int64
	for _, k := range kept {
		for i := int32(0); i < k.MessageCount; i++ {
			gotOffs = append(gotOffs, k.BaseOffset+int64(i))
		}
	}
	for _, w := range exp {
		for i := 0; i < w.n; i++ {
			expOffs = append(expOffs, cs.Batches[w.batch].Base+int64(i))
		}
	}
	if fmt.Sprint(gotOffs) != fmt.Sprint(expOffs) {
		return fmt.Sprintf("cutoff %d: recovered offsets %v, but the records at or before the first record > cutoff (scan order) are %v", cutoff, gotOffs, expOffs)
	}
	castag := crc32.MakeTable(crc32.Castagnoli)
	for i, w := range exp {
		b, raw, k := cs.Batches[w.batch], raws[w.batch], kept[i].Bytes
		if w.n == len(b.Recs) {
			if !bytes.Equal(k, raw) {
				return fmt.Sprintf("cutoff %d: batch %d kept whole but its bytes changed", cutoff, w.batch)
			}
			continue
		}
		sz, maxTs := 0, b.FirstTs
		for j, s := range c07RecSizes(b)[:w.n] {
			sz += s
			if ts := b.FirstTs + b.Recs[j].TsDelta; ts > maxTs {
				maxTs = ts
			}
		}
		okHdr := len(k) == 61+sz && bytes.Equal(k[61:], raw[61:61+sz]) && bytes.Equal(k[0:8], raw[0:8]) && bytes.Equal(k[12:17], raw[12:17]) &&
			bytes.Equal(k[21:23], raw[21:23]) && bytes.Equal(k[27:35], raw[27:35]) && bytes.Equal(k[43:57], raw[43:57])
		if !okHdr || int(binary.BigEndian.Uint32(k[8:12])) != len(k)-12 || int(binary.BigEndian.Uint32(k[23:27])) != w.n-1 ||
			int64(binary.BigEndian.Uint64(k[35:43])) != maxTs || int(binary.BigEndian.Uint32(k[57:61])) != w.n ||
			binary.BigEndian.Uint32(k[17:21]) != crc32.Checksum(k[21:], castag) {
			return fmt.Sprintf("cutoff %d: batch %d truncated to %d records has an inconsistent header/body", cutoff, w.batch, w.n)
		}
	}
	return ""
}

// c07Encode: kmsg encoding of one batch (independent of the repo's code).
func c07Encode(b c07Batch) []byte {
	var recs []byte
	maxTs := b.FirstTs
	for _, r := range b.Recs {
		kr := kmsg.Record{Attributes: r.Attr, TimestampDelta64: r.TsDelta, OffsetDelta: r.OffDelta, Key: r.Key, Value: r.Val}
		for _, h := range r.Hdrs {
			kr.Headers = append(kr.Headers, kmsg.Header{Key: h.K, Value: h.V})
		}
		kr.Length = 0
		tmp := kr.AppendTo(nil)
		kr.Length = int32(len(tmp) - 1) // the zero length took one byte
		recs = kr.AppendTo(recs)
		if ts := b.FirstTs + r.TsDelta; ts > maxTs {
			maxTs = ts
		}
	}
	rb := kmsg.RecordBatch{FirstOffset: b.Base, PartitionLeaderEpoch: 3, Magic: 2, Attributes: 0,
		LastOffsetDelta: b.Recs[len(b.Recs)-1].OffDelta, FirstTimestamp: b.FirstTs, MaxTimestamp: maxTs,
		ProducerID: -1, ProducerEpoch: -1, FirstSequence: -1, NumRecords: int32(len(b.Recs)), Records: recs}
	raw := rb.AppendTo(nil)
	binary.BigEndian.PutUint32(raw[8:12], uint32(len(raw)-12))
	binary.BigEndian.PutUint32(raw[17:21], crc32.Checksum(raw[21:], crc32.MakeTable(crc32.Castagnoli)))
	return raw
}

// c07SpecTerm renders the batch as a lib/Kafka.v [kbatch] term (same field values as c07Encode).
func c07SpecTerm(b c07Batch) string {
	recs := make([]string, len(b.Recs))
	maxTs := b.FirstTs
	for i, r := range b.Recs {
		hs := make([]string, len(r.Hdrs))
		for j, h := range r.Hdrs {
			hs[j] = "(" + cqStr(h.K) + ", " + cqOB(h.V) + ")"
		}
		recs[i] = fmt.Sprintf("mkKRec %s %s %s %s %s %s", cqZ(int64(r.Attr)), cqZ(r.TsDelta), cqZ(int64(r.OffDelta)), cqOB(r.Key), cqOB(r.Val), cqList(hs))
		if ts := b.FirstTs + r.TsDelta; ts > maxTs {
			maxTs = ts
		}
	}
	return fmt.Sprintf("(mkKBatch %s 3 0 %s %s %s (-1) (-1) (-1) %s)", cqZ(b.Base), cqZ(int64(b.Recs[len(b.Recs)-1].OffDelta)), cqZ(b.FirstTs), cqZ(maxTs), cqList(recs))
}

func c07Want(cs c07Case) ([]vdRec, int64) {
	var out []vdRec
	var maxAbs int64
	for _, b := range cs.Batches {
		for _, r := range b.Recs {
			w := vdRec{Off: b.Base + int64(r.OffDelta), Ts: b.FirstTs + r.TsDelta, Key: r.Key, Val: r.Val}
			for _, h := range r.Hdrs {
				w.Hdrs = append(w.Hdrs, vdHdr{K: h.K, V: h.V})
			}
			out = append(out, w)
			a := r.TsDelta
			if a < 0 {
				a = -a
			}
			if a > maxAbs {
				maxAbs = a
			}
		}
	}
	return out, maxAbs
}

func vdZeroCRC(b []byte) []byte {
	c := append([]byte(nil), b...)
	if len(c) >= 21 {
		copy(c[17:21], []byte{0, 0, 0, 0})
	}
	return c
}

func vdPitrObs(seg []byte, cutoff int64) (string, []RecordBatch, error) {
	bs, err := collectRecoverableBatches(seg, cutoff)
	if err != nil {
		return "(OErr " + vdErrClass(err) + ")", nil, err
	}
	l := make([][]byte, len(bs))
	for i, b := range bs {
		l[i] = vdZeroCRC(b.Bytes)
	}
	return "(OBatches " + cqBytesList(l) + ")", bs, nil
}

func vdScan(recs []byte, n int) (string, [][2]int64, error) {
	rd := bytes.NewReader(recs)
	var out [][2]int64
	for i := 0; i < n; i++ {
		ts, od, err := scanRecord(rd)
		if err != nil {
			return "(OErr " + vdErrClass(err) + ")", nil, err
		}
		out = append(out, [2]int64{ts, int64(od)})
	}
	return "(OPairs " + cqPairs(out) + ")", out, nil
}

func vdIndexObs(data []byte) (string, [][2]int64, error) {
	es, err := ParseIndex(data)
	if err != nil {
		return "(OErr " + vdErrClass(err) + ")", nil, err
	}
	out := make([][2]int64, len(es))
	for i, e := range es {
		out[i] = [2]int64{e.Offset, int64(e.Position)}
	}
	return "(OPairs " + cqPairs(out) + ")", out, nil
}

// c07Build runs the real writer; returns artifact, batch bytes.
func c07Build(cs c07Case) (*SegmentArtifact, [][]byte, error) {
	var raws [][]byte
	var rbs []RecordBatch
	for _, b := range cs.Batches {
		raw := c07Encode(b)
		rb, err := NewRecordBatchFromBytes(raw)
		if err != nil {
			return nil, nil, err
		}
		raws = append(raws, raw)
		rbs = append(rbs, rb)
	}
	art, err := BuildSegment(SegmentWriterConfig{IndexIntervalMessages: cs.Interval}, rbs, time.UnixMilli(cs.Created))
	return art, raws, err
}

func c07Corpus() []c07Case {
	k := []byte("k")
	return []c07Case{
		// C07 witness: two records 30 days apart (SQL decoder read the delta as a 32-bit varint)
		{Interval: 1, Created: 1700000000000, Batches: []c07Batch{{Base: 0, FirstTs: 1700000000000, Recs: []c07Rec{{Key: k, Val: []byte("a")}, {TsDelta: 2592000000, OffDelta: 1, Key: k, Val: []byte("b")}}}}},
		// zig-zag with arithmetic shift: |delta| >= 2^30
		{Interval: 1, Created: 1700000000000, Batches: []c07Batch{{Base: 7, FirstTs: 1700000000000, Recs: []c07Rec{{TsDelta: 1 << 30, Key: k, Val: []byte("a")}, {TsDelta: -(1 << 30) - 1, OffDelta: 1, Val: []byte("b")}, {TsDelta: 1<<30 - 1, OffDelta: 2, Val: []byte("c")}}}}},
		// null key, empty value, header with null value
		{Interval: 0, Created: 1700000000001, Batches: []c07Batch{{Base: 100, FirstTs: 1700000000000, Recs: []c07Rec{{Key: nil, Val: []byte{}, Hdrs: []c07Hdr{{K: "h", V: nil}, {K: "", V: []byte{}}}}}}}},
		// cut-off boundary: later batches lie at or before the first batch's max timestamp
		{Interval: 1, Created: 1700000000003, Batches: []c07Batch{
			{Base: 0, FirstTs: 1700000000100, Recs: []c07Rec{{Val: []byte("a")}, {TsDelta: 50, OffDelta: 1, Val: []byte("b")}}},
			{Base: 2, FirstTs: 1700000000120, Recs: []c07Rec{{Val: []byte("c")}, {TsDelta: 30, OffDelta: 1, Val: []byte("d")}}},
			{Base: 4, FirstTs: 1700000000090, Recs: []c07Rec{{Val: []byte("e")}, {TsDelta: 70, OffDelta: 1, Val: []byte("f")}}}}},
		// three batches, interval 1, negative delta
		{Interval: 1, Created: 1700000000002, Batches: []c07Batch{
			{Base: 10, FirstTs: 1700000000000, Recs: []c07Rec{{Val: []byte("x")}, {TsDelta: -5, OffDelta: 1, Val: []byte("y")}}},
			{Base: 12, FirstTs: 1700000000100, Recs: []c07Rec{{Val: []byte("z"), Hdrs: []c07Hdr{{K: "a", V: []byte("b")}}}}},
			{Base: 13, FirstTs: 1700000000200, Recs: []c07Rec{{Key: []byte{}, Val: nil}}}}},
	}
}

func TestVerifC07Storage(t *testing.T) {
	rep := vNewReport("C07", "generated well-formed uncompressed record batches (1-4 batches, 1-40 records, null/empty/short/200-300 byte keys and values, 0-3 headers with null/empty values, timestamp deltas incl. negative, +-2^30, +-2^31, 30 days, +-2^34, random up to +-2^61) encoded by franz-go kmsg, serialized by the real BuildSegment; non-trivial = >= 2 batches, >= 1 header, >= 1 null field; distinct = distinct canonical case")
	var coq, jsons []string
	var inputs []vdInput
	castag := crc32.MakeTable(crc32.Castagnoli)
	runOne := func(cs c07Case, class string) {
		canon, _ := json.Marshal(cs)
		fail := func(key, what string) { rep.Fail(key, key, what, cs) }
		art, raws, err := c07Build(cs)
		if err != nil {
			fail("segment-layout", "BuildSegment failed on well-formed batches: "+err.Error())
			return
		}
		seg := art.SegmentBytes
		body := bytes.Join(raws, nil)
		want, maxAbs := c07Want(cs)
		// --- oracle: segment layout
		total := 0
		for _, b := range cs.Batches {
			total += len(b.Recs)
		}
		lastB := cs.Batches[len(cs.Batches)-1]
		lastOff := lastB.Base + int64(lastB.Recs[len(lastB.Recs)-1].OffDelta)
		ok := len(seg) == 32+len(body)+16 && string(seg[:4]) == "KAFS" && binary.BigEndian.Uint16(seg[4:6]) == 1 &&
			int64(binary.BigEndian.Uint64(seg[8:16])) == cs.Batches[0].Base && int(binary.BigEndian.Uint32(seg[16:20])) == total &&
			int64(binary.BigEndian.Uint64(seg[20:28])) == cs.Created && bytes.Equal(seg[32:32+len(body)], body)
		if ok {
			ft := seg[len(seg)-16:]
			ok = binary.BigEndian.Uint32(ft[0:4]) == crc32.Checksum(body, castag) && int64(binary.BigEndian.Uint64(ft[4:12])) == lastOff && string(ft[12:]) == "END!"
		}
		if !ok {
			fail("segment-layout", "segment header/body/footer do not match the produced batches")
		}
		// --- oracle: index
		idxObs, entries, ierr := vdIndexObs(art.IndexBytes)
		starts := map[int64]int64{}
		pos := int64(32)
		for i, b := range cs.Batches {
			starts[pos] = b.Base
			pos += int64(len(raws[i]))
		}
		if ierr != nil || len(entries) == 0 {
			fail("index-entries", fmt.Sprintf("ParseIndex failed or empty: %v", ierr))
		}
		for i, e := range entries {
			if b, found := starts[e[1]]; !found || b != e[0] {
				fail("index-entries", fmt.Sprintf("entry %d (offset %d, position %d) is not the start of a batch with that base offset", i, e[0], e[1]))
			}
			if i > 0 && (entries[i-1][0] >= e[0] || entries[i-1][1] >= e[1]) {
				fail("index-entries", fmt.Sprintf("entries %d,%d not strictly increasing", i-1, i))
			}
		}
		// --- oracle: PITR scanner recovers every batch / every (tsDelta, offsetDelta)
		pObs, kept, perr := vdPitrObs(seg, math.MaxInt64)
		if perr != nil || len(kept) != len(raws) {
			fail("pitr-roundtrip", fmt.Sprintf("collectRecoverableBatches(MaxInt64): %d of %d batches, err=%v", len(kept), len(raws), perr))
		} else {
			for i := range kept {
				if !bytes.Equal(kept[i].Bytes, raws[i]) || kept[i].BaseOffset != cs.Batches[i].Base || int(kept[i].MessageCount) != len(cs.Batches[i].Recs) {
					fail("pitr-roundtrip", fmt.Sprintf("batch %d differs after collectRecoverableBatches", i))
				}
			}
		}
		coq = append(coq, fmt.Sprintf("CBuild %s %s %s true %s %s", cqZ(int64(cs.Interval)), cqZ(cs.Created), cqBytesList(raws), cqBytes(vdZeroFooter(seg)), cqBytes(art.IndexBytes)))
		jsons = append(jsons, string(canon))
		coq = append(coq, fmt.Sprintf("CDecode KPitr %s %s %s", cqBytes(seg), cqZ(math.MaxInt64), pObs))
		jsons = append(jsons, string(canon))
		coq = append(coq, fmt.Sprintf("CDecode KIdxStorage %s 0 %s", cqBytes(art.IndexBytes), idxObs))
		jsons = append(jsons, string(canon))
		for i, b := range cs.Batches {
			// spec encoder (lib/Kafka.v) == kmsg, byte for byte
			coq = append(coq, fmt.Sprintf("CSpec %s %s", c07SpecTerm(b), cqBytes(raws[i])))
			jsons = append(jsons, string(canon))
			sObs, pairs, serr := vdScan(raws[i][61:], len(b.Recs))
			bad := serr != nil || len(pairs) != len(b.Recs)
			for j := 0; !bad && j < len(pairs); j++ {
				bad = pairs[j][0] != b.Recs[j].TsDelta || pairs[j][1] != int64(b.Recs[j].OffDelta)
			}
			if bad {
				fail("pitr-scan", fmt.Sprintf("scanRecord over batch %d returned %v (err %v), produced deltas differ", i, pairs, serr))
			}
			if i == 0 {
				coq = append(coq, fmt.Sprintf("CDecode KScan %s %d %s", cqBytes(raws[i][61:]), len(b.Recs), sObs))
				jsons = append(jsons, string(canon))
			}
		}
		// cut-offs on the data: model comparison of the truncation path + the scanner contract
		r := vNewRand(uint64(len(canon)) + uint64(cs.Created))
		var cuts []int64
		if class == "boundary" || class == "corpus" || class == "replay" {
			cuts = c07Cutoffs(cs)
			if vTier() == "quick" && len(cuts) > 10 {
				cuts = cuts[:10]
			}
		} else {
			wi := want[r.Intn(len(want))]
			cuts = []int64{wi.Ts, wi.Ts - 1}
			if vTier() == "quick" {
				cuts = cuts[len(canon)%2 : 1+len(canon)%2]
			}
		}
		consistent := c07Consistent(cs)
		for _, cut := range cuts {
			obs, keptC, cerr := vdPitrObs(seg, cut)
			if consistent {
				if dev := c07PitrContract(cs, raws, cut, keptC, cerr); dev != "" {
					fail("pitr-cutoff", "collectRecoverableBatches: "+dev)
				}
				rep.Hist("pitr-contract-checked")
			}
			coq = append(coq, fmt.Sprintf("CDecode KPitr %s %s %s", cqBytes(seg), cqZ(cut), obs))
			jsons = append(jsons, string(canon))
		}
		// tags
		nulls, hdrs, neg, big := false, false, false, false
		for _, b := range cs.Batches {
			for _, rc := range b.Recs {
				nulls = nulls || rc.Key == nil || rc.Val == nil
				hdrs = hdrs || len(rc.Hdrs) > 0
				neg = neg || rc.TsDelta < 0
				big = big || rc.TsDelta >= 1<<30 || rc.TsDelta <= -(1<<30)
			}
		}
		for k, v := range map[string]bool{"null-field": nulls, "headers": hdrs, "neg-ts-delta": neg, "|ts-delta|>=2^30": big} {
			if v {
				rep.Hist(k)
			}
		}
		rep.Hist(fmt.Sprintf("batches=%d", len(cs.Batches)))
		rep.Hist("class=" + class)
		rep.Count(string(canon), len(cs.Batches) >= 2 && hdrs && nulls)
		rep.Sample(cs)
		inputs = append(inputs, vdInput{ID: len(inputs), Class: class, Kind: "segment", Data: seg, Index: art.IndexBytes, Entries: entries, Want: want, MaxAbs: maxAbs, Case: cs})
	}
	if rc := vReplayCase(); rc != nil {
		var cs c07Case
		if err := json.Unmarshal(rc, &cs); err != nil || len(cs.Batches) == 0 {
			t.Fatalf("bad replay: %v", err)
		}
		runOne(cs, "replay")
	} else {
		for _, cs := range c07Corpus() {
			runOne(cs, "corpus")
		}
		r := vNewRand(vSeed())
		n := vN(30, 700)
		for i := 0; i < n; i++ {
			runOne(c07Gen(r.Fork()), "generated")
		}
		nb := vN(15, 400)
		for i := 0; i < nb; i++ {
			runOne(c07GenBoundary(r.Fork()), "boundary")
		}
	}
	b, _ := json.Marshal(inputs)
	if err := os.WriteFile(filepath.Join(vOutDir(), "c07_inputs.json"), b, 0o644); err != nil {
		t.Fatal(err)
	}
	rep.Cases("C07_storage", vdRequires, "case", "check_case", coq, jsons)
	rep.WriteAs("C07_storage")
	if len(rep.Failures) > 0 {
		t.Logf("oracle failures: %s", rep.Failures[0].What)
	}
}

func vdZeroFooter(seg []byte) []byte {
	c := append([]byte(nil), seg...)
	if len(c) >= 48 {
		copy(c[len(c)-16:len(c)-12], []byte{0, 0, 0, 0})
	}
	return c
}

// ---------- C34 generator ----------
type c34Case struct {
	Class string `json:"class"`
	Kind  string `json:"kind"`
	Data  []byte `json:"data"`
}

// ---------- hostile INTERNAL framing of a broker-acceptable record set ----------
// The broker checks a produced record set only as a whole (>= 61 bytes, non-negative
// lastOffsetDelta, NewRecordBatchFromBytes); the batchLength fields inside are the client's.
// These builders make one record set out of several frames of mixed validity and push it
// through the real NewRecordBatchFromBytes + BuildSegment.
func c34ValidFrame(r *vRand, base int64, ts int64) []byte {
	n := r.Range(1, 3)
	var recs []byte
	for i := 0; i < n; i++ {
		body := append([]byte{0}, vdVarint(int64(r.Intn(40)))...)
		body = append(body, vdVarint(int64(i))...)
		body = append(body, vdVarint(-1)...)
		v := r.Bytes(r.Range(0, 5))
		body = append(body, vdVarint(int64(len(v)))...)
		body = append(body, v...)
		body = append(body, 0)
		recs = append(recs, vdVarint(int64(len(body)))...)
		recs = append(recs, body...)
	}
	return c34RawBatch(base, uint32(n), ts, ts+40, recs)
}

func c34TinyFrame(r *vRand, declared int, payload int) []byte {
	f := make([]byte, 12, 12+payload)
	binary.BigEndian.PutUint64(f[0:8], uint64(r.Intn(1000)))
	binary.BigEndian.PutUint32(f[8:12], uint32(declared))
	return append(f, r.Bytes(payload)...)
}

func c34FramingSet(r *vRand, variant int) []byte {
	ts := int64(1700000000000) + int64(r.Intn(1000))
	first := c34ValidFrame(r, 10, ts)
	set := append([]byte(nil), first...)
	switch variant {
	case 0: // first frame's batchLength points at a short/odd remainder
		set = append(set, c34ValidFrame(r, 20, ts+100)...)
		binary.BigEndian.PutUint32(set[8:12], uint32(r.Range(1, 60)))
	case 1: // tiny trailing frame directly before the footer
		k := r.Range(1, 14)
		set = append(set, c34TinyFrame(r, k, k)...)
	case 2: // short frame in the middle, valid frames around it
		k := r.Range(1, 48)
		set = append(set, c34TinyFrame(r, k, k)...)
		set = append(set, c34ValidFrame(r, 30, ts+r64(r, -200, 200))...)
	case 3: // batchLength 0 / negative / huge in a later frame
		f := c34ValidFrame(r, 20, ts+50)
		binary.BigEndian.PutUint32(f[8:12], []uint32{0, 0xffffffff, 0x80000000, 0x7fffffff, uint32(len(f) + 1000)}[r.Intn(5)])
		set = append(set, f...)
		set = append(set, c34ValidFrame(r, 30, ts+100)...)
	case 4: // overlapping frames: declared length shorter / longer than the frame
		f := c34ValidFrame(r, 20, ts+50)
		d := int(binary.BigEndian.Uint32(f[8:12])) + r.Range(-30, 30)
		if d < 1 {
			d = 1
		}
		binary.BigEndian.PutUint32(f[8:12], uint32(d))
		set = append(set, f...)
		set = append(set, c34ValidFrame(r, 30, ts+100)...)
	case 5: // declared length a little beyond the end of the body
		k := r.Range(1, 30)
		set = append(set, c34TinyFrame(r, k+r.Range(1, 20), k)...)
	default: // several frames of mixed validity
		for i, n := 0, r.Range(2, 5); i < n; i++ {
			switch r.Intn(4) {
			case 0:
				k := r.Range(1, 60)
				set = append(set, c34TinyFrame(r, k, k)...)
			case 1:
				set = append(set, c34TinyFrame(r, r.Range(0, 80), r.Range(0, 30))...)
			default:
				set = append(set, c34ValidFrame(r, int64(20+10*i), ts+r64(r, -300, 300))...)
			}
		}
	}
	return set
}

func r64(r *vRand, lo, hi int) int64 { return int64(r.Range(lo, hi)) }

// c34FramingSegment: the record set goes through the broker's own functions.
func c34FramingSegment(set []byte) []byte {
	rb, err := NewRecordBatchFromBytes(set)
	if err != nil {
		return nil
	}
	art, err := BuildSegment(SegmentWriterConfig{IndexIntervalMessages: 1}, []RecordBatch{rb}, time.UnixMilli(1700000000000))
	if err != nil {
		return nil
	}
	return art.SegmentBytes
}

// c34FrameCutoffs walks the body the way the scanner does and returns cut-offs before /
// inside / after every frame whose timestamps can be read.
func c34FrameCutoffs(seg []byte) []int64 {
	out := []int64{math.MaxInt64, math.MinInt64}
	seen := map[int64]bool{}
	if len(seg) < 48 {
		return out
	}
	body := seg[32 : len(seg)-16]
	for off, guard := 0, 0; off+12 <= len(body) && guard < 8; guard++ {
		if off+43 <= len(body) {
			f := int64(binary.BigEndian.Uint64(body[off+27 : off+35]))
			m := int64(binary.BigEndian.Uint64(body[off+35 : off+43]))
			for _, c := range []int64{f - 1, f, m - 1, m, m + 1, (f + m) / 2} {
				if !seen[c] {
					seen[c] = true
					out = append(out, c)
				}
			}
		}
		bl := int(binary.BigEndian.Uint32(body[off+8 : off+12]))
		if bl <= 0 || off+12+bl > len(body) {
			break
		}
		off += 12 + bl
	}
	return out
}

func vdVarint(v int64) []byte {
	u := uint64(v<<1) ^ uint64(v>>63)
	var out []byte
	for u >= 0x80 {
		out = append(out, byte(u)|0x80)
		u >>= 7
	}
	return append(out, byte(u))
}

var c34Hostile = [][]byte{vdVarint(-1), vdVarint(-2), vdVarint(1<<31 - 1), vdVarint(1 << 40), vdVarint(1 << 62), vdVarint(math.MinInt64), vdVarint(math.MaxInt64),
	bytes.Repeat([]byte{0xff}, 10), bytes.Repeat([]byte{0xff}, 11), {0xff, 0xff, 0xff, 0xff, 0x0f}, {0xff, 0xff, 0xff, 0xff, 0x07}, {0x80, 0x80, 0x80, 0x80, 0x80, 0x01}}

// c34RawBatch: a batch header the broker would accept around arbitrary record bytes.
func c34RawBatch(base int64, count uint32, firstTs, maxTs int64, recs []byte) []byte {
	b := make([]byte, 61, 61+len(recs))
	binary.BigEndian.PutUint64(b[0:8], uint64(base))
	binary.BigEndian.PutUint32(b[8:12], uint32(49+len(recs)))
	b[16] = 2
	binary.BigEndian.PutUint32(b[23:27], count-1)
	binary.BigEndian.PutUint64(b[27:35], uint64(firstTs))
	binary.BigEndian.PutUint64(b[35:43], uint64(maxTs))
	binary.BigEndian.PutUint32(b[57:61], count)
	b = append(b, recs...)
	binary.BigEndian.PutUint32(b[17:21], crc32.Checksum(b[21:], crc32.MakeTable(crc32.Castagnoli)))
	return b
}

func c34Segment(batches ...[]byte) []byte {
	var rbs []RecordBatch
	for _, raw := range batches {
		rb, err := NewRecordBatchFromBytes(raw)
		if err != nil {
			return nil
		}
		rbs = append(rbs, rb)
	}
	art, err := BuildSegment(SegmentWriterConfig{IndexIntervalMessages: 1}, rbs, time.UnixMilli(1700000000000))
	if err != nil {
		return nil
	}
	return art.SegmentBytes
}

// hostile record body: attr | tsDelta | offDelta | key | value | headerCount | headers...
func c34HostileRecord(r *vRand) []byte {
	pick := func() []byte { return c34Hostile[r.Intn(len(c34Hostile))] }
	sane := func(v int64) []byte { return vdVarint(v) }
	body := []byte{0}
	fields := [][]byte{sane(int64(r.Intn(100))), sane(0), sane(-1), sane(-1), sane(0)}
	fields[r.Intn(len(fields))] = pick()
	if r.Chance(30) {
		fields[r.Intn(len(fields))] = pick()
	}
	for _, f := range fields {
		body = append(body, f...)
	}
	if r.Chance(40) {
		body = append(body, pick()...)
		body = append(body, r.Bytes(r.Intn(6))...)
	}
	var rec []byte
	if r.Chance(25) {
		rec = append(rec, pick()...)
	} else {
		rec = append(rec, vdVarint(int64(len(body)))...)
	}
	return append(rec, body...)
}

func c34Index(count uint32, entries int) []byte {
	b := []byte("IDX\x00")
	b = binary.BigEndian.AppendUint16(b, 1)
	b = binary.BigEndian.AppendUint32(b, count)
	b = binary.BigEndian.AppendUint32(b, 1)
	b = binary.BigEndian.AppendUint16(b, 0)
	for i := 0; i < entries; i++ {
		b = binary.BigEndian.AppendUint64(b, uint64(i*10))
		b = binary.BigEndian.AppendUint32(b, uint32(32+i*100))
	}
	return b
}

func c34Corpus() []c34Case {
	ts := int64(1700000000000)
	seg := func(count uint32, recs []byte) []byte { return c34Segment(c34RawBatch(0, count, ts, ts+10, recs)) }
	hdrMinus1 := []byte{12, 0, 0, 0, 1, 1, 1}
	keyHuge := append(append([]byte{24, 0, 0, 0}, vdVarint(1<<31-1)...), 1, 0, 0, 0, 0)
	keyHuge40 := append(append([]byte{24, 0, 0, 0}, vdVarint(1<<40)...), 1, 0, 0, 0, 0)
	hdrHuge := append([]byte{24, 0, 0, 0, 1, 1}, append(vdVarint(1<<31-1), 0, 0, 0, 0, 0)...)
	hdrMid := append([]byte{24, 0, 0, 0, 1, 1}, append(vdVarint(1<<26), 0, 0, 0, 0, 0)...)
	return []c34Case{
		{"corpus-valid-record", "segment", seg(1, []byte{20, 0, 4, 0, 1, 0, 2, 2, 107, 2, 118})},
		{"corpus-framing-tiny-trailing-frame", "segment", c34FramingSegment(c34FramingSet(vNewRand(11), 1))},
		{"corpus-framing-short-middle-frame", "segment", c34FramingSegment(c34FramingSet(vNewRand(12), 2))},
		{"corpus-framing-first-length-short", "segment", c34FramingSegment(c34FramingSet(vNewRand(13), 0))},
		{"corpus-framing-declared-beyond-end", "segment", c34FramingSegment(c34FramingSet(vNewRand(14), 5))},
		{"corpus-hdr-count-minus1", "segment", seg(1, hdrMinus1)},
		{"corpus-index-count-minus1", "index", c34Index(0xffffffff, 0)},
		{"corpus-record-count-2^24", "segment", seg(1<<24, hdrMinus1)},
		{"corpus-record-len-2^27", "segment", seg(1, append(vdVarint(1<<27), 0, 0, 0, 1, 1, 0))},
		{"corpus-hdr-count-2^26", "segment", seg(1, hdrMid)},
		{"corpus-index-count-2^24", "index", c34Index(1<<24, 2)},
		// the following can end an UNPATCHED decoder process with a fatal out-of-memory error
		{"corpus-key-len-maxint32", "segment", seg(1, keyHuge)},
		{"corpus-hdr-count-maxint32", "segment", seg(1, hdrHuge)},
		{"corpus-index-count-maxint32", "index", c34Index(0x7fffffff, 1)},
		{"corpus-record-len-2^40", "segment", seg(1, append(vdVarint(1<<40), 0, 0, 0, 1, 1, 0))},
		{"corpus-key-len-2^40", "segment", seg(1, keyHuge40)},
		{"corpus-record-count-maxint32", "segment", seg(0x7fffffff, hdrMinus1)},
	}
}

// c34Sweep: deterministic sweep - every length/count varint field of a well-formed record
// (record length, timestamp delta, offset delta, key length, value length, header count, each
// header's key length and value length), one at a time, replaced by each of
// {-1, -2, -7, -2^31, -2^62, 0, original+1, 2^31-1, 2^62}; the enclosing record length is
// recomputed so the decoder reaches the field. Plus the batch-level int32 fields numRecords
// and batchLength. The first record of a 2-record batch is the hostile one. Every segment
// goes through NewRecordBatchFromBytes + BuildSegment. Runs in the quick tier.
func c34Sweep() []c34Case {
	ts := int64(1700000000000)
	key, val := []byte("key"), []byte("value")
	hk := [][]byte{[]byte("hk1"), []byte("h2")}
	hv := [][]byte{[]byte("hv1"), []byte("x")}
	names := []string{"record-length", "ts-delta", "offset-delta", "key-length", "value-length", "header-count",
		"header1-key-length", "header1-value-length", "header2-key-length", "header2-value-length"}
	orig := []int64{0, 5, 0, int64(len(key)), int64(len(val)), 2, int64(len(hk[0])), int64(len(hv[0])), int64(len(hk[1])), int64(len(hv[1]))}
	build := func(idx int, v int64) []byte {
		f := append([]int64(nil), orig...)
		if idx > 0 {
			f[idx] = v
		}
		body := []byte{0}
		body = append(body, vdVarint(f[1])...)
		body = append(body, vdVarint(f[2])...)
		body = append(append(body, vdVarint(f[3])...), key...)
		body = append(append(body, vdVarint(f[4])...), val...)
		body = append(body, vdVarint(f[5])...)
		for h := 0; h < 2; h++ {
			body = append(append(body, vdVarint(f[6+2*h])...), hk[h]...)
			body = append(append(body, vdVarint(f[7+2*h])...), hv[h]...)
		}
		l := int64(len(body))
		if idx == 0 {
			if v == 1<<60 { // marker for "original+1"
				l++
			} else {
				l = v
			}
		}
		return append(vdVarint(l), body...)
	}
	valid := build(-1, 0)
	values := []int64{-1, -2, -7, -(1 << 31), -(1 << 62), 0, 1 << 60 /* original+1 */, 1<<31 - 1, 1 << 62}
	var out []c34Case
	for idx, name := range names {
		for _, v := range values {
			vv, label := v, fmt.Sprint(v)
			if v == 1<<60 {
				label = "orig+1"
				if idx > 0 {
					vv = orig[idx] + 1
				}
			}
			recs := append(build(idx, vv), valid...)
			out = append(out, c34Case{"sweep-" + name + "=" + label, "segment", c34Segment(c34RawBatch(5, 2, ts, ts+10, recs))})
		}
	}
	// batch-level int32 fields
	recs := append(append([]byte(nil), valid...), valid...)
	for _, fld := range []struct {
		name string
		off  int
	}{{"num-records", 57}, {"batch-length", 8}} {
		raw0 := c34RawBatch(5, 2, ts, ts+10, recs)
		o := int64(int32(binary.BigEndian.Uint32(raw0[fld.off : fld.off+4])))
		for _, v := range []int64{-1, -2, -7, -(1 << 31), 0, o + 1, 1<<31 - 1} {
			raw := append([]byte(nil), raw0...)
			binary.BigEndian.PutUint32(raw[fld.off:fld.off+4], uint32(int32(v)))
			out = append(out, c34Case{fmt.Sprintf("sweep-%s=%d", fld.name, v), "segment", c34Segment(raw, c34ValidFrame(vNewRand(7), 20, ts+5))})
		}
	}
	return out
}

func c34Gen(r *vRand) c34Case {
	ts := int64(1700000000000)
	valid := func() []byte {
		art, _, err := c07Build(c07Gen(r.Fork()))
		if err != nil {
			return nil
		}
		return art.SegmentBytes
	}
	switch r.Intn(16) {
	case 12, 13, 14, 15:
		v := r.Intn(8)
		return c34Case{fmt.Sprintf("broker-written-hostile-framing-%d", v), "segment", c34FramingSegment(c34FramingSet(r, v))}
	case 0:
		return c34Case{"random", "segment", r.Bytes(r.Intn(200))}
	case 1:
		b := append([]byte("KAFS"), r.Bytes(28+r.Intn(150)+16)...)
		return c34Case{"magic+random", "segment", b}
	case 2, 3, 4:
		s := valid()
		for k := r.Range(1, 4); k > 0 && len(s) > 0; k-- {
			p := r.Intn(len(s))
			if r.Chance(50) {
				s[p] = byte(r.U64())
			} else {
				h := c34Hostile[r.Intn(len(c34Hostile))]
				copy(s[p:], h)
			}
		}
		return c34Case{"valid-mutated", "segment", s}
	case 5:
		s := valid()
		if len(s) > 0 {
			s = s[:r.Intn(len(s))]
		}
		return c34Case{"valid-truncated", "segment", s}
	case 6:
		s := valid()
		if len(s) >= 32+61+16 {
			v := []uint32{0x7fffffff, 0xffffffff, 0, 1 << 20, 1000}[r.Intn(5)]
			off := 32 + []int{57, 8}[r.Intn(2)]
			binary.BigEndian.PutUint32(s[off:off+4], v)
		}
		return c34Case{"valid-count/length-overwritten", "segment", s}
	case 7, 8:
		var recs []byte
		n := r.Range(1, 5)
		for i := 0; i < n; i++ {
			recs = append(recs, c34HostileRecord(r)...)
		}
		return c34Case{"broker-written-hostile-records", "segment", c34Segment(c34RawBatch(int64(r.Intn(1000)), uint32(n), ts, ts+1000, recs))}
	case 9:
		n := r.Range(1, 5)
		return c34Case{"broker-written-random-records", "segment", c34Segment(c34RawBatch(int64(r.Intn(1000)), uint32(n), ts, ts+1000, r.Bytes(r.Range(1, 120))))}
	case 10:
		n := r.Intn(6)
		cnt := []uint32{uint32(n), uint32(n + 1), 0xffffffff, 0x7fffffff, 0x80000000, uint32(n + 100)}[r.Intn(6)]
		b := c34Index(cnt, n)
		if r.Chance(30) && len(b) > 0 {
			b[r.Intn(len(b))] = byte(r.U64())
		}
		if r.Chance(20) {
			b = b[:r.Intn(len(b)+1)]
		}
		return c34Case{"index-crafted", "index", b}
	default:
		return c34Case{"index-random", "index", append([]byte("IDX\x00"), r.Bytes(r.Intn(60))...)}
	}
}

func TestVerifC34Storage(t *testing.T) {
	rep := vNewReport("C34", fmt.Sprintf("arbitrary bytes, mutated valid segments, broker-written segments whose record bodies are hostile/arbitrary client bytes, crafted index files, run through the real collectRecoverableBatches (3 cutoffs) and ParseIndex under recover(); oracle: no panic, bytes allocated (runtime.MemStats.TotalAlloc delta) <= %d*len(input)+%d, no call slower than 5s; non-trivial = input passes the size/magic checks", vdAllocC, vdAllocSlack))
	rep.CaseFiles = []string{} // partial reports written before Cases() must stay well-formed
	var coq, jsons []string
	var inputs []vdInput
	runOne := func(cs c34Case) {
		canon, _ := json.Marshal(cs)
		id := len(inputs)
		inputs = append(inputs, vdInput{ID: id, Class: cs.Class, Kind: cs.Kind, Data: cs.Data, Case: cs})
		rep.Hist("class=" + vdClassKey(cs.Class))
		emitIdx := 0
		check := func(name, kind, obs, pan string, alloc uint64, dur time.Duration, cutoff int64) {
			if pan != "" {
				obs = "OPanic"
				rep.Fail("no-panic", "panic-"+name+"-"+vdPanicSite(pan), fmt.Sprintf("%s panicked on a %d-byte input (%s): %s", name, len(cs.Data), cs.Class, pan), cs)
				rep.WriteAs("C34_storage")
			}
			if alloc > uint64(vdAllocC*len(cs.Data)+vdAllocSlack) {
				rep.Fail("alloc-bounded", "alloc-unbounded-"+name, fmt.Sprintf("%s allocated %d bytes for a %d-byte input (%s)", name, alloc, len(cs.Data), cs.Class), cs)
				rep.WriteAs("C34_storage")
			}
			if dur > 5*time.Second {
				rep.Fail("terminates", "timeout-"+name, fmt.Sprintf("%s took %v on a %d-byte input", name, dur, len(cs.Data)), cs)
			}
			if strings.Contains(obs, "UNMAPPED") {
				rep.Fail("harness", "unmapped-error", obs, cs)
				obs = "(OErr EFuel)"
			}
			out := "ok"
			if strings.HasPrefix(obs, "(OErr ") {
				out = strings.TrimSuffix(strings.TrimPrefix(obs, "(OErr "), ")")
			} else if obs == "OPanic" {
				out = "panic"
			}
			rep.Hist(name + ":" + out)
			emitIdx++
			if kind == "KPitr" && vTier() == "quick" && (emitIdx-1) != id%3 {
				return // quick tier: one of the three cutoffs per input goes to the Coq comparison
			}
			coq = append(coq, fmt.Sprintf("CDecode %s %s %s %s", kind, cqBytes(cs.Data), cqZ(cutoff), obs))
			jsons = append(jsons, string(canon))
		}
		if cs.Kind == "index" {
			var obs string
			pan, alloc, dur := vdGuard(func() { obs, _, _ = vdIndexObs(cs.Data) })
			check("storage-index", "KIdxStorage", obs, pan, alloc, dur, 0)
			rep.Count(string(canon), len(cs.Data) >= 16 && string(cs.Data[:4]) == "IDX\x00")
			return
		}
		cut := int64(1700000000500)
		if len(cs.Data) >= 32+43 {
			cut = int64(binary.BigEndian.Uint64(cs.Data[32+27:32+35])) + int64(id%7)
		}
		cutoffs := []int64{math.MaxInt64, math.MinInt64, cut}
		framing := strings.Contains(cs.Class, "framing")
		if framing {
			cutoffs = c34FrameCutoffs(cs.Data)
			if vTier() == "quick" && len(cutoffs) > 12 {
				cutoffs = cutoffs[:12]
			}
		}
		for ci, c := range cutoffs {
			var obs string
			pan, alloc, dur := vdGuard(func() { obs, _, _ = vdPitrObs(cs.Data, c) })
			if framing {
				emitIdx = id % 3 // every cut-off of a framing input goes to the Coq comparison
			}
			check("pitr", "KPitr", obs, pan, alloc, dur, c)
			// the restore planner on top of the scanner (oracle only: no panic, bounded allocation)
			if framing || ci == 2 {
				c := c
				if c > 1<<50 || c < -(1<<50) {
					c = cut
				}
				pan2, alloc2, _ := vdGuard(func() {
					_, _ = buildRestorePlan(cs.Data, c34Index(1, 1), time.UnixMilli(c), time.UnixMilli(1700000000000))
				})
				if pan2 != "" {
					rep.Fail("no-panic", "panic-restore-plan-"+vdPanicSite(pan2), fmt.Sprintf("buildRestorePlan panicked on a %d-byte segment (%s), cut-off %d: %s", len(cs.Data), cs.Class, c, pan2), cs)
				}
				if alloc2 > uint64(2*vdAllocC*len(cs.Data)+vdAllocSlack) {
					rep.Fail("alloc-bounded", "alloc-unbounded-restore-plan", fmt.Sprintf("buildRestorePlan allocated %d bytes for a %d-byte segment (%s)", alloc2, len(cs.Data), cs.Class), cs)
				}
				rep.Hist("restore-plan-runs")
			}
		}
		if len(cs.Data) >= 32+61+16 {
			recs := cs.Data[32+61 : len(cs.Data)-16]
			n := int(int32(binary.BigEndian.Uint32(cs.Data[32+57 : 32+61])))
			if n > 64 {
				n = 64
			}
			var obs string
			pan, alloc, dur := vdGuard(func() { obs, _, _ = vdScan(recs, n) })
			if pan == "" && alloc <= uint64(vdAllocC*len(recs)+vdAllocSlack) && !strings.Contains(obs, "UNMAPPED") {
				coq = append(coq, fmt.Sprintf("CDecode KScan %s %s %s", cqBytes(recs), cqZ(int64(n)), obs))
				jsons = append(jsons, string(canon))
			} else {
				check("pitr-scan", "KScan", obs, pan, alloc, dur, int64(n))
			}
		}
		rep.Count(string(canon), len(cs.Data) >= 48 && string(cs.Data[:4]) == "KAFS")
		rep.Sample(map[string]any{"class": cs.Class, "len": len(cs.Data)})
	}
	if rc := vReplayCase(); rc != nil {
		var cs c34Case
		if err := json.Unmarshal(rc, &cs); err != nil || cs.Kind == "" {
			t.Fatalf("bad replay: %v", err)
		}
		runOne(cs)
	} else {
		for _, cs := range c34Corpus() {
			runOne(cs)
		}
		for _, cs := range c34Sweep() {
			runOne(cs)
		}
		r := vNewRand(vSeed())
		n := vN(90, 2500)
		for i := 0; i < n; i++ {
			runOne(c34Gen(r.Fork()))
		}
	}
	b, _ := json.Marshal(inputs)
	if err := os.WriteFile(filepath.Join(vOutDir(), "c34_inputs.json"), b, 0o644); err != nil {
		t.Fatal(err)
	}
	rep.Cases("C34_storage", vdRequires, "case", "check_case", coq, jsons)
	rep.WriteAs("C34_storage")
	if len(rep.Failures) > 0 {
		t.Logf("oracle failures: %s", rep.Failures[0].What)
	}
}
