package decoder

// C07 / C34 harness, processor side: overlaid (with one *_adapter_test.go) into the
// internal/decoder package of each add-on module. Reads the inputs written by the
// storage harness ({VERIF_OUT}/c07_inputs.json, c34_inputs.json), runs the module's REAL
// decoder on every one, evaluates the implementation-side oracle and emits each execution
// as a Coq case for corr/DecodersCorr.v.

import (
	"bytes"
	"context"
	"encoding/json"
	"fmt"
	"os"
	"os/exec"
	"path/filepath"
	"runtime"
	"runtime/debug"
	"strconv"
	"strings"
	"syscall"
	"testing"
	"time"
)

// ---------- shared shapes (duplicated from storage_test.go) ----------
type vdHdr struct {
	K string `json:"k"`
	V []byte `json:"v"`
}
type vdRec struct {
	Off  int64   `json:"off"`
	Ts   int64   `json:"ts"`
	Key  []byte  `json:"key"`
	Val  []byte  `json:"val"`
	Hdrs []vdHdr `json:"hdrs"`
}
type vdInput struct {
	ID      int             `json:"id"`
	Class   string          `json:"class"`
	Kind    string          `json:"kind"`
	Data    []byte          `json:"data"`
	Index   []byte          `json:"index,omitempty"`
	Entries [][2]int64      `json:"entries,omitempty"`
	Want    []vdRec         `json:"want,omitempty"`
	MaxAbs  int64           `json:"max_abs_ts_delta,omitempty"`
	Case    json.RawMessage `json:"case,omitempty"`
}

const vdRequires = "From KS Require Import lib.Base lib.Varint lib.Outcome lib.Kafka model.Decoders corr.DecodersCorr."

func cqOB(b []byte) string {
	if b == nil {
		return "None"
	}
	return "(Some " + cqBytes(b) + ")"
}
func cqPairs(p [][2]int64) string {
	it := make([]string, len(p))
	for i, x := range p {
		it[i] = "(" + cqZ(x[0]) + ", " + cqZ(x[1]) + ")"
	}
	return cqList(it)
}
func cqRecs(rs []vdRec) string {
	it := make([]string, len(rs))
	for i, r := range rs {
		hs := make([]string, len(r.Hdrs))
		for j, h := range r.Hdrs {
			hs[j] = "(" + cqStr(h.K) + ", " + cqOB(h.V) + ")"
		}
		it[i] = fmt.Sprintf("mkDRec %s %s %s %s %s", cqZ(r.Off), cqZ(r.Ts), cqOB(r.Key), cqOB(r.Val), cqList(hs))
	}
	return cqList(it)
}

func vdErrClass(err error) string {
	s := err.Error()
	switch {
	case strings.Contains(s, "segment too small"):
		return "ESmall"
	case strings.Contains(s, "invalid segment magic"), strings.Contains(s, "invalid index magic"):
		return "EMagic"
	case strings.Contains(s, "record batch too small"):
		return "EBatchSmall"
	case strings.Contains(s, "negative last offset delta"):
		return "ELastDelta"
	case strings.Contains(s, "compressed"):
		return "ECompressed"
	case strings.Contains(s, "record count"):
		return "ERecCount"
	case strings.Contains(s, "invalid record length"):
		return "ERecLen"
	case strings.Contains(s, "EOF"):
		return "EEof"
	case strings.Contains(s, "varint overflow"), strings.Contains(s, "varint too long"), strings.Contains(s, "varlong too long"):
		return "EVarint"
	case strings.Contains(s, "invalid header count"):
		return "EHdrCount"
	case strings.Contains(s, "exceeds segment bounds"), strings.Contains(s, "exceeds remaining"), strings.Contains(s, "index entry out of bounds"), strings.Contains(s, "index truncated"):
		return "EBounds"
	case strings.Contains(s, "index too small"), strings.Contains(s, "unsupported index version"), strings.Contains(s, "invalid index entry count"):
		return "EIndex"
	}
	return "UNMAPPED(" + s + ")"
}

func vdGuard(f func()) (panicked string, alloc uint64, dur time.Duration) {
	var m0, m1 runtime.MemStats
	runtime.ReadMemStats(&m0)
	t0 := time.Now()
	func() {
		defer func() {
			if r := recover(); r != nil {
				panicked = fmt.Sprint(r)
			}
		}()
		f()
	}()
	dur = time.Since(t0)
	runtime.ReadMemStats(&m1)
	return panicked, m1.TotalAlloc - m0.TotalAlloc, dur
}

const vdAllocC = 1024
const vdAllocSlack = 65536

// vdClassKey: histogram key of an input class (sweep inputs are grouped per field).
func vdClassKey(c string) string {
	if strings.HasPrefix(c, "sweep-") {
		if i := strings.Index(c, "="); i > 0 {
			return c[:i]
		}
	}
	return c
}

func vdPanicSite(p string) string {
	switch {
	case strings.Contains(p, "makeslice"):
		return "makeslice"
	case strings.Contains(p, "out of range"):
		return "index"
	case strings.Contains(p, "nil pointer"):
		return "nil"
	}
	return "other"
}

func vdLoadInputs(t *testing.T, name string) []vdInput {
	b, err := os.ReadFile(filepath.Join(vOutDir(), name))
	if err != nil {
		t.Fatalf("inputs file (written by the storage harness, which must run first): %v", err)
	}
	var in []vdInput
	if err := json.Unmarshal(b, &in); err != nil {
		t.Fatalf("inputs file: %v", err)
	}
	return in
}

func vdKind() string {
	return map[string]string{"iceberg": "KIceberg", "sql": "KSql", "skeleton": "KSkeleton"}[vdecName()]
}
func vdIdxKind() string {
	return map[string]string{"iceberg": "KIdxIceberg", "sql": "KIdxSql"}[vdecName()]
}

func vdSameRec(a, b vdRec) (bool, bool) { // equal, equalExceptTimestamp
	same := a.Off == b.Off && (a.Key == nil) == (b.Key == nil) && bytes.Equal(a.Key, b.Key) &&
		(a.Val == nil) == (b.Val == nil) && bytes.Equal(a.Val, b.Val) && len(a.Hdrs) == len(b.Hdrs)
	for i := 0; same && i < len(a.Hdrs); i++ {
		same = a.Hdrs[i].K == b.Hdrs[i].K && (a.Hdrs[i].V == nil) == (b.Hdrs[i].V == nil) && bytes.Equal(a.Hdrs[i].V, b.Hdrs[i].V)
	}
	return same && a.Ts == b.Ts, same
}

// vdDecodeObs runs the real decoder and renders the observation.
func vdDecodeObs(data []byte) (string, []vdRec, error) {
	recs, err := vdecDecode(data)
	if err != nil {
		return "(OErr " + vdErrClass(err) + ")", nil, err
	}
	return "(ORecs " + cqRecs(recs) + ")", recs, nil
}
func vdIndexObs(data []byte) (string, [][2]int64, error) {
	es, err, _ := vdecParseIndex(data)
	if err != nil {
		return "(OErr " + vdErrClass(err) + ")", nil, err
	}
	return "(OPairs " + cqPairs(es) + ")", es, nil
}

func TestVerifC07Addon(t *testing.T) {
	name := vdecName()
	rep := vNewReport("C07", "every segment and index written by the storage harness (real BuildSegment over kmsg-encoded well-formed batches) decoded by the "+name+" processor's real decodeSegment/parseIndex and compared field by field (offset, timestamp, key, value, headers; null vs empty distinguished) with the records that were produced")
	var coq, jsons []string
	for _, in := range vdLoadInputs(t, "c07_inputs.json") {
		obs, got, err := vdDecodeObs(in.Data)
		cj := string(in.Case)
		rep.Hist("class=" + vdClassKey(in.Class))
		if name == "skeleton" {
			if err != nil || len(got) != 0 {
				rep.Fail("skeleton-placeholder", "skeleton-nonempty", fmt.Sprintf("skeleton decoder returned %d batches, err=%v", len(got), err), in.Case)
			}
		} else if err != nil {
			key := "decode-error-" + name
			if name == "sql" && in.MaxAbs >= 1<<30 && strings.Contains(err.Error(), "varint too long") {
				key = "sql-ts-delta-32bit"
			}
			rep.Fail("decode-roundtrip", key, fmt.Sprintf("%s decoder failed on a well-formed broker-written segment (max |timestampDelta| = %d): %v", name, in.MaxAbs, err), in.Case)
		} else if len(got) != len(in.Want) {
			rep.Fail("decode-roundtrip", "decode-mismatch-"+name, fmt.Sprintf("%s decoder returned %d records, %d were produced", name, len(got), len(in.Want)), in.Case)
		} else {
			for i := range got {
				eq, eqButTs := vdSameRec(got[i], in.Want[i])
				if eq {
					continue
				}
				key := "decode-mismatch-" + name
				if eqButTs && name == "sql" && in.MaxAbs >= 1<<30 {
					key = "sql-ts-delta-32bit"
				}
				rep.Fail("decode-roundtrip", key, fmt.Sprintf("%s decoder, record %d: got offset %d timestamp %d, produced offset %d timestamp %d (max |timestampDelta| in segment %d); key/value/headers equal: %v", name, i, got[i].Off, got[i].Ts, in.Want[i].Off, in.Want[i].Ts, in.MaxAbs, eqButTs), in.Case)
				break
			}
		}
		rep.Count(cj, len(in.Want) > 1)
		emitData := in.Data
		if name == "skeleton" {
			emitData = nil // noopDecoder.Decode takes object keys only, never the bytes
		}
		coq = append(coq, fmt.Sprintf("CDecode %s %s 0 %s", vdKind(), cqBytes(emitData), obs))
		jsons = append(jsons, cj)
		if _, _, sup := vdecParseIndex(nil); sup {
			iobs, es, ierr := vdIndexObs(in.Index)
			if ierr != nil || fmt.Sprint(es) != fmt.Sprint(in.Entries) {
				rep.Fail("index-roundtrip", "index-mismatch-"+name, fmt.Sprintf("%s parseIndex returned %v (err %v), the broker wrote %v", name, es, ierr, in.Entries), in.Case)
			}
			coq = append(coq, fmt.Sprintf("CDecode %s %s 0 %s", vdIdxKind(), cqBytes(in.Index), iobs))
			jsons = append(jsons, cj)
		}
	}
	rep.Cases("C07_"+name, vdRequires, "case", "check_case", coq, jsons)
	rep.WriteAs("C07_" + name)
	if len(rep.Failures) > 0 {
		t.Logf("oracle failures: %s", rep.Failures[0].What)
	}
}

// ---------- C34: executions isolated in a child process ----------
// The real decoders run in a re-exec'ed child of this test binary whose address space is
// capped (RLIMIT_AS) and whose Go heap has a soft limit, so that an absurd allocation ends
// the CHILD with "fatal error: runtime: out of memory" (not recoverable in Go). The child
// leaves a breadcrumb with the input in flight and one JSON line per finished input; the
// parent turns a dead child into an observed outcome for exactly that input (with the
// input as replay) and restarts the child behind it.
type vdExec struct {
	Pos   int    `json:"pos"` // position in the inputs file
	Obs   string `json:"obs"`
	Kind  string `json:"kind"`
	Pan   string `json:"pan,omitempty"`
	Alloc uint64 `json:"alloc"`
	DurNs int64  `json:"dur_ns"`
	Fatal string `json:"fatal,omitempty"` // set by the parent: the child died on this input
}

const vdChildAS = 8 << 30       // RLIMIT_AS of the child
const vdChildMemLimit = 4 << 30 // debug.SetMemoryLimit of the child

func vdRunOne(in vdInput) (vdExec, bool) {
	var e vdExec
	_, _, idxSupported := vdecParseIndex(nil)
	var dur time.Duration
	if in.Kind == "index" {
		if !idxSupported {
			return e, false
		}
		e.Kind = vdIdxKind()
		e.Pan, e.Alloc, dur = vdGuard(func() { e.Obs, _, _ = vdIndexObs(in.Data) })
	} else {
		e.Kind = vdKind()
		e.Pan, e.Alloc, dur = vdGuard(func() { e.Obs, _, _ = vdDecodeObs(in.Data) })
	}
	e.DurNs = int64(dur)
	return e, true
}

func vdChildMain(t *testing.T, name string) {
	_ = syscall.Setrlimit(syscall.RLIMIT_AS, &syscall.Rlimit{Cur: vdChildAS, Max: vdChildAS})
	debug.SetMemoryLimit(vdChildMemLimit)
	from, _ := strconv.Atoi(os.Getenv("VERIF_C34_FROM"))
	inputs := vdLoadInputs(t, "c34_inputs.json")
	cur := filepath.Join(vOutDir(), "c34_"+name+"_cur")
	f, err := os.OpenFile(filepath.Join(vOutDir(), "c34_"+name+"_obs.jsonl"), os.O_APPEND|os.O_CREATE|os.O_WRONLY, 0o644)
	if err != nil {
		t.Fatal(err)
	}
	defer f.Close()
	for pos := from; pos < len(inputs); pos++ {
		_ = os.WriteFile(cur, []byte(strconv.Itoa(pos)), 0o644)
		e, ok := vdRunOne(inputs[pos])
		if !ok {
			continue
		}
		e.Pos = pos
		b, _ := json.Marshal(e)
		_, _ = f.Write(append(b, '\n'))
	}
	_ = os.WriteFile(cur, []byte("done"), 0o644)
}

// vdRunIsolated executes all inputs in children; returns pos -> execution.
func vdRunIsolated(t *testing.T, name string, n int) map[int]vdExec {
	obsPath := filepath.Join(vOutDir(), "c34_"+name+"_obs.jsonl")
	curPath := filepath.Join(vOutDir(), "c34_"+name+"_cur")
	_ = os.Remove(obsPath)
	fatal := map[int]string{}
	from := 0
	for attempt := 0; attempt < 40 && from < n; attempt++ {
		_ = os.Remove(curPath)
		ctx, cancel := context.WithTimeout(context.Background(), 240*time.Second)
		cmd := exec.CommandContext(ctx, os.Args[0], "-test.run", "^TestVerifC34Addon$", "-test.timeout", "230s")
		cmd.Env = append(os.Environ(), "VERIF_C34_CHILD=1", "VERIF_C34_FROM="+strconv.Itoa(from))
		var stderr bytes.Buffer
		cmd.Stderr = &stderr
		cmd.Stdout = &stderr
		err := cmd.Run()
		timedOut := ctx.Err() != nil
		cancel()
		cur, _ := os.ReadFile(curPath)
		if err == nil && string(cur) == "done" {
			break
		}
		pos, perr := strconv.Atoi(strings.TrimSpace(string(cur)))
		if perr != nil {
			t.Fatalf("child died before its first input: %v\n%s", err, stderr.String())
		}
		msg := "child process died"
		for _, ln := range strings.Split(stderr.String(), "\n") {
			if strings.Contains(ln, "fatal error") || strings.Contains(ln, "panic:") || strings.Contains(ln, "signal") {
				msg = strings.TrimSpace(ln)
				break
			}
		}
		if timedOut {
			msg = "timeout: child killed after 240s"
		}
		fatal[pos] = msg
		from = pos + 1
	}
	out := map[int]vdExec{}
	if b, err := os.ReadFile(obsPath); err == nil {
		for _, ln := range strings.Split(string(b), "\n") {
			var e vdExec
			if ln != "" && json.Unmarshal([]byte(ln), &e) == nil {
				out[e.Pos] = e
			}
		}
	}
	for pos, msg := range fatal {
		out[pos] = vdExec{Pos: pos, Obs: "OPanic", Fatal: msg}
	}
	return out
}

func TestVerifC34Addon(t *testing.T) {
	name := vdecName()
	if os.Getenv("VERIF_C34_CHILD") != "" {
		vdChildMain(t, name)
		return
	}
	rep := vNewReport("C34", fmt.Sprintf("every input of the storage harness (arbitrary bytes, mutated segments, broker-written segments with hostile record bodies, crafted index files) run through the %s processor's real decodeSegment/parseIndex under recover() in a child process with a %d GiB address-space cap; oracle: no panic, no fatal out-of-memory death, bytes allocated (runtime.MemStats.TotalAlloc delta) <= %d*len(input)+%d, no call slower than 5s", name, vdChildAS>>30, vdAllocC, vdAllocSlack))
	rep.CaseFiles = []string{}
	var coq, jsons []string
	inputs := vdLoadInputs(t, "c34_inputs.json")
	execs := vdRunIsolated(t, name, len(inputs))
	for pos, in := range inputs {
		e, ran := execs[pos]
		if !ran {
			continue // index input for a decoder without an index parser
		}
		cj := string(in.Case)
		obs, kind, pan, alloc, dur := e.Obs, e.Kind, e.Pan, e.Alloc, time.Duration(e.DurNs)
		rep.Hist("class=" + vdClassKey(in.Class))
		what := name
		if in.Kind == "index" {
			what = name + "-index"
			if kind == "" {
				kind = vdIdxKind()
			}
		} else if kind == "" {
			kind = vdKind()
		}
		if e.Fatal != "" {
			key := "fatal-" + what
			if strings.Contains(e.Fatal, "out of memory") || strings.Contains(e.Fatal, "cannot allocate") {
				key = "alloc-unbounded-" + what
			} else if strings.HasPrefix(e.Fatal, "timeout") {
				key = "timeout-" + what
			}
			rep.Fail("alloc-bounded", key, fmt.Sprintf("%s: the decoder process died on a %d-byte input (%s) under a %d GiB address-space cap: %s", what, len(in.Data), in.Class, vdChildAS>>30, e.Fatal), in.Case)
			rep.Hist(what + ":fatal")
		}
		if pan != "" {
			obs = "OPanic"
			rep.Fail("no-panic", "panic-"+what+"-"+vdPanicSite(pan), fmt.Sprintf("%s panicked on a %d-byte input (%s): %s", what, len(in.Data), in.Class, pan), in.Case)
		}
		if alloc > uint64(vdAllocC*len(in.Data)+vdAllocSlack) {
			rep.Fail("alloc-bounded", "alloc-unbounded-"+what, fmt.Sprintf("%s allocated %d bytes for a %d-byte input (%s)", what, alloc, len(in.Data), in.Class), in.Case)
		}
		if dur > 5*time.Second {
			rep.Fail("terminates", "timeout-"+what, fmt.Sprintf("%s took %v on a %d-byte input", what, dur, len(in.Data)), in.Case)
		}
		if strings.Contains(obs, "UNMAPPED") {
			rep.Fail("harness", "unmapped-error", obs, in.Case)
			obs = "(OErr EFuel)"
		}
		out := "ok"
		if strings.HasPrefix(obs, "(OErr ") {
			out = strings.TrimSuffix(strings.TrimPrefix(obs, "(OErr "), ")")
		} else if obs == "OPanic" {
			out = "panic"
		}
		if e.Fatal == "" {
			rep.Hist(what + ":" + out)
		}
		rep.Count(cj, len(in.Data) >= 48 && (string(in.Data[:4]) == "KAFS" || string(in.Data[:4]) == "IDX\x00"))
		if len(rep.Samples) < 3 {
			rep.Sample(map[string]any{"class": in.Class, "len": len(in.Data), "outcome": out})
		}
		emitData := in.Data
		if name == "skeleton" {
			emitData = nil // noopDecoder.Decode takes object keys only, never the bytes
		}
		coq = append(coq, fmt.Sprintf("CDecode %s %s 0 %s", kind, cqBytes(emitData), obs))
		jsons = append(jsons, cj)
	}
	rep.Cases("C34_"+name, vdRequires, "case", "check_case", coq, jsons)
	rep.WriteAs("C34_" + name)
	if len(rep.Failures) > 0 {
		t.Logf("oracle failures: %s", rep.Failures[0].What)
	}
}
