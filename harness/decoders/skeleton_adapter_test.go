package decoder

import "context"

// adapter of the shared C07/C34 harness to the skeleton processor's placeholder decoder
func vdecName() string { return "skeleton" }

func vdecDecode(seg []byte) ([]vdRec, error) {
	bs, err := New().Decode(context.Background(), "segment-key", "index-key")
	if err != nil {
		return nil, err
	}
	out := make([]vdRec, len(bs))
	for i, b := range bs {
		out[i] = vdRec{Off: b.Offset, Val: b.Payload}
	}
	return out, nil
}

func vdecParseIndex(data []byte) ([][2]int64, error, bool) { return nil, nil, false }
