package decoder

// adapter of the shared C07/C34 harness to the sql processor's real decoder
func vdecName() string { return "sql" }

func vdecDecode(seg []byte) ([]vdRec, error) {
	recs, err := decodeSegment(seg, "t", 0)
	if err != nil {
		return nil, err
	}
	out := make([]vdRec, len(recs))
	for i, r := range recs {
		out[i] = vdRec{Off: r.Offset, Ts: r.Timestamp, Key: r.Key, Val: r.Value}
		for _, h := range r.Headers {
			out[i].Hdrs = append(out[i].Hdrs, vdHdr{K: h.Key, V: h.Value})
		}
	}
	return out, nil
}

func vdecParseIndex(data []byte) ([][2]int64, error, bool) {
	if data == nil {
		return nil, nil, true
	}
	es, err := parseIndex(data)
	if err != nil {
		return nil, err, true
	}
	out := make([][2]int64, len(es))
	for i, e := range es {
		out[i] = [2]int64{e.Offset, int64(e.Position)}
	}
	return out, nil, true
}
