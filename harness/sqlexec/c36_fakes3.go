//go:build verif

package discovery

// Verification-only helper (never part of a normal build: tag "verif", injected with
// go test -overlay): an in-process S3 endpoint holding generated buckets, shared by
// the C36 harnesses of internal/discovery and internal/server. It serves the subset
// of the S3 REST API the discovery stack uses: ListObjectsV2 (paginated), GetObject
// (whole and suffix ranges), PutObject (the manifest builder).

import (
	"bytes"
	"context"
	"encoding/xml"
	"fmt"
	"io"
	"net/http"
	"net/http/httptest"
	"sort"
	"strconv"
	"strings"
	"sync"

	"github.com/kafscale/platform/addons/processors/sql-processor/internal/config"
	"github.com/kafscale/platform/addons/processors/sql-processor/internal/decoder"
)

type VerifSeg struct {
	Topic    string  `json:"topic"`
	Part     int32   `json:"part"`
	Base     int64   `json:"base"`
	Offs     []int64 `json:"offs"`     // record offsets
	Tss      []int64 `json:"tss"`      // record timestamps
	Footer   bool    `json:"footer"`   // the time index builder has processed this segment (VerifBuildTimeIndex)
	Complete bool    `json:"complete"` // .kfs ends with the footer magic
	NoIndex  bool    `json:"no_index,omitempty"`
}

func (sg VerifSeg) Listed() bool { return sg.Complete && !sg.NoIndex }

func VerifKey(sg VerifSeg, suffix string) string {
	return fmt.Sprintf("ns/%s/%d/segment-%020d%s", sg.Topic, sg.Part, sg.Base, suffix)
}

func VerifMinMax(v []int64) (int64, int64) {
	mn, mx := v[0], v[0]
	for _, x := range v {
		if x < mn {
			mn = x
		}
		if x > mx {
			mx = x
		}
	}
	return mn, mx
}

// VerifSorted returns the listed (completed) segments in discovery's sort order.
func VerifSorted(segs []VerifSeg) []VerifSeg {
	var out []VerifSeg
	for _, sg := range segs {
		if sg.Listed() {
			out = append(out, sg)
		}
	}
	sort.SliceStable(out, func(i, j int) bool {
		a, b := out[i], out[j]
		if a.Topic != b.Topic {
			return a.Topic < b.Topic
		}
		if a.Part != b.Part {
			return a.Part < b.Part
		}
		return a.Base < b.Base
	})
	return out
}

type VerifS3 struct {
	mu   sync.Mutex
	objs map[string][]byte
	Gets int
	Puts int
	srv  *httptest.Server
}

func (f *VerifS3) URL() string { return f.srv.URL }
func (f *VerifS3) Close()      { f.srv.Close() }
func (f *VerifS3) Object(key string) ([]byte, bool) {
	f.mu.Lock()
	defer f.mu.Unlock()
	b, ok := f.objs[key]
	return b, ok
}

// VerifNewS3 builds the bucket for the segments (body size varies per segment so that
// SizeBytes is a distinguishing field) and starts the endpoint.
func VerifNewS3(segs []VerifSeg) *VerifS3 {
	f := &VerifS3{objs: map[string][]byte{}}
	for i, sg := range segs {
		body := []byte("segment-body" + strings.Repeat("x", i%7))
		if sg.Complete {
			body = append(body, []byte(segmentFooterMagic)...)
		} else {
			body = append(body, []byte("XXXX")...)
		}
		f.objs[VerifKey(sg, ".kfs")] = body
		if !sg.NoIndex {
			f.objs[VerifKey(sg, ".index")] = []byte("idx")
		}
	}
	f.srv = httptest.NewServer(http.HandlerFunc(f.serve))
	return f
}

// VerifDecoder returns each segment's records by segment key (the decoder packages are
// verified elsewhere).
type VerifDecoder struct{ recs map[string][]decoder.Record }

func VerifNewDecoder(segs []VerifSeg) *VerifDecoder {
	d := &VerifDecoder{recs: map[string][]decoder.Record{}}
	for _, sg := range segs {
		rs := make([]decoder.Record, len(sg.Offs))
		for j := range sg.Offs {
			rs[j] = decoder.Record{Topic: sg.Topic, Partition: sg.Part, Offset: sg.Offs[j], Timestamp: sg.Tss[j], Key: []byte("k"), Value: []byte("v")}
		}
		d.recs[VerifKey(sg, ".kfs")] = rs
	}
	return d
}

func (d *VerifDecoder) Decode(ctx context.Context, segmentKey, indexKey string, topic string, partition int32) ([]decoder.Record, error) {
	rs, ok := d.recs[segmentKey]
	if !ok {
		return nil, fmt.Errorf("unknown segment %q", segmentKey)
	}
	return rs, nil
}

type verifFilterLister struct {
	inner Lister
	keep  map[string]bool
}

func (l verifFilterLister) ListCompleted(ctx context.Context) ([]SegmentRef, error) {
	segs, err := l.inner.ListCompleted(ctx)
	if err != nil {
		return nil, err
	}
	var out []SegmentRef
	for _, sg := range segs {
		if l.keep[sg.SegmentKey] {
			out = append(out, sg)
		}
	}
	return out, nil
}

// VerifBuildTimeIndex writes the .kfst objects the way cmd/backfill does: the REAL
// TimeIndexBuilder (scanSegment, encodeTimeIndexFooter, PutObject through the real S3
// client) over a plain lister (manifest, cache and time index off), restricted to the
// segments flagged Footer (segments completed after the last backfill run have no
// index yet). Only the decoder is the harness's.
func VerifBuildTimeIndex(ctx context.Context, cfg config.Config, segs []VerifSeg) error {
	bcfg := cfg
	bcfg.Manifest.Enabled = false
	bcfg.TimeIndex.Enabled = false
	bcfg.DiscoveryCache.TTLSeconds = 0
	base, err := New(bcfg)
	if err != nil {
		return err
	}
	keep := map[string]bool{}
	for _, sg := range segs {
		if sg.Footer {
			keep[VerifKey(sg, ".kfs")] = true
		}
	}
	client, err := newS3Client(cfg)
	if err != nil {
		return err
	}
	b := newTimeIndexBuilder(client, cfg.S3.Bucket, cfg.TimeIndex.KeySuffix, cfg.TimeIndex.BuildMaxSegments, cfg.TimeIndex.BuildMaxBytes,
		verifFilterLister{base, keep}, VerifNewDecoder(segs))
	return b.Build(ctx)
}

// verifUnchunk decodes an aws-chunked request body (the SDK may stream PutObject bodies
// with trailing checksums); other bodies are returned unchanged.
func verifUnchunk(r *http.Request, body []byte) []byte {
	if !strings.Contains(r.Header.Get("Content-Encoding"), "aws-chunked") && !strings.HasPrefix(r.Header.Get("X-Amz-Content-Sha256"), "STREAMING") {
		return body
	}
	var out []byte
	for len(body) > 0 {
		nl := bytes.Index(body, []byte("\r\n"))
		if nl < 0 {
			break
		}
		head := string(body[:nl])
		if i := strings.IndexByte(head, ';'); i >= 0 {
			head = head[:i]
		}
		n, err := strconv.ParseInt(strings.TrimSpace(head), 16, 64)
		if err != nil || n == 0 || int(n) > len(body)-nl-2 {
			break
		}
		out = append(out, body[nl+2:nl+2+int(n)]...)
		body = body[nl+2+int(n):]
		body = bytes.TrimPrefix(body, []byte("\r\n"))
	}
	return out
}

type verifListResult struct {
	XMLName     xml.Name       `xml:"ListBucketResult"`
	Name        string         `xml:"Name"`
	Prefix      string         `xml:"Prefix"`
	KeyCount    int            `xml:"KeyCount"`
	MaxKeys     int            `xml:"MaxKeys"`
	IsTruncated bool           `xml:"IsTruncated"`
	NextToken   string         `xml:"NextContinuationToken,omitempty"`
	Contents    []verifContent `xml:"Contents"`
}
type verifContent struct {
	Key          string `xml:"Key"`
	Size         int    `xml:"Size"`
	LastModified string `xml:"LastModified"`
}

const VerifLastModified = "2026-01-01T00:00:00.000Z"

func (f *VerifS3) serve(w http.ResponseWriter, r *http.Request) {
	f.mu.Lock()
	defer f.mu.Unlock()
	path := strings.TrimPrefix(r.URL.Path, "/")
	parts := strings.SplitN(path, "/", 2)
	if len(parts) == 1 || parts[1] == "" { // bucket level: ListObjectsV2, 5 keys per page
		keys := make([]string, 0, len(f.objs))
		prefix := r.URL.Query().Get("prefix")
		for k := range f.objs {
			if strings.HasPrefix(k, prefix) {
				keys = append(keys, k)
			}
		}
		sort.Strings(keys)
		start := 0
		if tok := r.URL.Query().Get("continuation-token"); tok != "" {
			start, _ = strconv.Atoi(tok)
		}
		res := verifListResult{Name: parts[0], Prefix: prefix, MaxKeys: 5}
		end := start + 5
		if end < len(keys) {
			res.IsTruncated = true
			res.NextToken = strconv.Itoa(end)
		} else {
			end = len(keys)
		}
		if start > end {
			start = end
		}
		for _, k := range keys[start:end] {
			res.Contents = append(res.Contents, verifContent{Key: k, Size: len(f.objs[k]), LastModified: VerifLastModified})
		}
		res.KeyCount = len(res.Contents)
		w.Header().Set("Content-Type", "application/xml")
		_ = xml.NewEncoder(w).Encode(res)
		return
	}
	if r.Method == http.MethodPut {
		body, _ := io.ReadAll(r.Body)
		f.objs[parts[1]] = verifUnchunk(r, body)
		f.Puts++
		w.Header().Set("ETag", `"verif"`)
		w.WriteHeader(http.StatusOK)
		return
	}
	f.Gets++
	body, ok := f.objs[parts[1]]
	if !ok {
		w.Header().Set("Content-Type", "application/xml")
		w.WriteHeader(http.StatusNotFound)
		_, _ = w.Write([]byte(`<?xml version="1.0" encoding="UTF-8"?><Error><Code>NoSuchKey</Code><Message>not found</Message></Error>`))
		return
	}
	if rg := r.Header.Get("Range"); strings.HasPrefix(rg, "bytes=-") {
		n, _ := strconv.Atoi(strings.TrimPrefix(rg, "bytes=-"))
		if n > len(body) {
			n = len(body)
		}
		w.Header().Set("Content-Range", fmt.Sprintf("bytes %d-%d/%d", len(body)-n, len(body)-1, len(body)))
		w.Header().Set("Content-Length", strconv.Itoa(n))
		w.WriteHeader(http.StatusPartialContent)
		_, _ = w.Write(body[len(body)-n:])
		return
	}
	_, _ = w.Write(body)
}

// VerifExpire rewinds the expiry of every cache layer of a lister built by New
// (cachedLister and manifestLister), as if their TTL had elapsed.
func VerifExpire(l Lister) {
	switch x := l.(type) {
	case *cachedLister:
		x.mu.Lock()
		x.expiresAt = x.expiresAt.Add(-1000 * 3600 * 1e9)
		x.mu.Unlock()
		VerifExpire(x.inner)
	case *manifestLister:
		x.mu.Lock()
		x.expiresAt = x.expiresAt.Add(-1000 * 3600 * 1e9)
		x.mu.Unlock()
		VerifExpire(x.fallback)
	}
}

// VerifLayers names the lister stack, outermost first.
func VerifLayers(l Lister) string {
	switch x := l.(type) {
	case *cachedLister:
		return "cache>" + VerifLayers(x.inner)
	case *manifestLister:
		return "manifest>" + VerifLayers(x.fallback)
	case *s3Lister:
		if x.timeIndex != nil {
			return "s3+timeindex"
		}
		return "s3"
	case nil:
		return "nil"
	}
	return fmt.Sprintf("%T", l)
}
