package server

// C36 harness (end to end): a generated bucket is served by the in-process S3
// endpoint (internal/discovery/c36_fakes3.go, build tag verif) to the server's REAL
// lister stack (Server.getLister -> discovery.New: s3Lister + time index, optionally
// the manifest lister over a manifest written by the real ManifestBuilder, and the
// discovery cache), only the decoder is a fake. Several queries are run on the SAME
// server, so all but the first are answered from the discovery cache. Queries are
// time-bounded (TsMin/TsMax, LAST) with bounds inside the segments' time spans.
// Oracle = direct filtering of all records of the bucket's completed segments; every
// query is also replayed on the Coq model with the listing handleSelect really got.

import (
	"bytes"
	"context"
	"encoding/json"
	"fmt"
	"io"
	"log"
	"testing"
	"time"

	"github.com/jackc/pgproto3/v2"
	"github.com/kafscale/platform/addons/processors/sql-processor/internal/config"
	"github.com/kafscale/platform/addons/processors/sql-processor/internal/decoder"
	"github.com/kafscale/platform/addons/processors/sql-processor/internal/discovery"
)

type c36eRec struct {
	Off int64 `json:"off"`
	Age int64 `json:"age_ms"` // timestamp = (start of the run) - age
}
type c36eSeg struct {
	Topic    int       `json:"topic"`
	Part     int32     `json:"part"`
	Base     int64     `json:"base"`
	Recs     []c36eRec `json:"recs"`
	Footer   bool      `json:"footer"`
	Complete bool      `json:"complete"`
}
type c36eQuery struct {
	Part    *int32 `json:"part,omitempty"`
	OMin    *int64 `json:"omin,omitempty"`
	OMax    *int64 `json:"omax,omitempty"`
	TMinAge *int64 `json:"tmin_age_ms,omitempty"` // _ts >= start - age
	TMaxAge *int64 `json:"tmax_age_ms,omitempty"`
	Last    string `json:"last,omitempty"`
	Limit   *int   `json:"limit,omitempty"`
	Tail    *int   `json:"tail,omitempty"`
	Order   int    `json:"order"`
}
type c36eCase struct {
	E2E      bool        `json:"e2e"`
	Segs     []c36eSeg   `json:"segs"`
	Cache    bool        `json:"cache"`
	Manifest bool        `json:"manifest"`
	Queries  []c36eQuery `json:"queries"`
}

type c36eRecorder struct {
	inner discovery.Lister
	last  []discovery.SegmentRef
	calls int
}

func (r *c36eRecorder) ListCompleted(ctx context.Context) ([]discovery.SegmentRef, error) {
	segs, err := r.inner.ListCompleted(ctx)
	r.calls++
	r.last = segs
	return segs, err
}

type c36eDecoder struct {
	recs    map[string][]decoder.Record
	decoded []string
}

func (d *c36eDecoder) Decode(ctx context.Context, segmentKey, indexKey string, topic string, partition int32) ([]decoder.Record, error) {
	d.decoded = append(d.decoded, segmentKey)
	rs, ok := d.recs[segmentKey]
	if !ok {
		return nil, fmt.Errorf("unknown segment %q", segmentKey)
	}
	return rs, nil
}

type c36eResult struct {
	cs  c36Case // the query as a select case: bucket segments with the statistics handleSelect saw
	out c36Out
}

// c36eRun executes the case; failures that are not row mismatches are returned as (key, what).
func c36eRun(ec c36eCase) ([]c36eResult, string, string) {
	now0 := time.Now().UnixMilli()
	var vsegs []discovery.VerifSeg
	for _, sg := range ec.Segs {
		v := discovery.VerifSeg{Topic: c36Topics[sg.Topic], Part: sg.Part, Base: sg.Base, Footer: sg.Footer, Complete: sg.Complete}
		for _, r := range sg.Recs {
			v.Offs = append(v.Offs, r.Off)
			v.Tss = append(v.Tss, now0-r.Age)
		}
		vsegs = append(vsegs, v)
	}
	f := discovery.VerifNewS3(vsegs)
	defer f.Close()
	ctx := context.Background()
	cfg := config.Config{Query: config.QueryConfig{DefaultLimit: 1000, MaxUnbounded: 1 << 30}}
	cfg.S3 = config.S3Config{Bucket: "bkt", Namespace: "ns", Endpoint: f.URL(), Region: "us-east-1", PathStyle: true}
	cfg.TimeIndex.Enabled = true
	cfg.Manifest.Enabled = ec.Manifest
	cfg.Manifest.TTLSeconds = 60
	if ec.Cache {
		cfg.DiscoveryCache.TTLSeconds = 60
	}
	// the .kfst time index objects are written by the real TimeIndexBuilder
	if err := discovery.VerifBuildTimeIndex(ctx, cfg, vsegs); err != nil {
		return nil, "harness-anomaly", "time index build: " + err.Error()
	}
	if ec.Manifest {
		bcfg := cfg
		bcfg.Manifest.Enabled = false
		bcfg.DiscoveryCache.TTLSeconds = 0
		bl, err := discovery.New(bcfg)
		if err != nil {
			return nil, "harness-anomaly", err.Error()
		}
		b, err := discovery.NewManifestBuilder(cfg, bl)
		if err == nil {
			err = b.Build(ctx)
		}
		if err != nil {
			return nil, "harness-anomaly", "manifest build: " + err.Error()
		}
	}
	srv := New(cfg, log.New(io.Discard, "", 0))
	real, err := srv.getLister() // the production constructor path
	if err != nil {
		return nil, "harness-anomaly", err.Error()
	}
	rec := &c36eRecorder{inner: real}
	srv.lister = rec
	sorted := discovery.VerifSorted(vsegs)
	dec := &c36eDecoder{recs: map[string][]decoder.Record{}}
	keys := map[string]int{}
	for i, sg := range sorted {
		k := discovery.VerifKey(sg, ".kfs")
		keys[k] = i
		rs := make([]decoder.Record, len(sg.Offs))
		for j := range sg.Offs {
			rs[j] = decoder.Record{Topic: sg.Topic, Partition: sg.Part, Offset: sg.Offs[j], Timestamp: sg.Tss[j], Key: []byte("k"), Value: []byte("v")}
		}
		dec.recs[k] = rs
	}
	srv.decoder = dec
	srv.decoderInit = true

	var results []c36eResult
	for qi, q := range ec.Queries {
		sq := c36Query{Topic: 0, Part: q.Part, OMin: q.OMin, OMax: q.OMax, Limit: q.Limit, Tail: q.Tail, Order: q.Order, Default: 1000}
		if q.TMinAge != nil {
			sq.TMin = c36P64(now0 - *q.TMinAge)
		}
		if q.TMaxAge != nil {
			sq.TMax = c36P64(now0 - *q.TMaxAge)
		}
		parsed := c36Parsed(sq)
		parsed.Last = q.Last
		dec.decoded = nil
		var buf bytes.Buffer
		backend := pgproto3.NewBackend(pgproto3.NewChunkReader(bytes.NewReader(nil)), &buf)
		_, qerr := srv.handleSelect(ctx, backend, parsed, nil)
		after := time.Now().UnixMilli()
		// the select case this query amounts to: effective time bounds after LAST, listing as seen
		eff := sq
		var effLate c36Query
		if q.Last != "" {
			w, perr := parseDuration(q.Last)
			if perr != nil {
				return results, "harness-anomaly", "bad LAST " + q.Last
			}
			lo, late := now0-w.Milliseconds(), after-w.Milliseconds()
			effLate = eff
			if eff.TMin == nil || *eff.TMin < lo {
				eff.TMin = c36P64(lo)
			}
			if effLate.TMin == nil || *effLate.TMin < late {
				effLate.TMin = c36P64(late)
			}
			if eff.TMax == nil {
				eff.TMax, effLate.TMax = c36P64(now0), c36P64(after)
			}
		}
		cs := c36Case{Q: eff, Sound: true, keys: keys}
		listing := map[string]discovery.SegmentRef{}
		for _, ref := range rec.last {
			listing[ref.SegmentKey] = ref
		}
		if len(rec.last) != len(sorted) {
			return results, "e2e-listing-differs", fmt.Sprintf("query %d: handleSelect got a listing of %d segments, the bucket holds %d completed segments", qi, len(rec.last), len(sorted))
		}
		for i, sg := range sorted {
			ref, ok := listing[discovery.VerifKey(sg, ".kfs")]
			if !ok || rec.last[i].SegmentKey != discovery.VerifKey(sg, ".kfs") {
				return results, "e2e-listing-differs", fmt.Sprintf("query %d: listing entry %d is %q, expected %q", qi, i, rec.last[i].SegmentKey, discovery.VerifKey(sg, ".kfs"))
			}
			topic := 0
			if sg.Topic == c36Topics[1] {
				topic = 1
			}
			seg := c36Seg{Topic: topic, Part: sg.Part, Stats: []*int64{ref.MinOffset, ref.MaxOffset, ref.MinTimestamp, ref.MaxTimestamp}}
			for j := range sg.Offs {
				seg.Recs = append(seg.Recs, c36Rec{Off: sg.Offs[j], Ts: sg.Tss[j]})
			}
			cs.Segs = append(cs.Segs, seg)
		}
		out := c36Out{rejected: qerr != nil}
		for _, k := range dec.decoded {
			out.decoded = append(out.decoded, keys[k])
		}
		if qerr == nil {
			rows, derr := c36Decode(&cs, buf.Bytes())
			if derr != nil {
				return results, "harness-anomaly", derr.Error()
			}
			out.rows = rows
		}
		if q.Last != "" { // the wall clock moved between our reading and the server's: skip if that matters
			late := cs
			late.Q = effLate
			if !c36Equal(c36Matching(cs), c36Matching(late)) {
				continue
			}
		}
		results = append(results, c36eResult{cs: cs, out: out})
	}
	return results, "", ""
}

func c36eGen(r *vRand) c36eCase {
	ec := c36eCase{E2E: true, Cache: r.Chance(85), Manifest: r.Chance(35)}
	var ages, offs []int64
	for topic := 0; topic < 2; topic++ {
		nparts := r.Range(1, 2)
		if topic == 1 {
			nparts = r.Range(0, 1)
		}
		for p := 0; p < nparts; p++ {
			next := int64(r.Intn(3) * r.Intn(20))
			slot := int64(r.Range(300, 1500)) // age in units of 10 s, decreasing
			nseg := r.Range(1, 4)
			for s := 0; s < nseg; s++ {
				sg := c36eSeg{Topic: topic, Part: int32(p), Base: next, Footer: r.Chance(85), Complete: true}
				n := r.Range(1, 5)
				for k := 0; k < n; k++ {
					if r.Chance(15) {
						next += int64(r.Range(1, 3))
					}
					switch r.Intn(6) {
					case 0:
						slot += int64(r.Range(1, 4)) // out of order: older than its predecessor
					case 1: // tie
					default:
						slot -= int64(r.Range(1, 9))
					}
					if slot < 2 {
						slot = 2
					}
					rslot := slot
					switch r.Intn(7) {
					case 0: // late event: much older than its neighbours, the stream's clock does not move
						rslot = slot + int64(r.Range(3, 12))
					case 1: // producer clock ahead
						if slot > 12 {
							rslot = slot - int64(r.Range(3, 10))
						}
					}
					age := rslot*10000 + int64(r.Range(-1000, 1000))
					sg.Recs = append(sg.Recs, c36eRec{Off: next, Age: age})
					ages = append(ages, age)
					offs = append(offs, next)
					next++
				}
				ec.Segs = append(ec.Segs, sg)
			}
		}
	}
	nq := r.Range(2, 4)
	for i := 0; i < nq; i++ {
		var q c36eQuery
		if r.Chance(30) {
			p := int32(r.Range(0, 1))
			q.Part = &p
		}
		pickAge := func() *int64 { return c36P64(ages[r.Intn(len(ages))] + int64(r.Range(-1, 1))*int64(r.Range(0, 4000))) }
		switch r.Intn(6) {
		case 0, 1:
			q.TMinAge = pickAge() // lower time bound inside some segment's span
		case 2:
			q.TMaxAge = pickAge()
		case 3:
			q.TMinAge, q.TMaxAge = pickAge(), pickAge()
			if *q.TMinAge < *q.TMaxAge {
				q.TMinAge, q.TMaxAge = q.TMaxAge, q.TMinAge
			}
		case 4: // LAST: the window ends 5 s into a 10 s slot, at least 4 s away from every record
			slot := ages[r.Intn(len(ages))]/10000 + int64(r.Range(-2, 2))
			if slot < 1 {
				slot = 1
			}
			q.Last = fmt.Sprintf("%ds", slot*10+5)
		}
		if r.Chance(25) {
			q.OMin = c36P64(offs[r.Intn(len(offs))] + int64(r.Range(-1, 1)))
		}
		if r.Chance(20) {
			q.OMax = c36P64(offs[r.Intn(len(offs))] + int64(r.Range(-1, 1)))
		}
		if r.Chance(30) {
			l := r.Range(1, 5)
			q.Limit = &l
		}
		switch r.Intn(8) {
		case 0:
			q.Order = 1
		case 1:
			q.Order = 2
		case 2:
			t := r.Range(1, 4)
			q.Tail = &t
		}
		ec.Queries = append(ec.Queries, q)
	}
	return ec
}

func c36eValid(ec c36eCase) bool {
	if !ec.E2E || len(ec.Segs) == 0 || len(ec.Segs) > 40 || len(ec.Queries) > 8 {
		return false
	}
	for _, sg := range ec.Segs {
		if sg.Topic < 0 || sg.Topic > 1 || len(sg.Recs) == 0 {
			return false
		}
		seen := map[int64]bool{}
		for _, r := range sg.Recs {
			if seen[r.Off] || r.Off < sg.Base || r.Age < 10000 {
				return false
			}
			seen[r.Off] = true
		}
	}
	return true
}

func TestVerifC36E2E(t *testing.T) {
	t.Setenv("AWS_ACCESS_KEY_ID", "verif")
	t.Setenv("AWS_SECRET_ACCESS_KEY", "verif")
	t.Setenv("AWS_EC2_METADATA_DISABLED", "true")
	rep := vNewReport("C36", "end to end: generated buckets (1-2 topics, 1-2 partitions, 1-4 segments of 1-5 records, record timestamps 20 s .. 4 h before the run with ties and out-of-order stamps, .kfst footer ~85%) behind the server's real lister stack (discovery.New via Server.getLister: s3Lister + time index, manifest lister ~35%, discovery cache ~85%), fake decoder; 2-4 queries per server (repeated queries hit the cache) with TsMin/TsMax/LAST bounds placed inside segments' time spans, partition/offset bounds, LIMIT/TAIL/ORDER BY; non-trivial = a query answered from a cached listing that pruned a segment or returned rows; distinct = distinct case JSON")
	var coq, jsons []string
	runOne := func(ec c36eCase) {
		if !c36eValid(ec) {
			rep.Notes = append(rep.Notes, "skipped invalid e2e case")
			return
		}
		canon, _ := json.Marshal(ec)
		results, key, what := c36eRun(ec)
		if key != "" {
			rep.Fail("e2e", key, what, ec)
		}
		nontrivial := false
		for qi, res := range results {
			selected := 0
			for _, sg := range res.cs.Segs {
				if sg.Topic == res.cs.Q.Topic && (res.cs.Q.Part == nil || *res.cs.Q.Part == sg.Part) {
					selected++
				}
			}
			if qi > 0 && ec.Cache && (selected > len(res.out.decoded) || len(res.out.rows) > 0) {
				nontrivial = true
			}
			if selected > len(res.out.decoded) {
				rep.Hist("e2e-pruned-segments")
			}
			if orc, k, w := c36Oracle(res.cs, res.out); orc != "" {
				rep.Fail("e2e-"+orc, "e2e-"+k, fmt.Sprintf("query %d of the case (cache=%v manifest=%v): %s", qi, ec.Cache, ec.Manifest, w), ec)
			}
			coq = append(coq, c36Coq(res.cs, res.out))
			cj, _ := json.Marshal(res.cs)
			jsons = append(jsons, string(cj))
		}
		rep.Hist(fmt.Sprintf("e2e cache=%v manifest=%v", ec.Cache, ec.Manifest))
		rep.Count(string(canon), nontrivial)
		rep.Sample(ec)
	}
	if rc := vReplayCase(); rc != nil {
		var ec c36eCase
		if err := json.Unmarshal(rc, &ec); err == nil && ec.E2E {
			runOne(ec)
		}
	} else {
		age := func(s int64) int64 { return s * 10000 }
		p64 := c36P64
		// the shape that loses rows when cached segments carry a wrong max timestamp: the same
		// lower time bound inside the first segment's span, asked twice
		runOne(c36eCase{E2E: true, Cache: true, Segs: []c36eSeg{
			{Topic: 0, Part: 0, Base: 0, Footer: true, Complete: true, Recs: []c36eRec{{0, age(100)}, {1, age(80)}, {2, age(60)}}},
			{Topic: 0, Part: 0, Base: 3, Footer: true, Complete: true, Recs: []c36eRec{{3, age(50)}, {4, age(30)}}}},
			Queries: []c36eQuery{{TMinAge: p64(age(90))}, {TMinAge: p64(age(90))}, {Last: "705s"}, {TMaxAge: p64(age(70))}}})
		runOne(c36eCase{E2E: true, Cache: true, Manifest: true, Segs: []c36eSeg{
			{Topic: 0, Part: 0, Base: 0, Footer: true, Complete: true, Recs: []c36eRec{{0, age(100)}, {1, age(80)}, {2, age(60)}}},
			{Topic: 0, Part: 0, Base: 3, Footer: false, Complete: true, Recs: []c36eRec{{3, age(50)}, {4, age(30)}}}},
			Queries: []c36eQuery{{TMinAge: p64(age(70))}, {TMinAge: p64(age(70)), Order: 2}, {OMin: p64(2), TMinAge: p64(age(90))}}})
		// record timestamps out of order: the segment's min and max timestamps are neither its first nor its
		// last record's; bounds between the first/last record's timestamp and the true min/max
		runOne(c36eCase{E2E: true, Cache: true, Segs: []c36eSeg{
			{Topic: 0, Part: 0, Base: 0, Footer: true, Complete: true, Recs: []c36eRec{{0, age(80)}, {1, age(120)}, {2, age(40)}, {3, age(70)}}},
			{Topic: 0, Part: 0, Base: 4, Footer: true, Complete: true, Recs: []c36eRec{{4, age(30)}, {5, age(60)}, {6, age(20)}}}},
			Queries: []c36eQuery{{TMaxAge: p64(age(100))}, {TMinAge: p64(age(50))}, {TMinAge: p64(age(65)), TMaxAge: p64(age(35))}, {Last: "455s"}}})
		r := vNewRand(vSeed() + 4242)
		n := vN(50, 400)
		for i := 0; i < n; i++ {
			runOne(c36eGen(r.Fork()))
		}
	}
	rep.Cases("C36_e2e", "From KS Require Import lib.Base model.SqlExec corr.SqlExecCorr.", "case", "check_case", coq, jsons)
	rep.WriteAs("C36_e2e")
	if len(rep.Failures) > 0 {
		t.Logf("oracle failures: %s", rep.Failures[0].What)
	}
}
