package server

// C36 harness (select path): generated listings (offset/time statistics present or
// absent per segment, overlapping time ranges, several topics and partitions) and
// filter combinations are run through the real handleSelect with a fake lister and
// a fake decoder; the DataRow messages written to the pgwire backend are decoded
// and compared with (a) direct filtering of all records (implementation-side
// oracle) and (b) the Coq model (corr/SqlExecCorr.v). Queries that the SQL grammar
// can express are additionally sent as text through handleQuery (real parser and
// cache path) and must give the same rows.

import (
	"bytes"
	"context"
	"encoding/json"
	"fmt"
	"io"
	"log"
	"sort"
	"strconv"
	"strings"
	"testing"

	"github.com/jackc/pgproto3/v2"
	"github.com/kafscale/platform/addons/processors/sql-processor/internal/config"
	"github.com/kafscale/platform/addons/processors/sql-processor/internal/decoder"
	"github.com/kafscale/platform/addons/processors/sql-processor/internal/discovery"
	kafsql "github.com/kafscale/platform/addons/processors/sql-processor/internal/sql"
)

type c36Rec struct {
	Off int64 `json:"off"`
	Ts  int64 `json:"ts"`
}
type c36Seg struct {
	Topic int      `json:"topic"`
	Part  int32    `json:"part"`
	Stats []*int64 `json:"stats"` // min offset, max offset, min ts, max ts (nil = absent)
	Recs  []c36Rec `json:"recs"`
}
type c36Query struct {
	Topic   int    `json:"topic"`
	Part    *int32 `json:"part,omitempty"`
	OMin    *int64 `json:"omin,omitempty"`
	OMax    *int64 `json:"omax,omitempty"`
	TMin    *int64 `json:"tmin,omitempty"`
	TMax    *int64 `json:"tmax,omitempty"`
	Limit   *int   `json:"limit,omitempty"`
	Tail    *int   `json:"tail,omitempty"`
	Order   int    `json:"order"` // 0 none, 1 ORDER BY _ts, 2 ORDER BY _ts DESC
	Default int    `json:"default_limit"`
}
type c36Case struct {
	Segs  []c36Seg `json:"segs"`
	Q     c36Query `json:"q"`
	Sound bool     `json:"sound"` // statistics bound the records (the oracle applies)

	keys map[string]int // end-to-end cases: segment key -> index into Segs
}

func c36SegIdx(cs *c36Case, key string) int {
	if cs.keys != nil {
		if i, ok := cs.keys[key]; ok {
			return i
		}
		return -1
	}
	var i int
	if _, err := fmt.Sscanf(key, "seg-%d.kfs", &i); err != nil {
		return -1
	}
	return i
}

type c36Row struct {
	Part int32
	Off  int64
	Ts   int64
}

var c36Topics = []string{"orders", "events"}

type c36Lister struct{ segs []discovery.SegmentRef }

func (l c36Lister) ListCompleted(ctx context.Context) ([]discovery.SegmentRef, error) {
	return l.segs, nil
}

type c36Decoder struct {
	cs      *c36Case
	decoded []int
}

func (d *c36Decoder) Decode(ctx context.Context, segmentKey, indexKey string, topic string, partition int32) ([]decoder.Record, error) {
	var i int
	if _, err := fmt.Sscanf(segmentKey, "seg-%d.kfs", &i); err != nil || i < 0 || i >= len(d.cs.Segs) {
		return nil, fmt.Errorf("unknown segment %q", segmentKey)
	}
	d.decoded = append(d.decoded, i)
	sg := d.cs.Segs[i]
	out := make([]decoder.Record, len(sg.Recs))
	for k, r := range sg.Recs {
		out[k] = decoder.Record{Topic: topic, Partition: partition, Offset: r.Off, Timestamp: r.Ts, Key: []byte("k"), Value: []byte("v")}
	}
	return out, nil
}

func c36Refs(cs *c36Case) []discovery.SegmentRef {
	refs := make([]discovery.SegmentRef, len(cs.Segs))
	for i, sg := range cs.Segs {
		base := int64(0)
		if len(sg.Recs) > 0 {
			base = sg.Recs[0].Off
		}
		refs[i] = discovery.SegmentRef{Topic: c36Topics[sg.Topic], Partition: sg.Part, BaseOffset: base,
			SegmentKey: fmt.Sprintf("seg-%d.kfs", i), IndexKey: fmt.Sprintf("seg-%d.index", i), SizeBytes: 10,
			MinOffset: sg.Stats[0], MaxOffset: sg.Stats[1], MinTimestamp: sg.Stats[2], MaxTimestamp: sg.Stats[3]}
	}
	return refs
}

func c36Server(cs *c36Case) (*Server, *c36Decoder) {
	cfg := config.Config{Query: config.QueryConfig{DefaultLimit: cs.Q.Default, MaxUnbounded: 1 << 30}}
	srv := New(cfg, log.New(io.Discard, "", 0))
	dec := &c36Decoder{cs: cs}
	srv.lister = c36Lister{c36Refs(cs)}
	srv.listerInit = true
	srv.decoder = dec
	srv.decoderInit = true
	return srv, dec
}

func c36Parsed(q c36Query) kafsql.Query {
	col := func(n string) kafsql.SelectColumn {
		return kafsql.SelectColumn{Raw: n, Kind: kafsql.SelectColumnField, Column: n}
	}
	p := kafsql.Query{Type: kafsql.QuerySelect, Topic: c36Topics[q.Topic],
		Select:    []kafsql.SelectColumn{col("_partition"), col("_offset"), col("_segment")},
		Partition: q.Part, OffsetMin: q.OMin, OffsetMax: q.OMax, TsMin: q.TMin, TsMax: q.TMax}
	if q.Limit != nil {
		p.Limit = strconv.Itoa(*q.Limit)
	}
	if q.Tail != nil {
		p.Tail = strconv.Itoa(*q.Tail)
	}
	if q.Order > 0 {
		p.OrderBy = "_ts"
		p.OrderDesc = q.Order == 2
	}
	return p
}

// c36Text renders the query in the grammar of internal/sql when it can be expressed
// there (no timestamp bounds: the WHERE grammar has no _ts comparison; LIMIT >= 0).
func c36Text(q c36Query) (string, bool) {
	if q.TMin != nil || q.TMax != nil || (q.Limit != nil && *q.Limit < 0) {
		return "", false
	}
	var sb strings.Builder
	sb.WriteString("SELECT _partition, _offset, _segment FROM " + c36Topics[q.Topic])
	var conds []string
	if q.Part != nil {
		conds = append(conds, fmt.Sprintf("_partition = %d", *q.Part))
	}
	if q.OMin != nil {
		conds = append(conds, fmt.Sprintf("_offset >= %d", *q.OMin))
	}
	if q.OMax != nil {
		conds = append(conds, fmt.Sprintf("_offset <= %d", *q.OMax))
	}
	if len(conds) > 0 {
		sb.WriteString(" WHERE " + strings.Join(conds, " AND "))
	}
	if q.Order > 0 {
		// the WHERE grammar stops only at limit/last/tail/within/scan: ORDER BY after WHERE is rejected
		if len(conds) > 0 {
			return "", false
		}
		sb.WriteString(" ORDER BY _ts")
		if q.Order == 2 {
			sb.WriteString(" DESC")
		}
	}
	if q.Limit != nil {
		sb.WriteString(fmt.Sprintf(" LIMIT %d", *q.Limit))
	}
	if q.Tail != nil {
		sb.WriteString(fmt.Sprintf(" TAIL %d", *q.Tail))
	}
	return sb.String(), true
}

// c36Decode parses the backend byte stream into rows.
func c36Decode(cs *c36Case, wire []byte) ([]c36Row, error) {
	fe := pgproto3.NewFrontend(pgproto3.NewChunkReader(bytes.NewReader(wire)), io.Discard)
	var rows []c36Row
	for {
		msg, err := fe.Receive()
		if err != nil {
			return rows, nil
		}
		dr, ok := msg.(*pgproto3.DataRow)
		if !ok {
			continue
		}
		if len(dr.Values) != 3 {
			return nil, fmt.Errorf("DataRow with %d values", len(dr.Values))
		}
		p, e1 := strconv.Atoi(string(dr.Values[0]))
		o, e2 := strconv.ParseInt(string(dr.Values[1]), 10, 64)
		si := c36SegIdx(cs, string(dr.Values[2]))
		if e1 != nil || e2 != nil || si < 0 || si >= len(cs.Segs) {
			return nil, fmt.Errorf("unparsable DataRow %q", dr.Values)
		}
		ts, found := int64(0), false
		for _, r := range cs.Segs[si].Recs {
			if r.Off == o {
				ts, found = r.Ts, true
				break
			}
		}
		if !found {
			return nil, fmt.Errorf("DataRow (%d,%d) is not a record of segment %d", p, o, si)
		}
		rows = append(rows, c36Row{int32(p), o, ts})
	}
}

type c36Out struct {
	rows     []c36Row
	rejected bool
	decoded  []int
	text     []c36Row // rows of the text path (nil if not expressible)
	textErr  string
	hasText  bool
}

func c36Run(cs c36Case) (c36Out, error) {
	var out c36Out
	srv, dec := c36Server(&cs)
	var buf bytes.Buffer
	backend := pgproto3.NewBackend(pgproto3.NewChunkReader(bytes.NewReader(nil)), &buf)
	_, err := srv.handleSelect(context.Background(), backend, c36Parsed(cs.Q), nil)
	out.decoded = dec.decoded
	if err != nil {
		out.rejected = true
	} else {
		rows, derr := c36Decode(&cs, buf.Bytes())
		if derr != nil {
			return out, derr
		}
		out.rows = rows
	}
	if text, ok := c36Text(cs.Q); ok {
		srv2, _ := c36Server(&cs)
		var buf2 bytes.Buffer
		backend2 := pgproto3.NewBackend(pgproto3.NewChunkReader(bytes.NewReader(nil)), &buf2)
		out.hasText = true
		if err := srv2.handleQuery(context.Background(), backend2, text); err != nil {
			out.textErr = err.Error()
		} else {
			rows, derr := c36Decode(&cs, buf2.Bytes())
			if derr != nil {
				return out, derr
			}
			out.text = rows
		}
	}
	return out, nil
}

// ---------- implementation-side oracle: direct filtering ----------

func c36EffLimit(q c36Query) int {
	l := q.Default
	if q.Limit != nil {
		l = *q.Limit
	}
	if q.Tail != nil {
		l = *q.Tail
	}
	if l <= 0 {
		l = q.Default
	}
	return l
}

func c36Matching(cs c36Case) []c36Row {
	q := cs.Q
	var m []c36Row
	for _, sg := range cs.Segs {
		if sg.Topic != q.Topic || (q.Part != nil && sg.Part != *q.Part) {
			continue
		}
		for _, r := range sg.Recs {
			if (q.TMin != nil && r.Ts < *q.TMin) || (q.TMax != nil && r.Ts > *q.TMax) ||
				(q.OMin != nil && r.Off < *q.OMin) || (q.OMax != nil && r.Off > *q.OMax) {
				continue
			}
			m = append(m, c36Row{sg.Part, r.Off, r.Ts})
		}
	}
	return m
}

func c36Multiset(rows []c36Row) map[c36Row]int {
	m := map[c36Row]int{}
	for _, r := range rows {
		m[r]++
	}
	return m
}

func c36Oracle(cs c36Case, out c36Out) (string, string, string) {
	q := cs.Q
	wantReject := (q.Order > 0 && q.Tail != nil && *q.Tail > 0) || (q.TMin != nil && q.TMax != nil && *q.TMax < *q.TMin)
	if wantReject != out.rejected {
		return "rejection", "unexpected-accept-or-reject", fmt.Sprintf("query rejected=%v, expected %v", out.rejected, wantReject)
	}
	if out.rejected {
		return "", "", ""
	}
	m := c36Matching(cs)
	limit := c36EffLimit(q)
	tail := 0
	if q.Tail != nil {
		tail = *q.Tail
	}
	got := out.rows
	missingKey := func() string {
		have := c36Multiset(got)
		for _, r := range m {
			if have[r] == 0 {
				// was the row's segment pruned?
				for si, sg := range cs.Segs {
					if sg.Topic == q.Topic && sg.Part == r.Part {
						for _, x := range sg.Recs {
							if x.Off == r.Off && x.Ts == r.Ts {
								dec := false
								for _, d := range out.decoded {
									dec = dec || d == si
								}
								if !dec {
									return "matching-row-in-pruned-segment"
								}
							}
						}
					}
				}
			}
		}
		return "rows-differ-from-direct-filtering"
	}
	switch {
	case q.Order == 0 && tail > 0:
		want := m
		if len(want) > tail {
			want = want[len(want)-tail:]
		}
		if !c36Equal(got, want) {
			return "tail", missingKey(), fmt.Sprintf("TAIL %d returned %v, direct filtering gives %v", tail, got, want)
		}
	case q.Order == 0:
		want := m
		if len(want) > limit {
			want = want[:limit]
		}
		if !c36Equal(got, want) {
			return "plain", missingKey(), fmt.Sprintf("returned %v, direct filtering (limit %d) gives %v", got, limit, want)
		}
	default:
		desc := q.Order == 2
		want := append([]c36Row(nil), m...)
		sort.SliceStable(want, func(i, j int) bool {
			if desc {
				return want[i].Ts > want[j].Ts
			}
			return want[i].Ts < want[j].Ts
		})
		if len(want) > limit {
			want = want[:limit]
		}
		if len(got) != len(want) {
			return "order", missingKey(), fmt.Sprintf("ORDER BY returned %d rows, direct filtering gives %d", len(got), len(want))
		}
		all := c36Multiset(m)
		for i := range got {
			if got[i].Ts != want[i].Ts {
				return "order", missingKey(), fmt.Sprintf("ORDER BY row %d has ts %d, the sorted matching rows have %d there", i, got[i].Ts, want[i].Ts)
			}
			if all[got[i]] == 0 {
				return "order", "row-not-in-topic", fmt.Sprintf("ORDER BY returned %v which is not a matching record (or too often)", got[i])
			}
			all[got[i]]--
		}
	}
	// text path = struct path
	if out.hasText {
		if out.textErr != "" {
			return "text", "text-path-rejected", "the same query as SQL text was rejected: " + out.textErr
		}
		same := c36Equal(out.text, got)
		if q.Order > 0 {
			same = len(out.text) == len(got)
			for i := range got {
				same = same && out.text[i].Ts == got[i].Ts
			}
		}
		if !same {
			return "text", "text-path-differs", fmt.Sprintf("SQL text gave %v, the parsed query %v", out.text, got)
		}
	}
	return "", "", ""
}

func c36Equal(a, b []c36Row) bool {
	if len(a) != len(b) {
		return false
	}
	for i := range a {
		if a[i] != b[i] {
			return false
		}
	}
	return true
}

// ---------- generator ----------

func c36P64(v int64) *int64 { return &v }

func c36Gen(r *vRand) c36Case {
	cs := c36Case{Sound: true}
	var offs, tss []int64
	for topic := 0; topic < 2; topic++ {
		nparts := r.Range(1, 3)
		if topic == 1 {
			nparts = r.Range(0, 1)
		}
		for p := 0; p < nparts; p++ {
			next := int64(0)
			if r.Chance(30) {
				next = int64(r.Range(1, 50))
			}
			clock := int64(r.Range(0, 100))
			nseg := r.Range(1, 4)
			var segs []c36Seg
			for s := 0; s < nseg; s++ {
				sg := c36Seg{Topic: topic, Part: int32(p), Stats: make([]*int64, 4)}
				base := next
				n := r.Range(0, 5)
				for k := 0; k < n; k++ {
					if r.Chance(15) {
						next += int64(r.Range(1, 3))
					}
					switch r.Intn(5) {
					case 0: // tie
					case 1:
						clock -= int64(r.Range(1, 8)) // out-of-order timestamp: time ranges overlap
					default:
						clock += int64(r.Range(1, 6))
					}
					sg.Recs = append(sg.Recs, c36Rec{Off: next, Ts: clock})
					offs = append(offs, next)
					tss = append(tss, clock)
					next++
				}
				if r.Chance(20) {
					next += int64(r.Range(1, 4))
				}
				// statistics as discovery attaches them: min offset = base; max offset = next base - 1
				// (filled in below); timestamps from a footer that may be missing
				if r.Chance(85) {
					sg.Stats[0] = c36P64(base)
				}
				if len(sg.Recs) > 0 && r.Chance(60) {
					mn, mx := sg.Recs[0].Ts, sg.Recs[0].Ts
					for _, x := range sg.Recs {
						if x.Ts < mn {
							mn = x.Ts
						}
						if x.Ts > mx {
							mx = x.Ts
						}
					}
					if r.Chance(90) {
						sg.Stats[2] = c36P64(mn - int64(r.Intn(2)))
					}
					if r.Chance(90) {
						sg.Stats[3] = c36P64(mx + int64(r.Intn(2)))
					}
				}
				segs = append(segs, sg)
			}
			for s := range segs {
				if s+1 < len(segs) {
					nb := int64(0)
					if len(segs[s+1].Recs) > 0 {
						nb = segs[s+1].Recs[0].Off
					} else if segs[s+1].Stats[0] != nil {
						nb = *segs[s+1].Stats[0]
					}
					if nb > 0 && r.Chance(85) {
						segs[s].Stats[1] = c36P64(nb - 1)
					}
				} else if len(segs[s].Recs) > 0 && r.Chance(40) { // last segment: footer max offset
					segs[s].Stats[1] = c36P64(segs[s].Recs[len(segs[s].Recs)-1].Off)
				}
			}
			cs.Segs = append(cs.Segs, segs...)
		}
	}
	if r.Chance(8) && len(cs.Segs) > 1 { // unsorted listing
		i, j := r.Intn(len(cs.Segs)), r.Intn(len(cs.Segs))
		cs.Segs[i], cs.Segs[j] = cs.Segs[j], cs.Segs[i]
	}
	if r.Chance(10) && len(cs.Segs) > 0 { // unsound statistics: correspondence only
		sg := &cs.Segs[r.Intn(len(cs.Segs))]
		k := r.Intn(4)
		if sg.Stats[k] != nil {
			d := int64(r.Range(1, 4))
			if k%2 == 0 {
				sg.Stats[k] = c36P64(*sg.Stats[k] + d)
			} else {
				sg.Stats[k] = c36P64(*sg.Stats[k] - d)
			}
		}
	}
	cs.Sound = c36StatsSound(cs)
	pick := func(vals []int64) *int64 {
		if len(vals) == 0 {
			return c36P64(int64(r.Range(0, 10)))
		}
		return c36P64(vals[r.Intn(len(vals))] + int64(r.Range(-1, 1)))
	}
	q := c36Query{Topic: 0, Default: 1000}
	if r.Chance(10) {
		q.Topic = 1
	}
	if r.Chance(25) {
		q.Default = r.Range(1, 4)
	}
	if r.Chance(40) {
		p := int32(r.Range(0, 2))
		q.Part = &p
	}
	if r.Chance(45) {
		q.OMin = pick(offs)
	}
	if r.Chance(45) {
		q.OMax = pick(offs)
	}
	if r.Chance(45) {
		q.TMin = pick(tss)
	}
	if r.Chance(45) {
		q.TMax = pick(tss)
	}
	if q.TMin != nil && q.TMax != nil && *q.TMax < *q.TMin && !r.Chance(5) {
		q.TMin, q.TMax = q.TMax, q.TMin
	}
	if r.Chance(50) {
		l := r.Range(0, 6)
		q.Limit = &l
	}
	if r.Chance(30) {
		t := r.Range(-1, 5)
		q.Tail = &t
	}
	switch r.Intn(10) {
	case 0, 1:
		q.Order = 1
	case 2, 3:
		q.Order = 2
	}
	if q.Order > 0 && q.Tail != nil && *q.Tail > 0 && !r.Chance(10) {
		q.Tail = nil
	}
	cs.Q = q
	return cs
}

func c36StatsSound(cs c36Case) bool {
	for _, sg := range cs.Segs {
		for _, r := range sg.Recs {
			if (sg.Stats[0] != nil && r.Off < *sg.Stats[0]) || (sg.Stats[1] != nil && r.Off > *sg.Stats[1]) ||
				(sg.Stats[2] != nil && r.Ts < *sg.Stats[2]) || (sg.Stats[3] != nil && r.Ts > *sg.Stats[3]) {
				return false
			}
		}
	}
	return true
}

func c36Valid(cs c36Case) bool {
	if len(cs.Segs) > 64 || cs.Q.Topic < 0 || cs.Q.Topic >= len(c36Topics) || cs.Q.Order < 0 || cs.Q.Order > 2 {
		return false
	}
	for _, sg := range cs.Segs {
		if len(sg.Stats) != 4 || sg.Topic < 0 || sg.Topic >= len(c36Topics) {
			return false
		}
		seen := map[int64]bool{}
		for _, r := range sg.Recs { // offsets identify a record within its segment (DataRow -> ts lookup)
			if seen[r.Off] {
				return false
			}
			seen[r.Off] = true
		}
	}
	return true
}

// ---------- Coq emission ----------

func c36O64(p *int64) string {
	if p == nil {
		return "None"
	}
	return "(Some " + cqZ(*p) + ")"
}
func c36OInt(p *int) string {
	if p == nil {
		return "None"
	}
	return "(Some " + cqZ(int64(*p)) + ")"
}

func c36CoqRows(rows []c36Row) string {
	items := make([]string, len(rows))
	for i, r := range rows {
		items[i] = fmt.Sprintf("(%d, %s, %s)", r.Part, cqZ(r.Off), cqZ(r.Ts))
	}
	return cqList(items)
}

func c36Coq(cs c36Case, out c36Out) string {
	segs := make([]string, len(cs.Segs))
	for i, sg := range cs.Segs {
		rs := make([]string, len(sg.Recs))
		for k, r := range sg.Recs {
			rs[k] = fmt.Sprintf("mkRec %s %s", cqZ(r.Off), cqZ(r.Ts))
		}
		segs[i] = fmt.Sprintf("mkSegment %d %d %s %s %s %s %s", sg.Topic, sg.Part, c36O64(sg.Stats[0]), c36O64(sg.Stats[1]), c36O64(sg.Stats[2]), c36O64(sg.Stats[3]), cqList(rs))
	}
	q := cs.Q
	part := "None"
	if q.Part != nil {
		part = fmt.Sprintf("(Some %d)", *q.Part)
	}
	order := "None"
	if q.Order == 1 {
		order = "(Some false)"
	} else if q.Order == 2 {
		order = "(Some true)"
	}
	qs := fmt.Sprintf("mkQuery %d %s %s %s %s %s %s %s %s %d", q.Topic, part, c36O64(q.OMin), c36O64(q.OMax), c36O64(q.TMin), c36O64(q.TMax), c36OInt(q.Limit), c36OInt(q.Tail), order, q.Default)
	obs := "None"
	if !out.rejected {
		obs = "(Some " + c36CoqRows(out.rows) + ")"
	}
	return fmt.Sprintf("mkCase %s (%s) %s", cqList(segs), qs, obs)
}

// ---------- driver ----------

func c36Corpus() []c36Case {
	i := func(v int) *int { return &v }
	p := func(v int32) *int32 { return &v }
	seg := func(part int32, st [4]*int64, recs ...c36Rec) c36Seg {
		return c36Seg{Topic: 0, Part: part, Stats: st[:], Recs: recs}
	}
	two := []c36Seg{
		seg(0, [4]*int64{c36P64(0), c36P64(2), c36P64(10), c36P64(30)}, c36Rec{0, 10}, c36Rec{1, 30}, c36Rec{2, 20}),
		seg(0, [4]*int64{c36P64(3), nil, nil, nil}, c36Rec{3, 25}, c36Rec{4, 40}),
	}
	return []c36Case{
		// offset bound exactly at the segment boundary (MaxOffset = next base - 1)
		{Segs: two, Q: c36Query{OMin: c36P64(2), OMax: c36P64(3), Default: 1000}, Sound: true},
		{Segs: two, Q: c36Query{OMin: c36P64(3), Default: 1000}, Sound: true},
		{Segs: two, Q: c36Query{OMax: c36P64(2), Default: 1000}, Sound: true},
		// time bound equal to a segment's max / min timestamp; second segment has no time statistics
		{Segs: two, Q: c36Query{TMin: c36P64(30), Default: 1000}, Sound: true},
		{Segs: two, Q: c36Query{TMax: c36P64(10), Default: 1000}, Sound: true},
		// tail + limit, tail 0, limit 0 with a small default limit, order by with ties and a limit
		{Segs: two, Q: c36Query{Tail: i(2), Limit: i(1), Default: 1000}, Sound: true},
		{Segs: two, Q: c36Query{Tail: i(0), Limit: i(4), Default: 3}, Sound: true},
		{Segs: two, Q: c36Query{Limit: i(0), Default: 2}, Sound: true},
		{Segs: two, Q: c36Query{Order: 2, Limit: i(2), Part: p(0), Default: 1000}, Sound: true},
		{Segs: two, Q: c36Query{Order: 1, Tail: i(2), Default: 1000}, Sound: true},
	}
}

func TestVerifC36(t *testing.T) {
	rep := vNewReport("C36", "generated listings (1-2 topics, 1-3 partitions, 1-4 contiguous segments each with 0-5 records, offset gaps, overlapping/out-of-order/tied timestamps; each of min/max offset and min/max timestamp present or absent per segment, ~10% of cases with unsound statistics for model correspondence only) x queries (partition filter, offset and time bounds chosen at and next to existing values, LIMIT 0-6, TAIL -1..5, ORDER BY _ts asc/desc, default limit 1000 or 1-4) through the real handleSelect (and as SQL text through handleQuery when expressible); non-trivial = at least one segment pruned and at least one row returned, or ORDER BY/TAIL/LIMIT cutting rows; distinct = distinct canonical case JSON")
	var coq, jsons []string
	runOne := func(cs c36Case) {
		if !c36Valid(cs) {
			rep.Notes = append(rep.Notes, "skipped invalid case")
			return
		}
		cs.Sound = c36StatsSound(cs)
		out, err := c36Run(cs)
		canon, _ := json.Marshal(cs)
		if err != nil {
			rep.Fail("harness", "harness-anomaly", err.Error(), cs)
			return
		}
		selected := 0
		for _, sg := range cs.Segs {
			if sg.Topic == cs.Q.Topic && (cs.Q.Part == nil || *cs.Q.Part == sg.Part) {
				selected++
			}
		}
		pruned := selected - len(out.decoded)
		cut := len(c36Matching(cs)) > len(out.rows)
		if pruned > 0 {
			rep.Hist("pruned-segments")
		}
		if cut {
			rep.Hist("rows-cut-by-limit-or-tail")
		}
		if out.rejected {
			rep.Hist("rejected")
		}
		if !cs.Sound {
			rep.Hist("unsound-stats")
		}
		if out.hasText {
			rep.Hist("also-as-text")
		}
		rep.Hist([]string{"order=none", "order=asc", "order=desc"}[cs.Q.Order])
		rep.Count(string(canon), (pruned > 0 && len(out.rows) > 0) || cut)
		rep.Sample(cs)
		if cs.Sound {
			if orc, key, what := c36Oracle(cs, out); orc != "" {
				shr := cs
				shr.Segs = vShrink(cs.Segs, func(segs []c36Seg) bool {
					c := cs
					c.Segs = segs
					o, e := c36Run(c)
					if e != nil || !c36StatsSound(c) {
						return false
					}
					or2, k2, _ := c36Oracle(c, o)
					return or2 == orc && k2 == key
				})
				o2, _ := c36Run(shr)
				if _, _, w2 := c36Oracle(shr, o2); w2 != "" {
					what = w2
				} else {
					shr = cs
				}
				rep.Fail(orc, key, what, shr)
			}
		}
		coq = append(coq, c36Coq(cs, out))
		jsons = append(jsons, string(canon))
	}
	if rc := vReplayCase(); rc != nil {
		var cs c36Case
		// other case kinds (discovery, end-to-end) are replayed by their own tests
		if err := json.Unmarshal(rc, &cs); err == nil && cs.Q.Default != 0 {
			runOne(cs)
		}
	} else {
		for _, cs := range c36Corpus() {
			runOne(cs)
		}
		r := vNewRand(vSeed())
		n := vN(450, 4000)
		for i := 0; i < n; i++ {
			runOne(c36Gen(r.Fork()))
		}
	}
	rep.Cases("C36", "From KS Require Import lib.Base model.SqlExec corr.SqlExecCorr.", "case", "check_case", coq, jsons)
	rep.WriteAs("C36")
	if len(rep.Failures) > 0 {
		t.Logf("oracle failures: %s", rep.Failures[0].What)
	}
}
